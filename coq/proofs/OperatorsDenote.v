(** C11 -- the synthesised assignments denote element-wise / matrix arithmetic. *)

From Coq Require Import ZArith String Ascii List Bool Lia ZifyBool.
From TV Require Import spec.Storage spec.PyBase model.Operators proofs.OperatorsBase.
Import ListNotations.
Open Scope Z_scope.
Open Scope string_scope.
Open Scope list_scope.

(** A term all of whose indexes are on the target is not summed over anything. *)
Lemma summed_indexes_closed target fs :
  (forall k, In k (flat_map factor_indexes fs) -> In k target) ->
  summed_indexes target fs = [].
Proof.
  intros H. unfold summed_indexes, term_indexes.
  assert (G : forall l, (forall k, In k l -> In k target) ->
                        filter (fun k => negb (mem_str k target)) l = []).
  { induction l as [|x l IH]; intros Hl; simpl; [reflexivity|].
    assert (Hx : mem_str x target = true) by (apply mem_str_In, Hl; left; reflexivity).
    rewrite Hx. simpl. apply IH. intros; apply Hl; right; assumption. }
  apply G. intros k Hk. apply H. apply -> dedup_In in Hk. assumption.
Qed.

Lemma eval_term_closed env target rho0 sgn fs :
  (forall k, In k (flat_map factor_indexes fs) -> In k target) ->
  eval_term env target rho0 (sgn, fs) =
  let v := fold_right Z.mul 1 (map (eval_factor env rho0) fs) in if sgn then - v else v.
Proof.
  intros H. unfold eval_term. simpl. rewrite summed_indexes_closed by assumption. reflexivity.
Qed.

Definition sign_apply (s : bool) (v : Z) : Z := if s then - v else v.

(** ** Element-wise operators *)

Lemma denote_pointwise_tt ld lm lo rd rm ro o q lv rv c :
  binary_operator_request (OTensor ld lm lo) (OTensor rd rm ro) o = Ok q ->
  length c = length ld ->
  denote_request q (OTensor ld lm lo) (OTensor rd rm ro) lv rv c = apply_op o (lv c) (rv c).
Proof.
  unfold binary_operator_request.
  destruct (list_eqb Z.eqb ld rd) eqn:E; simpl; [|discriminate].
  intros Hq Hc. inversion Hq; subst q; clear Hq.
  set (idx := index_names (length ld)).
  assert (Hmap : map (lookup (combine idx c)) idx = c).
  { apply map_lookup_combine; [apply index_names_NoDup | unfold idx; rewrite index_names_length; lia]. }
  unfold denote_request, denote_assignment. simpl a_target_indexes. simpl a_rhs.
  fold idx.
  destruct o; simpl monomials; simpl map; simpl fold_right;
    rewrite ?eval_term_closed by (simpl; intros k Hk; rewrite ?app_nil_r in Hk;
                                  try apply in_app_or in Hk; tauto);
    simpl; unfold request_env; simpl; rewrite ?Hmap; lia.
Qed.

Lemma denote_pointwise_ts ld lm lo o q lv rv c :
  binary_operator_request (OTensor ld lm lo) OScalar o = Ok q ->
  length c = length ld ->
  denote_request q (OTensor ld lm lo) OScalar lv rv c = apply_op o (lv c) (rv []).
Proof.
  unfold binary_operator_request.
  intros Hq Hc. inversion Hq; subst q; clear Hq.
  set (idx := index_names (length ld)).
  assert (Hmap : map (lookup (combine idx c)) idx = c).
  { apply map_lookup_combine; [apply index_names_NoDup | unfold idx; rewrite index_names_length; lia]. }
  unfold denote_request, denote_assignment. simpl a_target_indexes. simpl a_rhs.
  fold idx.
  destruct o; simpl monomials; simpl map; simpl fold_right;
    rewrite ?eval_term_closed by (simpl; intros k Hk; rewrite ?app_nil_r in Hk;
                                  try apply in_app_or in Hk; tauto);
    simpl; unfold request_env; simpl; rewrite ?Hmap; lia.
Qed.

Lemma denote_pointwise_st rd rm ro o q lv rv c :
  binary_operator_request OScalar (OTensor rd rm ro) o = Ok q ->
  length c = length rd ->
  denote_request q OScalar (OTensor rd rm ro) lv rv c = apply_op o (lv []) (rv c).
Proof.
  unfold binary_operator_request.
  intros Hq Hc. inversion Hq; subst q; clear Hq.
  set (idx := index_names (length rd)).
  assert (Hmap : map (lookup (combine idx c)) idx = c).
  { apply map_lookup_combine; [apply index_names_NoDup | unfold idx; rewrite index_names_length; lia]. }
  unfold denote_request, denote_assignment. simpl a_target_indexes. simpl a_rhs.
  fold idx.
  destruct o; simpl monomials; simpl map; simpl fold_right;
    rewrite ?eval_term_closed by (simpl; intros k Hk; rewrite ?app_nil_r in Hk;
                                  try apply in_app_or in Hk; tauto);
    simpl; unfold request_env; simpl; rewrite ?Hmap; lia.
Qed.

Theorem request_denotes_pointwise l r o q lv rv c :
  binary_operator_request l r o = Ok q ->
  length c = length (pointwise_dims l r) ->
  denote_request q l r lv rv c = apply_op o (broadcast l lv c) (broadcast r rv c).
Proof.
  destruct l as [ld lm lo| |], r as [rd rm ro| |]; simpl pointwise_dims; simpl broadcast;
    intros Hq Hc; try (simpl in Hq; discriminate).
  - apply denote_pointwise_tt; assumption.
  - apply denote_pointwise_ts; assumption.
  - apply denote_pointwise_st; assumption.
Qed.

(** ** Matrix multiplication *)

Theorem matmul_request_denotes l r q lv rv c :
  matmul_request l r = Ok q ->
  length c = length (matmul_dims l r) ->
  denote_request q l r lv rv c = matmul_spec l r lv rv c.
Proof.
  destruct l as [ld lm lo| |], r as [rd rm ro| |]; try (simpl; discriminate).
  unfold matmul_request.
  destruct ld as [|l0 [|l1 [|l2 ld]]]; destruct rd as [|r0 [|r1 [|r2 rd]]]; try discriminate.
  - (* vector . vector *)
    destruct (list_eqb Z.eqb [l0] [r0]) eqn:E; simpl negb; cbv iota; [|discriminate].
    intros Hq Hc. inversion Hq; subst q; clear Hq.
    destruct c; [|discriminate].
    unfold denote_request, denote_assignment, matmul_spec, request_env. cbn.
    rewrite Z.add_0_r. apply zsum_ext. intros j _. lia.
  - (* vector . matrix *)
    destruct (Z.eqb l0 r0) eqn:E; simpl negb; cbv iota; [|discriminate].
    destruct (mode_at_ordering rm ro 1); [|discriminate].
    intros Hq Hc. inversion Hq; subst q; clear Hq.
    destruct c as [|k [|]]; try discriminate.
    unfold denote_request, denote_assignment, matmul_spec, request_env. cbn.
    rewrite Z.add_0_r. apply zsum_ext. intros j _. lia.
  - (* matrix . vector *)
    destruct (Z.eqb l1 r0) eqn:E; simpl negb; cbv iota; [|discriminate].
    destruct (mode_at_ordering lm lo 0); [|discriminate].
    intros Hq Hc. inversion Hq; subst q; clear Hq.
    destruct c as [|i [|]]; try discriminate.
    unfold denote_request, denote_assignment, matmul_spec, request_env. cbn.
    rewrite Z.add_0_r. apply zsum_ext. intros j _. lia.
  - (* matrix . matrix *)
    destruct (Z.eqb l1 r0) eqn:E; simpl negb; cbv iota; [|discriminate].
    destruct (mode_at_ordering lm lo 0); [|discriminate].
    destruct (mode_at_ordering rm ro 1); [|discriminate].
    intros Hq Hc. inversion Hq; subst q; clear Hq.
    destruct c as [|i [|k [|]]]; try discriminate.
    unfold denote_request, denote_assignment, matmul_spec, request_env. cbn.
    rewrite Z.add_0_r. apply zsum_ext. intros j _. lia.
Qed.
