(** The printed tokens of an IR expression derive, under C's precedence grammar, the tree
    [embed (rotate e)] -- unbounded depth, by induction on the expression.  The induction is
    generalised over the accumulated left operand of a left-associative chain ([racc]). *)

From Coq Require Import ZArith Bool List String Lia.
From Flocq Require Import Core BinarySingleNaN.
From TV Require Import spec.Num gen.IRAst spec.CGrammar model.CPrint.
Import ListNotations.
Local Open Scope nat_scope.
Local Open Scope list_scope.

(** * Levels *)

Lemma derives_level_le l ts t : Derives l ts t -> l <= 9.
Proof. induction 1; try lia; destruct o; simpl; lia. Qed.

Lemma derives_sub l ts t : Derives l ts t -> forall l', l' <= l -> Derives l' ts t.
Proof.
  intros H l' Hle. replace l with ((l - l') + l') in H by lia.
  remember (l - l') as d eqn:Ed. clear Ed Hle.
  induction d as [|d IHd]; [exact H |].
  apply IHd. pose proof (derives_level_le _ _ _ H).
  apply D_sub; [lia | exact H].
Qed.

Lemma derives_paren l ts t : Derives l ts t -> forall l', l' <= 9 -> Derives l' (wrap ts) t.
Proof.
  intros H l' Hl. apply derives_sub with (l := 9); [| exact Hl].
  apply D_paren. apply derives_sub with (l := l); [exact H | lia].
Qed.

(** * Accumulators *)

Definition acc_op (acc : racc) : option (binop * expr) :=
  match acc with
  | RNone => None
  | RAdd a => Some (OAdd, a)
  | RMul a => Some (OMul, a)
  | RAnd a => Some (OAnd, a)
  | ROr a => Some (OOr, a)
  end.

Definition out_level (acc : racc) (e : expr) : nat :=
  match acc_op acc with None => level_of e | Some (o, _) => op_level o end.

Definition pre_ok (acc : racc) (pre : list ctoken) : Prop :=
  match acc_op acc with
  | None => pre = []
  | Some (o, a) => exists ts, pre = ts ++ [op_token o] /\ Derives (op_level o) ts (embed a)
  end.

Definition fits (acc : racc) (e : expr) : Prop :=
  match acc_op acc with None => True | Some (o, _) => op_level o <= level_of e end.

Definition IH (x : expr) : Prop :=
  forall acc pre, pre_ok acc pre -> fits acc x ->
    Derives (out_level acc x) (pre ++ cprint x) (embed (rot true x acc)).

Lemma embed_close acc e :
  embed (close acc e) =
  match acc_op acc with None => embed e | Some (o, a) => CBin o (embed a) (embed e) end.
Proof. destruct acc; reflexivity. Qed.

(** closing an accumulator over a completed right operand *)
Lemma close_derives acc pre ts lvl e' L :
  pre_ok acc pre ->
  Derives lvl ts (embed e') ->
  match acc_op acc with
  | None => L <= lvl
  | Some (o, _) => op_level o < lvl /\ L = op_level o
  end ->
  Derives L (pre ++ ts) (embed (close acc e')).
Proof.
  unfold pre_ok. intros Hp Hd HL. rewrite embed_close.
  destruct (acc_op acc) as [[o a]|].
  - destruct Hp as (ts0 & -> & Ha). destruct HL as (Hlt & ->).
    rewrite <- app_assoc. simpl.
    apply D_bin; [exact Ha |]. apply derives_sub with (l := lvl); [exact Hd | lia].
  - subst pre. simpl. apply derives_sub with (l := lvl); assumption.
Qed.

(** * Classes and levels *)

Lemma isinstance_nil e : isinstance e [] = false.
Proof. reflexivity. Qed.

Lemma level_add_class e :
  4 <= level_of e -> isinstance e [KAdd; KSubtract] = false -> 5 <= level_of e.
Proof.
  destruct e; simpl; intros; try lia; try discriminate;
    repeat match goal with |- context [if ?c then _ else _] => destruct c end; lia.
Qed.

Lemma level_mul_class e :
  5 <= level_of e -> is_Multiply e = false -> 6 <= level_of e.
Proof.
  destruct e; simpl; intros; try lia; try discriminate;
    repeat match goal with |- context [if ?c then _ else _] => destruct c end; lia.
Qed.

Lemma level_and_class e : isinstance e [KOr] = false -> 1 <= level_of e.
Proof.
  destruct e; simpl; intros; try lia; try discriminate;
    repeat match goal with |- context [if ?c then _ else _] => destruct c end; lia.
Qed.

Lemma rot_wrapped_addsub lg e acc :
  isinstance e [KAdd; KSubtract] = true -> chains_add acc = false \/ acc = RNone ->
  rot lg e acc = close acc (rot lg e RNone).
Proof.
  intros Hi [Hc | ->]; [| reflexivity].
  destruct e; try discriminate Hi; simpl; rewrite Hc; reflexivity.
Qed.

Lemma rot_wrapped_or e acc :
  isinstance e [KOr] = true -> chains_or acc = false \/ acc = RNone ->
  rot true e acc = close acc (rot true e RNone).
Proof.
  intros Hi [Hc | ->]; [| reflexivity].
  destruct e; try discriminate Hi; simpl; rewrite Hc; reflexivity.
Qed.

(** * Operands *)

(** a right operand, printed through [parens _ x ks], of an accumulator that is not [RNone] *)
Lemma right_operand x ks acc pre :
  IH x -> pre_ok acc pre -> acc_op acc <> None ->
  (isinstance x ks = true -> rot true x acc = close acc (rot true x RNone)) ->
  (isinstance x ks = false -> fits acc x) ->
  Derives (out_level acc x) (pre ++ parens (cprint x) x ks) (embed (rot true x acc)).
Proof.
  intros Hx Hp Hn Hw Hf. unfold parens. destruct (isinstance x ks) eqn:Ei.
  - rewrite (Hw eq_refl).
    apply close_derives with (lvl := 9); [exact Hp | |].
    + apply derives_paren with (l := level_of x); [| lia].
      specialize (Hx RNone [] eq_refl I). exact Hx.
    + unfold out_level. destruct (acc_op acc) as [[o a]|]; [| congruence].
      split; [destruct o; simpl; lia | reflexivity].
  - apply Hx; [exact Hp | exact (Hf eq_refl)].
Qed.

(** a left operand (or the only operand), printed through [parens _ x ks] *)
Lemma left_operand x ks acc pre L :
  IH x -> pre_ok acc pre ->
  (isinstance x ks = true -> rot true x acc = close acc (rot true x RNone)) ->
  (isinstance x ks = false -> fits acc x /\ L <= out_level acc x) ->
  match acc_op acc with None => L <= 9 | Some (o, _) => L = op_level o end ->
  Derives L (pre ++ parens (cprint x) x ks) (embed (rot true x acc)).
Proof.
  intros Hx Hp Hw Hf HL. unfold parens. destruct (isinstance x ks) eqn:Ei.
  - rewrite (Hw eq_refl).
    apply close_derives with (lvl := 9); [exact Hp | |].
    + apply derives_paren with (l := level_of x); [| lia].
      exact (Hx RNone [] eq_refl I).
    + destruct (acc_op acc) as [[o a]|]; [| exact HL].
      split; [destruct o; simpl; lia | exact HL].
  - destruct (Hf eq_refl) as (Hfit & Hle).
    apply derives_sub with (l := out_level acc x); [| exact Hle].
    apply Hx; assumption.
Qed.

(** an operand outside any chain: printed through [parens], required at level [L] *)
Lemma plain_operand x ks L :
  IH x -> (isinstance x ks = false -> L <= level_of x) -> L <= 9 ->
  Derives L (parens (cprint x) x ks) (embed (rot true x RNone)).
Proof.
  intros Hx Hf HL.
  change (parens (cprint x) x ks) with ([] ++ parens (cprint x) x ks).
  apply left_operand; auto.
  - reflexivity.
  - intros E. split; [exact I | exact (Hf E)].
Qed.

Lemma plain_operand_raw x L :
  IH x -> L <= level_of x -> Derives L (cprint x) (embed (rot true x RNone)).
Proof.
  intros Hx Hl. apply derives_sub with (l := level_of x); [| exact Hl].
  exact (Hx RNone [] eq_refl I).
Qed.

(** * Generic (non-chain) nodes: once the node itself is derived at its level, any accumulator whose
      operator binds looser closes over it *)
Definition not_chain_level (n : nat) : Prop := n <> 0 /\ n <> 1 /\ n <> 4 /\ n <> 5.

Lemma generic_node e e' :
  Derives (level_of e) (cprint e) (embed e') ->
  (forall acc, rot true e acc = close acc e') ->
  not_chain_level (level_of e) ->
  IH e.
Proof.
  intros Hd Hr Hne acc pre Hp Hf. rewrite Hr.
  apply close_derives with (lvl := level_of e); [exact Hp | exact Hd |].
  unfold out_level, fits, not_chain_level in *.
  destruct acc; simpl in *; try lia.
Qed.

Ltac level_ne :=
  unfold not_chain_level; simpl;
  repeat match goal with |- context [if ?c then _ else _] => destruct c end; lia.

Ltac split_ands :=
  repeat match goal with
         | H : _ && _ = true |- _ => apply andb_prop in H; destruct H
         | H : negb _ = true |- _ => apply negb_true_iff in H
         | H : (_ <=? _) = true |- _ => apply Nat.leb_le in H
         | H : (_ <? _) = false |- _ => apply Nat.ltb_ge in H
         end.

(** a binary operator whose operands never chain (comparisons) *)
Lemma binary_node o e l r :
  cprint e = cprint l ++ op_token o :: cprint r ->
  (forall acc, rot true e acc =
               close acc (match o with
                          | OEq => Equal | ONe => NotEqual | OLt => LessThan | OGt => GreaterThan
                          | OLe => LessThanOrEqual | OGe => GreaterThanOrEqual
                          | OAdd => Add | OSub => Subtract | OMul => Multiply | OAnd => And | OOr => Or
                          end (rot true l RNone) (rot true r RNone))) ->
  level_of e = op_level o -> (2 <= op_level o <= 3) ->
  IH l -> IH r -> op_level o <= level_of l -> S (op_level o) <= level_of r ->
  IH e.
Proof.
  intros Hc Hr Hl Hrange Il Ir Hll Hlr.
  eapply generic_node; [| exact Hr |].
  - rewrite Hc, Hl.
    replace (embed _) with (CBin o (embed (rot true l RNone)) (embed (rot true r RNone)))
      by (destruct o; reflexivity).
    apply D_bin; apply plain_operand_raw; assumption.
  - rewrite Hl. unfold not_chain_level. lia.
Qed.

(** * A chain node: [l OP r] for Add, Subtract, Multiply, And, Or.  [res L'] is the tree built once
      the left operand (continuing the accumulator's chain) has been parsed to [L']. *)
Section Chain.
  Variable lvl : nat.
  Variable mk : expr -> racc.            (* RAdd / RMul / RAnd / ROr *)
  Variable chains : racc -> bool.
  Hypothesis mk_op : forall a, exists o, acc_op (mk a) = Some (o, a) /\ op_level o = lvl.
  Hypothesis chains_spec : forall acc, chains acc = true -> acc = RNone \/ exists a, acc = mk a.
  Hypothesis chains_none : chains RNone = true.
  Hypothesis chains_level :
    forall acc o' a', chains acc = false -> acc_op acc = Some (o', a') -> op_level o' <> lvl.
  Hypothesis lvl9 : lvl <= 9.

  Lemma chain_node e l ksl (res : expr -> expr) (rts : list ctoken) :
    cprint e = parens (cprint l) l ksl ++ rts ->
    (forall acc, rot true e acc =
       if chains acc then res (rot true l acc) else close acc (res (rot true l RNone))) ->
    level_of e = lvl ->
    IH l ->
    (forall acc, isinstance l ksl = true -> chains acc = true ->
                 rot true l acc = close acc (rot true l RNone)) ->
    (isinstance l ksl = false -> lvl <= level_of l) ->
    (forall L' preL, Derives lvl preL (embed L') -> Derives lvl (preL ++ rts) (embed (res L'))) ->
    IH e.
  Proof.
    intros Hc Hr Hlev Il Hwrap Hll Hright.
    assert (Hchain : forall acc pre, chains acc = true -> pre_ok acc pre ->
               Derives lvl (pre ++ cprint e) (embed (rot true e acc))).
    { intros acc pre Hch Hp. rewrite Hr, Hch, Hc, app_assoc.
      apply Hright. apply left_operand; auto.
      - intros Ei. specialize (Hll Ei).
        destruct (chains_spec _ Hch) as [-> | (a & ->)]; unfold fits, out_level; simpl.
        + split; [exact I | exact Hll].
        + destruct (mk_op a) as (o & -> & Eo). split; lia.
      - destruct (chains_spec _ Hch) as [-> | (a & ->)]; simpl.
        + exact lvl9.
        + destruct (mk_op a) as (o & -> & Eo). symmetry; exact Eo. }
    intros acc pre Hp Hf. destruct (chains acc) eqn:Ech.
    - replace (out_level acc e) with lvl.
      + apply Hchain; assumption.
      + destruct (chains_spec _ Ech) as [-> | (a & ->)]; unfold out_level; simpl.
        * symmetry; exact Hlev.
        * destruct (mk_op a) as (o & -> & Eo). symmetry; exact Eo.
    - rewrite Hr, Ech.
      replace (res (rot true l RNone)) with (rot true e RNone)
        by (rewrite Hr, chains_none; reflexivity).
      apply close_derives with (lvl := lvl); [exact Hp | |].
      + exact (Hchain RNone [] chains_none eq_refl).
      + unfold out_level, fits in *.
        destruct (acc_op acc) as [[o' a']|] eqn:Eacc.
        * pose proof (chains_level _ _ _ Ech Eacc). split; [lia | reflexivity].
        * destruct acc; simpl in Eacc; try discriminate. congruence.
  Qed.
End Chain.

(** the right operand of a chain operator continues (or closes) the chain *)
Lemma chain_right (mk : expr -> racc) o r ks :
  (forall a, acc_op (mk a) = Some (o, a)) ->
  IH r ->
  (isinstance r ks = true -> forall a, rot true r (mk a) = close (mk a) (rot true r RNone)) ->
  (isinstance r ks = false -> op_level o <= level_of r) ->
  forall L' preL, Derives (op_level o) preL (embed L') ->
    Derives (op_level o) (preL ++ op_token o :: parens (cprint r) r ks) (embed (rot true r (mk L'))).
Proof.
  intros Hmk Ir Hw Hl L' preL HL.
  pose proof (right_operand r ks (mk L') (preL ++ [op_token o])) as HR.
  unfold out_level, pre_ok, fits in HR. rewrite Hmk in HR. rewrite <- app_assoc in HR. simpl in HR.
  apply HR; auto.
  - eexists; split; [reflexivity | exact HL].
  - discriminate.
Qed.

Lemma chains_add_spec acc : chains_add acc = true -> acc = RNone \/ exists a, acc = RAdd a.
Proof. destruct acc; simpl; intros; try discriminate; eauto. Qed.
Lemma chains_mul_spec acc : chains_mul acc = true -> acc = RNone \/ exists a, acc = RMul a.
Proof. destruct acc; simpl; intros; try discriminate; eauto. Qed.
Lemma chains_and_spec acc : chains_and acc = true -> acc = RNone \/ exists a, acc = RAnd a.
Proof. destruct acc; simpl; intros; try discriminate; eauto. Qed.
Lemma chains_or_spec acc : chains_or acc = true -> acc = RNone \/ exists a, acc = ROr a.
Proof. destruct acc; simpl; intros; try discriminate; eauto. Qed.

Ltac chain_level :=
  let acc := fresh "acc" in
  intros acc ? ? ? ?; destruct acc; simpl in *; try discriminate;
  match goal with H : Some _ = Some _ |- _ => inversion H; subst; simpl; lia end.

Lemma nine n : n <= 5 -> n <= 9. Proof. lia. Qed.

Definition add_chain_node :=
  chain_node 4 RAdd chains_add (fun a => ex_intro _ OAdd (conj eq_refl eq_refl)) chains_add_spec eq_refl
    ltac:(chain_level) ltac:(lia).
Definition mul_chain_node :=
  chain_node 5 RMul chains_mul (fun a => ex_intro _ OMul (conj eq_refl eq_refl)) chains_mul_spec eq_refl
    ltac:(chain_level) ltac:(lia).
Definition and_chain_node :=
  chain_node 1 RAnd chains_and (fun a => ex_intro _ OAnd (conj eq_refl eq_refl)) chains_and_spec eq_refl
    ltac:(chain_level) ltac:(lia).
Definition or_chain_node :=
  chain_node 0 ROr chains_or (fun a => ex_intro _ OOr (conj eq_refl eq_refl)) chains_or_spec eq_refl
    ltac:(chain_level) ltac:(lia).

(** * The main induction *)

Lemma int_tokens_derives z : Derives (level_of (IntegerLiteral z)) (int_tokens z) (embed_int z).
Proof.
  unfold int_tokens, embed_int. simpl. destruct (z <? 0)%Z.
  - apply D_neg. apply derives_sub with (l := 9); [apply D_int | lia].
  - apply D_int.
Qed.

Lemma float_tokens_derives f : Derives (level_of (FloatLiteral f)) (float_tokens f) (embed_float f).
Proof.
  unfold float_tokens, embed_float. simpl. destruct (Bsign f).
  - apply D_neg. apply derives_sub with (l := 9); [apply D_float | lia].
  - apply D_float.
Qed.

Lemma base_type_name t : is_base t = true -> exists s, base_name t = Some s /\ type_name t = [TTypeName s].
Proof.
  unfold is_base. destruct t; simpl; intros H; try discriminate H; eexists; split; reflexivity.
Qed.

Lemma sizeof_times_derives t n :
  is_base t = true -> IH n -> 4 <= level_of n -> is_Multiply n = false ->
  Derives 5 (TSizeof :: TLParen :: type_name t ++ TRParen :: TStar :: parens (cprint n) n [KAdd; KSubtract])
    (CBin OMul (CSizeof t) (embed (rot true n RNone))).
Proof.
  intros Hb In Hl Hm. destruct (base_type_name t Hb) as (s & Es & ->).
  change ([TTypeName s] ++ TRParen :: TStar :: ?x) with (TTypeName s :: TRParen :: TStar :: x).
  change (TSizeof :: TLParen :: TTypeName s :: TRParen :: TStar :: ?x)
    with ([TSizeof; TLParen; TTypeName s; TRParen] ++ op_token OMul :: x).
  apply (D_bin OMul).
  - apply derives_sub with (l := 7); [apply D_sizeof; exact Es | simpl; lia].
  - simpl. apply plain_operand; [exact In | | lia].
    intros Ei. apply level_mul_class; [| exact Hm]. apply level_add_class; assumption.
Qed.

Ltac use_ih :=
  repeat match goal with
         | IHx : prec_ok ?x = true -> IH ?x, H : prec_ok ?x = true |- _ => specialize (IHx H)
         end.

Theorem rot_derives : forall e, prec_ok e = true -> IH e.
Proof.
  induction e; intros Hok; cbn [prec_ok] in Hok; unfold loose in *; split_ands; use_ih.
  - (* Var *)
    apply generic_node with (e' := Var name); [apply D_id | reflexivity | level_ne].
  - (* AttributeAccess *)
    apply generic_node with (e' := AttributeAccess (rot true e RNone) attribute);
      [| reflexivity | level_ne].
    simpl. apply D_arrow. apply plain_operand_raw; assumption.
  - (* ArrayIndex *)
    apply generic_node with (e' := ArrayIndex (rot true e1 RNone) (rot true e2 RNone));
      [| reflexivity | level_ne].
    simpl. apply D_index; apply plain_operand_raw; auto; lia.
  - (* IntegerLiteral *)
    apply generic_node with (e' := IntegerLiteral value);
      [apply int_tokens_derives | reflexivity | level_ne].
  - (* FloatLiteral *)
    apply generic_node with (e' := FloatLiteral value);
      [apply float_tokens_derives | reflexivity | level_ne].
  - (* BooleanLiteral *)
    apply generic_node with (e' := BooleanLiteral value); [| reflexivity | level_ne].
    simpl. destruct value; [apply D_true | apply D_false].
  - (* Add *)
    apply (add_chain_node (Add e1 e2) e1 [] (fun L' => rot true e2 (RAdd L')) (TPlus :: cprint e2)).
    + reflexivity.
    + intros; reflexivity.
    + reflexivity.
    + assumption.
    + discriminate.
    + intros _; lia.
    + apply (chain_right RAdd OAdd e2 []); auto; try discriminate; try (intros _; simpl; lia).
  - (* Subtract *)
    apply (add_chain_node (Subtract e1 e2) e1 [] (fun L' => Subtract L' (rot true e2 RNone))
             (TMinus :: parens (cprint e2) e2 [KAdd; KSubtract])).
    + reflexivity.
    + intros; reflexivity.
    + reflexivity.
    + assumption.
    + discriminate.
    + intros _; lia.
    + intros L' preL HL. apply (D_bin OSub); [exact HL |].
      apply plain_operand; [assumption | | simpl; lia].
      intros Ei. simpl. apply level_add_class; [lia | exact Ei].
  - (* Multiply *)
    apply (mul_chain_node (Multiply e1 e2) e1 [KAdd; KSubtract] (fun L' => rot true e2 (RMul L'))
             (TStar :: parens (cprint e2) e2 [KAdd; KSubtract])).
    + reflexivity.
    + intros; reflexivity.
    + reflexivity.
    + assumption.
    + intros acc Ei Hch. apply rot_wrapped_addsub; [exact Ei |].
      destruct acc; simpl in *; try discriminate; auto.
    + intros Ei. apply level_add_class; [lia | exact Ei].
    + apply (chain_right RMul OMul e2 [KAdd; KSubtract]); auto.
      * intros Ei a. apply rot_wrapped_addsub; auto.
      * intros Ei. simpl. apply level_add_class; [lia | exact Ei].
  - (* Equal *)
    apply (binary_node OEq) with (l := e1) (r := e2); simpl; auto; lia.
  - (* NotEqual *)
    apply (binary_node ONe) with (l := e1) (r := e2); simpl; auto; lia.
  - (* GreaterThan *)
    apply (binary_node OGt) with (l := e1) (r := e2); simpl; auto; lia.
  - (* LessThan *)
    apply (binary_node OLt) with (l := e1) (r := e2); simpl; auto; lia.
  - (* GreaterThanOrEqual *)
    apply (binary_node OGe) with (l := e1) (r := e2); simpl; auto; lia.
  - (* LessThanOrEqual *)
    apply (binary_node OLe) with (l := e1) (r := e2); simpl; auto; lia.
  - (* And *)
    apply (and_chain_node (And e1 e2) e1 [KOr] (fun L' => rot true e2 (RAnd L'))
             (TAndAnd :: parens (cprint e2) e2 [KOr])).
    + reflexivity.
    + intros; reflexivity.
    + reflexivity.
    + assumption.
    + intros acc Ei Hch. apply rot_wrapped_or; [exact Ei |].
      destruct acc; simpl in *; try discriminate; auto.
    + intros Ei. apply level_and_class; exact Ei.
    + apply (chain_right RAnd OAnd e2 [KOr]); auto.
      * intros Ei a. apply rot_wrapped_or; auto.
      * intros Ei. simpl. apply level_and_class; exact Ei.
  - (* Or *)
    apply (or_chain_node (Or e1 e2) e1 [] (fun L' => rot true e2 (ROr L')) (TOrOr :: cprint e2)).
    + reflexivity.
    + intros; reflexivity.
    + reflexivity.
    + assumption.
    + discriminate.
    + intros _; lia.
    + apply (chain_right ROr OOr e2 []); auto; try discriminate; try (intros _; simpl; lia).
  - (* Max *)
    apply generic_node with (e' := Max (rot true e1 RNone) (rot true e2 RNone));
      [| reflexivity | level_ne].
    simpl. apply (D_call2 [TId "TACO_MAX"%string]).
    + apply derives_sub with (l := 9); [apply D_id | lia].
    + apply plain_operand_raw; [assumption | lia].
    + apply plain_operand_raw; [assumption | lia].
  - (* Min *)
    apply generic_node with (e' := Min (rot true e1 RNone) (rot true e2 RNone));
      [| reflexivity | level_ne].
    simpl. apply (D_call2 [TId "TACO_MIN"%string]).
    + apply derives_sub with (l := 9); [apply D_id | lia].
    + apply plain_operand_raw; [assumption | lia].
    + apply plain_operand_raw; [assumption | lia].
  - (* BooleanToInteger *)
    apply generic_node with (e' := BooleanToInteger (rot true e RNone)); [| reflexivity | level_ne].
    simpl. apply (D_cast TInteger "int32_t"%string); [reflexivity |].
    apply derives_paren with (l := level_of e); [| lia]. apply plain_operand_raw; [assumption | lia].
  - (* ArrayAllocate *)
    apply generic_node with (e' := ArrayAllocate element_type (rot true e RNone));
      [| reflexivity | level_ne].
    simpl.
    change (TId "malloc"%string :: TLParen :: ?x) with ([TId "malloc"%string] ++ TLParen :: x).
    match goal with |- Derives _ (_ ++ TLParen :: ?body) _ =>
      replace body with ((TSizeof :: TLParen :: type_name element_type ++ TRParen :: TStar ::
                            parens (cprint e) e [KAdd; KSubtract]) ++ [TRParen])
        by (simpl; rewrite <- app_assoc; reflexivity) end.
    apply D_call1.
    + apply derives_sub with (l := 9); [apply D_id | lia].
    + apply derives_sub with (l := 5); [| lia]. apply sizeof_times_derives; assumption.
  - (* ArrayReallocate *)
    apply generic_node with (e' := ArrayReallocate (rot true e1 RNone) element_type (rot true e2 RNone));
      [| reflexivity | level_ne].
    simpl.
    change (TId "realloc"%string :: TLParen :: ?x) with ([TId "realloc"%string] ++ TLParen :: x).
    match goal with |- Derives _ (_ ++ TLParen :: cprint e1 ++ TComma :: ?body) _ =>
      replace body with ((TSizeof :: TLParen :: type_name element_type ++ TRParen :: TStar ::
                            parens (cprint e2) e2 [KAdd; KSubtract]) ++ [TRParen])
        by (simpl; rewrite <- app_assoc; reflexivity) end.
    apply D_call2.
    + apply derives_sub with (l := 9); [apply D_id | lia].
    + apply plain_operand_raw; [assumption | lia].
    + apply derives_sub with (l := 5); [| lia]. apply sizeof_times_derives; assumption.
Qed.
