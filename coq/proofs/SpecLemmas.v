(** Basic facts about index sets, monomials and the specification. *)
From Coq Require Import ZArith List Bool String Permutation Ring_theory Ring Lia.
From TV Require Import spec.Storage spec.Spec proofs.SpecSums.
Import ListNotations.

(** * Sets of index names as lists *)

Lemma smem_In : forall k l, smem k l = true <-> In k l.
Proof.
  intros k l; unfold smem; rewrite existsb_exists; split.
  - intros [x [Hx He]]. apply String.eqb_eq in He; subst; auto.
  - intros H; exists k; split; auto. apply String.eqb_refl.
Qed.

Lemma smem_false : forall k l, smem k l = false <-> ~ In k l.
Proof.
  intros; rewrite <- smem_In. destruct (smem k l); split; intro H; congruence.
Qed.

Lemma In_nodup_iff : forall k (l : list string), In k (nodup string_dec l) <-> In k l.
Proof. intros; apply nodup_In. Qed.

(** * Monomials *)

Section Mono.
Variable R : Type.

Lemma midx_mmul : forall ma mb : monomial R, midx (mmul ma mb) = midx ma ++ midx mb.
Proof. intros; unfold midx, mmul; simpl. apply flat_map_app. Qed.

Lemma midx_mneg : forall m : monomial R, midx (mneg m) = midx m.
Proof. reflexivity. Qed.

Lemma in_mprod : forall (la lb : list (monomial R)) m,
  In m (mprod la lb) <-> exists ma mb, In ma la /\ In mb lb /\ m = mmul ma mb.
Proof.
  intros; unfold mprod; rewrite in_flat_map; split.
  - intros [ma [Ha Hm]]. apply in_map_iff in Hm. destruct Hm as [mb [E Hb]].
    exists ma, mb; auto.
  - intros [ma [mb [Ha [Hb E]]]]. exists ma; split; auto. apply in_map_iff; exists mb; auto.
Qed.

Lemma monomials_idx : forall (e : expr R) m, In m (monomials e) -> incl (midx m) (expr_idx e).
Proof.
  induction e; simpl; intros m H.
  - destruct H as [<- | []]. intros x [].
  - destruct H as [<- | []]. intros x [].
  - destruct H as [<- | []]. unfold midx; simpl. rewrite app_nil_r. apply incl_refl.
  - apply in_app_or in H; destruct H.
    + apply incl_appl; auto.
    + apply incl_appr; auto.
  - apply in_app_or in H; destruct H.
    + apply incl_appl; auto.
    + apply in_map_iff in H. destruct H as [m' [<- H]]. rewrite midx_mneg.
      apply incl_appr; auto.
  - apply in_mprod in H. destruct H as [ma [mb [Ha [Hb ->]]]].
    rewrite midx_mmul. apply incl_app.
    + apply incl_appl; auto.
    + apply incl_appr; auto.
Qed.

Lemma monomials_nonempty : forall e : expr R, monomials e <> [].
Proof.
  induction e; simpl; try discriminate.
  - destruct (monomials e1); simpl; [auto | discriminate].
  - destruct (monomials e1); simpl; [contradiction | discriminate].
  - destruct (monomials e1) as [|ma la]; [contradiction|].
    destruct (monomials e2) as [|mb lb]; [contradiction|]. simpl. discriminate.
Qed.

Lemma monomial_factors_nonempty : forall (e : expr R) m, In m (monomials e) -> snd m <> [].
Proof.
  induction e; simpl; intros m H.
  - destruct H as [<- | []]; discriminate.
  - destruct H as [<- | []]; discriminate.
  - destruct H as [<- | []]; discriminate.
  - apply in_app_or in H; destruct H; auto.
  - apply in_app_or in H; destruct H; auto.
    apply in_map_iff in H. destruct H as [m' [<- H]]. simpl; auto.
  - apply in_mprod in H. destruct H as [ma [mb [Ha [Hb ->]]]]. simpl.
    specialize (IHe1 _ Ha). destruct (snd ma); [contradiction | discriminate].
Qed.

End Mono.

Arguments midx_mmul {R}.
Arguments in_mprod {R}.
Arguments monomials_idx {R}.
Arguments monomials_nonempty {R}.
Arguments monomial_factors_nonempty {R}.

(** * Products of factors *)

Section Prod.
Variable O : ringops.
Hypothesis Oth : ring_ok O.
Let Oth' : ring_theory (@r0 O) (@r1 O) (@radd O) (@rmul O) (@rsub O) (@ropp O) (@eq O) := Oth.
Add Ring Oring2 : Oth'.

Variable E : env O.

Lemma eval_factor_depends : forall f : factor O,
  depends_on O (factor_idx f) (fun rho => eval_factor E rho f).
Proof.
  intros f rho rho' A. destruct f; simpl; auto.
  f_equal. apply map_ext_in. intros; apply A; auto.
Qed.

Lemma mono_prod_depends : forall m : monomial O, depends_on O (midx m) (mono_prod E m).
Proof.
  intros [s fs] rho rho' A. unfold mono_prod, midx in *; simpl in *.
  f_equal. apply map_ext_in. intros f Hf.
  apply eval_factor_depends. intros x Hx. apply A. apply in_flat_map; exists f; auto.
Qed.

Lemma mono_prod_val_ext : forall m : monomial O, val_ext O (mono_prod E m).
Proof. intros m; eapply depends_on_ext; apply mono_prod_depends. Qed.

Lemma mono_prod_mmul : forall (ma mb : monomial O) rho,
  mono_prod E (mmul ma mb) rho = rmul (mono_prod E ma rho) (mono_prod E mb rho).
Proof.
  intros; unfold mono_prod, mmul; simpl. rewrite map_app. apply rprod_app; auto.
Qed.

Lemma mono_prod_mneg : forall (m : monomial O) rho, mono_prod E (mneg m) rho = mono_prod E m rho.
Proof. reflexivity. Qed.

End Prod.
