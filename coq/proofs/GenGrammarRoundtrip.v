(** TIE "grammar" + TIE "deparse" -- end to end on REGENERATED functions only: the text printed by the
    regenerated [Assignment.deparse] (gen/Deparse.v) for a parsed float-free assignment is parsed back
    to the same tree by the regenerated grammar (gen/GrammarGen.v) under the interpreter of
    model/Parsita.v.  (C12_text_roundtrip_int on the generated printer and the generated parser.) *)

From Coq Require Import String Ascii List NArith ZArith Bool Arith Lia.
From TV Require Import spec.Num model.Parser model.Parsita spec.Grammar.
From TV Require gen.GrammarGen gen.Deparse proofs.ParserGrammar proofs.GenDeparse_equiv.
From TV Require Import proofs.GenGrammarExpr_equiv.
Import ListNotations.

Module GD := TV.gen.Deparse.

Definition no_float (ts : list token) : bool :=
  forallb (fun t => match t with TFloat _ => false | _ => true end) ts.

Lemma no_float_app : forall a b, no_float (a ++ b) = no_float a && no_float b.
Proof. intros. apply forallb_app. Qed.

Lemma no_float_tensor : forall x idx, no_float (tensor_toks x idx) = true.
Proof.
  intros x idx. unfold tensor_toks. cbn [no_float forallb]. fold (no_float (sep_names idx ++ [TRP])).
  rewrite no_float_app. cbn [no_float forallb]. rewrite andb_true_r.
  induction idx as [|a [|b t] IH]; try reflexivity. cbn [sep_names]. exact IH.
Qed.

Lemma derives_no_float :
  (forall ts e, DF ts e -> float_free e = true -> no_float ts = true)
  /\ (forall ts e, DT ts e -> float_free e = true -> no_float ts = true)
  /\ (forall ts e, DE ts e -> float_free e = true -> no_float ts = true).
Proof.
  apply D_mutind; intros; cbn [float_free] in *; try discriminate; auto.
  - apply no_float_tensor.
  - change (TLP :: ts ++ [TRP]) with ([TLP] ++ ts ++ [TRP]). rewrite !no_float_app, H0 by assumption. reflexivity.
  - apply andb_true_iff in H3 as [A B]. rewrite no_float_app. cbn [no_float forallb].
    fold (no_float ts2). rewrite H0, H2 by assumption. reflexivity.
  - apply andb_true_iff in H3 as [A B]. rewrite no_float_app. cbn [no_float forallb].
    fold (no_float ts2). rewrite H0, H2 by assumption. reflexivity.
  - apply andb_true_iff in H3 as [A B]. rewrite no_float_app. cbn [no_float forallb].
    fold (no_float ts2). rewrite H0, H2 by assumption. reflexivity.
Qed.

Lemma no_float_finite : forall fl ts, no_float ts = true -> floats_finite fl ts = true.
Proof.
  intros fl ts. unfold no_float, floats_finite. induction ts as [|t r IH]; [reflexivity|].
  cbn [forallb]. intros H. apply andb_true_iff in H as [A B]. rewrite (IH B).
  destruct t; try reflexivity. discriminate.
Qed.

Lemma conv_back : forall fl fdec e, float_free e = true ->
  TV.proofs.GenDeparse_equiv.conv fdec (back fl e) = e.
Proof.
  induction e; intros FF; cbn [back TV.proofs.GenDeparse_equiv.conv float_free] in *;
    try (apply andb_true_iff in FF as [A B]; rewrite IHe1, IHe2 by assumption); try reflexivity.
  - rewrite N2Z.id. reflexivity.
  - discriminate.
Qed.

Lemma nonneg_back : forall fl e, TV.proofs.GenDeparse_equiv.nonneg (back fl e) = true.
Proof.
  induction e; cbn [back TV.proofs.GenDeparse_equiv.nonneg]; try reflexivity;
    try (rewrite IHe1, IHe2; reflexivity).
  apply Z.leb_le. apply N2Z.is_nonneg.
Qed.

Theorem gen_grammar_deparse_roundtrip_int :
  forall (fl : dec -> F) (post : GD.ex_expr -> GD.ex_expr -> option string) (str_float : F -> string),
    (forall x idx e, post (GD.ExTensor x idx) (back fl e) = vexn (validate (Assign x idx e))) ->
    forall (s : string) a,
      Parser.parse_assignment s = POk a -> float_free (rhs a) = true ->
      GenGrammarExpr_equiv.GG.parse_assignment fl post
        (GD.ex_assignment_deparse str_float
           (GD.ExAssignment (GD.ExTensor (tname a) (tindexes a)) (back fl (rhs a))))
      = GenGrammarExpr_equiv.GG.PSuccess (back_asg fl a).
Proof.
  intros fl post str_float HP s a P FF.
  pose proof (TV.proofs.GenDeparse_equiv.gen_deparse_roundtrip_int (fun _ => Dec 0 0) str_float s a
                (back fl (rhs a)) P FF (conv_back fl _ (rhs a) FF) (nonneg_back fl (rhs a))) as RT.
  set (text := GD.ex_assignment_deparse str_float _) in *.
  unfold Parser.parse_assignment in RT. destruct (lex text) as [ts|] eqn:L; [|discriminate].
  pose proof (proj1 (TV.proofs.ParserGrammar.parse_tokens_iff_derives ts a) RT) as [D _].
  inversion D as [x idx ts' e DE]; subst.
  assert (NF : no_float (tensor_toks x idx ++ TEq :: ts') = true).
  { rewrite no_float_app, no_float_tensor. cbn [no_float forallb andb].
    apply (proj2 (proj2 derives_no_float) ts' e DE). exact FF. }
  rewrite (gen_parse_assignment_equiv_model fl post HP text _ L (no_float_finite fl _ NF)).
  unfold Parser.parse_assignment. rewrite L, RT. reflexivity.
Qed.
