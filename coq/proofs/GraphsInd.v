(** Induction principle for the nested inductive [graph] and the invariants used by the C08 proofs. *)
From Coq Require Import List String Bool Arith Lia.
From TV Require Import model.Graphs.
Import ListNotations.
Open Scope list_scope.

Section graph_ind2.
  Variable P : graph -> Prop.
  Hypothesis HT : forall e, P (TerminalNode e).
  Hypothesis HI : forall i o n, P n -> P (IterationNode i o n).
  Hypothesis HS : forall name ts, Forall P ts -> P (SumNode name ts).

  Fixpoint graph_ind2 (g : graph) : P g :=
    match g with
    | TerminalNode e => HT e
    | IterationNode i o n => HI i o n (graph_ind2 n)
    | SumNode name ts =>
        HS name ts ((fix go (l : list graph) : Forall P l :=
                       match l with
                       | [] => Forall_nil P
                       | t :: r => Forall_cons t (graph_ind2 t) (go r)
                       end) ts)
    end.
End graph_ind2.

Definition is_some {A} (o : option A) : bool := match o with Some _ => true | None => false end.

(** [goodb T k g]: an IterationNode carries an output layer exactly when its index variable is in
    [T], and every path from [g] to a terminal crosses exactly [k] nodes that carry one. *)
Fixpoint goodb (T : string -> bool) (k : nat) (g : graph) {struct g} : bool :=
  match g with
  | TerminalNode _ => Nat.eqb k 0
  | IterationNode i o n =>
      Bool.eqb (is_some o) (T i)
      && (if is_some o then match k with S k' => goodb T k' n | O => false end else goodb T k n)
  | SumNode _ ts => forallb (goodb T k) ts
  end.

(** no index variable is iterated twice on a path *)
Fixpoint nodup_paths (g : graph) : bool :=
  match g with
  | TerminalNode _ => true
  | IterationNode i _ n => negb (mem i (later_indexes n)) && nodup_paths n
  | SumNode _ ts => forallb nodup_paths ts
  end.

Lemma mem_In : forall s l, mem s l = true <-> In s l.
Proof.
  intros s l. unfold mem. rewrite existsb_exists. split.
  - intros [x [Hx E]]. apply String.eqb_eq in E. now subst.
  - intros H. exists s. split; [assumption | apply String.eqb_refl].
Qed.

Lemma mem_false : forall s l, mem s l = false <-> ~ In s l.
Proof.
  intros s l. rewrite <- mem_In. destruct (mem s l); split; intros; congruence.
Qed.

Lemma mem_incl : forall s l l', incl l l' -> mem s l' = false -> mem s l = false.
Proof. intros s l l' I H. apply mem_false. apply mem_false in H. auto. Qed.
