(** C11 -- concrete instances: the hypotheses of the C11 theorems are satisfiable and the
    statements say what they should on small examples (all by computation). *)

From Coq Require Import ZArith String List Bool.
From TV Require Import spec.Storage model.Operators.
Import ListNotations.
Open Scope Z_scope.
Open Scope string_scope.

Definition csr : operand := OTensor [2; 3] [MDense; MCompressed] [0%nat; 1%nat].
Definition csc : operand := OTensor [2; 3] [MDense; MCompressed] [1%nat; 0%nat].
Definition dense23 : operand := OTensor [2; 3] [MDense; MDense] [0%nat; 1%nat].
Definition mat32 : operand := OTensor [3; 2] [MCompressed; MCompressed] [0%nat; 1%nat].
Definition vec3 : operand := OTensor [3] [MCompressed] [0%nat].

Definition show (r : result request) : option (string * string) :=
  match r with
  | Ok q => Some (deparse_assignment (rq_assignment q), format_deparse (rq_format q))
  | Err _ => None
  end.

Example ex_add : show (python_operator PyAdd csr dense23)
                 = Some ("output(i0,i1) = left(i0,i1) + right(i0,i1)", "dd").
Proof. vm_compute. reflexivity. Qed.

Example ex_mul : show (python_operator PyMul csr dense23)
                 = Some ("output(i0,i1) = left(i0,i1) * right(i0,i1)", "ds").
Proof. vm_compute. reflexivity. Qed.

(** [2 - t] calls [t.__rsub__(2)]: the number stays on the left *)
Example ex_rsub : show (python_operator PySub OScalar csc)
                  = Some ("output(i0,i1) = left() - right(i0,i1)", "dd").
Proof. vm_compute. reflexivity. Qed.

Example ex_scalar_mul_keeps_format :
  show (python_operator PyMul csc OScalar) = Some ("output(i0,i1) = left(i0,i1) * right()", "d1s0").
Proof. vm_compute. reflexivity. Qed.

Example ex_matmul : show (python_operator PyMatmul csr mat32)
                    = Some ("output(i,k) = left(i,j) * right(j,k)", "ds").
Proof. vm_compute. reflexivity. Qed.

Example ex_shape : python_operator PyAdd csr mat32 = Err EShape.
Proof. vm_compute. reflexivity. Qed.

Example ex_matmul_shape : python_operator PyMatmul csr csr = Err EShape.
Proof. vm_compute. reflexivity. Qed.

Example ex_matmul_order :
  python_operator PyMatmul csr (OTensor [3; 1; 1] [MDense; MDense; MDense] [0; 1; 2]%nat)
  = Err EMatmulOrder.
Proof. vm_compute. reflexivity. Qed.

Example ex_not_implemented : python_operator PyMul OOther csr = Err ENotImplemented.
Proof. vm_compute. reflexivity. Qed.

Example ex_scalar_matmul : python_operator PyMatmul OScalar csr = Err ENotImplemented.
Proof. vm_compute. reflexivity. Qed.

(** values: L(i,j) = 10 i + j + 1 , R(i,j) = 100 (i + 1) + j ; a number is read at [] *)
Definition L (c : coord) : Z := match c with [i; j] => 10 * i + j + 1 | [j] => j + 1 | _ => 7 end.
Definition R (c : coord) : Z := match c with [i; j] => 100 * (i + 1) + j | [j] => 2 * j + 1 | _ => 5 end.

Definition denote_of (p : pyop) (a b : operand) (c : coord) : option Z :=
  match python_operator p a b with
  | Ok q => Some (denote_request q a b L R c)
  | Err _ => None
  end.

Example ex_sub_value : denote_of PySub csr dense23 [1; 2] = Some (L [1; 2] - R [1; 2]).
Proof. vm_compute. reflexivity. Qed.

Example ex_rsub_value : denote_of PySub OScalar csc [1; 2] = Some (7 - R [1; 2]).
Proof. vm_compute. reflexivity. Qed.

Example ex_sub_scalar_value : denote_of PySub csc OScalar [1; 2] = Some (L [1; 2] - 5).
Proof. vm_compute. reflexivity. Qed.

Example ex_matmul_value :
  denote_of PyMatmul csr mat32 [1; 0]
  = Some (L [1; 0] * R [0; 0] + L [1; 1] * R [1; 0] + L [1; 2] * R [2; 0]).
Proof. vm_compute. reflexivity. Qed.

Example ex_vecmat_value :
  denote_of PyMatmul vec3 mat32 [1] = Some (L [0] * R [0; 1] + L [1] * R [1; 1] + L [2] * R [2; 1]).
Proof. vm_compute. reflexivity. Qed.

Example ex_matvec_value :
  denote_of PyMatmul csr vec3 [1] = Some (L [1; 0] * R [0] + L [1; 1] * R [1] + L [1; 2] * R [2]).
Proof. vm_compute. reflexivity. Qed.

(** hypotheses of the wf / format theorems hold for these operands *)
Example ex_wf : forallb wf_operand [csr; csc; dense23; mat32; vec3; OScalar] = true.
Proof. vm_compute. reflexivity. Qed.

Example ex_natural : natural_operand csr && natural_operand dense23 && negb (natural_operand csc) = true.
Proof. vm_compute. reflexivity. Qed.

Example ex_checks :
  match python_operator PyMatmul csr mat32 with
  | Ok q => request_checks q csr mat32
  | Err _ => Fail CBind
  end = Pass [2; 2].
Proof. vm_compute. reflexivity. Qed.

(** [request_checks] is not vacuous: a hand-made request that breaks each rule is refused *)
Definition bad (a : assignment) (f : format) : checked (list Z) :=
  request_checks (mkRequest a f lr_bindings) csr dense23.

Example ex_refuse_mutating :
  bad (mkAssignment "left" ["i"; "j"] (EAdd (ETensor "left" ["i"; "j"]) (ETensor "right" ["i"; "j"])))
      (natural_format [MDense; MDense]) = Fail CMutating.
Proof. vm_compute. reflexivity. Qed.

Example ex_refuse_name_conflict :
  bad (mkAssignment "output" ["left"; "j"] (EAdd (ETensor "left" ["left"; "j"]) (ETensor "right" ["left"; "j"])))
      (natural_format [MDense; MDense]) = Fail CNameConflict.
Proof. vm_compute. reflexivity. Qed.

Example ex_refuse_inconsistent :
  bad (mkAssignment "output" ["i"; "j"] (EAdd (ETensor "left" ["i"; "j"]) (EMul (ETensor "left" ["i"]) (ETensor "right" ["i"; "j"]))))
      (natural_format [MDense; MDense]) = Fail CInconsistentOrders.
Proof. vm_compute. reflexivity. Qed.

Example ex_refuse_order :
  bad (mkAssignment "output" ["i"] (EAdd (ETensor "left" ["i"]) (ETensor "right" ["i"])))
      (natural_format [MDense]) = Fail CIncorrectDimensions.
Proof. vm_compute. reflexivity. Qed.

Example ex_refuse_broadcast :
  bad (mkAssignment "output" ["i"; "j"; "k"] (EAdd (ETensor "left" ["i"; "j"]) (ETensor "right" ["i"; "j"])))
      (natural_format [MDense; MDense; MDense]) = Fail CBroadcastTarget.
Proof. vm_compute. reflexivity. Qed.

Example ex_refuse_dimension :
  bad (mkAssignment "output" ["i"; "j"] (EAdd (ETensor "left" ["i"; "j"]) (ETensor "right" ["j"; "i"])))
      (natural_format [MDense; MDense]) = Fail CDimensionMismatch.
Proof. vm_compute. reflexivity. Qed.

Example ex_refuse_unbound :
  bad (mkAssignment "output" ["i"; "j"] (EAdd (ETensor "left" ["i"; "j"]) (ETensor "other" ["i"; "j"])))
      (natural_format [MDense; MDense]) = Fail CUnusedFormat.
Proof. vm_compute. reflexivity. Qed.
