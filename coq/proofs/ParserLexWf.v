(** C12 -- every tree the model parser returns for a STRING is well-formed ([wf_ast]); hence the
    character-level round trip of ParserLex.v applies to every accepted text.

    (1) [mkdec] returns decimals in normal form
    (2) the lexer only emits valid names and normalised floats
    (3) a derived tree only contains names / floats that occur as tokens of the sentence
    (4) parse_assignment s = POk a  ->  wf_ast a
    (5) text round trip: print what was parsed, parse it again, get the same tree *)

From Coq Require Import String Ascii List NArith ZArith Bool Arith Lia ZifyBool.
From TV Require Import model.Parser spec.Grammar proofs.ParserFuel proofs.ParserGrammar
  proofs.ParserFormat proofs.ParserLex.
Import ListNotations.

(* ------------------------------------------------------------------------------------------ *)
(** * (1) normal form of decimals *)

Lemma strip_zeros_S : forall fuel m e,
  strip_zeros (S fuel) m e =
  if (m =? 0)%N then Dec 0 0
  else if (m mod 10 =? 0)%N then strip_zeros fuel (m / 10)%N (e + 1)%Z
  else Dec m e.
Proof. reflexivity. Qed.

(** zero is spelled [Dec 0 0]; otherwise the mantissa is not a multiple of ten *)
Definition norm_pair (d : dec) : Prop :=
  d = Dec 0 0 \/ (dmant d <> 0%N /\ (dmant d mod 10)%N <> 0%N).

Lemma strip_zeros_norm : forall fuel m e, (m < 2 ^ N.of_nat fuel)%N ->
  norm_pair (strip_zeros (S fuel) m e).
Proof.
  induction fuel as [ | fuel IH]; intros m e H; rewrite strip_zeros_S.
  - change (N.of_nat 0) with 0%N in H. rewrite N.pow_0_r in H.
    assert (E : m = 0%N) by lia. subst m. left. reflexivity.
  - destruct (N.eqb_spec m 0) as [E0 | N0]; [left; reflexivity | ].
    destruct (N.eqb_spec (m mod 10) 0) as [E1 | N1].
    + apply IH. rewrite Nat2N.inj_succ, N.pow_succ_r' in H.
      apply N.div_lt_upper_bound; lia.
    + right. cbn [dmant]. split; assumption.
Qed.

Lemma mkdec_of_norm : forall d, norm_pair d -> mkdec (dmant d) (dexp d) = d.
Proof.
  intros [m e] [H | [H1 H2]].
  - inversion H. reflexivity.
  - cbn [dmant dexp] in *. unfold mkdec. rewrite strip_zeros_S.
    destruct (N.eqb_spec m 0) as [E0 | N0]; [contradiction | ].
    destruct (N.eqb_spec (m mod 10) 0) as [E1 | N1]; [contradiction | ].
    reflexivity.
Qed.

Lemma mkdec_norm_pair : forall m e, norm_pair (mkdec m e).
Proof. intros m e. unfold mkdec. apply strip_zeros_norm. apply N_lt_pow2_size_nat. Qed.

Lemma mkdec_norm : forall m e, dec_norm (mkdec m e).
Proof. intros m e. unfold dec_norm. apply mkdec_of_norm. apply mkdec_norm_pair. Qed.

(** [dec_norm] is exactly "zero is Dec 0 0, otherwise no trailing zero" *)
Lemma dec_norm_iff : forall d, dec_norm d <-> norm_pair d.
Proof.
  intro d. split.
  - intro H. unfold dec_norm in H. rewrite <- H. apply mkdec_norm_pair.
  - apply mkdec_of_norm.
Qed.

(* ------------------------------------------------------------------------------------------ *)
(** * (2) what the lexer emits *)

Definition tok_ok (t : token) : Prop :=
  match t with
  | TName s => valid_name s = true
  | TFloat f => dec_norm f
  | _ => True
  end.

(** the optional fraction part of a number, as in [lex_number] *)
Definition frac_of (r0 : list ascii) : option (list ascii * list ascii) :=
  match r0 with
  | "."%char :: r1 =>
      let (fp, r2) := take_while is_digit r1 in
      match fp with [] => None | _ => Some (fp, r2) end
  | _ => None
  end.

Lemma lex_number_eq : forall s,
  lex_number s =
  let (ip, r0) := take_while is_digit s in
  match frac_of r0 with
  | Some (fp, r2) =>
      match lex_exponent r2 with
      | Some (e, r3) =>
          (TFloat (mkdec (digits_val (ip ++ fp)) (e - Z.of_nat (length fp))%Z), r3)
      | None => (TFloat (mkdec (digits_val (ip ++ fp)) (- Z.of_nat (length fp))%Z), r2)
      end
  | None =>
      match lex_exponent r0 with
      | Some (e, r3) => (TFloat (mkdec (digits_val ip) e), r3)
      | None => (TInt (digits_val ip), r0)
      end
  end.
Proof. reflexivity. Qed.

Lemma lex_number_tok_ok : forall s t r, lex_number s = (t, r) -> tok_ok t.
Proof.
  intros s t r. rewrite lex_number_eq.
  destruct (take_while is_digit s) as [ip r0].
  destruct (frac_of r0) as [[fp r2] | ];
    [destruct (lex_exponent r2) as [[e r3] | ] | destruct (lex_exponent r0) as [[e r3] | ]];
    intro H; inversion H; subst; cbn [tok_ok]; try apply mkdec_norm; exact I.
Qed.

Lemma punct_tok_ok : forall c, tok_ok (punct c).
Proof. intro c. unfold punct. repeat destruct (Ascii.eqb c _); exact I. Qed.

(** a maximal alphanumeric run that starts with a letter is a valid name *)
Lemma name_tok_ok : forall c r nm r', is_alpha c = true ->
  take_while is_alnum (c :: r) = (nm, r') -> valid_name (string_of_list_ascii nm) = true.
Proof.
  intros c r nm r' Ea T. cbn [take_while] in T. rewrite (alpha_alnum c Ea) in T.
  destruct (take_while is_alnum r) as [a b] eqn:T2. inversion T. subst nm r'. clear T.
  apply take_while_spec in T2. destruct T2 as (_ & Ha & _).
  unfold valid_name. rewrite list_ascii_of_string_of_list_ascii, Ea, Ha. reflexivity.
Qed.

Lemma lex_fuel_tok_ok : forall n l ts, lex_fuel n l = Some ts -> Forall tok_ok ts.
Proof.
  induction n as [ | n IH]; intros l ts H.
  - destruct l; [ | discriminate H]. inversion H. constructor.
  - destruct l as [ | c r]; [inversion H; constructor | ].
    assert (K : forall t r', tok_ok t -> cons_tok t (lex_fuel n r') = Some ts ->
                             Forall tok_ok ts).
    { intros t r' Ht E. destruct (lex_fuel n r') as [l0 | ] eqn:E0; [ | discriminate E].
      cbn [cons_tok] in E. inversion E. constructor; [exact Ht | exact (IH _ _ E0)]. }
    cbn [lex_fuel] in H.
    destruct (Ascii.eqb c " "); [exact (IH _ _ H) | ].
    destruct (is_alpha c) eqn:Ea.
    + destruct (take_while is_alnum (c :: r)) as [nm r'] eqn:T.
      apply (K (TName (string_of_list_ascii nm)) r'); [ | exact H]. cbn [tok_ok]. exact (name_tok_ok c r nm r' Ea T).
    + destruct (is_digit c).
      * destruct (lex_number (c :: r)) as [t r'] eqn:E.
        apply (K t r'); [exact (lex_number_tok_ok _ _ _ E) | exact H].
      * apply (K (punct c) r); [apply punct_tok_ok | exact H].
Qed.

Lemma lex_tok_ok : forall s ts, lex s = Some ts -> Forall tok_ok ts.
Proof. intros s ts H. unfold lex in H. cbv zeta in H. exact (lex_fuel_tok_ok _ _ _ H). Qed.

(* ------------------------------------------------------------------------------------------ *)
(** * (3) the tree only contains names / floats that occur as tokens *)

Lemma sep_names_tok_ok : forall idx, Forall tok_ok (sep_names idx) -> forallb valid_name idx = true.
Proof.
  induction idx as [ | x t IH]; intro H; [reflexivity | ].
  destruct t as [ | y t'].
  - cbn [sep_names] in H. apply Forall_inv in H. cbn [tok_ok] in H.
    cbn [forallb]. rewrite H. reflexivity.
  - change (sep_names (x :: y :: t')) with (TName x :: TComma :: sep_names (y :: t')) in H.
    apply Forall_cons_iff in H. destruct H as [Hx H].
    apply Forall_cons_iff in H. destruct H as [_ H].
    change (forallb valid_name (x :: y :: t'))
      with (valid_name x && forallb valid_name (y :: t')).
    cbn [tok_ok] in Hx. rewrite Hx, (IH H). reflexivity.
Qed.

Lemma tensor_tok_ok : forall x idx, Forall tok_ok (tensor_toks x idx) ->
  valid_name x = true /\ forallb valid_name idx = true.
Proof.
  intros x idx H. unfold tensor_toks in H.
  apply Forall_cons_iff in H. destruct H as [Hx H].
  apply Forall_cons_iff in H. destruct H as [_ H].
  apply Forall_app in H. destruct H as [H _].
  split; [exact Hx | exact (sep_names_tok_ok idx H)].
Qed.

Definition okP (ts : list token) (e : expr) : Prop :=
  Forall tok_ok ts -> names_ok e = true /\ floats_ok e.

Lemma okP_binop : forall (op : token) ts1 ts2 l r,
  okP ts1 l -> okP ts2 r -> Forall tok_ok (ts1 ++ op :: ts2) ->
  (names_ok l && names_ok r = true) /\ (floats_ok l /\ floats_ok r).
Proof.
  intros op ts1 ts2 l r IH1 IH2 H. apply Forall_app in H. destruct H as [H1 H2].
  apply Forall_cons_iff in H2. destruct H2 as [_ H2].
  destruct (IH1 H1) as [N1 F1]. destruct (IH2 H2) as [N2 F2].
  rewrite N1, N2. split; [reflexivity | split; assumption].
Qed.

Lemma derives_tok_ok :
  (forall ts e, DF ts e -> Forall tok_ok ts -> names_ok e = true /\ floats_ok e) /\
  (forall ts e, DT ts e -> Forall tok_ok ts -> names_ok e = true /\ floats_ok e) /\
  (forall ts e, DE ts e -> Forall tok_ok ts -> names_ok e = true /\ floats_ok e).
Proof.
  apply (D_mutind okP okP okP); unfold okP.
  - intros n _. split; [reflexivity | exact I].
  - intros f H. apply Forall_inv in H. split; [reflexivity | exact H].
  - intros x idx H. apply tensor_tok_ok in H. destruct H as [Hx Hi].
    cbn [names_ok floats_ok]. rewrite Hx, Hi. split; [reflexivity | exact I].
  - intros ts e _ IH H. apply IH.
    apply Forall_cons_iff in H. destruct H as [_ H].
    apply Forall_app in H. apply H.
  - intros ts e _ IH H. exact (IH H).
  - intros ts1 ts2 t f _ IH1 _ IH2 H. cbn [names_ok floats_ok].
    exact (okP_binop TStar ts1 ts2 t f IH1 IH2 H).
  - intros ts e _ IH H. exact (IH H).
  - intros ts1 ts2 e t _ IH1 _ IH2 H. cbn [names_ok floats_ok].
    exact (okP_binop TPlus ts1 ts2 e t IH1 IH2 H).
  - intros ts1 ts2 e t _ IH1 _ IH2 H. cbn [names_ok floats_ok].
    exact (okP_binop TMinus ts1 ts2 e t IH1 IH2 H).
Qed.

(** token level: a sentence of good tokens has a well-formed tree *)
Lemma parse_tokens_wf : forall ts a, Forall tok_ok ts -> parse_tokens ts = POk a -> wf_ast a.
Proof.
  intros ts a L H. apply parse_tokens_sound in H. destruct H as [D V].
  inversion D as [x idx ts' e Hde Ets Ea]. subst ts a.
  apply Forall_app in L. destruct L as [L1 L2].
  apply Forall_cons_iff in L2. destruct L2 as [_ L2].
  apply tensor_tok_ok in L1. destruct L1 as [Vx Vi].
  destruct (proj2 (proj2 derives_tok_ok) _ _ Hde L2) as [NO FO].
  unfold wf_ast. cbn [tname tindexes rhs].
  split; [exact V | ]. split; [exact Vx | ]. split; [exact Vi | ]. split; [exact NO | exact FO].
Qed.

(* ------------------------------------------------------------------------------------------ *)
(** * (4) every accepted text has a well-formed tree *)

Theorem parse_assignment_wf : forall s a, parse_assignment s = POk a -> wf_ast a.
Proof.
  intros s a H. unfold parse_assignment in H.
  destruct (lex s) as [ts | ] eqn:L; [ | discriminate H].
  exact (parse_tokens_wf ts a (lex_tok_ok s ts L) H).
Qed.

(* ------------------------------------------------------------------------------------------ *)
(** * (5) character-level round trip for every accepted text *)

Theorem text_roundtrip :
  forall (show_float : dec -> list ascii),
    (forall f rest, dec_norm f -> delim rest ->
        (exists c r, show_float f = c :: r /\ is_digit c = true)
        /\ lex_number (show_float f ++ rest) = (TFloat f, rest)) ->
    forall s a, parse_assignment s = POk a ->
      parse_assignment (string_of_list_ascii (print_assignment show_float a)) = POk a.
Proof.
  intros sf Hc s a H. apply (print_parse_roundtrip sf Hc). exact (parse_assignment_wf s a H).
Qed.

Corollary text_roundtrip_canonical : forall s a, parse_assignment s = POk a ->
  parse_assignment (string_of_list_ascii (print_assignment show_dec_canonical a)) = POk a.
Proof.
  intros s a H. apply print_parse_roundtrip_canonical. exact (parse_assignment_wf s a H).
Qed.

Corollary text_roundtrip_int : forall show_float s a, parse_assignment s = POk a ->
  float_free (rhs a) = true ->
  parse_assignment (string_of_list_ascii (print_assignment show_float a)) = POk a.
Proof.
  intros sf s a H F. apply print_parse_roundtrip_int; [ | exact F].
  exact (parse_assignment_wf s a H).
Qed.

(** parsing is idempotent through the printer: the printed text is a normal form of the text *)
Corollary text_reprint_fixpoint : forall s a, parse_assignment s = POk a ->
  let s' := string_of_list_ascii (print_assignment show_dec_canonical a) in
  parse_assignment s' = POk a /\
  forall a', parse_assignment s' = POk a' ->
    string_of_list_ascii (print_assignment show_dec_canonical a') = s'.
Proof.
  intros s a H s'. pose proof (text_roundtrip_canonical s a H) as R. fold s' in R.
  split; [exact R | ]. intros a' H'. rewrite R in H'. inversion H' as [E]. rewrite <- E. reflexivity.
Qed.

(* ------------------------------------------------------------------------------------------ *)
(** * Examples *)

Local Open Scope string_scope.   (* only string literals below; no [++] *)

Definition ex_text : string := "A(i,j) = (B(i,k) + 2.50) * C2(k,j) - 007".

Definition ex_tree : assignment :=
  Assign "A" ["i"; "j"]
    (ESub (EMul (EAdd (ETensor "B" ["i"; "k"]) (EFloat (Dec 25 (-1)))) (ETensor "C2" ["k"; "j"]))
          (EInt 7)).

Example ex_text_parses : parse_assignment ex_text = POk ex_tree.
Proof. vm_compute. reflexivity. Qed.

Example ex_tree_wf : wf_ast ex_tree.
Proof. exact (parse_assignment_wf ex_text ex_tree ex_text_parses). Qed.

(** the printed form of the tree: blanks, leading zeros and the float spelling are normalised *)
Example ex_tree_text :
  string_of_list_ascii (print_assignment show_dec_canonical ex_tree)
  = "A(i,j) = (B(i,k) + 25e-1) * C2(k,j) - 7".
Proof. vm_compute. reflexivity. Qed.

Example ex_text_roundtrip :
  parse_assignment "A(i,j) = (B(i,k) + 25e-1) * C2(k,j) - 7" = POk ex_tree.
Proof. rewrite <- ex_tree_text. exact (text_roundtrip_canonical ex_text ex_tree ex_text_parses). Qed.

(** zero mantissas: every spelling of zero is [Dec 0 0] *)
Example ex_zero : mkdec 0 5 = Dec 0 0 /\ mkdec 1200 (-3) = Dec 12 (-1).
Proof. split; vm_compute; reflexivity. Qed.
