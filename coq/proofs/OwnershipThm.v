(* C13 — theorems over arbitrary histories of the ownership protocol model. *)
From Coq Require Import List Arith Bool Lia PeanoNat.
From TV Require Import model.Ownership proofs.OwnershipBase proofs.OwnershipInv.
Import ListNotations.

Lemma run_from_snoc : forall eager st ops o,
  run_from eager st (ops ++ [o]) =
  let t := run_from eager st ops in
  let '(st', fr, oc) := step eager (t_state t) o in
  {| t_state := st'; t_frees := t_frees t ++ fr; t_outcomes := t_outcomes t ++ [oc] |}.
Proof. intros. unfold run_from. rewrite fold_left_app. reflexivity. Qed.

Definition ends_collected (eager : bool) (ops : list op) : Prop :=
  eager = true \/ exists ops', ops = ops' ++ [Collect].

Lemma run_spec : forall eager ops,
  let t := run eager ops in
  Inv (t_state t) /\ Acc (t_state t) (t_frees t) /\ ~ In Fault (t_outcomes t) /\
  (ends_collected eager ops -> swept (t_state t)).
Proof.
  intros eager ops. induction ops as [|o ops IH] using rev_ind.
  - simpl. split; [apply inv_init|]. split; [apply acc_init|]. split; [tauto|].
    intros _ a Ha. contradiction.
  - unfold run in *. rewrite run_from_snoc. cbv zeta in *.
    destruct IH as [I [A [NF _]]].
    pose proof (step_spec eager _ o _ I A) as S.
    destruct (step eager (t_state (run_from eager init ops)) o) as [[st' fr] oc].
    destruct S as [I' [A' [O' Sw]]]. simpl.
    split; [exact I'|]. split; [exact A'|]. split.
    + intro H. apply in_app_or in H. destruct H as [H|[H|[]]]; [now apply NF|now apply O'].
    + intros [E|[ops' E]]; apply Sw; unfold sweeps.
      * now rewrite E.
      * apply app_inj_tail in E. destruct E as [_ E]. subst o. apply orb_true_r.
Qed.

(* no block is released twice; free() is never called twice on an address; every array reachable from a
   name through a structure is live and has never been passed to free; no operation touches a released array *)
Theorem ownership_safe : forall eager ops,
  let t := run eager ops in
  ~ In Fault (t_outcomes t) /\
  (forall a b, In (a, b) (heap (t_state t)) -> b_status b = Live \/ b_status b = Freed 1) /\
  NoDup (t_frees t) /\
  (forall a, reaches (t_state t) a -> is_live (t_state t) a = true /\ ~ In a (t_frees t)).
Proof.
  intros eager ops t. destruct (run_spec eager ops) as [I [A [NF _]]]. fold t in I, A, NF.
  assert (St : forall a b, In (a, b) (heap (t_state t)) -> b_status b = Live \/ b_status b = Freed 1).
  { intros a b Hb. destruct (inv_status _ I a b Hb) as [L F].
    destruct (in_dec Nat.eq_dec a (all_fields (t_state t))); [left; auto|right; auto]. }
  split; [exact NF|]. split; [exact St|]. split.
  - apply (NoDup_count_occ Nat.eq_dec). intros a.
    destruct (in_dec Nat.eq_dec a (t_frees t)) as [Ha|Ha].
    + destruct (acc_in _ _ A a Ha) as [b [Hb Hk]]. rewrite (acc_count _ _ A a b Hb Hk).
      destruct (St a b Hb) as [E|E]; rewrite E; simpl; lia.
    + apply (count_occ_not_In Nat.eq_dec) in Ha. lia.
  - intros a [n [v [f [Hn [Hf Ha]]]]].
    assert (Hin : In a (all_fields (t_state t))) by (eapply fields_of_incl; eauto).
    split; [now apply is_live_field|].
    intro Hfr. destruct (acc_in _ _ A a Hfr) as [b [Hb Hk]].
    pose proof (acc_count _ _ A a b Hb Hk) as C.
    destruct (inv_status _ I a b Hb) as [L _]. rewrite (L Hin) in C. simpl in C.
    apply (count_occ_In Nat.eq_dec) in Hfr. lia.
Qed.

(* TensorMethod.__call__ releases nothing, never fails on a released array, leaves every existing block,
   structure and holder exactly as it was, and the holder it fills owns only blocks that did not exist before *)
Theorem eval_preserves_existing : forall eager ops ins sh,
  let st := t_state (run eager ops) in
  let '(st', w, fr, oc) := eval_call st ins sh in
  fr = [] /\ oc <> Fault /\
  (forall a b, In (a, b) (heap st) -> In (a, b) (heap st')) /\
  (forall s f, In (s, f) (structs st) -> In (s, f) (structs st')) /\
  (forall s h, In (s, h) (wkd st) -> In (s, h) (wkd st')) /\
  (forall s h e, In (s, h) (wkd st') -> In e h -> In (s, h) (wkd st) \/ ~ In (haddr e) (keys (heap st))).
Proof.
  intros eager ops ins sh st. destruct (run_spec eager ops) as [I _]. fold st in I.
  destruct (input_fields st ins) as [inf|] eqn:Hin.
  - rewrite (eval_call_ok st ins sh inf I Hin). simpl.
    split; [reflexivity|]. split; [discriminate|]. split; [|split; [|split]].
    + intros a b H. apply in_or_app. now left.
    + intros s f H. now right.
    + intros s h H. now right.
    + intros s h e [H|H] He; [|now left]. right. inversion H; subst.
      apply in_map_iff in He. destruct He as [x [Ex Hx]]. subst e. simpl. intro Hk.
      apply (inv_fresh_heap st I) in Hk. apply in_seq in Hx. lia.
  - unfold eval_call. rewrite Hin.
    split; [reflexivity|]. split; [discriminate|]. repeat split; auto.
Qed.

(* once the reference-counting cascade has run: a kernel block is either still referenced from a name (and
   live, never freed) or free() has been called on it exactly once *)
Lemma no_leak_swept : forall eager ops,
  ends_collected eager ops ->
  let t := run eager ops in
  forall a b, In (a, b) (heap (t_state t)) -> b_kind b = Kernel ->
    (reaches (t_state t) a /\ b_status b = Live /\ count_occ Nat.eq_dec (t_frees t) a = 0) \/
    (~ reaches (t_state t) a /\ b_status b = Freed 1 /\ count_occ Nat.eq_dec (t_frees t) a = 1).
Proof.
  intros eager ops E t a b Hb Hk. destruct (run_spec eager ops) as [I [A [_ Sw]]]. fold t in I, A, Sw.
  specialize (Sw E). destruct (inv_status _ I a b Hb) as [L F].
  pose proof (acc_count _ _ A a b Hb Hk) as C.
  destruct (in_dec Nat.eq_dec a (all_fields (t_state t))) as [Hin|Hin].
  - left. split; [now apply Sw|]. rewrite (L Hin) in *. auto.
  - right. split.
    + intros [n [v [f [Hn [Hf Ha]]]]]. apply Hin. eapply fields_of_incl; eauto.
    + rewrite (F Hin) in *. auto.
Qed.

Theorem no_leak : forall eager ops,
  let t := run eager (ops ++ [Collect]) in
  forall a b, In (a, b) (heap (t_state t)) -> b_kind b = Kernel ->
    (reaches (t_state t) a /\ b_status b = Live /\ count_occ Nat.eq_dec (t_frees t) a = 0) \/
    (~ reaches (t_state t) a /\ b_status b = Freed 1 /\ count_occ Nat.eq_dec (t_frees t) a = 1).
Proof. intros eager ops. apply no_leak_swept. right. now exists ops. Qed.

(* with CPython's immediate reference counting no gc.collect() is needed *)
Theorem no_leak_refcounting : forall ops,
  let t := run true ops in
  forall a b, In (a, b) (heap (t_state t)) -> b_kind b = Kernel ->
    (reaches (t_state t) a /\ b_status b = Live /\ count_occ Nat.eq_dec (t_frees t) a = 0) \/
    (~ reaches (t_state t) a /\ b_status b = Freed 1 /\ count_occ Nat.eq_dec (t_frees t) a = 1).
Proof. intros ops. apply no_leak_swept. now left. Qed.

(* the structural invariant itself: each kernel block that is still live has exactly one owner entry
   (an ffi.gc wrapper), held by exactly one holder, keyed by the one structure whose fields point to it *)
Theorem unique_owner : forall eager ops,
  let st := t_state (run eager ops) in
  Forall2 (fun p q => fst p = fst q /\ map haddr (snd q) = snd p) (structs st) (wkd st) /\
  NoDup (flat_map snd (structs st)) /\
  NoDup (map fst (structs st)) /\
  (forall a b, In (a, b) (heap st) -> (b_status b = Live <-> In a (flat_map snd (structs st)))) /\
  (forall s h e, In (s, h) (wkd st) -> In e h ->
     exists b, In (haddr e, b) (heap st) /\
               match e with HGc _ => b_kind b = Kernel | HNew _ => b_kind b = CffiNew end).
Proof.
  intros eager ops st. destruct (run_spec eager ops) as [I _]. fold st in I.
  split; [apply (inv_aligned st I)|]. split; [apply (inv_fields_nodup st I)|].
  split; [apply (inv_structs_nodup st I)|]. split.
  - intros a b Hb. destruct (inv_status st I a b Hb) as [L F]. split; [|exact L].
    intros E. destruct (in_dec Nat.eq_dec a (all_fields st)) as [H|H]; [exact H|].
    rewrite (F H) in E. discriminate.
  - apply (inv_kinds st I).
Qed.

(* ------------------------------------------------------------------ concrete instances *)

(* a history with aliasing, a name for the C structure, pickling, feeding as input, rebinding and gc *)
Definition example_history : list op :=
  [Eval 0 [] (Sparse 0); Alias 1 0; StructRef 2 0; Del 0; Read 1; Pickle 0 1; Del 1; Read 2;
   Eval 1 [0] Dense; Del 2; Collect; Eval 1 [1; 0] Scalar; Del 0; Del 1].

Example example_frees : t_frees (run true example_history) = [2; 3; 4; 12; 15].
Proof. vm_compute. reflexivity. Qed.

Example example_counts :
  map snd (run_counts true init example_history) =
  [[0;0;0]; [0;0;0]; [0;0;0]; [0;0;0]; [0;0;0]; [0;0;0]; [0;0;0]; [0;0;0]; [0;0;0;0];
   [1;1;1;0]; [1;1;1;0]; [1;1;1;1;0]; [1;1;1;1;0]; [1;1;1;1;1]].
Proof. vm_compute. reflexivity. Qed.

(* the hypotheses of the theorems are satisfiable in a non-trivial way: after the first 9 operations block 2
   (pos of the first result) is still reached through the structure name 2 although both Tensor names are gone,
   and block 12 exists and is reached through name 1 *)
Example example_reaches : reaches (t_state (run true (firstn 9 example_history))) 2.
Proof. exists 2, (VStruct 0), [2; 3; 4]. vm_compute. tauto. Qed.

Example example_unreached_freed_once :
  let t := run true example_history in
  In (2, {| b_kind := Kernel; b_status := Freed 1 |}) (heap (t_state t)) /\ count_occ Nat.eq_dec (t_frees t) 2 = 1.
Proof. vm_compute. tauto. Qed.

(* The model can exhibit the faults the theorems exclude: they are not true by construction.
   (a) dropping the ownership hand-over leaks: the kernel's blocks stay Live with no owner;
   (b) taking ownership twice releases every block twice. *)
Definition eval_without_ownership (st : state) (sh : shape) : state :=
  let '(st1, s, w) := allocate_structure st in run_kernel st1 s sh.

Example mutant_leak :
  let st := fst (sweep (eval_without_ownership init (Sparse 0))) in
  structs st = [] /\ map (fun p => b_status (snd p)) (heap st) = [Live; Live; Live].
Proof. vm_compute. tauto. Qed.

Definition eval_with_double_ownership (st : state) (sh : shape) : option (state * list addr) :=
  let '(st1, s, w) := allocate_structure st in
  let st2 := run_kernel st1 s sh in
  match take_ownership st2 s with
  | Some (st3, fr1) =>
      match take_ownership st3 s with
      | Some (st4, fr2) => let '(st5, fr3) := sweep st4 in Some (st5, fr1 ++ fr2 ++ fr3)
      | None => None
      end
  | None => None
  end.

Example mutant_double_free :
  match eval_with_double_ownership init (Sparse 0) with
  | Some (st, fr) => fr = [2; 3; 4; 2; 3; 4] /\ map (fun p => b_status (snd p)) (heap st) = [Freed 2; Freed 2; Freed 2]
  | None => False
  end.
Proof. vm_compute. tauto. Qed.
