(** TIE -- the operator layer regenerated from /repo/src/tensora/tensor.py and format/_format.py
    (gen/TensorOps.v: [evaluate_binary_operator], [evaluate_matrix_multiplication_operator], the
    eight [Tensor.__add__ ... __rmatmul__] methods, [Tensor.format], [Format.__post_init__],
    [Format.deparse], [Mode.character]) agrees with the hand model model/Operators.v (C11).

    The model's operand [OTensor dims modes ordering] is embedded as the view
    [order = len(dims), dimensions = dims, modes, mode_ordering] ([emb]); every view that satisfies
    the Tensor invariant is such an embedding ([emb_onto]).  The model's request (assignment AST,
    output format, bindings) is converted to what the source hands to [evaluate_tensora]: the
    DEPARSED assignment string, the DEPARSED format string, and for each keyword the object it is
    bound to ([conv_request]).

    Main statements (names used by props/TIE_operators.v):
      [gen_binary_equiv], [gen_matmul_equiv], [gen_methods_equiv], [gen_python_operator_equiv]
        -- for operands satisfying the Tensor invariant ([wf_operand]): generated = converted model,
           for every operand kind, order, format, dimension tuple and operator;
      [gen_binary_refines], [gen_matmul_refines]
        -- for ALL embedded operands: equal, or the generated function raises one of the three
           exceptions that only an object breaking the Tensor invariant can cause;
      [gen_request_denotes_pointwise], [gen_matmul_request_denotes], [gen_operator_format_rule],
      [gen_matmul_format_rule]  -- the C11 theorems restated on the generated functions. *)

From Coq Require Import ZArith List Bool String Ascii Lia.
From TV Require Import spec.PyBase spec.PyLib proofs.PyLibFacts.
From TV Require gen.TensorOps model.Operators.
From TV Require Import proofs.OperatorsBase proofs.OperatorsDenote proofs.OperatorsRules.
Import ListNotations.

Module GO := TV.gen.TensorOps.
Module MO := TV.model.Operators.

Open Scope string_scope.

(* ------------------------------------------------------------------------------------------ *)
(** * Embedding of the model's operands, conversion of its results *)

Definition emb_mode (m : MO.mode) : GO.Mode :=
  match m with MO.MDense => GO.Mode_dense | MO.MCompressed => GO.Mode_compressed end.

Definition emb_view (d : list Z) (m : list MO.mode) (r : list nat) : GO.TensorView :=
  GO.mkTensorView (Z.of_nat (List.length d)) d (map emb_mode m) (map Z.of_nat r).

Definition emb (o : MO.operand) : GO.pyobj :=
  match o with
  | MO.OTensor d m r => GO.PyTensor (emb_view d m r)
  | MO.OScalar => GO.PyReal
  | MO.OOther => GO.PyOther
  end.

Definition conv_binding (l r : MO.operand) (b : MO.binding) : GO.argval :=
  match b with
  | MO.BOperand MO.SLeft => GO.AObj (emb l)
  | MO.BOperand MO.SRight => GO.AObj (emb r)
  | MO.BScalarTensor MO.SLeft => GO.AFromLolFloat (emb l)
  | MO.BScalarTensor MO.SRight => GO.AFromLolFloat (emb r)
  end.

(** what the source hands to [evaluate_tensora] for the model's request [q] *)
Definition conv_request (l r : MO.operand) (q : MO.request) : GO.outcome :=
  GO.Evaluate (MO.deparse_assignment (MO.rq_assignment q))
             (MO.format_deparse (MO.rq_format q))
             (map (fun nb => (fst nb, conv_binding l r (snd nb))) (MO.rq_bindings q)).

Definition binary_shape_template : string :=
  "Cannot apply operator {} between tensor with dimensions {} and tensor with dimensions {}".
Definition matmul_shape_template : string :=
  "Cannot apply operator @ between tensor with dimensions {} and tensor with dimensions {}".
Definition matmul_order_template : string :=
  "Matrix multiply is only defined between tensors of orders 1 and 2, not orders {} and {}".

Definition conv_error (shape_template : string) (e : MO.error) : GO.res GO.outcome :=
  match e with
  | MO.EShape => GO.Exc (GO.Exn "ValueError" shape_template)
  | MO.EMatmulOrder => GO.Exc (GO.Exn "ValueError" matmul_order_template)
  | MO.ENotImplemented => GO.Val GO.NotImplementedValue
  | MO.EIllFormed => GO.Exc GO.index_error
  end.

Definition conv (shape_template : string) (l r : MO.operand) (x : MO.result MO.request) : GO.res GO.outcome :=
  match x with
  | MO.Ok q => GO.Val (conv_request l r q)
  | MO.Err e => conv_error shape_template e
  end.

(** the exceptions that only an object breaking the Tensor invariant can cause *)
Definition ill_formed_exn (e : GO.exn) : bool :=
  match e with
  | GO.Exn cls _ =>
      String.eqb cls "InvalidModeOrderingError"      (* Format.__post_init__ *)
      || String.eqb cls "IndexError"                 (* tuple index *)
      || (match e with GO.Exn _ t => String.eqb cls "ValueError" && String.prefix "zip()" t end)
  end.

(* ------------------------------------------------------------------------------------------ *)
(** * Library facts *)

Lemma py_join_concat : forall sep xs, py_join sep xs = String.concat sep xs.
Proof.
  intros sep xs. induction xs as [|x r IH]; [reflexivity|].
  destruct r as [|y r]; [reflexivity|].
  change (py_join sep (x :: y :: r)) with (x ++ sep ++ py_join sep (y :: r)).
  change (String.concat sep (x :: y :: r)) with (x ++ sep ++ String.concat sep (y :: r)).
  rewrite IH. reflexivity.
Qed.

Lemma py_range_of_nat : forall n, GO.py_range (Z.of_nat n) = map Z.of_nat (seq 0 n).
Proof. intros. unfold GO.py_range. rewrite Nat2Z.id. reflexivity. Qed.

Lemma show_Z_nat_str : forall n, show_Z (Z.of_nat n) = MO.nat_str n.
Proof. intros. rewrite show_Z_of_nat. reflexivity. Qed.

Lemma list_eqb_map_of_nat : forall a b,
  list_eqb Z.eqb (map Z.of_nat a) (map Z.of_nat b) = list_eqb Nat.eqb a b.
Proof.
  induction a as [|x a IH]; destruct b as [|y b]; simpl; try reflexivity.
  rewrite IH. f_equal.
  destruct (Nat.eqb x y) eqn:E.
  - apply Nat.eqb_eq in E. subst. apply Z.eqb_refl.
  - apply Nat.eqb_neq in E. apply Z.eqb_neq. lia.
Qed.

Lemma zip_strict_combine : forall {A B} (a : list A) (b : list B),
  List.length a = List.length b -> GO.py_zip_strict a b = GO.Val (combine a b).
Proof.
  induction a as [|x a IH]; destruct b as [|y b]; simpl; intros H; try discriminate; [reflexivity|].
  rewrite IH by congruence. reflexivity.
Qed.

Lemma zip_strict_mismatch : forall {A B} (a : list A) (b : list B),
  List.length a <> List.length b ->
  exists e, GO.py_zip_strict a b = GO.Exc e /\ ill_formed_exn e = true.
Proof.
  induction a as [|x a IH]; destruct b as [|y b]; simpl; intros H; try congruence;
    try (eexists; split; [reflexivity | reflexivity]).
  destruct (IH b) as [e [E1 E2]]; [congruence|]. rewrite E1. simpl. eauto.
Qed.

Lemma existsb_Zeqb_of_nat : forall k r,
  existsb (Z.eqb (Z.of_nat k)) (map Z.of_nat r) = existsb (Nat.eqb k) r.
Proof.
  intros k r. induction r as [|x r IH]; simpl; [reflexivity|]. rewrite IH. f_equal.
  destruct (Nat.eqb k x) eqn:E.
  - apply Nat.eqb_eq in E. subst. apply Z.eqb_refl.
  - apply Nat.eqb_neq in E. apply Z.eqb_neq. lia.
Qed.

Lemma existsb_in_range : forall o s n,
  existsb (Nat.eqb o) (seq s n) = ((s <=? o)%nat && (o <? s + n)%nat).
Proof.
  intros o s n. apply eq_iff_eq_true.
  rewrite existsb_exists, andb_true_iff, Nat.leb_le, Nat.ltb_lt. split.
  - intros [x [Hin Heq]]. apply Nat.eqb_eq in Heq. subst. apply in_seq in Hin. lia.
  - intros H. exists o. split; [apply in_seq; lia | apply Nat.eqb_refl].
Qed.

Lemma forallb_map_ {A B} (f : B -> bool) (g : A -> B) l :
  forallb f (map g l) = forallb (fun x => f (g x)) l.
Proof. induction l as [|x l IH]; simpl; [reflexivity | rewrite IH; reflexivity]. Qed.

Lemma forallb_ext_ {A} (f g : A -> bool) l : (forall x, f x = g x) -> forallb f l = forallb g l.
Proof. intros H. induction l as [|x l IH]; simpl; [reflexivity | rewrite IH, H; reflexivity]. Qed.

(** [Format.__post_init__]'s set comparison is the model's [valid_format] *)
Lemma post_init_valid : forall m r,
  GO.py_set_eqb Z.eqb (map Z.of_nat r) (GO.py_range (Z.of_nat (List.length (map emb_mode m))))
  = MO.valid_format (MO.mkFormat m r).
Proof.
  intros m r. rewrite map_length, py_range_of_nat. unfold GO.py_set_eqb, MO.valid_format.
  cbn [MO.f_modes MO.f_ordering]. f_equal.
  - rewrite forallb_map_. apply forallb_ext_. intros o.
    rewrite existsb_Zeqb_of_nat, existsb_in_range. simpl. reflexivity.
  - rewrite forallb_map_. apply forallb_ext_. intros k. apply existsb_Zeqb_of_nat.
Qed.

(* ------------------------------------------------------------------------------------------ *)
(** * The pieces of the generated functions on embedded operands *)

Definition invalid_ordering_exn : GO.exn := GO.Exn "InvalidModeOrderingError" "".
Definition zip_exn : GO.exn := GO.Exn "ValueError" "zip() argument 2 is {} than argument 1".

Definition emb_format (m : list MO.mode) (r : list nat) : GO.Format :=
  GO.mkFormat (map emb_mode m) (map Z.of_nat r).

(** [tensor.format]: [Format(self.modes, self.mode_ordering)], validated by [__post_init__] *)
Lemma format_of_emb : forall d m r,
  GO.Tensor_format (emb_view d m r)
  = if MO.valid_format (MO.mkFormat m r) then GO.Val (emb_format m r) else GO.Exc invalid_ordering_exn.
Proof.
  intros d m r. unfold GO.Tensor_format, GO.Format_init, GO.Format___post_init__, emb_view.
  cbn [GO.Tensor_modes GO.Tensor_mode_ordering GO.Format_modes GO.Format_ordering].
  rewrite post_init_valid. destruct (MO.valid_format _); reflexivity.
Qed.

Lemma zip_strict_eq : forall {A B} (a : list A) (b : list B),
  GO.py_zip_strict a b = if (List.length a =? List.length b)%nat then GO.Val (combine a b) else GO.Exc zip_exn.
Proof.
  induction a as [|x a IH]; destruct b as [|y b]; try reflexivity.
  cbn [GO.py_zip_strict List.length Nat.eqb combine]. rewrite IH.
  destruct (List.length a =? List.length b)%nat; reflexivity.
Qed.

Lemma index_names_string : forall n,
  map (fun i => "i" ++ show_Z i) (map Z.of_nat (seq 0 n)) = MO.index_names n.
Proof.
  intros n. unfold MO.index_names. rewrite map_map. apply map_ext. intros i.
  rewrite show_Z_nat_str. reflexivity.
Qed.

(** the local helper [indexes_string] *)
Lemma indexes_string_emb : forall d m r,
  GO.evaluate_binary_operator__indexes_string
    (GO.PyTensor (emb_view d m r))
  = GO.Val (String.concat "," (MO.index_names (List.length d))).
Proof.
  intros. unfold GO.evaluate_binary_operator__indexes_string, emb_view.
  cbn [GO.tensor_get GO.bind GO.Tensor_order]. rewrite py_range_of_nat, index_names_string, py_join_concat.
  reflexivity.
Qed.

Lemma natural_format_deparse : forall ms,
  MO.format_deparse (MO.natural_format ms) = String.concat "" (map MO.mode_char ms).
Proof.
  intros ms. unfold MO.format_deparse, MO.natural_format. cbn [MO.f_modes MO.f_ordering].
  replace (list_eqb Nat.eqb (MO.natural (List.length ms)) (MO.natural (List.length ms))) with true; [reflexivity|].
  symmetry. apply list_eqb_nat. reflexivity.
Qed.

Lemma inter_chars : forall a b,
  map (fun '(mode1, mode2) =>
         if GO.Mode_eqb mode1 GO.Mode_dense && GO.Mode_eqb mode2 GO.Mode_dense then "d" else "s")
      (combine (map emb_mode a) (map emb_mode b))
  = map MO.mode_char (MO.modes_intersection a b).
Proof.
  unfold MO.modes_intersection.
  induction a as [|x a IH]; destruct b as [|y b]; try reflexivity.
  cbn [map combine]. rewrite IH. f_equal. destruct x, y; reflexivity.
Qed.

Lemma union_chars : forall a b,
  map (fun '(mode1, mode2) =>
         if GO.Mode_eqb mode1 GO.Mode_dense || GO.Mode_eqb mode2 GO.Mode_dense then "d" else "s")
      (combine (map emb_mode a) (map emb_mode b))
  = map MO.mode_char (MO.modes_union a b).
Proof.
  unfold MO.modes_union.
  induction a as [|x a IH]; destruct b as [|y b]; try reflexivity.
  cbn [map combine]. rewrite IH. f_equal. destruct x, y; reflexivity.
Qed.

Lemma mode_chars : forall m, map (fun mode => GO.Mode_character mode) (map emb_mode m) = map MO.mode_char m.
Proof. intros. rewrite map_map. apply map_ext. intros []; reflexivity. Qed.

Lemma mode_ordering_chars : forall m r,
  map (fun '(mode, ordering) => GO.Mode_character mode ++ show_Z ordering)
      (combine (map emb_mode m) (map Z.of_nat r))
  = map (fun mo => MO.mode_char (fst mo) ++ MO.nat_str (snd mo)) (combine m r).
Proof.
  induction m as [|x m IH]; destruct r as [|y r]; try reflexivity.
  cbn [map combine fst snd]. rewrite IH, show_Z_nat_str. f_equal. destruct x; reflexivity.
Qed.

(** [Format.deparse] *)
Lemma format_deparse_emb : forall m r,
  GO.Format_deparse (emb_format m r)
  = if list_eqb Nat.eqb r (MO.natural (List.length m)) then GO.Val (MO.format_deparse (MO.mkFormat m r))
    else if (List.length m =? List.length r)%nat then GO.Val (MO.format_deparse (MO.mkFormat m r))
    else GO.Exc zip_exn.
Proof.
  intros m r. unfold GO.Format_deparse, emb_format, MO.format_deparse. try unfold GO.Format_order.
  cbn [GO.Format_modes GO.Format_ordering MO.f_modes MO.f_ordering].
  rewrite map_length, py_range_of_nat, list_eqb_map_of_nat. unfold MO.natural.
  destruct (list_eqb Nat.eqb r (seq 0 (List.length m))).
  - rewrite mode_chars, py_join_concat. reflexivity.
  - rewrite zip_strict_eq, !map_length.
    destruct (List.length m =? List.length r)%nat; [|reflexivity].
    cbn [GO.bind]. rewrite mode_ordering_chars, py_join_concat. reflexivity.
Qed.

Lemma str_mul_dense : forall n,
  GO.py_str_mul "d" (Z.of_nat n) = MO.format_deparse (MO.natural_format (repeat MO.MDense n)).
Proof.
  intros n. unfold GO.py_str_mul. rewrite Nat2Z.id, natural_format_deparse, py_join_concat.
  f_equal. induction n as [|n IH]; [reflexivity|]. cbn [repeat map]. rewrite <- IH. reflexivity.
Qed.

Lemma op_is_star : forall o, String.eqb (MO.op_char o) "*" = match o with MO.OpMul => true | _ => false end.
Proof. intros []; reflexivity. Qed.

Lemma op_is_plus_minus : forall o,
  py_in String.eqb (MO.op_char o) ["+"; "-"] = match o with MO.OpMul => false | _ => true end.
Proof. intros []; reflexivity. Qed.

Lemma list_eqb_Z_true_eq : forall a b, list_eqb Z.eqb a b = true -> a = b.
Proof. intros a b H. apply list_eqb_Z. exact H. Qed.

(* ------------------------------------------------------------------------------------------ *)
(** * [evaluate_binary_operator] *)

(** symbolic evaluation of a generated body on embedded operands *)
Ltac gstep :=
  cbn [emb GO.is_PyTensor GO.is_PyReal andb GO.tensor_get GO.as_tensor GO.bind GO.Tensor_dimensions GO.Tensor_order
       emb_view GO.Format_modes GO.Format_ordering emb_format negb];
  rewrite ?format_of_emb, ?indexes_string_emb, ?op_is_star, ?op_is_plus_minus, ?zip_strict_eq, ?map_length,
    ?format_deparse_emb.

(** equality of two strings built by concatenation from the same pieces *)
Ltac str_eq :=
  unfold MO.deparse_assignment, MO.deparse_tensor;
  cbn [MO.deparse MO.a_target_name MO.a_target_indexes MO.a_rhs MO.op_expr MO.op_char MO.paren MO.is_add_sub
       MO.is_add_sub_mul MO.deparse_tensor];
  unfold MO.deparse_tensor; rewrite ?sapp_assoc; reflexivity.

Definition refines (shape_template : string) (l r : MO.operand) (g : GO.res GO.outcome)
           (x : MO.result MO.request) : Prop :=
  g = conv shape_template l r x
  \/ (exists e, g = GO.Exc e /\ ill_formed_exn e = true /\ MO.wf_operand l && MO.wf_operand r = false).

Lemma not_both_wf_lengths : forall ld lm lo rd rm ro,
  list_eqb Z.eqb ld rd = true -> (List.length lm =? List.length rm)%nat = false ->
  MO.wf_operand (MO.OTensor ld lm lo) && MO.wf_operand (MO.OTensor rd rm ro) = false.
Proof.
  intros ld lm lo rd rm ro Ed El. apply not_true_is_false. intros H.
  apply andb_true_iff in H as [H1 H2]. apply wf_tensor_inv in H1, H2.
  apply list_eqb_Z in Ed. subst. apply Nat.eqb_neq in El. destruct H1 as [? _], H2 as [? _]. congruence.
Qed.

Lemma not_wf_invalid_l : forall ld lm lo r,
  MO.valid_format (MO.mkFormat lm lo) = false -> MO.wf_operand (MO.OTensor ld lm lo) && MO.wf_operand r = false.
Proof. intros. cbn [MO.wf_operand]. rewrite H, andb_false_r. reflexivity. Qed.

Lemma not_wf_invalid_r : forall l rd rm ro,
  MO.valid_format (MO.mkFormat rm ro) = false -> MO.wf_operand l && MO.wf_operand (MO.OTensor rd rm ro) = false.
Proof. intros. cbn [MO.wf_operand]. rewrite H, !andb_false_r. reflexivity. Qed.

Lemma not_wf_lengths_own : forall d m r o2,
  (List.length m =? List.length r)%nat = false ->
  MO.wf_operand (MO.OTensor d m r) && MO.wf_operand o2 = false.
Proof.
  intros d m r o2 E. apply not_true_is_false. intros H. apply andb_true_iff in H as [H1 _].
  apply wf_tensor_inv in H1. apply Nat.eqb_neq in E. destruct H1 as [? [? _]]. congruence.
Qed.

Lemma not_wf_lengths_own_r : forall d m r o1,
  (List.length m =? List.length r)%nat = false ->
  MO.wf_operand o1 && MO.wf_operand (MO.OTensor d m r) = false.
Proof. intros. rewrite andb_comm. apply not_wf_lengths_own. assumption. Qed.

Ltac ill_formed :=
  right; eexists; split; [reflexivity | split; [reflexivity |]];
  first [ apply not_wf_invalid_l; assumption | apply not_wf_invalid_r; assumption
        | apply not_both_wf_lengths; assumption | apply not_wf_lengths_own; assumption
        | apply not_wf_lengths_own_r; assumption ].

Lemma binary_tt : forall ld lm lo rd rm ro o,
  refines binary_shape_template (MO.OTensor ld lm lo) (MO.OTensor rd rm ro)
    (GO.evaluate_binary_operator (emb (MO.OTensor ld lm lo)) (emb (MO.OTensor rd rm ro)) (MO.op_char o))
    (MO.binary_operator_request (MO.OTensor ld lm lo) (MO.OTensor rd rm ro) o).
Proof.
  intros. unfold refines, GO.evaluate_binary_operator. gstep. cbn [MO.binary_operator_request].
  destruct (list_eqb Z.eqb ld rd) eqn:Ed; gstep; cbn [negb conv conv_error]; [|left; reflexivity].
  destruct (MO.valid_format (MO.mkFormat lm lo)) eqn:Vl;
    [|destruct o; gstep; rewrite ?Vl; gstep; ill_formed].
  destruct (MO.valid_format (MO.mkFormat rm ro)) eqn:Vr;
    [|destruct o; gstep; rewrite ?Vl, ?Vr; gstep; ill_formed].
  destruct (List.length lm =? List.length rm)%nat eqn:El;
    [|destruct o; gstep; rewrite ?Vl, ?Vr; gstep; rewrite ?El; gstep; ill_formed].
  left. destruct o; gstep; rewrite ?Vl, ?Vr; gstep; rewrite ?El; gstep;
    unfold conv_request; cbn [MO.rq_assignment MO.rq_format MO.rq_bindings map fst snd conv_binding emb].
  all: unfold MO.lr_bindings; cbn [map fst snd conv_binding emb].
  all: rewrite ?union_chars.
  all: rewrite ?inter_chars.
  all: change py_join with String.concat.
  all: rewrite natural_format_deparse.
  all: f_equal; f_equal; str_eq.
Qed.

Ltac finish_request :=
  left; unfold conv; unfold conv_request; cbn [MO.rq_assignment MO.rq_format MO.rq_bindings map fst snd conv_binding emb];
  rewrite ?str_mul_dense; (f_equal; f_equal; str_eq).

Lemma binary_ts : forall ld lm lo o,
  refines binary_shape_template (MO.OTensor ld lm lo) MO.OScalar
    (GO.evaluate_binary_operator (emb (MO.OTensor ld lm lo)) (emb MO.OScalar) (MO.op_char o))
    (MO.binary_operator_request (MO.OTensor ld lm lo) MO.OScalar o).
Proof.
  intros. unfold refines, GO.evaluate_binary_operator. gstep. cbn [MO.binary_operator_request].
  destruct o; gstep; try finish_request.
  destruct (MO.valid_format (MO.mkFormat lm lo)) eqn:Vl; gstep; [|ill_formed].
  destruct (list_eqb Nat.eqb lo (MO.natural (List.length lm))) eqn:En; gstep; [finish_request|].
  destruct (List.length lm =? List.length lo)%nat eqn:El; gstep; [finish_request | ill_formed].
Qed.

Lemma binary_st : forall rd rm ro o,
  refines binary_shape_template MO.OScalar (MO.OTensor rd rm ro)
    (GO.evaluate_binary_operator (emb MO.OScalar) (emb (MO.OTensor rd rm ro)) (MO.op_char o))
    (MO.binary_operator_request MO.OScalar (MO.OTensor rd rm ro) o).
Proof.
  intros. unfold refines, GO.evaluate_binary_operator. gstep. cbn [MO.binary_operator_request].
  destruct o; gstep; try finish_request.
  destruct (MO.valid_format (MO.mkFormat rm ro)) eqn:Vr; gstep; [|ill_formed].
  destruct (list_eqb Nat.eqb ro (MO.natural (List.length rm))) eqn:En; gstep; [finish_request|].
  destruct (List.length rm =? List.length ro)%nat eqn:El; gstep; [finish_request | ill_formed].
Qed.

(** For ALL embedded operands (every kind on either side, any order, formats, dimensions) and
    the three operators: the generated function returns the converted result of the model, or it
    raises an exception that only an object breaking the Tensor invariant can cause. *)
Theorem gen_binary_refines : forall (l r : MO.operand) (o : MO.op),
  refines binary_shape_template l r
    (GO.evaluate_binary_operator (emb l) (emb r) (MO.op_char o))
    (MO.binary_operator_request l r o).
Proof.
  intros l r o. destruct l as [ld lm lo| |], r as [rd rm ro| |];
    try (left; reflexivity).
  - apply binary_tt.
  - apply binary_ts.
  - apply binary_st.
Qed.

Lemma refines_wf : forall t l r g x,
  refines t l r g x -> MO.wf_operand l = true -> MO.wf_operand r = true -> g = conv t l r x.
Proof.
  intros t l r g x [H | [e [_ [_ H]]]] Hl Hr; [exact H|]. rewrite Hl, Hr in H. discriminate.
Qed.

(** Operands satisfying the Tensor invariant: generated = model. *)
Theorem gen_binary_equiv : forall (l r : MO.operand) (o : MO.op),
  MO.wf_operand l = true -> MO.wf_operand r = true ->
  GO.evaluate_binary_operator (emb l) (emb r) (MO.op_char o)
  = conv binary_shape_template l r (MO.binary_operator_request l r o).
Proof. intros. eapply refines_wf; eauto using gen_binary_refines. Qed.

(* ------------------------------------------------------------------------------------------ *)
(** * [evaluate_matrix_multiplication_operator] *)

Lemma order_eqb_1 : forall {A} (l : list A),
  Z.eqb (Z.of_nat (List.length l)) 1 = match l with [_] => true | _ => false end.
Proof.
  intros A l. destruct l as [|a [|b l]]; try reflexivity. apply Z.eqb_neq. cbn [List.length]. lia.
Qed.

Lemma order_eqb_2 : forall {A} (l : list A),
  Z.eqb (Z.of_nat (List.length l)) 2 = match l with [_; _] => true | _ => false end.
Proof.
  intros A l. destruct l as [|a [|b [|c l]]]; try reflexivity. apply Z.eqb_neq. cbn [List.length]. lia.
Qed.

Lemma getitem_0 : forall {A} (x : A) l, py_getitem (x :: l) 0 = Some x.
Proof. reflexivity. Qed.
Lemma getitem_1 : forall {A} (x y : A) l, py_getitem (x :: y :: l) 1 = Some y.
Proof. reflexivity. Qed.

Lemma getitem_ordering : forall (lo : list nat) (k : nat),
  py_getitem (map Z.of_nat lo) (Z.of_nat k) = option_map Z.of_nat (nth_error lo k).
Proof. intros. rewrite py_getitem_of_nat. apply nth_error_map. Qed.

Lemma getitem_ordering_0 : forall lo, py_getitem (map Z.of_nat lo) 0 = option_map Z.of_nat (nth_error lo 0).
Proof. intros. apply (getitem_ordering lo 0). Qed.
Lemma getitem_ordering_1 : forall lo, py_getitem (map Z.of_nat lo) 1 = option_map Z.of_nat (nth_error lo 1).
Proof. intros. apply (getitem_ordering lo 1). Qed.

Lemma getitem_modes : forall (lm : list MO.mode) (k : nat),
  py_getitem (map emb_mode lm) (Z.of_nat k) = option_map emb_mode (nth_error lm k).
Proof. intros. rewrite py_getitem_of_nat. apply nth_error_map. Qed.

Ltac mstep :=
  cbn [emb GO.is_PyTensor GO.is_PyReal andb GO.tensor_get GO.as_tensor GO.bind GO.Tensor_dimensions GO.Tensor_order
       emb_view GO.Format_modes GO.Format_ordering emb_format negb GO.of_option option_map];
  rewrite ?format_of_emb, ?order_eqb_1, ?order_eqb_2, ?getitem_0, ?getitem_1, ?getitem_ordering_0,
    ?getitem_ordering_1, ?getitem_modes.

Ltac msplit :=
  repeat (mstep;
          match goal with
          | |- context [if ?b then _ else _] => destruct b eqn:?
          | |- context [match nth_error ?l ?k with _ => _ end] => destruct (nth_error l k) eqn:?
          end);
  mstep.

Ltac mfinish :=
  first [ left; reflexivity
        | ill_formed
        | left; repeat match goal with m : MO.mode |- _ => destruct m end; reflexivity ].

Theorem gen_matmul_refines : forall (l r : MO.operand),
  refines matmul_shape_template l r
    (GO.evaluate_matrix_multiplication_operator (emb l) (emb r))
    (MO.matmul_request l r).
Proof.
  intros l r. destruct l as [ld lm lo| |], r as [rd rm ro| |]; try (left; reflexivity).
  unfold refines, GO.evaluate_matrix_multiplication_operator, MO.matmul_request, MO.mode_at_ordering.
  destruct ld as [|l0 [|l1 [|l2 ld]]], rd as [|r0 [|r1 [|r2 rd]]]; msplit; mfinish.
Qed.

Theorem gen_matmul_equiv : forall (l r : MO.operand),
  MO.wf_operand l = true -> MO.wf_operand r = true ->
  GO.evaluate_matrix_multiplication_operator (emb l) (emb r)
  = conv matmul_shape_template l r (MO.matmul_request l r).
Proof. intros. eapply refines_wf; eauto using gen_matmul_refines. Qed.

(* ------------------------------------------------------------------------------------------ *)
(** * The eight methods, and Python's dispatch *)

Definition gen_method (m : MO.method) : GO.TensorView -> GO.pyobj -> GO.res GO.outcome :=
  match m with
  | MO.M_add => GO.Tensor___add__ | MO.M_radd => GO.Tensor___radd__
  | MO.M_sub => GO.Tensor___sub__ | MO.M_rsub => GO.Tensor___rsub__
  | MO.M_mul => GO.Tensor___mul__ | MO.M_rmul => GO.Tensor___rmul__
  | MO.M_matmul => GO.Tensor___matmul__ | MO.M_rmatmul => GO.Tensor___rmatmul__
  end.

Definition method_template (m : MO.method) : string :=
  match m with MO.M_matmul | MO.M_rmatmul => matmul_shape_template | _ => binary_shape_template end.

(** (left, right) as the method hands them to the operator function *)
Definition method_operands (m : MO.method) (self other : MO.operand) : MO.operand * MO.operand :=
  match m with
  | MO.M_radd | MO.M_rsub | MO.M_rmul | MO.M_rmatmul => (other, self)
  | _ => (self, other)
  end.

Theorem gen_methods_refines : forall (m : MO.method) d mm r (other : MO.operand),
  refines (method_template m)
    (fst (method_operands m (MO.OTensor d mm r) other)) (snd (method_operands m (MO.OTensor d mm r) other))
    (gen_method m (emb_view d mm r) (emb other))
    (MO.method_request m (MO.OTensor d mm r) other).
Proof.
  intros m d mm r other. destruct m; cbn [gen_method method_template method_operands fst snd MO.method_request].
  - exact (gen_binary_refines (MO.OTensor d mm r) other MO.OpAdd).
  - exact (gen_binary_refines other (MO.OTensor d mm r) MO.OpAdd).
  - exact (gen_binary_refines (MO.OTensor d mm r) other MO.OpSub).
  - exact (gen_binary_refines other (MO.OTensor d mm r) MO.OpSub).
  - exact (gen_binary_refines (MO.OTensor d mm r) other MO.OpMul).
  - exact (gen_binary_refines other (MO.OTensor d mm r) MO.OpMul).
  - exact (gen_matmul_refines (MO.OTensor d mm r) other).
  - exact (gen_matmul_refines other (MO.OTensor d mm r)).
Qed.

Theorem gen_methods_equiv : forall (m : MO.method) d mm r (other : MO.operand),
  MO.wf_operand (MO.OTensor d mm r) = true -> MO.wf_operand other = true ->
  gen_method m (emb_view d mm r) (emb other)
  = conv (method_template m)
      (fst (method_operands m (MO.OTensor d mm r) other)) (snd (method_operands m (MO.OTensor d mm r) other))
      (MO.method_request m (MO.OTensor d mm r) other).
Proof.
  intros m d mm r other Hs Ho. eapply refines_wf; [apply gen_methods_refines | |];
    destruct m; cbn [method_operands fst snd]; assumption.
Qed.

(** Python's dispatch of [a <op> b] as far as Tensor is concerned (the model's [python_operator]),
    with the REGENERATED methods *)
Definition gen_python_operator (p : MO.pyop) (a b : MO.operand) : GO.res GO.outcome :=
  match a, b with
  | MO.OTensor d m r, _ => gen_method (MO.forward_method p) (emb_view d m r) (emb b)
  | _, MO.OTensor d m r => gen_method (MO.reflected_method p) (emb_view d m r) (emb a)
  | _, _ => GO.Val GO.NotImplementedValue
  end.

Definition pyop_template (p : MO.pyop) : string :=
  match p with MO.PyMatmul => matmul_shape_template | _ => binary_shape_template end.

Theorem gen_python_operator_equiv : forall (p : MO.pyop) (a b : MO.operand),
  MO.wf_operand a = true -> MO.wf_operand b = true ->
  gen_python_operator p a b = conv (pyop_template p) a b (MO.python_operator p a b).
Proof.
  intros p a b Ha Hb. unfold gen_python_operator, MO.python_operator.
  destruct a as [ad am ar| |], b as [bd bm br| |]; cbn [MO.is_tensor]; try reflexivity;
    rewrite gen_methods_equiv by assumption; destruct p; reflexivity.
Qed.

(* ------------------------------------------------------------------------------------------ *)
(** * Every view satisfying the Tensor invariant is an embedding *)

Definition unemb_mode (m : GO.Mode) : MO.mode :=
  match m with GO.Mode_dense => MO.MDense | GO.Mode_compressed => MO.MCompressed end.

Theorem emb_onto : forall v : GO.TensorView,
  GO.Tensor_order v = Z.of_nat (List.length (GO.Tensor_dimensions v)) ->
  Forall (fun z => (0 <= z)%Z) (GO.Tensor_mode_ordering v) ->
  exists d m r, GO.PyTensor v = emb (MO.OTensor d m r).
Proof.
  intros [o d m r] Ho Hr. cbn in Ho, Hr. subst o.
  exists d, (map unemb_mode m), (map Z.to_nat r). unfold emb, emb_view.
  assert (Em : map emb_mode (map unemb_mode m) = m).
  { rewrite map_map. rewrite <- (map_id m) at 2. apply map_ext. intros []; reflexivity. }
  assert (Er : map Z.of_nat (map Z.to_nat r) = r).
  { rewrite map_map. rewrite <- (map_id r) at 2. apply map_ext_in. intros z Hz.
    rewrite Forall_forall in Hr. rewrite Z2Nat.id; [reflexivity | auto]. }
  rewrite Em, Er. reflexivity.
Qed.

(* ------------------------------------------------------------------------------------------ *)
(** * The C11 theorems, restated on the regenerated functions *)

Lemma refines_evaluate_inv : forall t l r g x s f kw,
  refines t l r g x -> g = GO.Val (GO.Evaluate s f kw) ->
  exists q, x = MO.Ok q /\ GO.Evaluate s f kw = conv_request l r q.
Proof.
  intros t l r g x s f kw [H | [e [H _]]] Hg; rewrite Hg in H; [|discriminate].
  destruct x as [q | []]; cbn in H; try discriminate. exists q. split; [reflexivity|]. congruence.
Qed.

(** C11_request_denotes_pointwise: whenever the regenerated [evaluate_binary_operator] hands a
    request to [evaluate_tensora], its assignment string is the deparse of an assignment [a] whose
    tensor-algebra meaning (under the bindings actually passed) is the element-wise operation. *)
Theorem gen_request_denotes_pointwise :
  forall (l r : MO.operand) (o : MO.op) (s f : string) (kw : list (string * GO.argval)),
    GO.evaluate_binary_operator (emb l) (emb r) (MO.op_char o) = GO.Val (GO.Evaluate s f kw) ->
    exists q : MO.request,
      MO.binary_operator_request l r o = MO.Ok q /\
      s = MO.deparse_assignment (MO.rq_assignment q) /\
      f = MO.format_deparse (MO.rq_format q) /\
      kw = map (fun nb => (fst nb, conv_binding l r (snd nb))) (MO.rq_bindings q) /\
      forall (lv rv : MO.opvalue) (c : MO.coord),
        List.length c = List.length (MO.pointwise_dims l r) ->
        MO.denote_request q l r lv rv c = MO.apply_op o (MO.broadcast l lv c) (MO.broadcast r rv c).
Proof.
  intros l r o s f kw H.
  destruct (refines_evaluate_inv _ _ _ _ _ _ _ _ (gen_binary_refines l r o) H) as [q [Hq E]].
  exists q. unfold conv_request in E. inversion E; subst. repeat split; try assumption.
  intros. apply request_denotes_pointwise; assumption.
Qed.

(** C11_matmul_request_denotes *)
Theorem gen_matmul_request_denotes :
  forall (l r : MO.operand) (s f : string) (kw : list (string * GO.argval)),
    GO.evaluate_matrix_multiplication_operator (emb l) (emb r) = GO.Val (GO.Evaluate s f kw) ->
    exists q : MO.request,
      MO.matmul_request l r = MO.Ok q /\
      s = MO.deparse_assignment (MO.rq_assignment q) /\
      f = MO.format_deparse (MO.rq_format q) /\
      kw = map (fun nb => (fst nb, conv_binding l r (snd nb))) (MO.rq_bindings q) /\
      forall (lv rv : MO.opvalue) (c : MO.coord),
        List.length c = List.length (MO.matmul_dims l r) ->
        MO.denote_request q l r lv rv c = MO.matmul_spec l r lv rv c.
Proof.
  intros l r s f kw H.
  destruct (refines_evaluate_inv _ _ _ _ _ _ _ _ (gen_matmul_refines l r) H) as [q [Hq E]].
  exists q. unfold conv_request in E. inversion E; subst. repeat split; try assumption.
  intros. apply matmul_request_denotes; assumption.
Qed.

Lemma natural_ordering_deparse : forall f,
  MO.f_ordering f = MO.natural (List.length (MO.f_modes f)) ->
  MO.format_deparse f = String.concat "" (map MO.mode_char (MO.f_modes f)).
Proof.
  intros f H. unfold MO.format_deparse. rewrite H.
  replace (list_eqb Nat.eqb _ _) with true; [reflexivity|]. symmetry. apply list_eqb_nat. reflexivity.
Qed.

(** C11_operator_format_rule, about the format STRING the regenerated function passes on: for
    operands in natural mode order it is one mode character per dimension, ['d'] exactly where the
    documented rule says dense. *)
Theorem gen_operator_format_rule :
  forall (l r : MO.operand) (o : MO.op) (s f : string) (kw : list (string * GO.argval)),
    MO.wf_operand l = true -> MO.wf_operand r = true ->
    MO.natural_operand l = true -> MO.natural_operand r = true ->
    GO.evaluate_binary_operator (emb l) (emb r) (MO.op_char o) = GO.Val (GO.Evaluate s f kw) ->
    exists ms : list MO.mode,
      f = String.concat "" (map MO.mode_char ms) /\
      List.length ms = List.length (MO.pointwise_dims l r) /\
      forall d : nat, (d < List.length (MO.pointwise_dims l r))%nat ->
        nth d ms MO.MDense = MO.rule_mode o (MO.mode_of_dim l d) (MO.mode_of_dim r d).
Proof.
  intros l r o s f kw Hl Hr Nl Nr H.
  destruct (refines_evaluate_inv _ _ _ _ _ _ _ _ (gen_binary_refines l r o) H) as [q [Hq E]].
  unfold conv_request in E. inversion E; subst. clear E.
  destruct (operator_format_rule l r o q Hl Hr Nl Nr Hq) as [Ho [Hlen Hrule]].
  exists (MO.f_modes (MO.rq_format q)). split; [|split; [exact Hlen|]].
  - apply natural_ordering_deparse. rewrite Ho, Hlen. reflexivity.
  - intros d Hd. specialize (Hrule d Hd). unfold MO.format_mode_of_dim in Hrule.
    rewrite Ho, index_of_natural in Hrule by assumption. exact Hrule.
Qed.

(** C11_matmul_format_rule: for every stored ordering the format string of [@] is the mode
    characters of the operands' outer dimensions *)
Theorem gen_matmul_format_rule :
  forall (l r : MO.operand) (s f : string) (kw : list (string * GO.argval)),
    MO.wf_operand l = true -> MO.wf_operand r = true ->
    GO.evaluate_matrix_multiplication_operator (emb l) (emb r) = GO.Val (GO.Evaluate s f kw) ->
    f = String.concat "" (map MO.mode_char (MO.matmul_outer_modes l r)).
Proof.
  intros l r s f kw Hl Hr H.
  destruct (refines_evaluate_inv _ _ _ _ _ _ _ _ (gen_matmul_refines l r) H) as [q [Hq E]].
  unfold conv_request in E. inversion E; subst. clear E.
  rewrite (matmul_format_rule l r q Hl Hr Hq). apply natural_format_deparse.
Qed.

(** an operator string other than the three never produces a request *)
Theorem gen_binary_unknown_operator : forall (l r : MO.operand) (op : string),
  op <> "+" -> op <> "-" -> op <> "*" ->
  forall s f kw, GO.evaluate_binary_operator (emb l) (emb r) op <> GO.Val (GO.Evaluate s f kw).
Proof.
  intros l r op H1 H2 H3 s f kw.
  assert (E1 : String.eqb op "*" = false) by (apply String.eqb_neq; assumption).
  assert (E2 : py_in String.eqb op ["+"; "-"] = false).
  { unfold py_in. cbn [existsb]. apply String.eqb_neq in H1, H2. rewrite H1, H2. reflexivity. }
  destruct l as [ld lm lo| |], r as [rd rm ro| |]; unfold GO.evaluate_binary_operator;
    cbn [emb GO.is_PyTensor GO.is_PyReal andb GO.tensor_get GO.as_tensor GO.bind GO.Tensor_dimensions emb_view negb];
    rewrite ?E1, ?E2; cbn [GO.bind]; try discriminate.
  destruct (list_eqb Z.eqb ld rd); cbn [negb GO.bind]; discriminate.
Qed.
