(** Concrete, non-trivial instances of the hypotheses of the C01 theorems (CONVENTIONS 1:
    "beside every implication an Example"), and a few executions of the specification. *)
From Coq Require Import ZArith List Bool String Permutation.
From TV Require Import spec.Storage spec.Spec model.DesugarSem model.Exhaust
  proofs.SpecSums proofs.DesugarSemProofs.
Import ListNotations.
Open Scope string_scope.
Open Scope Z_scope.

(** matrix product  a(i,j) = b(i,k) * c(k,j) *)
Definition ex_matmul : assignment ZOps :=
  mkAssign "a" ["i"; "j"] (EMul (ETensor "b" ["i"; "k"]) (ETensor "c" ["k"; "j"])).

(** a(i) = b(i,j) * c(j) + d(i,k) * e(k) : two contractions, each inside its own term *)
Definition ex_two_terms : assignment ZOps :=
  mkAssign "a" ["i"]
    (EAdd (EMul (ETensor "b" ["i"; "j"]) (ETensor "c" ["j"]))
          (EMul (ETensor "d" ["i"; "k"]) (ETensor "e" ["k"]))).

(** a() = b(k) * c(k) + d(k) : the shared index is carried by every term, so it is hoisted *)
Definition ex_hoisted : assignment ZOps :=
  mkAssign "a" [] (EAdd (EMul (ETensor "b" ["k"]) (ETensor "c" ["k"])) (ETensor "d" ["k"])).

(** the guard of [C01_desugar_correct_partial] holds for them (and contractions are present) *)
Example hoist_ok_instances :
  assignment_hoist_ok ex_matmul = true /\ contract_indexes ex_matmul = ["k"]
  /\ assignment_hoist_ok ex_two_terms = true /\ contract_indexes ex_two_terms = ["j"; "k"]
  /\ assignment_hoist_ok ex_hoisted = true
  /\ desugar_rhs ord_sorted false ex_hoisted
     = DContract "k" (DAdd (DMul (DTensor 1 "b" ["k"]) (DTensor 2 "c" ["k"])) (DTensor 3 "d" ["k"])).
Proof. vm_compute. repeat split. Qed.

(** a legal oracle exists *)
Example oracle_instance : forall n l, Permutation (ord_sorted n l) l.
Proof. exact ord_sorted_perm. Qed.

(** the specification on a stored ds matrix times a stored column-major dense matrix *)
Definition ex_b : tensor Z := mkTensor [2; 2] [0%nat; 1%nat] [LDense; LCompressed [0; 1; 2] [1; 0]] [3; 4].
Definition ex_c : tensor Z := mkTensor [2; 2] [1%nat; 0%nat] [LDense; LDense] [1; 2; 3; 4].

Example spec_matmul_runs :
  spec_table ex_matmul [("b", ex_b); ("c", ex_c)] [("i", 2); ("j", 2); ("k", 2)] = [6; 12; 4; 12].
Proof. vm_compute. reflexivity. Qed.

(** the same matrix b stored as compressed-compressed in column-major order has the same
    entries up to order, hence ([C01_spec_format_independent]) the same result *)
Definition ex_b' : tensor Z :=
  mkTensor [2; 2] [1%nat; 0%nat] [LCompressed [0; 2] [0; 1]; LCompressed [0; 1; 2] [1; 0]] [4; 3].

Example same_entries_instance :
  Permutation (entries 0 ex_b) (entries 0 ex_b')
  /\ spec_table ex_matmul [("b", ex_b'); ("c", ex_c)] [("i", 2); ("j", 2); ("k", 2)] = [6; 12; 4; 12].
Proof. split; [vm_compute; apply perm_swap | vm_compute; reflexivity]. Qed.

(** renaming: hypotheses of [C01_spec_rename] are satisfiable with a non-trivial renaming *)
Definition ex_tn (n : string) : string := "T" ++ n.
Definition ex_ti (k : string) : string := "x" ++ k.

Example rename_instance :
  (forall x y, ex_ti x = ex_ti y -> x = y)
  /\ rename_assignment ex_tn ex_ti ex_matmul
     = mkAssign "Ta" ["xi"; "xj"] (EMul (ETensor "Tb" ["xi"; "xk"]) (ETensor "Tc" ["xk"; "xj"])).
Proof. split; [intros x y H; inversion H; auto | reflexivity]. Qed.

(** broadcast: a(i,j) = b(i) : j is a target index the right-hand side never mentions *)
Example broadcast_instance :
  let a := mkAssign (R := Z) "a" ["i"; "j"] (ETensor "b" ["i"]) in
  nth_error (tgt_idx a) 1 = Some "j" /\ ~ In "j" (expr_idx (rhs a)).
Proof. simpl; split; auto. intros [H | []]; discriminate. Qed.

(** a sparse context: b(i) * (c(i) + 0) with b compressed, at index i *)
Example sparse_context_instance :
  let e := IMul (ITensor "1_b" "b" ["i"] [MCompressed])
                (IAdd (ITensor "2_c" "c" ["i"] [MDense]) (IInt (R := Z) 0)) in
  extract_context (Z.eqb 0) e "i" = Some (mkContext true [("1_b", 0%nat)] [("2_c", 0%nat)])
  /\ exhaust e "1_b" = IInt 0.
Proof. vm_compute. split; reflexivity. Qed.
