(** C10: for the problems a TensorMethod can exist for, argument validation never hits an
    internal lookup error, refuses only with TypeError / ValueError, and its whole result is
    independent of the iteration order of Python's sets. *)

From Coq Require Import String List ZArith Bool Arith Lia Permutation.
From TV Require Import model.ExprAst model.Problem model.Validate
  proofs.ValidateBase proofs.ValidateIP proofs.ValidateCall proofs.ValidateMain proofs.ValidateVars.
Import ListNotations.

(** the checks of [Assignment.__post_init__] and [Problem.__post_init__] passed *)
Definition problem_wf (p : problem) : Prop :=
  assignment_check (p_assignment p) = Ok tt /\
  problem_post_init (p_assignment p) (p_formats p) = Ok tt.

(** every argument that is a tensor is a real one: [order] dimensions, modes, levels *)
Definition args_wf (c : call_args) : Prop :=
  forall n a, In (n, a) (keywords c) -> arg_wf a = true.

(* ------------------------------------------------------------------------------------------ *)
(** * the constructor checks, characterised *)

Lemma check_variables_Ok : forall target vs,
  check_variables target vs = Ok tt ->
  forall n refs, In (n, refs) vs ->
    n <> target /\ forall t, In t refs -> t_order t = first_order refs.
Proof.
  induction vs as [|[n0 refs0] rest IH]; simpl; intros H n refs Hin; [destruct Hin|].
  destruct (String.eqb n0 target) eqn:E; [discriminate|]. apply String.eqb_neq in E.
  destruct refs0 as [|first others]; [discriminate|].
  destruct (forallb _ others) eqn:F; [|discriminate].
  destruct Hin as [Hin|Hin].
  - inversion Hin; subst. split; [exact E|]. intros t [<-|Ht]; [reflexivity|].
    rewrite forallb_forall in F. specialize (F t Ht). apply Nat.eqb_eq in F. simpl. auto.
  - apply IH; assumption.
Qed.

Lemma post_init_loop_Ok : forall fs vo,
  post_init_loop vo fs = Ok tt <->
  (forall n o, In (n, o) vo -> exists f, aget n fs = Some f /\ o = f_order f).
Proof.
  induction vo as [|[n o] rest IH]; simpl.
  - split; [intros _ ? ? [] | reflexivity].
  - destruct (aget n fs) as [f|] eqn:E.
    + destruct (Nat.eqb o (f_order f)) eqn:E2.
      * apply Nat.eqb_eq in E2. rewrite IH. split.
        -- intros H n' o' [Hin|Hin]; [inversion Hin; subst; eauto | auto].
        -- intros H n' o' Hin. apply H. right. exact Hin.
      * apply Nat.eqb_neq in E2. split; [discriminate|]. intros H.
        destruct (H n o (or_introl eq_refl)) as [f' [H1 H2]]. congruence.
    + split; [discriminate|]. intros H.
      destruct (H n o (or_introl eq_refl)) as [f' [H1 H2]]. congruence.
Qed.

(** every tensor of the right-hand side is an input of the kernel, with a format of the
    order it is used with *)
Lemma occurrence_format : forall p T idx,
  problem_wf p -> In (TRef T idx) (occurrences (rhs p)) ->
  T <> output_name p /\ exists f, In (T, f) (input_formats p) /\ f_order f = length idx.
Proof.
  intros p T idx [AC PI] Hocc. unfold rhs in Hocc.
  destruct (variables_occurrence _ _ Hocc) as [refs [Hv Hr]]. simpl in Hv.
  unfold assignment_check in AC.
  destruct (check_variables _ _) as [[]|] eqn:CV; [|discriminate].
  destruct (check_variables_Ok _ _ CV _ _ Hv) as [Hne Hord].
  specialize (Hord _ Hr). unfold t_order in Hord at 1. simpl in Hord.
  unfold problem_post_init in PI.
  assert (Hvo : In (T, first_order refs) (variable_orders (p_assignment p))).
  { unfold variable_orders. right.
    change (T, first_order refs) with ((fun kv : string * list tref => (fst kv, first_order (snd kv))) (T, refs)).
    apply in_map. exact Hv. }
  destruct (proj1 (post_init_loop_Ok _ _) PI _ _ Hvo) as [f [Hf Ho]].
  split; [exact Hne|]. exists f. split; [|congruence].
  unfold input_formats. apply filter_In. split; [apply aget_In; exact Hf|].
  simpl. apply negb_true_iff, String.eqb_neq. exact Hne.
Qed.

(* ------------------------------------------------------------------------------------------ *)

Lemma first_not_in_ext : forall xs ys ys',
  (forall x, In x ys <-> In x ys') -> first_not_in xs ys = first_not_in xs ys'.
Proof.
  induction xs as [|x t IH]; intros ys ys' H; simpl; [reflexivity|].
  assert (E : smem x ys = smem x ys').
  { destruct (smem x ys) eqn:E1, (smem x ys') eqn:E2; try reflexivity.
    - apply smem_In in E1. apply smem_false in E2. apply H in E1. contradiction.
    - apply smem_In in E2. apply smem_false in E1. apply H in E2. contradiction. }
  rewrite E. destruct (smem x ys'); [apply IH; assumption | reflexivity].
Qed.

Lemma aget_map_sizes : forall (sz : string -> Z) (m : ipmap) i,
  aget i (map (fun kp : string * list participant => (fst kp, sz (fst kp))) m)
  = if smem i (akeys m) then Some (sz i) else None.
Proof.
  induction m as [|[k ps] t IH]; intros i; simpl; [reflexivity|].
  destruct (String.eqb i k) eqn:E; simpl.
  - apply String.eqb_eq in E. subst. reflexivity.
  - apply IH.
Qed.

Lemma check_indexes_all : forall ordp bound (sz : string -> Z) m,
  (forall k ps, In (k, ps) m -> check_index ordp bound k ps = Ok (sz k)) ->
  check_indexes ordp bound m = Ok (map (fun kp => (fst kp, sz (fst kp))) m).
Proof.
  induction m as [|[k ps] t IH]; intros Hm; simpl; [reflexivity|].
  rewrite (Hm k ps (or_introl eq_refl)). rewrite IH; [reflexivity|].
  intros k' ps' Hin. apply Hm. right. exact Hin.
Qed.

Section TwoOracles.
  Variable ord ord' : path -> list string -> list string.
  Variable ordp ordp' : string -> list participant -> list participant.
  Hypothesis ord_perm : forall pth l, Permutation (ord pth l) l.
  Hypothesis ord_perm' : forall pth l, Permutation (ord' pth l) l.
  Hypothesis ordp_perm : forall k l, Permutation (ordp k l) l.
  Hypothesis ordp_perm' : forall k l, Permutation (ordp' k l) l.

  Lemma ip_keys_same : forall e k,
    In k (akeys (index_participants ord [] e)) <-> In k (akeys (index_participants ord' [] e)).
  Proof. intros. rewrite (ip_keys ord ord_perm), (ip_keys ord' ord_perm'). tauto. Qed.

  Theorem tm_init_order_independent : forall p, tm_init ord p = tm_init ord' p.
  Proof.
    intros p. unfold tm_init.
    rewrite (first_not_in_ext _ _ (akeys (index_participants ord' [] (a_expr (p_assignment p))))).
    - reflexivity.
    - intros x. apply ip_keys_same.
  Qed.

  (** an accepted dimension loop is accepted under any other iteration order, with the same sizes *)
  Lemma check_indexes_transfer : forall bound e sizes,
    check_indexes ordp bound (index_participants ord [] e) = Ok sizes ->
    exists sizes',
      check_indexes ordp' bound (index_participants ord' [] e) = Ok sizes' /\
      forall i, aget i sizes = aget i sizes'.
  Proof.
    intros bound e sizes H.
    set (sz := fun i => match aget i sizes with Some s => s | None => 0%Z end).
    exists (map (fun kp : string * list participant => (fst kp, sz (fst kp))) (index_participants ord' [] e)).
    split.
    - apply check_indexes_all. intros k ps Hin.
      destruct (ip_entry ord' ord_perm' _ _ _ _ Hin) as [Eps Hne].
      apply (check_index_Ok ordp' ordp_perm'). split; [exact Hne|].
      intros pt Hpt. rewrite Eps in Hpt. apply (ip_get ord' ord_perm') in Hpt.
      apply (ip_get ord ord_perm _ []) in Hpt.
      assert (K := aget_nil_In_key _ _ _ Hpt).
      apply aget_key_Some in K. destruct K as [ps1 Hps1].
      assert (E1 : aget_nil k (index_participants ord [] e) = ps1) by (unfold aget_nil; rewrite Hps1; reflexivity).
      rewrite E1 in Hpt.
      destruct (check_indexes_lookup ordp _ _ _ k ps1 (ip_NoDup ord ord_perm _ _) H (aget_In _ _ _ Hps1))
        as [s [Hs C]].
      apply (check_index_Ok ordp ordp_perm) in C. destruct C as [_ C].
      unfold sz. rewrite Hs. apply C. exact Hpt.
    - intros i. rewrite aget_map_sizes.
      apply check_indexes_Ok in H. destruct H as [K _].
      destruct (smem i (akeys (index_participants ord' [] e))) eqn:E.
      + apply smem_In in E. apply ip_keys_same in E. rewrite <- K in E.
        apply aget_key_Some in E. destruct E as [s Hs]. unfold sz. rewrite Hs. reflexivity.
      + apply smem_false in E. apply aget_None. rewrite K. intros Hc. apply E, ip_keys_same. exact Hc.
  Qed.
End TwoOracles.

Section WithOracles.
  Variable ord : path -> list string -> list string.
  Variable ordp : string -> list participant -> list participant.
  Hypothesis ord_perm : forall pth l, Permutation (ord pth l) l.
  Hypothesis ordp_perm : forall k l, Permutation (ordp k l) l.

  (** once names and formats were accepted, every size lookup of the dimension loop succeeds *)
  Lemma lookups_succeed : forall p c,
    problem_wf p -> args_wf c ->
    names_exact (input_names p) c ->
    (forall n f, In (n, f) (input_formats p) -> arg_matches (kwget (keywords c) n) f) ->
    forall k ps, In (k, ps) (index_participants ord [] (rhs p)) ->
      ps <> [] /\
      forall pt, In pt ps ->
        exists s, size_of (map (fun n => (n, kwget (keywords c) n)) (input_names p)) pt = Some s.
  Proof.
    intros p c WF AW [P [ND Hn]] AM k ps Hin.
    destruct (ip_entry ord ord_perm _ _ _ _ Hin) as [Eps Hne]. split; [exact Hne|].
    intros [T j] Hpt. rewrite Eps in Hpt. apply (ip_get ord ord_perm) in Hpt.
    destruct Hpt as [idx [H1 H2]]. simpl in H1, H2.
    destruct (occurrence_format p T idx WF H1) as [_ [f [Hf Ho]]].
    destruct (AM T f Hf) as [o [m [r [d [Ea [Eo _]]]]]].
    assert (K : In T (akeys (keywords c))).
    { apply Hn. unfold input_names, akeys. change T with (fst (T, f)). apply in_map. exact Hf. }
    apply aget_key_Some in K. destruct K as [a Ha].
    rewrite (kwget_Some _ _ _ Ha) in Ea. subst a.
    assert (W := AW _ _ (aget_In _ _ _ Ha)). simpl in W.
    apply andb_true_iff in W. destruct W as [_ W]. apply Nat.eqb_eq in W.
    assert (Hj : j < length d).
    { rewrite W, Eo, Ho. apply nth_error_Some. congruence. }
    destruct (nth_error d j) as [s|] eqn:En; [|apply nth_error_None in En; lia].
    exists s. apply size_of_bound; [exact Hn|]. simpl. exists (ATensor o m r d). auto.
  Qed.

  Theorem refusal_is_type_or_value_error : forall p c e,
    problem_wf p -> args_wf c -> tm_init ord p = Ok tt ->
    validate ord ordp p c = Error e -> is_type_or_value_error e = true.
  Proof.
    intros p c e WF AW TI H. unfold validate in H.
    destruct (bind (input_names p) c) as [bound|e0] eqn:B.
    2:{ inversion H; subst. apply bind_Error in B. subst. reflexivity. }
    apply bind_Ok in B. destruct B as [NE ->].
    destruct (check_arguments _ (input_formats p)) as [[]|e0] eqn:A.
    2:{ inversion H; subst. unfold input_names in A.
        apply (check_arguments_Error (kwget (keywords c))) in A.
        destruct A as [[n ->]|[[n ->]|[[n ->]|[n ->]]]]; reflexivity. }
    unfold input_names in A.
    pose proof (proj1 (check_arguments_Ok (kwget (keywords c)) (input_formats p)) A) as AM.
    destruct (check_indexes ordp _ _) as [sizes|e0] eqn:I.
    2:{ inversion H; subst.
        apply (check_indexes_Error ordp ordp_perm) in I; [subst; reflexivity|].
        apply lookups_succeed; assumption. }
    (* the output dimensions cannot fail: __init__ checked the target's indexes *)
    exfalso. unfold tm_init in TI.
    destruct (first_not_in _ _) eqn:F; [discriminate|]. apply first_not_in_None in F.
    apply check_indexes_Ok in I. destruct I as [K _].
    assert (G : forall target, incl target (akeys sizes) -> exists d, output_dimensions sizes target = Ok d).
    { induction target as [|i t IH]; intros Hi; simpl; [eauto|].
      assert (Hk : In i (akeys sizes)) by (apply Hi; left; reflexivity).
      apply aget_key_Some in Hk. destruct Hk as [s Hs]. rewrite Hs.
      destruct IH as [d Hd]; [intros x Hx; apply Hi; right; exact Hx|]. rewrite Hd. eauto. }
    destruct (G (t_indexes (a_target (p_assignment p)))) as [d Hd]; [rewrite K; exact F|].
    congruence.
  Qed.
End WithOracles.

(** The result of argument validation -- accepted with which output dimensions, or refused
    with which error -- is the same for any two iteration orders of the sets involved. *)
Theorem validate_order_independent :
  forall ord ord' ordp ordp',
    (forall pth l, Permutation (ord pth l) l) -> (forall pth l, Permutation (ord' pth l) l) ->
    (forall k l, Permutation (ordp k l) l) -> (forall k l, Permutation (ordp' k l) l) ->
  forall p c, problem_wf p -> args_wf c ->
    validate ord ordp p c = validate ord' ordp' p c.
Proof.
  intros ord ord' ordp ordp' P1 P2 P3 P4 p c WF AW. unfold validate.
  destruct (bind (input_names p) c) as [bound|e0] eqn:B; [|reflexivity].
  apply bind_Ok in B. destruct B as [NE ->].
  destruct (check_arguments _ (input_formats p)) as [[]|e0] eqn:A; [|reflexivity].
  unfold input_names in A.
  pose proof (proj1 (check_arguments_Ok (kwget (keywords c)) (input_formats p)) A) as AM.
  fold (input_names p).
  destruct (check_indexes ordp _ (index_participants ord _ _)) as [s1|e1] eqn:I1;
    destruct (check_indexes ordp' _ (index_participants ord' _ _)) as [s2|e2] eqn:I2.
  - destruct (check_indexes_transfer ord ord' ordp ordp' P1 P2 P3 P4 _ _ _ I1) as [s2' [H1 H2]].
    rewrite H1 in I2. inversion I2; subst. apply output_dimensions_ext. intros i _. apply H2.
  - destruct (check_indexes_transfer ord ord' ordp ordp' P1 P2 P3 P4 _ _ _ I1) as [s2' [H1 H2]]. congruence.
  - destruct (check_indexes_transfer ord' ord ordp' ordp P2 P1 P4 P3 _ _ _ I2) as [s1' [H1 H2]]. congruence.
  - apply (check_indexes_Error ordp P3) in I1; [|apply (lookups_succeed ord P1); assumption].
    apply (check_indexes_Error ordp' P4) in I2; [|apply (lookups_succeed ord' P2); assumption].
    congruence.
Qed.
