(** Reading the arrays produced by [emit] with Storage.walk gives back the grouped coordinate list:
    [walk_emit] relates the position-based walk over pos/crd/vals to the recursive reading
    [node_walk] of the implicit trie; [node_walk_spec] characterises the latter as "every visited
    coordinate once, with the sum of the values supplied there".  Axiom-free. *)

From Coq Require Import ZArith List Bool Lia ZifyBool Permutation Arith.
From TV Require Import spec.Storage model.TensorBuild proofs.StorageLemmas proofs.TensorBuildLemmas
  proofs.TensorBuildWf.
Import ListNotations.
Open Scope Z_scope.

Definition cons_fst (i : Z) (cv : list Z * Z) : list Z * Z := (i :: fst cv, snd cv).

(** the (level-order coordinate, value) list of a trie node, in storage order *)
Fixpoint node_walk (lv : list (mode * Z)) (nd : node) : list (list Z * Z) :=
  match lv with
  | [] => [([], leaf_value nd)]
  | (MDense, d) :: r => flat_map (fun i => map (cons_fst i) (node_walk r (select i nd))) (zrange d)
  | (MCompressed, _) :: r => flat_map (fun k => map (cons_fst k) (node_walk r (select k nd))) (keys nd)
  end.

(** * indexing the next level's node list *)

Lemma dense_child_nth (nodes : list node) d p i :
  (p < length nodes)%nat -> (i < Z.to_nat d)%nat ->
  nth (p * Z.to_nat d + i)
      (flat_map (fun nd => map (fun i => select i nd) (zrange d)) nodes) []
  = select (Z.of_nat i) (nth p nodes []).
Proof.
  intros Hp Hi. rewrite flat_map_concat_map.
  set (ll := map (fun nd => map (fun i => select i nd) (zrange d)) nodes).
  assert (Forall (fun l => length l = Z.to_nat d) ll) as U.
  { apply Forall_forall. intros l Hl. unfold ll in Hl. apply in_map_iff in Hl.
    destruct Hl as (nd & <- & _). now rewrite map_length, zrange_length. }
  assert (length ll = length nodes) as Lll by (unfold ll; apply map_length).
  rewrite <- (length_concat_firstn_uniform ll (Z.to_nat d) p U) by lia.
  assert (nth p ll [] = map (fun i => select i (nth p nodes [])) (zrange d)) as Np.
  { unfold ll. exact (nth_map_lt (fun nd : node => map (fun i => select i nd) (zrange d)) nodes p [] [] Hp). }
  rewrite nth_concat; [|lia|rewrite Np, map_length, zrange_length; assumption].
  rewrite Np. rewrite (nth_map_lt _ _ _ _ 0) by (rewrite zrange_length; assumption).
  f_equal. unfold zrange. rewrite (nth_map_lt _ _ _ _ O) by (rewrite seq_length; assumption).
  rewrite seq_nth by assumption. reflexivity.
Qed.

Lemma compressed_child_nth (nodes : list node) p j :
  (p < length nodes)%nat -> (j < length (keys (nth p nodes [])))%nat ->
  let q := (length (concat (firstn p (map keys nodes))) + j)%nat in
  nth q (concat (map keys nodes)) (-1) = nth j (keys (nth p nodes [])) (-1)
  /\ nth q (flat_map (fun nd => map (fun k => select k nd) (keys nd)) nodes) []
     = select (nth j (keys (nth p nodes [])) (-1)) (nth p nodes []).
Proof.
  intros Hp Hj q.
  assert (nth p (map keys nodes) [] = keys (nth p nodes [])) as Nk.
  { change (@nil Z) with (keys []) at 1. apply map_nth. }
  split.
  - unfold q. rewrite nth_concat; [now rewrite Nk|now rewrite map_length|now rewrite Nk].
  - rewrite flat_map_concat_map.
    set (g := fun nd : node => map (fun k => select k nd) (keys nd)).
    assert (nth p (map g nodes) [] = g (nth p nodes [])) as Ng.
    { change (@nil node) with (g []) at 1. apply map_nth. }
    unfold q. rewrite (length_concat_firstn_map keys g nodes p)
      by (intros x; unfold g; now rewrite map_length).
    rewrite nth_concat; [|now rewrite map_length|rewrite Ng; unfold g; now rewrite map_length].
    rewrite Ng. unfold g. now rewrite (nth_map_lt _ _ _ _ (-1)) by assumption.
Qed.

(** * the position-based walk over the emitted arrays reads the trie *)

Definition with_val (vs : list Z) (cq : list Z * Z) : list Z * Z := (fst cq, nthZ 0 vs (snd cq)).

Lemma walk_emit lv : forall nodes ls vs,
  lv_dims_ok lv -> emit lv nodes = (ls, vs) ->
  forall p, (p < length nodes)%nat ->
  map (with_val vs) (walk (combine ls (map snd lv)) (Z.of_nat p) []) = node_walk lv (nth p nodes []).
Proof.
  induction lv as [|[m d] lv IH]; intros nodes ls vs Hd E p Hp.
  - cbn in E. inversion E; subst. cbn. unfold with_val. cbn [fst snd].
    rewrite nthZ_of_nat. change 0 with (leaf_value []) at 1. now rewrite map_nth.
  - inversion Hd as [|? ? Hd0 Hd']; subst. cbn [snd] in Hd0.
    destruct m; cbn [emit] in E; destruct (emit lv _) as [ls' vs'] eqn:E'; inversion E; subst; clear E;
      cbn [map snd combine walk node_walk].
    + (* dense *)
      rewrite map_flat_map. apply flat_map_ext_in. intros i Hi. apply In_zrange in Hi.
      rewrite walk_prefix, map_map.
      set (q := (p * Z.to_nat d + Z.to_nat i)%nat).
      replace (Z.of_nat p * d + i) with (Z.of_nat q) by (unfold q; lia).
      assert (q < length (flat_map (fun nd => map (fun i => select i nd) (zrange d)) nodes))%nat as Hq.
      { rewrite (flat_map_length_uniform _ _ (Z.to_nat d)) by (intros; now rewrite map_length, zrange_length).
        unfold q. nia. }
      pose proof (IH _ _ _ Hd' E' q Hq) as IHq. unfold q in IHq at 2.
      rewrite dense_child_nth in IHq by lia.
      replace (Z.of_nat (Z.to_nat i)) with i in IHq by lia.
      rewrite <- IHq, map_map. apply map_ext. intros [c q0]. reflexivity.
    + (* compressed *)
      rewrite nthZ_of_nat. replace (Z.of_nat p + 1) with (Z.of_nat (S p)) by lia. rewrite nthZ_of_nat.
      assert (length (map keys nodes) = length nodes) as Lk by apply map_length.
      rewrite offsets_nth_S by lia. rewrite offsets_nth by lia.
      assert (nth p (map keys nodes) [] = keys (nth p nodes [])) as Nk.
      { change (@nil Z) with (keys []) at 1. apply map_nth. }
      rewrite Nk. set (kp := keys (nth p nodes [])). set (off := length (concat (firstn p (map keys nodes)))).
      rewrite zrange2_shift.
      replace (Z.of_nat off + zlen kp - Z.of_nat off) with (zlen kp) by lia.
      rewrite flat_map_map, map_flat_map.
      (* iterate over indexes on the right as well *)
      rewrite <- (map_nthZ_zrange (-1) kp) at 2. rewrite flat_map_map.
      apply flat_map_ext_in. intros j Hj. apply In_zrange in Hj. unfold zlen in Hj.
      replace j with (Z.of_nat (Z.to_nat j)) by lia. set (j' := Z.to_nat j).
      rewrite <- Nat2Z.inj_add, !nthZ_of_nat.
      destruct (compressed_child_nth nodes p j' Hp ltac:(fold kp; lia)) as [C1 C2].
      cbv zeta in C1, C2. fold off kp in C1, C2. rewrite C1.
      rewrite walk_prefix, map_map.
      assert (off + j' < length (flat_map (fun nd => map (fun k => select k nd) (keys nd)) nodes))%nat as Hq.
      { rewrite compressed_children_length.
        rewrite (concat_split (map keys nodes) p) by lia. fold off. rewrite Nk. fold kp.
        rewrite !app_length. lia. }
      pose proof (IH _ _ _ Hd' E' (off + j')%nat Hq) as IHq. rewrite C2 in IHq.
      rewrite <- IHq, map_map. apply map_ext. intros [c q0]. reflexivity.
Qed.

(** * what the trie reading contains *)

Definition node_lengths (lv : list (mode * Z)) (nd : node) : Prop :=
  Forall (fun e : entry => length (fst e) = length lv) nd.

Lemma node_in_range_lengths lv nd : node_in_range lv nd -> node_lengths lv nd.
Proof.
  unfold node_in_range, node_lengths. rewrite !Forall_forall. intros H e He.
  apply coord_in_range_length. now apply H.
Qed.

Lemma select_lengths md r k nd : node_lengths (md :: r) nd -> node_lengths r (select k nd).
Proof.
  unfold node_lengths. rewrite !Forall_forall. intros H [t v] Hin.
  apply select_In in Hin. specialize (H _ Hin). cbn in H. cbn. lia.
Qed.

(** every listed pair carries the sum of the values supplied at its coordinate *)
Lemma node_walk_values lv : forall nd c v,
  node_lengths lv nd -> In (c, v) (node_walk lv nd) -> v = sum_at c nd /\ length c = length lv.
Proof.
  induction lv as [|[m d] lv IH]; intros nd c v HL H.
  - cbn in H. destruct H as [H|[]]. inversion H; subst. split; [|reflexivity].
    apply leaf_value_sum_at. unfold node_lengths in HL. eapply Forall_impl; [|exact HL].
    intros e He. cbn in He. now apply length_zero_iff_nil.
  - assert (exists k, exists c', c = k :: c' /\ In (c', v) (node_walk lv (select k nd))) as (k & c' & -> & H').
    { destruct m; cbn [node_walk] in H; apply in_flat_map in H; destruct H as (k & _ & H);
        apply in_map_iff in H; destruct H as ([c' v'] & Heq & H); inversion Heq; subst;
        exists k, c'; split; auto. }
    apply IH in H'; [|eapply select_lengths; exact HL]. destruct H' as [-> L].
    split; [now rewrite sum_at_select|cbn [length]; now rewrite L].
Qed.

Lemma NoDup_app_intro {A} (a b : list A) :
  NoDup a -> NoDup b -> (forall x, In x a -> ~ In x b) -> NoDup (a ++ b).
Proof.
  induction a as [|x a IH]; intros Ha Hb H; [exact Hb|].
  inversion Ha; subst. cbn. constructor.
  - rewrite in_app_iff. intros [?|?]; [contradiction|]. eapply H; [left; reflexivity|assumption].
  - apply IH; auto. intros y Hy. apply H. now right.
Qed.

Lemma NoDup_flat_map_heads (G : Z -> list (list Z * Z)) idx :
  NoDup idx -> (forall i, NoDup (map fst (G i))) ->
  NoDup (map fst (flat_map (fun i => map (cons_fst i) (G i)) idx)).
Proof.
  intros Hi HG. induction idx as [|i idx IH]; [constructor|].
  inversion Hi; subst. cbn [flat_map]. rewrite map_app. apply NoDup_app_intro.
  - rewrite map_map. cbn [cons_fst fst].
    rewrite <- (map_map fst (cons i)). apply FinFun.Injective_map_NoDup; [|apply HG].
    intros a b E. now inversion E.
  - now apply IH.
  - intros c Hc Hc'. rewrite map_map in Hc. apply in_map_iff in Hc. destruct Hc as (cv & <- & _).
    apply in_map_iff in Hc'. destruct Hc' as (cv' & E & Hin).
    apply in_flat_map in Hin. destruct Hin as (i' & Hi' & Hin).
    apply in_map_iff in Hin. destruct Hin as (cv'' & <- & _). cbn in E. inversion E; subst. contradiction.
Qed.

(** no coordinate is listed twice *)
Lemma node_walk_NoDup lv : forall nd, NoDup (map fst (node_walk lv nd)).
Proof.
  induction lv as [|[m d] lv IH]; intros nd.
  - cbn. constructor; [intros []|constructor].
  - destruct m; cbn [node_walk].
    + apply (NoDup_flat_map_heads (fun i => node_walk lv (select i nd))); [apply NoDup_zrange|intros; apply IH].
    + apply (NoDup_flat_map_heads (fun i => node_walk lv (select i nd))); [apply keys_NoDup|intros; apply IH].
Qed.

(** every supplied in-range coordinate is listed *)
Lemma node_walk_covers lv : forall nd c v,
  node_in_range lv nd -> In (c, v) nd -> In c (map fst (node_walk lv nd)).
Proof.
  induction lv as [|[m d] lv IH]; intros nd c v HR Hin.
  - unfold node_in_range in HR. rewrite Forall_forall in HR. specialize (HR _ Hin). cbn in HR.
    destruct c; [|contradiction]. cbn. now left.
  - pose proof HR as HR'. unfold node_in_range in HR'. rewrite Forall_forall in HR'. specialize (HR' _ Hin).
    cbn [fst] in HR'. destruct c as [|k c]; [cbn in HR'; contradiction|]. cbn in HR'. destruct HR' as [Hk _].
    assert (In (c, v) (select k nd)) as Hs by (now apply select_In).
    pose proof (IH (select k nd) c v (select_in_range _ _ _ _ _ HR) Hs) as Hc.
    apply in_map_iff in Hc. destruct Hc as ([c0 v0] & E & Hc). cbn in E. subst c0.
    apply in_map_iff. exists (k :: c, v0). split; [reflexivity|].
    destruct m; cbn [node_walk]; apply in_flat_map; exists k; split.
    + apply In_zrange. lia.
    + apply in_map_iff. exists (c, v0). split; [reflexivity|assumption].
    + apply keys_In, heads_In. now exists c, v.
    + apply in_map_iff. exists (c, v0). split; [reflexivity|assumption].
Qed.

Definition nonzero (e : entry) : bool := negb (snd e =? 0).

(** the non-zero part of the reading is exactly the non-zero sums of the supplied values *)
Lemma node_walk_spec lv nd c v :
  node_in_range lv nd ->
  (In (c, v) (filter nonzero (node_walk lv nd)) <-> v = sum_at c nd /\ v <> 0).
Proof.
  intros HR. rewrite filter_In. unfold nonzero. cbn [snd]. split.
  - intros [H Hz]. apply node_walk_values in H; [|now apply node_in_range_lengths].
    split; [tauto|lia].
  - intros [-> Hz]. split; [|lia].
    destruct (sum_at_nonzero_In _ _ Hz) as [v Hv].
    pose proof (node_walk_covers lv nd c v HR Hv) as Hc.
    apply in_map_iff in Hc. destruct Hc as ([c0 v0] & E & Hc). cbn in E. subst c0.
    pose proof (node_walk_values lv nd c v0 (node_in_range_lengths _ _ HR) Hc) as [-> _]. exact Hc.
Qed.
