(** TIE "tensorbuild", part A: the regenerated coordinates_to_tree builds the dict trie that
    model/TensorBuild.v keeps implicit ([rep]: the dict under key k represents [select k]). *)
From Coq Require Import ZArith List Bool Lia.
From TV Require Import spec.PyBase spec.PyLib spec.Storage model.TensorBuild model.TensorBuildPy
  proofs.TensorBuildLemmas proofs.GenTensorBuild_lib.
From TV Require gen.TensorBuildGen.
Module G := TensorBuildGen.
Import ListNotations.
Open Scope Z_scope.

(** * Part A: coordinates_to_tree builds the trie that model/TensorBuild.v keeps implicit *)
Notation T := (pytree Z).

Fixpoint rep (n : nat) (t : T) (nd : node) : Prop :=
  match n with
  | O => t = PLeaf (leaf_value nd)
  | S n' => exists d, t = PDict d /\ NoDup (map fst d)
             /\ (forall k, In k (map fst d) <-> In k (heads nd))
             /\ (forall k t', In (k, t') d -> rep n' t' (select k nd))
  end.

Definition repd (n : nat) (d : list (Z * T)) (nd : node) : Prop :=
  NoDup (map fst d) /\ (forall k, In k (map fst d) <-> In k (heads nd))
  /\ (forall k t', In (k, t') d -> rep n t' (select k nd)).

Lemma rep_S n t nd : rep (S n) t nd <-> exists d, t = PDict d /\ repd n d nd.
Proof. reflexivity. Qed.

Lemma repd_nil n : repd n [] [].
Proof. repeat split; try constructor; cbn; tauto. Qed.

Notation ins := (G.coordinates_to_tree__recurse Z 0 Z.add Z.eqb).

Lemma heads_snoc nd k c v x : In x (heads (nd ++ [(k :: c, v)])) <-> x = k \/ In x (heads nd).
Proof. rewrite heads_app, in_app_iff. cbn. intuition. Qed.

Lemma select_snoc_same nd k c v : select k (nd ++ [(k :: c, v)]) = select k nd ++ [(c, v)].
Proof. rewrite select_app. cbn. now rewrite Z.eqb_refl. Qed.

Lemma select_snoc_other nd k k2 c v : k2 <> k -> select k2 (nd ++ [(k :: c, v)]) = select k2 nd.
Proof.
  intros H. rewrite select_app. cbn. destruct (Z.eqb_spec k k2); [congruence|]. apply app_nil_r.
Qed.

(** the common last step: store the updated child under [k] *)
Lemma repd_store n d nd k c v t' :
  NoDup (map fst d) ->
  (forall x, In x (map fst d) -> x = k \/ In x (heads nd)) ->
  (forall x, In x (heads nd) -> In x (map fst d)) ->
  (forall k2 t2, In (k2, t2) d -> k2 <> k -> rep n t2 (select k2 nd)) ->
  rep n t' (select k nd ++ [(c, v)]) ->
  repd n (PyLib.dict_set Z.eqb k t' d) (nd ++ [(k :: c, v)]).
Proof.
  intros Hnd Hk1 Hk2 He Ht. split; [now apply dset_NoDup|]. split.
  - intros x. rewrite dset_keys, heads_snoc. split; intros [->|H]; auto; destruct (Hk1 x H); auto.
  - intros k2 t2 Hin. apply dset_In in Hin; [|assumption].
    destruct Hin as [[-> ->]|[Hne Hin]].
    + now rewrite select_snoc_same.
    + rewrite select_snoc_other by assumption. now apply He.
Qed.

Lemma ins_ok n : forall fuel d nd c v, (n < fuel)%nat -> length c = S n -> repd n d nd ->
  exists d', ins fuel d c v = Val d' /\ repd n d' (nd ++ [(c, v)]).
Proof.
  induction n as [|n IH]; intros fuel d nd c v Hf Hc (Hnd & Hk & He).
  - destruct fuel; [lia|]. destruct c as [|k [|]]; try discriminate.
    cbn [G.coordinates_to_tree__recurse]. change (r_getitem [k] 0) with (Val k). cbn [rbind length Z.of_nat Pos.of_succ_nat Z.eqb Pos.eqb].
    destruct (in_dec Z.eq_dec k (map fst d)) as [Hin|Hni].
    + pose proof (dget_or_In k d (PLeaf 0) Hin) as Hg.
      pose proof (He _ _ Hg) as Hr. cbn in Hr. rewrite Hr. cbn [as_float rbind].
      eexists. split; [reflexivity|].
      apply repd_store; auto.
      * intros x Hx. right. now apply Hk.
      * intros x Hx. now apply Hk.
      * cbn. now rewrite leaf_value_snoc.
    + rewrite dget_or_absent by assumption. cbn [as_float rbind].
      eexists. split; [reflexivity|].
      apply repd_store; auto.
      * intros x Hx. right. now apply Hk.
      * intros x Hx. now apply Hk.
      * rewrite select_absent by (now rewrite <- Hk). cbn. reflexivity.
  - destruct fuel; [lia|]. destruct c as [|k c]; try discriminate. cbn [length] in Hc.
    assert (Hlen : length c = S n) by lia.
    cbn [G.coordinates_to_tree__recurse]. change (r_getitem (k :: c) 0) with (Val k). cbn [rbind].
    replace (Z.of_nat (length (k :: c)) =? 1) with false by (symmetry; apply Z.eqb_neq; cbn [length]; lia).
    change (py_slice_from (k :: c) 1) with c.
    destruct (in_dec Z.eq_dec k (map fst d)) as [Hin|Hni].
    + replace (dict_mem Z.eqb k d) with true by (symmetry; now apply dmem_In).
      cbn [negb rbind].
      destruct (PyLib.dict_get Z.eqb k d) as [t|] eqn:Eg; [|apply dget_None in Eg; tauto].
      apply dget_Some in Eg; [|assumption].
      pose proof (He _ _ Eg) as Hr. apply rep_S in Hr. destruct Hr as (dk & -> & Hrd).
      cbn [of_opt rbind as_dict].
      destruct (IH fuel dk (select k nd) c v ltac:(lia) Hlen Hrd) as (dk' & E & Hrd').
      rewrite E. cbn [rbind]. eexists. split; [reflexivity|].
      apply repd_store; auto.
      * intros x Hx. right. now apply Hk.
      * intros x Hx. now apply Hk.
      * apply rep_S. eauto.
    + replace (dict_mem Z.eqb k d) with false
        by (symmetry; apply not_true_is_false; now rewrite dmem_In).
      cbn [negb rbind]. rewrite dset_fresh by assumption.
      assert (Eg : PyLib.dict_get Z.eqb k (d ++ [(k, PDict [])]) = Some (PDict [])).
      { apply dget_Some; [|apply in_or_app; right; now left].
        rewrite <- dset_fresh with (w := PDict []) by assumption. now apply dset_NoDup. }
      rewrite Eg. cbn [of_opt rbind as_dict].
      assert (Hsel : select k nd = []) by (apply select_absent; now rewrite <- Hk).
      destruct (IH fuel [] (select k nd) c v ltac:(lia) Hlen) as (dk' & E & Hrd').
      { rewrite Hsel. apply repd_nil. }
      rewrite E. cbn [rbind]. eexists. split; [reflexivity|].
      apply repd_store.
      * rewrite <- dset_fresh with (w := PDict []) by assumption. now apply dset_NoDup.
      * intros x. rewrite map_app, in_app_iff. cbn. intros [H|[<-|[]]]; auto. right. now apply Hk.
      * intros x Hx. rewrite map_app, in_app_iff. left. now apply Hk.
      * intros k2 t2 Hin Hne. apply in_app_or in Hin. destruct Hin as [Hin|[E2|[]]]; [now apply He|congruence].
      * apply rep_S. eauto.
Qed.

(** ** the loop of coordinates_to_tree *)
Definition treeinv (n : nat) (ot : option T) (nd : node) : Prop :=
  match ot with None => nd = [] | Some t => nd <> [] /\ rep n t nd end.

Notation ctt := (G.coordinates_to_tree Z 0 Z.add Z.eqb).

Lemma rfold_zip_strict_combine {S A B} (f : S -> A * B -> R S) (l : list (A * B)) s :
  rfold_zip_strict f (map fst l) (map snd l) s = rfold f l s.
Proof.
  revert s. induction l as [|[a b] l IH]; intros s; cbn; [reflexivity|].
  destruct (f s (a, b)); cbn; auto.
Qed.

Lemma rfold_ext {S A} (f g : S -> A -> R S) l s :
  (forall s x, f s x = g s x) -> rfold f l s = rfold g l s.
Proof.
  intros H. revert s. induction l as [|x l IH]; intros s; cbn; [reflexivity|].
  rewrite H. destruct (g s x); cbn; auto.
Qed.

Lemma rfold_inv {S A} (I : S -> list A -> Prop) (P : A -> Prop) (f : S -> A -> R S) :
  (forall s pre x, P x -> I s pre -> exists s', f s x = Val s' /\ I s' (pre ++ [x])) ->
  forall l s pre, Forall P l -> I s pre -> exists s', rfold f l s = Val s' /\ I s' (pre ++ l).
Proof.
  intros Hstep. induction l as [|x l IH]; intros s pre Hl Hs; cbn.
  - exists s. now rewrite app_nil_r.
  - inversion Hl; subst.
    destruct (Hstep s pre x ltac:(assumption) Hs) as (s1 & E & Hs1). rewrite E. cbn.
    destruct (IH s1 (pre ++ [x]) ltac:(assumption) Hs1) as (s2 & E2 & Hs2). exists s2. split; [assumption|].
    now rewrite <- app_assoc in Hs2.
Qed.

Lemma ctt_ok n fuel (les : list entry) :
  (n <= fuel)%nat -> Forall (fun e : entry => length (fst e) = n) les ->
  exists ot, ctt fuel (map fst les) (map snd les) = Val ot /\ treeinv n ot les.
Proof.
  intros Hf Hall. unfold G.coordinates_to_tree. cbv zeta.
  rewrite rfold_zip_strict_combine.
  match goal with |- context [rfold ?f les None] => set (F := f) end.
  apply (rfold_inv (treeinv n) (fun e : entry => length (fst e) = n) F) with (s := @None T) (pre := @nil entry);
    [|assumption|reflexivity].
  intros ot pre [c v] Hc Hinv. cbn [fst] in Hc. unfold F. clear F.
  destruct n as [|n].
  - destruct c; [|discriminate]. cbn [length Z.of_nat Z.eqb].
    destruct ot as [t|]; cbn in Hinv.
    + destruct Hinv as [Hne ->]. cbn. eexists. split; [reflexivity|]. cbn.
      split; [now destruct pre|]. now rewrite leaf_value_snoc.
    + subst pre. cbn. eexists. split; [reflexivity|]. cbn. split; [discriminate|reflexivity].
  - replace (Z.of_nat (length c) =? 0) with false by (symmetry; apply Z.eqb_neq; lia).
    destruct ot as [t|]; cbn in Hinv.
    + destruct Hinv as [Hne (d & -> & Hrd)]. cbn [rbind of_opt as_dict].
      destruct (ins_ok n fuel d pre c v ltac:(lia) Hc Hrd) as (d' & E & Hrd').
      rewrite E. cbn [rbind]. eexists. split; [reflexivity|]. cbn. split; [now destruct pre|eauto].
    + subst pre. cbn [rbind of_opt as_dict].
      destruct (ins_ok n fuel [] [] c v ltac:(lia) Hc (repd_nil n)) as (d' & E & Hrd').
      rewrite E. cbn [rbind]. eexists. split; [reflexivity|]. cbn. split; [discriminate|eauto].
Qed.
