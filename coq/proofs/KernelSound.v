(** C01G -- the kernel model computes the loop-nest denotation of the graph.

    Part 1: static side conditions ([graph_wf]), the meaning of a leaf, the invariant carried down
    the graph ("every exhausted leaf reads 0 at every completion of the current coordinates"). *)

From Coq Require Import ZArith List Bool Lia ZifyBool String.
From TV Require Import spec.Storage spec.Spec proofs.SpecSums proofs.SpecLemmas proofs.StorageLemmas proofs.StorageWf
                       model.DesugarSem model.Exhaust proofs.ExhaustProofs
                       model.DesugarSemGraph proofs.DesugarSemGraphProofs
                       model.Kernel proofs.KernelLocate proofs.KernelEncode proofs.KernelExhaust.
Import ListNotations.
Local Open Scope Z_scope.

(** * integer literals in the ring Z *)

Lemma of_pos_Z p : @of_pos ZOps p = Zpos p.
Proof.
  induction p; cbn [of_pos]; rewrite ?IHp; change (@radd ZOps) with Z.add; change (@r1 ZOps) with 1;
    [rewrite (Pos2Z.inj_xI p)|rewrite (Pos2Z.inj_xO p)|]; lia.
Qed.

Lemma of_Z_Z z : @of_Z ZOps z = z.
Proof. destruct z; cbn [of_Z]; rewrite ?of_pos_Z; reflexivity. Qed.

(** * static conditions on the leaves *)

Definition level_mode (l : level) : mode :=
  match l with LDense => MDense | LCompressed _ _ => MCompressed end.

Definition modes_match (ms : list mode) (lv : list level) : bool :=
  list_eqb mode_eqb ms (map level_mode lv).

Lemma list_eqb_eq {A} (eqb : A -> A -> bool) (Heq : forall a b, eqb a b = true -> a = b) :
  forall l l', list_eqb eqb l l' = true -> l = l'.
Proof.
  induction l as [|a l IH]; intros [|b l'] H; cbn in H; try discriminate; [reflexivity|].
  apply andb_true_iff in H. destruct H as [H1 H2]. f_equal; auto.
Qed.

Lemma mode_eqb_eq a b : mode_eqb a b = true -> a = b.
Proof. destruct a, b; cbn; intros; try discriminate; reflexivity. Qed.

Lemma modes_match_eq ms lv : modes_match ms lv = true -> ms = map level_mode lv.
Proof. apply list_eqb_eq. exact mode_eqb_eq. Qed.

Lemma lookup_nodup {A} (l : list (string * A)) k v :
  NoDup (map fst l) -> In (k, v) l -> lookup k l = Some v.
Proof.
  induction l as [|[k' v'] l IH]; intros ND Hin; [contradiction|].
  cbn [map fst] in ND. inversion ND as [|? ? Hn ND']; subst. cbn [lookup].
  destruct Hin as [E|Hin].
  - inversion E; subst. now rewrite String.eqb_refl.
  - destruct (String.eqb_spec k k') as [->|N]; [|now apply IH].
    exfalso. apply Hn. apply in_map_iff. now exists (k', v).
Qed.

Lemma index_of_nat_index_of d l : index_of d l = nat_index_of d l.
Proof. induction l as [|x l IH]; [reflexivity|]. cbn. now rewrite IH. Qed.

Lemma to_dim_order_map (rho : val) ord idx :
  is_permb ord = true -> List.length idx = List.length ord ->
  to_dim_order ord (map rho idx) = map rho (dim_idx ord idx).
Proof.
  intros P L. unfold to_dim_order, dim_idx. rewrite map_map. apply map_ext_in.
  intros d Hd. apply in_seq in Hd. rewrite <- (index_of_nat_index_of d ord).
  assert (index_of d ord < List.length ord)%nat as Hi.
  { apply index_of_In. apply (is_permb_In _ P). lia. }
  rewrite (nth_indep _ (-1) (rho EmptyString)) by (rewrite map_length; lia).
  apply map_nth.
Qed.

(** * [locate] along a split coordinate *)

Lemma locate_app lv1 : forall lv2 cs1 cs2 p,
  List.length lv1 = List.length cs1 ->
  locate (lv1 ++ lv2) (cs1 ++ cs2) p
  = match locate lv1 cs1 p with Some q => locate lv2 cs2 q | None => None end.
Proof.
  induction lv1 as [|[l d] lv1 IH]; intros lv2 cs1 cs2 p L.
  - destruct cs1; [reflexivity|discriminate].
  - destruct cs1 as [|c cs1]; [discriminate|]. cbn [List.length] in L.
    cbn [app locate]. destruct l as [|pos crd].
    + destruct ((0 <=? c) && (c <? d)); [|reflexivity]. apply IH. lia.
    + destruct (find_crd crd c _); [|reflexivity]. apply IH. lia.
Qed.

Lemma find_crd_absent crd v qs :
  zmem v (map (fun q => nthZ (-1) crd q) qs) = false -> find_crd crd v qs = None.
Proof.
  unfold find_crd, zmem. induction qs as [|q qs IH]; intros H; [reflexivity|].
  cbn [map existsb] in H. apply orb_false_iff in H. destruct H as [H1 H2].
  cbn [find]. rewrite Z.eqb_sym, H1. now apply IH.
Qed.

Lemma nth_error_split {A} (l : list A) n x :
  nth_error l n = Some x -> l = firstn n l ++ x :: skipn (S n) l /\ List.length (firstn n l) = n.
Proof.
  revert l. induction n as [|n IH]; intros [|a l] H; cbn in H; try discriminate.
  - inversion H. now subst.
  - destruct (IH _ H) as [E L]. split; [|cbn [firstn List.length]; now rewrite L].
    change (firstn (S n) (a :: l)) with (a :: firstn n l).
    change (skipn (S (S n)) (a :: l)) with (skipn (S n) l). cbn [app]. now rewrite <- E.
Qed.

Lemma nth_error_combine {A B} (a : list A) (b : list B) n x y :
  nth_error a n = Some x -> nth_error b n = Some y -> nth_error (combine a b) n = Some (x, y).
Proof.
  revert a b. induction n as [|n IH]; intros [|a0 a] [|b0 b] Ha Hb; cbn in *; try discriminate.
  - now inversion Ha; inversion Hb.
  - now apply IH.
Qed.

Lemma index_of_str_nth k idx l : index_of_str k idx = Some l -> nth_error idx l = Some k.
Proof.
  revert l. induction idx as [|x idx IH]; intros l H; [discriminate|]. cbn in H.
  destruct (String.eqb_spec x k) as [->|N].
  - inversion H. reflexivity.
  - destruct (index_of_str k idx) as [m|]; [|discriminate]. inversion H. cbn. now apply IH.
Qed.

(** * static scoping: a compressed layer is iterated after the earlier layers of its tensor *)

Definition leaf_scopedb (B : list string) (k : string) (li : leafinfo) : bool :=
  let '(_, (_, idx, ms)) := li in
  match index_of_str k idx with
  | Some l =>
      match nth_error ms l with
      | Some MCompressed => forallb (fun x => smem x B) (firstn l idx)
      | _ => true
      end
  | None => true
  end.

Fixpoint scopedb (B : list string) (g : graph Z) : bool :=
  match g with
  | GTerminal _ => true
  | GIter k _ next =>
      negb (smem k B) && forallb (leaf_scopedb B k) (graph_leaves next) && scopedb (k :: B) next
  | GSum ts => (fix go (l : list (graph Z)) : bool :=
                  match l with
                  | [] => true
                  | t :: r => scopedb B t && go r
                  end) ts
  end.

Lemma scopedb_sum B ts : scopedb B (GSum ts) = forallb (scopedb B) ts.
Proof. induction ts as [|t r IH]; [reflexivity|]. cbn [scopedb forallb] in *. now rewrite IH. Qed.

Section Sound.
Variable cfg : kcfg.

Definition envE : env ZOps := env_of_stored (O := ZOps) (k_ins cfg).

Definition ordsE (n : string) : list nat :=
  match lookup n (k_ins cfg) with Some t => ordering t | None => [] end.

Notation gden := (gdenote (O := ZOps) envE (k_sizes cfg) ordsE).
Notation ievalZ := (ieval (O := ZOps) envE ordsE).

(** what a leaf reads, with 0 where the model cannot locate it *)
Definition sigmaG (rho : val) (id : string) : Z :=
  match leaf_value cfg rho id with Some v => v | None => 0 end.

(** the declared leaf agrees with the stored tensor of that name *)
Definition leaf_okb (li : leafinfo) : bool :=
  let '(_, (n, idx, ms)) := li in
  match lookup n (k_ins cfg) with
  | Some t => wf_tensorb false t && Nat.eqb (List.length idx) (List.length (ordering t))
              && modes_match ms (levels t)
  | None => false
  end.

Definition leaves_okb : bool :=
  forallb leaf_okb (k_leaves cfg) && nodupb (map fst (k_leaves cfg)).

Hypothesis LOK : leaves_okb = true.

Lemma leaves_nodup : NoDup (map fst (k_leaves cfg)).
Proof. unfold leaves_okb in LOK. apply andb_true_iff in LOK. apply nodupb_sound. tauto. Qed.

Lemma leaf_ok_in li : In li (k_leaves cfg) -> leaf_okb li = true.
Proof.
  unfold leaves_okb in LOK. apply andb_true_iff in LOK. destruct LOK as [H _].
  rewrite forallb_forall in H. apply H.
Qed.

Lemma leaf_registered id n idx ms :
  In (id, (n, idx, ms)) (k_leaves cfg) ->
  lookup id (k_leaves cfg) = Some (n, idx, ms)
  /\ exists t, lookup n (k_ins cfg) = Some t /\ wf_tensorb false t = true
               /\ List.length idx = List.length (ordering t) /\ ms = map level_mode (levels t).
Proof.
  intros Hin. split; [apply lookup_nodup; [apply leaves_nodup|exact Hin]|].
  pose proof (leaf_ok_in _ Hin) as H. cbn in H.
  destruct (lookup n (k_ins cfg)) as [t|]; [|discriminate]. exists t.
  apply andb_true_iff in H. destruct H as [H H3]. apply andb_true_iff in H. destruct H as [H1 H2].
  apply Nat.eqb_eq in H2. apply modes_match_eq in H3. auto.
Qed.

(** the value of a registered leaf is the abstraction of its stored tensor *)
Lemma leaf_sem rho id n idx ms :
  In (id, (n, idx, ms)) (k_leaves cfg) ->
  sigmaG rho id = envE n (map rho (dim_idx (ordsE n) idx)).
Proof.
  intros Hin. destruct (leaf_registered _ _ _ _ Hin) as (Hl & t & Ht & W & L & _).
  unfold sigmaG, leaf_value, input_of, envE, env_of_stored, ordsE. cbn [car ZOps]. rewrite Hl, !Ht.
  pose proof (wf_tensorb_shape _ _ W) as (_ & _ & P & _).
  rewrite <- (to_dim_order_map rho _ _ P L).
  rewrite (abs_tensor_located false t (map rho idx) W) by (now rewrite map_length).
  unfold located_value. now destruct (locate (tlevels t) (map rho idx) 0).
Qed.

Lemma ieval_sigma rho (e : iexpr Z) :
  incl (iexpr_leaves e) (k_leaves cfg) -> ievalZ rho e = evalZ (sigmaG rho) e.
Proof.
  induction e; intros Hi; cbn [ieval evalE iexpr_leaves] in *.
  - reflexivity.
  - reflexivity.
  - symmetry. apply (leaf_sem rho id name idx modes). apply Hi. now left.
  - rewrite IHe1, IHe2; [reflexivity| |]; intros x Hx; apply Hi; apply in_app_iff; auto.
  - rewrite IHe1, IHe2; [reflexivity| |]; intros x Hx; apply Hi; apply in_app_iff; auto.
Qed.

Lemma eval_term_sigma rho (e : iexpr Z) : fst (eval_term cfg rho e) = evalZ (sigmaG rho) e.
Proof.
  induction e; cbn [eval_term evalE].
  - cbn. now rewrite of_Z_Z.
  - reflexivity.
  - unfold sigmaG. now destruct (leaf_value cfg rho id).
  - destruct (eval_term cfg rho e1), (eval_term cfg rho e2). cbn [fst] in *. now rewrite IHe1, IHe2.
  - destruct (eval_term cfg rho e1), (eval_term cfg rho e2). cbn [fst] in *. now rewrite IHe1, IHe2.
Qed.

(** * the invariant *)

(** every exhausted leaf is not stored (hence reads 0) at every completion of the coordinates
    bound so far *)
Definition DZ (dead : list string) (rho : val) (B : list string) : Prop :=
  forall id, In id dead -> forall rho', agree_on B rho rho' -> leaf_value cfg rho' id = None.

Lemma DZ_sigma dead rho B id rho' :
  DZ dead rho B -> In id dead -> agree_on B rho rho' -> sigmaG rho' id = 0.
Proof. intros D Hid A. unfold sigmaG. now rewrite (D id Hid rho' A). Qed.

Lemma DZ_nil rho B : DZ [] rho B.
Proof. intros id []. Qed.

Lemma agree_on_refl B rho : agree_on B rho rho.
Proof. intros x _. reflexivity. Qed.

Lemma agree_on_trans B r1 r2 r3 : agree_on B r1 r2 -> agree_on B r2 r3 -> agree_on B r1 r3.
Proof. intros H1 H2 x Hx. now rewrite H1, H2. Qed.

Lemma DZ_agree dead rho rho' B : DZ dead rho B -> agree_on B rho rho' -> DZ dead rho' B.
Proof. intros H A id Hid r Hr. apply (H id Hid). eapply agree_on_trans; eauto. Qed.

(** the value of a terminal: the exhausted expression, evaluated on the stored values, is the
    meaning of the original expression *)
Lemma terminal_value dead rho B (e : iexpr Z) :
  incl (iexpr_leaves e) (k_leaves cfg) -> DZ dead rho B ->
  forall rho', agree_on B rho rho' ->
  fst (eval_term cfg rho' (exhaust_list e dead)) = ievalZ rho' e.
Proof.
  intros Hi D rho' A. rewrite eval_term_sigma, ieval_sigma by exact Hi.
  apply exhaust_list_value. intros i Hd. now apply (DZ_sigma dead rho B).
Qed.


(** * an absent sparse leaf reads 0 at every completion *)

Lemma absent_zero rho rho' v k id l n idx ms :
  In (id, (n, idx, ms)) (k_leaves cfg) ->
  index_of_str k idx = Some l -> nth_error ms l = Some MCompressed ->
  map rho' (firstn l idx) = map rho (firstn l idx) -> rho' k = v ->
  fst (leaf_absent cfg rho v (id, l)) = true ->
  leaf_value cfg rho' id = None.
Proof.
  intros Hin Hk Hm Hpre Hv Habs.
  destruct (leaf_registered _ _ _ _ Hin) as (Hl & t & Ht & W & L & Ems).
  unfold leaf_value, input_of. rewrite Hl, Ht.
  unfold leaf_absent, leaf_coords, input_of in Habs. cbn [fst snd] in Habs. rewrite Hl, Ht in Habs.
  pose proof (index_of_str_nth _ _ _ Hk) as Hn.
  destruct (nth_error_split _ _ _ Hn) as [Ei Li].
  assert (nth_error (levels t) l = Some (match nth_error (levels t) l with Some x => x | None => LDense end)
          /\ level_mode (match nth_error (levels t) l with Some x => x | None => LDense end) = MCompressed) as [El Ec].
  { rewrite Ems in Hm. rewrite nth_error_map in Hm.
    destruct (nth_error (levels t) l) as [x|]; [|discriminate]. cbn in Hm. inversion Hm. auto. }
  destruct (nth_error (levels t) l) as [[|pos crd]|] eqn:Elv; try discriminate. clear Ec El.
  assert (exists d, nth_error (tlevels t) l = Some (LCompressed pos crd, d)) as (d & Etl).
  { pose proof (wf_tensorb_shape _ _ W) as (_ & L2 & _).
    assert (l < List.length (level_dims t))%nat as Hlt.
    { unfold level_dims. rewrite map_length, <- L2. apply nth_error_Some. congruence. }
    destruct (nth_error (level_dims t) l) as [d|] eqn:Ed; [|apply nth_error_None in Ed; lia].
    exists d. unfold tlevels. now apply nth_error_combine. }
  destruct (nth_error_split _ _ _ Etl) as [Et Lt].
  rewrite Ei, map_app, Et. cbn [map]. rewrite locate_app by (now rewrite map_length, Li, Lt).
  rewrite Hpre, Hv. unfold seg_coords in Habs. rewrite Elv in Habs.
  destruct (locate (firstn l (tlevels t)) (map rho (firstn l idx)) 0) as [p|]; [|reflexivity].
  cbn [locate]. cbn [fst] in Habs. apply negb_true_iff in Habs.
  unfold segment in Habs. now rewrite (find_crd_absent _ _ _ Habs).
Qed.

(** * contexts of graphs *)

Fixpoint gctx_terms (dead : list string) (k : string) (acc : context) (l : list (graph Z)) : option context :=
  match l with
  | [] => Some acc
  | t :: r =>
      match gctx dead k t with
      | Some c => gctx_terms dead k (ctx_add acc c) r
      | None => None
      end
  end.

Lemma gctx_sum dead k ts : gctx dead k (GSum ts) = gctx_terms dead k (mkContext true [] []) ts.
Proof.
  cbn [gctx]. generalize (mkContext true [] []). induction ts as [|t r IH]; intros acc; [reflexivity|].
  cbn [gctx_terms]. destruct (gctx dead k t); [apply IH|reflexivity].
Qed.

Lemma gctx_terms_spec dead k : forall l acc ctx,
  gctx_terms dead k acc l = Some ctx ->
  (forall t, In t l -> exists c, gctx dead k t = Some c
                                 /\ (is_sparse ctx = true -> is_sparse c = true)
                                 /\ incl (sparse_leaves c) (sparse_leaves ctx))
  /\ (is_sparse ctx = true -> is_sparse acc = true)
  /\ incl (sparse_leaves acc) (sparse_leaves ctx)
  /\ (forall lf, In lf (sparse_leaves ctx) ->
         In lf (sparse_leaves acc) \/ exists t c, In t l /\ gctx dead k t = Some c /\ In lf (sparse_leaves c)).
Proof.
  induction l as [|t r IH]; intros acc ctx H; cbn [gctx_terms] in H.
  - inversion H; subst. repeat split; auto using incl_refl. intros t [].
  - destruct (gctx dead k t) as [c|] eqn:E; [|discriminate].
    destruct (IH _ _ H) as (H1 & H2 & H3 & H4). cbn [ctx_add is_sparse sparse_leaves] in *.
    repeat split.
    + intros t' [<-|Hin]; [|now apply H1]. exists c. split; [exact E|]. split.
      * intros Hs. specialize (H2 Hs). apply andb_true_iff in H2. tauto.
      * eapply incl_tran; [|exact H3]. now apply incl_appr.
    + intros Hs. specialize (H2 Hs). apply andb_true_iff in H2. tauto.
    + eapply incl_tran; [|exact H3]. now apply incl_appl.
    + intros lf Hlf. destruct (H4 lf Hlf) as [Ha|(t' & c' & Hin & Ec & Hc)].
      * apply in_app_iff in Ha. destruct Ha as [Ha|Ha]; [now left|]. right. exists t, c. cbn. auto.
      * right. exists t', c'. cbn. auto.
Qed.

(** every terminal of a graph with a context has one too: sparse if the whole is, and its sparse
    leaves are among the whole's *)
Lemma gctx_terminals dead k (g : graph Z) : forall ctx,
  gctx dead k g = Some ctx ->
  forall e, In e (terminals g) ->
    exists c, extract_context zis_zero (exhaust_list e dead) k = Some c
              /\ (is_sparse ctx = true -> is_sparse c = true)
              /\ incl (sparse_leaves c) (sparse_leaves ctx).
Proof.
  induction g using (graph_ind' Z); intros ctx Hc e' He.
  - cbn in He. destruct He as [<-|[]]. exists ctx. cbn [gctx] in Hc. auto using incl_refl.
  - cbn [gctx terminals] in *. now apply IHg.
  - rewrite gctx_sum in Hc. rewrite terminals_sum in He. apply in_flat_map in He.
    destruct He as (t & Ht & He). destruct (gctx_terms_spec _ _ _ _ _ Hc) as (H1 & _).
    destruct (H1 t Ht) as (c & Ec & Sc & Ic). rewrite Forall_forall in H.
    destruct (H t Ht c Ec e' He) as (c' & E' & S' & I'). exists c'. split; [exact E'|]. split.
    + auto.
    + eapply incl_tran; eauto.
Qed.

(** every sparse leaf of the context comes from a terminal *)
Lemma gctx_leaf_origin dead k (g : graph Z) : forall ctx lf,
  gctx dead k g = Some ctx -> In lf (sparse_leaves ctx) ->
  exists e c, In e (terminals g) /\ extract_context zis_zero (exhaust_list e dead) k = Some c
              /\ In lf (sparse_leaves c).
Proof.
  induction g using (graph_ind' Z); intros ctx lf Hc Hl.
  - exists e, ctx. cbn. auto.
  - cbn [gctx terminals] in *. eapply IHg; eauto.
  - rewrite gctx_sum in Hc. destruct (gctx_terms_spec _ _ _ _ _ Hc) as (_ & _ & _ & H4).
    destruct (H4 lf Hl) as [[]|(t & c & Ht & Ec & Hlc)].
    rewrite Forall_forall in H. destruct (H t Ht c lf Ec Hlc) as (e & c' & He & E' & Hl').
    exists e, c'. rewrite terminals_sum. split; [apply in_flat_map; eauto|auto].
Qed.

(** more exhausting keeps the context defined and sparse *)
Lemma gctx_extend dead extra k (g : graph Z) : forall ctx,
  gctx dead k g = Some ctx ->
  exists ctx', gctx (dead ++ extra) k g = Some ctx' /\ (is_sparse ctx = true -> is_sparse ctx' = true).
Proof.
  induction g using (graph_ind' Z); intros ctx Hc.
  - cbn [gctx] in *. rewrite <- exhaust_list_app. now apply exhaust_list_ctx.
  - cbn [gctx] in *. now apply IHg.
  - rewrite gctx_sum in *.
    assert (forall acc acc' ctx, (is_sparse acc = true -> is_sparse acc' = true) ->
              gctx_terms dead k acc ts = Some ctx ->
              exists ctx', gctx_terms (dead ++ extra) k acc' ts = Some ctx'
                           /\ (is_sparse ctx = true -> is_sparse ctx' = true)) as Gen.
    { clear Hc ctx. induction H as [|t ts Ht H IH]; intros acc acc' ctx Ha Hc; cbn [gctx_terms] in *.
      - inversion Hc; subst. eauto.
      - destruct (gctx dead k t) as [c|] eqn:E; [|discriminate].
        destruct (Ht c eq_refl) as (c' & E' & S'). rewrite E'.
        apply (IH (ctx_add acc c) (ctx_add acc' c') ctx); [|exact Hc].
        cbn. intros Hs. apply andb_true_iff in Hs. apply andb_true_iff. tauto. }
    apply (Gen _ _ ctx (fun x => x) Hc).
Qed.


(** * maintaining the invariant across one loop iteration *)

Lemma terminal_leaves_in g e :
  incl (graph_leaves g) (k_leaves cfg) -> In e (terminals g) -> incl (iexpr_leaves e) (k_leaves cfg).
Proof.
  intros Hi He x Hx. apply Hi. rewrite graph_leaves_terminals. apply in_flat_map. eauto.
Qed.

Lemma DZ_step dead rho B k v next ctx :
  DZ dead rho B -> ~ In k B -> gctx dead k next = Some ctx ->
  incl (graph_leaves next) (k_leaves cfg) ->
  forallb (leaf_scopedb B k) (graph_leaves next) = true ->
  DZ (dead ++ absent_ids cfg rho v (sparse_leaves ctx)) (upd rho k v) (k :: B).
Proof.
  intros D Hk Hc Hi Hs id Hid rho' A.
  assert (forall x, In x B -> rho' x = rho x) as AB.
  { intros x Hx. rewrite <- (A x (or_intror Hx)). apply upd_other. intros ->. contradiction. }
  assert (rho' k = v) as Ak by (rewrite <- (A k (or_introl eq_refl)); apply upd_same).
  apply in_app_iff in Hid. destruct Hid as [Hid|Hid].
  - apply (D id Hid). intros x Hx. symmetry. now apply AB.
  - unfold absent_ids in Hid. apply in_map_iff in Hid. destruct Hid as ([id' l] & E & Hf).
    cbn [fst] in E. subst id'. apply filter_In in Hf. destruct Hf as [Hlf Habs].
    destruct (gctx_leaf_origin _ _ _ _ _ Hc Hlf) as (e & c & He & Ec & Hlc).
    destruct (context_sparse_leaf _ _ _ _ Ec Hlc) as (n & idx & ms & Hin & Hix & Hms).
    cbn [fst snd] in *.
    assert (In (id, (n, idx, ms)) (graph_leaves next)) as Hg.
    { rewrite graph_leaves_terminals. apply in_flat_map. exists e. split; [exact He|].
      now apply (exhaust_list_leaves e dead). }
    rewrite forallb_forall in Hs. pose proof (Hs _ Hg) as Hsc. cbn in Hsc. rewrite Hix, Hms in Hsc.
    rewrite forallb_forall in Hsc.
    apply (absent_zero rho rho' v k id l n idx ms); auto.
    apply map_ext_in. intros x Hx. apply AB. apply smem_In. now apply Hsc.
Qed.

(** * graphs whose terminals have all been exhausted to zero *)

Fixpoint loops (g : graph Z) : list string :=
  match g with
  | GTerminal _ => []
  | GIter k _ next => k :: loops next
  | GSum ts => (fix go (l : list (graph Z)) : list string :=
                  match l with
                  | [] => []
                  | t :: r => loops t ++ go r
                  end) ts
  end.

Lemma loops_sum ts : loops (GSum ts) = flat_map loops ts.
Proof. induction ts as [|t r IH]; [reflexivity|]. cbn [loops flat_map] in *. now rewrite IH. Qed.

Lemma scopedb_loops (g : graph Z) : forall B, scopedb B g = true -> forall k, In k (loops g) -> ~ In k B.
Proof.
  induction g using (graph_ind' Z); intros B Hs k' Hk.
  - destruct Hk.
  - cbn [scopedb loops] in *. apply andb_true_iff in Hs. destruct Hs as [Hs H3].
    apply andb_true_iff in Hs. destruct Hs as [H1 _]. destruct Hk as [<-|Hk].
    + apply negb_true_iff in H1. now apply smem_false in H1.
    + intros Hin. apply (IHg _ H3 _ Hk). now right.
  - rewrite scopedb_sum in Hs. rewrite loops_sum in Hk. apply in_flat_map in Hk.
    destruct Hk as (t & Ht & Hk). rewrite Forall_forall in H. rewrite forallb_forall in Hs.
    exact (H t Ht B (Hs t Ht) _ Hk).
Qed.

Lemma gdenote_sum (ts : list (graph Z)) rho :
  gden (GSum ts) rho = rsum (O := ZOps) (map (fun t => gden t rho) ts).
Proof. induction ts as [|t r IH]; [reflexivity|]. cbn [gdenote map rsum fold_right] in *. now rewrite IH. Qed.

Lemma zsum_zero {A} (f : A -> Z) l : (forall x, In x l -> f x = 0) -> rsum (O := ZOps) (map f l) = 0.
Proof.
  induction l as [|a l IH]; intros H; [reflexivity|]. cbn [map rsum fold_right].
  fold (rsum (O := ZOps) (map f l)). rewrite IH by (intros; apply H; now right).
  rewrite (H a (or_introl eq_refl)). reflexivity.
Qed.

Lemma gden_zero dead rho B (g : graph Z) :
  (forall e, In e (terminals g) -> forall sigma, evalZ sigma (exhaust_list e dead) = 0) ->
  DZ dead rho B -> incl (graph_leaves g) (k_leaves cfg) ->
  (forall k, In k (loops g) -> ~ In k B) ->
  forall rho', agree_on B rho rho' -> gden g rho' = 0.
Proof.
  induction g using (graph_ind' Z); intros Hz D Hi Hl rho' A.
  - cbn [gdenote]. rewrite ieval_sigma by exact Hi.
    rewrite <- (exhaust_list_value e dead) by (intros i Hd; now apply (DZ_sigma dead rho B)).
    apply Hz. now left.
  - cbn [terminals graph_leaves loops] in *. destruct o as [l|]; cbn [gdenote].
    + apply IHg; auto. intros k' Hk'. apply Hl. now right.
    + apply zsum_zero. intros v _. apply IHg; auto.
      * intros k' Hk'. apply Hl. now right.
      * intros x Hx. rewrite A by exact Hx. symmetry. apply upd_other. intros ->.
        apply (Hl k (or_introl eq_refl)). exact Hx.
  - rewrite gdenote_sum. apply zsum_zero. intros t Ht. rewrite Forall_forall in H.
    apply (H t Ht); auto.
    + intros e He. apply Hz. rewrite terminals_sum. apply in_flat_map. eauto.
    + intros x Hx. apply Hi. rewrite graph_leaves_sum. apply in_flat_map. eauto.
    + intros k Hk. apply Hl. rewrite loops_sum. apply in_flat_map. eauto.
Qed.

(** a coordinate the sparse node does not run contributes nothing *)
Lemma skip_zero dead rho B k v next ctx :
  DZ dead rho B -> ~ In k B -> gctx dead k next = Some ctx -> is_sparse ctx = true ->
  incl (graph_leaves next) (k_leaves cfg) ->
  forallb (leaf_scopedb B k) (graph_leaves next) = true -> scopedb (k :: B) next = true ->
  has_sparse_leaf (gctx (dead ++ absent_ids cfg rho v (sparse_leaves ctx)) k next) = false ->
  forall rho', agree_on (k :: B) (upd rho k v) rho' -> gden next rho' = 0.
Proof.
  intros D Hk Hc Hsp Hi Hs Hsc Hh.
  set (dead_v := dead ++ absent_ids cfg rho v (sparse_leaves ctx)) in *.
  destruct (gctx_extend dead (absent_ids cfg rho v (sparse_leaves ctx)) k next ctx Hc) as (ctx' & Ec' & Sp').
  fold dead_v in Ec'. rewrite Ec' in Hh. cbn [has_sparse_leaf] in Hh.
  assert (sparse_leaves ctx' = []) as En by (destruct (sparse_leaves ctx'); [reflexivity|discriminate]).
  apply (gden_zero dead_v (upd rho k v) (k :: B)).
  - intros e He sigma. destruct (gctx_terminals _ _ _ _ Ec' e He) as (c & Ec & Sc & Ic).
    apply (sparse_context_sound ZOps ZOps_ok zis_zero zis_zero_sound _ k c sigma Ec (Sc (Sp' Hsp))).
    intros l Hl. apply Ic in Hl. rewrite En in Hl. destruct Hl.
  - now apply (DZ_step dead rho B k v next ctx).
  - exact Hi.
  - now apply scopedb_loops.
Qed.

(** * contexts are defined on registered leaves *)

Lemma leaf_modes_length id n idx ms :
  In (id, (n, idx, ms)) (k_leaves cfg) -> List.length ms = List.length idx.
Proof.
  intros Hin. destruct (leaf_registered _ _ _ _ Hin) as (_ & t & _ & W & L & ->).
  pose proof (wf_tensorb_shape _ _ W) as (_ & L2 & _). rewrite map_length. lia.
Qed.

Lemma index_of_str_lt k idx l : index_of_str k idx = Some l -> (l < List.length idx)%nat.
Proof.
  intros H. apply index_of_str_nth in H. apply nth_error_Some. congruence.
Qed.

Lemma extract_context_defined (e : iexpr Z) k :
  incl (iexpr_leaves e) (k_leaves cfg) -> exists c, extract_context zis_zero e k = Some c.
Proof.
  induction e; intros Hi; cbn [extract_context iexpr_leaves] in *.
  - eauto.
  - eauto.
  - destruct (index_of_str k idx) as [l|] eqn:El; [|eauto].
    pose proof (leaf_modes_length id name idx modes (Hi _ (or_introl eq_refl))) as Lm.
    pose proof (index_of_str_lt _ _ _ El) as Hl.
    destruct (nth_error modes l) as [[|]|] eqn:Em; eauto.
    apply nth_error_None in Em. lia.
  - destruct IHe1 as (x & ->); [intros y Hy; apply Hi; apply in_app_iff; auto|].
    destruct IHe2 as (y & ->); [intros z Hz; apply Hi; apply in_app_iff; auto|]. eauto.
  - destruct IHe1 as (x & ->); [intros y Hy; apply Hi; apply in_app_iff; auto|].
    destruct IHe2 as (y & ->); [intros z Hz; apply Hi; apply in_app_iff; auto|]. eauto.
Qed.

Lemma gctx_defined dead k (g : graph Z) :
  incl (graph_leaves g) (k_leaves cfg) -> exists ctx, gctx dead k g = Some ctx.
Proof.
  induction g using (graph_ind' Z); intros Hi.
  - cbn [gctx graph_leaves] in *. destruct (extract_context_defined e k Hi) as (c & Ec).
    destruct (exhaust_list_ctx e dead k c Ec) as (c' & Ec' & _). eauto.
  - cbn [gctx graph_leaves] in *. auto.
  - rewrite gctx_sum. generalize (mkContext true [] []). rewrite graph_leaves_sum in Hi.
    induction H as [|t ts Ht H IH]; intros acc; cbn [gctx_terms]; [eauto|].
    destruct Ht as (c & ->); [intros x Hx; apply Hi; cbn [flat_map]; apply in_app_iff; auto|].
    apply IH. intros x Hx. apply Hi. cbn [flat_map]. apply in_app_iff. auto.
Qed.

(** * sums over the coordinates a node runs *)

Notation zsum := (rsum (O := ZOps)).

Lemma zsum_cons a l : zsum (a :: l) = a + zsum l.
Proof. reflexivity. Qed.

Lemma zsum_app l1 l2 : zsum (l1 ++ l2) = zsum l1 + zsum l2.
Proof. induction l1 as [|a l1 IH]; [reflexivity|]. cbn [app]. rewrite !zsum_cons, IH. lia. Qed.

Lemma sum_flat_map_cond (L : list Z) (c : Z -> bool) (dv : Z -> list string)
      (F : Z -> list string -> Z) (S : Z -> Z) :
  (forall v, In v L -> if c v then F v (dv v) = S v else S v = 0) ->
  zsum (map (fun vd => F (fst vd) (snd vd)) (flat_map (fun v => if c v then [(v, dv v)] else []) L))
  = zsum (map S L).
Proof.
  induction L as [|v L IH]; intros H; [reflexivity|].
  cbn [flat_map map]. rewrite map_app, zsum_app, zsum_cons, IH by (intros; apply H; now right).
  specialize (H v (or_introl eq_refl)). destruct (c v); cbn [map fst snd].
  - rewrite zsum_cons, H. cbn. lia.
  - rewrite H. reflexivity.
Qed.

(** * bucket mode on graphs without output layers: the contributions add up to the meaning *)

Definition bcs (r : bres) : list (list Z * Z) := fst (fst r).
Definition bflag (r : bres) : bool := snd (fst r).
Definition bok (r : bres) : bool := snd r.
Definition bval (r : bres) : Z := zsum (map snd (bcs r)).

Lemma bcs_app a b : bcs (bres_app a b) = bcs a ++ bcs b.
Proof. destruct a as [[ca fa] oa], b as [[cb fb] ob]. reflexivity. Qed.

Lemma bflag_app a b : bflag (bres_app a b) = bflag a || bflag b.
Proof. destruct a as [[ca fa] oa], b as [[cb fb] ob]. reflexivity. Qed.

Lemma bval_app a b : bval (bres_app a b) = bval a + bval b.
Proof. unfold bval. now rewrite bcs_app, map_app, zsum_app. Qed.

Lemma bval_nil : bval bres_nil = 0.
Proof. reflexivity. Qed.

Lemma Gb_sum_unfold bidx ts dead rho :
  Gb cfg bidx (GSum ts) dead rho
  = fold_right (fun t acc => bres_app (Gb cfg bidx t dead rho) acc) bres_nil ts.
Proof. induction ts as [|t r IH]; [reflexivity|]. cbn [Gb fold_right] in *. now rewrite IH. Qed.

Lemma bval_fold {A} (f : A -> bres) l :
  bval (fold_right (fun x acc => bres_app (f x) acc) bres_nil l) = zsum (map (fun x => bval (f x)) l).
Proof.
  induction l as [|x l IH]; [reflexivity|]. cbn [fold_right map]. now rewrite bval_app, IH, zsum_cons.
Qed.

Lemma bval_iter bidx k out next dead rho :
  bval (Gb cfg bidx (GIter k out next) dead rho)
  = zsum (map (fun vd => bval (Gb cfg bidx next (snd vd) (upd rho k (fst vd))))
              (fst (visits cfg k out next dead rho))).
Proof.
  cbn [Gb]. destruct (visits cfg k out next dead rho) as [vs o]. cbn [fst].
  rewrite bval_app, bval_fold. unfold bval at 2. cbn. lia.
Qed.

Fixpoint no_outb (g : graph Z) : bool :=
  match g with
  | GTerminal _ => true
  | GIter _ None next => no_outb next
  | GIter _ (Some _) _ => false
  | GSum ts => (fix go (l : list (graph Z)) : bool :=
                  match l with
                  | [] => true
                  | t :: r => no_outb t && go r
                  end) ts
  end.

Lemma no_outb_sum ts : no_outb (GSum ts) = forallb no_outb ts.
Proof. induction ts as [|t r IH]; [reflexivity|]. cbn [no_outb forallb] in *. now rewrite IH. Qed.

(** what one node contributes, summed over the coordinates it runs, is the sum over the whole
    range of the meaning of its body *)
Lemma node_sum (F : Z -> list string -> Z) dead rho B k out next :
  DZ dead rho B -> scopedb B (GIter k out next) = true ->
  incl (graph_leaves next) (k_leaves cfg) ->
  (forall v dead_v, DZ dead_v (upd rho k v) (k :: B) -> F v dead_v = gden next (upd rho k v)) ->
  zsum (map (fun vd => F (fst vd) (snd vd)) (fst (visits cfg k out next dead rho)))
  = zsum (map (fun v => gden next (upd rho k v)) (zrange (k_sizes cfg k))).
Proof.
  intros D Hs Hi HF. cbn [scopedb] in Hs. apply andb_true_iff in Hs. destruct Hs as [Hs H3].
  apply andb_true_iff in Hs. destruct Hs as [H1 H2].
  apply negb_true_iff in H1. apply smem_false in H1.
  unfold visits. destruct (gctx_defined dead k next Hi) as (ctx & Ec). rewrite Ec. cbn [fst].
  apply sum_flat_map_cond. intros v _.
  destruct (negb (is_sparse ctx && out_sparse cfg out)
            || has_sparse_leaf (gctx (dead ++ absent_ids cfg rho v (sparse_leaves ctx)) k next)) eqn:Ecv.
  - apply HF. now apply (DZ_step dead rho B k v next ctx).
  - apply orb_false_iff in Ecv. destruct Ecv as [E1 E2]. apply negb_false_iff in E1.
    apply andb_true_iff in E1. destruct E1 as [E1 _].
    apply (skip_zero dead rho B k v next ctx); auto. apply agree_on_refl.
Qed.

Lemma Gb_value bidx (g : graph Z) : forall B dead rho,
  no_outb g = true -> scopedb B g = true -> incl (graph_leaves g) (k_leaves cfg) -> DZ dead rho B ->
  bval (Gb cfg bidx g dead rho) = gden g rho.
Proof.
  induction g using (graph_ind' Z); intros B dead rho Hn Hs Hi D.
  - cbn [Gb gdenote]. pose proof (terminal_value dead rho B e Hi D rho (agree_on_refl _ _)) as T.
    destruct (eval_term cfg rho (exhaust_list e dead)) as [v o]. cbn [fst] in T.
    unfold bval, bcs. cbn. rewrite T. lia.
  - destruct o as [l|]; [discriminate|]. cbn [no_outb graph_leaves gdenote] in *.
    rewrite bval_iter.
    rewrite (node_sum (fun v d => bval (Gb cfg bidx g d (upd rho k v))) dead rho B k None g D Hs Hi);
      [reflexivity|].
    intros v dead_v Dv. cbn [scopedb] in Hs. apply andb_true_iff in Hs. destruct Hs as [_ H3].
    now apply (IHg (k :: B)).
  - rewrite Gb_sum_unfold, bval_fold, gdenote_sum. f_equal. apply map_ext_in. intros t Ht.
    rewrite Forall_forall in H. rewrite no_outb_sum in Hn. rewrite scopedb_sum in Hs.
    rewrite forallb_forall in Hn, Hs. apply (H t Ht B); auto.
    intros x Hx. apply Hi. rewrite graph_leaves_sum. apply in_flat_map. eauto.
Qed.

(** * flags: an unflagged result is all zero *)

Definition atrie (r : ares) : trie := fst (fst r).
Definition aflag (r : ares) : bool := snd (fst r).
Definition aok (r : ares) : bool := snd r.

Lemma is_int0_eval_term rho (e : iexpr Z) : is_int0 e = true -> fst (eval_term cfg rho e) = 0.
Proof. destruct e; cbn; intros H; try discriminate. apply Z.eqb_eq in H. now subst. Qed.

Lemma Gb_flag_zero bidx (g : graph Z) : forall dead rho,
  bflag (Gb cfg bidx g dead rho) = false -> Forall (fun c => snd c = 0) (bcs (Gb cfg bidx g dead rho)).
Proof.
  induction g using (graph_ind' Z); intros dead rho Hf.
  - cbn [Gb] in *. pose proof (is_int0_eval_term rho (exhaust_list e dead)) as Z0.
    destruct (eval_term cfg rho (exhaust_list e dead)) as [v o]. unfold bflag, bcs in *. cbn [fst snd] in *.
    apply negb_false_iff in Hf. constructor; [cbn; auto|constructor].
  - cbn [Gb] in *. destruct (visits cfg k o g dead rho) as [vs ob].
    rewrite bflag_app in Hf. apply orb_false_iff in Hf. destruct Hf as [Hf _].
    rewrite bcs_app. unfold bcs at 2. cbn [fst]. rewrite app_nil_r.
    induction vs as [|vd vs IHv]; [constructor|]. cbn [fold_right] in *.
    rewrite bflag_app in Hf. apply orb_false_iff in Hf. destruct Hf as [H1 H2].
    rewrite bcs_app. apply Forall_app. split; [now apply IHg|now apply IHv].
  - rewrite Gb_sum_unfold in *. induction H as [|t ts Ht H IH]; [constructor|].
    cbn [fold_right] in *. rewrite bflag_app in Hf. apply orb_false_iff in Hf. destruct Hf as [H1 H2].
    rewrite bcs_app. apply Forall_app. split; [now apply Ht|now apply IH].
Qed.

Lemma abs_entries_zero (cs : list (list Z * Z)) c :
  Forall (fun x => snd x = 0) cs -> abs_entries (O := ZOps) cs c = 0.
Proof.
  induction 1 as [|[c' v] cs Hv H IH]; [reflexivity|]. rewrite abs_entries_cons, IH. cbn in Hv.
  destruct (coord_eqb c' c); lia.
Qed.

(** reading a tabulated block *)
Fixpoint in_box (ds : list Z) (lc : list Z) : bool :=
  match ds, lc with
  | [], [] => true
  | d :: ds', c :: lc' => (0 <=? c) && (c <? d) && in_box ds' lc'
  | _, _ => false
  end.

Lemma find_key_map (f : Z -> trie) v L :
  NoDup L ->
  find (fun ct : Z * trie => fst ct =? v) (map (fun i => (i, f i)) L)
  = if existsb (Z.eqb v) L then Some (v, f v) else None.
Proof.
  induction L as [|a L IH]; intros ND; [reflexivity|]. inversion ND; subst.
  cbn [map find existsb fst]. destruct (a =? v) eqn:E.
  - apply Z.eqb_eq in E. subst. now rewrite Z.eqb_refl.
  - rewrite (Z.eqb_sym v a), E. cbn [orb]. now apply IH.
Qed.

Lemma existsb_zrange v n : existsb (Z.eqb v) (zrange n) = (0 <=? v) && (v <? n).
Proof.
  destruct (existsb (Z.eqb v) (zrange n)) eqn:E.
  - apply existsb_exists in E. destruct E as (x & Hx & E). apply Z.eqb_eq in E. subst.
    apply In_zrange in Hx. lia.
  - destruct ((0 <=? v) && (v <? n)) eqn:E'; [|reflexivity].
    assert (existsb (Z.eqb v) (zrange n) = true); [|congruence].
    apply existsb_exists. exists v. split; [apply In_zrange; lia|apply Z.eqb_refl].
Qed.

Lemma tval_tabulate ds : forall f lc,
  tval lc (tabulate ds f) = if in_box ds lc then f lc else 0.
Proof.
  induction ds as [|d ds IH]; intros f lc.
  - destruct lc; reflexivity.
  - destruct lc as [|c lc]; [reflexivity|]. cbn [tabulate tval kids_of in_box].
    rewrite (find_key_map (fun i => tabulate ds (fun c0 => f (i :: c0)))) by apply NoDup_zrange.
    rewrite existsb_zrange. destruct ((0 <=? c) && (c <? d)); [|reflexivity].
    cbn [snd andb]. exact (IH (fun c0 => f (c :: c0)) lc).
Qed.

Lemma Ga_flag_zero (g : graph Z) : forall l dead rho,
  aflag (Ga cfg g l dead rho) = false -> forall lc, tval lc (atrie (Ga cfg g l dead rho)) = 0.
Proof.
  assert (forall l g dead rho, aflag (enter_bucket cfg l g dead rho) = false ->
            forall lc, tval lc (atrie (enter_bucket cfg l g dead rho)) = 0) as EB.
  { intros l g0 dead rho Hf lc. unfold enter_bucket in *.
    pose proof (Gb_flag_zero (skipn l (k_oidx cfg)) g0 dead rho) as Z0.
    destruct (Gb cfg (skipn l (k_oidx cfg)) g0 dead rho) as [[cs f] o].
    unfold aflag, atrie, bflag, bcs in *. cbn [fst snd] in *. unfold bucket_trie.
    rewrite tval_tabulate. destruct (in_box _ _); [|reflexivity]. apply abs_entries_zero. auto. }
  induction g using (graph_ind' Z); intros l dead rho Hf lc.
  - cbn [Ga] in *. destruct (Nat.eqb l (List.length (k_omodes cfg))).
    + pose proof (is_int0_eval_term rho (exhaust_list e dead)) as Z0.
      destruct (eval_term cfg rho (exhaust_list e dead)) as [v o]. unfold aflag, atrie in *. cbn [fst snd] in *.
      apply negb_false_iff in Hf. rewrite (Z0 Hf). destruct lc; reflexivity.
    + unfold atrie. cbn. destruct lc; reflexivity.
  - destruct o as [l'|]; [|now apply EB]. cbn [Ga] in *.
    destruct (Nat.eqb l' l); [|now apply EB].
    destruct (visits cfg k (Some l') g dead rho) as [vs ov]. unfold aflag, atrie in *. cbn [fst snd] in *.
    destruct lc as [|c lc]; [reflexivity|]. cbn [tval kids_of].
    assert (forall vd, In vd vs -> aflag (Ga cfg g (S l) (snd vd) (upd rho k (fst vd))) = false) as Hall.
    { intros vd Hvd. destruct (aflag (Ga cfg g (S l) (snd vd) (upd rho k (fst vd)))) eqn:E; [|reflexivity].
      rewrite <- Hf. symmetry. apply existsb_exists.
      exists (fst vd, Ga cfg g (S l) (snd vd) (upd rho k (fst vd))). split; [|exact E].
      apply in_map_iff. now exists vd. }
    match goal with |- match find ?p ?X with _ => _ end = 0 => destruct (find p X) as [ct|] eqn:Efind end;
      [|reflexivity].
    apply find_some in Efind. destruct Efind as [Hin _].
    apply in_map_iff in Hin. destruct Hin as (c0 & <- & Hc0). cbn [snd].
    assert (In c0 (map (fun vd => (fst vd, Ga cfg g (S l) (snd vd) (upd rho k (fst vd)))) vs)) as Hk.
    { destruct (nth_error (k_omodes cfg) l) as [[|]|]; try exact Hc0. now apply filter_In in Hc0. }
    apply in_map_iff in Hk. destruct Hk as (vd & <- & Hvd). cbn [snd fst].
    apply IHg. now apply Hall.
  - now apply EB.
Qed.

(** * append mode: the chain of output layers *)

Fixpoint bind_from (rho : val) (ks : list string) (cs : list Z) : val :=
  match ks, cs with
  | k :: ks', c :: cs' => bind_from (upd rho k c) ks' cs'
  | _, _ => rho
  end.

Lemma bind_from_agree D ks : forall rho cs,
  (forall x, In x ks -> ~ In x D) -> agree_on D rho (bind_from rho ks cs).
Proof.
  induction ks as [|k ks IH]; intros rho cs H; [apply agree_on_refl|].
  destruct cs as [|c cs]; [apply agree_on_refl|]. cbn [bind_from].
  eapply agree_on_trans; [|apply IH; intros x Hx; apply H; now right].
  intros x Hx. symmetry. apply upd_other. intros ->. apply (H k (or_introl eq_refl) Hx).
Qed.

Lemma skipn_nth {A} (L : list A) l d : (l < List.length L)%nat -> skipn l L = nth l L d :: skipn (S l) L.
Proof.
  revert l. induction L as [|a L IH]; intros l H; [cbn in H; lia|].
  destruct l as [|l]; [reflexivity|]. cbn [skipn nth]. apply IH. cbn in H. lia.
Qed.

Definition order : nat := List.length (k_omodes cfg).

(** the fragment: the output layers 0, 1, ... are iterated in order, outermost, each by the index
    of that layer; below them no node has an output layer *)
Fixpoint chainb (g : graph Z) (l : nat) : bool :=
  match g with
  | GIter k (Some l') next =>
      Nat.eqb l' l && Nat.ltb l (List.length (k_oidx cfg))
      && String.eqb k (nth l (k_oidx cfg) EmptyString) && chainb next (S l)
  | _ => Nat.eqb l (List.length (k_oidx cfg)) && Nat.eqb l order && no_outb g
  end.

Lemma find_kept (L : list Z) (c : Z -> bool) (dv : Z -> list string) (R : Z * list string -> ares)
      (comp : bool) v :
  NoDup L ->
  find (fun ct : Z * trie => fst ct =? v)
       (map (fun c0 : Z * ares => (fst c0, fst (fst (snd c0))))
            (let kids := map (fun vd => (fst vd, R vd))
                             (flat_map (fun v0 => if c v0 then [(v0, dv v0)] else []) L) in
             if comp then filter (fun c0 => snd (fst (snd c0))) kids else kids))
  = if existsb (Z.eqb v) L && c v && (negb comp || aflag (R (v, dv v)))
    then Some (v, atrie (R (v, dv v))) else None.
Proof.
  induction L as [|a L IH]; intros ND; [now destruct comp|]. inversion ND as [|? ? Hn ND']; subst.
  specialize (IH ND'). cbn zeta in *. cbn [flat_map existsb].
  destruct (Z.eqb_spec v a) as [->|Nva].
  - cbn [orb]. destruct (c a) eqn:Ea.
    + cbn [app map fst snd]. unfold aflag, atrie.
      destruct comp; cbn [negb orb andb filter fst snd].
      * destruct (snd (fst (R (a, dv a)))) eqn:Ef; cbn [map find fst snd].
        -- now rewrite Z.eqb_refl.
        -- rewrite IH. assert (existsb (Z.eqb a) L = false) as ->; [|reflexivity].
           destruct (existsb (Z.eqb a) L) eqn:E; [|reflexivity]. exfalso. apply Hn.
           apply existsb_exists in E. destruct E as (x & Hx & E). apply Z.eqb_eq in E. now subst.
      * cbn [map find fst snd]. now rewrite Z.eqb_refl.
    + cbn [app andb]. rewrite IH. rewrite andb_false_r. reflexivity.
  - cbn [orb]. destruct (c a) eqn:Ea; cbn [app map fst snd]; [|exact IH].
    destruct comp; cbn [filter fst snd].
    + destruct (snd (fst (R (a, dv a)))); cbn [map find fst snd]; [|exact IH].
      destruct (Z.eqb_spec a v); [congruence|exact IH].
    + cbn [map find fst snd]. destruct (Z.eqb_spec a v); [congruence|exact IH].
Qed.

Lemma Gb_coords_nil (g : graph Z) : forall dead rho,
  Forall (fun c => fst c = []) (bcs (Gb cfg [] g dead rho)).
Proof.
  induction g using (graph_ind' Z); intros dead rho.
  - cbn [Gb]. destruct (eval_term cfg rho (exhaust_list e dead)). unfold bcs. cbn. auto.
  - cbn [Gb]. destruct (visits cfg k o g dead rho) as [vs ob].
    rewrite bcs_app. unfold bcs at 2. cbn [fst]. rewrite app_nil_r.
    induction vs as [|vd vs IHv]; [constructor|]. cbn [fold_right].
    rewrite bcs_app. apply Forall_app. auto.
  - rewrite Gb_sum_unfold. induction H as [|t ts Ht H IH]; [constructor|].
    cbn [fold_right]. rewrite bcs_app. apply Forall_app. auto.
Qed.

Lemma abs_entries_all_nil (cs : list (list Z * Z)) :
  Forall (fun c => fst c = []) cs -> abs_entries (O := ZOps) cs [] = zsum (map snd cs).
Proof.
  induction 1 as [|[c v] cs Hc H IH]; [reflexivity|]. cbn in Hc. subst.
  rewrite abs_entries_cons. cbn [coord_eqb map snd]. now rewrite zsum_cons, IH.
Qed.

Lemma enter_bucket_value l (g : graph Z) B dead rho :
  l = List.length (k_oidx cfg) -> no_outb g = true -> scopedb B g = true ->
  incl (graph_leaves g) (k_leaves cfg) -> DZ dead rho B ->
  tval [] (atrie (enter_bucket cfg l g dead rho)) = gden g rho.
Proof.
  intros -> Hn Hs Hi D. unfold enter_bucket. rewrite skipn_all.
  pose proof (Gb_value [] g B dead rho Hn Hs Hi D) as V.
  pose proof (Gb_coords_nil g dead rho) as C.
  destruct (Gb cfg [] g dead rho) as [[cs f] o]. unfold atrie, bval, bcs in *. cbn [fst snd map] in *.
  unfold bucket_trie. cbn [tabulate tval leaf_of]. now rewrite abs_entries_all_nil.
Qed.

Lemma Ga_value (g : graph Z) : forall l B dead rho rest,
  chainb g l = true -> scopedb B g = true -> incl (graph_leaves g) (k_leaves cfg) -> DZ dead rho B ->
  (forall x, In x (skipn l (k_oidx cfg)) -> ~ In x B) -> NoDup (skipn l (k_oidx cfg)) ->
  Forall2 (fun c x => 0 <= c < k_sizes cfg x) rest (skipn l (k_oidx cfg)) ->
  tval rest (atrie (Ga cfg g l dead rho)) = gden g (bind_from rho (skipn l (k_oidx cfg)) rest).
Proof.
  induction g using (graph_ind' Z); intros l B dead rho rest Hc Hs Hi D HB ND HR.
  - (* terminal *)
    cbn [chainb] in Hc. apply andb_true_iff in Hc. destruct Hc as [Hc _].
    apply andb_true_iff in Hc. destruct Hc as [H1 H2]. apply Nat.eqb_eq in H1, H2.
    rewrite H1, skipn_all in *. inversion HR; subst. cbn [bind_from Ga gdenote].
    fold order. rewrite <- H2, Nat.eqb_refl.
    pose proof (terminal_value dead rho B e Hi D rho (agree_on_refl _ _)) as T.
    destruct (eval_term cfg rho (exhaust_list e dead)) as [v o]. cbn [fst] in T.
    unfold atrie. cbn. exact T.
  - destruct o as [l'|].
    + (* an output layer *)
      cbn [chainb] in Hc. apply andb_true_iff in Hc. destruct Hc as [Hc Hc4].
      apply andb_true_iff in Hc. destruct Hc as [Hc Hc3]. apply andb_true_iff in Hc. destruct Hc as [Hc1 Hc2].
      apply Nat.eqb_eq in Hc1. subst l'. apply Nat.ltb_lt in Hc2. apply String.eqb_eq in Hc3.
      rewrite (skipn_nth _ _ EmptyString Hc2) in *. rewrite <- Hc3 in *. clear Hc3.
      inversion HR as [|v ? rest' ? Hv HR']; subst. cbn [bind_from gdenote graph_leaves] in *.
      pose proof Hs as Hs0. cbn [scopedb] in Hs. apply andb_true_iff in Hs. destruct Hs as [Hs Hs3].
      apply andb_true_iff in Hs. destruct Hs as [Hs1 Hs2].
      apply negb_true_iff in Hs1. apply smem_false in Hs1.
      inversion ND as [|? ? Hkn ND']; subst.
      assert (forall x, In x (skipn (S l) (k_oidx cfg)) -> ~ In x (k :: B)) as HB'.
      { intros x Hx [<-|Hb]; [contradiction|]. apply (HB x (or_intror Hx) Hb). }
      cbn [Ga]. rewrite Nat.eqb_refl. unfold visits.
      destruct (gctx_defined dead k g Hi) as (ctx & Ec). rewrite Ec.
      unfold atrie. cbn [fst snd tval kids_of].
      set (cnd := fun v0 => negb (is_sparse ctx && out_sparse cfg (Some l))
                   || has_sparse_leaf (gctx (dead ++ absent_ids cfg rho v0 (sparse_leaves ctx)) k g)).
      set (dv := fun v0 => dead ++ absent_ids cfg rho v0 (sparse_leaves ctx)).
      set (R := fun vd : Z * list string => Ga cfg g (S l) (snd vd) (upd rho k (fst vd))).
      set (comp := match nth_error (k_omodes cfg) l with Some MCompressed => true | _ => false end).
      match goal with |- match find _ (map _ ?K) with _ => _ end = _ =>
        replace K with (let kids := map (fun vd => (fst vd, R vd))
                                        (flat_map (fun v0 => if cnd v0 then [(v0, dv v0)] else []) (zrange (k_sizes cfg k))) in
                        if comp then filter (fun c0 : Z * ares => snd (fst (snd c0))) kids else kids)
          by (unfold comp; cbn zeta; destruct (nth_error (k_omodes cfg) l) as [[|]|]; reflexivity)
      end.
      rewrite (find_kept _ cnd dv R comp v (NoDup_zrange _)), existsb_zrange.
      replace ((0 <=? v) && (v <? k_sizes cfg k)) with true by lia. cbn [andb].
      assert (forall rho', agree_on (k :: B) (upd rho k v) rho' -> cnd v = false -> gden g rho' = 0) as Skip.
      { intros rho' A Ecv. unfold cnd in Ecv. apply orb_false_iff in Ecv. destruct Ecv as [E1 E2].
        apply negb_false_iff in E1. apply andb_true_iff in E1. destruct E1 as [E1 _].
        apply (skip_zero dead rho B k v g ctx); auto. }
      assert (agree_on (k :: B) (upd rho k v) (bind_from (upd rho k v) (skipn (S l) (k_oidx cfg)) rest')) as Ag
        by (now apply bind_from_agree).
      destruct (cnd v) eqn:Ecv; cbn [andb].
      * assert (tval rest' (atrie (R (v, dv v)))
                = gden g (bind_from (upd rho k v) (skipn (S l) (k_oidx cfg)) rest')) as IHv.
        { unfold R. cbn [fst snd]. apply (IHg (S l) (k :: B)); auto.
          apply (DZ_step dead rho B k v g ctx); auto. }
        destruct (negb comp || aflag (R (v, dv v))) eqn:Ek.
        -- cbn [snd]. exact IHv.
        -- apply orb_false_iff in Ek. destruct Ek as [_ Ef]. rewrite <- IHv.
           symmetry. unfold R in *. cbn [fst snd] in *. now apply Ga_flag_zero.
      * symmetry. now apply Skip.
    + (* a contraction below the chain *)
      cbn [chainb] in Hc. apply andb_true_iff in Hc. destruct Hc as [Hc Hn].
      apply andb_true_iff in Hc. destruct Hc as [H1 H2]. apply Nat.eqb_eq in H1.
      rewrite H1, skipn_all in *. inversion HR; subst. cbn [bind_from Ga].
      now apply (enter_bucket_value _ _ B).
  - cbn [chainb] in Hc. apply andb_true_iff in Hc. destruct Hc as [Hc Hn].
    apply andb_true_iff in Hc. destruct Hc as [H1 H2]. apply Nat.eqb_eq in H1.
    rewrite H1, skipn_all in *. inversion HR; subst. cbn [bind_from Ga].
    now apply (enter_bucket_value _ _ B).
Qed.

(** * the shape of the output trie *)

(** [supported] plus: a node that appends layer [l] iterates the index of that layer *)
Fixpoint shape_okb (g : graph Z) (l : nat) : bool :=
  match g with
  | GTerminal _ => Nat.eqb l order
  | GIter k (Some l') next =>
      if Nat.eqb l' l
      then Nat.ltb l order && String.eqb k (nth l (k_oidx cfg) EmptyString) && shape_okb next (S l)
      else forallb mode_is_dense (skipn l (k_omodes cfg))
  | _ => forallb mode_is_dense (skipn l (k_omodes cfg))
  end.

Lemma strictly_increasing_zrange n : strictly_increasing (zrange n) = true.
Proof.
  apply strictly_increasing_nth. intros i Hi. rewrite zrange_length in Hi.
  unfold zrange. change 0 with (Z.of_nat 0). rewrite !map_nth, !seq_nth by lia. lia.
Qed.

Lemma strictly_increasing_filter (c : Z -> bool) L :
  strictly_increasing L = true -> strictly_increasing (filter c L) = true.
Proof.
  induction L as [|a L IH]; intros H; [reflexivity|].
  apply strictly_increasing_cons in H. destruct H as [H1 H2]. cbn [filter].
  destruct (c a); [|now apply IH]. apply strictly_increasing_cons. split; [|now apply IH].
  intros x Hx. apply filter_In in Hx. now apply H1.
Qed.

Lemma keys_kept (L : list Z) (c : Z -> bool) (dv : Z -> list string) (R : Z * list string -> ares)
      (comp : bool) :
  map fst (map (fun c0 : Z * ares => (fst c0, fst (fst (snd c0))))
            (let kids := map (fun vd => (fst vd, R vd))
                             (flat_map (fun v0 => if c v0 then [(v0, dv v0)] else []) L) in
             if comp then filter (fun c0 => snd (fst (snd c0))) kids else kids))
  = filter (fun v => c v && (negb comp || aflag (R (v, dv v)))) L.
Proof.
  cbn zeta. induction L as [|a L IH]; [now destruct comp|]. cbn [flat_map filter].
  destruct (c a) eqn:Ea; cbn [app map andb fst snd]; [|exact IH].
  unfold aflag. destruct comp; cbn [negb orb filter fst snd].
  - destruct (snd (fst (R (a, dv a)))); cbn [map fst snd]; [f_equal|]; exact IH.
  - cbn [map fst snd]. f_equal. exact IH.
Qed.

Lemma kids_kept_in (L : list Z) (c : Z -> bool) (dv : Z -> list string) (R : Z * list string -> ares)
      (comp : bool) t :
  In t (map snd (map (fun c0 : Z * ares => (fst c0, fst (fst (snd c0))))
            (let kids := map (fun vd => (fst vd, R vd))
                             (flat_map (fun v0 => if c v0 then [(v0, dv v0)] else []) L) in
             if comp then filter (fun c0 => snd (fst (snd c0))) kids else kids))) ->
  exists v, In v L /\ t = atrie (R (v, dv v)).
Proof.
  cbn zeta. rewrite map_map. cbn [snd]. intros H. apply in_map_iff in H. destruct H as (c0 & <- & Hc0).
  assert (In c0 (map (fun vd => (fst vd, R vd)) (flat_map (fun v0 => if c v0 then [(v0, dv v0)] else []) L))) as Hk.
  { destruct comp; [now apply filter_In in Hc0|exact Hc0]. }
  apply in_map_iff in Hk. destruct Hk as (vd & <- & Hvd). apply in_flat_map in Hvd.
  destruct Hvd as (v & Hv & Hvd). destruct (c v); [|destruct Hvd]. destruct Hvd as [<-|[]].
  exists v. split; [exact Hv|reflexivity].
Qed.

Lemma twf_tabulate ms : forall ds f,
  List.length ms = List.length ds -> forallb mode_is_dense ms = true ->
  twf (combine ms ds) (tabulate ds f).
Proof.
  induction ms as [|m ms IH]; intros [|d ds] f L Hd; try discriminate.
  - cbn. eauto.
  - cbn [forallb] in Hd. apply andb_true_iff in Hd. destruct Hd as [Hm Hd]. destruct m; [|discriminate].
    cbn [combine tabulate twf]. eexists. split; [reflexivity|]. split.
    + rewrite map_map. cbn [fst]. apply map_id.
    + rewrite map_map. cbn [snd]. apply Forall_forall. intros t Ht. apply in_map_iff in Ht.
      destruct Ht as (i & <- & _). apply IH; [cbn in L; lia|exact Hd].
Qed.

Hypothesis CFG : cfg_ok cfg.

Lemma olevels_length : List.length (olevels cfg) = order.
Proof.
  destruct CFG as (L1 & L2 & _). unfold olevels, order. rewrite combine_length, map_length. lia.
Qed.

Lemma skipn_combine {A B} (a : list A) (b : list B) n :
  skipn n (combine a b) = combine (skipn n a) (skipn n b).
Proof.
  revert a b. induction n as [|n IH]; intros a b; [reflexivity|].
  destruct a, b; cbn [skipn combine]; try reflexivity; [now destruct (skipn n a0)|apply IH].
Qed.

Lemma olevels_skipn l :
  skipn l (olevels cfg) = combine (skipn l (k_omodes cfg)) (map (k_sizes cfg) (skipn l (k_oidx cfg))).
Proof. unfold olevels. now rewrite skipn_combine, skipn_map. Qed.

Lemma enter_bucket_twf l (g : graph Z) dead rho :
  forallb mode_is_dense (skipn l (k_omodes cfg)) = true ->
  twf (skipn l (olevels cfg)) (atrie (enter_bucket cfg l g dead rho)).
Proof.
  intros Hd. unfold enter_bucket. destruct (Gb cfg (skipn l (k_oidx cfg)) g dead rho) as [[cs f] o].
  unfold atrie. cbn [fst]. rewrite olevels_skipn. apply twf_tabulate; [|exact Hd].
  destruct CFG as (L1 & L2 & _). rewrite map_length, !skipn_length. lia.
Qed.

Lemma Ga_twf (g : graph Z) : forall l dead rho,
  shape_okb g l = true -> incl (graph_leaves g) (k_leaves cfg) ->
  twf (skipn l (olevels cfg)) (atrie (Ga cfg g l dead rho)).
Proof.
  induction g using (graph_ind' Z); intros l dead rho Hs Hi.
  - cbn [shape_okb] in Hs. apply Nat.eqb_eq in Hs. subst l.
    rewrite <- olevels_length, skipn_all. cbn [Ga]. rewrite olevels_length. fold order.
    rewrite Nat.eqb_refl. destruct (eval_term cfg rho (exhaust_list e dead)). unfold atrie. cbn. eauto.
  - destruct o as [l'|]; [|now apply enter_bucket_twf].
    cbn [shape_okb Ga] in *. destruct (Nat.eqb l' l) eqn:El; [|now apply enter_bucket_twf].
    apply Nat.eqb_eq in El. subst l'.
    apply andb_true_iff in Hs. destruct Hs as [Hs H3]. apply andb_true_iff in Hs. destruct Hs as [H1 H2].
    apply Nat.ltb_lt in H1. apply String.eqb_eq in H2.
    assert (l < List.length (olevels cfg))%nat as Hl by (now rewrite olevels_length).
    destruct CFG as (L1 & L2 & _).
    rewrite (skipn_nth _ _ (MDense, 0) Hl).
    assert (nth l (olevels cfg) (MDense, 0) = (nth l (k_omodes cfg) MDense, k_sizes cfg k)) as ->.
    { unfold olevels. rewrite combine_nth by (rewrite map_length; lia). f_equal.
      rewrite (nth_indep _ 0 (k_sizes cfg EmptyString)) by (rewrite map_length; unfold order in H1; lia).
      rewrite map_nth. now rewrite H2. }
    unfold visits. destruct (gctx_defined dead k g Hi) as (ctx & Ec). rewrite Ec.
    unfold atrie. cbn [fst snd].
    set (cnd := fun v0 => negb (is_sparse ctx && out_sparse cfg (Some l))
                 || has_sparse_leaf (gctx (dead ++ absent_ids cfg rho v0 (sparse_leaves ctx)) k g)).
    set (dv := fun v0 => dead ++ absent_ids cfg rho v0 (sparse_leaves ctx)).
    set (R := fun vd : Z * list string => Ga cfg g (S l) (snd vd) (upd rho k (fst vd))).
    set (comp := match nth_error (k_omodes cfg) l with Some MCompressed => true | _ => false end).
    match goal with |- twf _ (TNode (map _ ?K)) =>
      replace K with (let kids := map (fun vd => (fst vd, R vd))
                                      (flat_map (fun v0 => if cnd v0 then [(v0, dv v0)] else []) (zrange (k_sizes cfg k))) in
                      if comp then filter (fun c0 : Z * ares => snd (fst (snd c0))) kids else kids)
        by (unfold comp; cbn zeta; destruct (nth_error (k_omodes cfg) l) as [[|]|]; reflexivity)
    end.
    cbn [twf]. eexists. split; [reflexivity|]. rewrite keys_kept. split.
    + assert (nth_error (k_omodes cfg) l = Some (nth l (k_omodes cfg) MDense)) as En
        by (apply nth_error_nth'; unfold order in H1; lia).
      destruct (nth l (k_omodes cfg) MDense) eqn:Em.
      * (* dense: every coordinate runs *)
        assert (comp = false) as -> by (unfold comp; now rewrite En).
        assert (forall v, cnd v = true) as Hall.
        { intros v. unfold cnd, out_sparse. rewrite En. now rewrite andb_false_r. }
        rewrite <- (filter_ext_in (fun _ => true)); [|intros v _; now rewrite Hall].
        clear. induction (zrange (k_sizes cfg k)) as [|a L IH]; [reflexivity|]. cbn [filter]. now f_equal.
      * split.
        -- apply strictly_increasing_filter. apply strictly_increasing_zrange.
        -- apply Forall_forall. intros c Hc. apply filter_In in Hc. destruct Hc as [Hc _].
           now apply In_zrange in Hc.
    + apply Forall_forall. intros t Ht. apply kids_kept_in in Ht. destruct Ht as (v & _ & ->).
      unfold R. cbn [fst snd]. now apply IHg.
  - now apply enter_bucket_twf.
Qed.

(** * from the level-order reading to the statement in dimension order *)

Lemma ieval_veq rho rho' (e : iexpr Z) : veq rho rho' -> ievalZ rho e = ievalZ rho' e.
Proof.
  intros V. induction e; cbn [ieval]; try reflexivity.
  - f_equal. apply map_ext. intros x. apply V.
  - now rewrite IHe1, IHe2.
  - now rewrite IHe1, IHe2.
Qed.

Lemma gdenote_veq (g : graph Z) : forall rho rho', veq rho rho' -> gden g rho = gden g rho'.
Proof.
  induction g using (graph_ind' Z); intros rho rho' V.
  - cbn [gdenote]. now apply ieval_veq.
  - destruct o; cbn [gdenote]; [now apply IHg|]. f_equal. apply map_ext. intros v.
    apply IHg. now apply upd_veq.
  - rewrite !gdenote_sum. f_equal. apply map_ext_in. intros t Ht. rewrite Forall_forall in H. now apply H.
Qed.

Definition bind_pairs (rho : val) (ps : list (string * Z)) : val :=
  fold_left (fun r p => upd r (fst p) (snd p)) ps rho.

Lemma bind_from_pairs ks : forall rho cs, bind_from rho ks cs = bind_pairs rho (combine ks cs).
Proof.
  induction ks as [|k ks IH]; intros rho cs; [reflexivity|]. destruct cs as [|c cs]; [reflexivity|].
  cbn [bind_from combine]. unfold bind_pairs. cbn [fold_left fst snd]. apply IH.
Qed.

Lemma bind_pairs_rev tgt : forall c, bind tgt c = bind_pairs (fun _ => 0) (rev (combine tgt c)).
Proof.
  induction tgt as [|k t IH]; intros c; [reflexivity|]. destruct c as [|v c]; [reflexivity|].
  cbn [bind combine rev]. unfold bind_pairs. rewrite fold_left_app. cbn [fold_left fst snd].
  f_equal. apply IH.
Qed.

Lemma bind_pairs_veq ps : forall r r', veq r r' -> veq (bind_pairs r ps) (bind_pairs r' ps).
Proof.
  induction ps as [|p ps IH]; intros r r' V; [exact V|]. unfold bind_pairs. cbn [fold_left].
  apply IH. now apply upd_veq.
Qed.

Lemma bind_pairs_perm ps ps' :
  Permutation.Permutation ps ps' -> NoDup (map fst ps) ->
  forall rho, veq (bind_pairs rho ps) (bind_pairs rho ps').
Proof.
  induction 1 as [|x l l' HP IH|x y l|l l' l'' H1 IH1 H2 IH2]; intros ND rho.
  - intros z. reflexivity.
  - cbn [map] in ND. inversion ND; subst. unfold bind_pairs. cbn [fold_left]. now apply IH.
  - cbn [map] in ND. inversion ND as [|? ? Hn ND']; subst. unfold bind_pairs. cbn [fold_left].
    apply bind_pairs_veq. apply upd_comm. intros E. apply Hn. left. now symmetry.
  - intros z. rewrite (IH1 ND rho z). apply IH2.
    eapply Permutation.Permutation_NoDup; [|exact ND]. now apply Permutation.Permutation_map.
Qed.

Lemma combine_map {A B C} (f : A -> B) (g : A -> C) L :
  combine (map f L) (map g L) = map (fun x => (f x, g x)) L.
Proof. induction L as [|a L IH]; [reflexivity|]. cbn. now rewrite IH. Qed.

Lemma Forall2_nth {A B} (P : A -> B -> Prop) la lb da db :
  Forall2 P la lb -> forall i, (i < List.length la)%nat -> P (nth i la da) (nth i lb db).
Proof.
  induction 1 as [|a b la lb Hab H IH]; intros i Hi; [cbn in Hi; lia|].
  destruct i as [|i]; [exact Hab|]. cbn [nth]. apply IH. cbn in Hi. lia.
Qed.

Lemma Forall2_length' {A B} (P : A -> B -> Prop) la lb : Forall2 P la lb -> List.length la = List.length lb.
Proof. induction 1; cbn; congruence. Qed.

Lemma chainb_shape (g : graph Z) : forall l, chainb g l = true -> shape_okb g l = true.
Proof.
  assert (forall l, Nat.eqb l (List.length (k_oidx cfg)) && Nat.eqb l order = true ->
                    forallb mode_is_dense (skipn l (k_omodes cfg)) = true) as Hd.
  { intros l H. apply andb_true_iff in H. destruct H as [_ H]. apply Nat.eqb_eq in H. subst l.
    unfold order. now rewrite skipn_all. }
  induction g using (graph_ind' Z); intros l Hc.
  - cbn [chainb shape_okb] in *. apply andb_true_iff in Hc. destruct Hc as [Hc _].
    apply andb_true_iff in Hc. tauto.
  - destruct o as [l'|]; cbn [chainb shape_okb] in *.
    + apply andb_true_iff in Hc. destruct Hc as [Hc Hc4].
      apply andb_true_iff in Hc. destruct Hc as [Hc Hc3]. apply andb_true_iff in Hc. destruct Hc as [Hc1 Hc2].
      rewrite Hc1, Hc3, (IHg _ Hc4). apply Nat.ltb_lt in Hc2. destruct CFG as (L1 & L2 & _).
      assert (l <? order = true)%nat as ->; [apply Nat.ltb_lt; unfold order; lia|reflexivity].
    + apply andb_true_iff in Hc. destruct Hc as [Hc _]. now apply Hd.
  - cbn [chainb shape_okb] in *. apply andb_true_iff in Hc. destruct Hc as [Hc _]. now apply Hd.
Qed.

Theorem G_value_level (g : graph Z) :
  incl (graph_leaves g) (k_leaves cfg) -> chainb g 0 = true -> scopedb [] g = true -> NoDup (k_oidx cfg) ->
  forall lc, Forall2 (fun c x => 0 <= c < k_sizes cfg x) lc (k_oidx cfg) ->
  tval lc (atrie (G cfg g)) = gden g (bind_from (fun _ => 0) (k_oidx cfg) lc).
Proof.
  intros Hi Hc Hs ND lc HR. unfold G.
  apply (Ga_value g 0 [] [] (fun _ => 0) lc Hc Hs Hi (DZ_nil _ _)); auto.
Qed.

Theorem G_computes (g : graph Z) (tgt : list string) (c : list Z) :
  incl (graph_leaves g) (k_leaves cfg) -> chainb g 0 = true -> scopedb [] g = true -> NoDup (k_oidx cfg) ->
  k_oidx cfg = map (fun d => nth d tgt EmptyString) (k_oord cfg) -> NoDup tgt ->
  List.length tgt = List.length (k_oord cfg) ->
  Forall2 (fun ci x => 0 <= ci < k_sizes cfg x) c tgt ->
  abs_tensor (O := ZOps) (encode cfg (atrie (G cfg g))) c = gden g (bind tgt c).
Proof.
  intros Hi Hc Hs ND Eo NDt Lt HR. pose proof CFG as (L1 & L2 & P & _).
  pose proof (Forall2_length' _ _ _ HR) as Lc.
  set (lc := to_level_order (k_oord cfg) c).
  assert (twf (olevels cfg) (atrie (G cfg g))) as TW.
  { apply (Ga_twf g 0 [] (fun _ => 0)); [now apply chainb_shape|exact Hi]. }
  pose proof (encode_abs cfg (atrie (G cfg g)) lc CFG TW (to_level_order_length _ _)) as EA.
  unfold lc in EA at 1. rewrite (to_dim_order_to_level_order (k_oord cfg) c P) in EA by lia.
  rewrite EA. clear EA.
  rewrite G_value_level; auto.
  - apply gdenote_veq. rewrite bind_from_pairs, bind_pairs_rev.
    intros z. symmetry. apply bind_pairs_perm.
    + eapply Permutation.perm_trans; [apply Permutation.Permutation_sym, Permutation.Permutation_rev|].
      rewrite Eo. unfold lc, to_level_order. rewrite combine_map.
      replace (combine tgt c) with (map (fun x => (nth x tgt EmptyString, nth x c 0)) (seq 0 (List.length (k_oord cfg)))).
      2:{ rewrite <- combine_map. f_equal; [rewrite <- Lt|rewrite <- Lt, <- Lc]; apply map_nth_seq. }
      apply Permutation.Permutation_map. now apply is_permb_Permutation.
    + rewrite map_rev. apply Permutation.Permutation_NoDup with (l := tgt); [|exact NDt].
      rewrite combine_map_fst by lia. apply Permutation.Permutation_rev.
  - rewrite Eo. unfold lc, to_level_order.
    assert (forall L, (forall d, In d L -> (d < List.length c)%nat) ->
              Forall2 (fun c0 x => 0 <= c0 < k_sizes cfg x)
                      (map (fun i => nth i c 0) L) (map (fun d => nth d tgt EmptyString) L)) as Gen.
    { induction L as [|d L IH]; intros HL; cbn [map]; constructor.
      - apply (Forall2_nth _ _ _ 0 EmptyString HR). apply HL. now left.
      - apply IH. intros d' Hd'. apply HL. now right. }
    apply Gen. intros d Hd. apply (is_permb_In _ P) in Hd. lia.
Qed.
End Sound.

(** the stored tensor the kernel model produces *)
Definition G_out (cfg : kcfg) (g : graph Z) : tensor Z := encode cfg (atrie (G cfg g)).
