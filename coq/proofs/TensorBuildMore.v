(** C09, the rest: entry points reduce to [build]; to_format preserves the content; pickling is the
    identity on well-formed tensors; out-of-range coordinates (what is exactly true of the code
    today, and the range-checked variant); [items_impl] = [items_spec] for involutive orderings.
    Axiom-free. *)

From Coq Require Import ZArith List Bool Lia ZifyBool Permutation Arith.
From TV Require Import spec.Storage model.TensorBuild proofs.StorageLemmas proofs.TensorBuildLemmas
  proofs.TensorBuildWf proofs.TensorBuildWalk proofs.TensorBuildTop.
Import ListNotations.
Open Scope Z_scope.

(** * entry points *)

Lemma zip_strict_fst_snd {A B} (d : list (A * B)) : zip_strict (map fst d) (map snd d) = Some d.
Proof.
  induction d as [|[a b] d IH]; [reflexivity|]. cbn [map fst snd zip_strict]. now rewrite IH.
Qed.

Lemma zip_strict_combine {A B} (a : list A) (b : list B) :
  length a = length b -> zip_strict a b = Some (combine a b).
Proof.
  revert b. induction a as [|x a IH]; intros [|y b] L; cbn in L; try discriminate; [reflexivity|].
  cbn [zip_strict combine]. rewrite IH by lia. reflexivity.
Qed.

Lemma from_dok_build fmt dims d : from_dok fmt dims d = build fmt dims d.
Proof. unfold from_dok, from_aos. now rewrite zip_strict_fst_snd. Qed.

Lemma from_aos_build fmt dims cs vs :
  length cs = length vs -> from_aos fmt dims cs vs = build fmt dims (combine cs vs).
Proof. intros L. unfold from_aos. now rewrite zip_strict_combine. Qed.

Lemma from_lol_build fmt dims x : from_lol fmt dims x = build fmt dims (lol_entries x []).
Proof. unfold from_lol, from_aos. now rewrite zip_strict_fst_snd. Qed.

(** columns of a list of rows that all have [n] components *)
Fixpoint columns (n : nat) (rows : list (list Z)) : list (list Z) :=
  match n with
  | O => []
  | S k => map (fun r => hd 0 r) rows :: columns k (map (@tl Z) rows)
  end.

Lemma transpose_columns n : forall rows,
  (0 < n)%nat -> Forall (fun r => length r = n) rows ->
  transpose_strict (columns n rows) = Some rows.
Proof.
  induction n as [|n IH]; intros rows Hn HL; [lia|].
  destruct n as [|n].
  - cbn [columns transpose_strict]. f_equal. rewrite map_map.
    rewrite <- (map_id rows) at 2. apply map_ext_in. intros r Hr.
    rewrite Forall_forall in HL. specialize (HL r Hr).
    destruct r as [|x [|y r]]; cbn in HL; try discriminate. reflexivity.
  - assert (Forall (fun r => length r = S n) (map (@tl Z) rows)) as HL'.
    { apply Forall_forall. intros r Hr. apply in_map_iff in Hr. destruct Hr as (r0 & <- & Hr0).
      rewrite Forall_forall in HL. specialize (HL r0 Hr0). destruct r0; cbn in *; lia. }
    specialize (IH (map (@tl Z) rows) ltac:(lia) HL').
    change (columns (S (S n)) rows)
      with (map (fun r => hd 0 r) rows :: columns (S n) (map (@tl Z) rows)).
    remember (columns (S n) (map (@tl Z) rows)) as cs eqn:Ecs.
    destruct cs as [|c0 cs'].
    { cbn in Ecs. discriminate. }
    cbn [transpose_strict]. cbn [transpose_strict] in IH. rewrite IH.
    rewrite zip_strict_combine by now rewrite !map_length.
    f_equal. clear -HL. induction rows as [|r rows IHr]; [reflexivity|].
    inversion HL; subst. cbn [map combine fst snd]. rewrite IHr by assumption.
    destruct r; cbn in *; [discriminate|reflexivity].
Qed.

Lemma from_soa_build fmt dims rows vs n :
  (0 < n)%nat -> Forall (fun r => length r = n) rows -> length rows = length vs ->
  from_soa fmt dims (columns n rows) vs = build fmt dims (combine rows vs).
Proof.
  intros Hn HL L. unfold from_soa. rewrite (transpose_columns n rows Hn HL).
  now apply from_aos_build.
Qed.

(** * sums over a duplicate-free dictionary *)

Lemma sum_at_notin c d : ~ In c (map fst d) -> sum_at c d = 0.
Proof.
  induction d as [|[c' v] d IH]; intros H; [reflexivity|].
  cbn [sum_at]. destruct (list_eqb c' c) eqn:E.
  - apply list_eqb_eq in E. subst. exfalso. apply H. now left.
  - rewrite IH; [lia|]. intros Hin. apply H. now right.
Qed.

Lemma sum_at_NoDup c v d : NoDup (map fst d) -> In (c, v) d -> sum_at c d = v.
Proof.
  induction d as [|[c' v'] d IH]; intros ND Hin; [destruct Hin|].
  cbn [map fst] in ND. inversion ND as [|? ? Hn ND']; subst. cbn [sum_at].
  destruct Hin as [E|Hin].
  - inversion E; subst. rewrite list_eqb_refl. rewrite sum_at_notin by assumption. lia.
  - destruct (list_eqb c' c) eqn:E.
    + apply list_eqb_eq in E. subst. exfalso. apply Hn. apply in_map_iff. now exists (c, v).
    + rewrite IH by assumption. lia.
Qed.

(** * to_format *)

Section ToFormat.
  Variables (fmt fmt' : format) (dims : list Z) (es : list entry).
  Hypothesis V : valid_formatb fmt = true.
  Hypothesis V' : valid_formatb fmt' = true.
  Hypothesis D : dims_okb fmt dims = true.
  Hypothesis D' : dims_okb fmt' dims = true.
  Hypothesis R : all_in_rangeb dims es = true.

  Let t := built fmt dims es.
  Let d := to_dok_spec t.

  Lemma dok_in_range : all_in_rangeb dims d = true.
  Proof.
    unfold all_in_rangeb. apply forallb_forall. intros [c v] Hin. cbn [fst].
    apply (roundtrip_In fmt dims es V D R) in Hin. destruct Hin as [-> Hnz].
    destruct (sum_at_nonzero_In _ _ Hnz) as [w Hw].
    unfold all_in_rangeb in R. rewrite forallb_forall in R. apply (R _ Hw).
  Qed.

  Lemma to_format_ok : to_format_spec fmt' t = Ok (built fmt' dims d).
  Proof.
    unfold to_format_spec. rewrite from_dok_build.
    destruct (built_format fmt dims es V D R) as [_ Ed]. fold t in Ed. rewrite Ed.
    apply build_ok; [assumption|assumption|apply dok_in_range].
  Qed.

  Lemma to_format_content c v : In (c, v) (to_dok_spec (built fmt' dims d)) <-> In (c, v) d.
  Proof.
    rewrite (roundtrip_In fmt' dims d V' D' dok_in_range).
    pose proof (roundtrip_NoDup fmt dims es V D R) as ND. fold t d in ND.
    split.
    - intros [-> Hnz]. destruct (sum_at_nonzero_In _ _ Hnz) as [w Hw].
      now rewrite (sum_at_NoDup _ _ _ ND Hw).
    - intros Hin. rewrite (sum_at_NoDup _ _ _ ND Hin). split; [reflexivity|].
      apply (roundtrip_In fmt dims es V D R) in Hin. tauto.
  Qed.
End ToFormat.

(** * pickling *)

Lemma firstnZ_all {A} (l : list A) n : zlen l = n -> firstnZ n l = l.
Proof. intros H. unfold firstnZ. apply firstn_all2. unfold zlen in H. lia. Qed.

Lemma read_wf lv : forall n k,
  wf_levelsb lv n = Some k ->
  read_nnz lv n = k
  /\ snd (read_indices lv n) = k
  /\ levels_of_state (map mode_of_level (map fst lv)) (fst (read_indices lv n)) = Some (map fst lv).
Proof.
  induction lv as [|[l dd] lv IH]; intros n k H.
  - cbn in *. inversion H. auto.
  - destruct l as [|pos crd]; cbn [wf_levelsb read_nnz read_indices map fst mode_of_level] in *.
    + destruct (0 <=? dd); [|discriminate]. specialize (IH _ _ H). destruct IH as (I1 & I2 & I3).
      destruct (read_indices lv (n * dd)) as [ix n'] eqn:E. cbn [fst snd] in *.
      cbn [levels_of_state]. rewrite I3. auto.
    + destruct (wf_compressedb n dd pos crd) eqn:W; [|discriminate].
      pose proof (wf_compressed_validate _ _ _ _ W) as Wv.
      rewrite !andb_true_iff in Wv. destruct Wv as [[[[W1 W2] W3] W4] W5].
      assert (firstnZ (n + 1) pos = pos) as Ep by (apply firstnZ_all; lia).
      rewrite Ep.
      assert (0 <= n) as Hn.
      { destruct pos as [|a pos]; [cbn in W2; lia|]. rewrite zlen_cons in W1. pose proof (zlen_nonneg pos). lia. }
      assert (last pos 0 = zlen crd) as El.
      { rewrite last_nth. rewrite (nth_indep _ 0 (-1)) by (unfold zlen in W1; lia).
        rewrite <- last_nth. lia. }
      rewrite El.
      assert (firstnZ (zlen crd) crd = crd) as Ec by (now apply firstnZ_all).
      rewrite Ec.
      assert (nthZ 0 pos n = zlen crd) as En.
      { rewrite nthZ_nonneg by assumption. rewrite last_nth in El.
        unfold zlen in W1. replace (length pos - 1)%nat with (Z.to_nat n) in El by lia. exact El. }
      rewrite En. specialize (IH _ _ H). destruct IH as (I1 & I2 & I3).
      destruct (read_indices lv (zlen crd)) as [ix n'] eqn:E. cbn [fst snd] in *.
      cbn [levels_of_state]. rewrite I3. auto.
Qed.

Lemma pickle_identity (t : tensor Z) : wf_tensorb true t = true -> pickle_roundtrip t = Ok t.
Proof.
  intros W. pose proof (wf_tensorb_shape _ _ W) as (L1 & L2 & P & Dm).
  pose proof (wf_validate _ W) as Val.
  unfold wf_tensorb in W. apply andb_true_iff in W. destruct W as [_ W].
  destruct (wf_levelsb (combine (levels t) (level_dims t)) 1) as [k|] eqn:E; [|discriminate].
  destruct (read_wf _ _ _ E) as (R1 & R2 & R3).
  assert (map fst (combine (levels t) (level_dims t)) = levels t) as Mf.
  { apply map_fst_combine. unfold level_dims. rewrite map_length. lia. }
  rewrite Mf in R3.
  unfold pickle_roundtrip, setstate, getstate. cbn [ps_modes ps_indices ps_dims ps_ordering ps_vals].
  rewrite R3, R1. rewrite firstnZ_all by lia.
  destruct t as [dm od ls vs]. cbn [Storage.dims ordering levels vals] in *. now rewrite Val.
Qed.

(** * out-of-range coordinates: what the code does today *)

(** the first level (in storage order) at which the level-order coordinate is out of range is a
    compressed level *)
Fixpoint first_bad_compressed (lv : list (mode * Z)) (lc : list Z) : bool :=
  match lv, lc with
  | (m, d) :: r, x :: c' =>
      if (0 <=? x) && (x <? d) then first_bad_compressed r c'
      else match m with MCompressed => true | MDense => false end
  | _, _ => false
  end.

(** ... is a dense level: the entry is silently dropped *)
Fixpoint first_bad_dense (lv : list (mode * Z)) (lc : list Z) : bool :=
  match lv, lc with
  | (m, d) :: r, x :: c' =>
      if (0 <=? x) && (x <? d) then first_bad_dense r c'
      else match m with MCompressed => false | MDense => true end
  | _, _ => false
  end.

Lemma emit_rejects lv : forall nodes ls vs n,
  emit lv nodes = (ls, vs) ->
  (exists nd e, In nd nodes /\ In e nd /\ first_bad_compressed lv (fst e) = true) ->
  validate_levels (combine ls (map snd lv)) n = None.
Proof.
  induction lv as [|[m d] lv IH]; intros nodes ls vs n E (nd & [c v] & Hnd & He & Hb).
  - cbn in Hb. discriminate.
  - cbn [fst] in Hb. destruct c as [|x c']; [cbn in Hb; discriminate|].
    cbn [first_bad_compressed] in Hb.
    destruct m; cbn [emit] in E; destruct (emit lv _) as [ls' vs'] eqn:E'; inversion E; subst; clear E;
      cbn [map snd combine validate_levels].
    + destruct ((0 <=? x) && (x <? d)) eqn:Rg; [|discriminate].
      eapply IH; [exact E'|]. exists (select x nd), (c', v). repeat split.
      * apply in_flat_map. exists nd. split; [assumption|]. apply in_map_iff. exists x.
        split; [reflexivity|apply In_zrange; lia].
      * now apply select_In.
      * exact Hb.
    + destruct ((0 <=? x) && (x <? d)) eqn:Rg.
      * match goal with |- (if ?c then _ else _) = _ => destruct c end; [|reflexivity].
        eapply IH; [exact E'|]. exists (select x nd), (c', v). repeat split.
        -- apply in_flat_map. exists nd. split; [assumption|]. apply in_map_iff. exists x.
           split; [reflexivity|]. apply keys_In, heads_In. now exists c', v.
        -- now apply select_In.
        -- exact Hb.
      * assert (forallb (fun x0 => (0 <=? x0) && (x0 <? d)) (concat (map keys nodes)) = false) as F.
        { apply not_true_is_false. intros F. rewrite forallb_forall in F.
          specialize (F x). rewrite Rg in F. discriminate F.
          apply in_concat. exists (keys nd). split; [apply in_map; assumption|].
          apply keys_In, heads_In. now exists c', v. }
        rewrite F. rewrite !andb_false_r. reflexivity.
Qed.

Lemma map_opt_nth_error l idx r :
  map_opt (fun i => nth_error l i) idx = Some r -> r = map (fun i => nth i l 0) idx.
Proof.
  revert r. induction idx as [|i idx IH]; intros r H; cbn [map_opt] in H.
  - inversion H. reflexivity.
  - destruct (nth_error l i) eqn:E; [|discriminate].
    destruct (map_opt _ idx) eqn:E2; [|discriminate]. inversion H; subst.
    cbn [map]. f_equal; [|now apply IH]. symmetry. now apply nth_error_nth.
Qed.

Lemma map_opt_In {A B} (f : A -> option B) l r a :
  map_opt f l = Some r -> In a l -> exists b, f a = Some b /\ In b r.
Proof.
  revert r. induction l as [|x l IH]; intros r H Hin; [destruct Hin|].
  cbn [map_opt] in H. destruct (f x) eqn:E; [|discriminate].
  destruct (map_opt f l) eqn:E2; [|discriminate]. inversion H; subst.
  destruct Hin as [->|Hin].
  - exists b. split; [assumption|now left].
  - destruct (IH _ eq_refl Hin) as (b' & Hb & Hin'). exists b'. split; [assumption|now right].
Qed.

Theorem out_of_range_compressed_rejected fmt dims es :
  valid_formatb fmt = true ->
  (exists e, In e es /\
     first_bad_compressed (combine (fmodes fmt) (level_dims_list (fordering fmt) dims))
                          (to_level_order (fordering fmt) (fst e)) = true) ->
  exists err, build fmt dims es = Err err.
Proof.
  intros V (e & He & Hb). unfold build. rewrite V. cbn [negb].
  destruct (level_dims_of (fordering fmt) dims) as [ldims|] eqn:EL; [|eexists; reflexivity].
  match goal with |- context [map_opt ?f es] => destruct (map_opt f es) as [les|] eqn:EP end;
    [|eexists; reflexivity].
  cbv zeta.
  assert (validate (raw_build fmt dims ldims les) = false) as Vf; [|rewrite Vf; eexists; reflexivity].
  apply map_opt_nth_error in EL. fold (level_dims_list (fordering fmt) dims) in EL. subst ldims.
  destruct (map_opt_In _ _ _ _ EP He) as (e' & He' & Hin').
  destruct (permute_coord (fordering fmt) (fst e)) as [lc|] eqn:Ep; [|discriminate].
  inversion He'; subst e'. clear He'.
  unfold permute_coord in Ep. apply map_opt_nth_error in Ep.
  fold (to_level_order (fordering fmt) (fst e)) in Ep. subst lc.
  unfold valid_formatb in V. apply andb_true_iff in V. destruct V as [V1 _]. apply Nat.eqb_eq in V1.
  unfold raw_build.
  match goal with |- context [emit ?a ?b] => destruct (emit a b) as [ls vs] eqn:E end.
  set (T := mkTensor dims (fordering fmt) ls vs).
  assert (validate_levels (combine (levels T) (level_dims T)) 1 = None) as N.
  { unfold level_dims, T. cbn [levels Storage.dims ordering]. fold (level_dims_list (fordering fmt) dims).
    rewrite <- (map_snd_combine (fmodes fmt) (level_dims_list (fordering fmt) dims))
      by (unfold level_dims_list; rewrite map_length; exact V1).
    eapply emit_rejects; [exact E|].
    exists les, (to_level_order (fordering fmt) (fst e), snd e). repeat split; [now left|assumption|exact Hb]. }
  fold T. unfold validate. rewrite N. apply andb_false_r.
Qed.

(** the range-checked variant rejects every out-of-range (or wrong-length) coordinate *)
Theorem build_checked_rejects fmt dims es :
  all_in_rangeb dims es = false -> exists err, build_checked fmt dims es = Err err.
Proof.
  intros H. unfold build_checked. rewrite H. destruct (build fmt dims es); eexists; reflexivity.
Qed.

Theorem build_checked_in_range fmt dims es :
  all_in_rangeb dims es = true -> build_checked fmt dims es = build fmt dims es.
Proof. intros H. unfold build_checked. now rewrite H. Qed.

(** * the reading implemented today agrees with the correct one for involutive orderings *)

Definition involutiveb (ord : list nat) : bool :=
  forallb (fun i => Nat.eqb (nth (nth i ord O) ord O) i) (seq 0 (length ord)).

Lemma items_impl_involutive (t : tensor Z) :
  is_permb (ordering t) = true -> involutiveb (ordering t) = true -> items_impl t = items_spec t.
Proof.
  intros P I. unfold items_impl, items_spec, entries. apply map_ext. intros [lc p]. f_equal.
  unfold to_dim_order. apply map_ext_in. intros i Hi. apply in_seq in Hi.
  unfold involutiveb in I. rewrite forallb_forall in I.
  specialize (I i ltac:(apply in_seq; lia)). apply Nat.eqb_eq in I.
  assert (nth i (ordering t) O < length (ordering t))%nat as Hlt by (apply is_permb_nth_lt; [assumption|lia]).
  rewrite <- I at 2. rewrite index_of_nth; [reflexivity|now apply is_permb_NoDup|assumption].
Qed.
