(** TIE "compose" -- entry point: the TIE layers composed across their borders.

      proofs/Compose_post.v        (1) grammar + problem: the regenerated __post_init__ is the grammar's hook
      proofs/Compose_operators.v   (2) operators + deparse + grammar: the emitted assignment string parses back to
                                       the request tree
      proofs/Compose_format.v      (2b) the output format string parses back to the request's format
      proofs/Compose_cli.v         (3) glue + problem + grammar: the CLI body over regenerated library functions

    The names below are the ones tools/props/_tie_compose.py lists. *)

From TV Require Export proofs.Compose_post proofs.Compose_operators proofs.Compose_format proofs.Compose_cli.

Definition compose_validate_check := validate_check.
Definition compose_gen_post_is_validate := gen_post_is_validate.
Definition compose_grammar_assignment_equiv := compose_assignment_equiv.
Definition compose_grammar_assignment_equiv_model := compose_assignment_equiv_model.
Definition compose_grammar_parse_sound_complete := compose_parse_sound_complete.
Definition compose_grammar_parse_deparse := compose_parse_deparse.
Definition compose_grammar_assignment_total := compose_assignment_total.
Definition compose_grammar_roundtrip_int := compose_deparse_roundtrip_int.
Definition compose_grammar_parsed_is_object := compose_parsed_is_object.
Definition compose_text_parses := text_parses.
Definition compose_request_text_parses := request_text_parses.
Definition compose_request_text_printed := request_text_printed.
Definition compose_binary_text := compose_binary_operator_text.
Definition compose_matmul_text := compose_matmul_operator_text.
Definition compose_methods_text := compose_method_text.
Definition compose_format_text_parses := format_text_parses.
Definition compose_binary_format := compose_binary_operator_format.
Definition compose_matmul_format := compose_matmul_operator_format.
Definition compose_cli_conversions :=
  (conj fmt_i2t_inv (conj fmt_t2i_inv (conj fmt_g2i_inv (conj fmt_i2g_inv (conj problem_t2l_inv problem_l2t_inv))))).
Definition compose_cli_parsers_total := (conj parse_assignment_cli_total parse_named_format_cli_total).
Definition compose_cli_request_eq := compose_cli_request.
Definition compose_cli_effective := compose_cli_effective_formats.
Definition compose_cli_all_dense := compose_cli_no_options_all_dense.
