(** * GenGlue_equiv: the glue functions regenerated from the source (coq/gen/GlueGen.v) are the
    specifications of model/Glue.v and the existing hand models (model/Graphs.v [identify] /
    [best_of], model/OutputOrder.v [is_assemble] / [is_compute]) -- TIE target "glue".
    See design.d/TIE_glue.md. *)
From Coq Require Import ZArith List Bool String Lia Arith ZifyBool.
From TV Require Import spec.Num spec.PyBase spec.PyLib model.GraphsIter.
From TV Require Import gen.ExhaustAst gen.Deparse gen.Desugar gen.IterGraphs gen.IRAst gen.Peephole gen.GlueGen.
From TV Require model.Graphs model.OutputOrder model.Glue gen.AppendGen.
From TV Require Import proofs.PyLibFacts proofs.GenGraphs_base proofs.GenGraphs_equiv.
Import ListNotations.
Local Open Scope list_scope.

Module G := TV.model.Glue.
Module O := TV.model.OutputOrder.
Module AG := TV.gen.AppendGen.
(* [M] = model/Graphs.v (from GenGraphs_base) *)

(** * (a) to_identifiable *)

Lemma permute_indexes_levels : forall idx ord ivs,
  M.permute_indexes idx ord = Some ivs ->
  List.length ivs = List.length ord /\
  forall l, (l < List.length ord)%nat -> nth_error ivs l = G.level_index idx ord l.
Proof.
  induction ord as [|o r IH]; intros ivs H; cbn [M.permute_indexes] in H.
  - injection H as <-. split; [reflexivity | intros l Hl; inversion Hl].
  - destruct (nth_error idx o) as [x|] eqn:Ex; [|discriminate].
    destruct (M.permute_indexes idx r) as [xs|] eqn:Er; [|discriminate].
    injection H as <-. destruct (IH xs eq_refl) as [Hlen Hn]. split; [cbn; now rewrite Hlen|].
    intros [|l] Hl; unfold G.level_index; cbn [nth_error].
    + now rewrite Ex.
    + apply Hn. cbn in Hl. lia.
Qed.

Lemma permute_indexes_map : forall idx ord ivs,
  M.permute_indexes idx ord = Some ivs -> ivs = map (fun d => nth d idx EmptyString) ord.
Proof.
  induction ord as [|o r IH]; intros ivs H; cbn [M.permute_indexes] in H.
  - now injection H as <-.
  - destruct (nth_error idx o) as [x|] eqn:Ex; [|discriminate].
    destruct (M.permute_indexes idx r) as [xs|] eqn:Er; [|discriminate].
    injection H as <-. cbn [map]. rewrite <- (IH xs eq_refl). f_equal.
    symmetry. now apply nth_error_nth.
Qed.

Section ToIdentifiable.
Variable fval : string -> F.

(** the regenerated function on (the embedding of) any model tensor and formats, with the exception
    CLASS of each refusal *)
Theorem gen_to_identifiable_equiv : forall t fs,
  to_identifiable (up_dexpr fval (M.DTensor t)) (up_formats fs) =
  match M.lookup (M.d_name t) fs with
  | None => PRaise "KeyError"
  | Some f =>
      match M.permute_indexes (M.d_indexes t) (M.f_ordering f) with
      | None => PRaise "IndexError"
      | Some ivs => POk (up_tref (M.mkT (M.d_id t) (M.d_name t) ivs (M.f_modes f)))
      end
  end.
Proof.
  intros [id name idx] fs. unfold to_identifiable.
  cbn [up_dexpr gl_de_expr_get_name gl_de_expr_get_id gl_de_expr_get_indexes r_bind M.d_name M.d_indexes M.d_id].
  rewrite dict_get_up_formats. destruct (M.lookup name fs) as [f|]; [|reflexivity].
  cbn [option_map r_of_opt r_bind up_format Format_ordering Format_modes].
  rewrite permute_indexes_up. destruct (M.permute_indexes idx (M.f_ordering f)); reflexivity.
Qed.

(** ... is the hand model [M.identify] of model/Graphs.v (used by C08's enumeration) *)
Theorem gen_to_identifiable_identify : forall t fs,
  match M.identify t fs with
  | Some tr => to_identifiable (up_dexpr fval (M.DTensor t)) (up_formats fs) = POk (up_tref tr)
  | None => exists e, to_identifiable (up_dexpr fval (M.DTensor t)) (up_formats fs) = PRaise e
  end.
Proof.
  intros t fs. rewrite gen_to_identifiable_equiv. unfold M.identify.
  destruct (M.lookup (M.d_name t) fs) as [f|]; [|eauto].
  destruct (M.permute_indexes (M.d_indexes t) (M.f_ordering f)); eauto.
Qed.

(** ... and the output description of model/Glue.v: level [l] gets [indexes[ordering[l]]] *)
Theorem gen_to_identifiable_description : forall t fs,
  match G.output_description_of t fs with
  | Some od =>
      to_identifiable (up_dexpr fval (M.DTensor t)) (up_formats fs)
      = POk (IdTensor (show_Z (Z.of_nat (M.d_id t)) ++ "_" ++ M.d_name t)%string (M.d_name t)
                      (G.od_indexes od) (map up_mode (G.od_modes od)))
  | None => exists e, to_identifiable (up_dexpr fval (M.DTensor t)) (up_formats fs) = PRaise e
  end.
Proof.
  intros t fs. rewrite gen_to_identifiable_equiv. unfold G.output_description_of.
  destruct (M.lookup (M.d_name t) fs) as [f|]; [|eauto].
  destruct (M.permute_indexes (M.d_indexes t) (M.f_ordering f)); eauto.
Qed.

(** What the consumers read.  If the regenerated function returns [IdTensor id name ivs modes] then
    the format [f] of the tensor exists and: [ivs] has one entry per LEVEL, entry [l] is
    [indexes[ordering[l]]] ([level_index]); equivalently [ivs = map (nth . indexes) ordering] -- the
    hypothesis [k_oidx cfg = map (fun d => nth d tgt "") (k_oord cfg)] of the abstract kernel model's
    theorems (proofs/KernelBucket.v) with [k_oord := f_ordering f], [k_omodes := f_modes f]. *)
Theorem gen_to_identifiable_levels : forall t fs id name ivs modes,
  to_identifiable (up_dexpr fval (M.DTensor t)) (up_formats fs) = POk (IdTensor id name ivs modes) ->
  exists f, M.lookup (M.d_name t) fs = Some f
    /\ id = (show_Z (Z.of_nat (M.d_id t)) ++ "_" ++ M.d_name t)%string /\ name = M.d_name t
    /\ modes = map up_mode (M.f_modes f)
    /\ List.length ivs = List.length (M.f_ordering f)
    /\ (forall l, (l < List.length (M.f_ordering f))%nat ->
          nth_error ivs l = G.level_index (M.d_indexes t) (M.f_ordering f) l)
    /\ ivs = map (fun d => nth d (M.d_indexes t) EmptyString) (M.f_ordering f)
    /\ G.output_description_of t fs = Some (G.mkOD ivs (M.f_modes f) (M.f_ordering f)).
Proof.
  intros t fs id name ivs modes H. rewrite gen_to_identifiable_equiv in H. unfold G.output_description_of.
  destruct (M.lookup (M.d_name t) fs) as [f|]; [|discriminate].
  destruct (M.permute_indexes (M.d_indexes t) (M.f_ordering f)) as [ivs'|] eqn:Ep; [|discriminate].
  unfold up_tref in H. cbn [M.t_id M.t_name M.t_indexes M.t_modes] in H. injection H as <- <- <- <-.
  exists f. destruct (permute_indexes_levels _ _ _ Ep) as [Hl Hn].
  repeat split; auto. now apply permute_indexes_map.
Qed.
End ToIdentifiable.

(** the permutation is [ordering], not its inverse: a three-level witness where they differ
    (level 0 of ordering [1;2;0] stores dimension 1, i.e. index "j"; the inverse would say "k") *)
Example level_index_not_inverse :
  G.level_index ["i"; "j"; "k"]%string [1; 2; 0]%nat 0 = Some "j"%string
  /\ to_identifiable (DeTensor 0 "A" ["i"; "j"; "k"]%string)
       [("A"%string, MkFormat [Mode_dense; Mode_dense; Mode_dense] [1; 2; 0]%Z)]
     = POk (IdTensor "0_A" "A" ["j"; "k"; "i"]%string [Mode_dense; Mode_dense; Mode_dense]).
Proof. split; vm_compute; reflexivity. Qed.

(** * (b) index_dimensions *)

Definition up_td (o : G.occurrence) : string * TensorDimension :=
  (fst o, MkTensorDimension (fst (snd o)) (Z.of_nat (snd (snd o)))).

(** one round of the loops [for k, v in ...: if k not in d: d[k] = v] *)
Definition ins {V} (d : pydict string V) (kv : string * V) : pydict string V :=
  let '(k, v) := kv in if negb (dict_mem String.eqb k d) then dict_set String.eqb k v d else d.

Lemma dict_mem_keys : forall V k (d : pydict string V), dict_mem String.eqb k d = M.mem k (map fst d).
Proof.
  intros V k d. unfold dict_mem, M.mem. induction d as [|[k' v] r IH]; [reflexivity|].
  cbn [dict_get map fst existsb]. destruct (String.eqb k k'); [reflexivity | apply IH].
Qed.

Lemma dict_set_absent : forall V k (v : V) d,
  dict_mem String.eqb k d = false -> dict_set String.eqb k v d = d ++ [(k, v)].
Proof.
  intros V k v d. unfold dict_mem. induction d as [|[k' v'] r IH]; [reflexivity|].
  cbn [dict_get dict_set]. destruct (String.eqb k k'); [discriminate|].
  intros H. cbn [app]. now rewrite IH.
Qed.

Lemma mem_app1 : forall x s k, M.mem x (s ++ [k]) = M.mem x s || String.eqb x k.
Proof. intros. unfold M.mem. rewrite existsb_app. cbn. now rewrite orb_false_r. Qed.

Lemma fold_ins : forall V (l : list (string * V)) A,
  fold_left ins l A = A ++ G.first_wins (map fst A) l.
Proof.
  induction l as [|[k v] r IH]; intros A; cbn [fold_left G.first_wins]; [now rewrite app_nil_r|].
  unfold ins at 2. rewrite dict_mem_keys. destruct (M.mem k (map fst A)) eqn:Em; cbn [negb].
  - apply IH.
  - rewrite dict_set_absent by (now rewrite dict_mem_keys). rewrite IH, map_app, <- app_assoc. reflexivity.
Qed.

Lemma first_wins_app : forall V (a b : list (string * V)) s,
  G.first_wins s (a ++ b) = G.first_wins s a ++ G.first_wins (s ++ map fst (G.first_wins s a)) b.
Proof.
  induction a as [|[k v] r IH]; intros b s; cbn [app G.first_wins map].
  - now rewrite app_nil_r.
  - destruct (M.mem k s); [apply IH|]. cbn [app map fst]. rewrite IH, <- app_assoc. reflexivity.
Qed.

Lemma first_wins_idem : forall V (l : list (string * V)) S T,
  (forall x, M.mem x T = true -> M.mem x S = true) ->
  G.first_wins S (G.first_wins T l) = G.first_wins S l.
Proof.
  induction l as [|[k v] r IH]; intros S T H; cbn [G.first_wins]; [reflexivity|].
  destruct (M.mem k T) eqn:ET.
  - rewrite (H _ ET). now apply IH.
  - cbn [G.first_wins]. destruct (M.mem k S) eqn:ES.
    + apply IH. intros x. rewrite mem_app1. intros Hx. apply orb_true_iff in Hx as [Hx|Hx]; [now apply H|].
      apply String.eqb_eq in Hx. now subst.
    + f_equal. apply IH. intros x. rewrite !mem_app1. intros Hx.
      apply orb_true_iff in Hx as [Hx|Hx]; [now rewrite (H _ Hx) | rewrite Hx; apply orb_true_r].
Qed.

Lemma first_wins_map : forall V W (f : V -> W) (l : list (string * V)) s,
  G.first_wins s (map (fun kv => (fst kv, f (snd kv))) l) = map (fun kv => (fst kv, f (snd kv))) (G.first_wins s l).
Proof.
  induction l as [|[k v] r IH]; intros s; cbn [map G.first_wins fst snd]; [reflexivity|].
  destruct (M.mem k s); [apply IH|]. cbn [map fst snd]. now rewrite IH.
Qed.

Definition td_of (p : string * nat) : TensorDimension := MkTensorDimension (fst p) (Z.of_nat (snd p)).

Lemma up_td_map : forall l, map up_td l = map (fun kv => (fst kv, td_of (snd kv))) l.
Proof. reflexivity. Qed.

Lemma map_fst_up_td : forall l, map fst (map up_td l) = map fst l.
Proof. intros. rewrite map_map. reflexivity. Qed.

(** merging the dict of a right operand into the dict of a left operand *)
Lemma merge_equiv : forall ol or,
  fold_left ins (map up_td (G.first_wins [] or)) (map up_td (G.first_wins [] ol))
  = map up_td (G.first_wins [] (ol ++ or)).
Proof.
  intros ol or. rewrite fold_ins, first_wins_app, map_app, map_fst_up_td. cbn [app]. f_equal.
  rewrite !up_td_map, first_wins_map. f_equal. apply first_wins_idem. intros x Hx. discriminate.
Qed.

Lemma fold_left_ext : forall A B (f g : A -> B -> A) l a,
  (forall a x, f a x = g a x) -> fold_left f l a = fold_left g l a.
Proof. induction l as [|x r IH]; intros a H; cbn [fold_left]; [reflexivity|]. rewrite H. now apply IH. Qed.

Lemma fold_left_map' : forall A B C (f : A -> C -> A) (g : B -> C) l a,
  fold_left f (map g l) a = fold_left (fun a x => f a (g x)) l a.
Proof. induction l as [|x r IH]; intros a; cbn [map fold_left]; [reflexivity | apply IH]. Qed.

Lemma enumerate_occs : forall name idx k,
  map (fun ix : Z * string => (snd ix, MkTensorDimension name (fst ix))) (py_enumerate_from (Z.of_nat k) idx)
  = map up_td (G.occs_from name k idx).
Proof.
  induction idx as [|i r IH]; intros k; cbn [py_enumerate_from G.occs_from map]; [reflexivity|].
  f_equal. replace (Z.of_nat k + 1)%Z with (Z.of_nat (S k)) by lia. apply IH.
Qed.

Section IndexDimensions.
Variable fval : string -> F.

Theorem gen_index_dimensions_expression_equiv : forall e,
  index_dimensions_expression (up_dexpr fval e) = map up_td (G.index_dims_expr e).
Proof.
  assert (Hmerge : forall (f : pydict string TensorDimension -> string * TensorDimension -> pydict string TensorDimension) A B,
    (forall a kv, f a kv = ins a kv) -> fold_left f B A = fold_left ins B A).
  { intros f A B H. now apply fold_left_ext. }
  unfold G.index_dims_expr.
  induction e as [v|h|t|l IHl r IHr|l IHl r IHr|i x IH]; cbn [up_dexpr index_dimensions_expression G.expr_occs].
  - reflexivity.
  - reflexivity.
  - destruct t as [id name idx]. cbn [M.d_id M.d_name M.d_indexes]. unfold G.tensor_occs. cbn [M.d_name M.d_indexes].
    cbv zeta.
    transitivity (fold_left ins (map (fun ix : Z * string => (snd ix, MkTensorDimension name (fst ix))) (py_enumerate idx))
                    ([] : pydict string TensorDimension)).
    { rewrite fold_left_map'. apply fold_left_ext. intros a [i xx]. unfold ins. cbv zeta. cbn [fst snd].
      destruct (dict_mem String.eqb xx a); reflexivity. }
    unfold py_enumerate. pose proof (enumerate_occs name idx 0) as HE. cbn [Z.of_nat] in HE. rewrite HE, fold_ins. cbn [app map].
    rewrite !up_td_map. apply first_wins_map.
  - cbv zeta. rewrite Hmerge by (intros a [k v]; unfold ins; cbv zeta; destruct (dict_mem String.eqb k a); reflexivity).
    rewrite IHl, IHr. apply merge_equiv.
  - cbv zeta. rewrite Hmerge by (intros a [k v]; unfold ins; cbv zeta; destruct (dict_mem String.eqb k a); reflexivity).
    rewrite IHl, IHr. apply merge_equiv.
  - apply IH.
Qed.

(** the regenerated [index_dimensions] IS the specification: first occurrence wins, target first, then
    the right-hand side's leaves from left to right; same entries in the same order *)
Theorem gen_index_dimensions_equiv : forall a,
  index_dimensions (up_assign fval a) = map up_td (G.index_dims a).
Proof.
  intros [t e]. unfold index_dimensions, up_assign, G.index_dims, G.assign_occs.
  cbn [de_assignment_target de_assignment_expression M.a_target M.a_expr]. cbv zeta.
  rewrite !gen_index_dimensions_expression_equiv. unfold G.index_dims_expr. cbn [G.expr_occs].
  transitivity (fold_left ins (map up_td (G.first_wins [] (G.expr_occs e))) (map up_td (G.first_wins [] (G.tensor_occs t)))).
  { apply fold_left_ext. intros x [k v]. unfold ins. cbv zeta.
    destruct (dict_mem String.eqb k x); reflexivity. }
  apply merge_equiv.
Qed.
End IndexDimensions.

(** lookup characterisation: the dict maps an index to its FIRST occurrence *)
Lemma first_wins_get : forall V (l : list (string * V)) s k,
  dict_get String.eqb k (G.first_wins s l) = if M.mem k s then None else dict_get String.eqb k l.
Proof.
  induction l as [|[k' v] r IH]; intros s k; cbn [G.first_wins dict_get]; [now destruct (M.mem k s)|].
  destruct (M.mem k' s) eqn:E'.
  - rewrite IH. destruct (M.mem k s) eqn:E; [reflexivity|].
    destruct (String.eqb k k') eqn:Ek; [|reflexivity]. apply String.eqb_eq in Ek. subst. congruence.
  - cbn [dict_get]. rewrite IH, mem_app1. destruct (String.eqb k k') eqn:Ek.
    + apply String.eqb_eq in Ek. subst. now rewrite E'.
    + now rewrite orb_false_r.
Qed.

Lemma dict_get_map_val : forall V W (f : V -> W) (l : list (string * V)) k,
  dict_get String.eqb k (map (fun kv => (fst kv, f (snd kv))) l) = option_map f (dict_get String.eqb k l).
Proof.
  induction l as [|[k' v] r IH]; intros k; cbn [map dict_get fst snd]; [reflexivity|].
  destruct (String.eqb k k'); [reflexivity | apply IH].
Qed.

Lemma dict_get_app : forall V (a b : list (string * V)) k,
  dict_get String.eqb k (a ++ b) = match dict_get String.eqb k a with Some v => Some v | None => dict_get String.eqb k b end.
Proof.
  induction a as [|[k' v] r IH]; intros b k; cbn [app dict_get]; [reflexivity|].
  destruct (String.eqb k k'); [reflexivity | apply IH].
Qed.

Lemma dict_get_In : forall V (l : list (string * V)) k v, dict_get String.eqb k l = Some v -> In (k, v) l.
Proof.
  induction l as [|[k' v'] r IH]; intros k v; cbn [dict_get]; [discriminate|].
  destruct (String.eqb k k') eqn:E.
  - apply String.eqb_eq in E. subst. intros H. injection H as <-. now left.
  - intros H. right. now apply IH.
Qed.

Lemma In_dict_get : forall V (l : list (string * V)) k v, In (k, v) l -> exists v', dict_get String.eqb k l = Some v'.
Proof.
  induction l as [|[k' v'] r IH]; intros k v; [intros []|]. cbn [dict_get]. intros [H|H].
  - injection H as -> ->. rewrite String.eqb_refl. eauto.
  - destruct (String.eqb k k'); eauto.
Qed.

Section IndexDimensionsFacts.
Variable fval : string -> F.

Theorem gen_index_dimensions_first : forall a i,
  dict_get String.eqb i (index_dimensions (up_assign fval a))
  = option_map td_of (dict_get String.eqb i (G.assign_occs a)).
Proof.
  intros a i. rewrite gen_index_dimensions_equiv, up_td_map, dict_get_map_val. unfold G.index_dims.
  rewrite first_wins_get. reflexivity.
Qed.

(** the target decides: an index of the target gets a dimension OF THE TARGET *)
Theorem gen_index_dimensions_target_first : forall a i td,
  dict_get String.eqb i (G.tensor_occs (M.a_target a)) = Some td ->
  dict_get String.eqb i (index_dimensions (up_assign fval a)) = Some (td_of td).
Proof.
  intros a i td H. rewrite gen_index_dimensions_first. unfold G.assign_occs. now rewrite dict_get_app, H.
Qed.

Lemma occs_from_get : forall name idx k i,
  In i idx -> exists p, dict_get String.eqb i (G.occs_from name k idx) = Some (name, (k + p)%nat)
                        /\ nth_error idx p = Some i.
Proof.
  induction idx as [|x r IH]; intros k i; [intros []|]. cbn [G.occs_from dict_get]. intros Hin.
  destruct (String.eqb i x) eqn:E.
  - apply String.eqb_eq in E. subst. exists 0%nat. split; [now rewrite Nat.add_0_r | reflexivity].
  - destruct Hin as [->|Hin]; [now rewrite String.eqb_refl in E|].
    destruct (IH (S k) i Hin) as [p [Hg Hn]]. exists (S p). split; [now rewrite Hg, Nat.add_succ_r | exact Hn].
Qed.

Theorem gen_index_dimensions_target_index : forall a i,
  In i (M.d_indexes (M.a_target a)) ->
  exists p, nth_error (M.d_indexes (M.a_target a)) p = Some i
    /\ dict_get String.eqb i (index_dimensions (up_assign fval a))
       = Some (MkTensorDimension (M.d_name (M.a_target a)) (Z.of_nat p)).
Proof.
  intros a i Hin. destruct (occs_from_get (M.d_name (M.a_target a)) _ 0%nat i Hin) as [p [Hg Hn]].
  exists p. split; [exact Hn|]. now rewrite (gen_index_dimensions_target_first a i _ Hg).
Qed.

(** every index that occurs anywhere gets a dimension, and it is one of its occurrences *)
Theorem gen_index_dimensions_total : forall a i td,
  In (i, td) (G.assign_occs a) ->
  exists td', In (i, td') (G.assign_occs a)
    /\ dict_get String.eqb i (index_dimensions (up_assign fval a)) = Some (td_of td').
Proof.
  intros a i td Hin. destruct (In_dict_get _ _ _ _ Hin) as [td' H]. exists td'. split; [now apply dict_get_In|].
  now rewrite gen_index_dimensions_first, H.
Qed.

(** index sizes: in an environment where all occurrences of an index agree on its size (the state
    after TensorMethod.__call__'s validation, output allocated with [sizes] of the target indexes),
    the dimension the kernel reads for index [i] has size [sizes i] -- whichever occurrence decides *)
Theorem gen_index_dimensions_sizes : forall a dims sizes,
  G.consistent dims sizes (G.assign_occs a) ->
  forall i name k,
    dict_get String.eqb i (index_dimensions (up_assign fval a)) = Some (MkTensorDimension name k) ->
    exists p, k = Z.of_nat p /\ nth_error (dims name) p = Some (sizes i).
Proof.
  intros a dims sizes Hc i name k H. rewrite gen_index_dimensions_first in H.
  destruct (dict_get String.eqb i (G.assign_occs a)) as [[n p]|] eqn:E; [|discriminate].
  injection H as <- <-. exists p. split; [reflexivity|]. apply dict_get_In in E. exact (Hc _ _ E).
Qed.
End IndexDimensionsFacts.

(** a mutation that ignored the target would change this: target [y(i)], right-hand side [A(j,i)]:
    index i is decided by y (dimension 0), not by A (dimension 1) *)
Example index_dimensions_target_decides :
  index_dimensions (DeAssignment (DeTensor 0 "y" ["i"]%string)
                      (DeContract "j" (DeTensor 1 "A" ["j"; "i"]%string)))
  = [("i"%string, MkTensorDimension "y" 0); ("j"%string, MkTensorDimension "A" 0)].
Proof. vm_compute. reflexivity. Qed.

(** * best_algorithm *)

Definition first_or_refusal (g : pgen ig_graph) : pres (ig_graph + string) :=
  match g_first g with
  | POk None => POk (inr "NoKernelFoundError"%string)
  | POk (Some x) => POk (inl x)
  | PRaise e => if String.eqb e "DiagonalAccessError" then POk (inr e) else PRaise e
  end.

Theorem gen_best_algorithm_first : forall a fs,
  best_algorithm a fs = first_or_refusal (to_iteration_graphs a fs).
Proof.
  intros a fs. unfold best_algorithm, first_or_refusal.
  destruct (g_first (to_iteration_graphs a fs)) as [[g|]|e]; cbn [r_bind]; try reflexivity.
  unfold exc_is. cbn [existsb]. rewrite orb_false_r. reflexivity.
Qed.

(** against model/Graphs.v [best_of] over today's enumeration ([to_iteration_graphs_src], which
    TIE graphs proves to be what the regenerated generator yields) *)
Theorem gen_best_algorithm_equiv : forall fval a fs,
  target_fmt_ok a fs = true ->
  match M.best_of (to_iteration_graphs_src a fs) with
  | M.BGraph g => best_algorithm (up_assign fval a) (up_formats fs) = POk (inl (up_graph fval g))
  | M.BNoKernel => best_algorithm (up_assign fval a) (up_formats fs) = POk (inr "NoKernelFoundError"%string)
  | M.BDiagonal => best_algorithm (up_assign fval a) (up_formats fs) = POk (inr "DiagonalAccessError"%string)
  | M.BIllFormed => exists e, best_algorithm (up_assign fval a) (up_formats fs) = PRaise e
  end.
Proof.
  intros fval a fs Hok. rewrite gen_best_algorithm_first. pose proof (to_iteration_graphs_equiv fval a fs Hok) as R.
  unfold rel in R. destruct (to_iteration_graphs_src a fs) as [gs| |]; cbn [M.best_of].
  - rewrite R. destruct gs; reflexivity.
  - rewrite R. reflexivity.
  - destruct R as [e [-> Hne]]. exists e. unfold first_or_refusal. cbn [g_first].
    destruct (String.eqb e "DiagonalAccessError") eqn:E; [|reflexivity]. apply String.eqb_eq in E. contradiction.
Qed.

(** * (d) KernelType *)

Definition kind_of (k : KernelType) : O.kind :=
  match k with
  | KernelType_assemble => O.Assemble
  | KernelType_compute => O.Compute
  | KernelType_evaluate => O.Evaluate
  end.

Definition append_kind_of (k : KernelType) : AG.KernelType :=
  match k with
  | KernelType_assemble => AG.KernelType_assemble
  | KernelType_compute => AG.KernelType_compute
  | KernelType_evaluate => AG.KernelType_evaluate
  end.

Theorem gen_kernel_type_truth_table :
  map (fun k => (KernelType_value k, KernelType_is_assemble k, KernelType_is_compute k)) KernelType_all
  = [("assemble", true, false); ("compute", false, true); ("evaluate", true, true)]%string.
Proof. reflexivity. Qed.

Theorem gen_kernel_type_equiv : forall k,
  KernelType_is_assemble k = O.is_assemble (kind_of k) /\ KernelType_is_compute k = O.is_compute (kind_of k)
  /\ KernelType_is_assemble k = AG.KernelType_is_assemble (append_kind_of k)
  /\ KernelType_is_compute k = AG.KernelType_is_compute (append_kind_of k).
Proof. intros []; repeat split; reflexivity. Qed.

Theorem gen_kernel_type_bijection :
  (forall a b, kind_of a = kind_of b -> a = b) /\ (forall k', exists k, kind_of k = k')
  /\ (forall k, In k KernelType_all) /\ NoDup KernelType_all
  /\ (forall a b, KernelType_eqb a b = true <-> a = b).
Proof.
  repeat split.
  - intros [] []; intros H; try reflexivity; discriminate.
  - intros []; [exists KernelType_assemble | exists KernelType_compute | exists KernelType_evaluate]; reflexivity.
  - intros []; cbn; auto.
  - repeat constructor; cbn; intuition discriminate.
  - destruct a, b; cbn; intros H; try reflexivity; discriminate.
  - intros ->. destruct b; reflexivity.
Qed.

(** * (c) generate_module_tensora: ONE definition and ONE graph per problem *)

Section Generate.
Variable ord : Z -> list string -> list string.
Variable fuel : nat.

(** what is computed from the problem ALONE (no kernel kind, no generate_ir in sight) *)
Definition plan_of (d : option de_assignment) (formats : pydict string Format)
  : pres ((IgDefinition * ig_graph) + string) :=
  r_bind (r_of_opt "Exception" d) (fun desugar =>
  r_bind (to_identifiable (de_assignment_target desugar) formats) (fun output_variable =>
  r_bind (best_algorithm desugar formats) (fun b =>
  POk (match b with
       | inl graph => inl (MkDefinition output_variable formats (index_dimensions desugar), graph)
       | inr e => inr e
       end)))).

Definition module_plan (p : Problem) : pres ((IgDefinition * ig_graph) + string) :=
  plan_of (desugar_assignment ord fuel (Problem_assignment p)) (Problem_formats p).

Section WithGenerateIr.
Variable generate_ir : IgDefinition -> ig_graph -> KernelType -> pres function_definition.

(** the regenerated function: the plan, then [generate_ir definition graph] MAPPED over the requested
    kinds in the order given, then peephole; a Failure of the plan is passed through *)
Theorem gen_module_one_plan : forall p ks,
  generate_module_tensora ord fuel generate_ir p ks =
  r_bind (module_plan p) (fun pl =>
    match pl with
    | inr e => POk (inr e)
    | inl (definition, graph) =>
        r_bind (r_map (generate_ir definition graph) ks) (fun fs => POk (inl (peephole (IRModule fs))))
    end).
Proof.
  intros p ks. unfold generate_module_tensora, module_plan, plan_of. cbv zeta.
  destruct (desugar_assignment ord fuel (Problem_assignment p)) as [d|]; cbn [r_of_opt r_bind]; [|reflexivity].
  destruct (to_identifiable (de_assignment_target d) (Problem_formats p)) as [ov|e]; cbn [r_bind]; [|reflexivity].
  destruct (best_algorithm d (Problem_formats p)) as [[g|e]|e]; cbn [r_bind]; reflexivity.
Qed.

Lemma r_map_Forall2 : forall A B (f : A -> pres B) l ys,
  r_map f l = POk ys -> Forall2 (fun x y => f x = POk y) l ys.
Proof.
  induction l as [|x r IH]; intros ys H.
  - cbn in H. injection H as <-. constructor.
  - rewrite r_map_cons in H. destruct (f x) as [y|] eqn:Ex; [|discriminate].
    destruct (r_map f r) as [ys'|] eqn:Er; [|discriminate]. injection H as <-. constructor; auto.
Qed.

(** C04's anchor: every function of the module comes from the SAME (definition, graph), one per
    requested kind, in the order requested (no sorting, no de-duplication) *)
Theorem gen_module_same_graph_for_all_kinds : forall p ks m,
  generate_module_tensora ord fuel generate_ir p ks = POk (inl m) ->
  exists definition graph fs,
    module_plan p = POk (inl (definition, graph))
    /\ Forall2 (fun k f => generate_ir definition graph k = POk f) ks fs
    /\ m = IRModule (map peephole_function_definition fs).
Proof.
  intros p ks m H. rewrite gen_module_one_plan in H.
  destruct (module_plan p) as [[[d g]|e]|e]; cbn [r_bind] in H; try discriminate.
  destruct (r_map (generate_ir d g) ks) as [fs|e] eqn:Er; cbn [r_bind] in H; [|discriminate].
  injection H as <-. exists d, g, fs. split; [reflexivity|]. split; [now apply r_map_Forall2 | reflexivity].
Qed.

(** in particular for the three kinds of one problem (the premise of props/CERT_kinds.v) *)
Corollary gen_module_three_kinds : forall p fe fa fc,
  generate_module_tensora ord fuel generate_ir p [KernelType_evaluate; KernelType_assemble; KernelType_compute]
  = POk (inl (IRModule [fe; fa; fc])) ->
  exists definition graph fe' fa' fc',
    module_plan p = POk (inl (definition, graph))
    /\ generate_ir definition graph KernelType_evaluate = POk fe' /\ fe = peephole_function_definition fe'
    /\ generate_ir definition graph KernelType_assemble = POk fa' /\ fa = peephole_function_definition fa'
    /\ generate_ir definition graph KernelType_compute = POk fc' /\ fc = peephole_function_definition fc'.
Proof.
  intros p fe fa fc H. destruct (gen_module_same_graph_for_all_kinds _ _ _ H) as [d [g [fs [Hp [HF Hm]]]]].
  inversion HF as [|k1 f1 l1 l1' H1 HF1]; subst. inversion HF1 as [|k2 f2 l2 l2' H2 HF2]; subst.
  inversion HF2 as [|k3 f3 l3 l3' H3 HF3]; subst. inversion HF3; subst.
  cbn [map] in Hm. injection Hm as -> -> ->. exists d, g, f1, f2, f3. auto 10.
Qed.

(** refusals and exceptions of the plan do not depend on the kinds requested *)
Theorem gen_module_failure_independent_of_kinds : forall p ks e,
  module_plan p = POk (inr e) -> generate_module_tensora ord fuel generate_ir p ks = POk (inr e).
Proof. intros p ks e H. now rewrite gen_module_one_plan, H. Qed.

Theorem gen_module_exception_independent_of_kinds : forall p ks e,
  module_plan p = PRaise e -> generate_module_tensora ord fuel generate_ir p ks = PRaise e.
Proof. intros p ks e H. now rewrite gen_module_one_plan, H. Qed.

(** ... and a refusal can only come from the plan: [generate_ir] never produces a Failure *)
Theorem gen_module_failure_only_from_plan : forall p ks e,
  generate_module_tensora ord fuel generate_ir p ks = POk (inr e) -> module_plan p = POk (inr e).
Proof.
  intros p ks e H. rewrite gen_module_one_plan in H.
  destruct (module_plan p) as [[[d g]|e']|e']; cbn [r_bind] in H; try discriminate.
  - destruct (r_map (generate_ir d g) ks); cbn [r_bind] in H; discriminate.
  - now injection H as ->.
Qed.
End WithGenerateIr.

(** with a generator that does not raise: the module IS the map, in order *)
Theorem gen_module_map : forall (gir : IgDefinition -> ig_graph -> KernelType -> function_definition) p ks d g,
  module_plan p = POk (inl (d, g)) ->
  generate_module_tensora ord fuel (fun d g k => POk (gir d g k)) p ks
  = POk (inl (IRModule (map (fun k => peephole_function_definition (gir d g k)) ks))).
Proof.
  intros gir p ks d g H. rewrite gen_module_one_plan, H. cbn [r_bind].
  rewrite (r_map_ok _ _ _ (gir d g)) by reflexivity. cbn [r_bind peephole]. now rewrite map_map.
Qed.
End Generate.

(** "pure function of the request" for this layer: the only thing besides (problem, kinds) and the
    IR generator that the result can depend on is what the desugarer returned (set iteration order:
    C15's theorem is that the desugared tree does not depend on it up to what matters) *)
Theorem gen_module_depends_only_on_request : forall ord fuel ord' fuel' gir p ks,
  desugar_assignment ord fuel (Problem_assignment p) = desugar_assignment ord' fuel' (Problem_assignment p) ->
  generate_module_tensora ord fuel gir p ks = generate_module_tensora ord' fuel' gir p ks.
Proof. intros. rewrite !gen_module_one_plan. unfold module_plan. now rewrite H. Qed.

(** * generate_code *)
Theorem gen_generate_code_spec : forall gm c l p ks lang,
  generate_code gm c l p ks lang =
  r_bind (gm p ks) (fun r =>
    match r with
    | inr e => POk (inr e)
    | inl md => r_bind (match lang with Language_c => c md | Language_llvm => l md end) (fun s => POk (inl s))
    end).
Proof.
  intros. unfold generate_code. destruct (gm p ks) as [[md|e]|e]; cbn [r_bind]; try reflexivity.
  destruct lang; reflexivity.
Qed.

Theorem gen_generate_code_failure_passed : forall gm c l p ks lang e,
  gm p ks = POk (inr e) -> generate_code gm c l p ks lang = POk (inr e).
Proof. intros. now rewrite gen_generate_code_spec, H. Qed.

Theorem gen_language_all : (forall x, In x Language_all) /\ map Language_value Language_all = ["c"; "llvm"]%string.
Proof. split; [intros []; cbn; auto | reflexivity]. Qed.

(** * cli.py *)
Section Cli.
Variable parse_assignment : string -> ex_assignment + string.
Variable parse_named_format : string -> (string * Format) + string.
Variable make_problem : ex_assignment -> pydict string Format -> pres (Problem + string).
Variable generate_code : Problem -> list KernelType -> Language -> pres (string + string).

(** the [--format] options: parsed in the order given, a repeated tensor name ends the run *)
Fixpoint cli_formats (strs : list string) (acc : pydict string Format) : pres (pydict string Format) :=
  match strs with
  | [] => POk acc
  | s :: r =>
      match parse_named_format s with
      | inr _ => PRaise "Exit(1)"
      | inl (t, f) => if M.mem t (map fst acc) then PRaise "Exit(1)" else cli_formats r (acc ++ [(t, f)])
      end
  end.

Theorem gen_cli_spec : forall a strs ks lang,
  cli_tensora parse_assignment parse_named_format make_problem generate_code a strs ks lang =
  match parse_assignment a with
  | inr _ => PRaise "Exit(1)"
  | inl pa =>
      r_bind (cli_formats strs []) (fun fmts =>
      r_bind (make_problem pa fmts) (fun mp =>
      match mp with
      | inr _ => PRaise "Exit(1)"
      | inl problem =>
          r_bind (generate_code problem ks lang) (fun c =>
          match c with inl code => POk code | inr _ => PRaise "Exit(1)" end)
      end))
  end.
Proof.
  intros a strs ks lang. unfold cli_tensora. destruct (parse_assignment a) as [pa|e]; [|reflexivity]. cbv zeta.
  match goal with |- r_bind (r_fold ?body strs ?acc0) ?k = _ =>
    assert (HF : forall l acc, r_fold body l acc = cli_formats l acc) end.
  { induction l as [|s r IH]; intros acc; [reflexivity|]. rewrite r_fold_cons. cbn [cli_formats].
    destruct (parse_named_format s) as [[t f]|e].
    - rewrite dict_mem_keys. destruct (M.mem t (map fst acc)) eqn:Em; [reflexivity|].
      rewrite dict_set_absent by (now rewrite dict_mem_keys). apply IH.
    - destruct (exc_is ["ParseError"%string] e); reflexivity. }
  rewrite HF. destruct (cli_formats strs []) as [fmts|e]; cbn [r_bind]; [|reflexivity].
  destruct (make_problem pa fmts) as [[problem|e]|e]; reflexivity.
Qed.

Lemma cli_formats_ok : forall strs tfs acc,
  map parse_named_format strs = map inl tfs -> NoDup (map fst (acc ++ tfs)) ->
  cli_formats strs acc = POk (acc ++ tfs).
Proof.
  induction strs as [|s r IH]; intros [|[t f] tfs] acc Hm Hnd; try discriminate; cbn [cli_formats].
  - now rewrite app_nil_r.
  - cbn [map] in Hm. injection Hm as Hs Hr. rewrite Hs.
    assert (M.mem t (map fst acc) = false) as ->.
    { destruct (M.mem t (map fst acc)) eqn:E; [|reflexivity]. exfalso. unfold M.mem in E.
      apply existsb_exists in E as [x [Hx Hex]]. apply String.eqb_eq in Hex. subst x.
      rewrite map_app in Hnd. cbn [map fst] in Hnd. apply NoDup_remove_2 in Hnd. apply Hnd, in_or_app. now left. }
    replace (acc ++ (t, f) :: tfs) with ((acc ++ [(t, f)]) ++ tfs) in * by (now rewrite <- app_assoc).
    now apply IH.
Qed.

(** the request that reaches the generator: the formats mentioned, in the order given (everything else is
    [make_problem]'s: unmentioned tensors dense -- TIE problem), the kinds EXACTLY as given (order and
    repetitions kept) and the language as given *)
Theorem gen_cli_request : forall a pa strs tfs ks lang,
  parse_assignment a = inl pa ->
  map parse_named_format strs = map inl tfs -> NoDup (map fst tfs) ->
  cli_tensora parse_assignment parse_named_format make_problem generate_code a strs ks lang =
  r_bind (make_problem pa tfs) (fun mp =>
    match mp with
    | inr _ => PRaise "Exit(1)"
    | inl problem =>
        r_bind (generate_code problem ks lang) (fun c =>
        match c with inl code => POk code | inr _ => PRaise "Exit(1)" end)
    end).
Proof.
  intros a pa strs tfs ks lang Ha Hs Hnd. rewrite gen_cli_spec, Ha, (cli_formats_ok strs tfs []) by assumption.
  reflexivity.
Qed.
End Cli.

Theorem gen_cli_defaults :
  cli_default_kernel_types = [KernelType_compute] /\ cli_default_language = Language_c
  /\ cli_default_format_strings = []
  /\ cli_flags_kernel_types = ["--type"; "-t"]%string /\ cli_flags_language = ["--language"; "-l"]%string
  /\ cli_flags_target_format_strings = ["--format"; "-f"]%string.
Proof. repeat split. Qed.
