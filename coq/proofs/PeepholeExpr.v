(** Soundness of the optimiser on expressions, against the IR abstract machine.

    [peephole_expression] / [peephole_assignable] are the GENERATED definitions (gen/Peephole.v,
    regenerated from /repo/src/tensora/ir/_peephole.py on every run). *)

From Coq Require Import ZArith Bool List String Lia.
From Flocq Require Import Core BinarySingleNaN.
From TV Require Import spec.Num gen.IRAst gen.Peephole spec.IRSem proofs.NumLemmas.
Import ListNotations.
Open Scope Z_scope.

Global Arguments Z2F : simpl never.
Global Arguments fcanon : simpl never.
Global Arguments fadd : simpl never.
Global Arguments fsub : simpl never.
Global Arguments fmul : simpl never.
Global Arguments chk32 : simpl never.
Global Arguments chkfin : simpl never.
Global Arguments cZ2F : simpl never.

(** * Sub-sequences of event traces: "performs no access the original did not" *)

Inductive sub {A} : list A -> list A -> Prop :=
  | sub_nil : sub [] []
  | sub_skip x l l' : sub l l' -> sub l (x :: l')
  | sub_keep x l l' : sub l l' -> sub (x :: l) (x :: l').

Lemma sub_refl {A} (l : list A) : sub l l.
Proof. induction l; [apply sub_nil | apply sub_keep; auto]. Qed.

Lemma sub_nil_l {A} (l : list A) : sub [] l.
Proof. induction l; [apply sub_nil | apply sub_skip; auto]. Qed.

Lemma sub_app {A} (a a' b b' : list A) : sub a a' -> sub b b' -> sub (a ++ b) (a' ++ b').
Proof. induction 1; simpl; intros; auto; [apply sub_skip | apply sub_keep]; auto. Qed.

Lemma sub_app_l {A} (a b : list A) : sub a (a ++ b).
Proof. rewrite <- (app_nil_r a) at 1. apply sub_app. apply sub_refl. apply sub_nil_l. Qed.

Lemma sub_app_r {A} (a b : list A) : sub b (a ++ b).
Proof. change b with ([] ++ b) at 1. apply sub_app. apply sub_nil_l. apply sub_refl. Qed.

Lemma sub_trans {A} (a b c : list A) : sub a b -> sub b c -> sub a c.
Proof.
  intros H1 H2. revert a H1. induction H2; intros a H1.
  - exact H1.
  - apply sub_skip. auto.
  - inversion H1; subst.
    + apply sub_skip. auto.
    + apply sub_keep. auto.
Qed.

Lemma sub_l_app {A} (a b c : list A) : sub a b -> sub a (b ++ c).
Proof. intros. eapply sub_trans. eassumption. apply sub_app_l. Qed.

Lemma sub_r_app {A} (a b c : list A) : sub a c -> sub a (b ++ c).
Proof. intros. eapply sub_trans. eassumption. apply sub_app_r. Qed.

Global Hint Resolve sub_refl sub_nil_l sub_app sub_app_l sub_app_r sub_l_app sub_r_app : subdb.

(** * Values: the optimised value is the original one, or the int32 whose conversion it is *)

Definition vle (v' v : value) : Prop :=
  v' = v \/ exists z, v' = VInt z /\ v = VFloat (cZ2F z) /\ in_int32 z = true.

Definition is_float (v : value) : Prop := match v with VFloat _ => True | _ => False end.

Definition wfv (v : value) : Prop :=
  match v with
  | VInt z => in_int32 z = true
  | VFloat f => is_canon f = true
  | _ => True
  end.

Lemma vle_refl v : vle v v. Proof. now left. Qed.

Lemma vle_nonfloat v' v : vle v' v -> ~ is_float v -> v' = v.
Proof. intros [H | (z & _ & -> & _)] N; auto. exfalso. apply N. exact I. Qed.

Lemma vle_trans a b c : vle a b -> vle b c -> vle a c.
Proof.
  intros [-> | (z & -> & -> & Hz)] H2; auto.
  destruct H2 as [<- | (z' & E & _)]; [right; eauto | discriminate].
Qed.

Lemma vle_wfv v' v : vle v' v -> wfv v -> wfv v'.
Proof. intros [-> | (z & -> & -> & Hz)] H; auto. Qed.

(** the relation between the optimised and the original evaluation *)
Definition erel (r' r : res (value * list event)) : Prop :=
  match r with
  | Ok (v, t) =>
      (exists v' t', r' = Ok (v', t') /\ vle v' v /\ sub t' t)
      \/ (is_float v /\ r' = Err EOverflow)
  | Err _ => True
  end.

Lemma erel_refl r : erel r r.
Proof. destruct r as [[v t]|]; simpl; auto. left. exists v, t. auto using vle_refl, sub_refl. Qed.

(** * Well-formed values come out of [eval] *)

Lemma chk32_Ok z z' : chk32 z = Ok z' -> z' = z /\ in_int32 z = true.
Proof. unfold chk32. destruct (in_int32 z) eqn:E; intros H; inversion H; auto. Qed.

Lemma typed_wfv t v : typed t v = true -> wfv v.
Proof. destruct t as [| | | | |t'| |], v; simpl; try discriminate; auto; destruct t'; discriminate. Qed.

Lemma bin2_inv op ra rb v t :
  bin2 op ra rb = Ok (v, t) ->
  exists a t1 b t2, ra = Ok (a, t1) /\ rb = Ok (b, t2) /\ op a b = Ok v /\ t = t1 ++ t2.
Proof.
  unfold bin2, bind. destruct ra as [[a t1]|]; try discriminate.
  destruct rb as [[b t2]|]; try discriminate.
  destruct (op a b) eqn:E; try discriminate.
  intros H; inversion H; subst. eauto 10.
Qed.

Lemma arith_wfv iop fop ptr a b v :
  (forall x y r, fop x y = Ok r -> is_canon r = true) ->
  arith iop fop ptr a b = Ok v -> wfv v.
Proof.
  intros Hf. unfold arith, bind.
  destruct a, b; try discriminate.
  - destruct (chk32 _) eqn:E; try discriminate. intros H; inversion H; subst.
    apply chk32_Ok in E. destruct E as [-> E]. exact E.
  - destruct (fop _ _) eqn:E; try discriminate. intros H; inversion H; subst. simpl; eauto.
  - destruct (fop _ _) eqn:E; try discriminate. intros H; inversion H; subst. simpl; eauto.
  - destruct (fop _ _) eqn:E; try discriminate. intros H; inversion H; subst. simpl; eauto.
  - destruct ptr; try discriminate. intros H; inversion H; subst. exact I.
Qed.

Lemma fop_canon_add x y r : fadd x y = Ok r -> is_canon r = true.
Proof. apply chkfin_Ok. Qed.
Lemma fop_canon_sub x y r : fsub x y = Ok r -> is_canon r = true.
Proof. apply chkfin_Ok. Qed.
Lemma fop_canon_mul x y r : fmul x y = Ok r -> is_canon r = true.
Proof. apply chkfin_Ok. Qed.

Lemma load_wfv st blk off v : load st blk off = Ok v -> wfv v.
Proof.
  unfold load. destruct (PM.find blk (heap st)); try discriminate.
  destruct (negb _); try discriminate. destruct (_ || _); try discriminate.
  destruct (PM.find _ _); try discriminate.
  destruct (typed _ v0) eqn:E; try discriminate. intros H; inversion H; subst.
  eapply typed_wfv; eauto.
Qed.

Lemma is_ptr_wfv v : is_ptr v = true -> wfv v.
Proof. destruct v; simpl; try discriminate; auto. Qed.

Lemma index_value_wfv st v i r t : index_value st v i = Ok (r, t) -> wfv r.
Proof.
  unfold index_value, bind. destruct v, i; try discriminate.
  - destruct (load _ _ _) eqn:E; try discriminate. intros H; inversion H; subst.
    eapply load_wfv; eauto.
  - destruct (tensor_of _ _); try discriminate. destruct (nthZ_opt _ _); try discriminate.
    destruct (chk32 _) eqn:E; try discriminate. intros H; inversion H; subst.
    apply chk32_Ok in E. destruct E as [-> E]. exact E.
  - intros H; inversion H; subst. exact I.
  - destruct (tensor_of _ _); try discriminate. destruct (nthZ_opt _ _) as [[p c]|]; try discriminate.
    destruct (is_ptr p && is_ptr c) eqn:E; simpl; try discriminate.
    apply andb_prop in E. destruct E as [Ep Ec].
    destruct (z =? 0); [intros H; inversion H; subst; now apply is_ptr_wfv|].
    destruct (z =? 1); [intros H; inversion H; subst; now apply is_ptr_wfv|discriminate].
Qed.

Lemma attribute_value_wfv st v a r : attribute_value st v a = Ok r -> wfv r.
Proof.
  unfold attribute_value, bind. destruct v; try discriminate.
  destruct (String.eqb a "dimensions"); [intros H; inversion H; exact I|].
  destruct (String.eqb a "indices"); [intros H; inversion H; exact I|].
  destruct (String.eqb a "vals"); try discriminate.
  destruct (tensor_of _ _); try discriminate.
  destruct (is_ptr _) eqn:E; try discriminate. intros H; inversion H; subst. now apply is_ptr_wfv.
Qed.

Ltac inv H := inversion H; subst; clear H.

Lemma cmp_inv op a b v : cmp op a b = Ok v -> exists x y, a = VInt x /\ b = VInt y /\ v = VBool (op x y).
Proof. destruct a, b; simpl; try discriminate. intros H; inv H. eauto. Qed.

Lemma sel_inv op a b v : sel op a b = Ok v ->
  exists x y, a = VInt x /\ b = VInt y /\ v = VInt (if op x y then x else y).
Proof. destruct a, b; simpl; try discriminate. intros H; inv H. eauto. Qed.

Lemma as_bool_inv v b : as_bool v = Ok b -> v = VBool b.
Proof. destruct v; simpl; try discriminate. intros H; inv H. auto. Qed.

Lemma eval_wfv st e : forall v t, eval st e = Ok (v, t) -> wfv v.
Proof.
  induction e as [x | tgt IHt attr | tgt IHt idx IHi | z | f | b
    | l IHl r IHr | l IHl r IHr | l IHl r IHr
    | l IHl r IHr | l IHl r IHr | l IHl r IHr | l IHl r IHr | l IHl r IHr | l IHl r IHr
    | l IHl r IHr | l IHl r IHr | l IHl r IHr | l IHl r IHr
    | x IHx | ty n IHn | old IHo ty n IHn]; intros v t H; simpl in H; unfold bind in H.
  - destruct (lookup x (env st)) as [[ty [x0|]]|]; try discriminate.
    destruct (typed ty x0) eqn:E; try discriminate. inv H. eapply typed_wfv; eauto.
  - destruct (eval st tgt) as [[x t1]|]; try discriminate.
    destruct (attribute_value st x attr) eqn:E; try discriminate. inv H.
    eapply attribute_value_wfv; eauto.
  - destruct (eval st tgt) as [[x t1]|]; try discriminate.
    destruct (eval st idx) as [[y t2]|]; try discriminate.
    destruct (index_value st x y) as [[r t3]|] eqn:E; try discriminate. inv H.
    eapply index_value_wfv; eauto.
  - destruct (chk32 z) eqn:E; try discriminate. inv H. apply chk32_Ok in E. destruct E as [-> E]. exact E.
  - destruct (chkfin f) eqn:E; try discriminate. inv H. simpl. eapply chkfin_Ok; eauto.
  - inv H. exact I.
  - apply bin2_inv in H. destruct H as (a & t1 & b & t2 & _ & _ & H & _).
    eapply arith_wfv; [apply fop_canon_add|eauto].
  - apply bin2_inv in H. destruct H as (a & t1 & b & t2 & _ & _ & H & _).
    eapply arith_wfv; [apply fop_canon_sub|eauto].
  - apply bin2_inv in H. destruct H as (a & t1 & b & t2 & _ & _ & H & _).
    eapply arith_wfv; [apply fop_canon_mul|eauto].
  - apply bin2_inv in H. destruct H as (a & t1 & b & t2 & _ & _ & H & _).
    apply cmp_inv in H. destruct H as (x & y & _ & _ & ->). exact I.
  - apply bin2_inv in H. destruct H as (a & t1 & b & t2 & _ & _ & H & _).
    apply cmp_inv in H. destruct H as (x & y & _ & _ & ->). exact I.
  - apply bin2_inv in H. destruct H as (a & t1 & b & t2 & _ & _ & H & _).
    apply cmp_inv in H. destruct H as (x & y & _ & _ & ->). exact I.
  - apply bin2_inv in H. destruct H as (a & t1 & b & t2 & _ & _ & H & _).
    apply cmp_inv in H. destruct H as (x & y & _ & _ & ->). exact I.
  - apply bin2_inv in H. destruct H as (a & t1 & b & t2 & _ & _ & H & _).
    apply cmp_inv in H. destruct H as (x & y & _ & _ & ->). exact I.
  - apply bin2_inv in H. destruct H as (a & t1 & b & t2 & _ & _ & H & _).
    apply cmp_inv in H. destruct H as (x & y & _ & _ & ->). exact I.
  - destruct (eval st l) as [[x t1]|]; try discriminate.
    destruct (as_bool x) as [[|]|]; try discriminate.
    + destruct (eval st r) as [[y t2]|]; try discriminate.
      destruct (as_bool y); try discriminate. inv H. exact I.
    + inv H. exact I.
  - destruct (eval st l) as [[x t1]|]; try discriminate.
    destruct (as_bool x) as [[|]|]; try discriminate.
    + inv H. exact I.
    + destruct (eval st r) as [[y t2]|]; try discriminate.
      destruct (as_bool y); try discriminate. inv H. exact I.
  - apply bin2_inv in H. destruct H as (a & t1 & b & t2 & Ha & Hb & H & _).
    apply sel_inv in H. destruct H as (x & y & -> & -> & ->).
    apply IHl in Ha. apply IHr in Hb. simpl in *. destruct (Z.gtb x y); auto.
  - apply bin2_inv in H. destruct H as (a & t1 & b & t2 & Ha & Hb & H & _).
    apply sel_inv in H. destruct H as (x & y & -> & -> & ->).
    apply IHl in Ha. apply IHr in Hb. simpl in *. destruct (Z.ltb x y); auto.
  - destruct (eval st x) as [[x0 t1]|]; try discriminate.
    destruct (as_bool x0) as [[|]|]; try discriminate; inv H; reflexivity.
  - discriminate.
  - discriminate.
Qed.

(** * Python's == between IR trees *)

Lemma ty_eqb_eq a : forall b, ty_eqb a b = true -> a = b.
Proof.
  induction a; destruct b; simpl; try discriminate; auto.
  - intros H. f_equal. auto.
  - intros H. f_equal. auto.
  - intros H. apply andb_prop in H. destruct H as [H1 H2]. apply Z.eqb_eq in H2. f_equal; auto.
Qed.

Lemma eqb_IntegerLiteral e z : expr_eqb e (IntegerLiteral z) = true -> e = IntegerLiteral z.
Proof. destruct e; simpl; try discriminate. intros H. apply Z.eqb_eq in H. congruence. Qed.

Lemma eqb_BooleanLiteral e b : expr_eqb e (BooleanLiteral b) = true -> e = BooleanLiteral b.
Proof. destruct e; simpl; try discriminate. intros H. apply Bool.eqb_prop in H. congruence. Qed.

Lemma eqb_FloatLiteral e g : expr_eqb e (FloatLiteral g) = true ->
  exists f, e = FloatLiteral f /\ Feqb f g = true.
Proof. destruct e; simpl; try discriminate. eauto. Qed.

(** equal trees evaluate identically (floats compare numerically, but a literal's machine value is
    its canonical form) *)
Lemma expr_eqb_eval st a : forall b, expr_eqb a b = true -> eval st a = eval st b.
Proof.
  induction a as [x | tgt IHt attr | tgt IHt idx IHi | z | f | b0
    | l IHl r IHr | l IHl r IHr | l IHl r IHr
    | l IHl r IHr | l IHl r IHr | l IHl r IHr | l IHl r IHr | l IHl r IHr | l IHl r IHr
    | l IHl r IHr | l IHl r IHr | l IHl r IHr | l IHl r IHr
    | x IHx | ty n IHn | old IHo ty n IHn];
  intros b; destruct b; simpl; try discriminate; intros H;
  repeat match goal with
         | H : _ && _ = true |- _ => apply andb_prop in H; destruct H
         end;
  try (erewrite IHl by eassumption); try (erewrite IHr by eassumption);
  try (erewrite IHt by eassumption); try (erewrite IHi by eassumption);
  try (erewrite IHx by eassumption); auto.
  - apply String.eqb_eq in H. now subst.
  - apply String.eqb_eq in H0. now subst.
  - apply Z.eqb_eq in H. now subst.
  - now rewrite (Feqb_chkfin _ _ H).
  - apply Bool.eqb_prop in H. now subst.
Qed.

(** * Arithmetic *)

Lemma is_float_dec v : {is_float v} + {~ is_float v}.
Proof. destruct v; simpl; auto. Qed.

Section ARITH.
  Variable iop : Z -> Z -> Z.
  Variable fop : F -> F -> res F.
  Variable ptr : bool.
  Hypothesis Hexact : forall x y, in_int32 x = true -> in_int32 y = true -> in_int32 (iop x y) = true ->
    fop (cZ2F x) (cZ2F y) = Ok (cZ2F (iop x y)).

  Lemma arith_float_l a b v : arith iop fop ptr a b = Ok v -> is_float a -> is_float v.
  Proof.
    destruct a; simpl; try tauto. intros H _. unfold bind in H.
    destruct b; try discriminate; destruct (fop _ _); try discriminate; inv H; exact I.
  Qed.

  Lemma arith_float_r a b v : arith iop fop ptr a b = Ok v -> is_float b -> is_float v.
  Proof.
    destruct b; simpl; try tauto. intros H _. unfold arith, bind in H.
    destruct a; try discriminate; destruct (fop _ _); try discriminate; inv H; exact I.
  Qed.

  Lemma demoted_int_op x y r :
    in_int32 x = true -> in_int32 y = true -> fop (cZ2F x) (cZ2F y) = Ok r ->
    (exists v', (do z <- chk32 (iop x y); Ok (VInt z)) = Ok v' /\ vle v' (VFloat r))
    \/ (do z <- chk32 (iop x y); Ok (VInt z)) = Err (A:=value) EOverflow.
  Proof.
    intros Hx Hy E. unfold bind, chk32. destruct (in_int32 (iop x y)) eqn:R.
    - left. eexists; split; eauto. right. exists (iop x y). repeat split; auto.
      rewrite (Hexact x y Hx Hy R) in E. congruence.
    - now right.
  Qed.

  Lemma arith_congr a' a b' b v :
    wfv a -> wfv b ->
    vle a' a -> vle b' b -> arith iop fop ptr a b = Ok v ->
    (exists v', arith iop fop ptr a' b' = Ok v' /\ vle v' v)
    \/ (is_float v /\ arith iop fop ptr a' b' = Err EOverflow).
  Proof.
    intros Wa Wb [-> | (x & -> & -> & Hx)] [-> | (y & -> & -> & Hy)] H.
    - left. eexists; split; eauto using vle_refl.
    - (* right operand demoted *)
      destruct a as [x| g | | | | | | |]; try discriminate.
      + simpl in H. unfold bind in H. fold (cZ2F x) in H.
        destruct (fop (cZ2F x) (cZ2F y)) as [r|] eqn:E; try discriminate. inv H.
        simpl in Wa. destruct (demoted_int_op x y r Wa Hy E) as [(v' & E1 & V)|E1].
        * left. exists v'. split; auto.
        * right. split; [exact I|exact E1].
      + simpl in H. unfold bind in H.
        left. simpl. unfold bind. fold (cZ2F y).
        destruct (fop g (cZ2F y)) as [r|] eqn:E; try discriminate. inv H.
        eexists; split; eauto using vle_refl.
    - (* left operand demoted *)
      destruct b as [y| g | | | | | | |]; try discriminate.
      + simpl in H. unfold bind in H. fold (cZ2F y) in H.
        destruct (fop (cZ2F x) (cZ2F y)) as [r|] eqn:E; try discriminate. inv H.
        simpl in Wb. destruct (demoted_int_op x y r Hx Wb E) as [(v' & E1 & V)|E1].
        * left. exists v'. split; auto.
        * right. split; [exact I|exact E1].
      + simpl in H. unfold bind in H.
        left. simpl. unfold bind. fold (cZ2F x).
        destruct (fop (cZ2F x) g) as [r|] eqn:E; try discriminate. inv H.
        eexists; split; eauto using vle_refl.
    - (* both demoted *)
      simpl in H. unfold bind in H.
      destruct (fop (cZ2F x) (cZ2F y)) as [r|] eqn:E; try discriminate. inv H.
      destruct (demoted_int_op x y r Hx Hy E) as [(v' & E1 & V)|E1].
      + left. exists v'. split; auto.
      + right. split; [exact I|exact E1].
  Qed.
End ARITH.

(** * The rewrite rules, semantically *)

Definition zero_like (v : value) : Prop := v = VInt 0 \/ v = VFloat F0.
Definition one_like (v : value) : Prop := v = VInt 1 \/ v = VFloat F1.

Lemma vle_zero_like a' a : zero_like a' -> vle a' a -> zero_like a.
Proof.
  intros [-> | ->] [<- | (z & E & -> & _)]; unfold zero_like; auto; inv E. right. reflexivity.
Qed.

Lemma vle_one_like a' a : one_like a' -> vle a' a -> one_like a.
Proof.
  intros [-> | ->] [<- | (z & E & -> & _)]; unfold one_like; auto; inv E. right. reflexivity.
Qed.

Ltac arith_cases H :=
  unfold arith, bind in H;
  repeat match type of H with
         | context [chk32 ?z] => let E := fresh "E" in destruct (chk32 z) eqn:E; try discriminate
         end.

Lemma chk32_in z : in_int32 z = true -> chk32 z = Ok z.
Proof. unfold chk32. now intros ->. Qed.

Lemma add_zero_l a b v : zero_like a -> wfv b -> arith Z.add fadd true a b = Ok v -> vle b v.
Proof.
  intros [-> | ->] Wb H; destruct b as [y|g| | | | | | |]; simpl in H; unfold bind in H; try discriminate.
  - simpl in Wb. rewrite (chk32_in _ Wb) in H. inv H. apply vle_refl.
  - change (fcanon (Z2F 0)) with F0 in H. rewrite (fadd_F0_l _ Wb) in H. inv H. apply vle_refl.
  - fold (cZ2F y) in H. rewrite (fadd_F0_l _ (cZ2F_canon _ Wb)) in H. inv H. right. eauto.
  - rewrite (fadd_F0_l _ Wb) in H. inv H. apply vle_refl.
Qed.

Lemma add_zero_r a b v : zero_like b -> wfv a -> arith Z.add fadd true a b = Ok v -> vle a v.
Proof.
  intros [-> | ->] Wa H; destruct a as [x|g| |blk o| | | | |]; simpl in H; unfold bind in H; try discriminate.
  - simpl in Wa. rewrite Z.add_0_r, (chk32_in _ Wa) in H. inv H. apply vle_refl.
  - change (fcanon (Z2F 0)) with F0 in H. rewrite (fadd_F0_r _ Wa) in H. inv H. apply vle_refl.
  - inv H. rewrite Z.add_0_r. apply vle_refl.
  - fold (cZ2F x) in H. rewrite (fadd_F0_r _ (cZ2F_canon _ Wa)) in H. inv H. right. eauto.
  - rewrite (fadd_F0_r _ Wa) in H. inv H. apply vle_refl.
Qed.

Lemma sub_zero_r a b v : zero_like b -> wfv a -> arith Z.sub fsub false a b = Ok v -> vle a v.
Proof.
  intros [-> | ->] Wa H; destruct a as [x|g| |blk o| | | | |]; simpl in H; unfold bind in H; try discriminate.
  - simpl in Wa. rewrite Z.sub_0_r, (chk32_in _ Wa) in H. inv H. apply vle_refl.
  - change (fcanon (Z2F 0)) with F0 in H. rewrite (fsub_F0_r _ Wa) in H. inv H. apply vle_refl.
  - fold (cZ2F x) in H. rewrite (fsub_F0_r _ (cZ2F_canon _ Wa)) in H. inv H. right. eauto.
  - rewrite (fsub_F0_r _ Wa) in H. inv H. apply vle_refl.
Qed.

Lemma vle_int0_F0 : vle (VInt 0) (VFloat F0).
Proof. right. exists 0. repeat split. Qed.

Lemma mul_zero_l a b v : zero_like a -> wfv b -> arith Z.mul fmul false a b = Ok v -> vle (VInt 0) v.
Proof.
  intros [-> | ->] Wb H; destruct b as [y|g| | | | | | |]; simpl in H; unfold bind in H; try discriminate.
  - inv H. apply vle_refl.
  - change (fcanon (Z2F 0)) with F0 in H. rewrite (fmul_F0_l _ Wb) in H. inv H. apply vle_int0_F0.
  - fold (cZ2F y) in H. rewrite (fmul_F0_l _ (cZ2F_canon _ Wb)) in H. inv H. apply vle_int0_F0.
  - rewrite (fmul_F0_l _ Wb) in H. inv H. apply vle_int0_F0.
Qed.

Lemma mul_zero_r a b v : zero_like b -> wfv a -> arith Z.mul fmul false a b = Ok v -> vle (VInt 0) v.
Proof.
  intros [-> | ->] Wa H; destruct a as [x|g| | | | | | |]; simpl in H; unfold bind in H; try discriminate.
  - rewrite Z.mul_0_r in H. inv H. apply vle_refl.
  - change (fcanon (Z2F 0)) with F0 in H. rewrite (fmul_F0_r _ Wa) in H. inv H. apply vle_int0_F0.
  - fold (cZ2F x) in H. rewrite (fmul_F0_r _ (cZ2F_canon _ Wa)) in H. inv H. apply vle_int0_F0.
  - rewrite (fmul_F0_r _ Wa) in H. inv H. apply vle_int0_F0.
Qed.

Lemma mul_fzero_l b v : wfv b -> arith Z.mul fmul false (VFloat F0) b = Ok v -> v = VFloat F0.
Proof.
  intros Wb H; destruct b as [y|g| | | | | | |]; simpl in H; unfold bind in H; try discriminate.
  - fold (cZ2F y) in H. rewrite (fmul_F0_l _ (cZ2F_canon _ Wb)) in H. now inv H.
  - rewrite (fmul_F0_l _ Wb) in H. now inv H.
Qed.

Lemma mul_fzero_r a v : wfv a -> arith Z.mul fmul false a (VFloat F0) = Ok v -> v = VFloat F0.
Proof.
  intros Wa H; destruct a as [x|g| | | | | | |]; simpl in H; unfold bind in H; try discriminate.
  - fold (cZ2F x) in H. rewrite (fmul_F0_r _ (cZ2F_canon _ Wa)) in H. now inv H.
  - rewrite (fmul_F0_r _ Wa) in H. now inv H.
Qed.

Lemma mul_one_l a b v : one_like a -> wfv b -> arith Z.mul fmul false a b = Ok v -> vle b v.
Proof.
  intros [-> | ->] Wb H; destruct b as [y|g| | | | | | |]; simpl in H; unfold bind in H; try discriminate.
  - simpl in Wb. replace (match y with 0 => 0 | Z.pos y' => Z.pos y' | Z.neg y' => Z.neg y' end) with y in H by (destruct y; auto).
    rewrite (chk32_in _ Wb) in H. inv H. apply vle_refl.
  - change (fcanon (Z2F 1)) with F1 in H. rewrite (fmul_F1_l _ Wb) in H. inv H. apply vle_refl.
  - fold (cZ2F y) in H. rewrite (fmul_F1_l _ (cZ2F_canon _ Wb)) in H. inv H. right. eauto.
  - rewrite (fmul_F1_l _ Wb) in H. inv H. apply vle_refl.
Qed.

Lemma mul_one_r a b v : one_like b -> wfv a -> arith Z.mul fmul false a b = Ok v -> vle a v.
Proof.
  intros [-> | ->] Wa H; destruct a as [x|g| | | | | | |]; simpl in H; unfold bind in H; try discriminate.
  - simpl in Wa. rewrite Z.mul_1_r, (chk32_in _ Wa) in H. inv H. apply vle_refl.
  - change (fcanon (Z2F 1)) with F1 in H. rewrite (fmul_F1_r _ Wa) in H. inv H. apply vle_refl.
  - fold (cZ2F x) in H. rewrite (fmul_F1_r _ (cZ2F_canon _ Wa)) in H. inv H. right. eauto.
  - rewrite (fmul_F1_r _ Wa) in H. inv H. apply vle_refl.
Qed.

(** * Combinators for the induction *)

Lemma erel_Ok_inv r' a t :
  erel r' (Ok (a, t)) ->
  (exists a' t', r' = Ok (a', t') /\ vle a' a /\ sub t' t) \/ (is_float a /\ r' = Err EOverflow).
Proof. auto. Qed.

Lemma erel_bin_arith iop fop ptr st l l' r r' :
  (forall x y, in_int32 x = true -> in_int32 y = true -> in_int32 (iop x y) = true ->
     fop (cZ2F x) (cZ2F y) = Ok (cZ2F (iop x y))) ->
  erel (eval st l') (eval st l) -> erel (eval st r') (eval st r) ->
  erel (bin2 (arith iop fop ptr) (eval st l') (eval st r'))
       (bin2 (arith iop fop ptr) (eval st l) (eval st r)).
Proof.
  intros Hex Hl Hr.
  destruct (bin2 _ (eval st l) (eval st r)) as [[v t]|] eqn:E; simpl; auto.
  apply bin2_inv in E. destruct E as (a & t1 & b & t2 & Ea & Eb & Eop & ->).
  pose proof (eval_wfv _ _ _ _ Ea) as Wa. pose proof (eval_wfv _ _ _ _ Eb) as Wb.
  rewrite Ea in Hl. rewrite Eb in Hr.
  destruct Hl as [(a' & t1' & El & Va & Sa) | (Fa & El)]; rewrite El.
  2:{ right. split; [eapply arith_float_l; eauto | reflexivity]. }
  destruct Hr as [(b' & t2' & Er & Vb & Sb) | (Fb & Er)]; rewrite Er.
  2:{ right. split; [eapply arith_float_r; eauto | reflexivity]. }
  destruct (arith_congr iop fop ptr Hex _ _ _ _ _ Wa Wb Va Vb Eop) as [(v' & E' & V) | (Fv & E')].
  - left. exists v', (t1' ++ t2'). unfold bin2, bind. rewrite E'. auto with subdb.
  - right. split; auto. unfold bin2, bind. rewrite E'. reflexivity.
Qed.

Lemma drop_left op (P : value -> Prop) st l l' r r' :
  (forall a' a, P a' -> vle a' a -> P a) ->
  (forall a b v, P a -> wfv b -> op a b = Ok v -> vle b v) ->
  (forall a b v, op a b = Ok v -> is_float b -> is_float v) ->
  (exists z, eval st l' = Ok (z, []) /\ P z) ->
  erel (eval st l') (eval st l) -> erel (eval st r') (eval st r) ->
  erel (eval st r') (bin2 op (eval st l) (eval st r)).
Proof.
  intros Hcl Hrule Hfl (z & Ez & Pz) Hl Hr.
  destruct (bin2 _ (eval st l) (eval st r)) as [[v t]|] eqn:E; simpl; auto.
  apply bin2_inv in E. destruct E as (a & t1 & b & t2 & Ea & Eb & Eop & ->).
  pose proof (eval_wfv _ _ _ _ Eb) as Wb.
  rewrite Ea, Ez in Hl. rewrite Eb in Hr.
  destruct Hl as [(a' & t1' & El & Va & Sa) | (Fa & El)]; [|discriminate]. inv El.
  assert (Pa : P a) by eauto.
  pose proof (Hrule _ _ _ Pa Wb Eop) as Vb.
  destruct Hr as [(b' & t2' & Er & Vb' & Sb) | (Fb & Er)].
  - left. exists b', t2'. repeat split; auto with subdb. eapply vle_trans; eauto.
  - right. split; eauto.
Qed.

Lemma drop_right op (P : value -> Prop) st l l' r r' :
  (forall a' a, P a' -> vle a' a -> P a) ->
  (forall a b v, P b -> wfv a -> op a b = Ok v -> vle a v) ->
  (forall a b v, op a b = Ok v -> is_float a -> is_float v) ->
  (exists z, eval st r' = Ok (z, []) /\ P z) ->
  erel (eval st l') (eval st l) -> erel (eval st r') (eval st r) ->
  erel (eval st l') (bin2 op (eval st l) (eval st r)).
Proof.
  intros Hcl Hrule Hfl (z & Ez & Pz) Hl Hr.
  destruct (bin2 _ (eval st l) (eval st r)) as [[v t]|] eqn:E; simpl; auto.
  apply bin2_inv in E. destruct E as (a & t1 & b & t2 & Ea & Eb & Eop & ->).
  pose proof (eval_wfv _ _ _ _ Ea) as Wa.
  rewrite Eb, Ez in Hr. rewrite Ea in Hl.
  destruct Hr as [(b' & t2' & Er & Vb & Sb) | (Fb & Er)]; [|discriminate]. inv Er.
  assert (Pb : P b) by eauto.
  pose proof (Hrule _ _ _ Pb Wa Eop) as Va.
  destruct Hl as [(a' & t1' & El & Va' & Sa) | (Fa & El)].
  - left. exists a', t1'. repeat split; auto with subdb. eapply vle_trans; eauto.
  - right. split; eauto.
Qed.

(** an operand that is a recognised literal makes the whole node a constant *)
Lemma const_left op (P : value -> Prop) st l l' r c cv :
  (forall a' a, P a' -> vle a' a -> P a) ->
  (forall a b v, P a -> wfv b -> op a b = Ok v -> vle cv v) ->
  (exists z, eval st l' = Ok (z, []) /\ P z) ->
  eval st c = Ok (cv, []) ->
  erel (eval st l') (eval st l) ->
  erel (eval st c) (bin2 op (eval st l) (eval st r)).
Proof.
  intros Hcl Hrule (z & Ez & Pz) Ec Hl.
  destruct (bin2 _ (eval st l) (eval st r)) as [[v t]|] eqn:E; simpl; auto.
  apply bin2_inv in E. destruct E as (a & t1 & b & t2 & Ea & Eb & Eop & ->).
  pose proof (eval_wfv _ _ _ _ Eb) as Wb.
  rewrite Ea, Ez in Hl.
  destruct Hl as [(a' & t1' & El & Va & Sa) | (Fa & El)]; [|discriminate]. inv El.
  left. exists cv, []. repeat split; eauto with subdb.
Qed.

Lemma const_right op (P : value -> Prop) st l r r' c cv :
  (forall a' a, P a' -> vle a' a -> P a) ->
  (forall a b v, P b -> wfv a -> op a b = Ok v -> vle cv v) ->
  (exists z, eval st r' = Ok (z, []) /\ P z) ->
  eval st c = Ok (cv, []) ->
  erel (eval st r') (eval st r) ->
  erel (eval st c) (bin2 op (eval st l) (eval st r)).
Proof.
  intros Hcl Hrule (z & Ez & Pz) Ec Hr.
  destruct (bin2 _ (eval st l) (eval st r)) as [[v t]|] eqn:E; simpl; auto.
  apply bin2_inv in E. destruct E as (a & t1 & b & t2 & Ea & Eb & Eop & ->).
  pose proof (eval_wfv _ _ _ _ Ea) as Wa.
  rewrite Eb, Ez in Hr.
  destruct Hr as [(b' & t2' & Er & Vb & Sb) | (Fb & Er)]; [|discriminate]. inv Er.
  left. exists cv, []. repeat split; eauto with subdb.
Qed.

(** operators whose operands are never floats: the optimised operands are exactly the original *)
Lemma erel_exact r' a t : erel r' (Ok (a, t)) -> ~ is_float a ->
  exists t', r' = Ok (a, t') /\ sub t' t.
Proof.
  intros [(a' & t' & -> & V & S) | (Fa & _)] N; [|tauto].
  apply vle_nonfloat in V; auto. subst. eauto.
Qed.

Lemma erel_bin_int op st l l' r r' :
  (forall a b v, op a b = Ok v -> ~ is_float a /\ ~ is_float b) ->
  erel (eval st l') (eval st l) -> erel (eval st r') (eval st r) ->
  erel (bin2 op (eval st l') (eval st r')) (bin2 op (eval st l) (eval st r)).
Proof.
  intros Hop Hl Hr.
  destruct (bin2 _ (eval st l) (eval st r)) as [[v t]|] eqn:E; simpl; auto.
  apply bin2_inv in E. destruct E as (a & t1 & b & t2 & Ea & Eb & Eop & ->).
  destruct (Hop _ _ _ Eop) as [Na Nb].
  rewrite Ea in Hl. rewrite Eb in Hr.
  destruct (erel_exact _ _ _ Hl Na) as (t1' & -> & S1).
  destruct (erel_exact _ _ _ Hr Nb) as (t2' & -> & S2).
  left. exists v, (t1' ++ t2'). unfold bin2, bind. rewrite Eop. auto using vle_refl with subdb.
Qed.

Lemma cmp_nonfloat op a b v : cmp op a b = Ok v -> ~ is_float a /\ ~ is_float b.
Proof. intros H. apply cmp_inv in H. destruct H as (x & y & -> & -> & _). simpl; tauto. Qed.

Lemma sel_nonfloat op a b v : sel op a b = Ok v -> ~ is_float a /\ ~ is_float b.
Proof. intros H. apply sel_inv in H. destruct H as (x & y & -> & -> & _). simpl; tauto. Qed.

(** [a == a] and friends *)
Lemma same_operands op (c : bool) st l l' r r' :
  (forall x, op x x = c) ->
  expr_eqb l' r' = true ->
  erel (eval st l') (eval st l) -> erel (eval st r') (eval st r) ->
  erel (eval st (BooleanLiteral c)) (bin2 (cmp op) (eval st l) (eval st r)).
Proof.
  intros Hc Heq Hl Hr.
  destruct (bin2 _ (eval st l) (eval st r)) as [[v t]|] eqn:E; simpl; auto.
  apply bin2_inv in E. destruct E as (a & t1 & b & t2 & Ea & Eb & Eop & ->).
  destruct (cmp_nonfloat _ _ _ _ Eop) as [Na Nb].
  rewrite Ea in Hl. rewrite Eb in Hr.
  destruct (erel_exact _ _ _ Hl Na) as (t1' & E1 & S1).
  destruct (erel_exact _ _ _ Hr Nb) as (t2' & E2 & S2).
  rewrite (expr_eqb_eval st _ _ Heq) in E1. rewrite E1 in E2. inv E2.
  apply cmp_inv in Eop. destruct Eop as (x & y & -> & E & ->). inv E.
  left. exists (VBool c), []. rewrite Hc. auto using vle_refl with subdb.
Qed.

(** * Recognised literals *)

Lemma zero_lit st e :
  (expr_eqb e (IntegerLiteral 0) || expr_eqb e (FloatLiteral F0)) = true ->
  exists z, eval st e = Ok (z, []) /\ zero_like z.
Proof.
  intros H. apply orb_true_iff in H. destruct H as [H|H].
  - apply eqb_IntegerLiteral in H. subst. exists (VInt 0). split; [reflexivity | now left].
  - apply eqb_FloatLiteral in H. destruct H as (f & -> & H). exists (VFloat F0).
    split; [|now right]. simpl. now rewrite (Feqb_chkfin _ _ H).
Qed.

Lemma izero_lit st e : expr_eqb e (IntegerLiteral 0) = true ->
  exists z, eval st e = Ok (z, []) /\ zero_like z.
Proof. intros H. apply zero_lit. now rewrite H. Qed.

Lemma fzero_lit st e : expr_eqb e (FloatLiteral F0) = true ->
  exists z, eval st e = Ok (z, []) /\ z = VFloat F0.
Proof.
  intros H. apply eqb_FloatLiteral in H. destruct H as (f & -> & H). exists (VFloat F0).
  split; [|reflexivity]. simpl. now rewrite (Feqb_chkfin _ _ H).
Qed.

Lemma one_lit st e :
  (expr_eqb e (IntegerLiteral 1) || expr_eqb e (FloatLiteral F1)) = true ->
  exists z, eval st e = Ok (z, []) /\ one_like z.
Proof.
  intros H. apply orb_true_iff in H. destruct H as [H|H].
  - apply eqb_IntegerLiteral in H. subst. exists (VInt 1). split; [reflexivity | now left].
  - apply eqb_FloatLiteral in H. destruct H as (f & -> & H). exists (VFloat F1).
    split; [|now right]. simpl. now rewrite (Feqb_chkfin _ _ H).
Qed.

Lemma vle_fzero a' a : a' = VFloat F0 -> vle a' a -> a = VFloat F0.
Proof. intros -> [<- | (z & E & _)]; auto. discriminate. Qed.

(** * The optimiser on expressions *)

Lemma pa_cases e :
  (is_Assignable e = true -> peephole_assignable e = peephole_expression e)
  /\ (is_Assignable e = false -> peephole_assignable e = e).
Proof. destruct e; simpl; split; intros; try discriminate; reflexivity. Qed.

Lemma pa_sound st e :
  erel (eval st (peephole_expression e)) (eval st e) ->
  erel (eval st (peephole_assignable e)) (eval st e).
Proof.
  intros H. destruct (pa_cases e) as [H1 H2]. destruct (is_Assignable e).
  - now rewrite H1.
  - rewrite H2 by reflexivity. apply erel_refl.
Qed.

Lemma erel_bool r' a t x : erel r' (Ok (a, t)) -> as_bool a = Ok x ->
  exists t', r' = Ok (VBool x, t') /\ sub t' t.
Proof.
  intros H E. apply as_bool_inv in E. subst. eapply erel_exact in H; [exact H | simpl; tauto].
Qed.

Lemma bool_lit st e b : expr_eqb e (BooleanLiteral b) = true -> eval st e = Ok (VBool b, []).
Proof. intros H. apply eqb_BooleanLiteral in H. now subst. Qed.

Lemma and_sound st l l' r r' :
  erel (eval st l') (eval st l) -> erel (eval st r') (eval st r) ->
  erel (eval st (if expr_eqb l' (BooleanLiteral false) || expr_eqb r' (BooleanLiteral false)
                 then BooleanLiteral false
                 else if expr_eqb l' (BooleanLiteral true) then r'
                 else if expr_eqb r' (BooleanLiteral true) then l'
                 else And l' r'))
       (eval st (And l r)).
Proof.
  intros Hl Hr.
  destruct (eval st (And l r)) as [[v t]|] eqn:E; [|destruct (_ || _); [|destruct (expr_eqb l' _); [|destruct (expr_eqb r' _)]]; exact I].
  simpl in E. unfold bind in E.
  destruct (eval st l) as [[a t1]|] eqn:Ea; try discriminate.
  destruct (as_bool a) as [x|] eqn:Ex; try discriminate.
  destruct (erel_bool _ _ _ _ Hl Ex) as (t1' & El & S1).
  destruct (expr_eqb l' (BooleanLiteral false)) eqn:C1.
  { (* left operand is the literal false *)
    simpl. rewrite (bool_lit st _ _ C1) in El. inv El.
    inv E. left. exists (VBool false), []. auto using vle_refl with subdb. }
  destruct (expr_eqb r' (BooleanLiteral false)) eqn:C2.
  { simpl. destruct x.
    - destruct (eval st r) as [[b t2]|] eqn:Eb; try discriminate.
      destruct (as_bool b) as [y|] eqn:Ey; try discriminate. inv E.
      destruct (erel_bool _ _ _ _ Hr Ey) as (t2' & Er & S2).
      rewrite (bool_lit st _ _ C2) in Er. inv Er.
      left. exists (VBool false), []. auto using vle_refl with subdb.
    - inv E. left. exists (VBool false), []. auto using vle_refl with subdb. }
  simpl.
  destruct (expr_eqb l' (BooleanLiteral true)) eqn:C3.
  { rewrite (bool_lit st _ _ C3) in El. inv El.
    destruct (eval st r) as [[b t2]|] eqn:Eb; try discriminate.
    destruct (as_bool b) as [y|] eqn:Ey; try discriminate. inv E.
    destruct (erel_bool _ _ _ _ Hr Ey) as (t2' & Er & S2).
    left. exists (VBool y), t2'. auto using vle_refl with subdb. }
  destruct (expr_eqb r' (BooleanLiteral true)) eqn:C4.
  { destruct x.
    - destruct (eval st r) as [[b t2]|] eqn:Eb; try discriminate.
      destruct (as_bool b) as [y|] eqn:Ey; try discriminate. inv E.
      destruct (erel_bool _ _ _ _ Hr Ey) as (t2' & Er & S2).
      rewrite (bool_lit st _ _ C4) in Er. inv Er.
      left. exists (VBool true), t1'. auto using vle_refl with subdb.
    - inv E. left. exists (VBool false), t1'. auto using vle_refl with subdb. }
  simpl. unfold bind. rewrite El. simpl. destruct x.
  - destruct (eval st r) as [[b t2]|] eqn:Eb; try discriminate.
    destruct (as_bool b) as [y|] eqn:Ey; try discriminate. inv E.
    destruct (erel_bool _ _ _ _ Hr Ey) as (t2' & Er & S2). rewrite Er. simpl.
    left. exists (VBool y), (t1' ++ t2'). auto using vle_refl with subdb.
  - inv E. left. exists (VBool false), t1'. auto using vle_refl with subdb.
Qed.

Lemma or_sound st l l' r r' :
  erel (eval st l') (eval st l) -> erel (eval st r') (eval st r) ->
  erel (eval st (if expr_eqb l' (BooleanLiteral true) || expr_eqb r' (BooleanLiteral true)
                 then BooleanLiteral true
                 else if expr_eqb l' (BooleanLiteral false) then r'
                 else if expr_eqb r' (BooleanLiteral false) then l'
                 else Or l' r'))
       (eval st (Or l r)).
Proof.
  intros Hl Hr.
  destruct (eval st (Or l r)) as [[v t]|] eqn:E; [|destruct (_ || _); [|destruct (expr_eqb l' _); [|destruct (expr_eqb r' _)]]; exact I].
  simpl in E. unfold bind in E.
  destruct (eval st l) as [[a t1]|] eqn:Ea; try discriminate.
  destruct (as_bool a) as [x|] eqn:Ex; try discriminate.
  destruct (erel_bool _ _ _ _ Hl Ex) as (t1' & El & S1).
  destruct (expr_eqb l' (BooleanLiteral true)) eqn:C1.
  { simpl. rewrite (bool_lit st _ _ C1) in El. inv El.
    inv E. left. exists (VBool true), []. auto using vle_refl with subdb. }
  destruct (expr_eqb r' (BooleanLiteral true)) eqn:C2.
  { simpl. destruct x.
    - inv E. left. exists (VBool true), []. auto using vle_refl with subdb.
    - destruct (eval st r) as [[b t2]|] eqn:Eb; try discriminate.
      destruct (as_bool b) as [y|] eqn:Ey; try discriminate. inv E.
      destruct (erel_bool _ _ _ _ Hr Ey) as (t2' & Er & S2).
      rewrite (bool_lit st _ _ C2) in Er. inv Er.
      left. exists (VBool true), []. auto using vle_refl with subdb. }
  simpl.
  destruct (expr_eqb l' (BooleanLiteral false)) eqn:C3.
  { rewrite (bool_lit st _ _ C3) in El. inv El.
    destruct (eval st r) as [[b t2]|] eqn:Eb; try discriminate.
    destruct (as_bool b) as [y|] eqn:Ey; try discriminate. inv E.
    destruct (erel_bool _ _ _ _ Hr Ey) as (t2' & Er & S2).
    left. exists (VBool y), t2'. auto using vle_refl with subdb. }
  destruct (expr_eqb r' (BooleanLiteral false)) eqn:C4.
  { destruct x.
    - inv E. left. exists (VBool true), t1'. auto using vle_refl with subdb.
    - destruct (eval st r) as [[b t2]|] eqn:Eb; try discriminate.
      destruct (as_bool b) as [y|] eqn:Ey; try discriminate. inv E.
      destruct (erel_bool _ _ _ _ Hr Ey) as (t2' & Er & S2).
      rewrite (bool_lit st _ _ C4) in Er. inv Er.
      left. exists (VBool false), t1'. auto using vle_refl with subdb. }
  simpl. unfold bind. rewrite El. simpl. destruct x.
  - inv E. left. exists (VBool true), t1'. auto using vle_refl with subdb.
  - destruct (eval st r) as [[b t2]|] eqn:Eb; try discriminate.
    destruct (as_bool b) as [y|] eqn:Ey; try discriminate. inv E.
    destruct (erel_bool _ _ _ _ Hr Ey) as (t2' & Er & S2). rewrite Er. simpl.
    left. exists (VBool y), (t1' ++ t2'). auto using vle_refl with subdb.
Qed.

Lemma zero_like_closed a' a : zero_like a' -> vle a' a -> zero_like a.
Proof. apply vle_zero_like. Qed.

Lemma fzero_closed a' a : a' = VFloat F0 -> vle a' a -> a = VFloat F0.
Proof. apply vle_fzero. Qed.

Ltac case_if C :=
  match goal with
  | |- erel (eval _ (if ?c then _ else _)) _ => destruct c eqn:C
  end.

Lemma fzero_lit_like st e : expr_eqb e (FloatLiteral F0) = true ->
  exists z, eval st e = Ok (z, []) /\ zero_like z.
Proof. intros H. apply zero_lit. rewrite H. apply orb_true_r. Qed.

Lemma ione_lit st e : expr_eqb e (IntegerLiteral 1) = true ->
  exists z, eval st e = Ok (z, []) /\ one_like z.
Proof. intros H. apply one_lit. now rewrite H. Qed.

Lemma fone_lit st e : expr_eqb e (FloatLiteral F1) = true ->
  exists z, eval st e = Ok (z, []) /\ one_like z.
Proof. intros H. apply one_lit. rewrite H. apply orb_true_r. Qed.

(** Rule solvers: each alternative must close the goal completely, so the order in which the
    source lists its rules, and how it groups their conditions with [or], does not matter. *)
Ltac split_or C :=
  repeat match type of C with
         | (_ || _) = true => apply orb_true_iff in C; destruct C as [C|C]
         end.

Ltac lit_facts := eauto using izero_lit, fzero_lit_like, ione_lit, fone_lit, zero_lit, one_lit.

Ltac rule_add :=
  first
  [ solve [eapply drop_left with (P := zero_like);
           [apply zero_like_closed | apply add_zero_l | intros; eapply arith_float_r; eauto | lit_facts | eauto | eauto]]
  | solve [eapply drop_right with (P := zero_like);
           [apply zero_like_closed | apply add_zero_r | intros; eapply arith_float_l; eauto | lit_facts | eauto | eauto]] ].

Ltac rule_sub :=
  solve [eapply drop_right with (P := zero_like);
         [apply zero_like_closed | apply sub_zero_r | intros; eapply arith_float_l; eauto | lit_facts | eauto | eauto]].

Ltac rule_mul :=
  first
  [ solve [eapply const_left with (P := zero_like) (cv := VInt 0);
           [apply zero_like_closed | apply mul_zero_l | solve [eauto using izero_lit] | reflexivity | eauto]]
  | solve [eapply const_right with (P := zero_like) (cv := VInt 0);
           [apply zero_like_closed | apply mul_zero_r | solve [eauto using izero_lit] | reflexivity | eauto]]
  | solve [eapply const_left with (P := fun v => v = VFloat F0) (cv := VFloat F0);
           [apply fzero_closed
           | intros ? ? ? -> ? Hm; apply mul_fzero_l in Hm; auto; subst; apply vle_refl
           | solve [eauto using fzero_lit] | reflexivity | eauto]]
  | solve [eapply const_right with (P := fun v => v = VFloat F0) (cv := VFloat F0);
           [apply fzero_closed
           | intros ? ? ? -> ? Hm; apply mul_fzero_r in Hm; auto; subst; apply vle_refl
           | solve [eauto using fzero_lit] | reflexivity | eauto]]
  | solve [eapply drop_left with (P := one_like);
           [apply vle_one_like | apply mul_one_l | intros; eapply arith_float_r; eauto
           | solve [eauto using ione_lit, fone_lit] | eauto | eauto]]
  | solve [eapply drop_right with (P := one_like);
           [apply vle_one_like | apply mul_one_r | intros; eapply arith_float_l; eauto
           | solve [eauto using ione_lit, fone_lit] | eauto | eauto]] ].

Ltac rules tac :=
  repeat (let C := fresh "C" in case_if C; [split_or C; tac |]).

Theorem peephole_expression_sound e : forall st,
  erel (eval st (peephole_expression e)) (eval st e).
Proof.
  induction e as [x | tgt IHt attr | tgt IHt idx IHi | z | f | b
    | l IHl r IHr | l IHl r IHr | l IHl r IHr
    | l IHl r IHr | l IHl r IHr | l IHl r IHr | l IHl r IHr | l IHl r IHr | l IHl r IHr
    | l IHl r IHr | l IHl r IHr | l IHl r IHr | l IHl r IHr
    | x IHx | ty n IHn | old IHo ty n IHn]; intros st.
  - (* Var *) apply erel_refl.
  - (* AttributeAccess *)
    simpl. pose proof (pa_sound st _ (IHt st)) as Ht.
    destruct (eval st tgt) as [[v t1]|] eqn:Ev; simpl; auto. unfold bind.
    destruct (attribute_value st v attr) as [rv|] eqn:Ea; simpl; auto.
    assert (N : ~ is_float v) by (destruct v; simpl in *; try discriminate; tauto).
    destruct (erel_exact _ _ _ Ht N) as (t1' & -> & S). rewrite Ea.
    left. exists rv, t1'. auto using vle_refl.
  - (* ArrayIndex *)
    simpl. pose proof (pa_sound st _ (IHt st)) as Ht. specialize (IHi st).
    destruct (eval st tgt) as [[v t1]|] eqn:Ev; simpl; auto. unfold bind.
    destruct (eval st idx) as [[i t2]|] eqn:Ei; simpl; auto.
    destruct (index_value st v i) as [[rv t3]|] eqn:Ex; simpl; auto.
    assert (N : ~ is_float v /\ ~ is_float i).
    { destruct v, i; simpl in *; try discriminate; tauto. }
    destruct N as [Nv Ni].
    destruct (erel_exact _ _ _ Ht Nv) as (t1' & -> & S1).
    destruct (erel_exact _ _ _ IHi Ni) as (t2' & -> & S2). rewrite Ex.
    left. exists rv, (t1' ++ t2' ++ t3). auto using vle_refl with subdb.
  - apply erel_refl.
  - apply erel_refl.
  - apply erel_refl.
  - (* Add *)
    specialize (IHl st). specialize (IHr st). cbn [peephole_expression]. cbv zeta.
    change (eval st (Add l r)) with (bin2 (arith Z.add fadd true) (eval st l) (eval st r)).
    rules rule_add.
    apply erel_bin_arith; auto using fadd_exact.
  - (* Subtract *)
    specialize (IHl st). specialize (IHr st). cbn [peephole_expression]. cbv zeta.
    change (eval st (Subtract l r)) with (bin2 (arith Z.sub fsub false) (eval st l) (eval st r)).
    rules rule_sub.
    apply erel_bin_arith; auto using fsub_exact.
  - (* Multiply *)
    specialize (IHl st). specialize (IHr st). cbn [peephole_expression]. cbv zeta.
    change (eval st (Multiply l r)) with (bin2 (arith Z.mul fmul false) (eval st l) (eval st r)).
    rules rule_mul.
    apply erel_bin_arith; auto using fmul_exact.
  - (* Equal *)
    specialize (IHl st). specialize (IHr st). cbn [peephole_expression]. cbv zeta.
    change (eval st (Equal l r)) with (bin2 (cmp Z.eqb) (eval st l) (eval st r)).
    case_if C.
    + eapply same_operands; eauto using Z.eqb_refl.
    + apply erel_bin_int; eauto using cmp_nonfloat.
  - (* NotEqual *)
    specialize (IHl st). specialize (IHr st). cbn [peephole_expression]. cbv zeta.
    change (eval st (NotEqual l r)) with (bin2 (cmp (fun x y => negb (Z.eqb x y))) (eval st l) (eval st r)).
    case_if C.
    + eapply same_operands; eauto. intros; now rewrite Z.eqb_refl.
    + apply erel_bin_int; eauto using cmp_nonfloat.
  - (* GreaterThan *)
    specialize (IHl st). specialize (IHr st). cbn [peephole_expression]. cbv zeta.
    change (eval st (GreaterThan l r)) with (bin2 (cmp Z.gtb) (eval st l) (eval st r)).
    case_if C.
    + eapply same_operands; eauto. intros; rewrite Z.gtb_ltb; apply Z.ltb_irrefl.
    + apply erel_bin_int; eauto using cmp_nonfloat.
  - (* LessThan *)
    specialize (IHl st). specialize (IHr st). cbn [peephole_expression]. cbv zeta.
    change (eval st (LessThan l r)) with (bin2 (cmp Z.ltb) (eval st l) (eval st r)).
    case_if C.
    + eapply same_operands; eauto using Z.ltb_irrefl.
    + apply erel_bin_int; eauto using cmp_nonfloat.
  - (* GreaterThanOrEqual *)
    specialize (IHl st). specialize (IHr st). cbn [peephole_expression]. cbv zeta.
    change (eval st (GreaterThanOrEqual l r)) with (bin2 (cmp Z.geb) (eval st l) (eval st r)).
    case_if C.
    + eapply same_operands; eauto. intros; rewrite Z.geb_leb; apply Z.leb_refl.
    + apply erel_bin_int; eauto using cmp_nonfloat.
  - (* LessThanOrEqual *)
    specialize (IHl st). specialize (IHr st). cbn [peephole_expression]. cbv zeta.
    change (eval st (LessThanOrEqual l r)) with (bin2 (cmp Z.leb) (eval st l) (eval st r)).
    case_if C.
    + eapply same_operands; eauto using Z.leb_refl.
    + apply erel_bin_int; eauto using cmp_nonfloat.
  - (* And *)
    cbn [peephole_expression]. cbv zeta. apply and_sound; auto.
  - (* Or *)
    cbn [peephole_expression]. cbv zeta. apply or_sound; auto.
  - (* Max *)
    cbn [peephole_expression]. cbv zeta.
    change (eval st (Max l r)) with (bin2 (sel Z.gtb) (eval st l) (eval st r)).
    change (eval st (Max (peephole_expression l) (peephole_expression r)))
      with (bin2 (sel Z.gtb) (eval st (peephole_expression l)) (eval st (peephole_expression r))).
    apply erel_bin_int; eauto using sel_nonfloat.
  - (* Min *)
    cbn [peephole_expression]. cbv zeta.
    change (eval st (Min l r)) with (bin2 (sel Z.ltb) (eval st l) (eval st r)).
    change (eval st (Min (peephole_expression l) (peephole_expression r)))
      with (bin2 (sel Z.ltb) (eval st (peephole_expression l)) (eval st (peephole_expression r))).
    apply erel_bin_int; eauto using sel_nonfloat.
  - (* BooleanToInteger *)
    specialize (IHx st). cbn [peephole_expression]. cbv zeta.
    destruct (eval st (BooleanToInteger x)) as [[v t]|] eqn:E;
      [|destruct (expr_eqb _ _); [|destruct (expr_eqb _ _)]; exact I].
    simpl in E. unfold bind in E.
    destruct (eval st x) as [[a t1]|] eqn:Ea; try discriminate.
    destruct (as_bool a) as [y|] eqn:Ey; try discriminate. inv E.
    destruct (erel_bool _ _ _ _ IHx Ey) as (t1' & El & S1).
    case_if C1.
    { rewrite (bool_lit st _ _ C1) in El. inv El.
      left. exists (VInt 0), []. auto using vle_refl with subdb. }
    case_if C2.
    { rewrite (bool_lit st _ _ C2) in El. inv El.
      left. exists (VInt 1), []. auto using vle_refl with subdb. }
    simpl. unfold bind. rewrite El. simpl.
    left. eexists _, t1'. auto using vle_refl.
  - exact I.
  - exact I.
Qed.
