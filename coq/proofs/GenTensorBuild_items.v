(** TIE "tensorbuild", decoder: the regenerated Tensor.items (tensor.py) walks a well-formed stored
    tensor exactly as Storage.entries does; the regenerated to_dok is the model's to_dok. *)
From Coq Require Import ZArith List Bool Lia.
From TV Require Import spec.PyBase spec.PyLib spec.Storage model.TensorBuild model.TensorBuildPy
  proofs.StorageLemmas proofs.TensorBuildLemmas proofs.PyLibFacts proofs.GenTensorBuild_lib
  proofs.GenTensorBuild_tree proofs.GenTensorBuild_emit proofs.GenTensorBuild_build.
From TV Require gen.TensorBuildGen.
Module G := TensorBuildGen.
Import ListNotations.
Open Scope Z_scope.

Definition gmode (l : level) : G.Mode := gm (mode_of_level l).

(** ** reads of C arrays *)
Lemma c_getitem_nat {A} (xs : list A) (n : nat) : c_getitem xs (Z.of_nat n) = of_opt (nth_error xs n).
Proof.
  unfold c_getitem. replace (Z.of_nat n <? 0) with false by (symmetry; apply Z.ltb_ge; lia).
  now rewrite Nat2Z.id.
Qed.

Lemma c_getitem_at {A} (p : list A) x q n : length p = n -> c_getitem (p ++ x :: q) (Z.of_nat n) = Val x.
Proof. intros <-. rewrite c_getitem_nat, nth_error_mid. reflexivity. Qed.

Lemma c_getitem_nthZ {A} (d : A) xs i : 0 <= i < zlen xs -> c_getitem xs i = Val (nthZ d xs i).
Proof.
  intros H. unfold c_getitem, nthZ, zlen in *.
  replace (i <? 0) with false by (symmetry; apply Z.ltb_ge; lia).
  destruct (nth_error xs (Z.to_nat i)) eqn:E.
  - cbn. f_equal. symmetry. now apply nth_error_nth.
  - apply nth_error_None in E. lia.
Qed.

Lemma c_getitem_2_0 {A} (a b : A) : c_getitem [a; b] 0 = Val a. Proof. reflexivity. Qed.
Lemma c_getitem_2_1 {A} (a b : A) : c_getitem [a; b] 1 = Val b. Proof. reflexivity. Qed.

(** ** loops *)
Lemma yield_loop {A B} (f : list B -> A -> R (list B)) (h : A -> list B) l :
  (forall y x, In x l -> f y x = Val (y ++ h x)) -> forall y, rfold f l y = Val (y ++ flat_map h l).
Proof.
  induction l as [|x l IH]; intros H y; cbn; [now rewrite app_nil_r|].
  rewrite H by now left. cbn. rewrite IH by (intros; apply H; now right). now rewrite app_assoc.
Qed.

Lemma rmap_in {A B} (f : A -> R B) (g : A -> B) l :
  (forall x, In x l -> f x = Val (g x)) -> rmap f l = Val (map g l).
Proof.
  induction l as [|x l IH]; intros H; cbn; [reflexivity|].
  rewrite H by now left. cbn. rewrite IH by (intros; apply H; now right). reflexivity.
Qed.

(** ** the coordinate of a leaf: prefix[mode_ordering.index(i)] for i in range(order) *)
Lemma py_index_index_of ord d :
  In d ord -> py_index Z.eqb (map Z.of_nat ord) (Z.of_nat d) = Some (Z.of_nat (index_of d ord)).
Proof.
  unfold py_index. induction ord as [|x ord IH]; intros H; [destruct H|].
  cbn [map py_index_from index_of].
  destruct (Nat.eqb_spec x d) as [->|Hne].
  - now rewrite Z.eqb_refl.
  - replace (Z.of_nat x =? Z.of_nat d) with false by (symmetry; apply Z.eqb_neq; lia).
    rewrite py_index_from_shift, IH by (destruct H; [congruence|assumption]).
    cbn. f_equal. lia.
Qed.

Lemma leaf_coordinate ord prefix :
  is_permb ord = true -> length prefix = length ord ->
  rmap (fun i => rbind (of_opt (py_index Z.eqb (map Z.of_nat ord) i)) (fun t => r_getitem prefix t))
       (zrange (Z.of_nat (length ord)))
  = Val (to_dim_order ord prefix).
Proof.
  intros Hp Hl. rewrite zrange_of_nat. unfold to_dim_order.
  rewrite (rmap_in _ (fun z => nth (index_of (Z.to_nat z) ord) prefix (-1))).
  - rewrite map_map. f_equal. apply map_ext. intros d. now rewrite Nat2Z.id.
  - intros z Hz. apply in_map_iff in Hz. destruct Hz as (d & <- & Hd). apply in_seq in Hd.
    assert (Hin : In d ord) by (apply (is_permb_In ord Hp); lia).
    rewrite py_index_index_of by assumption. cbn [of_opt rbind].
    destruct (index_of_In d ord Hin) as [Hlt _].
    rewrite r_getitem_nat, Nat2Z.id.
    destruct (nth_error prefix (index_of d ord)) eqn:E.
    + cbn. f_equal. symmetry. now apply nth_error_nth.
    + apply nth_error_None in E. lia.
Qed.

(** ** what wf_compressedb gives about pos *)
Lemma wf_compressed_pos n d pos crd p :
  wf_compressedb n d pos crd = true -> 0 <= p < n ->
  zlen pos = n + 1 /\ 0 <= nthZ 0 pos p /\ nthZ 0 pos p <= nthZ 0 pos (p + 1) /\ nthZ 0 pos (p + 1) <= zlen crd.
Proof.
  unfold wf_compressedb. intros H Hp.
  repeat (apply andb_true_iff in H; destruct H as [H ?]).
  apply Z.eqb_eq in H.
  match goal with X : (nthZ (-1) pos 0 =? 0) = true |- _ => apply Z.eqb_eq in X; rename X into E0 end.
  match goal with X : (nthZ (-1) pos n =? zlen crd) = true |- _ => apply Z.eqb_eq in X; rename X into En end.
  match goal with X : weakly_increasing pos = true |- _ => rename X into Ew end.
  unfold zlen in *. rewrite !nthZ_nonneg in * by lia.
  assert (Hd : forall i, (i < length pos)%nat -> nth i pos (-1) = nth i pos 0) by (intros; now apply nth_indep).
  rewrite Hd in E0, En by lia.
  split; [assumption|].
  pose proof (weakly_increasing_nth pos 0 (Z.to_nat p) Ew ltac:(lia) ltac:(lia)).
  pose proof (weakly_increasing_nth pos (Z.to_nat p) (Z.to_nat (p + 1)) Ew ltac:(lia) ltac:(lia)).
  pose proof (weakly_increasing_nth pos (Z.to_nat (p + 1)) (Z.to_nat n) Ew ltac:(lia) ltac:(lia)).
  change (Z.to_nat 0) with O in *. lia.
Qed.

Section Items.
Variable vals : list Z.
Variable ord : list nat.
Hypothesis Hperm : is_permb ord = true.

Notation itr := (G.items__recurse Z 0 Z.add Z.eqb).

Definition item_of (cq : list Z * Z) : list Z * Z := (to_dim_order ord (fst cq), nthZ 0 vals (snd cq)).

Lemma items_rec_ok : forall lvr n k fuel mp ip dp prefix p,
  wf_levelsb lvr n = Some k -> 0 <= p < n -> k <= zlen vals ->
  length mp = length prefix -> length ip = length prefix -> length dp = length prefix ->
  (length lvr < fuel)%nat -> length ord = (length prefix + length lvr)%nat ->
  itr fuel (Z.of_nat (length ord)) (mp ++ map (fun l => gmode (fst l)) lvr) (map Z.of_nat ord)
      (ip ++ indices_of (map fst lvr)) vals (dp ++ map snd lvr) (Z.of_nat (length prefix)) prefix p
  = Val (map item_of (walk lvr p (rev prefix))).
Proof.
  induction lvr as [|[l d] lvr IH]; intros n k fuel mp ip dp prefix p Hwf Hp Hk Hmp Hip Hdp Hf Hord;
    (destruct fuel; [cbn in Hf; lia|]); cbn [G.items__recurse].
  - cbn in Hwf. inversion Hwf; subst k. cbn [length] in Hord. rewrite Nat.add_0_r in Hord.
    replace (Z.of_nat (length prefix) <? Z.of_nat (length ord)) with false by (symmetry; apply Z.ltb_ge; lia).
    rewrite leaf_coordinate by (assumption || lia). cbn [rbind].
    rewrite (c_getitem_nthZ 0) by lia. cbn [rbind app walk map]. rewrite rev_involutive. reflexivity.
  - cbn [length] in Hord, Hf.
    replace (Z.of_nat (length prefix) <? Z.of_nat (length ord)) with true by (symmetry; apply Z.ltb_lt; lia).
    cbn [map fst snd]. rewrite !(r_getitem_at mp _ _ _ Hmp). cbn [rbind].
    assert (Hnext : forall x q, 0 <= q ->
       (forall n', wf_levelsb lvr n' = Some k -> 0 <= q < n' ->
        itr fuel (Z.of_nat (length ord)) (mp ++ gmode l :: map (fun l0 => gmode (fst l0)) lvr) (map Z.of_nat ord)
          (ip ++ indices_of (l :: map fst lvr)) vals (dp ++ d :: map snd lvr)
          (Z.of_nat (length prefix) + 1) (prefix ++ [x]) q
        = Val (map item_of (walk lvr q (x :: rev prefix))))).
    { intros x q Hq n' Hwf' Hq'.
      pose proof (IH n' k fuel (mp ++ [gmode l]) (ip ++ indices_of [l]) (dp ++ [d]) (prefix ++ [x]) q Hwf' Hq' Hk) as X.
      rewrite !app_length in X. cbn [length indices_of map] in X.
      specialize (X ltac:(lia) ltac:(lia) ltac:(lia) ltac:(lia) ltac:(lia)).
      rewrite <- !app_assoc in X. cbn [app indices_of map] in X. rewrite rev_unit in X.
      replace (Z.of_nat (length prefix + 1)) with (Z.of_nat (length prefix) + 1) in X by lia.
      exact X. }
    destruct l as [|pos crd]; cbn [gmode mode_of_level gm G.Mode_eqb walk] in *.
    + cbn [wf_levelsb] in Hwf. destruct (0 <=? d) eqn:Hd; [|discriminate Hwf]. apply Z.leb_le in Hd.
      rewrite (r_getitem_at dp d _ _ Hdp). cbn [rbind].
      erewrite yield_loop with (h := fun i => map item_of (walk lvr (p * d + i) (i :: rev prefix))).
      * cbn [app]. now rewrite map_flat_map.
      * intros y x Hx. apply In_zrange in Hx. cbv beta.
        rewrite ?(r_getitem_at dp d _ _ Hdp). cbn [rbind].
        rewrite (Hnext x (d * p + x) ltac:(nia) (n * d) Hwf ltac:(nia)). cbn [rbind].
        now rewrite (Z.mul_comm d p).
    + cbn [wf_levelsb] in Hwf. destruct (wf_compressedb n d pos crd) eqn:Hc; [|discriminate Hwf].
      destruct (wf_compressed_pos n d pos crd p Hc Hp) as (Hlen & H0 & H1 & H2).
      cbn [indices_of map] in *. rewrite !(c_getitem_at ip _ _ _ Hip). cbn [rbind].
      rewrite !c_getitem_2_0. cbn [rbind].
      rewrite !(c_getitem_nthZ 0 pos) by lia. cbn [rbind].
      erewrite yield_loop with (h := fun q => map item_of (walk lvr q (nthZ (-1) crd q :: rev prefix))).
      * cbn [app]. now rewrite map_flat_map.
      * intros y q Hq. apply In_zrange2 in Hq. cbv beta.
        rewrite ?(c_getitem_at ip _ _ _ Hip). cbn [rbind]. rewrite ?c_getitem_2_1. cbn [rbind].
        rewrite (c_getitem_nthZ (-1) crd) by lia. cbn [rbind].
        rewrite (Hnext (nthZ (-1) crd q) q ltac:(lia) (zlen crd) Hwf ltac:(lia)). reflexivity.
Qed.
End Items.

(** ** Tensor.items on a well-formed stored tensor *)
Theorem gen_items_ok strict (t : tensor Z) fuel :
  wf_tensorb strict t = true -> (length (levels t) < fuel)%nat ->
  G.items Z 0 Z.add Z.eqb fuel (Z.of_nat (length (ordering t))) (map gmode (levels t)) (dims t)
    (map Z.of_nat (ordering t)) (indices_of (levels t)) (vals t)
  = Val (entries 0 t).
Proof.
  intros Hwf Hf. destruct (wf_tensorb_shape strict t Hwf) as (Hd & Hl & Hp & _).
  unfold wf_tensorb in Hwf. apply andb_true_iff in Hwf. destruct Hwf as [_ Hwf].
  destruct (wf_levelsb (combine (levels t) (level_dims t)) 1) as [k|] eqn:Hk; [|discriminate].
  assert (Hkv : k <= zlen (vals t)).
  { destruct strict; [apply Z.eqb_eq in Hwf|apply Z.leb_le in Hwf]; lia. }
  unfold G.items. cbv zeta. rewrite rmap_getitem.
  rewrite (map_opt_Some _ (fun d => nth d (dims t) 0)).
  2:{ intros a Ha. apply (is_permb_In _ Hp) in Ha.
      destruct (nth_error (dims t) a) eqn:E; [f_equal; symmetry; now apply nth_error_nth|].
      apply nth_error_None in E. lia. }
  cbn [of_opt rbind]. fold (level_dims t).
  assert (Hll : length (levels t) = length (level_dims t)) by (unfold level_dims; now rewrite map_length).
  pose proof (items_rec_ok (vals t) (ordering t) Hp (combine (levels t) (level_dims t)) 1 k fuel [] [] [] [] 0
                Hk ltac:(lia) Hkv eq_refl eq_refl eq_refl) as X.
  rewrite combine_length, <- Hll, Nat.min_id in X.
  specialize (X Hf ltac:(cbn [length]; lia)).
  rewrite <- (map_map fst gmode), combine_map_fst, combine_map_snd in X by assumption.
  cbn [app length rev] in X. change (Z.of_nat 0) with 0 in X. rewrite X. cbn [rbind app].
  unfold entries. apply f_equal, map_ext. intros [lc q]. reflexivity.
Qed.

(** ** to_dok *)
Lemma pb_list_eqb a b : PyBase.list_eqb Z.eqb a b = TensorBuild.list_eqb a b.
Proof.
  revert b. induction a as [|x a IH]; intros [|y b]; cbn; try reflexivity; now rewrite IH.
Qed.

Lemma list_eqb_sym a b : TensorBuild.list_eqb a b = TensorBuild.list_eqb b a.
Proof.
  destruct (TensorBuild.list_eqb a b) eqn:E.
  - apply list_eqb_eq in E. subst. symmetry. apply list_eqb_refl.
  - symmetry. apply list_eqb_neq. apply list_eqb_neq in E. congruence.
Qed.

Lemma dict_set_same (d : list entry) k v :
  PyLib.dict_set (PyBase.list_eqb Z.eqb) k v d = TensorBuild.dict_set d k v.
Proof.
  induction d as [|[k' v'] d IH]; cbn; [reflexivity|].
  rewrite pb_list_eqb, list_eqb_sym. destruct (TensorBuild.list_eqb k' k); [reflexivity|]. now rewrite IH.
Qed.

Lemma py_dict_of_same (l : list entry) : py_dict_of (PyBase.list_eqb Z.eqb) l = dict_of l.
Proof.
  unfold py_dict_of, dict_of.
  assert (H : forall acc : list entry,
    fold_left (fun d kv => PyLib.dict_set (PyBase.list_eqb Z.eqb) (fst kv) (snd kv) d) l acc
    = fold_left (fun d (e : entry) => TensorBuild.dict_set d (fst e) (snd e)) l acc).
  { induction l as [|e l IH]; intros acc; cbn; [reflexivity|]. now rewrite dict_set_same, IH. }
  apply H.
Qed.

Theorem gen_to_dok_ok (its : list entry) ez :
  G.to_dok Z 0 Z.add Z.eqb its ez = Val (to_dok ez its).
Proof.
  unfold G.to_dok, to_dok. destruct ez; rewrite py_dict_of_same; [reflexivity|].
  apply f_equal. apply f_equal.
  transitivity (map (fun kv : list Z * Z => kv) (filter (fun e : entry => negb (snd e =? 0)) its)).
  - transitivity (map (fun kv : list Z * Z => let '(key, value) := kv in (key, value))
                    (filter (fun e : entry => negb (snd e =? 0)) its)).
    + f_equal. apply filter_ext. intros [k v]. reflexivity.
    + apply map_ext. intros [k v]. reflexivity.
  - apply map_id.
Qed.
