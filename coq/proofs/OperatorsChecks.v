(** C11 -- the synthesised request passes every check that stands between it and the kernel, and
    the output dimensions computed by [TensorMethod.__call__] are those of the operands. *)

From Coq Require Import ZArith String Ascii List Bool Lia ZifyBool.
From TV Require Import spec.Storage spec.PyBase model.Operators proofs.OperatorsBase.
Import ListNotations.
Open Scope Z_scope.
Open Scope string_scope.
Open Scope list_scope.

(** * Participants of a tensor reference *)

Definition parts_from (s : nat) (name : string) (idx : list string)
  : list (string * (string * nat)) :=
  map (fun ik => (snd ik, (name, fst ik))) (enumerate_from s idx).

Lemma participants_tensor name idx : participants (ETensor name idx) = parts_from 0 name idx.
Proof. reflexivity. Qed.

Lemma parts_from_fst name idx : forall s, map fst (parts_from s name idx) = idx.
Proof.
  unfold parts_from. induction idx as [|x idx IH]; intros s; simpl; [reflexivity|].
  f_equal. apply IH.
Qed.

Lemma parts_from_filter_absent name k idx : forall s,
  ~ In k idx -> filter (fun q => String.eqb (fst q) k) (parts_from s name idx) = [].
Proof.
  unfold parts_from. induction idx as [|x idx IH]; intros s H; simpl; [reflexivity|].
  destruct (String.eqb x k) eqn:E.
  - apply String.eqb_eq in E. subst. exfalso. apply H. left; reflexivity.
  - apply IH. intros Hin. apply H. right; assumption.
Qed.

Lemma parts_from_filter name k idx : forall s i,
  NoDup idx -> nth_error idx i = Some k ->
  map snd (filter (fun q => String.eqb (fst q) k) (parts_from s name idx)) = [(name, (s + i)%nat)].
Proof.
  induction idx as [|x idx IH]; intros s i Hnd Hi.
  - destruct i; discriminate.
  - inversion Hnd as [|? ? Hx Hidx]; subst.
    destruct i as [|i]; simpl in Hi.
    + inversion Hi; subst x. unfold parts_from. simpl. rewrite String.eqb_refl. simpl.
      fold (parts_from (S s) name idx). rewrite parts_from_filter_absent by assumption.
      simpl. rewrite Nat.add_0_r. reflexivity.
    + assert (x <> k).
      { intros ->. apply Hx. eapply nth_error_In; eassumption. }
      unfold parts_from. simpl.
      destruct (String.eqb x k) eqn:E; [apply String.eqb_eq in E; contradiction|].
      fold (parts_from (S s) name idx). rewrite (IH (S s) i Hidx Hi).
      f_equal. f_equal. lia.
Qed.

(** * Stage 1: [Assignment.__post_init__] *)

Definition free_of_reserved (idx : list string) : Prop :=
  forall k, In k idx -> mem_str k ["output"; "left"; "right"] = false.

Lemma free_of_reserved_nil : free_of_reserved [].
Proof. intros k []. Qed.

Lemma free_of_reserved_names n : free_of_reserved (index_names n).
Proof. intros k H. eapply index_names_not_reserved; eassumption. Qed.

Lemma validate_binary e idx idx1 idx2 :
  (e = EAdd \/ e = ESub \/ e = EMul) ->
  free_of_reserved idx -> free_of_reserved idx1 -> free_of_reserved idx2 ->
  validate_assignment
    (mkAssignment "output" idx (e (ETensor "left" idx1) (ETensor "right" idx2)))
  = Pass [("output", length idx); ("left", length idx1); ("right", length idx2)].
Proof.
  intros He H0 H1 H2. unfold validate_assignment.
  assert (Hv : variables (e (ETensor "left" idx1) (ETensor "right" idx2))
               = [("left", [idx1]); ("right", [idx2])])
    by (destruct He as [-> | [-> | ->]]; reflexivity).
  simpl a_rhs. rewrite Hv. cbn.
  rewrite !app_nil_r.
  match goal with |- (if ?b then _ else _) = _ => destruct b eqn:E end; [|reflexivity].
  exfalso. apply existsb_exists in E as [k [Hin Hk]].
  assert (Hf : mem_str k ["output"; "left"; "right"] = false).
  { apply in_app_or in Hin as [Hin | Hin]; [apply H0; assumption|].
    apply in_app_or in Hin as [Hin | Hin]; [apply H1 | apply H2]; assumption. }
  unfold mem_str in Hf. simpl in Hf. simpl in Hk. congruence.
Qed.

(** * Stage 3: [make_problem] on the three formats *)

Lemma make_problem_3 n1 n2 n3 fo fl fr :
  length (f_modes fo) = n1 -> length (f_modes fl) = n2 -> length (f_modes fr) = n3 ->
  make_problem [("output", n1); ("left", n2); ("right", n3)]
               [("output", fo); ("left", fl); ("right", fr)]
  = Pass [("output", fo); ("left", fl); ("right", fr)].
Proof. intros <- <- <-. unfold make_problem. cbn. rewrite !Nat.eqb_refl. reflexivity. Qed.

(** * Stage 7: dimensions *)

Lemma index_size_two ld rd fl fr idx i k d :
  NoDup idx -> nth_error idx i = Some k -> nth_error ld i = Some d -> nth_error rd i = Some d ->
  index_size [("left", (ld, fl)); ("right", (rd, fr))]
             (parts_from 0 "left" idx ++ parts_from 0 "right" idx) k = Pass d.
Proof.
  intros Hnd Hk Hl Hr. unfold index_size.
  rewrite filter_app, map_app, !(parts_from_filter _ k idx 0 i Hnd Hk). simpl.
  unfold participant_size. simpl. rewrite Hl, Hr. rewrite Z.eqb_refl. reflexivity.
Qed.

Lemma index_size_left ld fl fr idx i k d :
  NoDup idx -> nth_error idx i = Some k -> nth_error ld i = Some d ->
  index_size [("left", (ld, fl)); ("right", ([], fr))]
             (parts_from 0 "left" idx ++ parts_from 0 "right" []) k = Pass d.
Proof.
  intros Hnd Hk Hl. unfold index_size.
  rewrite filter_app, map_app, (parts_from_filter _ k idx 0 i Hnd Hk). simpl.
  unfold participant_size. simpl. rewrite Hl. reflexivity.
Qed.

Lemma index_size_right rd fl fr idx i k d :
  NoDup idx -> nth_error idx i = Some k -> nth_error rd i = Some d ->
  index_size [("left", ([], fl)); ("right", (rd, fr))]
             (parts_from 0 "left" [] ++ parts_from 0 "right" idx) k = Pass d.
Proof.
  intros Hnd Hk Hr. unfold index_size.
  rewrite filter_app, map_app, (parts_from_filter _ k idx 0 i Hnd Hk). simpl.
  unfold participant_size. simpl. rewrite Hr. reflexivity.
Qed.

Lemma nth_error_same_length {A B} (l : list A) (l' : list B) i x :
  length l = length l' -> nth_error l i = Some x -> exists y, nth_error l' i = Some y.
Proof.
  intros Hlen H.
  assert (i < length l')%nat by (rewrite <- Hlen; apply nth_error_Some; congruence).
  destruct (nth_error l' i) eqn:E; [eauto | apply nth_error_None in E; lia].
Qed.

(** generic shape of stage 7: every name of [idx] has the size of the same position of [ds] *)
Lemma check_dimensions_generic a args idx ds :
  a_target_indexes a = idx -> length idx = length ds ->
  (forall k, In k (map fst (participants (a_rhs a))) -> In k idx) ->
  (forall i k, nth_error idx i = Some k ->
     exists d, nth_error ds i = Some d /\ index_size args (participants (a_rhs a)) k = Pass d) ->
  check_dimensions a args = Pass ds.
Proof.
  intros Ht Hlen Hsub Hsize. unfold check_dimensions.
  destruct (checked_map_pass (index_size args (participants (a_rhs a)))
                             (dedup (map fst (participants (a_rhs a))))) as [ys ->].
  - intros k Hk. apply -> dedup_In in Hk. apply Hsub in Hk.
    apply In_nth_error in Hk as [i Hi]. destruct (Hsize i k Hi) as [d [_ Hd]]. eauto.
  - rewrite Ht. apply checked_map_nth_error; assumption.
Qed.

(** * The element-wise requests pass all checks *)

Lemma checks_tt ld lm lo rd rm ro o q :
  wf_operand (OTensor ld lm lo) = true -> wf_operand (OTensor rd rm ro) = true ->
  binary_operator_request (OTensor ld lm lo) (OTensor rd rm ro) o = Ok q ->
  request_checks q (OTensor ld lm lo) (OTensor rd rm ro) = Pass ld.
Proof.
  intros Hwl Hwr. apply wf_tensor_inv in Hwl as [Hlm [Hlo Hlv]].
  apply wf_tensor_inv in Hwr as [Hrm [Hro Hrv]].
  unfold binary_operator_request.
  destruct (list_eqb Z.eqb ld rd) eqn:E; simpl negb; cbv iota; [|discriminate].
  apply list_eqb_Z in E. subst rd.
  intros Hq. inversion Hq; subst q; clear Hq.
  set (idx := index_names (length ld)).
  set (out := natural_format match o with
                             | OpMul => modes_intersection lm rm
                             | _ => modes_union lm rm
                             end).
  assert (Hout : length (f_modes out) = length ld).
  { unfold out. simpl. destruct o;
      rewrite ?modes_union_length, ?modes_intersection_length by congruence; assumption. }
  unfold request_checks. simpl rq_assignment. simpl rq_format.
  rewrite (validate_binary (op_expr o) idx idx idx)
    by (try apply free_of_reserved_names; destruct o; simpl; auto).
  replace (valid_format out) with true by (symmetry; apply valid_natural_format).
  simpl negb. cbv iota.
  unfold request_formats, request_args, lr_bindings. simpl rq_bindings. simpl rq_assignment.
  cbn [map fst snd bound_descr operand_dims operand_format a_target_name assoc String.eqb
       Ascii.eqb Bool.eqb rq_format].
  rewrite make_problem_3
    by (unfold idx; rewrite ?index_names_length; first [assumption | simpl; congruence]).
  (* broadcast *)
  assert (Hparts : participants (op_expr o (ETensor "left" idx) (ETensor "right" idx))
                   = parts_from 0 "left" idx ++ parts_from 0 "right" idx)
    by (destruct o; reflexivity).
  assert (Hb : check_broadcast
                 (mkAssignment "output" idx (op_expr o (ETensor "left" idx) (ETensor "right" idx)))
               = true).
  { unfold check_broadcast. simpl a_rhs. simpl a_target_indexes.
    rewrite Hparts, map_app, !parts_from_fst.
    apply forallb_forall. intros k Hk. apply mem_str_In. apply in_or_app. left; assumption. }
  rewrite Hb. simpl negb. cbv iota.
  (* bind, arguments *)
  unfold check_bind, check_arguments.
  cbn [keys map fst snd a_target_name filter String.eqb Ascii.eqb Bool.eqb negb forallb mem_str
       existsb orb andb assoc].
  rewrite !format_eqb_refl. simpl f_modes. rewrite Hlm, Hrm, !Nat.eqb_refl. simpl.
  (* dimensions *)
  apply (check_dimensions_generic _ _ idx ld); simpl a_rhs; simpl a_target_indexes.
  - reflexivity.
  - unfold idx. apply index_names_length.
  - rewrite Hparts, map_app, !parts_from_fst. intros k Hk. apply in_app_or in Hk. tauto.
  - intros i k Hk. rewrite Hparts.
    destruct (nth_error_same_length idx ld i k) as [d Hd];
      [unfold idx; apply index_names_length | assumption |].
    exists d. split; [assumption|].
    apply (index_size_two ld ld _ _ idx i k d); auto. apply index_names_NoDup.
Qed.

Lemma checks_ts ld lm lo o q :
  wf_operand (OTensor ld lm lo) = true ->
  binary_operator_request (OTensor ld lm lo) OScalar o = Ok q ->
  request_checks q (OTensor ld lm lo) OScalar = Pass ld.
Proof.
  intros Hwl. apply wf_tensor_inv in Hwl as [Hlm [Hlo Hlv]].
  unfold binary_operator_request.
  intros Hq. inversion Hq; subst q; clear Hq.
  set (idx := index_names (length ld)).
  set (out := match o with
              | OpMul => mkFormat lm lo
              | _ => natural_format (repeat MDense (length ld))
              end).
  assert (Hout : length (f_modes out) = length ld).
  { unfold out. destruct o; simpl; rewrite ?repeat_length; auto. }
  assert (Hvalid : valid_format out = true).
  { unfold out. destruct o; try apply valid_natural_format. assumption. }
  unfold request_checks. simpl rq_assignment. simpl rq_format.
  rewrite (validate_binary (op_expr o) idx idx [])
    by (try apply free_of_reserved_names; try apply free_of_reserved_nil; destruct o; simpl; auto).
  rewrite Hvalid. simpl negb. cbv iota.
  unfold request_formats, request_args, lr_bindings. simpl rq_bindings. simpl rq_assignment.
  cbn [map fst snd bound_descr operand_dims operand_format a_target_name assoc String.eqb
       Ascii.eqb Bool.eqb rq_format].
  rewrite make_problem_3
    by (unfold idx; rewrite ?index_names_length; first [assumption | simpl; congruence]).
  assert (Hparts : participants (op_expr o (ETensor "left" idx) (ETensor "right" []))
                   = parts_from 0 "left" idx ++ parts_from 0 "right" [])
    by (destruct o; reflexivity).
  assert (Hb : check_broadcast
                 (mkAssignment "output" idx (op_expr o (ETensor "left" idx) (ETensor "right" [])))
               = true).
  { unfold check_broadcast. simpl a_rhs. simpl a_target_indexes.
    rewrite Hparts, map_app, !parts_from_fst.
    apply forallb_forall. intros k Hk. apply mem_str_In. apply in_or_app. left; assumption. }
  rewrite Hb. simpl negb. cbv iota.
  unfold check_bind, check_arguments.
  cbn [keys map fst snd a_target_name filter String.eqb Ascii.eqb Bool.eqb negb forallb mem_str
       existsb orb andb assoc].
  rewrite !format_eqb_refl. simpl f_modes. rewrite Hlm, !Nat.eqb_refl. simpl.
  apply (check_dimensions_generic _ _ idx ld); simpl a_rhs; simpl a_target_indexes.
  - reflexivity.
  - unfold idx. apply index_names_length.
  - rewrite Hparts, map_app, !parts_from_fst. intros k Hk. apply in_app_or in Hk.
    destruct Hk as [Hk | []]. assumption.
  - intros i k Hk. rewrite Hparts.
    destruct (nth_error_same_length idx ld i k) as [d Hd];
      [unfold idx; apply index_names_length | assumption |].
    exists d. split; [assumption|].
    apply (index_size_left ld _ _ idx i k d); auto. apply index_names_NoDup.
Qed.

Lemma checks_st rd rm ro o q :
  wf_operand (OTensor rd rm ro) = true ->
  binary_operator_request OScalar (OTensor rd rm ro) o = Ok q ->
  request_checks q OScalar (OTensor rd rm ro) = Pass rd.
Proof.
  intros Hwr. apply wf_tensor_inv in Hwr as [Hrm [Hro Hrv]].
  unfold binary_operator_request.
  intros Hq. inversion Hq; subst q; clear Hq.
  set (idx := index_names (length rd)).
  set (out := match o with
              | OpMul => mkFormat rm ro
              | _ => natural_format (repeat MDense (length rd))
              end).
  assert (Hout : length (f_modes out) = length rd).
  { unfold out. destruct o; simpl; rewrite ?repeat_length; auto. }
  assert (Hvalid : valid_format out = true).
  { unfold out. destruct o; try apply valid_natural_format. assumption. }
  unfold request_checks. simpl rq_assignment. simpl rq_format.
  rewrite (validate_binary (op_expr o) idx [] idx)
    by (try apply free_of_reserved_names; try apply free_of_reserved_nil; destruct o; simpl; auto).
  rewrite Hvalid. simpl negb. cbv iota.
  unfold request_formats, request_args, lr_bindings. simpl rq_bindings. simpl rq_assignment.
  cbn [map fst snd bound_descr operand_dims operand_format a_target_name assoc String.eqb
       Ascii.eqb Bool.eqb rq_format].
  rewrite make_problem_3
    by (unfold idx; rewrite ?index_names_length; first [assumption | simpl; congruence]).
  assert (Hparts : participants (op_expr o (ETensor "left" []) (ETensor "right" idx))
                   = parts_from 0 "left" [] ++ parts_from 0 "right" idx)
    by (destruct o; reflexivity).
  assert (Hb : check_broadcast
                 (mkAssignment "output" idx (op_expr o (ETensor "left" []) (ETensor "right" idx)))
               = true).
  { unfold check_broadcast. simpl a_rhs. simpl a_target_indexes.
    rewrite Hparts, map_app, !parts_from_fst.
    apply forallb_forall. intros k Hk. apply mem_str_In. apply in_or_app. right; assumption. }
  rewrite Hb. simpl negb. cbv iota.
  unfold check_bind, check_arguments.
  cbn [keys map fst snd a_target_name filter String.eqb Ascii.eqb Bool.eqb negb forallb mem_str
       existsb orb andb assoc].
  rewrite !format_eqb_refl. simpl f_modes. rewrite Hrm, !Nat.eqb_refl. simpl.
  apply (check_dimensions_generic _ _ idx rd); simpl a_rhs; simpl a_target_indexes.
  - reflexivity.
  - unfold idx. apply index_names_length.
  - rewrite Hparts, map_app, !parts_from_fst. intros k Hk. apply in_app_or in Hk.
    destruct Hk as [[] | Hk]. assumption.
  - intros i k Hk. rewrite Hparts.
    destruct (nth_error_same_length idx rd i k) as [d Hd];
      [unfold idx; apply index_names_length | assumption |].
    exists d. split; [assumption|].
    apply (index_size_right rd _ _ idx i k d); auto. apply index_names_NoDup.
Qed.

Theorem request_wf l r o q :
  wf_operand l = true -> wf_operand r = true ->
  binary_operator_request l r o = Ok q ->
  request_checks q l r = Pass (pointwise_dims l r).
Proof.
  destruct l as [ld lm lo| |], r as [rd rm ro| |]; simpl pointwise_dims;
    intros Hl Hr Hq; try (simpl in Hq; discriminate).
  - eapply checks_tt; eassumption.
  - eapply checks_ts; eassumption.
  - eapply checks_st; eassumption.
Qed.

(** * Matrix multiplication: stages 1-6 once and for all, stage 7 by computation *)

Lemma checks_generic e tidx lidx ridx out bl br l r ds :
  (e = EAdd \/ e = ESub \/ e = EMul) ->
  free_of_reserved tidx -> free_of_reserved lidx -> free_of_reserved ridx ->
  valid_format out = true -> length (f_modes out) = length tidx ->
  length (f_modes (snd (bound_descr l r bl))) = length lidx ->
  length (fst (bound_descr l r bl)) = length lidx ->
  length (f_modes (snd (bound_descr l r br))) = length ridx ->
  length (fst (bound_descr l r br)) = length ridx ->
  (forall k, In k tidx -> In k (lidx ++ ridx)) ->
  check_dimensions (mkAssignment "output" tidx (e (ETensor "left" lidx) (ETensor "right" ridx)))
                   [("left", bound_descr l r bl); ("right", bound_descr l r br)] = Pass ds ->
  request_checks
    (mkRequest (mkAssignment "output" tidx (e (ETensor "left" lidx) (ETensor "right" ridx)))
               out [("left", bl); ("right", br)]) l r = Pass ds.
Proof.
  intros He H0 H1 H2 Hv Hout Hlf Hld Hrf Hrd Hsub Hdims.
  unfold request_checks. simpl rq_assignment. simpl rq_format.
  rewrite (validate_binary e tidx lidx ridx) by assumption.
  rewrite Hv. simpl negb. cbv iota.
  unfold request_formats, request_args. simpl rq_bindings. simpl rq_assignment.
  cbn [map fst snd a_target_name assoc String.eqb Ascii.eqb Bool.eqb rq_format].
  rewrite make_problem_3 by assumption.
  assert (Hparts : participants (e (ETensor "left" lidx) (ETensor "right" ridx))
                   = parts_from 0 "left" lidx ++ parts_from 0 "right" ridx)
    by (destruct He as [-> | [-> | ->]]; reflexivity).
  assert (Hb : check_broadcast
                 (mkAssignment "output" tidx (e (ETensor "left" lidx) (ETensor "right" ridx)))
               = true).
  { unfold check_broadcast. simpl a_rhs. simpl a_target_indexes.
    rewrite Hparts, map_app, !parts_from_fst.
    apply forallb_forall. intros k Hk. apply mem_str_In. apply Hsub; assumption. }
  rewrite Hb. simpl negb. cbv iota.
  unfold check_bind, check_arguments.
  cbn [keys map fst snd a_target_name filter String.eqb Ascii.eqb Bool.eqb negb forallb mem_str
       existsb orb andb assoc].
  rewrite !format_eqb_refl. rewrite Hld, Hrd, Hlf, Hrf, !Nat.eqb_refl. simpl.
  exact Hdims.
Qed.

Ltac reserved_free :=
  let k := fresh "k" in let H := fresh "H" in
  intros k H; simpl in H;
  repeat (destruct H as [<- | H]; [reflexivity|]); destruct H.

Theorem matmul_request_wf l r q :
  wf_operand l = true -> wf_operand r = true ->
  matmul_request l r = Ok q ->
  request_checks q l r = Pass (matmul_dims l r).
Proof.
  destruct l as [ld lm lo| |], r as [rd rm ro| |]; try (simpl; discriminate).
  intros Hwl Hwr. apply wf_tensor_inv in Hwl as [Hlm [Hlo Hlv]].
  apply wf_tensor_inv in Hwr as [Hrm [Hro Hrv]].
  unfold matmul_request.
  destruct ld as [|l0 [|l1 [|l2 ld]]]; destruct rd as [|r0 [|r1 [|r2 rd]]]; try discriminate.
  - destruct (list_eqb Z.eqb [l0] [r0]) eqn:E; simpl negb; cbv iota; [|discriminate].
    apply list_eqb_Z in E. inversion E; subst r0.
    intros Hq. inversion Hq; subst q; clear Hq. unfold lr_bindings.
    apply (checks_generic EMul); auto; try reserved_free; try apply valid_natural_format;
      try (simpl; tauto).
    unfold matmul_dims, check_dimensions, index_size, participant_size. simpl operand_dims. cbn.
    rewrite Z.eqb_refl. reflexivity.
  - destruct (Z.eqb l0 r0) eqn:E; simpl negb; cbv iota; [|discriminate].
    apply Z.eqb_eq in E. subst r0.
    destruct (mode_at_ordering rm ro 1); [|discriminate].
    intros Hq. inversion Hq; subst q; clear Hq. unfold lr_bindings.
    apply (checks_generic EMul); auto; try reserved_free; try apply valid_natural_format;
      try (simpl; tauto).
    unfold matmul_dims, check_dimensions, index_size, participant_size. simpl operand_dims. cbn.
    rewrite Z.eqb_refl. reflexivity.
  - destruct (Z.eqb l1 r0) eqn:E; simpl negb; cbv iota; [|discriminate].
    apply Z.eqb_eq in E. subst r0.
    destruct (mode_at_ordering lm lo 0); [|discriminate].
    intros Hq. inversion Hq; subst q; clear Hq. unfold lr_bindings.
    apply (checks_generic EMul); auto; try reserved_free; try apply valid_natural_format;
      try (simpl; tauto).
    unfold matmul_dims, check_dimensions, index_size, participant_size. simpl operand_dims. cbn.
    rewrite Z.eqb_refl. reflexivity.
  - destruct (Z.eqb l1 r0) eqn:E; simpl negb; cbv iota; [|discriminate].
    apply Z.eqb_eq in E. subst r0.
    destruct (mode_at_ordering lm lo 0); [|discriminate].
    destruct (mode_at_ordering rm ro 1); [|discriminate].
    intros Hq. inversion Hq; subst q; clear Hq. unfold lr_bindings.
    apply (checks_generic EMul); auto; try reserved_free; try apply valid_natural_format;
      try (simpl; tauto).
    unfold matmul_dims, check_dimensions, index_size, participant_size. simpl operand_dims. cbn.
    rewrite Z.eqb_refl. reflexivity.
Qed.
