(** TIE -- construction and identity of problems regenerated from problem.py, expression/ast.py
    ([Assignment.__post_init__]), format/_format.py ([Format.__post_init__]) and the entry points of
    compile/_porcelain.py (gen/ProblemGen.v) equal the hand models model/ExprAst.v
    ([assignment_check], [variable_orders]), model/Problem.v ([problem_ctor], [make_problem],
    [problem_eqb], [hash_key]) and model/Validate.v ([formats_of_inputs], [dict_union]) -- for every
    assignment, every dict of formats, every dict of arguments: same Problem, or the same error
    (class and raise site), through the same channel ([Failure] returned / exception raised).

    The loops are handled by lemmas generic in the body that ask for a specification of one round,
    proved by computation on whatever text was generated. *)

From Coq Require Import ZArith List Bool String Lia Permutation.
From TV Require Import spec.Num spec.PyBase spec.PyLib.
From TV Require gen.Deparse gen.TensorMethod gen.ProblemGen model.ExprAst model.Problem model.Validate
  proofs.ValidateBase proofs.ValidateVars proofs.ProblemSpec proofs.GenVariables_equiv proofs.GenValidate_equiv.
Import ListNotations.
Open Scope string_scope.
Open Scope list_scope.

Module GD := TV.gen.Deparse.
Module GT := TV.gen.TensorMethod.
Module GP := TV.gen.ProblemGen.
Module EA := TV.model.ExprAst.
Module MP := TV.model.Problem.
Module MV := TV.model.Validate.
Module GV := TV.proofs.GenVariables_equiv.
Module GVal := TV.proofs.GenValidate_equiv.
Module VB := TV.proofs.ValidateBase.
Module VV := TV.proofs.ValidateVars.
Module PS := TV.proofs.ProblemSpec.

(* ------------------------------------------------------------------------------------------ *)
(** * exceptions of the generated functions as errors of the model: class AND raise site *)

Definition kind (e : GT.pyexc) : EA.error :=
  match e with
  | GT.PyExc cls site vals =>
      let named (k : string -> EA.error) :=
        match vals with GT.VStr n :: _ => k n | _ => EA.EInternal "" end in
      if String.eqb cls "MutatingAssignmentError" && Z.eqb site 0 then EA.EMutatingAssignment
      else if String.eqb cls "InconsistentDimensionsError" && Z.eqb site 1 then EA.EInconsistentDimensions
      else if String.eqb cls "NameConflictError" && Z.eqb site 2 then EA.ENameConflict
      else if String.eqb cls "UndefinedReferenceError" && Z.eqb site 0 then named EA.EUndefinedReference
      else if String.eqb cls "IncorrectDimensionsError" && Z.eqb site 1 then named EA.EIncorrectDimensions
      else if String.eqb cls "UnusedFormatError" && Z.eqb site 0 then named EA.EUnusedFormat
      else if String.eqb cls "TypeError" && Z.eqb site 0 then named EA.ETypeErrorNotTensor
      else EA.EInternal ""
  end.

Definition cres {A} (r : GT.pyres A) : EA.result A :=
  match r with GT.Ret a => EA.Ok a | GT.Raise e => EA.Error (kind e) end.

Notation canon_err := GVal.canon_err.
Notation canon := GVal.canon.

Lemma cres_Ok : forall {A} (r : GT.pyres A) a, cres r = EA.Ok a -> r = GT.Ret a.
Proof. intros A [x|x] a H; simpl in H; congruence. Qed.

Lemma cres_Error : forall {A} (r : GT.pyres A) e, cres r = EA.Error e -> exists x, r = GT.Raise x /\ kind x = e.
Proof. intros A [x|x] e H; simpl in H; [discriminate|]. inversion H. eauto. Qed.

Lemma kind_builtin : forall cls, In cls ["KeyError"; "ValueError"; "AttributeError"; "IndexError"] ->
  kind (GT.builtin_exc cls) = EA.EInternal "".
Proof.
  intros cls H. unfold GT.builtin_exc, kind.
  repeat match goal with |- context [Z.eqb (-1) ?k] => change (Z.eqb (-1) k) with false end.
  rewrite !andb_false_r. reflexivity.
Qed.

(** the result monad of the model, and folds in it *)
Fixpoint mfold {A B} (g : B -> A -> EA.result B) (xs : list A) (acc : B) : EA.result B :=
  match xs with
  | [] => EA.Ok acc
  | x :: r => match g acc x with EA.Error e => EA.Error e | EA.Ok acc1 => mfold g r acc1 end
  end.

Lemma cres_rfold : forall {A B} (f : B -> A -> GT.pyres B) (g : B -> A -> EA.result B) l acc,
  (forall acc x, In x l -> cres (f acc x) = g acc x) -> cres (GT.rfold f l acc) = mfold g l acc.
Proof.
  induction l as [|x r IH]; intros acc H; simpl; [reflexivity|].
  rewrite <- (H acc x (or_introl eq_refl)).
  destruct (f acc x) as [acc1|e]; simpl; [|reflexivity]. apply IH. intros; apply H; right; assumption.
Qed.

Lemma cres_rbind : forall {A B} (r : GT.pyres A) (f : A -> GT.pyres B),
  cres (GT.rbind r f) = match cres r with EA.Ok a => cres (f a) | EA.Error e => EA.Error e end.
Proof. intros A B [a|e] f; reflexivity. Qed.

(** a pure loop *)
Lemma rfold_pure : forall {A B} (f : B -> A -> GT.pyres B) (g : B -> A -> B) l acc,
  (forall acc x, In x l -> f acc x = GT.Ret (g acc x)) -> GT.rfold f l acc = GT.Ret (fold_left g l acc).
Proof.
  induction l as [|x r IH]; intros acc H; simpl; [reflexivity|].
  rewrite (H acc x (or_introl eq_refl)). apply IH. intros; apply H; right; assumption.
Qed.

(* ------------------------------------------------------------------------------------------ *)
(** * liftings *)

Definition ex_of_tref (t : EA.tref) : GD.ex_expr := GD.ExTensor (EA.t_name t) (EA.t_indexes t).

Definition lift_vars (d : list (string * list EA.tref)) : list (string * list GD.ex_expr) :=
  map (fun kv => (fst kv, map ex_of_tref (snd kv))) d.

Definition lift_orders (vo : list (string * nat)) : list (string * Z) :=
  map (fun kv => (fst kv, Z.of_nat (snd kv))) vo.

Notation lift_format := GVal.lift_format.
Notation lift_formats := GVal.lift_formats.

(** [Assignment(Tensor(tn, tidx), e)] in the two worlds *)
Definition gassign (tn : string) (tidx : list string) (e : GD.ex_expr) : GD.ex_assignment :=
  GD.ExAssignment (GD.ExTensor tn tidx) e.
Definition massign (fid : F -> Z) (tn : string) (tidx : list string) (e : GD.ex_expr) : EA.assignment :=
  EA.Assignment (EA.TRef tn tidx) (GV.convA fid e).

(* ------------------------------------------------------------------------------------------ *)
(** * the values of [variables()] are [Tensor] objects *)

Definition is_tensor (x : GD.ex_expr) : Prop := exists n i, x = GD.ExTensor n i.
Definition allT (d : list (string * list GD.ex_expr)) : Prop :=
  Forall (fun kv => Forall is_tensor (snd kv)) d.

Lemma allT_get : forall k d v, allT d -> dict_get String.eqb k d = Some v -> Forall is_tensor v.
Proof.
  induction d as [|[k' v'] r IH]; simpl; intros v H G; [discriminate|]. inversion H; subst.
  destruct (String.eqb k k'); [inversion G; subst; assumption | eauto].
Qed.

Lemma allT_set : forall k v d, allT d -> Forall is_tensor v -> allT (dict_set String.eqb k v d).
Proof.
  induction d as [|[k' v'] r IH]; simpl; intros H Hv.
  - constructor; [assumption | constructor].
  - inversion H; subst. destruct (String.eqb k k'); constructor; simpl; try assumption.
    apply IH; assumption.
Qed.

Lemma merge_allT : forall (step : list (string * list GD.ex_expr) -> string * list GD.ex_expr -> option (list (string * list GD.ex_expr))),
  (forall d k v d', step d (k, v) = Some d' -> allT d -> Forall is_tensor v -> allT d') ->
  forall r l d, ofold step r l = Some d -> allT l -> allT r -> allT d.
Proof.
  intros step Hs. induction r as [|[k v] r IH]; intros l d H Hl Hr; simpl in H.
  - inversion H; subst; assumption.
  - inversion Hr; subst. destruct (step l (k, v)) as [d'|] eqn:E; [|discriminate].
    eapply IH; eauto.
Qed.

Ltac allT_arm IH1 IH2 H :=
  let d1 := fresh "d" in let d2 := fresh "d" in let E1 := fresh "E" in let E2 := fresh "E" in
  destruct (GD.Expression_variables _) as [d1|] eqn:E1 in H; [|discriminate];
  destruct (GD.Expression_variables _) as [d2|] eqn:E2 in H; [|discriminate];
  specialize (IH1 _ E1); specialize (IH2 _ E2);
  match type of H with context [ofold ?step d2 d1] =>
    let dd := fresh "d" in let E := fresh "E" in
    destruct (ofold step d2 d1) as [dd|] eqn:E in H; [|discriminate];
    inversion H; subst; clear H;
    refine (merge_allT step _ d2 d1 _ E IH1 IH2);
    let d0 := fresh "d" in let k := fresh "k" in let v := fresh "v" in let d' := fresh "d" in
    let Hs := fresh "Hs" in let Ha := fresh "Ha" in let Hv := fresh "Hv" in
    intros d0 k v d' Hs Ha Hv; cbv beta iota in Hs;
    destruct (dict_mem String.eqb k d0);
      [ destruct (dict_get String.eqb k d0) as [old|] eqn:G; [|discriminate];
        inversion Hs; subst; apply allT_set; [assumption|];
        apply Forall_app; split; [eapply allT_get; eassumption | assumption]
      | inversion Hs; subst; apply allT_set; assumption ]
  end.

Lemma variables_allT : forall e d, GD.Expression_variables e = Some d -> allT d.
Proof.
  induction e; intros d H; cbn [GD.Expression_variables] in H.
  - inversion H; constructor.
  - inversion H; constructor.
  - inversion H; subst. constructor; [|constructor]. constructor; [|constructor]. red; eauto.
  - allT_arm IHe1 IHe2 H.
  - allT_arm IHe1 IHe2 H.
  - allT_arm IHe1 IHe2 H.
Qed.

Lemma tensors_roundtrip : forall v, Forall is_tensor v -> map ex_of_tref (map GV.tref_of v) = v.
Proof.
  induction 1 as [|x v [n [i ->]] _ IH]; simpl; [reflexivity|]. rewrite IH. reflexivity.
Qed.

(** [Expression.variables()] as a value of the generated type, from the model's *)
Theorem gen_variables_lift : forall fid e,
  GD.Expression_variables e = Some (lift_vars (EA.variables (GV.convA fid e))).
Proof.
  intros fid e. destruct (GV.gen_variables_equiv fid e) as [d [E M]]. rewrite E. f_equal.
  rewrite <- M. pose proof (variables_allT e d E) as HT. clear E M.
  induction HT as [|[k v] r Hv _ IH]; simpl; [reflexivity|]. simpl in Hv.
  rewrite tensors_roundtrip by assumption. f_equal. exact IH.
Qed.

(* ------------------------------------------------------------------------------------------ *)
(** * generic loop lemmas over lists of [Tensor] objects *)

Lemma cres_rfold_map : forall {A A' B} (h : A' -> A) (f : B -> A -> GT.pyres B) (g : B -> A' -> EA.result B) l acc,
  (forall acc x, cres (f acc (h x)) = g acc x) -> cres (GT.rfold f (map h l) acc) = mfold g l acc.
Proof.
  induction l as [|x r IH]; intros acc H; simpl; [reflexivity|].
  rewrite <- (H acc x). destruct (f acc (h x)) as [acc1|e]; simpl; [|reflexivity]. apply IH. assumption.
Qed.

Lemma rfold_map_pure : forall {A A' B} (h : A' -> A) (f : B -> A -> GT.pyres B) (g : B -> A' -> B) l acc,
  (forall acc x, f acc (h x) = GT.Ret (g acc x)) -> GT.rfold f (map h l) acc = GT.Ret (fold_left g l acc).
Proof.
  induction l as [|x r IH]; intros acc H; simpl; [reflexivity|]. rewrite H. apply IH. assumption.
Qed.

Lemma rfold_map_check : forall {A A'} (h : A' -> A) (f : unit -> A -> GT.pyres unit) (c : A' -> bool) err l,
  (forall x, f tt (h x) = if c x then GT.Ret tt else GT.Raise err) ->
  GT.rfold f (map h l) tt = if forallb c l then GT.Ret tt else GT.Raise err.
Proof.
  induction l as [|x r IH]; intros H; simpl; [reflexivity|]. rewrite H.
  destruct (c x); simpl; [apply IH; assumption | reflexivity].
Qed.

Lemma dict_set_fresh : forall {V} k (v : V) d, ~ In k (map fst d) -> dict_set String.eqb k v d = d ++ [(k, v)].
Proof.
  induction d as [|[k' v'] r IH]; simpl; intros H; [reflexivity|].
  destruct (String.eqb k k') eqn:E; [apply String.eqb_eq in E; subst; tauto|]. rewrite IH by tauto. reflexivity.
Qed.

Lemma py_in_smem : forall x l, py_in String.eqb x l = EA.smem x l.
Proof. unfold py_in. induction l as [|y l IH]; simpl; [reflexivity|]. rewrite IH. reflexivity. Qed.

Lemma py_in_In : forall x l, py_in String.eqb x l = true <-> In x l.
Proof. intros. rewrite py_in_smem. apply VB.smem_In. Qed.

Lemma set_of_list_In : forall x l, In x (set_of_list String.eqb l) <-> In x l.
Proof.
  induction l as [|y l IH]; simpl; [tauto|].
  destruct (py_in String.eqb y l) eqn:E.
  - rewrite IH. split; [tauto|]. intros [->|H]; [apply py_in_In; assumption | assumption].
  - simpl. rewrite IH. tauto.
Qed.

Lemma set_union_In : forall x a b, In x (set_union String.eqb a b) <-> In x a \/ In x b.
Proof.
  intros. unfold set_union. rewrite in_app_iff, filter_In. split.
  - tauto.
  - intros [H|H]; [tauto|]. destruct (py_in String.eqb x a) eqn:E; [left; apply py_in_In; assumption|].
    right. auto.
Qed.

Lemma inter_nonempty : forall (a b : list string),
  (Z.of_nat (List.length (set_inter String.eqb a b)) >? 0)%Z = existsb (fun x => EA.smem x b) a.
Proof.
  induction a as [|x a IH]; intros b; simpl; [reflexivity|]. unfold set_inter in *. simpl.
  rewrite py_in_smem. destruct (EA.smem x b); simpl; [|apply IH].
  destruct (List.length _); reflexivity.
Qed.

Lemma existsb_same_elements : forall (p : string -> bool) X Y,
  (forall i, In i X <-> In i Y) -> existsb p X = existsb p Y.
Proof.
  intros p X Y H. destruct (existsb p X) eqn:E1, (existsb p Y) eqn:E2; try reflexivity.
  - apply existsb_exists in E1. destruct E1 as [x [H1 H2]]. apply H in H1.
    assert (existsb p Y = true) by (apply existsb_exists; eauto). congruence.
  - apply existsb_exists in E2. destruct E2 as [x [H1 H2]]. apply H in H1.
    assert (existsb p X = true) by (apply existsb_exists; eauto). congruence.
Qed.

(* ------------------------------------------------------------------------------------------ *)
(** * [Assignment.__post_init__] *)

Section PostInit.
Variable tn : string.

Definition names_add (s : list string) (refs : list EA.tref) : list string :=
  fold_left (fun s t => set_union String.eqb s (set_of_list String.eqb (EA.t_indexes t))) refs s.

(** one round of the loop over [variables_mapping.items()], in the model's monad *)
Definition round (acc : list string * list (string * Z)) (kv : string * list EA.tref)
  : EA.result (list string * list (string * Z)) :=
  if String.eqb (fst kv) tn then EA.Error EA.EMutatingAssignment
  else match snd kv with
       | [] => EA.Error (EA.EInternal "")
       | first :: others =>
           if forallb (fun v => Nat.eqb (EA.t_order first) (EA.t_order v)) others
           then EA.Ok (names_add (fst acc) (snd kv),
                       dict_set String.eqb (fst kv) (Z.of_nat (EA.t_order first)) (snd acc))
           else EA.Error EA.EInconsistentDimensions
       end.

Lemma loop_model : forall vs done names vo,
  NoDup (done ++ EA.akeys vs) -> map fst vo = tn :: done ->
  mfold round vs (names, vo) =
    match EA.check_variables tn vs with
    | EA.Error e => EA.Error (canon_err e)
    | EA.Ok _ => EA.Ok (fold_left names_add (map snd vs) names,
                        vo ++ lift_orders (map (fun kv => (fst kv, EA.first_order (snd kv))) vs))
    end.
Proof.
  induction vs as [|[n refs] rest IH]; intros done names vo ND Hk; simpl.
  - rewrite app_nil_r. reflexivity.
  - unfold round at 1. cbn [fst snd]. destruct (String.eqb n tn) eqn:E; [reflexivity|].
    destruct refs as [|first others]; [reflexivity|].
    destruct (forallb _ others); [|reflexivity].
    rewrite dict_set_fresh.
    + rewrite (IH (done ++ [n])).
      * destruct (EA.check_variables tn rest); [|reflexivity]. rewrite <- app_assoc. reflexivity.
      * rewrite <- app_assoc. exact ND.
      * rewrite map_app, Hk. reflexivity.
    + rewrite Hk. intros [H|H].
      * subst. rewrite String.eqb_refl in E. discriminate.
      * apply NoDup_remove_2 in ND. apply ND. apply in_or_app. left. exact H.
Qed.

Lemma names_add_In : forall refs s i,
  In i (names_add s refs) <-> In i s \/ In i (flat_map EA.t_indexes refs).
Proof.
  unfold names_add. induction refs as [|t r IH]; intros s i; simpl; [tauto|].
  rewrite IH, set_union_In, set_of_list_In, in_app_iff. tauto.
Qed.

Lemma names_loop_In : forall (vs : list (string * list EA.tref)) s i,
  In i (fold_left names_add (map snd vs) s) <-> In i s \/ In i (flat_map EA.t_indexes (flat_map snd vs)).
Proof.
  induction vs as [|[n refs] r IH]; intros s i; simpl; [tauto|].
  rewrite IH, names_add_In, flat_map_app, in_app_iff. tauto.
Qed.
End PostInit.

Lemma variables_refs_occurrences : forall e t,
  In t (flat_map snd (EA.variables e)) <-> In t (EA.occurrences e).
Proof.
  intros e t. rewrite in_flat_map. split.
  - intros [[n refs] [H1 H2]]. simpl in H2. apply VV.variables_entry in H1. apply H1 in H2. tauto.
  - intros H. destruct (VV.variables_occurrence e t H) as [refs [H1 H2]]. exists (EA.t_name t, refs). auto.
Qed.

Theorem gen_assignment_post_init_equiv : forall fid tn tidx e,
  cres (GP.Assignment_post_init (gassign tn tidx e)) =
  match EA.assignment_check (massign fid tn tidx e) with
  | EA.Ok _ => EA.Ok (lift_orders (EA.variable_orders (massign fid tn tidx e)))
  | EA.Error err => EA.Error (canon_err err)
  end.
Proof.
  intros fid tn tidx e. unfold GP.Assignment_post_init, gassign.
  cbn [GD.ex_assignment_target GD.ex_assignment_expression GT.rbind GP.Tensor_order].
  rewrite (gen_variables_lift fid e). cbn [GT.of_opt GT.rbind]. cbv zeta.
  rewrite cres_rbind. unfold lift_vars.
  match goal with |- context [GT.rfold ?f (map ?h ?l) ?acc] =>
    rewrite (cres_rfold_map h f (round tn) l acc)
  end.
  - set (vs := EA.variables (GV.convA fid e)).
    cbn [dict_set].
    rewrite (loop_model tn vs [] _ _).
    + unfold EA.assignment_check, massign. cbn [EA.a_target EA.a_expr EA.t_name].
      fold vs. destruct (EA.check_variables tn vs) as [[]|err]; [|reflexivity].
      cbv beta iota. rewrite inter_nonempty.
      rewrite map_app. cbn [map fst].
      match goal with |- context [existsb ?p ?X] =>
        rewrite (existsb_same_elements p X (EA.all_index_names (EA.Assignment (EA.TRef tn tidx) (GV.convA fid e))))
      end.
      * unfold EA.variable_orders, EA.akeys. cbn [EA.a_target EA.a_expr EA.t_name EA.t_order EA.t_indexes map fst].
        fold vs. unfold lift_orders. rewrite !map_map. cbn [fst snd].
        cbn [app]. match goal with |- context [existsb ?p ?X] => destruct (existsb p X) end; [reflexivity|].
        cbn [cres map fst snd EA.t_order EA.t_indexes]. rewrite map_map. reflexivity.
      * intros i. rewrite names_loop_In, set_of_list_In. unfold EA.all_index_names.
        cbn [EA.a_target EA.a_expr EA.t_indexes]. rewrite in_app_iff.
        rewrite !in_flat_map. split.
        -- intros [H|[t [H1 H2]]]; [tauto|]. right. exists t. split; [|assumption].
           apply variables_refs_occurrences. exact H1.
        -- intros [H|[t [H1 H2]]]; [tauto|]. right. exists t. split; [|assumption].
           apply variables_refs_occurrences. exact H1.
    + simpl. apply VV.variables_NoDup.
    + reflexivity.
  - (* one round of the generated loop *)
    intros [names vo] [n refs]. cbv beta iota. cbn [fst snd]. unfold round. cbn [fst snd].
    destruct (String.eqb n tn); [reflexivity|].
    match goal with |- context [GT.rfold ?f (map ex_of_tref refs) names] =>
      rewrite (rfold_map_pure ex_of_tref f
                 (fun s t => set_union String.eqb s (set_of_list String.eqb (EA.t_indexes t))) refs names)
        by (intros; reflexivity)
    end.
    cbn [GT.rbind]. destruct refs as [|first others]; [reflexivity|].
    cbn [map].
    match goal with |- context [GT.rfold ?f (map ex_of_tref others) tt] =>
      erewrite (rfold_map_check ex_of_tref f (fun v => Nat.eqb (EA.t_order first) (EA.t_order v)))
    end.
    2: { intros t. cbn [GP.Tensor_order ex_of_tref GT.rbind]. unfold EA.t_order.
         rewrite GVal.Zeqb_of_nat. destruct (Nat.eqb _ _); reflexivity. }
    destruct (forallb _ others); reflexivity.
Qed.

(* ------------------------------------------------------------------------------------------ *)
(** * formats: lookups and the dense default *)

Lemma dict_get_lift : forall k fs,
  dict_get String.eqb k (lift_formats fs) = option_map lift_format (EA.aget k fs).
Proof.
  induction fs as [|[k' f] r IH]; simpl; [reflexivity|]. destruct (String.eqb k k'); [reflexivity | exact IH].
Qed.

Lemma dict_mem_lift : forall k fs, dict_mem String.eqb k (lift_formats fs) = EA.amem k fs.
Proof. intros. unfold dict_mem, EA.amem. rewrite dict_get_lift. destruct (EA.aget k fs); reflexivity. Qed.

Lemma dict_mem_orders : forall k vo, dict_mem String.eqb k (lift_orders vo) = EA.amem k vo.
Proof.
  intros. unfold dict_mem, EA.amem. induction vo as [|[k' o] r IH]; simpl; [reflexivity|].
  destruct (String.eqb k k'); [reflexivity | exact IH].
Qed.

Lemma keys_lift : forall fs, map fst (lift_formats fs) = EA.akeys fs.
Proof. intros. unfold GVal.lift_formats, EA.akeys. rewrite map_map. reflexivity. Qed.

Lemma order_lift : forall f, GT.Format_order (lift_format f) = Z.of_nat (MP.f_order f).
Proof. intros. unfold GT.Format_order, MP.f_order. simpl. rewrite map_length. reflexivity. Qed.

Lemma map_repeat' : forall {A B} (f : A -> B) x n, map f (repeat x n) = repeat (f x) n.
Proof. induction n; simpl; [reflexivity | rewrite IHn; reflexivity]. Qed.

Lemma set_eqb_refl : forall (l : list Z), GP.set_eqb Z.eqb l l = true.
Proof.
  intros l. unfold GP.set_eqb.
  assert (H : forallb (fun x => py_in Z.eqb x l) l = true).
  { apply forallb_forall. intros x Hx. unfold py_in. apply existsb_exists. exists x. split; [assumption | apply Z.eqb_refl]. }
  rewrite H. reflexivity.
Qed.

(** [Format(tuple([Mode.dense] * order), tuple(range(order)))] is a valid Format: the model's dense default *)
Lemma Format_new_dense : forall o,
  GP.Format_new (repeat GT.Mode_dense (Z.to_nat (Z.of_nat o))) (GP.py_range (Z.of_nat o))
  = GT.Ret (lift_format (MP.dense_format o)).
Proof.
  intros o. unfold GP.Format_new, GP.Format_post_init, GP.py_range.
  cbn [GT.Format_ordering GT.Format_modes]. rewrite !Nat2Z.id, repeat_length, set_eqb_refl.
  cbn [negb GT.rbind]. unfold GVal.lift_format, MP.dense_format. cbn [MP.f_modes MP.f_ordering].
  rewrite map_repeat'. reflexivity.
Qed.

(* ------------------------------------------------------------------------------------------ *)
(** * [Problem.__post_init__] and the constructor *)

Lemma post_init_fold : forall fs vo,
  mfold (fun (_ : unit) (kv : string * nat) =>
           match EA.aget (fst kv) fs with
           | None => EA.Error (EA.EUndefinedReference (fst kv))
           | Some f => if Nat.eqb (snd kv) (MP.f_order f) then EA.Ok tt else EA.Error (EA.EIncorrectDimensions (fst kv))
           end) vo tt
  = MP.post_init_loop vo fs.
Proof.
  induction vo as [|[n o] r IH]; simpl; [reflexivity|].
  destruct (EA.aget n fs) as [f|]; [|reflexivity]. destruct (Nat.eqb o (MP.f_order f)); [exact IH | reflexivity].
Qed.

Section WithAssignment.
Variable fid : F -> Z.
Variables (tn : string) (tidx : list string) (e : GD.ex_expr).
Notation ga := (gassign tn tidx e).
Notation ma := (massign fid tn tidx e).
Notation vo := (EA.variable_orders ma).

(** the Assignment object exists *)
Hypothesis exists_ : GP.Assignment_post_init ga = GT.Ret (lift_orders vo).

Lemma gen_problem_post_init : forall fs,
  cres (GP.Problem_post_init (GT.MkProblem ga (lift_formats fs))) = MP.post_init_loop vo fs.
Proof.
  intros fs. unfold GP.Problem_post_init, GP.Assignment_variable_orders.
  cbn [GT.Problem_assignment GT.Problem_formats]. rewrite exists_. cbn [GT.rbind]. cbv zeta.
  rewrite cres_rbind. unfold lift_orders at 1.
  match goal with |- context [GT.rfold ?f (map ?h ?l) tt] =>
    rewrite (cres_rfold_map h f
      (fun (_ : unit) (kv : string * nat) =>
           match EA.aget (fst kv) fs with
           | None => EA.Error (EA.EUndefinedReference (fst kv))
           | Some fm => if Nat.eqb (snd kv) (MP.f_order fm) then EA.Ok tt else EA.Error (EA.EIncorrectDimensions (fst kv))
           end) l tt)
  end.
  - rewrite post_init_fold. destruct (MP.post_init_loop vo fs) as [[]|]; reflexivity.
  - intros [] [n o]. cbv beta iota zeta. cbn [fst snd]. rewrite dict_mem_lift, dict_get_lift.
    unfold EA.amem. destruct (EA.aget n fs) as [f|]; [|reflexivity].
    cbn [negb option_map GT.of_opt GT.rbind]. cbv zeta. rewrite order_lift, GVal.Zeqb_of_nat.
    rewrite ?(Nat.eqb_sym (MP.f_order f) o).
    destruct (Nat.eqb o (MP.f_order f)); reflexivity.
Qed.

Lemma gen_problem_new : forall fs,
  cres (GP.Problem_new ga (lift_formats fs)) =
  match MP.problem_ctor ma fs with
  | EA.Ok p => EA.Ok (GT.MkProblem ga (lift_formats (MP.p_formats p)))
  | EA.Error err => EA.Error err
  end.
Proof.
  intros fs. unfold GP.Problem_new. cbv zeta. rewrite cres_rbind, gen_problem_post_init.
  unfold MP.problem_ctor, MP.problem_post_init.
  destruct (MP.post_init_loop vo fs) as [[]|]; reflexivity.
Qed.
End WithAssignment.

(* ------------------------------------------------------------------------------------------ *)
(** * [make_problem] *)

(** a loop whose body may [return]: the first element that returns decides *)
Lemma rfold_find : forall {A R} (f : option R -> A -> GT.pyres (option R)) (c : A -> bool) (r : A -> R) l,
  (forall x, f None x = GT.Ret (if c x then Some (r x) else None)) ->
  (forall y x, f (Some y) x = GT.Ret (Some y)) ->
  GT.rfold f l None = GT.Ret (option_map r (find c l)).
Proof.
  intros A R f c r l H1 H2. induction l as [|x l IH]; simpl; [reflexivity|]. rewrite H1.
  destruct (c x); simpl; [|exact IH].
  clear IH. induction l as [|z l IH]; simpl; [reflexivity|]. rewrite H2. exact IH.
Qed.

Lemma find_first_unused : forall names vo,
  find (fun n => negb (dict_mem String.eqb n (lift_orders vo))) names = MP.first_unused names vo.
Proof.
  induction names as [|n t IH]; intros vo; simpl; [reflexivity|]. rewrite dict_mem_orders.
  destruct (EA.amem n vo); simpl; [apply IH | reflexivity].
Qed.

(** storing into a dict under fresh, pairwise distinct keys appends *)
Lemma fill_fold : forall (val : string * nat -> GT.Format) vo acc,
  NoDup (map fst acc ++ EA.akeys vo) ->
  fold_left (fun acc kv => dict_set String.eqb (fst kv) (val kv) acc) vo acc
  = acc ++ map (fun kv => (fst kv, val kv)) vo.
Proof.
  induction vo as [|[n o] r IH]; intros acc ND; simpl; [rewrite app_nil_r; reflexivity|].
  rewrite dict_set_fresh.
  - rewrite IH.
    + rewrite <- app_assoc. reflexivity.
    + rewrite map_app. simpl. rewrite <- app_assoc. exact ND.
  - simpl in ND. apply NoDup_remove_2 in ND. intros H. apply ND. apply in_or_app. left. exact H.
Qed.

Inductive mp_out : Type :=
  | MPSuccess (a : GD.ex_assignment) (fs : list (string * GT.Format))  (* Success(Problem(a, fs)) returned *)
  | MPFailure (err : EA.error)                                         (* Failure(err) returned *)
  | MPRaise (err : EA.error).                                          (* err raised *)

Definition out_gen (r : GT.pyres (GT.Problem + GT.pyexc)) : mp_out :=
  match r with
  | GT.Ret (inl p) => MPSuccess (GT.Problem_assignment p) (GT.Problem_formats p)
  | GT.Ret (inr x) => MPFailure (kind x)
  | GT.Raise x => MPRaise (kind x)
  end.

(** [chk]: does the Assignment object exist ([Assignment.__post_init__]); [r]: the model's make_problem *)
Definition out_model (ga : GD.ex_assignment) (chk : EA.result unit) (r : EA.result MP.problem) : mp_out :=
  match chk with
  | EA.Error err => MPRaise (canon_err err)
  | EA.Ok _ =>
      match r with
      | EA.Ok p => MPSuccess ga (lift_formats (MP.p_formats p))
      | EA.Error err => MPFailure err
      end
  end.

Lemma kind_caught : forall x n,
  kind x = EA.EUndefinedReference n \/ kind x = EA.EIncorrectDimensions n ->
  GP.exc_is ["UndefinedReferenceError"; "IncorrectDimensionsError"] x = true.
Proof.
  intros [cls site vals] n H. unfold GP.exc_is, GP.exc_class, py_in. cbn [existsb].
  destruct (String.eqb cls "UndefinedReferenceError") eqn:E1; [reflexivity|].
  destruct (String.eqb cls "IncorrectDimensionsError") eqn:E2; [reflexivity|].
  exfalso. unfold kind in H. rewrite E1, E2 in H. cbn [andb] in H.
  repeat match type of H with
         | context [if ?c then _ else _] => destruct c
         | context [match ?v with [] => _ | _ :: _ => _ end] => destruct v
         | context [match ?v with GT.VStr _ => _ | GT.VInt _ => _ | GT.VOpaque => _ end] => destruct v
         end; destruct H as [H|H]; discriminate.
Qed.

Lemma check_ok_NoDup : forall a, EA.assignment_check a = EA.Ok tt -> NoDup (EA.akeys (EA.variable_orders a)).
Proof.
  intros a H. unfold EA.assignment_check in H.
  destruct (EA.check_variables (EA.t_name (EA.a_target a)) (EA.variables (EA.a_expr a))) as [[]|] eqn:C; [|discriminate].
  clear H. unfold EA.variable_orders, EA.akeys. cbn [map fst]. rewrite map_map. cbn [fst].
  constructor.
  - set (tn := EA.t_name (EA.a_target a)) in *. revert C.
    generalize (EA.variables (EA.a_expr a)). induction l as [|[n refs] r IH]; simpl; intros C; [tauto|].
    destruct (String.eqb n tn) eqn:E; [discriminate|].
    destruct refs as [|first others]; [discriminate|]. destruct (forallb _ others); [|discriminate].
    intros [H|H]; [subst; rewrite String.eqb_refl in E; discriminate | exact (IH C H)].
  - exact (VV.variables_NoDup (EA.a_expr a)).
Qed.

Theorem gen_make_problem_equiv : forall fid tn tidx e fs,
  out_gen (GP.make_problem (gassign tn tidx e) (lift_formats fs)) =
  out_model (gassign tn tidx e) (EA.assignment_check (massign fid tn tidx e))
            (MP.make_problem (massign fid tn tidx e) fs).
Proof.
  intros fid tn tidx e fs. pose proof (gen_assignment_post_init_equiv fid tn tidx e) as PI.
  set (ga := gassign tn tidx e) in *. set (ma := massign fid tn tidx e) in *.
  destruct (EA.assignment_check ma) as [[]|err] eqn:CK.
  - apply cres_Ok in PI. set (vo := EA.variable_orders ma) in *.
    unfold GP.make_problem, GP.Assignment_variable_orders. rewrite PI. cbn [GT.rbind]. cbv zeta.
    rewrite keys_lift.
    match goal with |- context [GT.rfold ?f (EA.akeys fs) None] =>
      erewrite (rfold_find f (fun n => negb (dict_mem String.eqb n (lift_orders vo))))
    end.
    2: { intros x. cbv beta iota. destruct (negb _); reflexivity. }
    2: { intros y x. reflexivity. }
    rewrite find_first_unused. cbn [GT.rbind]. unfold out_model, MP.make_problem. fold vo.
    destruct (MP.first_unused (EA.akeys fs) vo) as [n|]; [reflexivity|]. cbn [option_map].
    unfold lift_orders at 1.
    match goal with |- context [GT.rfold ?f (map ?h ?l) ?acc] =>
      rewrite (rfold_map_pure h f
        (fun a0 kv => dict_set String.eqb (fst kv)
           (lift_format (match EA.aget (fst kv) fs with Some fm => fm | None => MP.dense_format (snd kv) end)) a0) l acc)
    end.
    2: { intros acc [n o]. cbv beta iota. cbn [fst snd]. rewrite dict_mem_lift, dict_get_lift. unfold EA.amem.
         destruct (EA.aget n fs) as [f|]; cbn [negb option_map GT.of_opt GT.rbind]; [reflexivity|].
         rewrite Format_new_dense. reflexivity. }
    cbn [GT.rbind].
    rewrite (fill_fold (fun kv => lift_format (match EA.aget (fst kv) fs with Some f => f | None => MP.dense_format (snd kv) end))).
    2: { change (NoDup (EA.akeys vo)). apply check_ok_NoDup. exact CK. }
    cbn [app].
    replace (map _ vo) with (lift_formats (MP.fill_formats vo fs))
      by (unfold GVal.lift_formats, MP.fill_formats; rewrite map_map; reflexivity).
    pose proof (gen_problem_new fid tn tidx e PI (MP.fill_formats vo fs)) as PN. fold ga ma in PN.
    destruct (MP.problem_ctor ma (MP.fill_formats vo fs)) as [p|err] eqn:PC.
    + apply cres_Ok in PN. rewrite PN. reflexivity.
    + apply cres_Error in PN. destruct PN as [x [PN K]]. rewrite PN. cbn [GT.rbind].
      rewrite (kind_caught x (match err with EA.EUndefinedReference n | EA.EIncorrectDimensions n => n | _ => "" end)).
      * cbn [out_gen]. rewrite K. reflexivity.
      * rewrite K. unfold MP.problem_ctor, MP.problem_post_init in PC.
        destruct (MP.post_init_loop (EA.variable_orders ma) (MP.fill_formats vo fs)) as [[]|err'] eqn:L; [discriminate|].
        inversion PC; subst err'. apply PS.post_init_loop_Error in L.
        destruct L as [[n [o [-> _]]]|[n [o [f [-> _]]]]]; auto.
  - apply cres_Error in PI. destruct PI as [x [PI K]].
    unfold GP.make_problem, GP.Assignment_variable_orders. rewrite PI. cbn [GT.rbind out_gen out_model]. rewrite K. reflexivity.
Qed.

(** the Problem the constructor accepts, and nothing else (C10_problem_ctor_checks on the regenerated
    constructor), for an Assignment object that exists *)
Theorem gen_problem_ctor_checks : forall fid tn tidx e fs,
  EA.assignment_check (massign fid tn tidx e) = EA.Ok tt ->
  (forall p, GP.Problem_new (gassign tn tidx e) (lift_formats fs) = GT.Ret p <->
     p = GT.MkProblem (gassign tn tidx e) (lift_formats fs) /\
     forall n o, In (n, o) (EA.variable_orders (massign fid tn tidx e)) ->
                 exists f, EA.aget n fs = Some f /\ MP.f_order f = o) /\
  (forall x, GP.Problem_new (gassign tn tidx e) (lift_formats fs) = GT.Raise x ->
     (exists n o, kind x = EA.EUndefinedReference n /\ In (n, o) (EA.variable_orders (massign fid tn tidx e)) /\
                  EA.aget n fs = None) \/
     (exists n o f, kind x = EA.EIncorrectDimensions n /\ In (n, o) (EA.variable_orders (massign fid tn tidx e)) /\
                    EA.aget n fs = Some f /\ MP.f_order f <> o)).
Proof.
  intros fid tn tidx e fs CK. pose proof (gen_assignment_post_init_equiv fid tn tidx e) as PI.
  rewrite CK in PI. apply cres_Ok in PI. pose proof (gen_problem_new fid tn tidx e PI fs) as PN.
  destruct (PS.problem_ctor_spec (massign fid tn tidx e) fs) as [S1 S2]. split.
  - intros p. destruct (MP.problem_ctor (massign fid tn tidx e) fs) as [q|err] eqn:PC.
    + apply cres_Ok in PN. rewrite PN. destruct (proj1 (S1 q) eq_refl) as [-> Hq]. cbn [MP.p_formats].
      split; [intros H; inversion H; auto | intros [-> _]; reflexivity].
    + apply cres_Error in PN. destruct PN as [x [PN _]]. rewrite PN. split; [discriminate|].
      intros [_ H]. assert (EA.Error err = EA.Ok (MP.Problem (massign fid tn tidx e) fs)) by (apply S1; auto). discriminate.
  - intros x Hx. rewrite Hx in PN. cbn [cres] in PN.
    destruct (MP.problem_ctor (massign fid tn tidx e) fs) as [q|err]; [discriminate|]. inversion PN as [K]. apply S2. rewrite K. reflexivity.
Qed.

(** C15_make_problem_spec on the regenerated make_problem: the effective formats *)
Theorem gen_make_problem_effective_formats : forall fid tn tidx e fs p,
  GP.make_problem (gassign tn tidx e) (lift_formats fs) = GT.Ret (inl p) ->
  EA.assignment_check (massign fid tn tidx e) = EA.Ok tt /\
  exists fs',
    p = GT.MkProblem (gassign tn tidx e) (lift_formats fs') /\
    EA.akeys fs' = tn :: EA.sdedup (map EA.t_name (EA.occurrences (GV.convA fid e))) /\
    (forall n f, In (n, f) fs' ->
       EA.aget n fs = Some f \/
       (EA.aget n fs = None /\ exists o, In (n, o) (EA.variable_orders (massign fid tn tidx e)) /\ f = MP.dense_format o)) /\
    incl (EA.akeys fs) (EA.akeys (EA.variable_orders (massign fid tn tidx e))) /\
    MP.problem_post_init (massign fid tn tidx e) fs' = EA.Ok tt.
Proof.
  intros fid tn tidx e fs p H. pose proof (gen_make_problem_equiv fid tn tidx e fs) as E. rewrite H in E.
  cbn [out_gen] in E. unfold out_model in E.
  destruct (EA.assignment_check (massign fid tn tidx e)) as [[]|]; [|discriminate]. split; [reflexivity|].
  destruct (MP.make_problem (massign fid tn tidx e) fs) as [q|] eqn:M; [|discriminate].
  destruct (PS.make_problem_spec (massign fid tn tidx e) fs) as [S _]. destruct (S q M) as [Sa [Sk [Sf [Si Sp]]]].
  exists (MP.p_formats q). inversion E. destruct p as [pa pf]. cbn [GT.Problem_assignment GT.Problem_formats] in *.
  subst. repeat split; try assumption.
Qed.

(** every Failure make_problem returns is the model's, and it names the first unused format / a tensor whose
    given format has the wrong order *)
Theorem gen_make_problem_failure : forall fid tn tidx e fs x,
  GP.make_problem (gassign tn tidx e) (lift_formats fs) = GT.Ret (inr x) ->
  MP.make_problem (massign fid tn tidx e) fs = EA.Error (kind x).
Proof.
  intros fid tn tidx e fs x H. pose proof (gen_make_problem_equiv fid tn tidx e fs) as E. rewrite H in E.
  cbn [out_gen] in E. unfold out_model in E.
  destruct (EA.assignment_check (massign fid tn tidx e)) as [[]|]; [|discriminate].
  destruct (MP.make_problem (massign fid tn tidx e) fs) as [q|]; [discriminate|]. inversion E. reflexivity.
Qed.

(* ------------------------------------------------------------------------------------------ *)
(** * [Problem.__eq__], [Problem.__hash__] *)

Fixpoint floats (e : GD.ex_expr) : list F :=
  match e with
  | GD.ExFloat f => [f]
  | GD.ExAdd a b | GD.ExSubtract a b | GD.ExMultiply a b => floats a ++ floats b
  | _ => []
  end.

(** [fid] identifies exactly the float literals that compare equal with == (on the literals that occur;
    no such [fid] exists for a tree with a NaN literal, which is not == to itself) *)
Definition fid_ok (fid : F -> Z) (e e' : GD.ex_expr) : Prop :=
  forall x y, In x (floats e) -> In y (floats e') -> Z.eqb (fid x) (fid y) = Feqb x y.

Lemma slist_eqb_list_eqb : forall a b, list_eqb String.eqb a b = EA.slist_eqb a b.
Proof. induction a as [|x a IH]; destruct b as [|y b]; simpl; try reflexivity; try (rewrite <- IH; reflexivity). Qed.

Lemma expr_eqb_conv : forall fid e e', fid_ok fid e e' ->
  GD.ex_expr_eqb e e' = EA.expr_eqb (GV.convA fid e) (GV.convA fid e').
Proof.
  intros fid. unfold fid_ok.
  induction e; destruct e'; intros H; cbn [GD.ex_expr_eqb GV.convA EA.expr_eqb]; try reflexivity.
  - symmetry. apply H; simpl; auto.
  - rewrite IHe1, IHe2; [reflexivity| |]; intros x y Hx Hy; apply H; simpl; apply in_or_app; auto.
  - rewrite IHe1, IHe2; [reflexivity| |]; intros x y Hx Hy; apply H; simpl; apply in_or_app; auto.
  - rewrite IHe1, IHe2; [reflexivity| |]; intros x y Hx Hy; apply H; simpl; apply in_or_app; auto.
Qed.

Lemma format_eqb_lift : forall f g, GP.Format_eqb (lift_format f) (lift_format g) = MP.format_eqb f g.
Proof.
  intros f g. unfold GP.Format_eqb, MP.format_eqb, GVal.lift_format. cbn [GT.Format_modes GT.Format_ordering].
  rewrite GVal.modes_lift, GVal.nats_lift. reflexivity.
Qed.

Lemma items_eqb_lift : forall fs fs',
  list_eqb (pair_eqb String.eqb GP.Format_eqb) (lift_formats fs) (lift_formats fs') = MP.items_eqb fs fs'.
Proof.
  induction fs as [|[k f] r IH]; destruct fs' as [|[k' f'] r']; simpl; try reflexivity.
  unfold pair_eqb at 1. cbn [fst snd]. rewrite format_eqb_lift. fold (GVal.lift_formats r) (GVal.lift_formats r').
  rewrite <- IH. reflexivity.
Qed.

Notation gproblem := GVal.gproblem.
Notation mproblem := GVal.mproblem.

Theorem gen_problem_eq_equiv : forall fid tn tidx e fs tn' tidx' e' fs',
  fid_ok fid e e' ->
  GP.Problem_eq (gproblem tn tidx e fs) (gproblem tn' tidx' e' fs')
  = MP.problem_eqb (mproblem fid tn tidx e fs) (mproblem fid tn' tidx' e' fs').
Proof.
  intros fid tn tidx e fs tn' tidx' e' fs' H. unfold GP.Problem_eq, GVal.gproblem, GVal.mproblem, MP.problem_eqb.
  cbn [GT.Problem_assignment GT.Problem_formats MP.p_assignment MP.p_formats].
  rewrite items_eqb_lift. unfold GP.ex_assignment_eqb, EA.assignment_eqb.
  cbn [GD.ex_assignment_target GD.ex_assignment_expression EA.a_target EA.a_expr GD.ex_expr_eqb].
  rewrite (expr_eqb_conv fid e e' H). unfold EA.tref_eqb. cbn [EA.t_name EA.t_indexes].
  rewrite slist_eqb_list_eqb. reflexivity.
Qed.

(** C15_problem_eqb_spec on the regenerated [__eq__] *)
Theorem gen_problem_eq_spec : forall fid tn tidx e fs tn' tidx' e' fs',
  fid_ok fid e e' ->
  (GP.Problem_eq (gproblem tn tidx e fs) (gproblem tn' tidx' e' fs') = true <->
   mproblem fid tn tidx e fs = mproblem fid tn' tidx' e' fs').
Proof. intros fid tn tidx e fs tn' tidx' e' fs' H. rewrite (gen_problem_eq_equiv fid) by assumption. apply PS.problem_eqb_spec. Qed.

(** [__hash__] hashes a tuple whose == is [__eq__]: equal problems have equal hashes, and the hashed tuple
    is the model's [hash_key] *)
Theorem gen_problem_hash_compatible : forall p q,
  GP.Problem_hash_key_eqb (GP.Problem_hash_key p) (GP.Problem_hash_key q) = GP.Problem_eq p q.
Proof. intros p q. reflexivity. Qed.

Theorem gen_problem_hash_key : forall fid tn tidx e fs,
  GP.Problem_hash_key (gproblem tn tidx e fs) = (gassign tn tidx e, lift_formats fs) /\
  MP.hash_key (mproblem fid tn tidx e fs) = (massign fid tn tidx e, fs).
Proof. intros. split; reflexivity. Qed.

(* ------------------------------------------------------------------------------------------ *)
(** * the entry points of compile/_porcelain.py, between the parsers and [cachable_tensor_method] *)

Definition problem_result (ga : GD.ex_assignment) (r : EA.result MP.problem) : EA.result GT.Problem :=
  match r with
  | EA.Ok p => EA.Ok (GT.MkProblem ga (lift_formats (MP.p_formats p)))
  | EA.Error err => EA.Error err
  end.

Lemma unwrap_out : forall r,
  cres (GT.rbind r (fun x => GT.rbind (GP.unwrap_or_raise x) (fun ok => GT.Ret ok))) =
  match out_gen r with
  | MPSuccess a f => EA.Ok (GT.MkProblem a f)
  | MPFailure err | MPRaise err => EA.Error err
  end.
Proof. intros [[[a f]|x]|x]; reflexivity. Qed.

(** [tensor_method]: make_problem, a Failure is raised *)
Theorem gen_tensor_method_problem_equiv : forall fid tn tidx e fs,
  cres (GP.tensor_method_problem (gassign tn tidx e) (lift_formats fs)) =
  match EA.assignment_check (massign fid tn tidx e) with
  | EA.Error err => EA.Error (canon_err err)
  | EA.Ok _ => problem_result (gassign tn tidx e) (MP.make_problem (massign fid tn tidx e) fs)
  end.
Proof.
  intros fid tn tidx e fs. unfold GP.tensor_method_problem. cbv zeta.
  rewrite unwrap_out, (gen_make_problem_equiv fid). unfold out_model, problem_result.
  destruct (EA.assignment_check _) as [[]|]; [|reflexivity].
  destruct (MP.make_problem _ fs); reflexivity.
Qed.

Notation lift_bound := GVal.lift_bound.
Notation lift_arg := GVal.lift_arg.

(** every Tensor argument's (modes, mode_ordering) is a Format ([Format.__post_init__] accepts it) *)
Definition format_valid (f : MP.format) : bool :=
  match GP.Format_post_init (lift_format f) with GT.Ret _ => true | GT.Raise _ => false end.
Definition inputs_valid (inputs : list (string * MV.argument)) : bool :=
  forallb (fun kv => match snd kv with
                     | MV.ATensor _ m r _ => format_valid (MP.Format m r)
                     | MV.ANotTensor => true
                     end) inputs.

Definition arg_format (a : MV.argument) : MP.format :=
  match a with MV.ATensor _ m r _ => MP.Format m r | MV.ANotTensor => MP.Format [] [] end.
Definition is_tensor_arg (a : MV.argument) : bool :=
  match a with MV.ATensor _ _ _ _ => true | MV.ANotTensor => false end.

Definition nontensor_check (fs : unit) (kv : string * MV.argument) : EA.result unit :=
  match snd kv with
  | MV.ANotTensor => EA.Error (EA.ETypeErrorNotTensor (fst kv))
  | _ => EA.Ok fs
  end.

Definition arg_formats (inputs : list (string * MV.argument)) : list (string * MP.format) :=
  map (fun kv => (fst kv, arg_format (snd kv))) inputs.

Lemma formats_of_inputs_char : forall inputs,
  MV.formats_of_inputs inputs =
  match mfold nontensor_check inputs tt with
  | EA.Ok _ => EA.Ok (arg_formats inputs)
  | EA.Error err => EA.Error err
  end.
Proof.
  induction inputs as [|[n a] r IH]; [reflexivity|].
  cbn [MV.formats_of_inputs mfold]. unfold nontensor_check at 1. cbn [snd fst].
  destruct a as [o m rr d|]; [|reflexivity]. rewrite IH.
  destruct (mfold nontensor_check r tt) as [[]|]; reflexivity.
Qed.

Lemma mfold_ok_all_tensors : forall inputs,
  mfold nontensor_check inputs tt = EA.Ok tt ->
  forallb (fun kv => is_tensor_arg (snd kv)) inputs = true.
Proof.
  induction inputs as [|[n a] r IH]; [reflexivity|]. cbn [mfold forallb snd]. unfold nontensor_check at 1. cbn [snd fst].
  destruct a; [|discriminate]. exact IH.
Qed.

Lemma rmap_map_pure : forall {A A' B} (h : A' -> A) (f : A -> GT.pyres B) (g : A' -> B) l,
  (forall x, In x l -> f (h x) = GT.Ret (g x)) -> GT.rmap f (map h l) = GT.Ret (map g l).
Proof.
  induction l as [|x r IH]; intros H; simpl; [reflexivity|]. rewrite (H x (or_introl eq_refl)).
  rewrite IH by (intros; apply H; right; assumption). reflexivity.
Qed.

Lemma dict_of_items_NoDup : forall {V} (l acc : list (string * V)),
  NoDup (map fst acc ++ map fst l) ->
  fold_left (fun a kv => dict_set String.eqb (fst kv) (snd kv) a) l acc = acc ++ l.
Proof.
  induction l as [|[k v] r IH]; intros acc ND; simpl; [rewrite app_nil_r; reflexivity|].
  rewrite dict_set_fresh.
  - rewrite IH; [rewrite <- app_assoc; reflexivity|]. rewrite map_app. simpl. rewrite <- app_assoc. exact ND.
  - simpl in ND. apply NoDup_remove_2 in ND. intros H. apply ND. apply in_or_app. left. exact H.
Qed.

Lemma dict_set_lift : forall k f d,
  dict_set String.eqb k (lift_format f) (lift_formats d) = lift_formats (EA.aput k f d).
Proof.
  induction d as [|[k' f'] r IH]; simpl; [reflexivity|].
  destruct (String.eqb k k'); simpl; [reflexivity|]. fold (GVal.lift_formats r). rewrite IH. reflexivity.
Qed.

Lemma dict_union_lift : forall b a,
  GP.dict_union String.eqb (lift_formats a) (lift_formats b) = lift_formats (MV.dict_union a b).
Proof.
  unfold GP.dict_union, MV.dict_union.
  induction b as [|[k f] r IH]; intros a; simpl; [reflexivity|].
  rewrite dict_set_lift. fold (GVal.lift_formats r). apply IH.
Qed.

(** [evaluate_tensora] (= [evaluate]) and [evaluate_cffi] for an Assignment object that exists, keyword
    arguments (distinct names) and an output format that parsed: the TypeError of the first non-Tensor, else
    make_problem on {target: output format} | {name: tensor.format} *)
Section Evaluate.
Variable fid : F -> Z.
Variables (tn : string) (tidx : list string) (e : GD.ex_expr).
Variables (outf : MP.format) (inputs : list (string * MV.argument)).
Hypothesis exists_ : EA.assignment_check (massign fid tn tidx e) = EA.Ok tt.
Hypothesis distinct : NoDup (map fst inputs).
Hypothesis valid : inputs_valid inputs = true.

Definition evaluate_spec : EA.result GT.Problem :=
  match MV.formats_of_inputs inputs with
  | EA.Error err => EA.Error err
  | EA.Ok input_fs =>
      problem_result (gassign tn tidx e)
        (MP.make_problem (massign fid tn tidx e) (MV.dict_union [(tn, outf)] input_fs))
  end.

Lemma evaluate_generic : forall (body : GD.ex_assignment -> GT.pyres GT.Format -> pydict string GT.pyarg -> GT.pyres GT.Problem),
  body = GP.evaluate_problem \/ body = GP.evaluate_cffi_problem ->
  cres (body (gassign tn tidx e) (GT.Ret (lift_format outf)) (lift_bound inputs)) = evaluate_spec.
Proof.
  intros body Hb. unfold evaluate_spec. rewrite formats_of_inputs_char.
  assert (L1 : forall f, (forall acc x, cres (f acc ((fun kv : string * MV.argument => (fst kv, lift_arg (snd kv))) x)) =
                          nontensor_check acc x) ->
               cres (GT.rfold f (lift_bound inputs) tt) = mfold nontensor_check inputs tt)
    by (intros f Hf; unfold GVal.lift_bound; apply cres_rfold_map; exact Hf).
  destruct Hb as [-> | ->].
  all: unfold GP.evaluate_problem, GP.evaluate_cffi_problem; rewrite cres_rbind.
  all: match goal with |- context [GT.rfold ?f (lift_bound inputs) tt] => rewrite (L1 f) end.
  all: try (intros [] [n [o m r d|]]; reflexivity).
  all: destruct (mfold nontensor_check inputs tt) as [[]|err] eqn:M; [|reflexivity].
  all: apply mfold_ok_all_tensors in M.
  all: unfold GVal.lift_bound at 1;
    match goal with |- context [GT.rmap ?f (map ?h inputs)] =>
      rewrite (rmap_map_pure h f (fun kv => (fst kv, lift_format (arg_format (snd kv)))) inputs)
    end.
  all: try (intros [n a] Hin; cbv beta iota; cbn [fst snd];
            pose proof (proj1 (forallb_forall _ _) M _ Hin) as Ht;
            pose proof (proj1 (forallb_forall _ _) valid _ Hin) as Hv; cbn [snd] in Ht, Hv;
            destruct a as [o m r d|]; [|discriminate];
            cbn [GVal.lift_arg GP.Tensor_format arg_format]; unfold format_valid in Hv;
            unfold GP.Format_new; change (GT.MkFormat (map GVal.lift_mode m) (map Z.of_nat r)) with (lift_format (MP.Format m r));
            destruct (GP.Format_post_init (lift_format (MP.Format m r))) as [[]|]; [reflexivity | discriminate]).
  all: cbn [GT.rbind]; cbv zeta; unfold gassign at 1; cbn [GD.ex_assignment_target GT.rbind].
  all: unfold GP.dict_of_items, GP.dict_union at 2;
    rewrite (dict_of_items_NoDup _ nil)
      by (cbn [map app]; rewrite map_map; cbn [fst]; exact distinct).
  all: cbn [app dict_set].
  all: replace (map (fun kv : string * MV.argument => (fst kv, lift_format (arg_format (snd kv)))) inputs)
      with (lift_formats (arg_formats inputs))
      by (unfold GVal.lift_formats, arg_formats; rewrite map_map; reflexivity).
  all: change [(tn, lift_format outf)] with (lift_formats [(tn, outf)]); rewrite dict_union_lift.
  all: fold (gassign tn tidx e); rewrite unwrap_out, (gen_make_problem_equiv fid); unfold out_model, problem_result;
    rewrite exists_; destruct (MP.make_problem _ _); reflexivity.
Qed.

Theorem gen_evaluate_problem_equiv :
  cres (GP.evaluate_problem (gassign tn tidx e) (GT.Ret (lift_format outf)) (lift_bound inputs)) = evaluate_spec /\
  cres (GP.evaluate_cffi_problem (gassign tn tidx e) (GT.Ret (lift_format outf)) (lift_bound inputs)) = evaluate_spec.
Proof. split; apply evaluate_generic; auto. Qed.
End Evaluate.

(** a concrete instance of the hypotheses of [gen_evaluate_problem_equiv] and of [fid_ok] *)
Lemma hypotheses_instance :
  EA.assignment_check (massign (fun _ => 0%Z) "T" ["i"] (GD.ExMultiply (GD.ExTensor "A" ["i"; "j"]) (GD.ExTensor "b" ["j"]))) = EA.Ok tt /\
  inputs_valid [("A", MV.ATensor 2 [MP.Dense; MP.Compressed] [1; 0]%nat [3; 4]%Z); ("b", MV.ANotTensor)] = true /\
  fid_ok (fun _ => 0%Z) (GD.ExTensor "A" ["i"]) (GD.ExInteger 2).
Proof. repeat split; try reflexivity. intros x y []. Qed.
