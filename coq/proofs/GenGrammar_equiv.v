(** TIE "grammar" -- entry point: the regenerated parsita grammars (gen/GrammarGen.v) run by the
    interpreter of model/Parsita.v are the hand models model/Parser.v and model/FormatParser.v.

      proofs/ParsitaFacts.v            unfolding equations of the interpreter, the regex matcher on classes
      proofs/GenGrammarRegex.v         the float regular expression = the model's number lexer
      proofs/GenGrammarFormat_equiv.v  FormatParsers  = model/FormatParser.v
      proofs/GenGrammarExpr_equiv.v    TensorExpressionParsers = model/Parser.v (lexer + parser + validation hook)
      proofs/GenGrammarRoundtrip.v     regenerated printer (gen/Deparse.v) then regenerated parser: the same tree

    The names below are the ones tools/props/_tie_grammar.py lists. *)

From TV Require Export proofs.GenGrammarRegex proofs.GenGrammarFormat_equiv proofs.GenGrammarExpr_equiv
  proofs.GenGrammarRoundtrip.

Definition gen_grammar_format_equiv := gen_parse_format_equiv.
Definition gen_grammar_named_format_equiv := gen_parse_named_format_equiv.
Definition gen_grammar_format_roundtrip := gen_format_roundtrip.
Definition gen_grammar_named_format_roundtrip := gen_named_format_roundtrip.
Definition gen_grammar_format_total := gen_parse_format_total.
Definition gen_grammar_float_regex := float_regex_ok.
Definition gen_grammar_assignment_equiv := gen_parse_assignment_equiv.
Definition gen_grammar_assignment_equiv_model := gen_parse_assignment_equiv_model.
Definition gen_grammar_parse_sound_complete := gen_parse_sound_complete.
Definition gen_grammar_parse_deparse := gen_parse_deparse.
Definition gen_grammar_assignment_total := gen_parse_assignment_total.
Definition gen_grammar_roundtrip_int := gen_grammar_deparse_roundtrip_int.
