(** COMPOSE (1) -- TIE "grammar" + TIE "problem": the hook of the regenerated parsita grammar is the
    REGENERATED [Assignment.__post_init__].

    gen/GrammarGen.v's [expression_grammar fl post] calls a section variable [post] where the source
    constructs [Assignment(target, expression)]; the TIE grammar theorems require it to be model/Parser.v's
    [validate].  gen/ProblemGen.v's [Assignment_post_init] is the translation of the method itself, proved
    equal (TIE problem) to model/ExprAst.v's [assignment_check] + [variable_orders] -- ANOTHER hand model,
    over another AST type.  Here:

      * [validate_check]: the two hand models of __post_init__ agree, through the conversion
        [toA = GenVariables_equiv.convA fid o GenGrammarExpr_equiv.back fl] of model/Parser.v's trees into
        model/ExprAst.v's (for every reading [fl] of float spellings and every identification [fid] of
        float values): same accept / same first error;
      * [gen_post]: the regenerated method as a hook ([None] = returns, [Some cls] = raises class cls);
      * [gen_post_is_validate]: it satisfies the hypothesis of every TIE grammar theorem;
      * the TIE grammar theorems restated without hypothesis. *)

From Coq Require Import String Ascii List NArith ZArith Bool Arith Lia.
From TV Require Import spec.Num spec.PyBase spec.PyLib.
From TV Require model.Parser model.ExprAst model.Parsita spec.Grammar
  gen.Deparse gen.TensorMethod gen.ProblemGen gen.GrammarGen.
From TV Require proofs.ValidateBase proofs.ValidateVars proofs.GenVariables_equiv proofs.GenValidate_equiv
  proofs.GenProblem_equiv proofs.GenGrammarExpr_equiv proofs.GenGrammarRoundtrip.
From TV Require Export model.Compose.
Import ListNotations.
Open Scope string_scope.
Open Scope list_scope.

Module EA := TV.model.ExprAst.
Module GV := TV.proofs.GenVariables_equiv.
Module GPE := TV.proofs.GenProblem_equiv.
Module GE := TV.proofs.GenGrammarExpr_equiv.
Module GR := TV.proofs.GenGrammarRoundtrip.
Module VB := TV.proofs.ValidateBase.
Module VV := TV.proofs.ValidateVars.

(* ------------------------------------------------------------------------------------------ *)
(** * the two hand models of Assignment.__post_init__ agree *)

(** [validate]'s answer as [assignment_check]'s *)
Definition chk_of (v : P.vres) : EA.result unit :=
  match v with
  | P.VOk => EA.Ok tt
  | P.VMutating => EA.Error EA.EMutatingAssignment
  | P.VInconsistent => EA.Error EA.EInconsistentDimensions
  | P.VNameConflict => EA.Error EA.ENameConflict
  end.

Definition mk (p : string * list string) : EA.tref := EA.TRef (fst p) (snd p).

Lemma forallb_map' : forall {A B} (f : B -> bool) (g : A -> B) l,
  forallb f (map g l) = forallb (fun x => f (g x)) l.
Proof. induction l as [|x l IH]; simpl; [reflexivity | rewrite IH; reflexivity]. Qed.

Lemma existsb_ext' : forall {A} (f g : A -> bool) l, (forall x, f x = g x) -> existsb f l = existsb g l.
Proof. intros A f g l H. induction l as [|x l IH]; simpl; [reflexivity | rewrite H, IH; reflexivity]. Qed.

Lemma flat_map_map' : forall {A B C} (f : B -> list C) (g : A -> B) l,
  flat_map f (map g l) = flat_map (fun x => f (g x)) l.
Proof. induction l as [|x l IH]; simpl; [reflexivity | rewrite IH; reflexivity]. Qed.

Lemma mem_str_smem : forall x l, P.mem_str x l = EA.smem x l.
Proof.
  intros x l. unfold P.mem_str. induction l as [|y l IH]; simpl; [reflexivity | rewrite IH; reflexivity].
Qed.

Lemma first_names_sdedup : forall occ seen,
  P.first_names seen occ = EA.sdedup_acc seen (map fst occ).
Proof.
  induction occ as [|[x i] t IH]; intros seen; simpl; [reflexivity|].
  rewrite mem_str_smem. destruct (EA.smem x seen); rewrite IH; reflexivity.
Qed.

Lemma orders_refs : forall x occ,
  map EA.t_order (VV.refs_of x (map mk occ)) = P.orders_of x occ.
Proof.
  intros x occ. unfold VV.refs_of, P.orders_of.
  induction occ as [|[y i] t IH]; simpl; [reflexivity|].
  destruct (String.eqb y x); simpl; rewrite IH; reflexivity.
Qed.

Lemma check_loop : forall target occ l,
  Forall (fun kv : string * list EA.tref =>
            snd kv = VV.refs_of (fst kv) (map mk occ) /\ snd kv <> []) l ->
  EA.check_variables target l = chk_of (P.check_vars target (EA.akeys l) occ).
Proof.
  intros target occ. induction l as [|[n refs] r IH]; intros H; [reflexivity|].
  inversion H as [|? ? [E NE] Hr]; subst. cbn [fst snd] in E, NE.
  cbn [EA.check_variables EA.akeys map fst P.check_vars].
  destruct (String.eqb n target); [reflexivity|].
  rewrite <- orders_refs, <- E.
  destruct refs as [|first others]; [congruence|].
  cbn [map P.all_same_order]. rewrite forallb_map'.
  destruct (forallb _ others); [apply IH; exact Hr | reflexivity].
Qed.

Section Conv.
Variable fl : P.dec -> F.
Variable fid : F -> Z.

(** model/Parser.v's tree as model/ExprAst.v's: through the regenerated AST type *)
Definition toA (e : P.expr) : EA.expr := GV.convA fid (GE.back fl e).

Lemma occurrences_toA : forall e, EA.occurrences (toA e) = map mk (P.tensors e).
Proof.
  unfold toA. induction e; cbn [GE.back GV.convA EA.occurrences P.tensors map]; try reflexivity;
    rewrite map_app, IHe1, IHe2; reflexivity.
Qed.

Lemma variables_toA_entries : forall e,
  Forall (fun kv : string * list EA.tref =>
            snd kv = VV.refs_of (fst kv) (map mk (P.tensors e)) /\ snd kv <> [])
         (EA.variables (toA e)).
Proof.
  intros e. apply Forall_forall. intros [n refs] Hin. cbn [fst snd].
  assert (G : EA.aget n (EA.variables (toA e)) = Some refs)
    by (apply VB.aget_NoDup_In; [apply VV.variables_NoDup | exact Hin]).
  rewrite VV.variables_get, occurrences_toA in G. unfold VV.opt_refs in G.
  destruct (VV.refs_of n (map mk (P.tensors e))) eqn:E; [discriminate|].
  inversion G; subst refs. split; [reflexivity | discriminate].
Qed.

Lemma keys_toA : forall e,
  EA.akeys (EA.variables (toA e)) = P.first_names [] (P.tensors e).
Proof.
  intros e. rewrite VV.variables_keys, occurrences_toA, map_map, first_names_sdedup.
  unfold EA.sdedup. f_equal.
Qed.

(** Parser.validate = ExprAst.assignment_check on the converted assignment *)
Theorem validate_check : forall x idx e,
  EA.assignment_check (EA.Assignment (EA.TRef x idx) (toA e)) = chk_of (P.validate (P.Assign x idx e)).
Proof.
  intros x idx e. unfold EA.assignment_check, P.validate.
  cbn [EA.a_target EA.a_expr EA.t_name P.tname P.rhs P.tindexes].
  rewrite (check_loop x (P.tensors e) _ (variables_toA_entries e)), keys_toA.
  destruct (P.check_vars x (P.first_names [] (P.tensors e)) (P.tensors e)); try reflexivity.
  cbn [chk_of].
  assert (K : EA.akeys (EA.variable_orders (EA.Assignment (EA.TRef x idx) (toA e)))
              = x :: P.first_names [] (P.tensors e)).
  { unfold EA.variable_orders, EA.akeys. cbn [map fst EA.a_target EA.a_expr EA.t_name]. f_equal.
    rewrite map_map. cbn [fst]. exact (keys_toA e). }
  assert (I : EA.all_index_names (EA.Assignment (EA.TRef x idx) (toA e))
              = idx ++ flat_map snd (P.tensors e)).
  { unfold EA.all_index_names. cbn [EA.a_target EA.a_expr EA.t_indexes].
    rewrite occurrences_toA, flat_map_map'. reflexivity. }
  rewrite K, I.
  rewrite (existsb_ext' (fun i => EA.smem i (x :: P.first_names [] (P.tensors e)))
                        (fun i => P.mem_str i (x :: P.first_names [] (P.tensors e))))
    by (intros i; symmetry; apply mem_str_smem).
  destruct (existsb _ _); reflexivity.
Qed.

End Conv.

(* ------------------------------------------------------------------------------------------ *)
(** * the regenerated __post_init__ as the hook of the regenerated grammar *)

(** [gen_post] (model/Compose.v): [Assignment(t, e)] runs gen/ProblemGen.v's [Assignment_post_init] *)

Ltac crunch_kind :=
  repeat match goal with
         | H : context [if ?b then _ else _] |- _ => destruct b eqn:?; try discriminate H
         | H : context [match ?v with nil => _ | _ => _ end] |- _ => destruct v; try discriminate H
         | H : context [match ?v with GT.VStr _ => _ | _ => _ end] |- _ => destruct v; try discriminate H
         end.

Lemma kind_class : forall x cls (e : EA.error),
  In (cls, e) [("MutatingAssignmentError", EA.EMutatingAssignment);
               ("InconsistentDimensionsError", EA.EInconsistentDimensions);
               ("NameConflictError", EA.ENameConflict)] ->
  GPE.kind x = e -> GP.exc_class x = cls.
Proof.
  intros [c site vals] cls e HIn K. unfold GPE.kind in K. cbv zeta beta in K. cbn [GP.exc_class].
  destruct (String.eqb c "MutatingAssignmentError" && Z.eqb site 0) eqn:E1.
  { apply andb_true_iff in E1 as [E1 _]. apply String.eqb_eq in E1. subst c.
    change (EA.EMutatingAssignment = e) in K. cbn [In] in HIn. destruct HIn as [H|[H|[H|[]]]]; inversion H; subst; try discriminate. reflexivity. }
  destruct (String.eqb c "InconsistentDimensionsError" && Z.eqb site 1) eqn:E2.
  { apply andb_true_iff in E2 as [E2 _]. apply String.eqb_eq in E2. subst c.
    change (EA.EInconsistentDimensions = e) in K. cbn [In] in HIn. destruct HIn as [H|[H|[H|[]]]]; inversion H; subst; try discriminate. reflexivity. }
  destruct (String.eqb c "NameConflictError" && Z.eqb site 2) eqn:E3.
  { apply andb_true_iff in E3 as [E3 _]. apply String.eqb_eq in E3. subst c.
    change (EA.ENameConflict = e) in K. cbn [In] in HIn. destruct HIn as [H|[H|[H|[]]]]; inversion H; subst; try discriminate. reflexivity. }
  exfalso. cbn [In] in HIn.
  destruct HIn as [H|[H|[H|[]]]]; inversion H; subst; crunch_kind.
Qed.

(** the hypothesis of the TIE grammar theorems, for the regenerated method *)
Theorem gen_post_is_validate : forall (fl : P.dec -> F) x idx e,
  gen_post (GD.ExTensor x idx) (GE.back fl e) = GE.vexn (P.validate (P.Assign x idx e)).
Proof.
  intros fl x idx e.
  pose proof (GPE.gen_assignment_post_init_equiv (fun _ => 0%Z) x idx (GE.back fl e)) as PI.
  unfold GPE.gassign, GPE.massign in PI.
  change (GV.convA (fun _ => 0%Z) (GE.back fl e)) with (toA fl (fun _ => 0%Z) e) in PI.
  rewrite validate_check in PI. unfold gen_post.
  destruct (P.validate (P.Assign x idx e)); cbn [chk_of GE.vexn] in *.
  - apply GPE.cres_Ok in PI. rewrite PI. reflexivity.
  - apply GPE.cres_Error in PI as [ex [-> K]].
    rewrite (kind_class ex "MutatingAssignmentError" _ ltac:(cbn [In]; auto) K). reflexivity.
  - apply GPE.cres_Error in PI as [ex [-> K]].
    rewrite (kind_class ex "InconsistentDimensionsError" _ ltac:(cbn [In]; auto) K). reflexivity.
  - apply GPE.cres_Error in PI as [ex [-> K]].
    rewrite (kind_class ex "NameConflictError" _ ltac:(cbn [In]; auto) K). reflexivity.
Qed.

(* ------------------------------------------------------------------------------------------ *)
(** * the TIE grammar theorems on fully regenerated functions *)

Section Closed.
Variable fl : P.dec -> F.

Theorem compose_assignment_equiv : forall s : string,
  GG.parse_assignment fl gen_post s = GE.back_pres fl (GE.parse_assignment_f fl s).
Proof. exact (GE.gen_parse_assignment_equiv fl gen_post (gen_post_is_validate fl)). Qed.

Theorem compose_assignment_equiv_model : forall (s : string) ts,
  P.lex s = Some ts -> GE.floats_finite fl ts = true ->
  GG.parse_assignment fl gen_post s = GE.back_pres fl (P.parse_assignment s).
Proof. exact (GE.gen_parse_assignment_equiv_model fl gen_post (gen_post_is_validate fl)). Qed.

Theorem compose_parse_sound_complete : forall (s : string) v,
  GG.parse_assignment fl gen_post s = GG.PSuccess v <->
  exists ts a, GE.lexF fl (List.length (list_ascii_of_string s)) (list_ascii_of_string s) = Some ts
               /\ TV.spec.Grammar.DA ts a /\ P.validate a = P.VOk /\ v = GE.back_asg fl a.
Proof. exact (GE.gen_parse_sound_complete fl gen_post (gen_post_is_validate fl)). Qed.

Theorem compose_parse_deparse : forall (s : string) a,
  GE.lexF fl (List.length (list_ascii_of_string s)) (list_ascii_of_string s) = Some (P.deparse a) ->
  P.validate a = P.VOk ->
  GG.parse_assignment fl gen_post s = GG.PSuccess (GE.back_asg fl a).
Proof. exact (GE.gen_parse_deparse fl gen_post (gen_post_is_validate fl)). Qed.

Theorem compose_assignment_total : forall s : string,
  match GG.parse_assignment fl gen_post s with
  | GG.PSuccess _ | GG.PFailure _ => True
  | _ => False
  end.
Proof. exact (GE.gen_parse_assignment_total fl gen_post (gen_post_is_validate fl)). Qed.

Theorem compose_deparse_roundtrip_int : forall (str_float : F -> string) (s : string) a,
  P.parse_assignment s = P.POk a -> P.float_free (P.rhs a) = true ->
  GG.parse_assignment fl gen_post
    (GD.ex_assignment_deparse str_float
       (GD.ExAssignment (GD.ExTensor (P.tname a) (P.tindexes a)) (GE.back fl (P.rhs a))))
  = GG.PSuccess (GE.back_asg fl a).
Proof.
  intros str_float. exact (GR.gen_grammar_deparse_roundtrip_int fl gen_post str_float (gen_post_is_validate fl)).
Qed.

(** Every Success of the regenerated parser is an Assignment OBJECT for the regenerated __post_init__:
    the hypothesis "the Assignment exists" of the TIE problem theorems ([assignment_check ... = Ok tt]) holds
    for parsed text, and the dict stored in [_variable_orders] is the model's [variable_orders]. *)
Theorem compose_parsed_is_object : forall (s : string) v,
  GG.parse_assignment fl gen_post s = GG.PSuccess v ->
  exists x idx e,
    v = Parsita.VU (GG.UAsg (GPE.gassign x idx e)) /\
    forall fid : F -> Z,
      EA.assignment_check (GPE.massign fid x idx e) = EA.Ok tt /\
      GP.Assignment_variable_orders (GPE.gassign x idx e)
      = GT.Ret (GPE.lift_orders (EA.variable_orders (GPE.massign fid x idx e))).
Proof.
  intros s v H. apply compose_parse_sound_complete in H as (ts & [x idx e] & _ & _ & Vd & ->).
  exists x, idx, (GE.back fl e). split; [reflexivity|]. intros fid.
  pose proof (validate_check fl fid x idx e) as VC. rewrite Vd in VC. cbn [chk_of] in VC.
  unfold GPE.massign. fold (toA fl fid e). split; [exact VC|].
  pose proof (GPE.gen_assignment_post_init_equiv fid x idx (GE.back fl e)) as PI.
  unfold GPE.massign in PI. fold (toA fl fid e) in PI. rewrite VC in PI.
  apply GPE.cres_Ok in PI. exact PI.
Qed.

End Closed.
