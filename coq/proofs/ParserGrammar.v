(** C12 -- the token parser of model/Parser.v against the textbook grammar of spec/Grammar.v:
    soundness (what it returns is derived, with the conventional tree), completeness (every
    derivable sentence is parsed, to that tree), hence unambiguity of the grammar; the printer
    [deparse] produces a sentence deriving the printed tree, hence parse (deparse a) = a. *)

From Coq Require Import String Ascii List NArith ZArith Bool Arith Lia.
From TV Require Import model.Parser spec.Grammar proofs.ParserFuel.
Import ListNotations.

(* ------------------------------------------------------------------------------------------ *)
(** * index lists *)

Fixpoint comma_names (l : list string) : list token :=
  match l with
  | [] => []
  | x :: t => TComma :: TName x :: comma_names t
  end.

Lemma sep_names_cons : forall x l, sep_names (x :: l) = TName x :: comma_names l.
Proof.
  intros x l. revert x. induction l as [|y l IH]; intros x; [reflexivity|].
  change (sep_names (x :: y :: l)) with (TName x :: TComma :: sep_names (y :: l)).
  rewrite IH. reflexivity.
Qed.

Lemma p_names_tail_sound_aux :
  forall n ts xs r, length ts <= n -> p_names_tail ts = (xs, r) -> ts = comma_names xs ++ r.
Proof.
  induction n as [|n IH]; intros ts xs r Hn H.
  - destruct ts; [|simpl in Hn; lia]. simpl in H. inversion H; subst. reflexivity.
  - destruct ts as [|t ts]; [simpl in H; inversion H; subst; reflexivity|].
    destruct t; try (simpl in H; inversion H; subst; reflexivity).
    destruct ts as [|t2 ts]; [simpl in H; inversion H; subst; reflexivity|].
    destruct t2; try (simpl in H; inversion H; subst; reflexivity).
    simpl in H. destruct (p_names_tail ts) as [xs' r'] eqn:E.
    inversion H; subst. simpl in Hn. simpl. do 2 f_equal. apply IH; [lia|assumption].
Qed.

Lemma p_names_sound : forall ts xs r, p_names ts = (xs, r) -> ts = sep_names xs ++ r.
Proof.
  intros ts xs r H. unfold p_names in H.
  destruct ts as [|t ts]; [inversion H; subst; reflexivity|].
  destruct t; try (inversion H; subst; reflexivity).
  destruct (p_names_tail ts) as [xs' r'] eqn:E. inversion H; subst.
  rewrite sep_names_cons. simpl. f_equal.
  eapply p_names_tail_sound_aux; [apply Nat.le_refl|eassumption].
Qed.

Lemma p_tensor_sound :
  forall ts x idx r, p_tensor ts = Ok ((x, idx), r) -> ts = tensor_toks x idx ++ r.
Proof.
  intros ts x idx r H. unfold p_tensor in H.
  destruct ts as [|t ts]; [discriminate|].
  destruct t; try discriminate.
  destruct ts as [|t2 ts]; [discriminate|].
  destruct t2; try discriminate.
  destruct (p_names ts) as [idx' r'] eqn:E.
  destruct r' as [|t3 r']; [discriminate|].
  destruct t3; try discriminate.
  inversion H; subst. apply p_names_sound in E. subst ts.
  unfold tensor_toks. simpl. rewrite <- app_assoc. reflexivity.
Qed.

(** the separator of the next name is never the closing parenthesis *)
Lemma p_names_tail_complete :
  forall xs r, p_names_tail (comma_names xs ++ TRP :: r) = (xs, TRP :: r).
Proof.
  induction xs as [|x xs IH]; intros r; [reflexivity|].
  simpl. rewrite IH. reflexivity.
Qed.

Lemma p_names_complete : forall xs r, p_names (sep_names xs ++ TRP :: r) = (xs, TRP :: r).
Proof.
  intros [|x xs] r; [reflexivity|].
  rewrite sep_names_cons. simpl. rewrite p_names_tail_complete. reflexivity.
Qed.

Lemma p_tensor_complete :
  forall x idx r, p_tensor (tensor_toks x idx ++ r) = Ok ((x, idx), r).
Proof.
  intros x idx r. unfold tensor_toks. simpl. rewrite <- app_assoc. simpl.
  rewrite p_names_complete. reflexivity.
Qed.

(* ------------------------------------------------------------------------------------------ *)
(** * soundness *)

Lemma parser_sound :
  forall n,
    (forall ts e r, p_factor n ts = Ok (e, r) -> exists pre, ts = pre ++ r /\ DF pre e) /\
    (forall acc ts e r, term_loop n acc ts = Ok (e, r) ->
       exists pre, ts = pre ++ r /\ forall pre0, DT pre0 acc -> DT (pre0 ++ pre) e) /\
    (forall acc ts e r, expr_loop n acc ts = Ok (e, r) ->
       exists pre, ts = pre ++ r /\ forall pre0, DE pre0 acc -> DE (pre0 ++ pre) e).
Proof.
  induction n as [|n [IHf [IHt IHe]]].
  - repeat split; intros; discriminate.
  - assert (Hterm : forall ts e r, bind (p_factor n ts) (term_loop n) = Ok (e, r) ->
                                    exists pre, ts = pre ++ r /\ DT pre e).
    { intros ts e r H. destruct (p_factor n ts) as [[f r1]| |] eqn:F; try discriminate.
      simpl in H. apply IHf in F. destruct F as [p1 [-> D1]].
      apply IHt in H. destruct H as [p2 [-> D2]].
      exists (p1 ++ p2). split; [rewrite app_assoc; reflexivity|].
      apply D2. apply DT_factor. exact D1. }
    repeat split.
    + intros ts e r H. simpl in H.
      destruct ts as [|t ts]; [discriminate|].
      destruct t; try discriminate.
      * destruct (p_tensor (TName s :: ts)) as [[[x idx] r']| |] eqn:E; try discriminate.
        inversion H; subst. apply p_tensor_sound in E.
        exists (tensor_toks x idx). split; [exact E|apply DF_tensor].
      * inversion H; subst. exists [TInt n0]. split; [reflexivity|apply DF_int].
      * inversion H; subst. exists [TFloat f]. split; [reflexivity|apply DF_float].
      * destruct (bind (p_factor n ts) (term_loop n)) as [[t1 r1]| |] eqn:T; try discriminate.
        simpl in H.
        destruct (expr_loop n t1 r1) as [[e1 r2]| |] eqn:E; try discriminate.
        simpl in H.
        destruct r2 as [|t2 r2]; [discriminate|]. destruct t2; try discriminate.
        simpl in H. inversion H; subst.
        apply Hterm in T. destruct T as [p1 [-> D1]].
        apply IHe in E. destruct E as [p2 [-> D2]].
        exists (TLP :: (p1 ++ p2) ++ [TRP]). split.
        -- simpl. f_equal. repeat rewrite <- app_assoc. reflexivity.
        -- apply DF_paren. apply D2. apply DE_term. exact D1.
    + intros acc ts e r H. simpl in H.
      destruct ts as [|t ts];
        [inversion H; subst; exists []; split; [reflexivity|intros; rewrite app_nil_r; assumption]|].
      destruct t;
        try (inversion H; subst; exists []; split; [reflexivity|intros; rewrite app_nil_r; assumption]).
      destruct (p_factor n ts) as [[f r1]| |] eqn:F; try discriminate.
      * apply IHf in F. destruct F as [p1 [-> D1]].
        apply IHt in H. destruct H as [p2 [-> D2]].
        exists (TStar :: p1 ++ p2). split.
        -- simpl. rewrite <- app_assoc. reflexivity.
        -- intros pre0 D0.
           replace (pre0 ++ TStar :: p1 ++ p2) with ((pre0 ++ TStar :: p1) ++ p2)
             by (rewrite <- app_assoc; reflexivity).
           apply D2. apply DT_mul; assumption.
      * inversion H; subst. exists []. split; [reflexivity|intros; rewrite app_nil_r; assumption].
    + intros acc ts e r H. simpl in H.
      destruct ts as [|t ts];
        [inversion H; subst; exists []; split; [reflexivity|intros; rewrite app_nil_r; assumption]|].
      destruct t;
        try (inversion H; subst; exists []; split; [reflexivity|intros; rewrite app_nil_r; assumption]).
      * destruct (bind (p_factor n ts) (term_loop n)) as [[t1 r1]| |] eqn:T; try discriminate.
        -- apply Hterm in T. destruct T as [p1 [-> D1]].
           apply IHe in H. destruct H as [p2 [-> D2]].
           exists (TPlus :: p1 ++ p2). split.
           ++ simpl. rewrite <- app_assoc. reflexivity.
           ++ intros pre0 D0.
              replace (pre0 ++ TPlus :: p1 ++ p2) with ((pre0 ++ TPlus :: p1) ++ p2)
                by (rewrite <- app_assoc; reflexivity).
              apply D2. apply DE_add; assumption.
        -- inversion H; subst. exists []. split; [reflexivity|intros; rewrite app_nil_r; assumption].
      * destruct (bind (p_factor n ts) (term_loop n)) as [[t1 r1]| |] eqn:T; try discriminate.
        -- apply Hterm in T. destruct T as [p1 [-> D1]].
           apply IHe in H. destruct H as [p2 [-> D2]].
           exists (TMinus :: p1 ++ p2). split.
           ++ simpl. rewrite <- app_assoc. reflexivity.
           ++ intros pre0 D0.
              replace (pre0 ++ TMinus :: p1 ++ p2) with ((pre0 ++ TMinus :: p1) ++ p2)
                by (rewrite <- app_assoc; reflexivity).
              apply D2. apply DE_sub; assumption.
        -- inversion H; subst. exists []. split; [reflexivity|intros; rewrite app_nil_r; assumption].
Qed.

Lemma p_expr_sound :
  forall n ts e r, p_expr n ts = Ok (e, r) -> exists pre, ts = pre ++ r /\ DE pre e.
Proof.
  intros n ts e r H. unfold p_expr, p_term in H.
  destruct (parser_sound n) as [Hf [Ht He]].
  destruct (p_factor n ts) as [[f r1]| |] eqn:F; try discriminate. simpl in H.
  destruct (term_loop n f r1) as [[t r2]| |] eqn:T; try discriminate. simpl in H.
  apply Hf in F. destruct F as [p1 [-> D1]].
  apply Ht in T. destruct T as [p2 [-> D2]].
  apply He in H. destruct H as [p3 [-> D3]].
  exists ((p1 ++ p2) ++ p3). split.
  - repeat rewrite <- app_assoc. reflexivity.
  - apply D3. apply DE_term. apply D2. apply DT_factor. exact D1.
Qed.

(** what [parse_tokens] accepts is an assignment sentence of the textbook grammar, with exactly
    that tree, and it passed validation *)
Theorem parse_tokens_sound :
  forall ts a, parse_tokens ts = POk a -> DA ts a /\ validate a = VOk.
Proof.
  intros ts a H. unfold parse_tokens, parse_tokens_fuel in H.
  destruct (p_tensor ts) as [[[x idx] r]| |] eqn:E; try discriminate.
  destruct r as [|t r]; try discriminate.
  destruct t; try discriminate.
  destruct (p_expr (S (length ts)) r) as [[e r']| |] eqn:P; try discriminate.
  destruct (validate (Assign x idx e)) eqn:V; try discriminate.
  destruct r' as [|? ?]; try discriminate.
  inversion H; subst a.
  apply p_tensor_sound in E. apply p_expr_sound in P. destruct P as [pre [-> D]].
  rewrite app_nil_r in E. subst ts. split; [|exact V].
  apply DA_assign. exact D.
Qed.

(* ------------------------------------------------------------------------------------------ *)
(** * completeness *)

Definition nostar (ts : list token) : Prop :=
  match ts with TStar :: _ => False | _ => True end.

Definition noop (ts : list token) : Prop :=
  match ts with TStar :: _ | TPlus :: _ | TMinus :: _ => False | _ => True end.

Lemma term_loop_stop : forall t rest, nostar rest -> term_loop 1 t rest = Ok (t, rest).
Proof.
  intros t rest H. simpl. destruct rest as [|x rest]; [reflexivity|].
  destruct x; try reflexivity. destruct H.
Qed.

Lemma expr_loop_stop : forall e rest, noop rest -> expr_loop 1 e rest = Ok (e, rest).
Proof.
  intros e rest H. simpl. destruct rest as [|x rest]; [reflexivity|].
  destruct x; try reflexivity; destruct H.
Qed.

Lemma noop_nostar : forall ts, noop ts -> nostar ts.
Proof. intros [|[] ts]; simpl; auto. Qed.

Lemma p_term_eq : forall n ts, bind (p_factor n ts) (term_loop n) = p_term n ts.
Proof. reflexivity. Qed.

Lemma p_factor_paren :
  forall n ts, p_factor (S n) (TLP :: ts) = bind (p_expr n ts) expect_rp.
Proof. reflexivity. Qed.

Lemma parser_complete :
  (forall ts e, DF ts e -> forall rest, exists n, p_factor n (ts ++ rest) = Ok (e, rest)) /\
  (forall ts t, DT ts t -> forall rest k v, term_loop k t rest = Ok v ->
                                  exists n, p_term n (ts ++ rest) = Ok v) /\
  (forall ts e, DE ts e -> forall rest k v, nostar rest -> expr_loop k e rest = Ok v ->
                                  exists n, p_expr n (ts ++ rest) = Ok v).
Proof.
  apply D_mutind.
  - (* int *) intros n rest. exists 1. reflexivity.
  - (* float *) intros f rest. exists 1. reflexivity.
  - (* tensor *)
    intros x idx rest. exists 1.
    change (p_factor 1 (tensor_toks x idx ++ rest))
      with (match p_tensor (tensor_toks x idx ++ rest) with
            | Ok ((x, idx), r) => Ok (ETensor x idx, r)
            | _ => NoParse
            end).
    rewrite p_tensor_complete. reflexivity.
  - (* parentheses *)
    intros ts e _ IH rest.
    destruct (IH (TRP :: rest) 1 (e, TRP :: rest) I (expr_loop_stop e (TRP :: rest) I)) as [n Hn].
    exists (S n). simpl app. rewrite <- app_assoc. simpl app.
    rewrite p_factor_paren. rewrite Hn. reflexivity.
  - (* T -> F *)
    intros ts e _ IH rest k v Hk.
    destruct (IH rest) as [n Hn].
    exists (Nat.max n k). unfold p_term.
    rewrite (p_factor_mono_ok n (Nat.max n k) _ _ (Nat.le_max_l n k) Hn). simpl.
    apply (term_loop_mono_ok k); [apply Nat.le_max_r|exact Hk].
  - (* T -> T * F *)
    intros ts1 ts2 t f _ IHt _ IHf rest k v Hk.
    destruct (IHf rest) as [n2 Hn2].
    rewrite <- app_assoc. simpl app.
    apply (IHt (TStar :: ts2 ++ rest) (S (Nat.max n2 k))).
    simpl.
    rewrite (p_factor_mono_ok n2 (Nat.max n2 k) _ _ (Nat.le_max_l n2 k) Hn2).
    apply (term_loop_mono_ok k); [apply Nat.le_max_r|exact Hk].
  - (* E -> T *)
    intros ts e _ IH rest k v Hs Hk.
    destruct (IH rest 1 (e, rest) (term_loop_stop e rest Hs)) as [n Hn].
    exists (Nat.max n k). unfold p_expr.
    rewrite (p_term_mono_ok n (Nat.max n k) _ _ (Nat.le_max_l n k) Hn). simpl.
    apply (expr_loop_mono_ok k); [apply Nat.le_max_r|exact Hk].
  - (* E -> E + T *)
    intros ts1 ts2 e t _ IHe _ IHt rest k v Hs Hk.
    destruct (IHt rest 1 (t, rest) (term_loop_stop t rest Hs)) as [n2 Hn2].
    rewrite <- app_assoc. simpl app.
    apply (IHe (TPlus :: ts2 ++ rest) (S (Nat.max n2 k))); [exact I|].
    simpl. rewrite p_term_eq.
    rewrite (p_term_mono_ok n2 (Nat.max n2 k) _ _ (Nat.le_max_l n2 k) Hn2).
    apply (expr_loop_mono_ok k); [apply Nat.le_max_r|exact Hk].
  - (* E -> E - T *)
    intros ts1 ts2 e t _ IHe _ IHt rest k v Hs Hk.
    destruct (IHt rest 1 (t, rest) (term_loop_stop t rest Hs)) as [n2 Hn2].
    rewrite <- app_assoc. simpl app.
    apply (IHe (TMinus :: ts2 ++ rest) (S (Nat.max n2 k))); [exact I|].
    simpl. rewrite p_term_eq.
    rewrite (p_term_mono_ok n2 (Nat.max n2 k) _ _ (Nat.le_max_l n2 k) Hn2).
    apply (expr_loop_mono_ok k); [apply Nat.le_max_r|exact Hk].
Qed.

Lemma p_expr_complete :
  forall ts e rest, DE ts e -> noop rest -> exists n, p_expr n (ts ++ rest) = Ok (e, rest).
Proof.
  intros ts e rest D H.
  destruct parser_complete as [_ [_ HE]].
  apply (HE ts e D rest 1 (e, rest)); [apply noop_nostar; exact H|apply expr_loop_stop; exact H].
Qed.

(** every assignment sentence of the textbook grammar whose tree passes validation is parsed,
    to exactly that tree *)
Theorem parse_tokens_complete :
  forall ts a, DA ts a -> validate a = VOk -> parse_tokens ts = POk a.
Proof.
  intros ts a D V. destruct D as [x idx ts e D].
  destruct (p_expr_complete ts e [] D I) as [n Hn]. rewrite app_nil_r in Hn.
  set (all := tensor_toks x idx ++ TEq :: ts).
  rewrite <- (parse_tokens_fuel_stable all (Nat.max n (S (length all)))) by apply Nat.le_max_r.
  unfold parse_tokens_fuel. subst all. rewrite p_tensor_complete.
  rewrite (p_expr_mono_ok n _ _ _ (Nat.le_max_l _ _) Hn).
  rewrite V. reflexivity.
Qed.

Theorem parse_tokens_iff_derives :
  forall ts a, parse_tokens ts = POk a <-> (DA ts a /\ validate a = VOk).
Proof.
  intros ts a. split; [apply parse_tokens_sound|].
  intros [D V]. apply parse_tokens_complete; assumption.
Qed.

(** the textbook grammar is unambiguous: a sentence has one tree *)
Theorem DE_unambiguous : forall ts e1 e2, DE ts e1 -> DE ts e2 -> e1 = e2.
Proof.
  intros ts e1 e2 D1 D2.
  destruct (p_expr_complete ts e1 [] D1 I) as [n1 H1].
  destruct (p_expr_complete ts e2 [] D2 I) as [n2 H2].
  apply (p_expr_mono_ok n1 (Nat.max n1 n2)) in H1; [|apply Nat.le_max_l].
  apply (p_expr_mono_ok n2 (Nat.max n1 n2)) in H2; [|apply Nat.le_max_r].
  rewrite H1 in H2. inversion H2. reflexivity.
Qed.

(* ------------------------------------------------------------------------------------------ *)
(** * the printer produces a sentence that derives the printed tree *)

Definition is_atom (e : expr) : bool :=
  match e with EInt _ | EFloat _ | ETensor _ _ => true | _ => false end.

Lemma toks_derive :
  forall e,
    DE (toks e) e /\
    (is_addsub e = false -> DT (toks e) e) /\
    (is_addsub e = false -> is_mul e = false -> DF (toks e) e).
Proof.
  induction e as [n|f|x idx|l [IHl1 [IHl2 IHl3]] r [IHr1 [IHr2 IHr3]]
                 |l [IHl1 [IHl2 IHl3]] r [IHr1 [IHr2 IHr3]]
                 |l [IHl1 [IHl2 IHl3]] r [IHr1 [IHr2 IHr3]]].
  - repeat split; intros; repeat constructor.
  - repeat split; intros; repeat constructor.
  - repeat split; intros; repeat constructor.
  - (* Add *)
    repeat split; try discriminate.
    simpl toks. apply DE_add; [exact IHl1|].
    destruct (is_addsub r) eqn:Hr; simpl wrap.
    + apply DT_factor. apply (DF_paren (toks r) r IHr1).
    + apply IHr2. reflexivity.
  - (* Subtract *)
    repeat split; try discriminate.
    simpl toks. apply DE_sub; [exact IHl1|].
    destruct (is_addsub r) eqn:Hr; simpl wrap.
    + apply DT_factor. apply (DF_paren (toks r) r IHr1).
    + apply IHr2. reflexivity.
  - (* Multiply *)
    assert (D : DT (toks (EMul l r)) (EMul l r)).
    { simpl toks. apply DT_mul.
      - destruct (is_addsub l) eqn:Hl; simpl wrap.
        + apply DT_factor. apply (DF_paren (toks l) l IHl1).
        + apply IHl2. reflexivity.
      - destruct (is_addsub r) eqn:Hr; simpl.
        + apply (DF_paren (toks r) r IHr1).
        + destruct (is_mul r) eqn:Hm; simpl wrap.
          * apply (DF_paren (toks r) r IHr1).
          * apply IHr3; reflexivity. }
    repeat split; try discriminate.
    + apply DE_term. exact D.
    + intros _. exact D.
Qed.

Theorem deparse_derives : forall a, DA (deparse a) a.
Proof.
  intros [x idx e]. unfold deparse. simpl. apply DA_assign. apply toks_derive.
Qed.

(** printing then parsing gives back the tree, for every tree of any depth that passes
    validation (every tree the parser can return does) *)
Theorem parse_deparse : forall a, validate a = VOk -> parse_tokens (deparse a) = POk a.
Proof.
  intros a V. apply parse_tokens_complete; [apply deparse_derives|exact V].
Qed.

(** and printing is injective on valid trees *)
Corollary deparse_injective :
  forall a b, validate a = VOk -> validate b = VOk -> deparse a = deparse b -> a = b.
Proof.
  intros a b Va Vb H. apply parse_deparse in Va. apply parse_deparse in Vb.
  rewrite H in Va. rewrite Va in Vb. inversion Vb. reflexivity.
Qed.

(** a tree returned by the parser is valid, so the round trip applies to it, and the printed
    text of a parsed text parses to the same tree *)
Corollary parse_deparse_parse :
  forall ts a, parse_tokens ts = POk a -> parse_tokens (deparse a) = POk a.
Proof.
  intros ts a H. apply parse_tokens_sound in H. apply parse_deparse. apply H.
Qed.

(* ------------------------------------------------------------------------------------------ *)
(** * conventional meaning: concrete consequences of soundness for the three precedence rules *)

(** the derivation relation forces the conventional grouping: these are the only trees of the
    three characteristic sentences  x - y - z,  x + y * z,  (x + y) * z  over atoms *)
Lemma parse_tokens_never_raises : forall ts, exists r, parse_tokens ts = r /\ r <> PFuel.
Proof. intros ts. exists (parse_tokens ts). split; [reflexivity|apply parse_tokens_fuel_sufficient]. Qed.
