(** Glue for the C09 correspondence (no theorems): one [ccase] is an input of a constructor together
    with everything the implementation answered; [check_case] evaluates the model on the same input
    and returns a bit mask of the disagreements.  tools/props/C09.py writes lists of such cases and
    prints [failing cases] with vm_compute. *)

From Coq Require Import ZArith List Bool.
From TV Require Import spec.Storage model.TensorBuild.
Import ListNotations.
Open Scope Z_scope.

Inductive cinput : Type :=
  | IAos (cs : list (list Z)) (vs : list Z)
  | IDok (d : list entry)
  | ISoa (cols : list (list Z)) (vs : list Z)
  | ILol (x : lol).

(** what the implementation returned for one constructed tensor *)
Inductive iresult : Type :=
  | IErr (cls : Z)                       (* 1 = IndexError, 2 = ValueError, 9 = anything else *)
  | IOk (t : tensor Z).

Record iread : Type := mkRead {
  r_items : list entry;                  (* list(t.items()) *)
  r_dok : list entry;                    (* t.to_dok() in dict order *)
  r_dokz : list entry;                   (* t.to_dok(explicit_zeros=True) *)
  r_pickle : iresult;                    (* pickle.loads(pickle.dumps(t)) raw *)
  r_tofmt : list (format * iresult)      (* t.to_format(f) raw, for some formats f *)
}.

Record ccase : Type := mkCase {
  c_fmt : format;
  c_dims : list Z;
  c_input : cinput;
  c_res : iresult;
  c_read : option iread
}.

Definition err_class (e : err) : Z :=
  match e with EFormat => 0 | EIndex => 1 | ELength | EValue | ERange => 2 end.

Definition res_agree (m : result (tensor Z)) (i : iresult) : bool :=
  match m, i with
  | Ok a, IOk b => tensor_eqb a b
  | Err e, IErr c => err_class e =? c
  | _, _ => false
  end.

(** the variant with a range check: which exception a repaired from_aos raises is not prescribed *)
Definition res_agree_checked (m : result (tensor Z)) (i : iresult) : bool :=
  match m, i with
  | Ok a, IOk b => tensor_eqb a b
  | Err ERange, IErr _ => true
  | Err e, IErr c => err_class e =? c
  | _, _ => false
  end.

Definition model_run (checked : bool) (f : format) (dims : list Z) (i : cinput) : result (tensor Z) :=
  match i with
  | IAos cs vs =>
      if checked then
        match zip_strict cs vs with
        | Some es => build_checked f dims es
        | None => from_aos f dims cs vs
        end
      else from_aos f dims cs vs
  | IDok d => if checked then build_checked f dims d else from_dok f dims d
  | ISoa cols vs =>
      if checked then
        match transpose_strict cols with
        | Some rows => match zip_strict rows vs with
                       | Some es => build_checked f dims es
                       | None => from_soa f dims cols vs end
        | None => from_soa f dims cols vs
        end
      else from_soa f dims cols vs
  | ILol x =>
      if checked then build_checked f dims (lol_entries x []) else from_lol f dims x
  end.

Definition bit (b : bool) (w : Z) : Z := if b then 0 else w.

Definition check_read (t : tensor Z) (r : iread) : Z :=
  bit (entries_eqb (items_spec t) (r_items r)) 4
  + bit (entries_eqb (items_impl t) (r_items r)) 8
  + bit (entries_eqb (to_dok_spec t) (r_dok r) && entries_eqb (to_dok true (items_spec t)) (r_dokz r)) 16
  + bit (entries_eqb (to_dok_impl t) (r_dok r) && entries_eqb (to_dok true (items_impl t)) (r_dokz r)) 32
  + bit (forallb (fun p : format * iresult => res_agree (to_format_spec (fst p) t) (snd p)) (r_tofmt r)) 64
  + bit (forallb (fun p : format * iresult => res_agree (to_format_impl (fst p) t) (snd p)) (r_tofmt r)) 128
  + bit (res_agree (pickle_roundtrip t) (r_pickle r)) 256.

Definition check_case (c : ccase) : Z :=
  bit (res_agree (model_run false (c_fmt c) (c_dims c) (c_input c)) (c_res c)) 1
  + bit (res_agree_checked (model_run true (c_fmt c) (c_dims c) (c_input c)) (c_res c)) 512
  + match c_res c with
    | IOk t =>
        bit (wf_tensorb true t) 2
        + match c_read c with Some r => check_read t r | None => 0 end
    | IErr _ => 0
    end.

Fixpoint failing_from (i : Z) (l : list ccase) : list (Z * Z) :=
  match l with
  | [] => []
  | c :: r => let m := check_case c in
              if m =? 0 then failing_from (i + 1) r else (i, m) :: failing_from (i + 1) r
  end.

Definition failing (l : list ccase) : list (Z * Z) := failing_from 0 l.

(** compact constructors for the generated files *)
Definition F (ms : list Z) (ord : list Z) : format :=
  mkFormat (map (fun m => if m =? 0 then MDense else MCompressed) ms) (map Z.to_nat ord).
Definition Lv (pos crd : list Z) : level := LCompressed pos crd.
Definition T (dims ord : list Z) (ls : list level) (vs : list Z) : tensor Z :=
  mkTensor dims (map Z.to_nat ord) ls vs.
