(** C11 -- the documented format rule, the shape error, the classification of outcomes, and the
    Python-level statements (operand order of the reflected methods). *)

From Coq Require Import ZArith String Ascii List Bool Lia ZifyBool.
From TV Require Import spec.Storage spec.PyBase model.Operators proofs.OperatorsBase
  proofs.OperatorsDenote proofs.OperatorsChecks.
Import ListNotations.
Open Scope Z_scope.
Open Scope string_scope.
Open Scope list_scope.

(** * Format rule *)

Lemma natural_operand_inv d m r :
  natural_operand (OTensor d m r) = true -> r = natural (length d).
Proof. simpl. apply list_eqb_nat. Qed.

Lemma nth_repeat_dense n d : nth d (repeat MDense n) MDense = MDense.
Proof. revert d. induction n as [|n IH]; intros [|d]; simpl; auto. Qed.

Lemma mode_intersection_dense_r m : mode_intersection m MDense = m.
Proof. destruct m; reflexivity. Qed.
Lemma mode_intersection_dense_l m : mode_intersection MDense m = m.
Proof. destruct m; reflexivity. Qed.
Lemma mode_union_dense_r m : mode_union m MDense = MDense.
Proof. destruct m; reflexivity. Qed.
Lemma mode_union_dense_l m : mode_union MDense m = MDense.
Proof. destruct m; reflexivity. Qed.

Theorem operator_format_rule l r o q :
  wf_operand l = true -> wf_operand r = true ->
  natural_operand l = true -> natural_operand r = true ->
  binary_operator_request l r o = Ok q ->
  f_ordering (rq_format q) = natural (length (pointwise_dims l r)) /\
  length (f_modes (rq_format q)) = length (pointwise_dims l r) /\
  forall d, (d < length (pointwise_dims l r))%nat ->
    format_mode_of_dim (rq_format q) d = rule_mode o (mode_of_dim l d) (mode_of_dim r d).
Proof.
  destruct l as [ld lm lo| |], r as [rd rm ro| |]; simpl pointwise_dims;
    intros Hwl Hwr Hnl Hnr Hq; try (simpl in Hq; discriminate).
  - (* tensor, tensor *)
    apply wf_tensor_inv in Hwl as [Hlm [Hlo _]]. apply wf_tensor_inv in Hwr as [Hrm [Hro _]].
    apply natural_operand_inv in Hnl, Hnr. subst lo ro.
    unfold binary_operator_request in Hq.
    destruct (list_eqb Z.eqb ld rd) eqn:E; simpl in Hq; [|discriminate].
    apply list_eqb_Z in E. subst rd.
    inversion Hq; subst q; clear Hq. simpl rq_format.
    assert (Hlen : length (match o with OpMul => modes_intersection lm rm
                                   | _ => modes_union lm rm end) = length ld).
    { destruct o; rewrite ?modes_union_length, ?modes_intersection_length by congruence;
        assumption. }
    unfold natural_format. simpl f_ordering. simpl f_modes. rewrite Hlen.
    split; [reflexivity|]. split; [reflexivity|].
    intros d Hd. unfold format_mode_of_dim, mode_of_dim. simpl f_ordering. simpl f_modes.
    rewrite !index_of_natural by assumption.
    destruct o; simpl rule_mode;
      rewrite ?nth_modes_union, ?nth_modes_intersection by (congruence || lia); reflexivity.
  - (* tensor, number *)
    apply wf_tensor_inv in Hwl as [Hlm [Hlo _]].
    apply natural_operand_inv in Hnl. subst lo.
    unfold binary_operator_request in Hq. inversion Hq; subst q; clear Hq. simpl rq_format.
    destruct o; unfold natural_format; simpl f_ordering; simpl f_modes;
      rewrite ?repeat_length; (split; [reflexivity|]); (split; [solve [reflexivity | assumption]|]);
      intros d Hd; unfold format_mode_of_dim, mode_of_dim; simpl f_ordering; simpl f_modes;
      rewrite ?index_of_natural by assumption; simpl rule_mode;
      rewrite ?nth_repeat_dense, ?mode_union_dense_r, ?mode_intersection_dense_r; reflexivity.
  - (* number, tensor *)
    apply wf_tensor_inv in Hwr as [Hrm [Hro _]].
    apply natural_operand_inv in Hnr. subst ro.
    unfold binary_operator_request in Hq. inversion Hq; subst q; clear Hq. simpl rq_format.
    destruct o; unfold natural_format; simpl f_ordering; simpl f_modes;
      rewrite ?repeat_length; (split; [reflexivity|]); (split; [solve [reflexivity | assumption]|]);
      intros d Hd; unfold format_mode_of_dim, mode_of_dim; simpl f_ordering; simpl f_modes;
      rewrite ?index_of_natural by assumption; simpl rule_mode;
      rewrite ?nth_repeat_dense, ?mode_union_dense_l, ?mode_intersection_dense_l; reflexivity.
Qed.

(** For [@] the rule holds for EVERY stored ordering: a permutation of two levels is its own
    inverse, so [modes[ordering[d]]] is the mode of the level that stores dimension [d]. *)
Theorem matmul_format_rule l r q :
  wf_operand l = true -> wf_operand r = true ->
  matmul_request l r = Ok q ->
  rq_format q = natural_format (matmul_outer_modes l r).
Proof.
  destruct l as [ld lm lo| |], r as [rd rm ro| |]; try (simpl; discriminate).
  intros Hwl Hwr. apply wf_tensor_inv in Hwl as [Hlm [Hlo Hlv]].
  apply wf_tensor_inv in Hwr as [Hrm [Hro Hrv]].
  unfold matmul_request.
  destruct ld as [|l0 [|l1 [|l2 ld]]]; destruct rd as [|r0 [|r1 [|r2 rd]]]; try discriminate;
    simpl in Hlm, Hlo, Hrm, Hro.
  - destruct (list_eqb Z.eqb [l0] [r0]); simpl negb; cbv iota; [|discriminate].
    intros Hq. inversion Hq; reflexivity.
  - destruct (Z.eqb l0 r0); simpl negb; cbv iota; [|discriminate].
    destruct rm as [|m0 [|m1 [|m2 rm]]]; try discriminate.
    destruct (valid_format_order2 m0 m1 ro Hro Hrv) as [-> | ->]; simpl;
      intros Hq; inversion Hq; reflexivity.
  - destruct (Z.eqb l1 r0); simpl negb; cbv iota; [|discriminate].
    destruct lm as [|m0 [|m1 [|m2 lm]]]; try discriminate.
    destruct (valid_format_order2 m0 m1 lo Hlo Hlv) as [-> | ->]; simpl;
      intros Hq; inversion Hq; reflexivity.
  - destruct (Z.eqb l1 r0); simpl negb; cbv iota; [|discriminate].
    destruct lm as [|m0 [|m1 [|m2 lm]]]; try discriminate.
    destruct rm as [|n0 [|n1 [|n2 rm]]]; try discriminate.
    destruct (valid_format_order2 m0 m1 lo Hlo Hlv) as [-> | ->];
      destruct (valid_format_order2 n0 n1 ro Hro Hrv) as [-> | ->]; simpl;
      intros Hq; inversion Hq; reflexivity.
Qed.

(** * Outcomes *)

Theorem binary_request_classification l r o :
  match binary_operator_request l r o with
  | Ok _ => supported_pair l r = true
            /\ (is_tensor l = true -> is_tensor r = true -> operand_dims l = operand_dims r)
  | Err EShape => is_tensor l = true /\ is_tensor r = true /\ operand_dims l <> operand_dims r
  | Err ENotImplemented => supported_pair l r = false
  | Err _ => False
  end.
Proof.
  destruct l as [ld lm lo| |], r as [rd rm ro| |]; simpl; auto;
    try (split; [reflexivity | intros; discriminate]).
  destruct (list_eqb Z.eqb ld rd) eqn:E; simpl.
  - apply list_eqb_Z in E. auto.
  - repeat split; auto. intros ->. rewrite list_eqb_Z_refl in E. discriminate.
Qed.

Theorem shape_error_iff l r o :
  binary_operator_request l r o = Err EShape <->
  (is_tensor l = true /\ is_tensor r = true /\ operand_dims l <> operand_dims r).
Proof.
  pose proof (binary_request_classification l r o) as H.
  destruct (binary_operator_request l r o) as [q | []] eqn:E; split; intros G;
    try discriminate; try reflexivity; try tauto.
  destruct G as [G1 [G2 _]]. destruct l, r; simpl in *; discriminate.
Qed.

Theorem matmul_request_classification l r :
  match matmul_request l r with
  | Ok _ => is_tensor l = true /\ is_tensor r = true /\ matmul_orders_ok l r = true
            /\ inner_left l = inner_right r
  | Err EShape => is_tensor l = true /\ is_tensor r = true /\ matmul_orders_ok l r = true
                  /\ inner_left l <> inner_right r
  | Err EMatmulOrder => is_tensor l = true /\ is_tensor r = true /\ matmul_orders_ok l r = false
  | Err ENotImplemented => is_tensor l && is_tensor r = false
  | Err EIllFormed => wf_operand l && wf_operand r = false
  end.
Proof.
  destruct l as [ld lm lo| |], r as [rd rm ro| |]; try reflexivity.
  unfold matmul_request.
  destruct ld as [|l0 [|l1 [|l2 ld]]]; destruct rd as [|r0 [|r1 [|r2 rd]]];
    try (simpl; tauto).
  - (* vector . vector *)
    unfold inner_left, inner_right. simpl operand_dims. simpl last. simpl hd.
    destruct (list_eqb Z.eqb [l0] [r0]) eqn:E; simpl negb; cbv iota.
    + apply list_eqb_Z in E. inversion E. simpl. auto.
    + simpl. repeat split; auto. intros ->. rewrite list_eqb_Z_refl in E. discriminate.
  - (* vector . matrix *)
    unfold inner_left, inner_right. simpl operand_dims. simpl last. simpl hd.
    destruct (Z.eqb l0 r0) eqn:E; simpl negb; cbv iota.
    + apply Z.eqb_eq in E.
      destruct (mode_at_ordering rm ro 1) eqn:M; [simpl; auto|].
      destruct (wf_operand (OTensor [l0] lm lo) && wf_operand (OTensor [r0; r1] rm ro)) eqn:W;
        [|reflexivity].
      exfalso. apply andb_true_iff in W as [_ W]. apply wf_tensor_inv in W as [Hrm [Hro Hrv]].
      simpl in Hrm, Hro. destruct rm as [|m0 [|m1 [|m2 rm]]]; try discriminate.
      destruct (valid_format_order2 m0 m1 ro Hro Hrv) as [-> | ->]; discriminate.
    + apply Z.eqb_neq in E. simpl. auto.
  - (* matrix . vector *)
    unfold inner_left, inner_right. simpl operand_dims. simpl last. simpl hd.
    destruct (Z.eqb l1 r0) eqn:E; simpl negb; cbv iota.
    + apply Z.eqb_eq in E.
      destruct (mode_at_ordering lm lo 0) eqn:M; [simpl; auto|].
      destruct (wf_operand (OTensor [l0; l1] lm lo) && wf_operand (OTensor [r0] rm ro)) eqn:W;
        [|reflexivity].
      exfalso. apply andb_true_iff in W as [W _]. apply wf_tensor_inv in W as [Hlm [Hlo Hlv]].
      simpl in Hlm, Hlo. destruct lm as [|m0 [|m1 [|m2 lm]]]; try discriminate.
      destruct (valid_format_order2 m0 m1 lo Hlo Hlv) as [-> | ->]; discriminate.
    + apply Z.eqb_neq in E. simpl. auto.
  - (* matrix . matrix *)
    unfold inner_left, inner_right. simpl operand_dims. simpl last. simpl hd.
    destruct (Z.eqb l1 r0) eqn:E; simpl negb; cbv iota.
    + apply Z.eqb_eq in E.
      destruct (mode_at_ordering lm lo 0) eqn:M1;
        [destruct (mode_at_ordering rm ro 1) eqn:M2; [simpl; auto|]|];
        (destruct (wf_operand (OTensor [l0; l1] lm lo) && wf_operand (OTensor [r0; r1] rm ro))
                  eqn:W; [|reflexivity]);
        exfalso; apply andb_true_iff in W as [W1 W2];
        apply wf_tensor_inv in W1 as [Hlm [Hlo Hlv]];
        apply wf_tensor_inv in W2 as [Hrm [Hro Hrv]];
        simpl in Hlm, Hlo, Hrm, Hro;
        destruct lm as [|m0 [|m1 [|m2 lm]]]; try discriminate;
        destruct rm as [|n0 [|n1 [|n2 rm]]]; try discriminate;
        destruct (valid_format_order2 m0 m1 lo Hlo Hlv) as [-> | ->];
        destruct (valid_format_order2 n0 n1 ro Hro Hrv) as [-> | ->]; discriminate.
    + apply Z.eqb_neq in E. simpl. auto.
Qed.

Theorem matmul_shape_error_iff l r :
  matmul_request l r = Err EShape <->
  (is_tensor l = true /\ is_tensor r = true /\ matmul_orders_ok l r = true
   /\ inner_left l <> inner_right r).
Proof.
  pose proof (matmul_request_classification l r) as H.
  destruct (matmul_request l r) as [q | []] eqn:E; split; intros G;
    try discriminate; try reflexivity; try tauto.
  - destruct G as [_ [_ [G _]]]. destruct H as [_ [_ H]]. congruence.
  - destruct G as [G1 [G2 _]]. rewrite G1, G2 in H. discriminate.
  - (* ill-formed operands: the dimension test comes first, so this outcome means the inner
       dimensions were equal *)
    exfalso. clear H. destruct G as [G1 [G2 [G3 G4]]].
    destruct l as [ld lm lo| |], r as [rd rm ro| |]; try discriminate.
    unfold matmul_request in E. unfold inner_left, inner_right in G4. simpl operand_dims in G4.
    destruct ld as [|l0 [|l1 [|l2 ld]]]; destruct rd as [|r0 [|r1 [|r2 rd]]];
      try discriminate; simpl in G4.
    + destruct (list_eqb Z.eqb [l0] [r0]); discriminate.
    + destruct (Z.eqb l0 r0) eqn:Z; [apply Z.eqb_eq in Z; contradiction | discriminate].
    + destruct (Z.eqb l1 r0) eqn:Z; [apply Z.eqb_eq in Z; contradiction | discriminate].
    + destruct (Z.eqb l1 r0) eqn:Z; [apply Z.eqb_eq in Z; contradiction | discriminate].
Qed.

(** * Python level: the left Python operand is the left arithmetic operand *)

Lemma python_operator_binary p o a b :
  pyop_op p = Some o ->
  python_operator p a b =
  if is_tensor a || is_tensor b then binary_operator_request a b o else Err ENotImplemented.
Proof.
  intros Hp. unfold python_operator.
  destruct p; inversion Hp; subst o; destruct (is_tensor a) eqn:Ea; simpl;
    try reflexivity; destruct (is_tensor b); reflexivity.
Qed.

Lemma python_operator_matmul a b :
  python_operator PyMatmul a b =
  if is_tensor a || is_tensor b then matmul_request a b else Err ENotImplemented.
Proof.
  unfold python_operator. destruct (is_tensor a); simpl; [reflexivity|].
  destruct (is_tensor b); reflexivity.
Qed.

Theorem python_operator_denotes p o a b q av bv c :
  pyop_op p = Some o ->
  python_operator p a b = Ok q ->
  length c = length (pointwise_dims a b) ->
  denote_request q a b av bv c = apply_op o (broadcast a av c) (broadcast b bv c).
Proof.
  intros Hp Hq Hc. rewrite (python_operator_binary p o a b Hp) in Hq.
  destruct (is_tensor a || is_tensor b); [|discriminate].
  apply request_denotes_pointwise; assumption.
Qed.

Theorem python_matmul_denotes a b q av bv c :
  python_operator PyMatmul a b = Ok q ->
  length c = length (matmul_dims a b) ->
  denote_request q a b av bv c = matmul_spec a b av bv c.
Proof.
  intros Hq Hc. rewrite python_operator_matmul in Hq.
  destruct (is_tensor a || is_tensor b); [|discriminate].
  apply matmul_request_denotes; assumption.
Qed.

(** every outcome of a Python-level operator on well-formed operands is one of: a request that
    passes all checks with the right output dimensions, the shape error, the matmul order error,
    NotImplemented *)
Theorem python_operator_total p a b :
  wf_operand a = true -> wf_operand b = true ->
  match python_operator p a b with
  | Ok q => request_checks q a b =
            Pass (match pyop_op p with Some _ => pointwise_dims a b | None => matmul_dims a b end)
  | Err EIllFormed => False
  | Err _ => True
  end.
Proof.
  intros Ha Hb. destruct (pyop_op p) as [o|] eqn:Hp.
  - rewrite (python_operator_binary p o a b Hp).
    destruct (is_tensor a || is_tensor b); [|exact I].
    pose proof (binary_request_classification a b o) as C.
    destruct (binary_operator_request a b o) as [q | []] eqn:E; try exact I; try contradiction.
    apply (request_wf a b o q); assumption.
  - destruct p; try discriminate. rewrite python_operator_matmul.
    destruct (is_tensor a || is_tensor b); [|exact I].
    pose proof (matmul_request_classification a b) as C.
    destruct (matmul_request a b) as [q | []] eqn:E; try exact I.
    + apply matmul_request_wf; assumption.
    + rewrite Ha, Hb in C. discriminate.
Qed.
