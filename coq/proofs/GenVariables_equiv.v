(** TIE -- [Expression.variables()] regenerated from expression/ast.py (gen/Deparse.v,
    [Expression_variables]) equals the hand model model/ExprAst.v [variables] (C10, C15): the same
    association list, in the same (insertion) order; and it never raises (the [KeyError] of
    [variables_mapping[name]] is guarded by [name in variables_mapping]). *)

From Coq Require Import ZArith List Bool String Lia.
From TV Require Import spec.Num spec.PyBase spec.PyLib.
From TV Require gen.Deparse model.ExprAst.
Import ListNotations.

Module GD := TV.gen.Deparse.
Module EA := TV.model.ExprAst.

Section Conv.
(** [ExprAst.EFloat] carries an identifier of the numeric value *)
Variable fid : F -> Z.

Fixpoint convA (e : GD.ex_expr) : EA.expr :=
  match e with
  | GD.ExInteger z => EA.EInteger z
  | GD.ExFloat f => EA.EFloat (fid f)
  | GD.ExTensor n idx => EA.ETensor (EA.TRef n idx)
  | GD.ExAdd a b => EA.EAdd (convA a) (convA b)
  | GD.ExSubtract a b => EA.ESubtract (convA a) (convA b)
  | GD.ExMultiply a b => EA.EMultiply (convA a) (convA b)
  end.

(** the values of the dict are [Tensor] objects *)
Definition tref_of (e : GD.ex_expr) : EA.tref :=
  match e with GD.ExTensor n idx => EA.TRef n idx | _ => EA.TRef EmptyString [] end.

Definition conv_vars (d : list (string * list GD.ex_expr)) : list (string * list EA.tref) :=
  map (fun kv => (fst kv, map tref_of (snd kv))) d.

Lemma dict_get_model : forall k (d : list (string * list GD.ex_expr)),
  EA.aget k (conv_vars d) = option_map (map tref_of) (dict_get String.eqb k d).
Proof.
  induction d as [|[k' v] r IH]; simpl; [reflexivity|]. destruct (String.eqb k k'); [reflexivity | exact IH].
Qed.

Lemma dict_set_model : forall k v (d : list (string * list GD.ex_expr)),
  conv_vars (dict_set String.eqb k v d) = EA.aput k (map tref_of v) (conv_vars d).
Proof.
  induction d as [|[k' v'] r IH]; simpl; [reflexivity|].
  destruct (String.eqb k k'); simpl; [reflexivity | rewrite IH; reflexivity].
Qed.

(** one step of the merging loop, for any function that computes what the generated body computes *)
Lemma merge_model : forall (step : list (string * list GD.ex_expr) -> string * list GD.ex_expr -> option (list (string * list GD.ex_expr))),
  (forall d k v, exists d', step d (k, v) = Some d' /\ conv_vars d' = EA.vars_add (conv_vars d) (k, map tref_of v)) ->
  forall r l, exists d, ofold step r l = Some d /\ conv_vars d = EA.vars_merge (conv_vars l) (conv_vars r).
Proof.
  intros step Hs. unfold EA.vars_merge. induction r as [|[k v] r IH]; intros l.
  - exists l. split; reflexivity.
  - destruct (Hs l k v) as [d' [E1 E2]]. destruct (IH d') as [d [E3 E4]].
    exists d. split; [cbn [ofold]; rewrite E1; exact E3|].
    cbn [conv_vars map fold_left fst snd]. rewrite <- E2. exact E4.
Qed.

Ltac binary_arm IH1 IH2 :=
  let d1 := fresh "d" in let d2 := fresh "d" in let E := fresh "E" in let M := fresh "M" in
  destruct IH1 as [d1 [E M]]; rewrite E, <- M; clear E M;
  destruct IH2 as [d2 [E M]]; rewrite E, <- M; clear E M;
  match goal with |- context [ofold ?step d2 d1] =>
    let d := fresh "d" in
    destruct (merge_model step) with (r := d2) (l := d1) as [d [E M]];
      [ intros dd k v; cbv beta iota; unfold dict_mem, EA.vars_add; cbn [fst snd];
        rewrite dict_get_model; destruct (dict_get String.eqb k dd) as [old|]; cbn [option_map];
        eexists; (split; [reflexivity|]); rewrite dict_set_model, ?map_app; reflexivity
      | rewrite E; exists d; split; [reflexivity | exact M] ]
  end.

Theorem gen_variables_equiv : forall e,
  exists d, GD.Expression_variables e = Some d /\ conv_vars d = EA.variables (convA e).
Proof.
  induction e; cbn [GD.Expression_variables convA EA.variables].
  - exists []. split; reflexivity.
  - exists []. split; reflexivity.
  - eexists. split; reflexivity.
  - binary_arm IHe1 IHe2.
  - binary_arm IHe1 IHe2.
  - binary_arm IHe1 IHe2.
Qed.

(** [Assignment._variable_orders] computed from the regenerated [variables] *)
Corollary gen_variable_orders : forall n idx e d,
  GD.Expression_variables e = Some d ->
  EA.variable_orders (EA.Assignment (EA.TRef n idx) (convA e))
  = (n, List.length idx) :: map (fun kv => (fst kv, EA.first_order (map tref_of (snd kv)))) d.
Proof.
  intros n idx e d H. destruct (gen_variables_equiv e) as [d' [E M]]. rewrite H in E. inversion E; subst d'.
  unfold EA.variable_orders. cbn [EA.a_target EA.a_expr EA.t_name EA.t_order EA.t_indexes]. rewrite <- M.
  unfold conv_vars. rewrite map_map. reflexivity.
Qed.
End Conv.
