(** Per-kernel certificates, second series (properties C04, C05, C16): common machinery.

    - [exec_invariant]: a generic principle for STATE INVARIANTS of [exec] that also bounds the
      errors a run can end with (induction on fuel, inner induction on block lists).  It reduces
      everything to the five atomic statement forms, which do not depend on the fuel.
    - [eval_nw]: evaluating an expression never ends with [EWriteInput] (only stores do). *)

From Coq Require Import ZArith Bool List String Lia FMapPositive.
From TV Require Import spec.Num gen.IRAst spec.IRSem.
Import ListNotations.
Open Scope Z_scope.

Ltac inv H := inversion H; subst; clear H.

Local Arguments fadd : simpl never.
Local Arguments fsub : simpl never.
Local Arguments fmul : simpl never.
Local Arguments chk32 : simpl never.
Local Arguments chkfin : simpl never.

(** * String sets as lists *)

Definition mem (x : string) (l : list string) : bool := existsb (String.eqb x) l.

Lemma mem_In x l : mem x l = true <-> In x l.
Proof.
  unfold mem. rewrite existsb_exists. split.
  - intros [y [H1 H2]]. apply String.eqb_eq in H2. now subst.
  - intros H. exists x. split; auto. apply String.eqb_refl.
Qed.

Lemma mem_false_In x l : mem x l = false <-> ~ In x l.
Proof. rewrite <- mem_In. destruct (mem x l); split; congruence. Qed.

Definition subset (a b : list string) : bool := forallb (fun x => mem x b) a.

Lemma subset_In a b x : subset a b = true -> In x a -> In x b.
Proof. unfold subset. rewrite forallb_forall. intros H I. apply mem_In. auto. Qed.

(** parameter names of a function: [Declaration (Var x) t] *)
Definition param_name (p : stmt) : list string :=
  match p with Declaration (Var x) _ => [x] | _ => [] end.

Definition param_names (ps : list stmt) : list string := flat_map param_name ps.

Lemma param_names_cons p ps : param_names (p :: ps) = param_name p ++ param_names ps.
Proof. reflexivity. Qed.

Lemma param_name_le p : (List.length (param_name p) <= 1)%nat.
Proof. destruct p; simpl; auto. destruct name; simpl; auto. Qed.

Lemma param_names_le ps : (List.length (param_names ps) <= List.length ps)%nat.
Proof.
  induction ps as [|p r IH]; [simpl; auto|]. rewrite param_names_cons, app_length. simpl.
  pose proof (param_name_le p). lia.
Qed.

(** * Environment facts *)

Lemma lookup_set_var x y d e :
  lookup y (set_var x d e) = if String.eqb y x then Some d else lookup y e.
Proof.
  induction e as [|[z d0] r IH]; simpl.
  - destruct (String.eqb y x); reflexivity.
  - destruct (String.eqb x z) eqn:E1; simpl.
    + apply String.eqb_eq in E1. subst z. destruct (String.eqb y x); reflexivity.
    + destruct (String.eqb y z) eqn:E2.
      * apply String.eqb_eq in E2. subst z.
        rewrite String.eqb_sym in E1. now rewrite E1.
      * exact IH.
Qed.

Lemma bind_params_other ps : forall args e0 e x,
  bind_params ps args e0 = Ok e -> ~ In x (param_names ps) -> lookup x e = lookup x e0.
Proof.
  induction ps as [|p ps IH]; intros args e0 e x H N.
  - destruct args; simpl in H; [now inv H | discriminate].
  - simpl in H. destruct p as [nm t| | | | | | |]; try discriminate.
    destruct nm; try discriminate. destruct args as [|a args]; try discriminate.
    unfold bind in H. destruct (coerce t a) as [v|]; try discriminate.
    simpl in N. rewrite (IH _ _ _ x H).
    + rewrite lookup_set_var. destruct (String.eqb x name) eqn:Q; auto.
      apply String.eqb_eq in Q. subst. tauto.
    + tauto.
Qed.

(** * Atomic statements do not depend on the fuel *)

Definition is_atomic (s : stmt) : bool :=
  match s with Block _ _ => false | Branch _ _ _ => false | Loop _ _ => false | _ => true end.

Lemma exec_atomic n s st : is_atomic s = true -> exec (S n) s st = exec 1 s st.
Proof. destruct s; simpl; intros H; try discriminate; reflexivity. Qed.

(** * A generic principle for state invariants and possible errors of [exec] *)

Section INVARIANT.
  Variable P : state -> Prop.
  Variable E : err -> Prop.
  Variable ok : stmt -> bool.
  Hypothesis P_tick : forall st, P st -> P (tick st).
  Hypothesis ok_block : forall ss c, ok (Block ss c) = true -> forallb ok ss = true.
  Hypothesis ok_branch : forall c a b, ok (Branch c a b) = true -> ok a = true /\ ok b = true.
  Hypothesis ok_loop : forall c b, ok (Loop c b) = true -> ok b = true.
  Hypothesis E_eval : forall st e x, eval st e = Err x -> E x.
  Hypothesis E_bool : forall v x, as_bool v = Err x -> E x.

  Definition good (o : outcome) : Prop :=
    match o with
    | Normal st' _ => P st'
    | Returned st' _ _ => P st'
    | Fail x => E x
    | OutOfFuel => True
    end.

  Hypothesis H_atomic : forall s st, is_atomic s = true -> ok s = true -> P st -> good (exec 1 s st).

  Theorem exec_invariant n : forall s st, ok s = true -> P st -> good (exec n s st).
  Proof.
    induction n as [|n IH]; intros s st K Pst; [exact I|].
    destruct (is_atomic s) eqn:A.
    { rewrite exec_atomic by exact A. now apply H_atomic. }
    destruct s as [name t | tgt val | tgt val | statements c | condition s1 s2 | condition s | e | e];
      try discriminate A; simpl.
    - (* Block *)
      apply ok_block in K.
      match goal with |- good (?go statements st []) =>
        assert (G : forall l st0 tr, forallb ok l = true -> P st0 -> good (go l st0 tr)) end.
      { induction l as [|s1 r IHl]; intros st0 tr Kl P0; simpl; auto.
        simpl in Kl. apply andb_prop in Kl. destruct Kl as [K1 Kr].
        pose proof (IH s1 st0 K1 P0) as H1.
        destruct (exec n s1 st0) as [st' t1|st' v t1|x|]; simpl in *; auto. }
      apply G; auto.
    - (* Branch *)
      apply ok_branch in K. destruct K as [Ka Kb].
      destruct (eval st condition) as [[v t1]|x] eqn:Ev; simpl; [|eauto].
      destruct (as_bool v) as [[|]|x] eqn:Eb; simpl; [| |eauto].
      + pose proof (IH s1 st Ka Pst) as H. destruct (exec n s1 st); simpl in *; auto.
      + pose proof (IH s2 st Kb Pst) as H. destruct (exec n s2 st); simpl in *; auto.
    - (* Loop *)
      pose proof (ok_loop _ _ K) as Kb.
      destruct (eval st condition) as [[v t1]|x] eqn:Ev; simpl; [|eauto].
      destruct (as_bool v) as [[|]|x] eqn:Eb; simpl; [| |eauto]; auto.
      pose proof (IH s st Kb Pst) as H.
      destruct (exec n s st) as [st' t2|st' r t2|x|]; simpl in *; auto.
      pose proof (IH (Loop condition s) (tick st') K (P_tick _ H)) as H2.
      destruct (exec n (Loop condition s) (tick st')); simpl in *; auto.
  Qed.
End INVARIANT.

(** * Expressions never write *)

Definition nw {A} (r : res A) : Prop := r <> Err EWriteInput.

Lemma nw_ok {A} (a : A) : nw (Ok a).
Proof. discriminate. Qed.

Lemma nw_err {A} (e : err) : e <> EWriteInput -> nw (@Err A e).
Proof. intros H Q. inv Q. tauto. Qed.

Lemma nw_bind {A B} (a : res A) (f : A -> res B) : nw a -> (forall x, nw (f x)) -> nw (bind a f).
Proof. unfold bind. destruct a; auto. intros H _ Q. apply H. now inv Q. Qed.

Ltac nw_step :=
  match goal with
  | H : ?G |- ?G => exact H
  | |- nw (Ok _) => apply nw_ok
  | |- nw (Err _) => apply nw_err; discriminate
  | |- nw (bind _ _) => apply nw_bind; [| intros ?]
  | |- nw (let '(_, _) := ?x in _) => destruct x
  | |- nw (if ?c then _ else _) => destruct c
  | |- nw (match ?x with _ => _ end) => destruct x
  end.

Lemma chk32_nw z : nw (chk32 z).
Proof. unfold chk32. repeat nw_step. Qed.

Lemma chkfin_nw f : nw (chkfin f).
Proof. unfold chkfin. repeat nw_step. Qed.

Lemma arith_nw iop fop p a b : (forall x y, nw (fop x y)) -> nw (arith iop fop p a b).
Proof.
  intros H. unfold arith. destruct a, b; try (apply nw_err; discriminate);
    repeat first [apply chk32_nw | apply H | nw_step].
Qed.

Lemma cmp_nw op a b : nw (cmp op a b).
Proof. unfold cmp. repeat nw_step. Qed.

Lemma sel_nw op a b : nw (sel op a b).
Proof. unfold sel. repeat nw_step. Qed.

Lemma as_bool_nw v : nw (as_bool v).
Proof. unfold as_bool. repeat nw_step. Qed.

Lemma load_nw st b o : nw (load st b o).
Proof. unfold load. repeat nw_step. Qed.

Lemma tensor_of_nw st t : nw (tensor_of st t).
Proof. unfold tensor_of. repeat nw_step. Qed.

Lemma index_value_nw st v i : nw (index_value st v i).
Proof.
  unfold index_value. destruct v, i; try (apply nw_err; discriminate);
    repeat first [apply load_nw | apply tensor_of_nw | apply chk32_nw | nw_step].
Qed.

Lemma attribute_value_nw st v a : nw (attribute_value st v a).
Proof.
  unfold attribute_value. destruct v; try (apply nw_err; discriminate);
    repeat first [apply tensor_of_nw | nw_step].
Qed.

Lemma bin2_nw op ra rb : nw ra -> nw rb -> (forall a b, nw (op a b)) -> nw (bin2 op ra rb).
Proof. intros H1 H2 H3. unfold bin2. repeat first [apply H3 | nw_step]. Qed.

Lemma fadd_nw x y : nw (fadd x y). Proof. apply chkfin_nw. Qed.
Lemma fsub_nw x y : nw (fsub x y). Proof. apply chkfin_nw. Qed.
Lemma fmul_nw x y : nw (fmul x y). Proof. apply chkfin_nw. Qed.

Lemma eval_nw st e : nw (eval st e).
Proof.
  induction e; simpl;
    try (apply bin2_nw; auto; intros;
         first [apply arith_nw; first [apply fadd_nw | apply fsub_nw | apply fmul_nw]
               | apply cmp_nw | apply sel_nw]);
    repeat first [apply attribute_value_nw | apply index_value_nw | apply as_bool_nw
                 | apply chk32_nw | apply chkfin_nw | nw_step].
Qed.

Lemma eval_not_write st e : eval st e <> Err EWriteInput.
Proof. exact (eval_nw st e). Qed.

Lemma as_bool_not_write v : as_bool v <> Err EWriteInput.
Proof. exact (as_bool_nw v). Qed.

Lemma coerce_nw t v : nw (coerce t v).
Proof.
  unfold coerce. destruct t as [| | | | |t'| |]; destruct v; try (apply nw_err; discriminate);
    try destruct t'; repeat nw_step.
Qed.

(** what values a typed slot can deliver / [coerce] can produce *)
Lemma coerce_shape t v w : coerce t v = Ok w ->
  w = v \/ exists f, w = VFloat f.
Proof.
  unfold coerce. destruct t as [| | | | |t'| |]; destruct v; try discriminate;
    try destruct t'; try discriminate;
    repeat match goal with |- context [if ?c then _ else _] => destruct c end;
    intros H; inv H; eauto.
Qed.

Lemma typed_shape t v : typed t v = true ->
  match v with VInt _ => True | VFloat _ => True | VBool _ => True | VPtr _ _ => True
             | VNull => True | VTensor _ => True | _ => False end.
Proof.
  destruct t as [| | | | |t'| |]; destruct v; simpl; try discriminate; auto;
    destruct t'; discriminate.
Qed.

Lemma load_shape st b o v : load st b o = Ok v ->
  match v with VInt _ => True | VFloat _ => True | _ => False end.
Proof.
  unfold load. destruct (PM.find b (heap st)) as [blk|]; try discriminate.
  destruct (negb _); try discriminate. destruct (_ || _); try discriminate.
  destruct (PM.find _ _) as [c|]; try discriminate.
  destruct (typed _ c) eqn:T; try discriminate. intros H; inv H.
  destruct (b_float blk); destruct v; simpl in T; try discriminate; exact I.
Qed.

Lemma bin2_inv op ra rb v tr : bin2 op ra rb = Ok (v, tr) ->
  exists a t1 b t2, ra = Ok (a, t1) /\ rb = Ok (b, t2) /\ op a b = Ok v.
Proof.
  unfold bin2, bind. destruct ra as [[a t1]|]; try discriminate.
  destruct rb as [[b t2]|]; try discriminate. destruct (op a b) eqn:O; try discriminate.
  intros H; inv H. eauto 8.
Qed.

(** only [tgt->dimensions] evaluates to a dimensions handle *)
Definition not_dims (v : value) : Prop := match v with VDims _ => False | _ => True end.

Lemma arith_not_dims iop fop p a b v : arith iop fop p a b = Ok v -> not_dims v.
Proof.
  unfold arith, bind. destruct a, b; try discriminate;
    repeat match goal with |- context [match ?X with _ => _ end] => destruct X; try discriminate end;
    intros H; inv H; exact I.
Qed.

Lemma cmp_not_dims op a b v : cmp op a b = Ok v -> not_dims v.
Proof. unfold cmp. destruct a, b; try discriminate. intros H; inv H. exact I. Qed.

Lemma sel_not_dims op a b v : sel op a b = Ok v -> not_dims v.
Proof. unfold sel. destruct a, b; try discriminate. intros H; inv H. exact I. Qed.

Lemma index_value_not_dims st v i r tr : index_value st v i = Ok (r, tr) -> not_dims r.
Proof.
  unfold index_value, bind. destruct v, i; try discriminate.
  - destruct (load st blk (off + z)) eqn:L; try discriminate. intros H; inv H.
    apply load_shape in L. destruct r; tauto.
  - destruct (tensor_of st t); try discriminate. destruct (nthZ_opt _ _); try discriminate.
    destruct (chk32 _); try discriminate. intros H; inv H. exact I.
  - intros H; inv H. exact I.
  - destruct (tensor_of st t); try discriminate.
    destruct (nthZ_opt _ _) as [[p c]|]; try discriminate.
    destruct (negb (is_ptr p && is_ptr c)) eqn:P; try discriminate.
    apply negb_false_iff in P. apply andb_prop in P. destruct P as [P1 P2].
    destruct (z =? 0); [intros H; inv H; destruct r; try discriminate; exact I|].
    destruct (z =? 1); [intros H; inv H; destruct r; try discriminate; exact I|discriminate].
Qed.

Lemma attribute_value_dims st v a t : attribute_value st v a = Ok (VDims t) ->
  String.eqb a "dimensions" = true /\ v = VTensor t.
Proof.
  unfold attribute_value, bind. destruct v; try discriminate.
  destruct (String.eqb a "dimensions"); [intros H; inv H; auto|].
  destruct (String.eqb a "indices"); try discriminate.
  destruct (String.eqb a "vals"); try discriminate.
  destruct (tensor_of st t0) as [ts|]; try discriminate.
  destruct (is_ptr (t_vals ts)) eqn:P; try discriminate. intros H. injection H as H.
  rewrite H in P. discriminate.
Qed.

Lemma eval_dims_shape st e t tr : eval st e = Ok (VDims t, tr) ->
  match e with AttributeAccess _ a => String.eqb a "dimensions" = true | _ => False end.
Proof.
  destruct e; simpl; intros H;
    try (apply bin2_inv in H; destruct H as (a & t1 & b & t2 & _ & _ & Hop);
         first [apply arith_not_dims in Hop | apply cmp_not_dims in Hop | apply sel_not_dims in Hop];
         exact Hop);
    try discriminate.
  - destruct (lookup name (env st)) as [[ty [w|]]|]; try discriminate.
    destruct (typed ty w) eqn:T; try discriminate. inv H. apply typed_shape in T. exact T.
  - unfold bind in H. destruct (eval st e) as [[w t1]|]; try discriminate.
    destruct (attribute_value st w attribute) eqn:A; try discriminate. inv H.
    apply attribute_value_dims in A. tauto.
  - unfold bind in H. destruct (eval st e1) as [[w t1]|]; try discriminate.
    destruct (eval st e2) as [[i t2]|]; try discriminate.
    destruct (index_value st w i) as [[r t3]|] eqn:IX; try discriminate. inv H.
    apply index_value_not_dims in IX. exact IX.
  - unfold bind in H. destruct (chk32 value); discriminate.
  - unfold bind in H. destruct (chkfin value); discriminate.
  - unfold bind in H. destruct (eval st e1) as [[a t1]|]; try discriminate.
    destruct (as_bool a) as [[|]|]; try discriminate.
    destruct (eval st e2) as [[b t2]|]; try discriminate. destruct (as_bool b); discriminate.
  - unfold bind in H. destruct (eval st e1) as [[a t1]|]; try discriminate.
    destruct (as_bool a) as [[|]|]; try discriminate.
    destruct (eval st e2) as [[b t2]|]; try discriminate. destruct (as_bool b); discriminate.
  - unfold bind in H. destruct (eval st e) as [[a t1]|]; try discriminate.
    destruct (as_bool a); discriminate.
Qed.

(** * A generic lock-step principle for two runs of the same statement *)

Section SIMULATION.
  Variable R : state -> state -> Prop.
  Variable ok : stmt -> bool.
  Variable cok : expr -> bool.

  Definition osim (o1 o2 : outcome) : Prop :=
    match o1, o2 with
    | Normal s1 t1, Normal s2 t2 => R s1 s2 /\ t1 = t2
    | Returned s1 v1 t1, Returned s2 v2 t2 => R s1 s2 /\ v1 = v2 /\ t1 = t2
    | Fail a, Fail b => a = b
    | OutOfFuel, OutOfFuel => True
    | _, _ => False
    end.

  Hypothesis R_tick : forall a b, R a b -> R (tick a) (tick b).
  Hypothesis ok_block : forall ss c, ok (Block ss c) = true -> forallb ok ss = true.
  Hypothesis ok_branch : forall c a b, ok (Branch c a b) = true -> cok c = true /\ ok a = true /\ ok b = true.
  Hypothesis ok_loop : forall c b, ok (Loop c b) = true -> cok c = true /\ ok b = true.
  Hypothesis H_cond : forall c s1 s2, cok c = true -> R s1 s2 -> eval s1 c = eval s2 c.
  Hypothesis H_atomic : forall s s1 s2, is_atomic s = true -> ok s = true -> R s1 s2 ->
    osim (exec 1 s s1) (exec 1 s s2).

  Theorem exec_simulation n : forall s s1 s2, ok s = true -> R s1 s2 -> osim (exec n s s1) (exec n s s2).
  Proof.
    induction n as [|n IH]; intros s s1 s2 K Rs; [exact I|].
    destruct (is_atomic s) eqn:A.
    { rewrite (exec_atomic n s s1 A), (exec_atomic n s s2 A). now apply H_atomic. }
    destruct s as [name t | tgt val | tgt val | ss c | c a b | c body | e | e]; try discriminate A; simpl.
    - (* Block *)
      apply ok_block in K.
      match goal with |- osim (?go ss s1 []) _ =>
        assert (G : forall l a b tr, forallb ok l = true -> R a b -> osim (go l a tr) (go l b tr)) end.
      { induction l as [|x r IHl]; intros a b tr Kl Rab; simpl; auto.
        simpl in Kl. apply andb_prop in Kl. destruct Kl as [K1 Kr].
        pose proof (IH x a b K1 Rab) as H1.
        destruct (exec n x a) as [a' t1|a' v t1|e1|], (exec n x b) as [b' t2|b' w t2|e2|];
          simpl in H1; try tauto.
        - destruct H1 as [R' ->]. apply IHl; auto.
        - destruct H1 as (R' & -> & ->). simpl. auto. }
      apply G; auto.
    - (* Branch *)
      apply ok_branch in K. destruct K as (Kc & Ka & Kb).
      rewrite (H_cond c s1 s2 Kc Rs).
      destruct (eval s2 c) as [[v t1]|x]; simpl; auto.
      destruct (as_bool v) as [[|]|x]; simpl; auto.
      + pose proof (IH a s1 s2 Ka Rs) as H.
        destruct (exec n a s1), (exec n a s2); simpl in *; try tauto.
        * destruct H as [? ->]. auto.
        * destruct H as (? & -> & ->). auto.
      + pose proof (IH b s1 s2 Kb Rs) as H.
        destruct (exec n b s1), (exec n b s2); simpl in *; try tauto.
        * destruct H as [? ->]. auto.
        * destruct H as (? & -> & ->). auto.
    - (* Loop *)
      pose proof (ok_loop _ _ K) as [Kc Kb].
      rewrite (H_cond c s1 s2 Kc Rs).
      destruct (eval s2 c) as [[v t1]|x]; simpl; auto.
      destruct (as_bool v) as [[|]|x]; simpl; auto.
      pose proof (IH body s1 s2 Kb Rs) as H.
      destruct (exec n body s1) as [a' t2|a' r2 t2|e1|], (exec n body s2) as [b' t3|b' r3 t3|e2|];
        simpl in H; try tauto.
      + destruct H as [R' ->].
        pose proof (IH (Loop c body) (tick a') (tick b') K (R_tick _ _ R')) as H2.
        destruct (exec n (Loop c body) (tick a')), (exec n (Loop c body) (tick b')); simpl in *; try tauto.
        * destruct H2 as [? ->]. auto.
        * destruct H2 as (? & -> & ->). auto.
      + destruct H as (? & -> & ->). simpl. auto.
  Qed.
End SIMULATION.
