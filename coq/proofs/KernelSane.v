(** C01G -- the sanity bit of the kernel model is [true] on accepted graphs: the model never reads
    a leaf it cannot locate (so the totalised default 0 of [eval_term] is never used for a live
    leaf), every context is defined and every sparse leaf offers a coordinate list. *)

From Coq Require Import ZArith List Bool Lia ZifyBool String.
From TV Require Import spec.Storage spec.Spec proofs.SpecSums proofs.SpecLemmas proofs.StorageLemmas proofs.StorageWf
                       model.DesugarSem model.Exhaust proofs.ExhaustProofs
                       model.DesugarSemGraph proofs.DesugarSemGraphProofs
                       model.Kernel proofs.KernelLocate proofs.KernelEncode proofs.KernelExhaust
                       proofs.KernelSound proofs.KernelBucket proofs.KernelSupport.
Import ListNotations.
Local Open Scope Z_scope.

Section SuppVal.
Variable cfg : kcfg.
Hypothesis LOK : leaves_okb cfg = true.

(** * support is necessary for a non-zero value: where the loop nest has no structural support,
    its denotation is 0 (so [gsupp] is not smaller than what any value needs) *)

Lemma isupp_eval_zero rho (e : iexpr Z) :
  isupp (present cfg rho) e = false -> evalZ (sigmaG cfg rho) e = 0.
Proof.
  induction e; cbn [isupp evalE]; intros H; try discriminate.
  - unfold present in H. unfold sigmaG. destruct (leaf_value cfg rho id); [discriminate|reflexivity].
  - apply orb_false_iff in H. destruct H as [H1 H2]. rewrite (IHe1 H1), (IHe2 H2). reflexivity.
  - apply andb_false_iff in H. destruct H as [H|H]; [rewrite (IHe1 H)|rewrite (IHe2 H)]; cbn; lia.
Qed.

Lemma gsupp_zero (g : graph Z) : incl (graph_leaves g) (k_leaves cfg) ->
  forall rho, gsupp cfg g rho = false ->
  gdenote (O := ZOps) (envE cfg) (k_sizes cfg) (ordsE cfg) g rho = 0.
Proof.
  induction g using (graph_ind' Z); intros Hi rho Hn.
  - cbn [gdenote gsupp graph_leaves] in *. rewrite (ieval_sigma cfg LOK) by exact Hi. now apply isupp_eval_zero.
  - cbn [graph_leaves] in Hi. destruct o; cbn [gdenote gsupp] in *; [now apply IHg|].
    apply zsum_zero. intros v Hv. apply IHg; [exact Hi|].
    destruct (gsupp cfg g (upd rho k v)) eqn:E; [|reflexivity].
    rewrite <- Hn. symmetry. apply existsb_exists. eauto.
  - rewrite (gdenote_sum cfg). rewrite gsupp_sum in Hn. apply zsum_zero. intros t Ht.
    rewrite Forall_forall in H. apply (H t Ht).
    + intros x Hx. apply Hi. rewrite graph_leaves_sum. apply in_flat_map. eauto.
    + destruct (gsupp cfg t rho) eqn:E; [|reflexivity]. rewrite <- Hn. symmetry. apply existsb_exists. eauto.
Qed.

End SuppVal.

Section Sane.
Variable cfg : kcfg.
Hypothesis LOK : leaves_okb cfg = true.
Hypothesis LEX : leaves_extrab cfg = true.

Lemma eval_term_ok rho (e : iexpr Z) :
  (forall li, In li (iexpr_leaves e) -> present cfg rho (fst li) = true) -> snd (eval_term cfg rho e) = true.
Proof.
  induction e; intros H; cbn [eval_term iexpr_leaves] in *; try reflexivity.
  - specialize (H (id, (name, idx, modes)) (or_introl eq_refl)). cbn [fst] in H. unfold present in H.
    now destruct (leaf_value cfg rho id).
  - destruct (eval_term cfg rho e1), (eval_term cfg rho e2). cbn [snd] in *.
    rewrite IHe1, IHe2; [reflexivity| |]; intros li Hl; apply H; apply in_app_iff; auto.
  - destruct (eval_term cfg rho e1), (eval_term cfg rho e2). cbn [snd] in *.
    rewrite IHe1, IHe2; [reflexivity| |]; intros li Hl; apply H; apply in_app_iff; auto.
Qed.

Lemma terminal_ok dead rho B e :
  LP cfg dead rho B (GTerminal e) -> RB cfg rho B -> incl (iexpr_leaves e) (k_leaves cfg) ->
  closedb B (GTerminal e) = true ->
  snd (eval_term cfg rho (exhaust_list e dead)) = true.
Proof.
  intros L R Hi Hc. apply eval_term_ok. intros [id [[n idx] ms]] Hin. cbn [fst].
  apply (live_leaf_present cfg LOK LEX dead rho B e id n idx ms L R Hi Hin).
  cbn [closedb] in Hc. rewrite forallb_forall in Hc.
  assert (In (id, (n, idx, ms)) (iexpr_leaves e)) as Hin0 by (now apply (exhaust_list_leaves e dead)).
  specialize (Hc _ Hin0). cbn [fst snd] in Hc. rewrite forallb_forall in Hc.
  intros y Hy. apply smem_In. now apply Hc.
Qed.

Lemma node_leaves_ok dead rho B k next ctx :
  LP cfg dead rho B next -> RB cfg rho B -> gctx dead k next = Some ctx ->
  incl (graph_leaves next) (k_leaves cfg) ->
  forallb (leaf_scopedb B k) (graph_leaves next) = true ->
  leaves_ok cfg rho (sparse_leaves ctx) = true.
Proof.
  intros L R Hc Hi Hs. unfold leaves_ok. apply forallb_forall. intros [id l] Hlf.
  destruct (gctx_leaf_origin _ _ _ _ _ Hc Hlf) as (e & c & He & Ec & Hlc).
  destruct (context_sparse_leaf _ _ _ _ Ec Hlc) as (n & idx & ms & Hin & Hix & Hms). cbn [fst snd] in *.
  assert (In (id, (n, idx, ms)) (graph_leaves next)) as Hg.
  { rewrite graph_leaves_terminals. apply in_flat_map. exists e. split; [exact He|].
    now apply (exhaust_list_leaves e dead). }
  pose proof (Hi _ Hg) as Hreg.
  destruct (leaf_registered cfg LOK _ _ _ _ Hreg) as (Hl & t & Ht & W & Ll & Ems).
  rewrite forallb_forall in Hs. pose proof (Hs _ Hg) as Hsc. cbn in Hsc. rewrite Hix, Hms in Hsc.
  rewrite forallb_forall in Hsc.
  assert (incl (firstn l idx) B) as Hpre by (intros y Hy; apply smem_In; now apply Hsc).
  destruct (locate_prefix cfg LOK LEX rho B id n idx ms t Hreg Ht R) with (m := l) as (p & Ep).
  - intros l' x Hm Hx HxB. destruct (L e He id n idx ms Hin l' x Hm Hx HxB) as (_ & t' & q & Ht' & Eq).
    rewrite Ht in Ht'. inversion Ht'; subst. eauto.
  - pose proof (index_of_str_lt _ _ _ Hix). lia.
  - exact Hpre.
  - unfold leaf_coords, input_of. cbn [fst snd]. rewrite Hl, Ht. unfold seg_coords. rewrite Ep.
    rewrite Ems, nth_error_map in Hms. destruct (nth_error (levels t) l) as [[|pos crd]|]; try discriminate.
    reflexivity.
Qed.

Lemma bok_app a b : bok (bres_app a b) = bok a && bok b.
Proof. destruct a as [[ca fa] oa], b as [[cb fb] ob]. reflexivity. Qed.

Lemma bok_fold {A} (f : A -> bres) l :
  bok (fold_right (fun x acc => bres_app (f x) acc) bres_nil l) = forallb (fun x => bok (f x)) l.
Proof. induction l as [|x l IH]; [reflexivity|]. cbn [fold_right forallb]. now rewrite bok_app, IH. Qed.

Lemma Gb_ok bidx (g : graph Z) : forall B dead rho,
  scopedb B g = true -> closedb B g = true -> incl (graph_leaves g) (k_leaves cfg) ->
  LP cfg dead rho B g -> RB cfg rho B -> bok (Gb cfg bidx g dead rho) = true.
Proof.
  induction g using (graph_ind' Z); intros B dead rho Hs Hc Hi L R.
  - cbn [Gb]. pose proof (terminal_ok dead rho B e L R Hi Hc) as T.
    destruct (eval_term cfg rho (exhaust_list e dead)) as [v o]. exact T.
  - cbn [graph_leaves closedb] in *. cbn [Gb].
    cbn [scopedb] in Hs. apply andb_true_iff in Hs. destruct Hs as [Hs H3].
    apply andb_true_iff in Hs. destruct Hs as [H1 H2]. apply negb_true_iff in H1. apply smem_false in H1.
    destruct (visits cfg k o g dead rho) as [vs ov] eqn:Ev.
    rewrite bok_app, bok_fold. unfold bok at 2. cbn [snd]. apply andb_true_iff. split.
    + apply forallb_forall. intros [v dead_v] Hin. cbn [fst snd].
      assert (In (v, dead_v) (fst (visits cfg k o g dead rho))) as Hin' by (now rewrite Ev).
      destruct (visits_in cfg _ _ _ _ _ _ _ Hin') as (Hv & ctx & Ec & ->).
      apply (IHg (k :: B)); auto; [now apply (LP_step cfg LOK LEX dead rho B k v g ctx)|now apply RB_step].
    + unfold visits in Ev. destruct (gctx_defined cfg LOK dead k g Hi) as (ctx & Ec). rewrite Ec in Ev.
      inversion Ev; subst. now apply (node_leaves_ok dead rho B k g ctx).
  - rewrite Gb_sum_unfold, bok_fold. apply forallb_forall. intros t Ht.
    rewrite scopedb_sum in Hs. rewrite closedb_sum in Hc. rewrite forallb_forall in Hs, Hc.
    rewrite Forall_forall in H. apply (H t Ht B); auto.
    + intros x Hx. apply Hi. rewrite graph_leaves_sum. apply in_flat_map. eauto.
    + now apply (LP_sub cfg dead rho B ts).
Qed.

Lemma Ga_ok (g : graph Z) : forall l B dead rho,
  wellb cfg g l = true -> scopedb B g = true -> closedb B g = true ->
  incl (graph_leaves g) (k_leaves cfg) -> LP cfg dead rho B g -> RB cfg rho B ->
  aok (Ga cfg g l dead rho) = true.
Proof.
  assert (forall (g : graph Z) l B dead rho,
            scopedb B g = true -> closedb B g = true -> incl (graph_leaves g) (k_leaves cfg) ->
            LP cfg dead rho B g -> RB cfg rho B -> aok (enter_bucket cfg l g dead rho) = true) as EB.
  { intros g0 l B dead rho Hs Hc Hi L R. unfold enter_bucket.
    pose proof (Gb_ok (skipn l (k_oidx cfg)) g0 B dead rho Hs Hc Hi L R) as O.
    destruct (Gb cfg (skipn l (k_oidx cfg)) g0 dead rho) as [[cs f] o]. exact O. }
  induction g using (graph_ind' Z); intros l B dead rho Hw Hs Hc Hi L R.
  - cbn [wellb] in Hw. apply andb_true_iff in Hw. destruct Hw as [_ H2]. apply Nat.eqb_eq in H2.
    cbn [Ga]. unfold order in H2. rewrite <- H2, Nat.eqb_refl.
    pose proof (terminal_ok dead rho B e L R Hi Hc) as T.
    destruct (eval_term cfg rho (exhaust_list e dead)) as [v o]. exact T.
  - destruct o as [l'|]; [|now apply (EB _ l B)].
    cbn [wellb] in Hw. cbn [Ga]. destruct (Nat.eqb l' l) eqn:El; [|now apply (EB _ l B)].
    apply andb_true_iff in Hw. destruct Hw as [_ Hw4].
    cbn [graph_leaves closedb] in *.
    cbn [scopedb] in Hs. apply andb_true_iff in Hs. destruct Hs as [Hs H3].
    apply andb_true_iff in Hs. destruct Hs as [H1 H2]. apply negb_true_iff in H1. apply smem_false in H1.
    destruct (visits cfg k (Some l') g dead rho) as [vs ov] eqn:Ev. unfold aok. cbn [snd].
    apply andb_true_iff. split.
    + unfold visits in Ev. destruct (gctx_defined cfg LOK dead k g Hi) as (ctx & Ec). rewrite Ec in Ev.
      inversion Ev; subst. now apply (node_leaves_ok dead rho B k g ctx).
    + apply forallb_forall. intros c0 Hc0. apply in_map_iff in Hc0. destruct Hc0 as ([v dead_v] & <- & Hin).
      cbn [fst snd].
      assert (In (v, dead_v) (fst (visits cfg k (Some l') g dead rho))) as Hin' by (now rewrite Ev).
      destruct (visits_in cfg _ _ _ _ _ _ _ Hin') as (Hv & ctx & Ec & ->).
      apply (IHg (S l) (k :: B)); auto; [now apply (LP_step cfg LOK LEX dead rho B k v g ctx)|now apply RB_step].
  - now apply (EB _ l B).
Qed.

Theorem G_sane (g : graph Z) :
  incl (graph_leaves g) (k_leaves cfg) -> wellb cfg g 0 = true -> scopedb [] g = true ->
  closedb [] g = true -> aok (G cfg g) = true.
Proof.
  intros Hi Hw Hs Hc. unfold G. apply (Ga_ok g 0 []); auto; [apply LP_nil|intros x []].
Qed.


End Sane.
