(** TIE -- [Expression.index_participants()] (and the helper [merge_index_participants], inlined)
    regenerated from expression/ast.py (gen/Deparse.v, [Expression_index_participants]) equals the
    hand model model/ExprAst.v [index_participants] (C10, C15), for every iteration order of the
    key set that does not depend on the place -- the generated oracle [ord_set] sees only the set,
    the model's oracle also the path; the generated behaviours are therefore among the model's,
    and every theorem proved about the model for ALL oracles holds for the regenerated function.

    Consequence used by gen/Desugar.v: the keys of [e.index_participants()] are exactly the index
    names occurring in [e] -- the summary [index_names] assumed there is right as a set. *)

From Coq Require Import ZArith List Bool String Lia Permutation.
From TV Require Import spec.Num spec.PyBase spec.PyLib.
From TV Require gen.Deparse gen.Desugar model.ExprAst proofs.ValidateIP proofs.GenVariables_equiv.
Import ListNotations.

Module GD := TV.gen.Deparse.
Module EA := TV.model.ExprAst.
Module GV := TV.proofs.GenVariables_equiv.

Definition liftp (p : EA.participant) : string * Z := (fst p, Z.of_nat (snd p)).
Definition lift_ip (m : EA.ipmap) : list (string * list (string * Z)) :=
  map (fun kv => (fst kv, map liftp (snd kv))) m.

Lemma smem_py_in : forall x l, EA.smem x l = py_in String.eqb x l.
Proof. induction l as [|y t IH]; simpl; [reflexivity | rewrite IH; reflexivity]. Qed.

Lemma set_display_model : forall l, set_display String.eqb l = EA.sdedup l.
Proof.
  assert (G : forall l seen, set_display_acc String.eqb seen l = EA.sdedup_acc seen l).
  { induction l as [|x t IH]; intros seen; simpl; [reflexivity|].
    rewrite smem_py_in. destruct (py_in String.eqb x seen); rewrite IH; reflexivity. }
  intros l. apply G.
Qed.

Lemma pmem_py_in : forall x l,
  py_in (pair_eqb String.eqb Z.eqb) (liftp x) (map liftp l) = EA.pmem x l.
Proof.
  induction l as [|y t IH]; simpl; [reflexivity|]. rewrite <- IH. f_equal.
  unfold pair_eqb, EA.participant_eqb, liftp. simpl. f_equal.
  destruct (Nat.eqb (snd x) (snd y)) eqn:E.
  - apply Nat.eqb_eq in E. rewrite E. apply Z.eqb_refl.
  - apply Nat.eqb_neq in E. apply Z.eqb_neq. lia.
Qed.

Lemma union_model : forall a b,
  set_union (pair_eqb String.eqb Z.eqb) (map liftp a) (map liftp b) = map liftp (EA.punion a b).
Proof.
  intros a b. unfold set_union, EA.punion. rewrite map_app. f_equal.
  induction b as [|x t IH]; simpl; [reflexivity|].
  rewrite pmem_py_in. destruct (EA.pmem x a); simpl; rewrite IH; reflexivity.
Qed.

Lemma get_or_model : forall k m,
  dict_get_or String.eqb k (lift_ip m) nil = map liftp (EA.aget_nil k m).
Proof.
  intros k m. unfold dict_get_or, EA.aget_nil.
  induction m as [|[k' v] r IH]; simpl; [reflexivity|].
  destruct (String.eqb k k'); [reflexivity | exact IH].
Qed.

Lemma set_model : forall k v m,
  dict_set String.eqb k (map liftp v) (lift_ip m) = lift_ip (EA.aput k v m).
Proof.
  induction m as [|[k' v'] r IH]; simpl; [reflexivity|].
  destruct (String.eqb k k'); simpl; [reflexivity | rewrite IH; reflexivity].
Qed.

Lemma keys_model : forall m, map fst (lift_ip m) = EA.akeys m.
Proof. intros. unfold lift_ip, EA.akeys. rewrite map_map. reflexivity. Qed.

(** [Tensor.index_participants]: the loop over [enumerate(self.indexes)] *)
Lemma tensor_model : forall name idx i acc,
  fold_left (fun participants '(i, index_name) =>
               dict_set String.eqb index_name
                 (set_union (pair_eqb String.eqb Z.eqb) (dict_get_or String.eqb index_name participants nil) [(name, i)])
                 participants)
            (py_enumerate_from (Z.of_nat i) idx) (lift_ip acc)
  = lift_ip (EA.tensor_ip name idx i acc).
Proof.
  induction idx as [|x t IH]; intros i acc; [reflexivity|].
  cbn [py_enumerate_from fold_left EA.tensor_ip].
  rewrite get_or_model. change [(name, Z.of_nat i)] with (map liftp [(name, i)]).
  rewrite union_model, set_model.
  replace (Z.of_nat i + 1)%Z with (Z.of_nat (S i)) by lia. apply IH.
Qed.

Section Oracle.
Variable ord_set : list string -> list string.
Variable fid : F -> Z.
Notation cA := (GV.convA fid).

Theorem gen_index_participants_equiv : forall e pth,
  GD.Expression_index_participants ord_set e
  = lift_ip (EA.index_participants (fun _ l => ord_set l) pth (cA e)).
Proof.
  induction e; intros pth; cbn [GD.Expression_index_participants GV.convA EA.index_participants].
  - reflexivity.
  - reflexivity.
  - cbv zeta. cbn [EA.t_name EA.t_indexes]. apply (tensor_model name indexes 0 []).
  - cbv zeta. rewrite (IHe1 (false :: pth)), (IHe2 (true :: pth)). unfold EA.merge_ip.
    rewrite !keys_model, set_display_model. unfold lift_ip at 3. rewrite map_map. apply map_ext.
    intros k. cbn [fst snd]. rewrite !get_or_model, union_model. reflexivity.
  - cbv zeta. rewrite (IHe1 (false :: pth)), (IHe2 (true :: pth)). unfold EA.merge_ip.
    rewrite !keys_model, set_display_model. unfold lift_ip at 3. rewrite map_map. apply map_ext.
    intros k. cbn [fst snd]. rewrite !get_or_model, union_model. reflexivity.
  - cbv zeta. rewrite (IHe1 (false :: pth)), (IHe2 (true :: pth)). unfold EA.merge_ip.
    rewrite !keys_model, set_display_model. unfold lift_ip at 3. rewrite map_map. apply map_ext.
    intros k. cbn [fst snd]. rewrite !get_or_model, union_model. reflexivity.
Qed.

(** the summary of gen/Desugar.v is right as a set, whatever the iteration order *)
Hypothesis ord_perm : forall l, Permutation (ord_set l) l.

Lemma occurrences_indexes : forall e,
  flat_map EA.t_indexes (EA.occurrences (cA e)) = TV.gen.Desugar.index_names e.
Proof.
  induction e; simpl; try reflexivity; try (rewrite app_nil_r; reflexivity);
    rewrite flat_map_app, IHe1, IHe2; reflexivity.
Qed.

Theorem gen_index_names_summary : forall e k,
  In k (map fst (GD.Expression_index_participants ord_set e)) <-> In k (TV.gen.Desugar.index_names e).
Proof.
  intros e k. rewrite (gen_index_participants_equiv e []), keys_model.
  rewrite (TV.proofs.ValidateIP.ip_keys_indexes (fun _ l => ord_set l) (fun _ l => ord_perm l)).
  rewrite occurrences_indexes. reflexivity.
Qed.

Theorem gen_index_participants_keys_NoDup : forall e,
  NoDup (map fst (GD.Expression_index_participants ord_set e)).
Proof.
  intros e. rewrite (gen_index_participants_equiv e []), keys_model.
  apply (TV.proofs.ValidateIP.ip_NoDup (fun _ l => ord_set l) (fun _ l => ord_perm l)).
Qed.
(** [Assignment.index_participants] (target merged with the right-hand side) *)
Theorem gen_assignment_index_participants_equiv : forall n idx e,
  GD.ex_assignment_index_participants ord_set (GD.ExAssignment (GD.ExTensor n idx) e)
  = lift_ip (EA.assignment_index_participants (fun _ l => ord_set l)
               (EA.Assignment (EA.TRef n idx) (cA e))).
Proof.
  intros n idx e. unfold GD.ex_assignment_index_participants, EA.assignment_index_participants. cbv zeta.
  cbn [EA.a_target EA.a_expr EA.t_name EA.t_indexes].
  rewrite (gen_index_participants_equiv e [true]).
  replace (GD.Expression_index_participants ord_set (GD.ExTensor n idx))
    with (lift_ip (EA.tensor_ip n idx 0 [])) by (symmetry; apply (tensor_model n idx 0 [])).
  unfold EA.merge_ip. rewrite !keys_model, set_display_model. unfold lift_ip at 3. rewrite map_map. apply map_ext.
  intros k. cbn [fst snd]. rewrite !get_or_model, union_model. reflexivity.
Qed.

Theorem gen_assignment_index_names_summary : forall n idx e k,
  In k (map fst (GD.ex_assignment_index_participants ord_set (GD.ExAssignment (GD.ExTensor n idx) e)))
  <-> In k (TV.gen.Desugar.assignment_index_names (GD.ExAssignment (GD.ExTensor n idx) e)).
Proof.
  intros n idx e k. rewrite gen_assignment_index_participants_equiv, keys_model.
  unfold EA.assignment_index_participants. cbn [EA.a_target EA.a_expr EA.t_name EA.t_indexes].
  rewrite (TV.proofs.ValidateIP.merge_keys_In (fun _ l => ord_set l) (fun _ l => ord_perm l)).
  rewrite (TV.proofs.ValidateIP.tensor_ip_keys), (TV.proofs.ValidateIP.ip_keys_indexes (fun _ l => ord_set l) (fun _ l => ord_perm l)).
  rewrite occurrences_indexes. unfold TV.gen.Desugar.assignment_index_names.
  cbn [GD.ex_assignment_target GD.ex_assignment_expression TV.gen.Desugar.index_names EA.akeys map].
  rewrite in_app_iff. simpl. tauto.
Qed.
End Oracle.
