(** TIE genir: Certs2Input.input_safe_sound for an EXPLICIT taint set.  Its proof only uses that the input parameters are in
    [T] and [safe_stmt T body = true] -- no closure computation.  (The text of the proof is that of input_safe_sound.) *)
From Coq Require Import ZArith Bool List String Lia FMapPositive.
From TV Require Import spec.Num gen.IRAst spec.IRSem proofs.Certs2Base proofs.Certs2Input.
Import ListNotations.
Open Scope bool_scope.

Theorem input_safe_sound_T T name ps rt body :
  (forall x, In x (param_names (tl ps)) -> In x T) -> safe_stmt T body = true ->
  forall fuel args st, out_clean st args ->
    match call fuel (FunctionDefinition name ps rt body) args st with
    | Fail x => x <> EWriteInput
    | Returned st' _ _ => out_clean st' args
    | _ => True
    end.
Proof.
  intros TP C fuel args st OC.
  unfold call. destruct (bind_params ps args []) as [e|x] eqn:B.
  2:{ clear - B. revert args B. generalize (@nil (string * (ty * option value))).
      induction ps as [|p ps IH]; intros e0 args B; destruct args; simpl in B; try (inv B; discriminate).
      - destruct p; try (inv B; discriminate). destruct name; inv B; discriminate.
      - destruct p as [nm t| | | | | | |]; try (inv B; discriminate).
        destruct nm; try (inv B; discriminate). unfold bind in B.
        destruct (coerce t v) eqn:CO.
        + eauto.
        + inv B. intros ->. eapply (coerce_nw t v); eauto. }
  assert (PS : P0 T st (with_env st e)).
  { split; [|intros v H; exact H].
    intros x t v M L. simpl in L. change (clean_val st v).
    destruct ps as [|p ps'].
    - destruct args; simpl in B; inv B. discriminate.
    - simpl in B. destruct p as [nm t0| | | | | | |]; try discriminate.
      destruct nm as [a| | | | | | | | | | | | | | | | | | | | |]; try discriminate.
      destruct args as [|a0 args']; try discriminate. unfold bind in B.
      destruct (coerce t0 a0) as [v0|] eqn:CO; try discriminate.
      rewrite (bind_params_other _ _ _ _ x B) in L.
      + simpl in L. destruct (String.eqb x a); try discriminate. inv L.
        eapply clean_coerce; eauto.
      + intros I. apply TP in I. apply mem_In in I. simpl in I. congruence. }
  pose proof (safe_stmt_sound T st fuel body (with_env st e) C PS) as G.
  destruct (exec fuel body (with_env st e)) as [s1 t1|s1 r t1|x|]; simpl in G.
  - discriminate.
  - destruct G as [_ X].
    destruct (coerce rt r) as [r'|x] eqn:CO.
    + destruct args; simpl in *; auto.
    + intros ->. eapply (coerce_nw rt r); eauto.
  - exact G.
  - exact I.
Qed.
