(** merge_assignment / to_iteration_graphs: every yielded graph places every output layer before
    every terminal ([goodb T (number of output layers)]). *)
From Coq Require Import List String Bool Arith Lia Permutation.
From TV Require Import model.Graphs model.OutputOrder proofs.GraphsInd proofs.GraphsOrders
  proofs.GraphsSimplify proofs.GraphsMerge.
Import ListNotations.
Open Scope list_scope.

(** ** unfolding equations *)
Lemma ma_nil : forall e, merge_assignment e [] = [e].
Proof. intros. destruct e; reflexivity. Qed.
Lemma ma_T : forall x ti tl ts,
  merge_assignment (TerminalNode x) ((ti, tl) :: ts)
  = map (IterationNode ti (Some tl)) (merge_assignment (TerminalNode x) ts).
Proof. reflexivity. Qed.
Lemma ma_I : forall ei eo en ti tl ts,
  merge_assignment (IterationNode ei eo en) ((ti, tl) :: ts)
  = if String.eqb ti ei then map (IterationNode ti (Some tl)) (merge_assignment en ts)
    else (if negb (mem ti (later_indexes en))
          then map (IterationNode ti (Some tl)) (merge_assignment (IterationNode ei eo en) ts) else [])
         ++ (if negb (mem ei (map fst ts)) && negb (pending_compressed ((ti, tl) :: ts))
             then map (IterationNode ei eo) (merge_assignment en ((ti, tl) :: ts)) else []).
Proof. reflexivity. Qed.
Lemma ma_S : forall name terms t ts,
  merge_assignment (SumNode name terms) (t :: ts)
  = map (fun merged => simplify_add name merged)
        (product (map (fun x => merge_assignment x (t :: ts)) terms)).
Proof. intros. destruct t. reflexivity. Qed.

Lemma forallb_ext_in : forall A (f g : A -> bool) l,
  (forall x, In x l -> f x = g x) -> forallb f l = forallb g l.
Proof.
  intros A f g l. induction l as [|x l IH]; intros H; simpl; [reflexivity|].
  rewrite (H x (or_introl eq_refl)), IH; [reflexivity|]. intros y Hy. apply H. now right.
Qed.

Lemma goodb_ext : forall T T' g k,
  (forall i, In i (later_indexes g) -> T i = T' i) -> goodb T k g = goodb T' k g.
Proof.
  intros T T' g. induction g as [e|i o n IH|nm ts IH] using graph_ind2; intros k H.
  - reflexivity.
  - simpl. rewrite (H i (or_introl eq_refl)).
    assert (forall k, goodb T k n = goodb T' k n) as E.
    { intros k'. apply IH. intros j Hj. apply H. now right. }
    destruct (is_some o); [destruct k|]; now rewrite ?E.
  - simpl. apply forallb_ext_in. intros t Ht. rewrite Forall_forall in IH. apply IH; [exact Ht|].
    intros j Hj. apply H. simpl. apply in_flat_map. eauto.
Qed.

Lemma product_Forall2 : forall A (ls : list (list A)) (m : list A),
  In m (product ls) -> Forall2 (fun x l => In x l) m ls.
Proof.
  intros A ls. induction ls as [|c r IH]; intros m H; simpl in H.
  - destruct H as [<-|[]]. constructor.
  - apply in_flat_map in H as [x [Hx H]]. apply in_map_iff in H as [m' [<- Hm']].
    constructor; [exact Hx | now apply IH].
Qed.

Lemma Forall2_In_map : forall A B (F : A -> list B) terms merged x,
  Forall2 (fun y l => In y l) merged (map F terms) -> In x merged -> exists t, In t terms /\ In x (F t).
Proof.
  intros A B F terms. induction terms as [|t0 terms IH]; intros merged x H Hx; simpl in H.
  - inversion H; subst. contradiction.
  - inversion H; subst. destruct Hx as [<-|Hx].
    + exists t0. split; [now left | assumption].
    + destruct (IH _ _ H4 Hx) as [t [A1 B1]]. exists t. split; [now right | assumption].
Qed.

Section merge_assignment_good.
  Variable T : string -> bool.

  Definition ma_pre (e : graph) (tgt : list tlayer) : Prop :=
    goodb Tn 0 e = true /\ nodup_paths e = true /\ NoDup (map fst tgt)
    /\ (forall i, In i (map fst tgt) -> T i = true)
    /\ (forall i, In i (later_indexes e) -> T i = true -> In i (map fst tgt)).

  Lemma ma_pre_intro : forall e tgt,
    goodb Tn 0 e = true -> nodup_paths e = true -> NoDup (map fst tgt) ->
    (forall i, In i (map fst tgt) -> T i = true) ->
    (forall i, In i (later_indexes e) -> T i = true -> In i (map fst tgt)) -> ma_pre e tgt.
  Proof. intros. unfold ma_pre. auto. Qed.

  Lemma ma_base : forall e, ma_pre e [] -> goodb T 0 e = true.
  Proof.
    intros e [G [_ [_ [_ H]]]]. rewrite <- G. apply goodb_ext.
    intros i Hi. unfold Tn. destruct (T i) eqn:E; [|reflexivity]. exfalso. exact (H i Hi E).
  Qed.

  Lemma merge_assignment_good : forall e tgt g,
    ma_pre e tgt -> In g (merge_assignment e tgt) -> goodb T (List.length tgt) g = true.
  Proof.
    intros e. induction e as [x|ei eo en IHe|name terms IHe] using graph_ind2;
      intros tgt; induction tgt as [|[ti tl] ts IHt]; intros g P H.
    - rewrite ma_nil in H. destruct H as [<-|[]]. now apply ma_base.
    - rewrite ma_T in H. apply in_map_iff in H as [g' [<- Hg']].
      destruct P as [G [N [ND [Tt TL]]]]. inversion ND; subst.
      assert (goodb T (List.length ts) g' = true).
      { apply IHt; [|exact Hg']. apply ma_pre_intro; auto.
        - intros i Hi. apply Tt. now right.
        - intros i []. }
      simpl. rewrite (Tt ti (or_introl eq_refl)). simpl. exact H.
    - rewrite ma_nil in H. destruct H as [<-|[]]. now apply ma_base.
    - destruct P as [G [N [ND [Tt TL]]]].
      assert (G0 := G). assert (N0 := N).
      apply goodb_Tn_iter in G as [-> G]. apply nodup_iter in N as [N1 N2].
      inversion ND as [|? ? ND1 ND2]; subst.
      assert (Tti : T ti = true) by (apply Tt; now left).
      rewrite ma_I in H. destruct (String.eqb ti ei) eqn:E.
      + apply String.eqb_eq in E. subst ei.
        apply in_map_iff in H as [g' [<- Hg']].
        assert (goodb T (List.length ts) g' = true).
        { apply IHe; [|exact Hg']. apply ma_pre_intro; auto.
          - intros i Hi. apply Tt. now right.
          - intros i Hi Ti. destruct (TL i (or_intror Hi) Ti) as [<-|Hin]; [contradiction | exact Hin]. }
        simpl. rewrite Tti. simpl. exact H.
      + apply String.eqb_neq in E. apply in_app_or in H as [H|H].
        * destruct (mem ti (later_indexes en)) eqn:M; simpl in H; [contradiction|]. apply mem_false in M.
          apply in_map_iff in H as [g' [<- Hg']].
          assert (goodb T (List.length ts) g' = true).
          { apply IHt; [|exact Hg']. apply ma_pre_intro; auto.
            - intros i Hi. apply Tt. now right.
            - intros i Hi Ti. destruct (TL i Hi Ti) as [<-|Hin]; [|exact Hin].
              exfalso. simpl in Hi. destruct Hi as [Hi|Hi]; [now apply E | contradiction]. }
          simpl. rewrite Tti. simpl. exact H.
        * destruct (negb (mem ei (map fst ts)) && negb (pending_compressed ((ti, tl) :: ts))) eqn:C;
            [|contradiction].
          apply andb_true_iff in C as [C _]. apply negb_true_iff, mem_false in C.
          apply in_map_iff in H as [g' [<- Hg']].
          assert (goodb T (List.length ((ti, tl) :: ts)) g' = true).
          { apply IHe; [|exact Hg']. apply ma_pre_intro; auto.
            intros i Hi Ti. apply TL; [now right | exact Ti]. }
          assert (T ei = false).
          { destruct (T ei) eqn:Te; [|reflexivity]. exfalso.
            destruct (TL ei (or_introl eq_refl) Te) as [Hx|Hx]; [now apply E | contradiction]. }
          simpl goodb. rewrite H0. simpl. exact H.
    - rewrite ma_nil in H. destruct H as [<-|[]]. now apply ma_base.
    - rewrite ma_S in H. apply in_map_iff in H as [merged [<- Hm]].
      apply simplify_add_goodb. apply product_Forall2 in Hm.
      destruct P as [G [N [ND [Tt TL]]]]. simpl in G, N.
      rewrite forallb_forall in G, N. rewrite Forall_forall in IHe.
      apply forallb_forall. intros x Hx.
      destruct (Forall2_In_map _ _ (fun x0 => merge_assignment x0 ((ti, tl) :: ts)) terms merged x Hm Hx)
        as [t [Ht Hxt]].
      apply (IHe t Ht); [|exact Hxt]. apply ma_pre_intro; auto.
      intros i Hi Ti. apply TL; [|exact Ti]. simpl. apply in_flat_map. eauto.
  Qed.
End merge_assignment_good.

(** ** target chains *)
Definition target_set (tgt : list tlayer) : string -> bool := fun i => mem i (map fst tgt).

Lemma target_chain_spec : forall tr order tgt,
  target_chain tr order = Some tgt ->
  chain_indexes (t_indexes tr) order = Some (map fst tgt) /\ List.length tgt = List.length order
  /\ Forall (fun t => ol_tensor (snd t) = tr) tgt.
Proof.
  intros tr order. induction order as [|o r IH]; intros tgt H; unfold target_chain in H; simpl in H.
  - inversion H. simpl. auto.
  - destruct (nth_error (t_indexes tr) o) as [i|] eqn:E; [|discriminate].
    fold (target_chain tr r) in H. destruct (target_chain tr r) as [tg'|] eqn:E2; [|discriminate].
    inversion H; subst. destruct (IH _ eq_refl) as [A [B C]]. simpl. rewrite E, A. repeat split; auto.
Qed.

Lemma target_chain_some : forall tr order,
  (forall o, In o order -> o < List.length (t_indexes tr)) -> target_chain tr order <> None.
Proof.
  intros tr order. induction order as [|o r IH]; intros H; unfold target_chain; simpl.
  - discriminate.
  - assert (o < List.length (t_indexes tr)) by (apply H; now left).
    apply nth_error_Some in H0. destruct (nth_error (t_indexes tr) o); [|contradiction].
    fold (target_chain tr r).
    assert (target_chain tr r <> None) by (apply IH; intros; apply H; now right).
    destruct (target_chain tr r); [discriminate | contradiction].
Qed.

(** every graph of the enumeration is complete with respect to its own target chain *)
Definition complete (nlayers : nat) (g : graph) : Prop :=
  exists T, goodb T nlayers g = true.

Theorem to_iteration_graphs_complete : forall a fs gs modes,
  to_iteration_graphs a fs = ROk gs -> output_modes a fs = Some modes ->
  Forall (complete (List.length modes)) gs.
Proof.
  intros a fs gs modes H HM. unfold to_iteration_graphs in H.
  destruct (target_chains (a_target a) fs) as [chains| |] eqn:EC; try discriminate.
  destruct chains as [|c0 chains'] eqn:ECH; [inversion H; constructor|]. rewrite <- ECH in *.
  destruct (expr_graphs (a_expr a) fs 1) as [es| |] eqn:EE; try discriminate.
  assert (H' : gs = flat_map (fun tgt => flat_map (fun e => merge_assignment e tgt) es) chains).
  { subst chains. injection H as <-. reflexivity. }
  clear H. subst gs. apply Forall_forall. intros g Hg.
  apply in_flat_map in Hg as [tgt [Ht Hg]]. apply in_flat_map in Hg as [e [He Hg]].
  apply expr_graphs_egood in EE. rewrite Forall_forall in EE. destruct (EE _ He) as [G N].
  (* the chain *)
  unfold target_chains in EC. unfold output_modes in HM.
  destruct (lookup (d_name (a_target a)) fs) as [f|] eqn:EL; [|discriminate]. injection HM as <-.
  destruct (identify (a_target a) fs) as [tr|] eqn:EI; [|discriminate].
  destruct (nodupb (t_indexes tr)) eqn:ND; simpl in EC; [|discriminate].
  destruct (sequence (map (target_chain tr) (legal_iteration_orders f))) as [cs|] eqn:ES; [|discriminate].
  injection EC as <-. apply sequence_Forall2 in ES.
  assert (exists o, In o (legal_iteration_orders f) /\ target_chain tr o = Some tgt) as [o [Ho E]].
  { clear -ES Ht. induction ES as [|x y l l' Hxy H IH]; [contradiction|].
    destruct Ht as [<-|Ht]; [exists x; split; [now left | assumption]|].
    destruct (IH Ht) as [o [A B]]. exists o. split; [now right | assumption]. }
  destruct (target_chain_spec _ _ _ E) as [CI [LEN _]].
  assert (NoDup (map fst tgt)).
  { eapply chain_indexes_nodup; [exact CI | eapply legal_orders_nodup; exact Ho | now apply nodupb_NoDup]. }
  exists (target_set tgt).
  assert (List.length tgt = List.length (f_modes f)) as <-.
  { rewrite LEN. apply legal_orders_perm in Ho. apply Permutation_length in Ho.
    rewrite seq_length in Ho. congruence. }
  apply merge_assignment_good with (e := e); [|exact Hg].
  apply ma_pre_intro; auto.
  - intros i Hi. unfold target_set. now apply mem_In.
  - intros i _ Ti. unfold target_set in Ti. now apply mem_In in Ti.
Qed.

(** well-formed requests never hit a failing lookup *)
Theorem to_iteration_graphs_wf : forall a fs,
  wf_problem a fs = true -> to_iteration_graphs a fs <> RIllFormed /\ output_modes a fs <> None.
Proof.
  intros a fs H. unfold wf_problem in H. apply andb_true_iff in H as [HT HE].
  destruct (wf_tensor_identify _ _ HT) as [f [tr [EL [EI [Hlen Hm]]]]]. split.
  - unfold to_iteration_graphs, target_chains. rewrite EL, EI.
    destruct (negb (nodupb (t_indexes tr))); [discriminate|].
    destruct (sequence_map_some _ _ (target_chain tr) (legal_iteration_orders f)) as [cs E].
    + intros o Ho. apply target_chain_some. intros x Hx. rewrite Hlen. eapply legal_orders_bound; eauto.
    + rewrite E. destruct cs; [discriminate|].
      pose proof (expr_graphs_wf _ _ 1 HE). destruct (expr_graphs (a_expr a) fs 1); congruence.
  - unfold output_modes. rewrite EL. discriminate.
Qed.
