(** All theorems of the TIE target "append" under one module name (tools/props/_tie_append.py). *)
From TV Require proofs.GenAppend_equiv proofs.GenAppend_protocol proofs.GenAppend_decl.

Definition gen_crd_assembly_shape := @GenAppend_equiv.gen_crd_assembly_shape.
Definition gen_crd_assembly_none := @GenAppend_equiv.gen_crd_assembly_none.
Definition gen_pos_assembly_shape := @GenAppend_equiv.gen_pos_assembly_shape.
Definition gen_pos_allocation_shape := @GenAppend_equiv.gen_pos_allocation_shape.
Definition gen_declarations_all := @GenAppend_decl.gen_declarations_all.
Definition gen_cleanup_all := @GenAppend_decl.gen_cleanup_all.
Definition gen_declarations_compute_all := @GenAppend_decl.gen_declarations_compute_all.
Definition gen_compute_fragments_certified := @GenAppend_decl.gen_compute_fragments_certified.
Definition gen_declarations_c := @GenAppend_equiv.gen_declarations_c.
Definition gen_declarations_dc := @GenAppend_equiv.gen_declarations_dc.
Definition gen_declarations_cc := @GenAppend_equiv.gen_declarations_cc.
Definition gen_cleanup_c := @GenAppend_equiv.gen_cleanup_c.
Definition gen_cleanup_cc := @GenAppend_equiv.gen_cleanup_cc.
Definition gen_cleanup_cd := @GenAppend_equiv.gen_cleanup_cd.
Definition gen_cleanup_compute := @GenAppend_equiv.gen_cleanup_compute.
Definition gen_bucket_declarations_shape := @GenAppend_decl.gen_bucket_declarations_shape.
Definition gen_bucket_declarations_none := @GenAppend_decl.gen_bucket_declarations_none.
Definition gen_bucket_assignment_shape := @GenAppend_decl.gen_bucket_assignment_shape.
Definition exec_grow_double := @GenAppend_equiv.exec_grow_double.
Definition exec_grow_max := @GenAppend_equiv.exec_grow_max.
Definition crd_assembly_refines := @GenAppend_equiv.crd_assembly_refines.
Definition append_refines := @GenAppend_equiv.append_refines.
Definition pos_assembly_refines := @GenAppend_equiv.pos_assembly_refines.
Definition pos_allocation_double_refines := @GenAppend_equiv.pos_allocation_double_refines.
Definition pos_allocation_max_refines := @GenAppend_equiv.pos_allocation_max_refines.
Definition run_segs_refines := @GenAppend_equiv.run_segs_refines.
Definition emitted_protocol_inv := @GenAppend_protocol.emitted_protocol_inv.
Definition decl_level_refines := @GenAppend_decl.decl_level_refines.
Definition decl_vals_refines := @GenAppend_decl.decl_vals_refines.
Definition cleanup_rest_refines := @GenAppend_decl.cleanup_rest_refines.
Definition pos_shrink_refines := @GenAppend_decl.pos_shrink_refines.
Definition cleanup_vals_refines := @GenAppend_decl.cleanup_vals_refines.
Definition run_segs_refines_frame := @GenAppend_decl.run_segs_refines_frame.
Definition vector_life := @GenAppend_decl.vector_life.
Definition vector_life_wf := @GenAppend_decl.vector_life_wf.
