(** TIE "append", second part: write_declarations and write_cleanup on the IR abstract machine
    ([decl_level], [cleanup] of model/Append.v), the tensor-field stores, and the whole life of a
    compressed output level from the harness' initial state (spec/IRRun.v [init_state]). *)

From Coq Require Import ZArith Bool List String Lia FMapPositive.
From TV Require Import spec.Num spec.Storage spec.PyLib gen.IRAst gen.Names spec.IRSem gen.AppendGen
  proofs.MachineSafety proofs.Certs proofs.Certs2Base model.Append proofs.AppendProofs proofs.GenAppend_machine proofs.GenAppend_equiv.
From TV Require spec.IRRun proofs.Certs2Store.
Import ListNotations.
Open Scope Z_scope.

(** * More statements on the machine *)

Lemma exec_dcl n x t val st :
  exec (S n) (dcl (Var x) t val) st =
  match eval_rhs st val with
  | Err e => Fail e
  | Ok (st1, v, t1) =>
      match coerce t v with
      | Err e => Fail e
      | Ok v' => Normal (with_env st1 (set_var x (t, Some v') (env st1))) t1
      end
  end.
Proof. reflexivity. Qed.

(** [int x = e] that completes *)
Lemma exec_dcl_int_inv n st x e st' tr :
  is_alloc_form e = false ->
  exec (S n) (dcl (Var x) TInteger e) st = Normal st' tr ->
  exists z t, eval st e = Ok (VInt z, t) /\ in_int32 z = true /\ st' = set_int st x z.
Proof.
  intros A H. rewrite exec_dcl, eval_rhs_pure in H by auto.
  destruct (eval st e) as [[v t]|] eqn:E; cbn [bind] in H; [|discriminate].
  destruct v; cbn [coerce] in H; try discriminate.
  destruct (in_int32 z) eqn:I; [|discriminate]. inversion H; subst. eauto.
Qed.

Lemma eval_default_array_size st cap :
  eval st (default_array_size cap)
  = let c := match cap with Some c => c | None => 1048576 end in
    if in_int32 c then Ok (VInt c, []) else Err EOverflow.
Proof.
  destruct cap as [c|]; [|reflexivity]. cbn [default_array_size]. rewrite eval_lit. unfold chk32.
  cbv zeta. destruct (in_int32 c); reflexivity.
Qed.

Definition cap_value (cap : option Z) : Z := match cap with Some c => c | None => 1048576 end.

Lemma default_array_size_pure cap : is_alloc_form (default_array_size cap) = false.
Proof. destruct cap; reflexivity. Qed.

(** the state after [a = alloc(ety, cap)] *)
Definition alloc_state (st : state) (arrv : string) (ety : ty) (c : Z) : state :=
  mkState (set_var arrv (TPointer ety, Some (VPtr (next_blk st) 0)) (env st))
          (PM.add (next_blk st) (mkBlock (is_float_ty ety) c (PM.empty value) true false) (heap st))
          (Pos.succ (next_blk st)) (tensors st) (iters st).

Lemma exec_alloc_inv n st capv arrv ety c old st' tr :
  ivar st capv c -> lookup arrv (env st) = Some (TPointer ety, old) -> (ety = TInteger \/ ety = TFloat) ->
  exec (S n) (Assignment (Var arrv) (ArrayAllocate ety (Var capv))) st = Normal st' tr ->
  0 <= c /\ st' = alloc_state st arrv ety c.
Proof.
  intros Hc La He H. rewrite exec_assignment in H. cbn [eval_rhs] in H.
  rewrite (eval_ivar _ _ _ Hc) in H. cbn [bind] in H. unfold IRSem.alloc in H.
  assert (EF : elt_is_float ety = Ok (is_float_ty ety)) by (destruct He; subst; reflexivity).
  rewrite EF in H. cbn [bind] in H. destruct (c <? 0) eqn:C0; [discriminate|]. apply Z.ltb_ge in C0.
  cbn [bind eval_loc assign env] in H. rewrite La in H.
  assert (CO : coerce (TPointer ety) (VPtr (next_blk st) 0) = Ok (VPtr (next_blk st) 0)) by (destruct He; subst; reflexivity).
  rewrite CO in H. cbn [bind] in H. inversion H; subst. split; auto.
Qed.

Lemma buf_at_alloc_state st capv arrv ety c :
  capv <> arrv -> ivar st capv c -> 0 <= c -> (ety = TInteger \/ ety = TFloat) ->
  buf_at (alloc_state st arrv ety c) capv arrv ety (next_blk st) (mkBuf c (alloc c)).
Proof.
  intros Hne [Lc Ic] C0 He. unfold alloc_state. split; [|split; [|split]].
  - split; auto. cbn [env b_cap]. rewrite lookup_set_var. apply String.eqb_neq in Hne. now rewrite Hne.
  - split; auto. cbn [env]. now rewrite lookup_set_var, String.eqb_refl.
  - cbn [next_blk]. lia.
  - eexists. split; [cbn [heap]; apply PM.gss|]. cbn [b_live b_input b_float b_len b_arr].
    repeat split; auto. { apply cells_in_range_fresh. } now rewrite arr_of_fresh.
Qed.

Lemma same_except_alloc_state st arrv ety c : same_except st (alloc_state st arrv ety c) [arrv] [].
Proof.
  unfold alloc_state. repeat split.
  - intros y Y. cbn [env]. rewrite lookup_set_var. destruct (String.eqb y arrv) eqn:E; auto.
    apply String.eqb_eq in E. subst. exfalso. apply Y. now left.
  - intros b _ Lb. cbn [heap]. rewrite PM.gso; auto. intros ->. exact (Pos.lt_irrefl _ Lb).
  - cbn [next_blk]. lia.
Qed.

(** [a = realloc(a, ety, sz)] for any size expression *)
Lemma exec_realloc_gen_inv n st sz c arrv ety blk bl st' tr :
  (forall v t, eval st sz = Ok (v, t) -> v = VInt c) -> pvar st arrv ety blk ->
  PM.find blk (heap st) = Some bl -> b_live bl = true -> b_input bl = false -> b_float bl = is_float_ty ety ->
  exec (S n) (Assignment (Var arrv) (ArrayReallocate (Var arrv) ety sz)) st = Normal st' tr ->
  0 <= c /\
  st' = mkState (set_var arrv (TPointer ety, Some (VPtr (next_blk st) 0)) (env st))
          (PM.add (next_blk st) (mkBlock (is_float_ty ety) c (keep_prefix c (b_cells bl)) true false)
             (PM.add blk (mkBlock (b_float bl) (b_len bl) (b_cells bl) false false) (heap st)))
          (Pos.succ (next_blk st)) (tensors st) (iters st).
Proof.
  intros Hsz Hp Hf Hl Hi Hfl H. rewrite exec_assignment in H.
  cbn [eval_rhs is_Assignable is_Var orb negb] in H.
  rewrite (eval_pvar _ _ _ _ Hp) in H. cbn [bind] in H.
  destruct (eval st sz) as [[v t]|] eqn:Es; cbn [bind] in H; [|discriminate].
  pose proof (Hsz _ _ eq_refl); subst v.
  destruct Hp as [Lp Hety]. unfold IRSem.realloc in H.
  assert (EF : elt_is_float ety = Ok (is_float_ty ety)) by (destruct Hety; subst; reflexivity).
  rewrite EF in H. cbn [bind] in H.
  destruct (c <? 0) eqn:C0; [discriminate|]. apply Z.ltb_ge in C0.
  rewrite Hf, Hl, Hi in H. cbn [negb] in H. rewrite Hfl in H. rewrite Bool.eqb_reflx in H. cbn [negb bind] in H.
  cbn [eval_loc assign env with_env] in H. rewrite Lp in H.
  assert (CO : coerce (TPointer ety) (VPtr (next_blk st) 0) = Ok (VPtr (next_blk st) 0)) by (destruct Hety; subst; reflexivity).
  rewrite CO in H. cbn [bind] in H. inversion H; subst. split; auto.
  unfold with_env; cbn [env heap next_blk tensors iters]. now rewrite Hfl.
Qed.

(** a buffer after [a = realloc(a, ety, sz)]: capacity variable untouched, array [Append.realloc] *)
Lemma buf_at_realloc n st sz c capv arrv ety blk B st' tr :
  capv <> arrv -> (forall v t, eval st sz = Ok (v, t) -> v = VInt c) -> buf_at st capv arrv ety blk B ->
  exec (S n) (Assignment (Var arrv) (ArrayReallocate (Var arrv) ety sz)) st = Normal st' tr ->
  buf_at st' capv arrv ety (next_blk st) (mkBuf (b_cap B) (realloc (b_arr B) c))
  /\ same_except st st' [arrv] [blk] /\ 0 <= c /\ next_blk st' = Pos.succ (next_blk st) /\ tensors st' = tensors st.
Proof.
  intros Hne Hsz (Hc & Hp & Hlt & bl & Hf & Hlive & Hin & Hfl & Hlen & Hcr & Harr) H.
  eapply exec_realloc_gen_inv in H; eauto. destruct H as (C0 & ->).
  split; [|split; [|split; [|split]]]; auto.
  - split; [|split; [|split]].
    + destruct Hc as [Lc Ic]. split; auto. cbn [env b_cap]. rewrite lookup_set_var.
      apply String.eqb_neq in Hne. now rewrite Hne.
    + destruct Hp as [_ He]. split; auto. cbn [env]. now rewrite lookup_set_var, String.eqb_refl.
    + cbn [next_blk]. lia.
    + eexists. split; [cbn [heap]; apply PM.gss|]. cbn [b_live b_input b_float b_len b_arr].
      repeat split; auto. { now apply cells_in_range_keep_prefix. }
      rewrite Harr. symmetry. now apply arr_of_realloc.
  - repeat split.
    + intros y Y. cbn [env]. rewrite lookup_set_var. destruct (String.eqb y arrv) eqn:E; auto.
      apply String.eqb_eq in E. subst. exfalso. apply Y. now left.
    + intros b Nb Lb. cbn [heap]. rewrite !PM.gso; auto; intros ->; try (exact (Pos.lt_irrefl _ Lb)); apply Nb; now left.
    + cbn [next_blk]. lia.
Qed.

(** * write_declarations, one compressed level: [Append.decl_level] *)

Definition decl_level_block (N : lnames) (ps_e : expr) (cap : option Z) : list stmt :=
  [dcl (Var (n_poscap N)) TInteger ps_e;
   Assignment (Var (n_pos N)) (ArrayAllocate TInteger (Var (n_poscap N)));
   Assignment (ArrayIndex (Var (n_pos N)) (IntegerLiteral 0)) (IntegerLiteral 0);
   dcl (Var (n_crdcap N)) TInteger (default_array_size cap);
   Assignment (Var (n_crd N)) (ArrayAllocate TInteger (Var (n_crdcap N)));
   dcl (Var (n_ptr N)) TInteger (IntegerLiteral 0)].

Lemma decl_level_block_eq t i ps_e cap :
  (decl_level_stmts (Tensor_name t) i ps_e (default_array_size cap) ++ [decl_ptr_stmt (Tensor_id t) i])%list
  = decl_level_block (names_of t i) ps_e cap.
Proof. reflexivity. Qed.

Definition declared_ptr (st : state) (x : string) (ety : ty) : Prop :=
  exists o, lookup x (env st) = Some (TPointer ety, o).

Lemma declared_ptr_frame st st' vars blks x ety :
  same_except st st' vars blks -> ~ In x vars -> declared_ptr st x ety -> declared_ptr st' x ety.
Proof. intros (E & _) N [o L]. exists o. now rewrite E. Qed.

Lemma not_in1 {A} (x y : A) : x <> y -> ~ In x [y].
Proof. intros N [E|[]]. congruence. Qed.

Lemma same_except_app a b c v1 v2 b1 b2 :
  same_except a b v1 b1 -> same_except b c v2 b2 -> same_except a c (v1 ++ v2) (b1 ++ b2).
Proof.
  intros S1 S2. eapply same_except_trans.
  - eapply same_except_weaken; eauto using incl_appl, incl_refl.
  - eapply same_except_weaken; eauto using incl_appr, incl_refl.
Qed.

Lemma same_except_drop_fresh a c vars blks :
  same_except a c vars blks -> (forall b, In b blks -> (next_blk a <= b)%positive) -> same_except a c vars [].
Proof.
  intros (E & H & N) F. repeat split; auto. intros b _ Lb. apply H; auto. intros I. apply F in I. lia.
Qed.

Theorem decl_level_refines n st tr0 N ps_e ps tps cap st' tr :
  names_distinct N [] ->
  eval st ps_e = Ok (VInt ps, tps) -> is_alloc_form ps_e = false ->
  declared_ptr st (n_pos N) TInteger -> declared_ptr st (n_crd N) TInteger ->
  run_block (S n) (decl_level_block N ps_e cap) st tr0 = Normal st' tr ->
  exists L pb cb, decl_level ps (cap_value cap) = Some L
            /\ level_at st' N pb cb L
            /\ same_except st st' [n_poscap N; n_pos N; n_crdcap N; n_crd N; n_ptr N] []
            /\ (cb < next_blk st')%positive /\ tensors st' = tensors st.
Proof.
  intros ND Eps Aps DP DC H. unfold decl_level_block in H.
  assert (A01 : n_pos N <> n_poscap N) by nd_neq ND 0%nat 1%nat.
  assert (A02 : n_pos N <> n_crd N) by nd_neq ND 0%nat 2%nat.
  assert (A03 : n_pos N <> n_crdcap N) by nd_neq ND 0%nat 3%nat.
  assert (A04 : n_pos N <> n_ptr N) by nd_neq ND 0%nat 4%nat.
  assert (A12 : n_poscap N <> n_crd N) by nd_neq ND 1%nat 2%nat.
  assert (A13 : n_poscap N <> n_crdcap N) by nd_neq ND 1%nat 3%nat.
  assert (A14 : n_poscap N <> n_ptr N) by nd_neq ND 1%nat 4%nat.
  assert (A23 : n_crd N <> n_crdcap N) by nd_neq ND 2%nat 3%nat.
  assert (A24 : n_crd N <> n_ptr N) by nd_neq ND 2%nat 4%nat.
  assert (A34 : n_crdcap N <> n_ptr N) by nd_neq ND 3%nat 4%nat.
  apply run_block_cons_inv in H. destruct H as (s1 & t1 & E1 & H).
  apply run_block_cons_inv in H. destruct H as (s2 & t2 & E2 & H).
  apply run_block_cons_inv in H. destruct H as (s3 & t3 & E3 & H).
  apply run_block_cons_inv in H. destruct H as (s4 & t4 & E4 & H).
  apply run_block_cons_inv in H. destruct H as (s5 & t5 & E5 & H).
  apply run_block_cons_inv in H. destruct H as (s6 & t6 & E6 & H).
  rewrite run_block_nil in H. inversion H; subst; clear H.
  (* 1: pos_capacity = pos_size *)
  apply exec_dcl_int_inv in E1; auto. destruct E1 as (z & t & Ez & Ips & ->).
  rewrite Eps in Ez. inversion Ez; subst z t; clear Ez.
  pose proof (same_except_set_int st (n_poscap N) ps) as S1.
  assert (C1 : ivar (set_int st (n_poscap N) ps) (n_poscap N) ps) by now apply ivar_set_int_same.
  (* 2: pos = alloc *)
  destruct DP as [op Lp].
  eapply exec_alloc_inv with (old := op) in E2; eauto.
  2:{ rewrite lookup_set_int_other; auto. }
  destruct E2 as (P0 & ->).
  set (st1 := set_int st (n_poscap N) ps) in *.
  pose proof (buf_at_alloc_state st1 (n_poscap N) (n_pos N) TInteger ps (not_eq_sym A01) C1 P0 (or_introl eq_refl)) as B2.
  pose proof (same_except_alloc_state st1 (n_pos N) TInteger ps) as S2.
  set (st2 := alloc_state st1 (n_pos N) TInteger ps) in *.
  (* 3: pos[0] = 0 *)
  pose proof E3 as E3'.
  eapply exec_store_int with (i := 0) (v := 0) in E3; eauto;
    try (intros x t Ex; rewrite eval_lit in Ex; cbn in Ex; congruence).
  destruct E3 as (Bp & STp & B3 & S3).
  (* 4: crd_capacity = default *)
  apply exec_dcl_int_inv in E4; [|apply default_array_size_pure]. destruct E4 as (z & t & Ez & Ic & ->).
  rewrite eval_default_array_size in Ez. fold (cap_value cap) in Ez. cbv zeta in Ez.
  destruct (in_int32 (cap_value cap)); [|discriminate]. inversion Ez; subst z t; clear Ez.
  pose proof (same_except_set_int s3 (n_crdcap N) (cap_value cap)) as S4.
  assert (C4 : ivar (set_int s3 (n_crdcap N) (cap_value cap)) (n_crdcap N) (cap_value cap)) by now apply ivar_set_int_same.
  set (st4 := set_int s3 (n_crdcap N) (cap_value cap)) in *.
  (* 5: crd = alloc *)
  assert (DC4 : declared_ptr st4 (n_crd N) TInteger).
  { eapply declared_ptr_frame; [exact S4|apply not_in1; auto|].
    eapply declared_ptr_frame; [exact S3|intros []|].
    eapply declared_ptr_frame; [exact S2|apply not_in1; auto|].
    eapply declared_ptr_frame; [exact S1|apply not_in1; auto|]. exact DC. }
  destruct DC4 as [oc Lc].
  eapply exec_alloc_inv with (old := oc) in E5; eauto. destruct E5 as (Cc0 & ->).
  pose proof (buf_at_alloc_state st4 (n_crdcap N) (n_crd N) TInteger (cap_value cap) (not_eq_sym A23) C4 Cc0 (or_introl eq_refl)) as B5.
  pose proof (same_except_alloc_state st4 (n_crd N) TInteger (cap_value cap)) as S5.
  set (st5 := alloc_state st4 (n_crd N) TInteger (cap_value cap)) in *.
  (* 6: p = 0 *)
  apply exec_dcl_int_inv in E6; auto. destruct E6 as (z & t & Ez & I0 & ->).
  rewrite eval_lit in Ez. cbn in Ez. inversion Ez; subst z t; clear Ez.
  pose proof (same_except_set_int st5 (n_ptr N) 0) as S6.
  set (pb := next_blk st1) in *. set (cb := next_blk st4) in *.
  assert (B4 : buf_at st4 (n_poscap N) (n_pos N) TInteger pb Bp).
  { eapply buf_at_frame; [exact S4| | | |exact B3]; try apply not_in1; auto. }
  assert (B5p : buf_at st5 (n_poscap N) (n_pos N) TInteger pb Bp).
  { eapply buf_at_frame; [exact S5| | | |exact B4]; try apply not_in1; auto. }
  assert (Hlt : (pb < cb)%positive) by apply B4.
  unfold bstore in STp. cbn [b_arr b_cap] in STp.
  destruct (store (alloc ps) 0 0) as [a|] eqn:STa; [|discriminate]. inversion STp; subst Bp; clear STp.
  exists (mkL (mkBuf ps a) (mkBuf (cap_value cap) (alloc (cap_value cap))) 0), pb, cb.
  split; [|split; [|split; [|split]]].
  - unfold decl_level. now rewrite STa.
  - split; [|split; [|split]].
    + eapply buf_at_frame; [exact S6| | | |exact B5p]; try apply not_in1; auto.
    + eapply buf_at_frame; [exact S6| | | |exact B5]; try apply not_in1; auto.
    + intros E. rewrite E in Hlt. exact (Pos.lt_irrefl _ Hlt).
    + now apply ivar_set_int_same.
  - pose proof (same_except_app _ _ _ _ _ _ _ S1 (same_except_app _ _ _ _ _ _ _ S2 (same_except_app _ _ _ _ _ _ _ S3
                 (same_except_app _ _ _ _ _ _ _ S4 (same_except_app _ _ _ _ _ _ _ S5 S6))))) as SS.
    cbn [app] in SS. eapply same_except_drop_fresh; [exact SS|].
    intros b [<-|[]]. unfold pb, st1, set_int, with_env. cbn [next_blk]. lia.
  - unfold cb. unfold set_int at 1. unfold with_env. cbn [next_blk]. unfold st5, alloc_state. cbn [next_blk]. lia.
  - transitivity (tensors st5); [reflexivity|]. transitivity (tensors s3); [reflexivity|].
    transitivity (tensors st2); [|reflexivity].
    pose proof (no_field_store_sound (S n) _ st2 (eq_refl : no_field_store (Assignment (ArrayIndex (Var (n_pos N)) (IntegerLiteral 0)) (IntegerLiteral 0)) = true)) as T.
    rewrite E3' in T. exact T.
Qed.

Lemma run_block_tensors n l : forallb no_field_store l = true ->
  forall st tr st' tr', run_block n l st tr = Normal st' tr' -> tensors st' = tensors st.
Proof.
  induction l as [|s l IH]; intros K st tr st' tr' H.
  - rewrite run_block_nil in H. now inversion H.
  - cbn [forallb] in K. apply andb_prop in K. destruct K as [K1 K2].
    apply run_block_cons_inv in H. destruct H as (s1 & t1 & E & H).
    pose proof (no_field_store_sound n s st K1) as T. rewrite E in T. cbn in T.
    apply IH in H; auto. unfold same_tensors in T. congruence.
Qed.

(** * The value array: declaration *)

Definition decl_vals_block (valscap vals : string) (cap : option Z) : list stmt :=
  [dcl (Var valscap) TInteger (default_array_size cap);
   Assignment (Var vals) (ArrayAllocate TFloat (Var valscap))].

Lemma decl_vals_block_eq name cap :
  decl_vals_stmts name (default_array_size cap)
  = decl_vals_block (vname (vals_capacity_name name)) (vname (vals_name name)) cap.
Proof. reflexivity. Qed.

Theorem decl_vals_refines n st tr0 valscap vals cap st' tr :
  valscap <> vals -> declared_ptr st vals TFloat ->
  run_block (S n) (decl_vals_block valscap vals cap) st tr0 = Normal st' tr ->
  buf_at st' valscap vals TFloat (next_blk st) (mkBuf (cap_value cap) (alloc (cap_value cap)))
  /\ same_except st st' [valscap; vals] [] /\ tensors st' = tensors st.
Proof.
  intros Hne [o Lv] H. pose proof H as H0. unfold decl_vals_block in H.
  apply run_block_cons_inv in H. destruct H as (s1 & t1 & E1 & H).
  apply run_block_cons_inv in H. destruct H as (s2 & t2 & E2 & H).
  rewrite run_block_nil in H. inversion H; subst; clear H.
  apply exec_dcl_int_inv in E1; [|apply default_array_size_pure]. destruct E1 as (z & t & Ez & Ic & ->).
  rewrite eval_default_array_size in Ez. fold (cap_value cap) in Ez. cbv zeta in Ez.
  destruct (in_int32 (cap_value cap)); [|discriminate]. inversion Ez; subst z t; clear Ez.
  assert (C1 : ivar (set_int st valscap (cap_value cap)) valscap (cap_value cap)) by now apply ivar_set_int_same.
  eapply exec_alloc_inv with (old := o) in E2; eauto.
  2:{ rewrite lookup_set_int_other; auto. }
  destruct E2 as (C0 & ->). split; [|split].
  - exact (buf_at_alloc_state _ valscap vals TFloat _ Hne C1 C0 (or_intror eq_refl)).
  - exact (same_except_app _ _ _ _ _ _ _ (same_except_set_int st valscap _) (same_except_alloc_state _ vals TFloat _)).
  - reflexivity.
Qed.

(** * Tensor-field stores *)

Definition tensor_var (st : state) (name : string) (out : positive) : Prop :=
  lookup name (env st) = Some (TPointer TTensor, Some (VTensor out)).

Lemma tensor_var_frame st st' vars blks name out :
  same_except st st' vars blks -> ~ In name vars -> tensor_var st name out -> tensor_var st' name out.
Proof. intros (E & _) N L. unfold tensor_var. now rewrite E. Qed.

Definition field_idx_stmt (name : string) (i j : Z) (x : string) : stmt :=
  Assignment (ArrayIndex (ArrayIndex (AttributeAccess (Var name) "indices") (IntegerLiteral i)) (IntegerLiteral j)) (Var x).

(** [out->indices[i][j] = x] *)
Lemma exec_field_idx_inv n st name out i j x ety blk st' tr :
  tensor_var st name out -> pvar st x ety blk -> (j = 0 \/ j = 1) ->
  exec (S n) (field_idx_stmt name i j x) st = Normal st' tr ->
  exists ts p c idx',
    PM.find out (tensors st) = Some ts /\ 0 <= i /\ nth_error (t_idx ts) (Z.to_nat i) = Some (p, c)
    /\ set_nth (t_idx ts) (Z.to_nat i) (if j =? 0 then (VPtr blk 0, c) else (p, VPtr blk 0)) = Some idx'
    /\ st' = with_tensors st (PM.add out (mkTensorS (t_dims ts) idx' (t_vals ts) true) (tensors st)).
Proof.
  intros TV Hp Hj H. unfold field_idx_stmt in H. rewrite exec_assignment in H.
  rewrite eval_rhs_pure in H by reflexivity. rewrite (eval_pvar _ _ _ _ Hp) in H. cbn [bind] in H.
  unfold tensor_var in TV.
  cbn [eval_loc eval] in H. rewrite TV in H. cbn [typed bind attribute_value] in H.
  cbn in H. unfold chk32 in H.
  destruct (in_int32 i); cbn in H; [|discriminate].
  destruct (in_int32 j); cbn in H; [|discriminate].
  unfold tensor_of in H. destruct (PM.find out (tensors st)) as [ts|] eqn:F; cbn in H; [|discriminate].
  destruct (t_output ts); cbn in H; [|discriminate].
  destruct (i <? 0) eqn:I0; [discriminate|]. apply Z.ltb_ge in I0.
  destruct (nth_error (t_idx ts) (Z.to_nat i)) as [[p c]|] eqn:NE; [|discriminate].
  destruct Hj as [-> | ->]; cbn in H.
  - destruct (set_nth (t_idx ts) (Z.to_nat i) (VPtr blk 0, c)) as [idx'|] eqn:SN; [|discriminate].
    inversion H; subst. exists ts, p, c, idx'. auto.
  - destruct (set_nth (t_idx ts) (Z.to_nat i) (p, VPtr blk 0)) as [idx'|] eqn:SN; [|discriminate].
    inversion H; subst. exists ts, p, c, idx'. auto.
Qed.

Lemma set_nth_nth_error {A} (l : list A) : forall n x l', set_nth l n x = Some l' -> nth_error l' n = Some x.
Proof.
  induction l as [|a l IH]; intros n x l' H; destruct n; simpl in H; try discriminate.
  - now inversion H.
  - destruct (set_nth l n x) eqn:E; [|discriminate]. inversion H; subst. simpl. eauto.
Qed.

Definition field_vals_stmt (name x : string) : stmt :=
  Assignment (AttributeAccess (Var name) "vals") (Var x).

(** [out->vals = x] *)
Lemma exec_field_vals_inv n st name out x ety blk st' tr :
  tensor_var st name out -> pvar st x ety blk ->
  exec (S n) (field_vals_stmt name x) st = Normal st' tr ->
  exists ts, PM.find out (tensors st) = Some ts
    /\ st' = with_tensors st (PM.add out (mkTensorS (t_dims ts) (t_idx ts) (VPtr blk 0) true) (tensors st)).
Proof.
  intros TV Hp H. unfold field_vals_stmt in H. rewrite exec_assignment in H.
  rewrite eval_rhs_pure in H by reflexivity. rewrite (eval_pvar _ _ _ _ Hp) in H. cbn [bind] in H.
  unfold tensor_var in TV. cbn [eval_loc eval] in H. rewrite TV in H. cbn in H.
  unfold tensor_of in H. destruct (PM.find out (tensors st)) as [ts|] eqn:F; cbn in H; [|discriminate].
  destruct (t_output ts); cbn in H; [|discriminate]. inversion H; subst. eauto.
Qed.

Lemma same_except_with_tensors st t : same_except st (with_tensors st t) [] [].
Proof. unfold with_tensors. repeat split; auto. cbn. lia. Qed.

(** * write_cleanup, one compressed level: [Append.cleanup] and the stores into the output struct *)

Definition cleanup_rest_block (N : lnames) (name : string) (i : Z) : list stmt :=
  [Assignment (Var (n_crd N)) (ArrayReallocate (Var (n_crd N)) TInteger (Var (n_ptr N)));
   field_idx_stmt name i 0 (n_pos N); field_idx_stmt name i 1 (n_crd N)].

Definition cleanup_level_block (N : lnames) (name : string) (i : Z) (shrink : option expr) : list stmt :=
  (match shrink with
   | Some prev => [Assignment (Var (n_pos N)) (ArrayReallocate (Var (n_pos N)) TInteger (Add prev (IntegerLiteral 1)))]
   | None => []
   end ++ cleanup_rest_block N name i)%list.

Lemma cleanup_level_block_eq t i shrink :
  cleanup_level_stmts (Tensor_id t) (Tensor_name t) i shrink
  = cleanup_level_block (names_of t i) (Tensor_name t) i shrink.
Proof. destruct shrink; reflexivity. Qed.

(** the output struct's level [i] points to blocks [p], [c] *)
Definition out_level (st : state) (out : positive) (i : Z) (p c : positive) : Prop :=
  exists ts, PM.find out (tensors st) = Some ts /\ nth_error (t_idx ts) (Z.to_nat i) = Some (VPtr p 0, VPtr c 0).

Theorem cleanup_rest_refines n st tr0 N name out i pb cb L st' tr :
  names_distinct N [name] -> level_at st N pb cb L -> tensor_var st name out ->
  run_block (S n) (cleanup_rest_block N name i) st tr0 = Normal st' tr ->
  exists cb',
    level_at st' N pb cb' (mkL (s_pos L) (mkBuf (b_cap (s_crd L)) (realloc (b_arr (s_crd L)) (s_cur L))) (s_cur L))
    /\ out_level st' out i pb cb'
    /\ (forall ts, PM.find out (tensors st) = Some ts ->
        exists ts', PM.find out (tensors st') = Some ts' /\ t_vals ts' = t_vals ts /\ t_dims ts' = t_dims ts
                    /\ List.length (t_idx ts') = List.length (t_idx ts))
    /\ same_except st st' [n_crd N] [cb] /\ cb' = next_blk st.
Proof.
  intros ND (BP & BC & Hpc & Hcur) TV H. unfold cleanup_rest_block in H.
  assert (A02 : n_pos N <> n_crd N) by nd_neq ND 0%nat 2%nat.
  assert (A12 : n_poscap N <> n_crd N) by nd_neq ND 1%nat 2%nat.
  assert (A32 : n_crdcap N <> n_crd N) by nd_neq ND 3%nat 2%nat.
  assert (A42 : n_ptr N <> n_crd N) by nd_neq ND 4%nat 2%nat.
  assert (A52 : name <> n_crd N) by nd_neq ND 5%nat 2%nat.
  apply run_block_cons_inv in H. destruct H as (s1 & t1 & E1 & H).
  apply run_block_cons_inv in H. destruct H as (s2 & t2 & E2 & H).
  apply run_block_cons_inv in H. destruct H as (s3 & t3 & E3 & H).
  rewrite run_block_nil in H. inversion H; subst; clear H.
  assert (Hsz : forall v t, eval st (Var (n_ptr N)) = Ok (v, t) -> v = VInt (s_cur L)).
  { intros v t Ev. rewrite (eval_ivar _ _ _ Hcur) in Ev. congruence. }
  pose proof (buf_at_realloc _ _ _ _ _ _ _ _ _ _ _ A32 Hsz BC E1) as (BC1 & S1 & C0 & NB1 & T1).
  assert (BP1 : buf_at s1 (n_poscap N) (n_pos N) TInteger pb (s_pos L)).
  { eapply buf_at_frame; [exact S1| | | |exact BP]; try apply not_in1; auto. }
  assert (Hcur1 : ivar s1 (n_ptr N) (s_cur L)) by (eapply ivar_frame; [exact S1|apply not_in1; auto|exact Hcur]).
  assert (TV1 : tensor_var s1 name out) by (eapply tensor_var_frame; [exact S1|apply not_in1; auto|exact TV]).
  set (cb' := next_blk st) in *.
  assert (Hpb : (pb < cb')%positive) by apply BP.
  assert (Hpc' : pb <> cb') by (intros E; rewrite E in Hpb; exact (Pos.lt_irrefl _ Hpb)).
  eapply exec_field_idx_inv in E2; eauto; [|apply BP1].
  destruct E2 as (ts1 & p1 & c1 & idx1 & F1 & I0 & NE1 & SN1 & ->). cbn [Z.eqb] in SN1.
  set (st2 := with_tensors s1 _) in *.
  pose proof (same_except_with_tensors s1 (tensors st2)) as S2. fold st2 in S2.
  assert (st2eq : st2 = with_tensors s1 (tensors st2)) by reflexivity.
  assert (TV2 : tensor_var st2 name out) by exact TV1.
  assert (BC2 : buf_at st2 (n_crdcap N) (n_crd N) TInteger cb' (mkBuf (b_cap (s_crd L)) (realloc (b_arr (s_crd L)) (s_cur L)))) by exact BC1.
  eapply exec_field_idx_inv in E3; eauto; [|apply BC2].
  destruct E3 as (ts2 & p2 & c2 & idx2 & F2 & _ & NE2 & SN2 & ->). cbn [Z.eqb] in SN2.
  unfold st2, with_tensors in F2. cbn [tensors] in F2. rewrite PM.gss in F2. inversion F2; subst ts2; clear F2.
  cbn [t_idx t_dims t_vals] in *.
  rewrite (set_nth_nth_error _ _ _ _ SN1) in NE2. inversion NE2; subst p2 c2; clear NE2.
  exists cb'. split; [|split; [|split; [|split]]]; auto.
  - split; [|split; [|split]]; auto.
  - eexists. split; [unfold with_tensors; cbn [tensors]; apply PM.gss|]. cbn [t_idx].
    exact (set_nth_nth_error _ _ _ _ SN2).
  - intros ts F. rewrite T1 in F1. rewrite F in F1. inversion F1; subst ts1; clear F1.
    eexists. split; [unfold with_tensors; cbn [tensors]; apply PM.gss|]. cbn [t_vals t_dims t_idx].
    repeat split; auto.
    assert (LEN : forall (l : list (value * value)) k x l', set_nth l k x = Some l' -> List.length l' = List.length l).
    { induction l as [|a l IH]; intros k x l' Hs; destruct k; simpl in Hs; try discriminate.
      - now inversion Hs.
      - destruct (set_nth l k x) eqn:E; [|discriminate]. inversion Hs; subst. simpl. f_equal. eauto. }
    rewrite (LEN _ _ _ _ SN2), (LEN _ _ _ _ SN1). reflexivity.
Qed.

(** the pos array shrunk to [prev + 1] (not emitted when everything above is dense) *)
Theorem pos_shrink_refines n st N prev_e prev tp pb cb L st' tr :
  names_distinct N [] -> level_at st N pb cb L -> eval st prev_e = Ok (VInt prev, tp) ->
  exec (S n) (Assignment (Var (n_pos N)) (ArrayReallocate (Var (n_pos N)) TInteger (Add prev_e (IntegerLiteral 1)))) st
    = Normal st' tr ->
  level_at st' N (next_blk st) cb
    (mkL (mkBuf (b_cap (s_pos L)) (realloc (b_arr (s_pos L)) (prev + 1))) (s_crd L) (s_cur L))
  /\ same_except st st' [n_pos N] [pb] /\ tensors st' = tensors st.
Proof.
  intros ND (BP & BC & Hpc & Hcur) Ep H.
  assert (A10 : n_poscap N <> n_pos N) by nd_neq ND 1%nat 0%nat.
  assert (A20 : n_crd N <> n_pos N) by nd_neq ND 2%nat 0%nat.
  assert (A30 : n_crdcap N <> n_pos N) by nd_neq ND 3%nat 0%nat.
  assert (A40 : n_ptr N <> n_pos N) by nd_neq ND 4%nat 0%nat.
  assert (Hsz : forall v t, eval st (Add prev_e (IntegerLiteral 1)) = Ok (v, t) -> v = VInt (prev + 1)).
  { intros v t Ev. rewrite eval_add, Ep, eval_lit in Ev. cbn in Ev. unfold chk32 in Ev.
    destruct (in_int32 (prev + 1)); cbn in Ev; congruence. }
  pose proof (buf_at_realloc _ _ _ _ _ _ _ _ _ _ _ A10 Hsz BP H) as (BP1 & S1 & C0 & NB1 & T1).
  assert (Hcb : (cb < next_blk st)%positive) by apply BC.
  split; [|split]; auto. split; [|split; [|split]]; auto.
  - eapply buf_at_frame; [exact S1| | | |exact BC]; try apply not_in1; auto.
  - intros E. rewrite <- E in Hcb. exact (Pos.lt_irrefl _ Hcb).
  - eapply ivar_frame; [exact S1|apply not_in1; auto|exact Hcur].
Qed.

(** the value array shrunk to its final size and stored into the output struct *)
Definition cleanup_vals_block (valsv name : string) (padded : option expr) : list stmt :=
  (match padded with
   | Some p => [Assignment (Var valsv) (ArrayReallocate (Var valsv) TFloat p)]
   | None => []
   end ++ [field_vals_stmt name valsv])%list.

Lemma cleanup_vals_block_eq name padded :
  cleanup_vals_stmts name padded = cleanup_vals_block (vname (vals_name name)) name padded.
Proof. destruct padded; reflexivity. Qed.

Theorem cleanup_vals_refines n st tr0 valscap valsv name out padded c vb B st' tr :
  valscap <> valsv -> name <> valsv -> buf_at st valscap valsv TFloat vb B -> tensor_var st name out ->
  (forall v t, eval st padded = Ok (v, t) -> v = VInt c) ->
  run_block (S n) (cleanup_vals_block valsv name (Some padded)) st tr0 = Normal st' tr ->
  buf_at st' valscap valsv TFloat (next_blk st) (mkBuf (b_cap B) (realloc (b_arr B) c))
  /\ (forall ts, PM.find out (tensors st) = Some ts ->
      PM.find out (tensors st') = Some (mkTensorS (t_dims ts) (t_idx ts) (VPtr (next_blk st) 0) true))
  /\ same_except st st' [valsv] [vb] /\ 0 <= c.
Proof.
  intros Hne Hnn BV TV Hsz H. unfold cleanup_vals_block in H. cbn [app] in H.
  apply run_block_cons_inv in H. destruct H as (s1 & t1 & E1 & H).
  apply run_block_cons_inv in H. destruct H as (s2 & t2 & E2 & H).
  rewrite run_block_nil in H. inversion H; subst; clear H.
  pose proof (buf_at_realloc _ _ _ _ _ _ _ _ _ _ _ Hne Hsz BV E1) as (BV1 & S1 & C0 & NB1 & T1).
  assert (TV1 : tensor_var s1 name out) by (eapply tensor_var_frame; [exact S1|apply not_in1; auto|exact TV]).
  eapply exec_field_vals_inv in E2; eauto; [|apply BV1].
  destruct E2 as (ts1 & F1 & ->). split; [|split; [|split]]; auto.
  intros ts F. rewrite T1, F in F1. inversion F1; subst ts1. unfold with_tensors; cbn [tensors]. apply PM.gss.
Qed.

(** * Frames along sequences of fragments: everything outside this level's variables and outside its two
      blocks ([pb], and the crd block, which moves from [cb] to [cb']) is untouched *)

Definition frame_lvl (st st' : state) (vars : list string) (pb cb cb' : positive) : Prop :=
  (forall y, ~ In y vars -> lookup y (env st') = lookup y (env st)) /\
  (forall b, b <> pb -> b <> cb -> (b < next_blk st)%positive ->
             PM.find b (heap st') = PM.find b (heap st) /\ b <> cb') /\
  (next_blk st <= next_blk st')%positive /\ tensors st' = tensors st.

Lemma frame_lvl_refl st vars pb cb : frame_lvl st st vars pb cb cb.
Proof. repeat split; auto. lia. Qed.

Lemma frame_lvl_trans a b c vars pb c0 c1 c2 :
  frame_lvl a b vars pb c0 c1 -> frame_lvl b c vars pb c1 c2 -> frame_lvl a c vars pb c0 c2.
Proof.
  intros (E1 & H1 & N1 & T1) (E2 & H2 & N2 & T2). repeat split.
  - intros y Y. rewrite E2, E1; auto.
  - destruct (H1 b0 H H0 H3) as [F1 D1]. destruct (H2 b0 H D1 ltac:(lia)) as [F2 D2]. congruence.
  - destruct (H1 b0 H H0 H3) as [F1 D1]. destruct (H2 b0 H D1 ltac:(lia)) as [F2 D2]. exact D2.
  - lia.
  - congruence.
Qed.

Lemma frame_lvl_of_same_except st st' vars' blks' vars pb cb cb' :
  same_except st st' vars' blks' -> incl vars' vars -> (forall b, In b blks' -> b = cb \/ b = pb) ->
  (cb' = cb \/ (next_blk st <= cb')%positive) -> tensors st' = tensors st ->
  frame_lvl st st' vars pb cb cb'.
Proof.
  intros (E & H & N) I B C T. repeat split; auto.
  - apply H; auto. intros X. apply B in X. destruct X; congruence.
  - intros ->. destruct C as [->|C]; [congruence|]. lia.
Qed.

Lemma buf_at_frame_lvl st st' vars pb cb cb' capv arrv ety blk B :
  frame_lvl st st' vars pb cb cb' -> ~ In capv vars -> ~ In arrv vars -> blk <> pb -> blk <> cb ->
  buf_at st capv arrv ety blk B -> buf_at st' capv arrv ety blk B /\ blk <> cb'.
Proof.
  intros (E & H & N & T) N1 N2 D1 D2 (Hc & [Hp He] & Hlt & bl & Hf & R).
  destruct (H blk D1 D2 Hlt) as [F D]. split; auto.
  split; [destruct Hc as [L I]; split; auto; now rewrite E|]. split; [split; auto; now rewrite E|]. split; [lia|].
  exists bl. split; auto. now rewrite F.
Qed.

Lemma tensor_var_frame_lvl st st' vars pb cb cb' name out :
  frame_lvl st st' vars pb cb cb' -> ~ In name vars -> tensor_var st name out -> tensor_var st' name out.
Proof. intros (E & _) N L. unfold tensor_var. now rewrite E. Qed.

Definition lvl_vars (N : lnames) (ix : string) : list string := [n_pos N; n_poscap N; n_crd N; n_crdcap N; n_ptr N; ix].

Lemma append_stmt_no_field_store N ix : no_field_store (append_stmt N ix) = true.
Proof. reflexivity. Qed.

(** [append_refines] with its frame *)
Theorem append_refines_frame n st N ix c pb cb L st' tr :
  names_distinct N [ix] -> level_at st N pb cb L -> ivar st ix c ->
  exec (S (S (S (S (S n))))) (append_stmt N ix) st = Normal st' tr ->
  exists L' cb', append L c = Some L' /\ level_at st' N pb cb' L' /\ ivar st' ix c
                 /\ frame_lvl st st' (lvl_vars N ix) pb cb cb'.
Proof.
  intros ND LA Hix H.
  pose proof (no_field_store_sound (S (S (S (S (S n))))) _ st (append_stmt_no_field_store N ix)) as T. rewrite H in T. cbn in T.
  unfold append_stmt in H. rewrite exec_block in H.
  apply run_block_cons_inv in H. destruct H as (st1 & t1 & E1 & H).
  apply run_block_cons_inv in H. destruct H as (st2 & t2 & E2 & H). rewrite run_block_nil in H. inversion H; subst; clear H.
  pose proof (no_field_store_sound (S (S (S (S n)))) _ st (eq_refl : no_field_store (crd_assembly_stmt N ix) = true)) as T1. rewrite E1 in T1. cbn in T1.
  eapply crd_assembly_refines in E1; eauto. destruct E1 as (L1 & cb1 & CA & LA1 & Hix1 & S1 & Hcb1).
  rewrite increment_stmt_eq in E2. pose proof LA1 as (BP1 & BC1 & Hpc1 & Hcur1).
  eapply exec_assign_int_inv in E2; eauto. destruct E2 as (z & t & Ez & I32 & ->).
  rewrite eval_add, (eval_ivar _ _ _ Hcur1), eval_lit in Ez. cbn in Ez. unfold chk32 in Ez.
  destruct (in_int32 (s_cur L1 + 1)); cbn in Ez; [|discriminate]. inversion Ez; subst z t; clear Ez.
  assert (P0 : n_pos N <> n_ptr N) by nd_neq ND 0%nat 4%nat.
  assert (P1 : n_poscap N <> n_ptr N) by nd_neq ND 1%nat 4%nat.
  assert (P2 : n_crd N <> n_ptr N) by nd_neq ND 2%nat 4%nat.
  assert (P3 : n_crdcap N <> n_ptr N) by nd_neq ND 3%nat 4%nat.
  assert (P5 : ix <> n_ptr N) by nd_neq ND 5%nat 4%nat.
  assert (LA2 : level_at (set_int st1 (n_ptr N) (s_cur L1 + 1)) N pb cb1 (mkL (s_pos L1) (s_crd L1) (s_cur L1 + 1))).
  { split; [|split; [|split]]; auto.
    + eapply buf_at_frame; [apply same_except_set_int| | | |exact BP1]; try apply not_in1; auto.
    + eapply buf_at_frame; [apply same_except_set_int| | | |exact BC1]; try apply not_in1; auto.
    + now apply ivar_set_int_same. }
  exists (mkL (s_pos L1) (s_crd L1) (s_cur L1 + 1)), cb1. split; [|split; [|split]]; auto.
  - unfold append. now rewrite CA.
  - eapply ivar_frame; [apply same_except_set_int|apply not_in1; auto|exact Hix1].
  - eapply frame_lvl_trans with (c1 := cb1).
    + eapply frame_lvl_of_same_except; [exact S1| | | |exact T1].
      * intros y [<-|[<-|[]]]; unfold lvl_vars; cbn [In]; tauto.
      * intros b [<-|[]]. now left.
      * destruct Hcb1 as [->| ->]; [now left|right; lia].
    + eapply frame_lvl_of_same_except; [apply same_except_set_int| | | |reflexivity].
      * intros y [<-|[]]; unfold lvl_vars; cbn [In]; tauto.
      * intros b [].
      * now left.
Qed.

Theorem run_segs_refines_frame n N ix : forall segs parent st tr0 c0 pb cb L st' tr,
  names_distinct N [ix] -> level_at st N pb cb L -> ivar st ix c0 ->
  run_block (S (S (S (S (S n))))) (segs_stmts N ix parent segs) st tr0 = Normal st' tr ->
  exists L' cb' c1, run_segs L parent segs = Some L' /\ level_at st' N pb cb' L' /\ ivar st' ix c1
                    /\ frame_lvl st st' (lvl_vars N ix) pb cb cb'.
Proof.
  assert (SEG : forall cs st tr0 c0 pb cb L st' tr,
    names_distinct N [ix] -> level_at st N pb cb L -> ivar st ix c0 ->
    run_block (S (S (S (S (S n))))) (segment_stmts N ix cs) st tr0 = Normal st' tr ->
    exists L' cb' c1, append_all L cs = Some L' /\ level_at st' N pb cb' L' /\ ivar st' ix c1
                      /\ frame_lvl st st' (lvl_vars N ix) pb cb cb').
  { induction cs as [|c cs IH]; intros st tr0 c0 pb cb L st' tr ND LA Hix H.
    - cbn [segment_stmts] in H. rewrite run_block_nil in H. inversion H; subst. exists L, cb, c0.
      split; [reflexivity|]. split; [exact LA|]. split; [exact Hix|apply frame_lvl_refl].
    - cbn [segment_stmts] in H.
      apply run_block_cons_inv in H. destruct H as (st1 & t1 & E1 & H).
      apply run_block_cons_inv in H. destruct H as (st2 & t2 & E2 & H).
      eapply exec_assign_int_inv in E1; eauto. destruct E1 as (z & t & Ez & I32 & ->).
      rewrite eval_lit in Ez. unfold chk32 in Ez. destruct (in_int32 c); cbn in Ez; [|discriminate].
      inversion Ez; subst z t; clear Ez.
      assert (LA1 : level_at (set_int st ix c) N pb cb L).
      { eapply level_at_frame; eauto using same_except_set_int; intros [X|[]].
        - revert X. nd_neq ND 5%nat 0%nat.
        - revert X. nd_neq ND 5%nat 1%nat.
        - revert X. nd_neq ND 5%nat 2%nat.
        - revert X. nd_neq ND 5%nat 3%nat.
        - revert X. nd_neq ND 5%nat 4%nat. }
      eapply append_refines_frame in E2; eauto using ivar_set_int_same.
      destruct E2 as (L1 & cb1 & A1 & LA2 & Hix2 & F2).
      eapply IH in H; eauto. destruct H as (L' & cb' & c1 & A2 & LA' & Hix' & F').
      exists L', cb', c1. cbn [append_all]. rewrite A1. split; [exact A2|]. split; [exact LA'|]. split; [exact Hix'|].
      eapply frame_lvl_trans; [|exact F']. eapply frame_lvl_trans; [|exact F2].
      eapply frame_lvl_of_same_except; [apply same_except_set_int| | | |reflexivity].
      + intros y [<-|[]]; unfold lvl_vars; cbn [In]; tauto.
      + intros b [].
      + now left. }
  induction segs as [|s segs IH]; intros parent st tr0 c0 pb cb L st' tr ND LA Hix H.
  - cbn [segs_stmts] in H. rewrite run_block_nil in H. inversion H; subst. exists L, cb, c0.
    split; [reflexivity|]. split; [exact LA|]. split; [exact Hix|apply frame_lvl_refl].
  - cbn [segs_stmts] in H.
    apply run_block_app in H. destruct H as (st2 & t2 & H1 & H2).
    apply run_block_app in H1. destruct H1 as (st1 & t1 & H0 & H1).
    eapply SEG in H0; eauto. destruct H0 as (L1 & cb1 & c1 & A1 & LA1 & Hix1 & F1).
    apply run_block_cons_inv in H1. destruct H1 as (st1' & t1' & E & H1). rewrite run_block_nil in H1. inversion H1; subst; clear H1.
    pose proof (no_field_store_sound (S (S (S (S (S n))))) _ st1 (eq_refl : no_field_store (pos_assembly_stmt N (IntegerLiteral parent)) = true)) as TT.
    rewrite E in TT. cbn in TT.
    assert (exists tp, eval st1 (IntegerLiteral parent) = Ok (VInt parent, tp)) as (tp & Ep).
    { destruct (eval st1 (IntegerLiteral parent)) as [[v t]|e] eqn:Ev.
      - rewrite eval_lit in Ev. unfold chk32 in Ev. destruct (in_int32 parent); cbn in Ev; [|discriminate].
        inversion Ev; subst. eauto.
      - exfalso. unfold pos_assembly_stmt in E. rewrite exec_block, run_block_cons, exec_assignment in E.
        rewrite eval_rhs_pure in E by reflexivity. pose proof LA1 as (_ & _ & _ & Hcur).
        rewrite (eval_ivar _ _ _ Hcur) in E. cbn [bind eval_loc] in E.
        destruct LA1 as ((_ & Hp & _) & _). rewrite (eval_pvar _ _ _ _ Hp) in E. cbn [bind] in E.
        rewrite eval_add, Ev in E. cbn in E. discriminate. }
    eapply pos_assembly_refines in E; eauto using names_distinct_drop.
    destruct E as (L2 & PA & LA2 & S2).
    assert (Hix2 : ivar st2 ix c1) by (eapply ivar_frame; eauto).
    eapply IH in H2; eauto. destruct H2 as (L' & cb' & c2 & R & LA' & Hix' & F').
    exists L', cb', c2. cbn [run_segs]. rewrite A1, PA. split; [exact R|]. split; [exact LA'|]. split; [exact Hix'|].
    eapply frame_lvl_trans; [exact F1|]. eapply frame_lvl_trans; [|exact F'].
    eapply frame_lvl_of_same_except; [exact S2| | | |exact TT].
    + intros y [].
    + intros b [<-|[]]. now right.
    + now left.
Qed.

(** * The whole life of a compressed output vector, from the harness' initial state *)

Lemma names_distinct_sub N o o' : names_distinct N o -> NoDup o' -> incl o' o -> names_distinct N o'.
Proof.
  unfold names_distinct. generalize [n_pos N; n_poscap N; n_crd N; n_crdcap N; n_ptr N]. intros l.
  induction l as [|a l IH]; intros H ND I; cbn [app] in *; auto.
  inversion H; subst. constructor; auto.
  intros X. apply H2. apply in_app_or in X. apply in_or_app. destruct X; auto.
Qed.

Lemma exec_dcl_any_inv n st x t e st' tr :
  is_alloc_form e = false -> exec (S n) (dcl (Var x) t e) st = Normal st' tr ->
  exists v, st' = with_env st (set_var x (t, Some v) (env st)).
Proof.
  intros A H. rewrite exec_dcl, eval_rhs_pure in H by auto.
  destruct (eval st e) as [[v tt]|]; cbn [bind] in H; [|discriminate].
  destruct (coerce t v); [|discriminate]. inversion H; subst. eauto.
Qed.

Lemma same_except_set_var st x d : same_except st (with_env st (set_var x d (env st))) [x] [].
Proof.
  repeat split.
  - intros y Y. cbn [env with_env]. rewrite lookup_set_var. destruct (String.eqb y x) eqn:E; auto.
    apply String.eqb_eq in E. subst. exfalso. apply Y. now left.
  - unfold with_env; cbn [next_blk]. lia.
Qed.

Lemma contents_inv a : forall l, contents a = Some l -> a = map Some l.
Proof.
  induction a as [|[v|] a IH]; intros l H; cbn in H; try discriminate.
  - now inversion H.
  - destruct (contents a) eqn:E; [|discriminate]. inversion H; subst. cbn. f_equal. auto.
Qed.

(** the statements generate_ir emits before the output's declarations ("Unpack tensors", for the output
    tensor; iteration_graph/_generate_ir.py is not translated: this is a transcription) *)
Definition unpack_out (name : string) : list stmt :=
  [dcl (pos_name name 0) (TPointer TInteger)
       (ArrayIndex (ArrayIndex (AttributeAccess (Var name) "indices") (IntegerLiteral 0)) (IntegerLiteral 0));
   dcl (crd_name name 0) (TPointer TInteger)
       (ArrayIndex (ArrayIndex (AttributeAccess (Var name) "indices") (IntegerLiteral 0)) (IntegerLiteral 1));
   dcl (vals_name name) (TPointer TFloat) (AttributeAccess (Var name) "vals")].

Definition vector_tensor (id name ix : string) : Tensor := MkTensor id name [ix] [Mode_compressed].

(** declarations (regenerated) ; the coordinates of one segment through the emitted append fragments and
    the emitted pos assembly ; cleanup (regenerated) *)
Definition vector_body (id name ix : string) (seg : list Z) (d c : sb) : list stmt :=
  (unpack_out name ++ [sb_finalize d; dcl (Var ix) TInteger (IntegerLiteral 0)]
   ++ segs_stmts (names_of (vector_tensor id name ix) 0) ix 0 [seg] ++ [sb_finalize c])%list.

(** the state in which [IRSem.call] starts the body of a kernel whose only parameter is the output *)
Definition vector_init (name : string) (dims : list Z) : state :=
  with_env (fst (IRRun.init_state [IRRun.mkTin dims [Some ([], [])] [] true]))
           [(name, (TPointer TTensor, Some (VTensor 1%positive)))].

Lemma vector_init_is_call_state name dims :
  bind_params [Declaration (Var name) (TPointer TTensor)] (snd (IRRun.init_state [IRRun.mkTin dims [Some ([], [])] [] true])) []
  = Ok (env (vector_init name dims)).
Proof. reflexivity. Qed.

Definition block_is (st : state) (b : positive) (l : list Z) : Prop :=
  exists bl, PM.find b (heap st) = Some bl /\ b_live bl = true /\ b_len bl = zlen l /\ arr_of bl = map Some l.

Lemma buf_at_block_is st capv arrv ety blk B l : buf_at st capv arrv ety blk B -> b_arr B = map Some l -> block_is st blk l.
Proof.
  intros (_ & _ & _ & bl & Hf & Hl & _ & _ & Hlen & _ & Harr) E. exists bl. repeat split; auto.
  - rewrite <- (zlen_arr_of bl Hlen), <- Harr, E. unfold zlen. now rewrite map_length.
  - congruence.
Qed.

Theorem vector_life n cap id name ix seg dims d c st' tr :
  let t := vector_tensor id name ix in
  let N := names_of t 0 in
  names_distinct N [ix; name; vname (vals_capacity_name name); vname (vals_name name)] ->
  1 <= cap_value cap ->
  AppendOutput_write_declarations cap (MkAppendOutput t 0) KernelType_assemble = Some d ->
  AppendOutput_write_cleanup (MkAppendOutput t 0) KernelType_assemble = Some c ->
  run_block (S (S (S (S (S (S n)))))) (vector_body id name ix seg d c) (vector_init name dims) [] = Normal st' tr ->
  exists pb cb ts,
    run_level PFixed (cap_value cap) [mkVisit [seg] true] = Some ([0; zlen seg], seg)
    /\ PM.find 1%positive (tensors st') = Some ts
    /\ t_idx ts = [(VPtr pb 0, VPtr cb 0)]
    /\ block_is st' pb [0; zlen seg] /\ block_is st' cb seg.
Proof.
  intros t N ND Hcap Hd Hc H.
  set (valscap := vname (vals_capacity_name name)) in *. set (valsv := vname (vals_name name)) in *.
  assert (NDix : names_distinct N [ix]).
  { eapply names_distinct_sub; [exact ND|repeat constructor; intros []|]. intros x [<-|[]]. now left. }
  assert (NDname : names_distinct N [name]).
  { eapply names_distinct_sub; [exact ND|repeat constructor; intros []|]. intros x [<-|[]]. right. now left. }
  assert (ND0 : names_distinct N []) by now apply names_distinct_drop in NDix.
  pose proof ND as NDall. unfold names_distinct in NDall. cbn [app] in NDall.
  assert (Q : forall i j a b, nth_error [n_pos N; n_poscap N; n_crd N; n_crdcap N; n_ptr N; ix; name; valscap; valsv] i = Some a ->
                              nth_error [n_pos N; n_poscap N; n_crd N; n_crdcap N; n_ptr N; ix; name; valscap; valsv] j = Some b -> i <> j -> a <> b).
  { intros. eapply nodup_neq; eauto. }
  (* shapes of the regenerated emitters *)
  assert (SD' : sb_lines d = (decl_level_block N (Add one one) cap ++ decl_vals_block valscap valsv cap)%list).
  { pose proof (gen_declarations_c cap id name ix KernelType_assemble eq_refl) as SD.
    change (MkTensor id name [ix] [Mode_compressed]) with t in SD. rewrite Hd in SD.
    cbn [option_map] in SD. injection SD as SD. rewrite SD. reflexivity. }
  assert (SC' : sb_lines c = (cleanup_rest_block N name 0
                              ++ cleanup_vals_block valsv name (Some (Add (Var (n_ptr N)) (IntegerLiteral 1))))%list).
  { pose proof (gen_cleanup_c id name ix KernelType_assemble eq_refl) as SC.
    change (MkTensor id name [ix] [Mode_compressed]) with t in SC. rewrite Hc in SC.
    cbn [option_map] in SC. injection SC as SC. rewrite SC. reflexivity. }
  unfold vector_body in H. fold t N in H.
  (* unpack *)
  unfold unpack_out in H. cbn [app] in H.
  apply run_block_cons_inv in H. destruct H as (u1 & t1 & E1 & H).
  apply run_block_cons_inv in H. destruct H as (u2 & t2 & E2 & H).
  apply run_block_cons_inv in H. destruct H as (u3 & t3 & E3 & H).
  apply exec_dcl_any_inv in E1; [|reflexivity]. destruct E1 as (v1 & ->).
  apply exec_dcl_any_inv in E2; [|reflexivity]. destruct E2 as (v2 & ->).
  apply exec_dcl_any_inv in E3; [|reflexivity]. destruct E3 as (v3 & ->).
  set (s0 := vector_init name dims) in *.
  set (s1 := with_env s0 _) in *. set (s2 := with_env s1 _) in *. set (s3 := with_env s2 _) in *.
  pose proof (same_except_set_var s0 (n_pos N) (TPointer TInteger, Some v1)) as U1. fold s1 in U1.
  pose proof (same_except_set_var s1 (n_crd N) (TPointer TInteger, Some v2)) as U2. fold s2 in U2.
  pose proof (same_except_set_var s2 valsv (TPointer TFloat, Some v3)) as U3. fold s3 in U3.
  assert (TV0 : tensor_var s0 name 1%positive) by (unfold tensor_var, s0, vector_init; cbn; now rewrite String.eqb_refl).
  assert (TV3 : tensor_var s3 name 1%positive).
  { eapply tensor_var_frame; [exact U3|apply not_in1; apply (Q 6%nat 8%nat); auto; lia|].
    eapply tensor_var_frame; [exact U2|apply not_in1; apply (Q 6%nat 2%nat); auto; lia|].
    eapply tensor_var_frame; [exact U1|apply not_in1; apply (Q 6%nat 0%nat); auto; lia|exact TV0]. }
  assert (DP3 : declared_ptr s3 (n_pos N) TInteger).
  { eapply declared_ptr_frame; [exact U3|apply not_in1; apply (Q 0%nat 8%nat); auto; lia|].
    eapply declared_ptr_frame; [exact U2|apply not_in1; apply (Q 0%nat 2%nat); auto; lia|].
    eexists. unfold s1; cbn [env with_env]. rewrite lookup_set_var, String.eqb_refl. reflexivity. }
  assert (DC3 : declared_ptr s3 (n_crd N) TInteger).
  { eapply declared_ptr_frame; [exact U3|apply not_in1; apply (Q 2%nat 8%nat); auto; lia|].
    eexists. unfold s2; cbn [env with_env]. rewrite lookup_set_var, String.eqb_refl. reflexivity. }
  assert (DV3 : declared_ptr s3 valsv TFloat).
  { eexists. unfold s3; cbn [env with_env]. rewrite lookup_set_var, String.eqb_refl. reflexivity. }
  assert (TS3 : tensors s3 = tensors s0) by reflexivity.
  (* declarations *)
  apply run_block_cons_inv in H. destruct H as (s4 & t4 & E4 & H).
  unfold sb_finalize in E4. rewrite exec_block, SD' in E4.
  apply run_block_app in E4. destruct E4 as (s4a & t4a & E4a & E4b).
  eapply decl_level_refines with (ps := 2) in E4a; eauto; try reflexivity.
  destruct E4a as (L0 & pb & cb & D0 & LA0 & S4a & Hcb4 & T4a).
  assert (DV4 : declared_ptr s4a valsv TFloat).
  { eapply declared_ptr_frame; [exact S4a| |exact DV3].
    intros [X|[X|[X|[X|[X|[]]]]]]; revert X;
      [apply (Q 1%nat 8%nat)|apply (Q 0%nat 8%nat)|apply (Q 3%nat 8%nat)|apply (Q 2%nat 8%nat)|apply (Q 4%nat 8%nat)]; auto; lia. }
  assert (TV4 : tensor_var s4a name 1%positive).
  { eapply tensor_var_frame; [exact S4a| |exact TV3].
    intros [X|[X|[X|[X|[X|[]]]]]]; revert X;
      [apply (Q 1%nat 6%nat)|apply (Q 0%nat 6%nat)|apply (Q 3%nat 6%nat)|apply (Q 2%nat 6%nat)|apply (Q 4%nat 6%nat)]; auto; lia. }
  eapply decl_vals_refines in E4b; eauto; [|apply (Q 7%nat 8%nat); auto; lia].
  destruct E4b as (BV4 & S4b & T4b).
  set (vb := next_blk s4a) in *.
  assert (NIv : forall x, x <> valscap -> x <> valsv -> ~ In x [valscap; valsv]) by (intros x A B [X|[X|[]]]; congruence).
  assert (LA4 : level_at s4 N pb cb L0).
  { eapply level_at_frame; [exact S4b| | | | | |exact LA0]; apply NIv;
      solve [apply (Q 0%nat 7%nat); auto; lia|apply (Q 0%nat 8%nat); auto; lia|apply (Q 1%nat 7%nat); auto; lia
            |apply (Q 1%nat 8%nat); auto; lia|apply (Q 2%nat 7%nat); auto; lia|apply (Q 2%nat 8%nat); auto; lia
            |apply (Q 3%nat 7%nat); auto; lia|apply (Q 3%nat 8%nat); auto; lia|apply (Q 4%nat 7%nat); auto; lia
            |apply (Q 4%nat 8%nat); auto; lia]. }
  assert (TV4b : tensor_var s4 name 1%positive).
  { eapply tensor_var_frame; [exact S4b|apply NIv; [apply (Q 6%nat 7%nat)|apply (Q 6%nat 8%nat)]; auto; lia|exact TV4]. }
  assert (Hpbv : pb <> vb /\ cb <> vb).
  { destruct LA0 as (BP & BC & _). destruct BP as (_ & _ & Lp & _). destruct BC as (_ & _ & Lc & _). fold vb in Lp, Lc.
    split; intros E; rewrite E in *; eapply Pos.lt_irrefl; eauto. }
  destruct Hpbv as [Hpv Hcv].
  (* the index variable *)
  apply run_block_cons_inv in H. destruct H as (s5 & t5 & E5 & H).
  apply exec_dcl_int_inv in E5; [|reflexivity]. destruct E5 as (z & tz & Ez & _ & ->).
  rewrite eval_lit in Ez. cbn in Ez. inversion Ez; subst z tz; clear Ez.
  pose proof (same_except_set_int s4 ix 0) as S5.
  assert (LA5 : level_at (set_int s4 ix 0) N pb cb L0).
  { eapply level_at_frame; [exact S5| | | | | |exact LA4]; apply not_in1;
      [apply (Q 0%nat 5%nat)|apply (Q 1%nat 5%nat)|apply (Q 2%nat 5%nat)|apply (Q 3%nat 5%nat)|apply (Q 4%nat 5%nat)]; auto; lia. }
  assert (BV5 : buf_at (set_int s4 ix 0) valscap valsv TFloat vb (mkBuf (cap_value cap) (alloc (cap_value cap)))).
  { eapply buf_at_frame; [exact S5| | |intros []|exact BV4]; apply not_in1; [apply (Q 7%nat 5%nat)|apply (Q 8%nat 5%nat)]; auto; lia. }
  assert (TV5 : tensor_var (set_int s4 ix 0) name 1%positive).
  { eapply tensor_var_frame; [exact S5|apply not_in1; apply (Q 6%nat 5%nat); auto; lia|exact TV4b]. }
  (* the segment *)
  apply run_block_app in H. destruct H as (s6 & t6 & E6 & H).
  eapply run_segs_refines_frame in E6; eauto using ivar_set_int_same.
  destruct E6 as (L1 & cb1 & c1 & R1 & LA6 & _ & F6).
  assert (NIl : forall x, ~ In x (lvl_vars N ix) <-> (x <> n_pos N /\ x <> n_poscap N /\ x <> n_crd N /\ x <> n_crdcap N /\ x <> n_ptr N /\ x <> ix)).
  { intros x. unfold lvl_vars. cbn [In]. intuition congruence. }
  assert (NV7 : ~ In valscap (lvl_vars N ix)).
  { apply NIl; repeat split; [apply (Q 7%nat 0%nat)|apply (Q 7%nat 1%nat)|apply (Q 7%nat 2%nat)|apply (Q 7%nat 3%nat)|apply (Q 7%nat 4%nat)|apply (Q 7%nat 5%nat)]; solve [reflexivity|lia]. }
  assert (NV8 : ~ In valsv (lvl_vars N ix)).
  { apply NIl; repeat split; [apply (Q 8%nat 0%nat)|apply (Q 8%nat 1%nat)|apply (Q 8%nat 2%nat)|apply (Q 8%nat 3%nat)|apply (Q 8%nat 4%nat)|apply (Q 8%nat 5%nat)]; solve [reflexivity|lia]. }
  destruct (buf_at_frame_lvl _ _ _ _ _ _ _ _ _ _ _ F6 NV7 NV8 (not_eq_sym Hpv) (not_eq_sym Hcv) BV5) as [BV6 Hv1].
  assert (TV6 : tensor_var s6 name 1%positive).
  { eapply tensor_var_frame_lvl; [exact F6| |exact TV5].
    apply NIl; repeat split; [apply (Q 6%nat 0%nat)|apply (Q 6%nat 1%nat)|apply (Q 6%nat 2%nat)|apply (Q 6%nat 3%nat)|apply (Q 6%nat 4%nat)|apply (Q 6%nat 5%nat)]; solve [reflexivity|lia]. }
  assert (T6 : tensors s6 = tensors s0).
  { destruct F6 as (_ & _ & _ & T6). rewrite T6. transitivity (tensors s4); [reflexivity|]. rewrite T4b, T4a. exact TS3. }
  (* cleanup *)
  apply run_block_cons_inv in H. destruct H as (s7 & t7 & E7 & H). rewrite run_block_nil in H. inversion H; subst; clear H.
  unfold sb_finalize in E7. rewrite exec_block, SC' in E7.
  apply run_block_app in E7. destruct E7 as (s7a & t7a & E7a & E7b).
  eapply cleanup_rest_refines in E7a; eauto.
  destruct E7a as (cb2 & LA7 & OL7 & TS7 & S7 & Hcb2).
  assert (BV7 : buf_at s7a valscap valsv TFloat vb (mkBuf (cap_value cap) (alloc (cap_value cap)))).
  { eapply buf_at_frame; [exact S7| | | |exact BV6]; apply not_in1; auto; [apply (Q 7%nat 2%nat)|apply (Q 8%nat 2%nat)]; auto; lia. }
  assert (TV7 : tensor_var s7a name 1%positive).
  { eapply tensor_var_frame; [exact S7|apply not_in1; apply (Q 6%nat 2%nat); auto; lia|exact TV6]. }
  pose proof LA7 as (_ & _ & _ & Hcur7). cbn [s_cur] in Hcur7.
  eapply cleanup_vals_refines with (c := s_cur L1 + 1) in E7b; eauto;
    [|apply (Q 7%nat 8%nat); auto; lia|apply (Q 6%nat 8%nat); auto; lia|].
  2:{ intros v tv Ev. rewrite eval_add, (eval_ivar _ _ _ Hcur7), eval_lit in Ev. cbn in Ev. unfold chk32 in Ev.
      destruct (in_int32 (s_cur L1 + 1)); cbn in Ev; congruence. }
  destruct E7b as (BV8 & TS8 & S8 & _).
  assert (Hv2 : vb <> cb2).
  { destruct BV6 as (_ & _ & Lv & _). rewrite Hcb2. intros E. rewrite E in Lv. exact (Pos.lt_irrefl _ Lv). }
  assert (LA8 : level_at st' N pb cb2 (mkL (s_pos L1) (mkBuf (b_cap (s_crd L1)) (realloc (b_arr (s_crd L1)) (s_cur L1))) (s_cur L1))).
  { destruct LA7 as (BP7 & BC7 & Hpc7 & Hc7). split; [|split; [|split]]; auto.
    - eapply buf_at_frame; [exact S8| | | |exact BP7]; apply not_in1; auto; [apply (Q 1%nat 8%nat)|apply (Q 0%nat 8%nat)]; auto; lia.
    - eapply buf_at_frame; [exact S8| | | |exact BC7]; apply not_in1; auto; [apply (Q 3%nat 8%nat)|apply (Q 2%nat 8%nat)]; auto; lia.
    - eapply ivar_frame; [exact S8|apply not_in1; apply (Q 4%nat 8%nat); auto; lia|exact Hc7]. }
  (* the model's run *)
  pose proof (run_level_spec PFixed (cap_value cap) [mkVisit [seg] true] Hcap eq_refl eq_refl) as RL.
  cbn [stored_segs flat_map v_segs app concat] in RL. rewrite ?app_nil_r in RL.
  assert (PS : pos_of_segs [seg] = [0; zlen seg]) by (unfold pos_of_segs; cbn [offsets]; now rewrite Z.add_0_l).
  rewrite PS in RL. change (List.concat [seg]) with (seg ++ [])%list in RL. rewrite app_nil_r in RL. pose proof RL as RL'.
  unfold run_level in RL'. cbn [flat_map v_segs app] in RL'.
  change (zlen [seg] + 1) with 2 in RL'. rewrite D0 in RL'.
  cbn [run_visits pos_allocation group_size v_segs v_adv] in RL'. change (0 * 0) with 0 in RL'. rewrite R1 in RL'.
  unfold cleanup in RL'. cbn [s_pos s_crd s_cur b_arr b_cap] in RL'.
  destruct (contents (b_arr (s_pos L1))) as [pl|] eqn:CP; [|discriminate].
  destruct (contents (realloc (b_arr (s_crd L1)) (s_cur L1))) as [cl|] eqn:CC; [|discriminate].
  inversion RL'; subst pl cl; clear RL'.
  apply contents_inv in CP. apply contents_inv in CC.
  destruct OL7 as (ts7 & F7 & NE7).
  destruct (TS7 _ ltac:(rewrite T6; unfold s0, vector_init; cbn; reflexivity)) as (ts7' & F7' & V7 & D7 & LEN7).
  rewrite F7 in F7'. inversion F7'; subst ts7'; clear F7'. cbn [t_idx List.length] in LEN7.
  exists pb, cb2, (mkTensorS (t_dims ts7) (t_idx ts7) (VPtr (next_blk s7a) 0) true).
  split; [exact RL|]. split; [apply TS8; exact F7|]. split.
  - cbn [t_idx]. destruct (t_idx ts7) as [|e [|e' r]]; cbn in LEN7, NE7; try discriminate. now inversion NE7.
  - destruct LA8 as (BP8 & BC8 & _). split.
    + eapply buf_at_block_is; [exact BP8|exact CP].
    + eapply buf_at_block_is; [exact BC8|exact CC].
Qed.

(** with C02_append_protocol_wf: the arrays the machine leaves in the output struct are a well-formed
    compressed level whenever the coordinates handed to the fragments are sorted and in range *)
Corollary vector_life_wf n cap id name ix seg dims d c dimsize st' tr :
  let t := vector_tensor id name ix in
  let N := names_of t 0 in
  names_distinct N [ix; name; vname (vals_capacity_name name); vname (vals_name name)] ->
  1 <= cap_value cap -> seg_okb dimsize seg = true ->
  AppendOutput_write_declarations cap (MkAppendOutput t 0) KernelType_assemble = Some d ->
  AppendOutput_write_cleanup (MkAppendOutput t 0) KernelType_assemble = Some c ->
  run_block (S (S (S (S (S (S n)))))) (vector_body id name ix seg d c) (vector_init name dims) [] = Normal st' tr ->
  exists pb cb ts,
    PM.find 1%positive (tensors st') = Some ts /\ t_idx ts = [(VPtr pb 0, VPtr cb 0)]
    /\ block_is st' pb [0; zlen seg] /\ block_is st' cb seg
    /\ wf_compressedb 1 dimsize [0; zlen seg] seg = true.
Proof.
  intros t N ND Hcap Hseg Hd Hc H.
  destruct (vector_life n cap id name ix seg dims d c st' tr ND Hcap Hd Hc H) as (pb & cb & ts & RL & F & I & B1 & B2).
  exists pb, cb, ts. repeat split; auto.
  destruct (append_protocol_wf PFixed (cap_value cap) dimsize [mkVisit [seg] true] Hcap) as (pos & crd & RL' & WF & _).
  { unfold trace_okb. cbn [forallb visit_okb flat_map v_segs app]. rewrite Hseg. reflexivity. }
  rewrite RL in RL'. inversion RL'; subst pos crd. exact WF.
Qed.

(** * Compute kernels, every mode list: the declarations only bind the cursors (link to the compute
      certificates of proofs/Certs.v, Certs2Store.v) *)

Fixpoint compressed_ptr_decls (id : string) (i : Z) (modes : list Mode) : list stmt :=
  match modes with
  | [] => []
  | Mode_dense :: r => compressed_ptr_decls id (i + 1) r
  | Mode_compressed :: r => decl_ptr_stmt id i :: compressed_ptr_decls id (i + 1) r
  end.

Theorem gen_declarations_compute_all cap ao :
  option_map sb_lines (AppendOutput_write_declarations cap ao KernelType_compute)
  = Some (compressed_ptr_decls (Tensor_id (AppendOutput_output ao)) 0 (Tensor_modes (AppendOutput_output ao))).
Proof.
  unfold AppendOutput_write_declarations, py_enumerate.
  match goal with |- context [ofold ?F _ _] => set (F0 := F) end.
  assert (G : forall modes i l c ad,
    exists ad', ofold F0 (py_enumerate_from i modes) (MkSB l c, ad)
                = Some (MkSB (l ++ compressed_ptr_decls (Tensor_id (AppendOutput_output ao)) i modes) c, ad')).
  { induction modes as [|m modes IH]; intros i l c ad.
    - exists ad. cbn. now rewrite app_nil_r.
    - cbn [py_enumerate_from ofold]. unfold F0 at 1. destruct m; cbn.
      + apply IH.
      + destruct (IH (i + 1) (l ++ [decl_ptr_stmt (Tensor_id (AppendOutput_output ao)) i])%list c false) as (ad' & E).
        exists ad'. rewrite <- app_assoc in E. exact E. }
  destruct (G (Tensor_modes (AppendOutput_output ao)) 0 [] (Some "Output initialization"%string) true) as (ad' & E).
  rewrite E. reflexivity.
Qed.

Lemma compressed_ptr_decls_certs id : forall modes i,
  forallb no_alloc (compressed_ptr_decls id i modes) = true
  /\ forallb no_field_store (compressed_ptr_decls id i modes) = true
  /\ flat_map Certs2Store.store_vars (compressed_ptr_decls id i modes) = [].
Proof.
  induction modes as [|m modes IH]; intros i; [repeat split|].
  destruct m; cbn; apply IH.
Qed.

(** what the compute kernel's declarations and cleanup contribute to the kernel body satisfies the
    syntactic conditions of [compute_cert] (no allocation form, no field store) and stores no cell *)
Theorem gen_compute_fragments_certified cap ao d c :
  AppendOutput_write_declarations cap ao KernelType_compute = Some d ->
  AppendOutput_write_cleanup ao KernelType_compute = Some c ->
  no_alloc (sb_finalize d) = true /\ no_field_store (sb_finalize d) = true
  /\ Certs2Store.store_vars (sb_finalize d) = []
  /\ no_alloc (sb_finalize c) = true /\ no_field_store (sb_finalize c) = true
  /\ Certs2Store.store_vars (sb_finalize c) = [].
Proof.
  intros Hd Hc. pose proof (gen_declarations_compute_all cap ao) as S. rewrite Hd in S. cbn [option_map] in S.
  injection S as S. rewrite gen_cleanup_compute in Hc. injection Hc as <-.
  unfold sb_finalize. cbn [no_alloc no_field_store Certs2Store.store_vars sb_lines forallb flat_map]. rewrite S.
  destruct (compressed_ptr_decls_certs (Tensor_id (AppendOutput_output ao)) (Tensor_modes (AppendOutput_output ao)) 0) as (A & B & C).
  repeat split; auto.
Qed.

(** * write_declarations for EVERY mode list (assemble / evaluate kernels) *)

Definition pos_size_of (cap : option Z) (t : Tensor) (i : Z) (all_dense : bool) : option expr :=
  if all_dense
  then obind (omap (fun k => obind (py_getitem (Tensor_indexes t) k) (fun x => Some (dimension_name x))) (py_range 0 i))
             (fun ds => Some (Add (dims_product ds) (IntegerLiteral 1)))
  else Some (default_array_size cap).

(** layer by layer: a dense layer declares nothing; a compressed layer declares its pos array (exact size
    when every layer above is dense, the initial capacity otherwise), its crd array and its cursor *)
Fixpoint decl_layers (cap : option Z) (t : Tensor) (i : Z) (modes : list Mode) (all_dense : bool)
  : option (list stmt * bool) :=
  match modes with
  | [] => Some ([], all_dense)
  | Mode_dense :: r => decl_layers cap t (i + 1) r all_dense
  | Mode_compressed :: r =>
      obind (pos_size_of cap t i all_dense) (fun ps =>
      obind (decl_layers cap t (i + 1) r false) (fun '(l, ad') =>
      Some ((decl_level_stmts (Tensor_name t) i ps (default_array_size cap) ++ [decl_ptr_stmt (Tensor_id t) i]) ++ l, ad')%list))
  end.

Definition vals_size_of (cap : option Z) (t : Tensor) (all_dense : bool) : expr :=
  if all_dense
  then dims_product (map (fun i => ArrayIndex (AttributeAccess (Var (Tensor_name t)) "dimensions") (IntegerLiteral i))
                         (py_range 0 (Tensor_order t)))
  else default_array_size cap.

Lemma Multiply_join_XE l : Multiply_join (map (fun x_ => XE x_) l) = dims_product l.
Proof. unfold Multiply_join. now rewrite map_to_expression_XE. Qed.

Theorem gen_declarations_all cap ao kt : KernelType_is_assemble kt = true ->
  let t := AppendOutput_output ao in
  option_map sb_lines (AppendOutput_write_declarations cap ao kt)
  = obind (decl_layers cap t 0 (Tensor_modes t) true)
          (fun '(l, ad) => Some (l ++ decl_vals_stmts (Tensor_name t) (vals_size_of cap t ad))%list).
Proof.
  intros Hkt t.
  assert (K : exists kt', kt = kt' /\ KernelType_is_assemble kt' = true) by eauto.
  unfold AppendOutput_write_declarations, py_enumerate. fold t.
  match goal with |- context [ofold ?F _ _] => set (F0 := F) end.
  assert (G : forall modes i l c ad,
    ofold F0 (py_enumerate_from i modes) (MkSB l c, ad)
    = obind (decl_layers cap t i modes ad) (fun '(l', ad') => Some (MkSB (l ++ l') c, ad'))).
  { induction modes as [|m modes IH]; intros i l c ad.
    - cbn. now rewrite app_nil_r.
    - cbn [py_enumerate_from ofold decl_layers]. unfold F0 at 1. destruct m.
      + cbn. apply IH.
      + cbn [Mode_eqb]. rewrite Hkt. unfold pos_size_of. destruct ad.
        * destruct (omap _ (py_range 0 i)) as [ds|]; cbn [obind]; [|reflexivity].
          rewrite Multiply_join_XE. cbn -[decl_layers default_array_size dims_product].
          unfold sb_append_stmt; cbn [sb_lines sb_comment]. rewrite IH. destruct (decl_layers cap t (i + 1) modes false) as [[l' ad']|]; cbn [obind]; [|reflexivity].
          f_equal. f_equal. f_equal. rewrite <- !app_assoc. reflexivity.
        * cbn -[decl_layers default_array_size].
          unfold sb_append_stmt; cbn [sb_lines sb_comment]. rewrite IH. destruct (decl_layers cap t (i + 1) modes false) as [[l' ad']|]; cbn [obind]; [|reflexivity].
          f_equal. f_equal. f_equal. rewrite <- !app_assoc. reflexivity. }
  rewrite G. destruct (decl_layers cap t 0 (Tensor_modes t) true) as [[l ad]|]; cbn [obind]; [|reflexivity].
  rewrite Hkt. unfold vals_size_of. destruct ad; cbn -[default_array_size dims_product py_range].
  - rewrite Multiply_join_XE. unfold sb_append_stmt; cbn [sb_lines sb_comment]. rewrite <- app_assoc. reflexivity.
  - unfold sb_append_stmt; cbn [sb_lines sb_comment]. rewrite <- app_assoc. reflexivity.
Qed.

(** * write_cleanup for EVERY mode list (assemble / evaluate kernels) *)

(** layer by layer: a dense layer multiplies the sizes by its dimension; a compressed layer shrinks its pos
    array (unless every layer above is dense) and its crd array, stores both into the output struct, and
    the sizes restart from its cursor *)
Fixpoint cleanup_layers (t : Tensor) (i : Z) (modes : list Mode) (prev padded : expr) (all_dense : bool)
  : option (list stmt * expr * expr * bool) :=
  match modes with
  | [] => Some ([], prev, padded, all_dense)
  | Mode_dense :: r =>
      obind (py_getitem (Tensor_indexes t) i) (fun x =>
      cleanup_layers t (i + 1) r (Multiply prev (dimension_name x)) (Multiply padded (dimension_name x)) all_dense)
  | Mode_compressed :: r =>
      obind (cleanup_layers t (i + 1) r (layer_pointer (Tensor_id t) i)
                            (Add (layer_pointer (Tensor_id t) i) (IntegerLiteral 1)) false)
            (fun '(l, pv, pd, ad') =>
             Some ((cleanup_level_stmts (Tensor_id t) (Tensor_name t) i (if all_dense then None else Some prev) ++ l)%list,
                   pv, pd, ad'))
  end.

Theorem gen_cleanup_all ao kt : KernelType_is_assemble kt = true ->
  let t := AppendOutput_output ao in
  option_map sb_lines (AppendOutput_write_cleanup ao kt)
  = obind (cleanup_layers t 0 (Tensor_modes t) (IntegerLiteral 1) (IntegerLiteral 1) true)
          (fun '(l, _, pd, ad) => Some (l ++ cleanup_vals_stmts (Tensor_name t) (if ad then None else Some pd))%list).
Proof.
  intros Hkt t. unfold AppendOutput_write_cleanup, py_enumerate. fold t. rewrite Hkt.
  match goal with |- context [ofold ?F _ _] => set (F0 := F) end.
  assert (G : forall modes i l c prev padded ad,
    ofold F0 (py_enumerate_from i modes) (prev, padded, MkSB l c, ad)
    = obind (cleanup_layers t i modes prev padded ad)
            (fun '(l', pv, pd, ad') => Some (pv, pd, MkSB (l ++ l') c, ad'))).
  { induction modes as [|m modes IH]; intros i l c prev padded ad.
    - cbn. now rewrite app_nil_r.
    - cbn [py_enumerate_from ofold cleanup_layers]. unfold F0 at 1. destruct m.
      + cbn [Mode_eqb]. destruct (py_getitem (Tensor_indexes t) i) as [x|]; cbn [obind]; [|reflexivity].
        cbn -[cleanup_layers]. apply IH.
      + cbn [Mode_eqb]. destruct ad; cbn -[cleanup_layers]; unfold sb_append_stmt; cbn [sb_lines sb_comment];
          rewrite IH; destruct (cleanup_layers t (i + 1) modes _ _ false) as [[[[l' pv] pd] ad']|]; cbn [obind]; try reflexivity;
          f_equal; f_equal; f_equal; rewrite <- !app_assoc; reflexivity. }
  rewrite G. destruct (cleanup_layers t 0 (Tensor_modes t) _ _ true) as [[[[l pv] pd] ad]|]; cbn [obind]; [|reflexivity].
  destruct ad; cbn; unfold sb_append_stmt; cbn [sb_lines sb_comment]; rewrite <- ?app_assoc; reflexivity.
Qed.

(** * Bucket outputs (outputs/_bucket.py): what the emitted statements are (closed forms; their machine
      refinement against model G's bucket description is NOT proved) *)

Definition bucket_init_stmt (b loop : expr) (rhs : expr) (dims : list expr) : stmt :=
  Block [dcl b (TPointer TFloat) rhs;
         dcl loop TInteger (IntegerLiteral 0);
         Loop (LessThan loop (dims_product dims))
              (Block [Assignment (ArrayIndex b loop) (IntegerLiteral 0);
                      Assignment loop (Add loop (IntegerLiteral 1))] None)]
        (Some "Bucket initialization"%string).

(** write_declarations: [double* bucket = rhs; int i = 0; while (i < prod dims) { bucket[i] = 0; i = i + 1; }] *)
Theorem gen_bucket_declarations_shape bo rhs dims :
  BucketOutput_dimension_names bo = Some dims ->
  option_map sb_finalize (BucketOutput_write_declarations bo rhs)
  = Some (bucket_init_stmt (BucketOutput_name bo) (BucketOutput_loop_name bo) rhs dims).
Proof.
  intros H. unfold BucketOutput_write_declarations. rewrite H. cbn [obind]. rewrite Multiply_join_XE. reflexivity.
Qed.

Theorem gen_bucket_declarations_none bo rhs :
  BucketOutput_dimension_names bo = None -> BucketOutput_write_declarations bo rhs = None.
Proof. intros H. unfold BucketOutput_write_declarations. now rewrite H. Qed.

(** write_assignment: [bucket[ravel] = bucket[ravel] + rhs] where [ravel] is what the regenerated
    [ravel_indexes] returns for the dimension names and index variables of the bucket's layers *)
Theorem gen_bucket_assignment_shape bo rhs kt dims idxs e :
  BucketOutput_dimension_names bo = Some dims ->
  omap (fun layer => obind (py_getitem (Tensor_indexes (BucketOutput_output bo)) layer) (fun x => Some (Var x)))
       (BucketOutput_layers bo) = Some idxs ->
  BucketOutput_ravel_indexes bo dims idxs = Some e ->
  option_map sb_finalize (BucketOutput_write_assignment bo rhs kt)
  = Some (Block [Assignment (ArrayIndex (BucketOutput_name bo) e) (Add (ArrayIndex (BucketOutput_name bo) e) rhs)] None).
Proof.
  intros H1 H2 H3. unfold BucketOutput_write_assignment. rewrite H1. cbn [obind]. rewrite H2. cbn [obind].
  rewrite H3. reflexivity.
Qed.

(** ravel_indexes on two layers: [i * d2 + j] in the shape the emitter builds it *)
Example gen_ravel_indexes_two bo d1 d2 i j :
  BucketOutput_ravel_indexes bo [d1; d2] [i; j]
  = Some (Add (Add (IntegerLiteral 0) (Multiply (Multiply (IntegerLiteral 1) i) d2)) (Multiply (IntegerLiteral 1) j)).
Proof. reflexivity. Qed.
