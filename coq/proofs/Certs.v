(** Per-kernel certificates (properties C04, C05): syntactic checks on an IR function whose
    soundness is a theorem about the abstract machine.  The certificate is evaluated by vm_compute
    on the REAL IR of each swept kernel, so its conclusion holds for that kernel on ALL inputs. *)

From Coq Require Import ZArith Bool List String Lia FMapPositive.
From TV Require Import spec.Num gen.IRAst spec.IRSem.
Import ListNotations.
Open Scope Z_scope.

Ltac inv H := inversion H; subst; clear H.

(** * A generic preservation principle for [exec] *)

Section PRESERVE.
  Variable R : state -> state -> Prop.
  Variable ok : stmt -> bool.
  Hypothesis R_refl : forall st, R st st.
  Hypothesis R_trans : forall a b c, R a b -> R b c -> R a c.
  Hypothesis R_env : forall st e, R st (with_env st e).
  Hypothesis R_tick : forall st, R st (tick st).
  Hypothesis ok_block : forall ss c, ok (Block ss c) = true -> forallb ok ss = true.
  Hypothesis ok_branch : forall c a b, ok (Branch c a b) = true -> ok a = true /\ ok b = true.
  Hypothesis ok_loop : forall c b, ok (Loop c b) = true -> ok b = true.
  Hypothesis H_assign : forall tgt val st st1 v t1 l t2 st2 t3,
    ok (Assignment tgt val) = true ->
    eval_rhs st val = Ok (st1, v, t1) -> eval_loc st1 tgt = Ok (l, t2) ->
    assign st1 l v = Ok (st2, t3) -> R st st2.
  Hypothesis H_decl : forall d val st st1 v t1,
    ok (DeclarationAssignment d val) = true -> eval_rhs st val = Ok (st1, v, t1) -> R st st1.

  Definition pres (st : state) (o : outcome) : Prop :=
    match o with
    | Normal st' _ => R st st'
    | Returned st' _ _ => R st st'
    | _ => True
    end.

  Theorem exec_preserves n : forall s st, ok s = true -> pres st (exec n s st).
  Proof.
    induction n as [|n IH]; intros s st K; [exact I|].
    destruct s as [name t | tgt val | tgt val | ss c | c a b | c body | e | e]; simpl.
    - unfold declare. destruct name; simpl; auto.
    - destruct (eval_rhs st val) as [[[st1 v] t1]|] eqn:E1; simpl; auto.
      destruct (eval_loc st1 tgt) as [[l t2]|] eqn:E2; simpl; auto.
      destruct (assign st1 l v) as [[st2 t3]|] eqn:E3; simpl; auto. eauto.
    - destruct tgt; simpl; auto.
      destruct (eval_rhs st val) as [[[st1 v] t1]|] eqn:E1; simpl; auto.
      destruct (coerce type v); simpl; auto.
      unfold declare. destruct name; simpl; auto.
      eapply R_trans; [eapply H_decl; eauto | apply R_env].
    - apply ok_block in K.
      assert (G : forall l st0 tr, forallb ok l = true -> R st st0 ->
        pres st ((fix go (l : list stmt) (st : state) (tr : list event) : outcome :=
             match l with
             | [] => Normal st tr
             | s1 :: r =>
                 match exec n s1 st with
                 | Normal st' t1 => go r st' (tr ++ t1)
                 | Returned st' v t1 => Returned st' v (tr ++ t1)
                 | Fail x => Fail x
                 | OutOfFuel => OutOfFuel
                 end
             end) l st0 tr)).
      { induction l as [|s1 r IHl]; intros st0 tr Kl S0; simpl; auto.
        simpl in Kl. apply andb_prop in Kl. destruct Kl as [K1 Kr].
        pose proof (IH s1 st0 K1) as H1.
        destruct (exec n s1 st0) as [st' t1|st' v t1|x|]; simpl in *; eauto. }
      apply G; auto.
    - apply ok_branch in K. destruct K as [Ka Kb].
      destruct (eval st c) as [[v t1]|]; simpl; auto.
      destruct (as_bool v) as [[|]|]; simpl; auto.
      + pose proof (IH a st Ka) as H. destruct (exec n a st); simpl in *; auto.
      + pose proof (IH b st Kb) as H. destruct (exec n b st); simpl in *; auto.
    - pose proof (ok_loop _ _ K) as Kb.
      destruct (eval st c) as [[v t1]|]; simpl; auto.
      destruct (as_bool v) as [[|]|]; simpl; auto.
      pose proof (IH body st Kb) as H. destruct (exec n body st) as [st' t2|st' r t2|x|]; simpl in *; auto.
      pose proof (IH (Loop c body) (tick st') K) as H2.
      destruct (exec n (Loop c body) (tick st')); simpl in *; eauto.
    - destruct (eval st e) as [[v t]|]; simpl; auto.
    - destruct (eval st e) as [[v t]|]; simpl; auto.
  Qed.
End PRESERVE.

(** * Certificate 1: no allocation form => the kernel never allocates, frees or resizes a block *)

Definition is_alloc (e : expr) : bool :=
  match e with ArrayAllocate _ _ => true | ArrayReallocate _ _ _ => true | _ => false end.

Fixpoint no_alloc (s : stmt) : bool :=
  match s with
  | Assignment _ v => negb (is_alloc v)
  | DeclarationAssignment _ v => negb (is_alloc v)
  | Block ss _ => forallb no_alloc ss
  | Branch _ a b => no_alloc a && no_alloc b
  | Loop _ b => no_alloc b
  | _ => true
  end.

(** same block ids, same liveness, same lengths, same ownership *)
Definition same_shape (st st' : state) : Prop :=
  next_blk st' = next_blk st /\
  forall b, match PM.find b (heap st), PM.find b (heap st') with
            | Some x, Some y => b_live y = b_live x /\ b_len y = b_len x /\ b_input y = b_input x
                                /\ b_float y = b_float x
            | None, None => True
            | _, _ => False
            end.

Lemma same_shape_refl st : same_shape st st.
Proof. split; auto. intros b. destruct (PM.find b (heap st)); auto. Qed.

Lemma same_shape_heap st st' : heap st' = heap st -> next_blk st' = next_blk st -> same_shape st st'.
Proof. intros H N. split; auto. intros b. rewrite H. destruct (PM.find b (heap st)); auto. Qed.

Lemma same_shape_trans a b c : same_shape a b -> same_shape b c -> same_shape a c.
Proof.
  intros [N1 H1] [N2 H2]. split; [congruence|]. intros k. specialize (H1 k). specialize (H2 k).
  destruct (PM.find k (heap a)), (PM.find k (heap b)), (PM.find k (heap c)); try tauto.
  destruct H1 as (?&?&?&?), H2 as (?&?&?&?). repeat split; congruence.
Qed.

Lemma eval_rhs_plain st e : is_alloc e = false ->
  eval_rhs st e = (do '(v, t1) <- eval st e; Ok (st, v, t1)).
Proof. destruct e; simpl; intros H; try reflexivity; discriminate. Qed.

Lemma eval_rhs_no_alloc st e st1 v t : is_alloc e = false -> eval_rhs st e = Ok (st1, v, t) -> st1 = st.
Proof.
  intros N H. rewrite (eval_rhs_plain st e N) in H. unfold bind in H.
  destruct (eval st e) as [[? ?]|]; try discriminate. now inv H.
Qed.

Lemma assign_same_shape st l v st' t : assign st l v = Ok (st', t) -> same_shape st st'.
Proof.
  destruct l; simpl; unfold bind.
  - destruct (lookup x (env st)) as [[ty o]|]; try discriminate.
    destruct (coerce ty v); try discriminate. intros H; inv H. now apply same_shape_heap.
  - unfold store, bind. destruct (PM.find blk (heap st)) as [b|] eqn:F; try discriminate.
    destruct (negb (b_live b)) eqn:L; try discriminate.
    destruct (b_input b) eqn:I; try discriminate.
    destruct (_ || _); try discriminate. destruct (coerce _ v); try discriminate.
    intros H; inv H. split; auto. intros k. simpl.
    destruct (Pos.eq_dec k blk) as [->|N].
    + rewrite PM.gss, F. simpl. apply negb_false_iff in L. auto.
    + rewrite PM.gso by auto. destruct (PM.find k (heap st)); auto.
  - destruct (tensor_of st t0); try discriminate. destruct (negb _); try discriminate.
    destruct (negb _); try discriminate. intros H; inv H. now apply same_shape_heap.
  - destruct (tensor_of st t0); try discriminate. destruct (negb _); try discriminate.
    destruct (negb _); try discriminate. destruct (l <? 0); try discriminate.
    destruct (nth_error _ _) as [[p c]|]; try discriminate.
    destruct (if j =? 0 then _ else _); try discriminate.
    destruct (set_nth _ _ _); try discriminate. intros H; inv H. now apply same_shape_heap.
Qed.

Theorem no_alloc_sound n s st : no_alloc s = true -> pres same_shape st (exec n s st).
Proof.
  apply exec_preserves.
  - apply same_shape_refl.
  - apply same_shape_trans.
  - intros. now apply same_shape_heap.
  - intros. now apply same_shape_heap.
  - intros ss c H. exact H.
  - intros c a b H. simpl in H. now apply andb_prop in H.
  - intros c b H. exact H.
  - intros tgt val st0 st1 v t1 l t2 st2 t3 K E1 E2 E3. simpl in K. apply negb_true_iff in K.
    apply eval_rhs_no_alloc in E1; auto. subst. eapply assign_same_shape; eauto.
  - intros d val st0 st1 v t1 K E1. simpl in K. apply negb_true_iff in K.
    apply eval_rhs_no_alloc in E1; auto. subst. apply same_shape_refl.
Qed.

(** * Certificate 2: every store targets a variable or a cell of an array variable
      => no tensor field (indices[l][j], vals) is ever re-pointed *)

Definition plain_target (e : expr) : bool :=
  match e with
  | Var _ => true
  | ArrayIndex (Var _) _ => true
  | _ => false
  end.

Fixpoint no_field_store (s : stmt) : bool :=
  match s with
  | Assignment t _ => plain_target t
  | Block ss _ => forallb no_field_store ss
  | Branch _ a b => no_field_store a && no_field_store b
  | Loop _ b => no_field_store b
  | _ => true
  end.

Definition same_tensors (st st' : state) : Prop := tensors st' = tensors st.

Lemma eval_rhs_tensors st e st1 v t : eval_rhs st e = Ok (st1, v, t) -> tensors st1 = tensors st.
Proof.
  destruct (is_alloc e) eqn:A.
  - destruct e as [ | | | | | | | | | | | | | | | | | | | | ty n | old ty n]; try discriminate;
      simpl; unfold bind.
    + destruct (eval st n) as [[x t1]|]; try discriminate. destruct x; try discriminate.
      unfold alloc, bind. destruct (elt_is_float _); try discriminate. destruct (_ <? 0); try discriminate.
      intros H; inv H. reflexivity.
    + destruct (negb _); try discriminate.
      destruct (eval st old) as [[o t1]|]; try discriminate.
      destruct (eval st n) as [[x t2]|]; try discriminate. destruct x; try discriminate.
      unfold realloc, alloc, bind. destruct (elt_is_float _); try discriminate.
      destruct (_ <? 0); try discriminate.
      destruct o as [| | |ob off| | | | |]; try discriminate.
      * destruct off; try discriminate. destruct (PM.find ob (heap st)); try discriminate.
        destruct (negb _); try discriminate. destruct (b_input _); try discriminate.
        destruct (negb _); try discriminate. intros H; inv H. reflexivity.
      * intros H; inv H. reflexivity.
  - intros H. apply eval_rhs_no_alloc in H; auto. now subst.
Qed.

Lemma plain_target_loc st e l t : plain_target e = true -> eval_loc st e = Ok (l, t) ->
  match l with LVar _ => True | LCell _ _ => True | _ => False end.
Proof.
  destruct e; simpl; try discriminate.
  - intros _ H. inv H. exact I.
  - destruct e1; try discriminate. intros _. simpl. unfold bind.
    destruct (lookup name (env st)) as [[ty [x|]]|]; try discriminate.
    destruct (typed ty x) eqn:T; try discriminate.
    destruct (eval st e2) as [[i t2]|]; try discriminate.
    destruct x, i; try discriminate; intros H; inv H; try exact I.
    destruct ty as [| | | | |t'| |]; simpl in T; try discriminate; destruct t'; discriminate.
Qed.

Theorem no_field_store_sound n s st : no_field_store s = true -> pres same_tensors st (exec n s st).
Proof.
  apply exec_preserves; unfold same_tensors.
  - reflexivity.
  - intros; congruence.
  - reflexivity.
  - reflexivity.
  - intros ss c H. exact H.
  - intros c a b H. simpl in H. now apply andb_prop in H.
  - intros c b H. exact H.
  - intros tgt val st0 st1 v t1 l t2 st2 t3 K E1 E2 E3. simpl in K.
    pose proof (plain_target_loc _ _ _ _ K E2) as P.
    rewrite <- (eval_rhs_tensors _ _ _ _ _ E1).
    destruct l; try tauto; simpl in E3; unfold bind in E3.
    + destruct (lookup x (env st1)) as [[ty o]|]; try discriminate.
      destruct (coerce ty v); try discriminate. inv E3. reflexivity.
    + unfold store, bind in E3. destruct (PM.find blk (heap st1)); try discriminate.
      destruct (negb _); try discriminate. destruct (b_input _); try discriminate.
      destruct (_ || _); try discriminate. destruct (coerce _ v); try discriminate. inv E3. reflexivity.
  - intros d val st0 st1 v t1 K E1. eapply eval_rhs_tensors; eauto.
Qed.

(** The compute-kernel certificate: no allocation form and no field store. *)
Definition compute_cert (f : function_definition) : bool :=
  match f with FunctionDefinition _ _ _ body => no_alloc body && no_field_store body end.

Theorem compute_cert_sound fuel f args st st' v tr :
  compute_cert f = true -> call fuel f args st = Returned st' v tr ->
  same_shape st st' /\ tensors st' = tensors st.
Proof.
  destruct f as [name ps rt body]. unfold compute_cert, call. intros C.
  apply andb_prop in C. destruct C as [C1 C2].
  destruct (bind_params ps args []) as [e|]; try discriminate.
  pose proof (no_alloc_sound fuel body (with_env st e) C1) as H1.
  pose proof (no_field_store_sound fuel body (with_env st e) C2) as H2.
  destruct (exec fuel body (with_env st e)) as [s1 t1|s1 r t1|x|]; try discriminate.
  destruct (coerce rt r); try discriminate. intros E. inv E. simpl in *. auto.
Qed.
