(** Certificate "compute writes only into the value array" (property C04).

    [compute_store_cert f]: besides [compute_cert] (no allocation form, no field store), every
    array store goes through a variable of a set [V] whose members are only ever assigned from
    [out->vals] (out = the first parameter, never re-bound), from a copy of a member of [V], or from
    pointer arithmetic on a member of [V] (the bucket pointer [a_vals + p * dims]).

    Soundness ([compute_store_sound]): on every run that returns, every block other than the one
    [out->vals] pointed to at entry is cell-for-cell what it was -- the pos / crd arrays of the
    output included --, no block was allocated, freed or resized and no tensor field re-pointed. *)

From Coq Require Import ZArith Bool List String Lia FMapPositive.
From TV Require Import spec.Num gen.IRAst spec.IRSem proofs.Certs proofs.Certs2Base.
Import ListNotations.
Open Scope Z_scope.

Local Arguments fadd : simpl never.
Local Arguments fsub : simpl never.
Local Arguments fmul : simpl never.
Local Arguments chk32 : simpl never.
Local Arguments chkfin : simpl never.

(** * The certificate *)

Section SYN.
  Variable out : string.
  Variable V : list string.

  (** right-hand sides a member of [V] may be assigned from *)
  Definition allowed (val : expr) : bool :=
    match val with
    | AttributeAccess (Var y) a => String.eqb y out && String.eqb a "vals"
    | Var y => mem y V
    | Add (Var y) _ => mem y V
    | _ => false
    end.

  Definition bind_ok (y : string) (val : expr) : bool :=
    negb (String.eqb y out) && (negb (mem y V) || allowed val).

  Fixpoint cs_ok (s : stmt) {struct s} : bool :=
    match s with
    | Declaration (Var y) _ => negb (String.eqb y out)
    | Declaration _ _ => true
    | Assignment tgt val =>
        negb (is_alloc val) &&
        match tgt with
        | Var y => bind_ok y val
        | ArrayIndex (Var y) _ => mem y V
        | _ => false
        end
    | DeclarationAssignment d val =>
        negb (is_alloc val) &&
        match d with
        | Declaration (Var y) _ => bind_ok y val
        | _ => true
        end
    | Block ss _ => forallb cs_ok ss
    | Branch _ a b => cs_ok a && cs_ok b
    | Loop _ b => cs_ok b
    | Return _ => true
    | SExpr _ => true
    end.
End SYN.

(** variables through which cells are stored *)
Fixpoint store_vars (s : stmt) {struct s} : list string :=
  match s with
  | Assignment (ArrayIndex (Var x) _) _ => [x]
  | Block ss _ => flat_map store_vars ss
  | Branch _ a b => store_vars a ++ store_vars b
  | Loop _ b => store_vars b
  | _ => []
  end.

Definition src_of (V : list string) (x : string) (val : expr) : list string :=
  if mem x V then
    match val with
    | Var y => if mem y V then [] else [y]
    | Add (Var y) _ => if mem y V then [] else [y]
    | _ => []
    end
  else [].

(** one round of the backward closure: sources of the assignments to members of [V] *)
Fixpoint src_step (V : list string) (s : stmt) {struct s} : list string :=
  match s with
  | Assignment (Var x) val => src_of V x val ++ V
  | DeclarationAssignment (Declaration (Var x) _) val => src_of V x val ++ V
  | Block ss _ =>
      (fix go (l : list stmt) (V : list string) : list string :=
         match l with [] => V | s1 :: r => go r (src_step V s1) end) ss V
  | Branch _ a b => src_step (src_step V a) b
  | Loop _ b => src_step V b
  | _ => V
  end.

Fixpoint src_iter (n : nat) (V : list string) (body : stmt) : list string :=
  match n with
  | O => V
  | S k =>
      let V' := src_step V body in
      if Nat.eqb (List.length V') (List.length V) then V else src_iter k V' body
  end.

Definition store_set (f : function_definition) : list string :=
  match f with FunctionDefinition _ _ _ body => src_iter 1000 (store_vars body) body end.

Definition disjoint (a b : list string) : bool := forallb (fun x => negb (mem x b)) a.

Definition compute_store_cert (f : function_definition) : bool :=
  match f with
  | FunctionDefinition _ ps _ body =>
      match param_names ps with
      | out :: rest =>
          let V := store_set f in
          compute_cert f && Nat.eqb (List.length (param_names ps)) (List.length ps)
          && negb (mem out rest) && disjoint (out :: rest) V && cs_ok out V body
      | [] => false
      end
  end.

(** * Soundness *)

(** [v], if it is a pointer, points into the block [v0] points into *)
Definition vptr_ok (v0 v : value) : Prop :=
  match v with VPtr b _ => exists o, v0 = VPtr b o | _ => True end.

(** the value [out->vals] of tensor [tout] *)
Definition vals_of (st : state) (tout : positive) : value :=
  match PM.find tout (tensors st) with Some ts => t_vals ts | None => VNull end.

Section SOUND.
  Variable out : string.
  Variable V : list string.
  Variable tout : positive.
  Variable st0 : state.

  Let v0 := vals_of st0 tout.

  Record J (st : state) : Prop := mkJ {
    J_vars : forall x t v, mem x V = true -> lookup x (env st) = Some (t, Some v) -> vptr_ok v0 v;
    J_out : exists t, lookup out (env st) = Some (t, Some (VTensor tout));
    J_tensors : tensors st = tensors st0;
    J_heap : forall b, (forall o, v0 <> VPtr b o) -> PM.find b (heap st) = PM.find b (heap st0)
  }.

  Lemma vptr_ok_coerce t v w : coerce t v = Ok w -> vptr_ok v0 v -> vptr_ok v0 w.
  Proof. intros H C. destruct (coerce_shape _ _ _ H) as [->|[f ->]]; simpl; auto. Qed.

  Lemma allowed_value st val v tr :
    J st -> allowed out V val = true -> eval st val = Ok (v, tr) -> vptr_ok v0 v.
  Proof.
    intros [JV [to JO] JT JH] A E. destruct val; try discriminate A.
    - (* Var *)
      simpl in A, E. destruct (lookup name (env st)) as [[t [w|]]|] eqn:L; try discriminate.
      destruct (typed t w); try discriminate. inv E. eapply JV; eauto.
    - (* out->vals *)
      destruct val; try discriminate A. simpl in A. apply andb_prop in A. destruct A as [A1 A2].
      apply String.eqb_eq in A1. apply String.eqb_eq in A2. subst name attribute.
      cbn [eval] in E. rewrite JO in E. destruct (typed to (VTensor tout)); try discriminate.
      unfold bind, attribute_value in E. simpl in E. unfold bind, tensor_of in E. rewrite JT in E.
      unfold v0, vals_of. destruct (PM.find tout (tensors st0)) as [ts|]; try discriminate.
      destruct (is_ptr (t_vals ts)); try discriminate. inv E.
      destruct (t_vals ts); simpl; eauto.
    - (* pointer arithmetic *)
      destruct val1; try discriminate A. simpl in A.
      simpl in E. apply bin2_inv in E. destruct E as (a & t1 & b & t2 & Ea & Eb & Op).
      destruct (lookup name (env st)) as [[t [w|]]|] eqn:L; try discriminate.
      destruct (typed t w); try discriminate. inv Ea.
      pose proof (JV _ _ _ A L) as C.
      unfold arith, bind in Op. destruct a, b; try discriminate;
        repeat match type of Op with context [match ?X with _ => _ end] => destruct X; try discriminate end;
        inv Op; simpl; auto.
  Qed.

  Lemma J_bind st y t v' :
    J st -> String.eqb y out = false -> (mem y V = true -> vptr_ok v0 v') ->
    J (with_env st (set_var y (t, Some v') (env st))).
  Proof.
    intros [JV [to JO] JT JH] N C. constructor; simpl; auto.
    - intros x ty w M L. rewrite lookup_set_var in L. destruct (String.eqb x y) eqn:Q.
      + apply String.eqb_eq in Q. subst x. inv L. auto.
      + eauto.
    - exists to. rewrite lookup_set_var. rewrite String.eqb_sym in N. now rewrite N.
  Qed.

  Lemma J_unbind st y t :
    J st -> String.eqb y out = false -> J (with_env st (set_var y (t, None) (env st))).
  Proof.
    intros [JV [to JO] JT JH] N. constructor; simpl; auto.
    - intros x ty w M L. rewrite lookup_set_var in L. destruct (String.eqb x y) eqn:Q.
      + discriminate.
      + eauto.
    - exists to. rewrite lookup_set_var. rewrite String.eqb_sym in N. now rewrite N.
  Qed.

  Lemma bind_step st y val v tr t v' :
    J st -> bind_ok out V y val = true -> eval st val = Ok (v, tr) -> coerce t v = Ok v' ->
    J (with_env st (set_var y (t, Some v') (env st))).
  Proof.
    intros JS K E CO. unfold bind_ok in K. apply andb_prop in K. destruct K as [K1 K2].
    apply negb_true_iff in K1. apply J_bind; auto.
    intros M. rewrite M in K2. simpl in K2. eapply vptr_ok_coerce; eauto.
    eapply allowed_value; eauto.
  Qed.

  Lemma atomic_step s st :
    is_atomic s = true -> cs_ok out V s = true -> J st ->
    good J (fun _ => True) (exec 1 s st).
  Proof.
    intros A K JS. destruct s as [name t | tgt val | d val | ss c | c a b | c body | e | e];
      try discriminate A.
    - (* Declaration *)
      cbn [exec]. unfold declare. destruct name; simpl; auto.
      simpl in K. apply negb_true_iff in K. now apply J_unbind.
    - (* Assignment *)
      cbn [cs_ok] in K. apply andb_prop in K. destruct K as [NA K]. apply negb_true_iff in NA.
      cbn [exec]. rewrite (eval_rhs_plain st val NA). unfold bind.
      destruct (eval st val) as [[v t1]|] eqn:E; simpl; auto.
      destruct tgt; try discriminate K.
      + (* variable *)
        simpl. destruct (lookup name (env st)) as [[t o]|]; simpl; auto.
        unfold bind. destruct (coerce t v) as [v'|] eqn:CO; simpl; auto.
        eapply bind_step; eauto.
      + (* cell through a member of V *)
        destruct tgt1; try discriminate K.
        cbn [eval_loc eval]. destruct (lookup name (env st)) as [[t [w|]]|] eqn:L; simpl; auto.
        destruct (typed t w) eqn:TY; simpl; auto. apply typed_shape in TY. unfold bind.
        destruct (eval st tgt2) as [[i t2]|]; simpl; auto.
        pose proof (J_vars _ JS _ _ _ K L) as C.
        destruct w; try tauto; simpl; auto; destruct i; simpl; auto.
        unfold bind. destruct (store st blk (off + z) v) as [st2|] eqn:ST; simpl; auto.
        destruct C as [o C].
        unfold store, bind in ST. destruct (PM.find blk (heap st)) as [b0|]; try discriminate.
        destruct (negb (b_live b0)); try discriminate. destruct (b_input b0); try discriminate.
        destruct (_ || _); try discriminate. destruct (coerce _ v); try discriminate. inv ST.
        destruct JS as [JV JO JT JH]. constructor; simpl; auto.
        intros b NB. rewrite PM.gso; auto. intros ->. eapply NB; eauto.
    - (* DeclarationAssignment *)
      cbn [cs_ok] in K. apply andb_prop in K. destruct K as [NA K]. apply negb_true_iff in NA.
      cbn [exec]. destruct d as [name t| | | | | | |]; simpl; auto.
      rewrite (eval_rhs_plain st val NA). unfold bind.
      destruct (eval st val) as [[v t1]|] eqn:E; simpl; auto.
      destruct (coerce t v) as [v'|] eqn:CO; simpl; auto.
      unfold declare. destruct name; simpl; auto.
      eapply bind_step; eauto.
    - (* Return *) cbn [exec]. destruct (eval st e) as [[v t]|]; simpl; auto.
    - (* SExpr *) cbn [exec]. destruct (eval st e) as [[v t]|]; simpl; auto.
  Qed.

  Theorem cs_ok_sound n s st :
    cs_ok out V s = true -> J st -> good J (fun _ => True) (exec n s st).
  Proof.
    apply (exec_invariant J (fun _ => True) (cs_ok out V)).
    - intros s0 [JV JO JT JH]. constructor; auto.
    - intros ss c H. exact H.
    - intros c a b H. simpl in H. now apply andb_prop in H.
    - intros c b H. exact H.
    - auto.
    - auto.
    - intros s0 s1 A K JS. now apply atomic_step.
  Qed.
End SOUND.

(** the block [b] is the one [tout->vals] points into *)
Definition vals_block (st : state) (tout b : positive) : Prop :=
  exists o, vals_of st tout = VPtr b o.

Theorem compute_store_sound f : compute_store_cert f = true ->
  forall fuel tout args st st' v tr,
    call fuel f (VTensor tout :: args) st = Returned st' v tr ->
    (forall b, ~ vals_block st tout b -> PM.find b (heap st') = PM.find b (heap st))
    /\ same_shape st st' /\ tensors st' = tensors st.
Proof.
  intros C fuel tout args st st' v tr CALL.
  destruct f as [name ps rt body]. unfold compute_store_cert in C.
  destruct (param_names ps) as [|out rest] eqn:PN; try discriminate.
  set (V := store_set (FunctionDefinition name ps rt body)) in *.
  apply andb_prop in C. destruct C as [C CS]. apply andb_prop in C. destruct C as [C CD].
  apply andb_prop in C. destruct C as [C CO]. apply andb_prop in C. destruct C as [CC CL].
  split; [|eapply compute_cert_sound; eauto].
  apply negb_true_iff in CO. apply Nat.eqb_eq in CL.
  unfold call in CALL. destruct (bind_params ps (VTensor tout :: args) []) as [e|] eqn:B; try discriminate.
  (* the shape of the parameter list *)
  destruct ps as [|p ps']; [discriminate PN|].
  assert (PH : exists t, p = Declaration (Var out) t /\ param_names ps' = rest).
  { rewrite param_names_cons in PN. pose proof (param_names_le ps') as LR.
    simpl in CL.
    destruct p as [nm t| | | | | | |]; simpl in PN;
      try (rewrite PN in LR; simpl in LR; lia).
    destruct nm as [x| | | | | | | | | | | | | | | | | | | | |]; simpl in PN;
      try (rewrite PN in LR; simpl in LR; lia).
    inv PN. eauto. }
  destruct PH as (t & -> & PR).
  simpl in B. unfold bind in B. destruct (coerce t (VTensor tout)) as [w|] eqn:CO1; try discriminate.
  assert (w = VTensor tout).
  { destruct t as [| | | | |t'| |]; simpl in CO1; try discriminate. destruct t'; try discriminate. now inv CO1. }
  subst w.
  assert (J0 : J out V tout st (with_env st e)).
  { constructor; simpl; auto.
    - intros x ty w M L. exfalso.
      assert (NX : ~ In x (out :: rest)).
      { intros I. unfold disjoint in CD. rewrite forallb_forall in CD. apply CD in I.
        rewrite M in I. discriminate. }
      rewrite (bind_params_other _ _ _ _ x B) in L.
      + simpl in L. destruct (String.eqb x out) eqn:Q; try discriminate.
        apply String.eqb_eq in Q. subst x. apply NX. now left.
      + rewrite PR. intros I. apply NX. now right.
    - exists t. rewrite (bind_params_other _ _ _ _ out B).
      + simpl. now rewrite String.eqb_refl.
      + rewrite PR. now apply mem_false_In. }
  pose proof (cs_ok_sound out V tout st fuel body (with_env st e) CS J0) as G.
  destruct (exec fuel body (with_env st e)) as [s1 t1|s1 r t1|x|]; try discriminate.
  destruct (coerce rt r); try discriminate. inv CALL. simpl in G.
  intros b NB. apply (J_heap _ _ _ _ _ G). intros o Q. apply NB. exists o. exact Q.
Qed.
