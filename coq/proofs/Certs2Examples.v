(** Concrete instances of the certificates of Certs2*.v: a hand-written kernel of the shape
    tensora emits (copy of a compressed vector's values) passes all three, and three small
    variations -- a store into an input array, a re-assembly store into the output's pos array, a
    loop bound that reads the dimension -- are rejected by exactly the corresponding one. *)

From Coq Require Import ZArith Bool List String.
From TV Require Import spec.Num gen.IRAst spec.IRSem proofs.Certs proofs.Certs2Base
  proofs.Certs2Input proofs.Certs2Sim proofs.Certs2Store.
Import ListNotations.
Open Scope Z_scope.
Open Scope string_scope.

Definition ex_prelude : list stmt :=
  [ DeclarationAssignment (Declaration (Var "i_dim") TInteger)
      (ArrayIndex (AttributeAccess (Var "b") "dimensions") (IntegerLiteral 0));
    DeclarationAssignment (Declaration (Var "a_0_pos") (TPointer TInteger))
      (ArrayIndex (ArrayIndex (AttributeAccess (Var "a") "indices") (IntegerLiteral 0)) (IntegerLiteral 0));
    DeclarationAssignment (Declaration (Var "a_vals") (TPointer TFloat)) (AttributeAccess (Var "a") "vals");
    DeclarationAssignment (Declaration (Var "b_0_pos") (TPointer TInteger))
      (ArrayIndex (ArrayIndex (AttributeAccess (Var "b") "indices") (IntegerLiteral 0)) (IntegerLiteral 0));
    DeclarationAssignment (Declaration (Var "b_vals") (TPointer TFloat)) (AttributeAccess (Var "b") "vals");
    DeclarationAssignment (Declaration (Var "p") TInteger) (ArrayIndex (Var "b_0_pos") (IntegerLiteral 0));
    DeclarationAssignment (Declaration (Var "p_end") TInteger) (ArrayIndex (Var "b_0_pos") (IntegerLiteral 1)) ].

Definition ex_fun (cond : expr) (extra : list stmt) : function_definition :=
  FunctionDefinition (Var "compute")
    [Declaration (Var "a") (TPointer TTensor); Declaration (Var "b") (TPointer TTensor)] TInteger
    (Block (ex_prelude ++
      [ Loop cond
          (Block ([ DeclarationAssignment (Declaration (Var "bucket") (TPointer TFloat))
                      (Add (Var "a_vals") (Var "p"));
                    Assignment (ArrayIndex (Var "bucket") (IntegerLiteral 0))
                      (ArrayIndex (Var "b_vals") (Var "p")) ] ++ extra ++
                  [ Assignment (Var "p") (Add (Var "p") (IntegerLiteral 1)) ]) None);
        Return (IntegerLiteral 0) ]) None).

Definition ex_cond : expr := LessThan (Var "p") (Var "p_end").

(** the good kernel *)
Definition ex_good : function_definition := ex_fun ex_cond [].
(** writes [b_vals[p] = 0] *)
Definition ex_writes_input : function_definition :=
  ex_fun ex_cond [Assignment (ArrayIndex (Var "b_vals") (Var "p")) (IntegerLiteral 0)].
(** re-assembles: [a_0_pos[1] = p] inside compute *)
Definition ex_reassembles : function_definition :=
  ex_fun ex_cond [Assignment (ArrayIndex (Var "a_0_pos") (IntegerLiteral 1)) (Var "p")].
(** the sparse loop reads the dimension *)
Definition ex_reads_dim : function_definition :=
  ex_fun (And ex_cond (LessThan (Var "p") (Var "i_dim"))) [].

Example ex_good_certified :
  input_safe_cert ex_good = true /\ compute_store_cert ex_good = true /\
  dim_unread_cert ex_good [(1%nat, 0)] = true /\
  taint_set ex_good = ["b_vals"; "b_0_pos"; "i_dim"; "b"] /\ store_set ex_good = ["a_vals"; "bucket"].
Proof. vm_compute. repeat split. Qed.

Example ex_writes_input_rejected :
  input_safe_cert ex_writes_input = false /\ dim_unread_cert ex_writes_input [(1%nat, 0)] = true.
Proof. vm_compute. repeat split. Qed.

Example ex_reassembles_rejected :
  compute_store_cert ex_reassembles = false /\ compute_cert ex_reassembles = true /\
  input_safe_cert ex_reassembles = true.
Proof. vm_compute. repeat split. Qed.

Example ex_reads_dim_rejected :
  dim_unread_cert ex_reads_dim [(1%nat, 0)] = false /\ input_safe_cert ex_reads_dim = true /\
  compute_store_cert ex_reads_dim = true.
Proof. vm_compute. repeat split. Qed.

Example ex_reads_var :
  match ex_good with FunctionDefinition _ _ _ body =>
    reads_var "i_dim" body = false /\ reads_var "p_end" body = true end.
Proof. vm_compute. repeat split. Qed.
