(** C01 part C: the two algebraic facts the co-iteration lattice rests on. *)
From Coq Require Import ZArith List Bool String Ring_theory Ring Lia.
From TV Require Import spec.Spec model.Exhaust proofs.SpecSums.
Import ListNotations.

Section Proofs.
Variable O : ringops.
Hypothesis Oth : ring_ok O.
Let Oth' : ring_theory (@r0 O) (@r1 O) (@radd O) (@rmul O) (@rsub O) (@ropp O) (@eq O) := Oth.
Add Ring Oring5 : Oth'.

Variable is_zero : O -> bool.
Hypothesis is_zero_sound : forall r, is_zero r = true -> r = r0.

Lemma is_int0_eval : forall (e : iexpr O) sigma, is_int0 e = true -> evalE sigma e = r0.
Proof.
  destruct e; simpl; intros; try discriminate.
  apply Z.eqb_eq in H; subst. reflexivity.
Qed.

Lemma exhaust_aux_sound : forall (e : iexpr O) t sigma,
  (snd (exhaust_aux e t) = true -> fst (exhaust_aux e t) = e)
  /\ evalE sigma (fst (exhaust_aux e t)) = evalE (zeroed sigma t) e.
Proof.
  induction e; intros t sigma; simpl.
  - auto.
  - auto.
  - unfold zeroed. destruct (String.eqb id t); simpl; split; auto; discriminate.
  - specialize (IHe1 t sigma). specialize (IHe2 t sigma).
    destruct (exhaust_aux e1 t) as [a' sa]. destruct (exhaust_aux e2 t) as [b' sb].
    simpl in *. destruct IHe1 as [Ia Ea]. destruct IHe2 as [Ib Eb].
    destruct (sa && sb) eqn:Hs; simpl.
    + split; auto. apply andb_true_iff in Hs. destruct Hs; subst.
      rewrite <- Ea, <- Eb. rewrite Ia, Ib; auto.
    + destruct (is_int0 a') eqn:Ha; simpl.
      * split; [discriminate|]. rewrite <- Ea, <- Eb. rewrite (is_int0_eval a' sigma Ha). ring.
      * destruct (is_int0 b') eqn:Hb; simpl.
        -- split; [discriminate|]. rewrite <- Ea, <- Eb. rewrite (is_int0_eval b' sigma Hb). ring.
        -- split; [discriminate|]. rewrite <- Ea, <- Eb. reflexivity.
  - specialize (IHe1 t sigma). specialize (IHe2 t sigma).
    destruct (exhaust_aux e1 t) as [a' sa]. destruct (exhaust_aux e2 t) as [b' sb].
    simpl in *. destruct IHe1 as [Ia Ea]. destruct IHe2 as [Ib Eb].
    destruct (sa && sb) eqn:Hs; simpl.
    + split; auto. apply andb_true_iff in Hs. destruct Hs; subst.
      rewrite <- Ea, <- Eb. rewrite Ia, Ib; auto.
    + destruct (is_int0 a' || is_int0 b') eqn:Hab; simpl.
      * split; [discriminate|]. rewrite <- Ea, <- Eb. apply orb_true_iff in Hab.
        destruct Hab as [Ha | Hb].
        -- rewrite (is_int0_eval a' sigma Ha). ring.
        -- rewrite (is_int0_eval b' sigma Hb). ring.
      * split; [discriminate|]. rewrite <- Ea, <- Eb. reflexivity.
Qed.

(** Zeroing a tensor in the expression = evaluating the expression with that leaf reading 0. *)
Theorem exhaust_sound : forall (e : iexpr O) t sigma,
  evalE sigma (exhaust e t) = evalE (zeroed sigma t) e.
Proof. intros; apply exhaust_aux_sound. Qed.

(** The exhausted tensor no longer occurs, and nothing new appears (every step down the
    lattice strictly removes a leaf). *)
Lemma exhaust_aux_ids : forall (e : iexpr O) t,
  ~ In t (tensor_ids (fst (exhaust_aux e t)))
  /\ incl (tensor_ids (fst (exhaust_aux e t))) (tensor_ids e)
  /\ (snd (exhaust_aux e t) = true -> fst (exhaust_aux e t) = e).
Proof.
  induction e; intros t; simpl.
  - repeat split; auto. apply incl_refl.
  - repeat split; auto. apply incl_refl.
  - destruct (String.eqb_spec id t); simpl.
    + repeat split; auto. { intros x []. } discriminate.
    + repeat split; auto. { intros [H|[]]; auto. } apply incl_refl.
  - specialize (IHe1 t). specialize (IHe2 t).
    destruct (exhaust_aux e1 t) as [a' sa]. destruct (exhaust_aux e2 t) as [b' sb].
    simpl in *. destruct IHe1 as [Na [Sa Ia]]. destruct IHe2 as [Nb [Sb Ib]].
    destruct (sa && sb) eqn:Hs; simpl.
    + apply andb_true_iff in Hs. destruct Hs; subst. rewrite Ia, Ib in *; auto.
      repeat split; auto. { rewrite in_app_iff; tauto. } apply incl_refl.
    + destruct (is_int0 a'); simpl; [|destruct (is_int0 b'); simpl].
      * repeat split; auto. { apply incl_appr; auto. } discriminate.
      * repeat split; auto. { apply incl_appl; auto. } discriminate.
      * repeat split.
        { rewrite in_app_iff; tauto. }
        { apply incl_app; [apply incl_appl | apply incl_appr]; auto. }
        discriminate.
  - specialize (IHe1 t). specialize (IHe2 t).
    destruct (exhaust_aux e1 t) as [a' sa]. destruct (exhaust_aux e2 t) as [b' sb].
    simpl in *. destruct IHe1 as [Na [Sa Ia]]. destruct IHe2 as [Nb [Sb Ib]].
    destruct (sa && sb) eqn:Hs; simpl.
    + apply andb_true_iff in Hs. destruct Hs; subst. rewrite Ia, Ib in *; auto.
      repeat split; auto. { rewrite in_app_iff; tauto. } apply incl_refl.
    + destruct (is_int0 a' || is_int0 b'); simpl.
      * repeat split; auto. { intros x []. } discriminate.
      * repeat split.
        { rewrite in_app_iff; tauto. }
        { apply incl_app; [apply incl_appl | apply incl_appr]; auto. }
        discriminate.
Qed.

Theorem exhaust_removes : forall (e : iexpr O) t, ~ In t (tensor_ids (exhaust e t)).
Proof. intros; apply exhaust_aux_ids. Qed.

Theorem exhaust_ids_incl : forall (e : iexpr O) t, incl (tensor_ids (exhaust e t)) (tensor_ids e).
Proof. intros; apply exhaust_aux_ids. Qed.

Theorem exhaust_removes_and_incl : forall (e : iexpr O) t,
  ~ In t (tensor_ids (exhaust e t)) /\ incl (tensor_ids (exhaust e t)) (tensor_ids e).
Proof. intros; split; [apply exhaust_removes | apply exhaust_ids_incl]. Qed.

(** A sparse context is zero wherever all of its sparse leaves read zero. *)
Theorem sparse_context_sound : forall (e : iexpr O) k ctx sigma,
  extract_context is_zero e k = Some ctx ->
  is_sparse ctx = true ->
  (forall l, In l (sparse_leaves ctx) -> sigma (fst l) = r0) ->
  evalE sigma e = r0.
Proof.
  induction e; intros k ctx sigma Hc Hs Hl; simpl in *.
  - inversion Hc; subst; simpl in *. apply Z.eqb_eq in Hs; subst; reflexivity.
  - inversion Hc; subst; simpl in *. apply is_zero_sound; auto.
  - destruct (index_of_str k idx) as [l|]; [|inversion Hc; subst; discriminate].
    destruct (nth_error modes l) as [[|]|]; inversion Hc; subst; simpl in *; try discriminate.
    apply (Hl (id, l)); left; auto.
  - destruct (extract_context is_zero e1 k) as [x|] eqn:E1; [|discriminate].
    destruct (extract_context is_zero e2 k) as [y|] eqn:E2; [|discriminate].
    inversion Hc; subst; simpl in *. apply andb_true_iff in Hs. destruct Hs as [Hx Hy].
    rewrite (IHe1 k x sigma E1 Hx), (IHe2 k y sigma E2 Hy).
    + ring.
    + intros; apply Hl; apply in_or_app; auto.
    + intros; apply Hl; apply in_or_app; auto.
  - destruct (extract_context is_zero e1 k) as [x|] eqn:E1; [|discriminate].
    destruct (extract_context is_zero e2 k) as [y|] eqn:E2; [|discriminate].
    inversion Hc; subst; simpl in *. apply orb_true_iff in Hs. destruct Hs as [Hx | Hy].
    + rewrite (IHe1 k x sigma E1 Hx). ring.
      intros; apply Hl; apply in_or_app; auto.
    + rewrite (IHe2 k y sigma E2 Hy). ring.
      intros; apply Hl; apply in_or_app; auto.
Qed.

(** The leaves of a context are leaves of the expression. *)
Lemma context_leaves_ids : forall (e : iexpr O) k ctx,
  extract_context is_zero e k = Some ctx ->
  forall l, In l (sparse_leaves ctx ++ dense_leaves ctx) -> In (fst l) (tensor_ids e).
Proof.
  induction e; intros k ctx Hc l Hl; simpl in *.
  - inversion Hc; subst; simpl in *; contradiction.
  - inversion Hc; subst; simpl in *; contradiction.
  - destruct (index_of_str k idx) as [n|]; [|inversion Hc; subst; simpl in *; contradiction].
    destruct (nth_error modes n) as [[|]|]; inversion Hc; subst; simpl in *;
      destruct Hl as [<- | []]; auto.
  - destruct (extract_context is_zero e1 k) as [x|] eqn:E1; [|discriminate].
    destruct (extract_context is_zero e2 k) as [y|] eqn:E2; [|discriminate].
    inversion Hc; subst; simpl in *. rewrite !in_app_iff in *.
    destruct Hl as [[H|H]|[H|H]];
      [left; eapply IHe1 | right; eapply IHe2 | left; eapply IHe1 | right; eapply IHe2];
      eauto; rewrite in_app_iff; auto.
  - destruct (extract_context is_zero e1 k) as [x|] eqn:E1; [|discriminate].
    destruct (extract_context is_zero e2 k) as [y|] eqn:E2; [|discriminate].
    inversion Hc; subst; simpl in *. rewrite !in_app_iff in *.
    destruct Hl as [[H|H]|[H|H]];
      [left; eapply IHe1 | right; eapply IHe2 | left; eapply IHe1 | right; eapply IHe2];
      eauto; rewrite in_app_iff; auto.
Qed.

End Proofs.
