(** Histories of certified kernels (what the C04 / C05 sweeps run: assemble; compute; compute on
    re-valued inputs): no step can attempt a write into an input. *)

From Coq Require Import ZArith Bool List String Lia FMapPositive.
From TV Require Import spec.Num gen.IRAst spec.IRSem spec.IRRun proofs.Certs2Base proofs.Certs2Input.
Import ListNotations.
Open Scope Z_scope.

(** re-valuing an input keeps every block's ownership flag: clean values stay clean *)
Lemma set_input_vals_ext st id vals : ext st (set_input_vals st id vals).
Proof.
  unfold set_input_vals.
  destruct (PM.find id (tensors st)) as [ts|]; [|apply ext_refl].
  destruct (t_vals ts) as [| | |blk off| | | | |]; try apply ext_refl.
  destruct off; try apply ext_refl.
  destruct (PM.find blk (heap st)) as [b|] eqn:F; [|apply ext_refl].
  apply ext_heap; [reflexivity|].
  intros b' [blk' [F' I']]. simpl in F'. destruct (Pos.eq_dec b' blk) as [->|N].
  - rewrite PM.gss in F'. inv F'. simpl in I'. exists b. auto.
  - rewrite PM.gso in F' by auto. exists blk'. auto.
Qed.

Lemma out_clean_ext st st' args : ext st st' -> out_clean st args -> out_clean st' args.
Proof. intros X. destruct args; simpl; auto. Qed.

Lemma fold_set_input_vals_ext revals : forall st,
  ext st (fold_left (fun s '(id, vs) => set_input_vals s id vs) revals st).
Proof.
  induction revals as [|[id vs] r IH]; intros st; simpl; [apply ext_refl|].
  eapply ext_trans; [apply set_input_vals_ext|apply IH].
Qed.

Theorem history_never_writes_input fuel steps : forall args st,
  Forall (fun p => input_safe_cert (fst p) = true) steps ->
  out_clean st args ->
  run_steps fuel steps args st <> RBad (VFail EWriteInput).
Proof.
  induction steps as [|[f revals] r IH]; intros args st FA OC; simpl; [discriminate|].
  inv FA. simpl in H1.
  set (st1 := fold_left (fun s '(id, vs) => set_input_vals s id vs) revals st).
  assert (OC1 : out_clean st1 args) by (eapply out_clean_ext; [apply fold_set_input_vals_ext|exact OC]).
  pose proof (input_safe_sound f H1 (fuel_of fuel) args st1 OC1) as H.
  destruct (call (fuel_of fuel) f args st1) as [s t|s v t|x|]; try discriminate.
  - destruct v; try discriminate. destruct z; try discriminate. now apply IH.
  - intros Q. inv Q. tauto.
Qed.

(** ... in particular for the histories run from the harness' initial states *)
Corollary run_history_never_writes_input fuel steps t ts exp vals exact :
  Forall (fun p => input_safe_cert (fst p) = true) steps -> ti_output t = true ->
  run_history fuel steps (t :: ts) exp vals exact <> VFail EWriteInput.
Proof.
  intros FA O. unfold run_history.
  pose proof (init_state_out_clean t ts O) as OC.
  destruct (init_state (t :: ts)) as [st args]. simpl in OC.
  pose proof (history_never_writes_input fuel steps args st FA OC) as H.
  destruct (run_steps fuel steps args st) as [st'|v].
  - unfold check_output. destruct (PM.find 1%positive (tensors st')); try discriminate.
    destruct (check_levels _ _ _); try discriminate.
    destruct (read_ptr _ _ _) as [[lv cv]|]; try discriminate.
    destruct (if exact then _ else _); try discriminate.
    destruct (negb _); discriminate.
  - intros ->. now apply H.
Qed.
