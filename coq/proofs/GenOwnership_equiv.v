(* TIE "ownership": the effect programs regenerated from compile/_cffi_ownership.py, _tensor_method.py, tensor.py
   (gen/OwnershipGen.v), interpreted in the machine of model/OwnershipApi.v, perform exactly the transitions of the
   hand model model/Ownership.v (property C13), for every order and every list of level modes.

   Method: symbolic execution of the generated code ([mstep]: one interface call at a time, robust against
   renaming / re-ordering of independent statements), loop lemmas by induction on the level structure stated for
   ANY loop body that satisfies a semantic specification ([*_body_ok]), which the generated body is then shown
   to satisfy by symbolic execution. *)
From Coq Require Import ZArith List String Lia Bool Arith PeanoNat.
From TV Require Import model.Ownership model.OwnershipApi gen.OwnershipGen proofs.OwnershipBase proofs.OwnershipInv proofs.OwnershipThm.
Import ListNotations.
Open Scope string_scope.
Open Scope list_scope.

(* ------------------------------------------------------------------ symbolic execution *)

Lemma mbind_ret : forall A B (x : M A) (f : A -> M B) k m m' a,
  x k m = (m', Ret a) -> mbind x f k m = f a k m'.
Proof. intros. unfold mbind. rewrite H. reflexivity. Qed.

Lemma mbind_raise : forall A B (x : M A) (f : A -> M B) k m m' e,
  x k m = (m', Raise e) -> mbind x f k m = (m', Raise e).
Proof. intros. unfold mbind. rewrite H. reflexivity. Qed.

Lemma mbind_assoc : forall A B C (x : M A) (g : A -> M B) (f : B -> M C) k m,
  mbind (mbind x g) f k m = mbind x (fun a => mbind (g a) f) k m.
Proof. intros. unfold mbind. destruct (x k m) as [m' [a|e]]; reflexivity. Qed.

Lemma lookup_update_same : forall A h (x y : A) l, lookup h l = Some y -> lookup h (update h x l) = Some x.
Proof.
  induction l as [|[k v] r IH]; simpl; intros H; [discriminate|].
  destruct (Nat.eqb k h) eqn:E; simpl; rewrite E; [reflexivity|auto].
Qed.

Lemma lookup_update_other : forall A h h' (x : A) l, h' <> h -> lookup h' (update h x l) = lookup h' l.
Proof.
  induction l as [|[k v] r IH]; simpl; intros H; [reflexivity|].
  destruct (Nat.eqb k h) eqn:E; simpl.
  - apply Nat.eqb_eq in E. subst. destruct (Nat.eqb h h') eqn:E'; [apply Nat.eqb_eq in E'; congruence|auto].
  - destruct (Nat.eqb k h'); auto.
Qed.

Lemma sdict_get_set_same : forall k v l, sdict_get k (sdict_set k v l) = Some v.
Proof.
  induction l as [|[k' v'] r IH]; simpl; [now rewrite String.eqb_refl|].
  destruct (String.eqb k' k) eqn:E; simpl; rewrite ?String.eqb_refl, ?E; auto.
Qed.

Lemma sdict_get_set_other : forall k k' v l, k' <> k -> sdict_get k' (sdict_set k v l) = sdict_get k' l.
Proof.
  induction l as [|[k0 v0] r IH]; simpl; intros H.
  - destruct (String.eqb k k') eqn:E; [apply String.eqb_eq in E; congruence|reflexivity].
  - destruct (String.eqb k0 k) eqn:E; simpl.
    + apply String.eqb_eq in E. subst.
      destruct (String.eqb k k') eqn:E'; [apply String.eqb_eq in E'; congruence|reflexivity].
    + destruct (String.eqb k0 k'); auto.
Qed.

Lemma nth_error_replace_same : forall A i (x : A) l y, nth_error l i = Some y -> nth_error (replace_nth i x l) i = Some x.
Proof. induction i; destruct l; simpl; intros; try discriminate; eauto. Qed.

Lemma nth_error_replace_other : forall A i j (x : A) l, i <> j -> nth_error (replace_nth i x l) j = nth_error l j.
Proof. induction i; destruct l, j; simpl; intros; try reflexivity; try lia. apply IHi. lia. Qed.

Lemma nat_index_nat : forall i k m, nat_index (PInt (Z.of_nat i)) k m = (m, Ret i).
Proof.
  intros. unfold nat_index. destruct (Z.ltb (Z.of_nat i) 0) eqn:E; [apply Z.ltb_lt in E; lia|].
  unfold ret. now rewrite Nat2Z.id.
Qed.

Lemma ints_of_map : forall l, ints_of (map PInt l) = Some l.
Proof. induction l; simpl; [reflexivity|now rewrite IHl]. Qed.

Lemma ints_of_map_nat : forall l, ints_of (map (fun i => PInt (Z.of_nat i)) l) = Some (map Z.of_nat l).
Proof. induction l; simpl; [reflexivity|now rewrite IHl]. Qed.

Lemma update_cons_same : forall A h (v x : A) r, update h v ((h, x) :: r) = (h, v) :: update h v r.
Proof. intros. unfold update. simpl. now rewrite Nat.eqb_refl. Qed.

(* what allocate_taco_structure builds per level *)
Definition arrl (z : Z) : list pv := if Z.eqb z 0 then [] else [PPtr Null; PPtr Null].
Definition ptrl (z : Z) : list ptr := if Z.eqb z 0 then [] else [Null; Null].
Fixpoint metas (n : nat) (modes : list Z) : list pv :=
  match modes with [] => [] | z :: r => PNewMeta n (arrl z) :: metas (S n) r end.
Fixpoint lvls (n : nat) (modes : list Z) : list (ptr * list ptr) :=
  match modes with [] => [] | z :: r => (Meta n, ptrl z) :: lvls (S n) r end.

Lemma levels_of_metas : forall modes n, levels_of (metas n modes) = Some (lvls n modes).
Proof.
  induction modes as [|z r IH]; intros n; simpl; [reflexivity|]. rewrite IH.
  unfold arrl, ptrl. destruct (Z.eqb z 0); reflexivity.
Qed.

Lemma nat_index_0 : forall k m, nat_index (PInt 0) k m = (m, Ret 0).
Proof. reflexivity. Qed.
Lemma nat_index_1 : forall k m, nat_index (PInt 1) k m = (m, Ret 1).
Proof. reflexivity. Qed.

Create HintDb ownapi.
#[local] Hint Unfold cs_get cs_set get_struct put_struct struct_key wkd_getitem wkd_get wkd_setitem ffi_gc ffi_cast ffi_new
  ptr_of py_slice0 py_getitem py_store dict_store py_enumerate py_iter py_unpack2 py_eq py_lt py_len py_bound
  py_append py_range py_set_eq py_in py_zip_strict py_keys py_attr py_dict_star py_dict1 new_dict new_dict_with new_struct
  new_tensor tensor_cffi tensor_set_cffi drop drop_all level_ptr set_level_array : ownapi.

Ltac look :=
  match goal with
  | |- context [nat_index (PInt (Z.of_nat ?i)) ?k ?m] => rewrite (nat_index_nat i k m)
  | |- context [nat_index (PInt 0) ?k ?m] => rewrite (nat_index_0 k m)
  | |- context [nat_index (PInt 1) ?k ?m] => rewrite (nat_index_1 k m)
  | |- context [Nat.eqb ?a ?a] => rewrite (Nat.eqb_refl a)
  | H : lookup ?a ?b = _ |- context [lookup ?a ?b] => rewrite H
  | H : sdict_get ?a ?b = _ |- context [sdict_get ?a ?b] => rewrite H
  | H : nth_error ?a ?b = _ |- context [nth_error ?a ?b] => rewrite H
  | |- context [lookup ?h (update ?h _ _)] =>
      erewrite lookup_update_same by (repeat first [eassumption | eapply lookup_update_same])
  | |- context [sdict_get ?k (sdict_set ?k _ _)] => rewrite sdict_get_set_same
  | |- context [sdict_get ?k' (sdict_set ?k _ _)] => rewrite (sdict_get_set_other k k') by discriminate
  | |- context [nth_error (replace_nth ?i _ _) ?i] => erewrite nth_error_replace_same by eassumption
  | H : Nat.ltb ?a ?b = _ |- context [Nat.ltb ?a ?b] => rewrite H
  | H : Nat.leb ?a ?b = _ |- context [Nat.leb ?a ?b] => rewrite H
  | H : sd_order ?d = _ |- context [sd_order ?d] => rewrite H
  | |- context [Nat.ltb 0 2] => change (Nat.ltb 0 2) with true
  | |- context [Nat.ltb 1 2] => change (Nat.ltb 1 2) with true
  | H : Z.ltb ?a ?b = _ |- context [Z.ltb ?a ?b] => rewrite H
  | |- context [update ?h ?v ((?h, ?x) :: ?r)] => rewrite (update_cons_same _ h v x r)
  | |- context [ints_of (map PInt ?l)] => rewrite (ints_of_map l)
  | |- context [levels_of (metas ?n ?l)] => rewrite (levels_of_metas l n)
  | |- context [Nat.leb ?a ?a] => rewrite (Nat.leb_refl a)
  | |- context [firstn (List.length ?l) ?l] => rewrite (firstn_all l)
  end.

Section Exec.
Local Arguments mbind {A B} x f k m /.
Local Arguments ret {A} a k m /.
Local Arguments raise {A} e k m /.
Local Arguments get k m /.
Local Arguments put m k m0 /.
Local Arguments env k m /.
Local Arguments lift {A} o e k m /.
Local Arguments nat_index : simpl never.
Local Arguments Nat.ltb : simpl never.
Local Arguments update : simpl never.
Local Arguments Z.ltb : simpl never.
Local Arguments metas : simpl never.
Local Arguments release_all : simpl never.

Ltac op_solve := repeat (autounfold with ownapi; cbn; first [ reflexivity | progress look | idtac ]).

Ltac mstep :=
  cbv beta iota;
  match goal with
  | |- mbind (mbind _ _) _ _ _ = _ => rewrite mbind_assoc
  | |- mbind (if _ then _ else _) _ _ _ = _ => fail 1 "if"
  | |- mbind (mfold _ _ _) _ _ _ = _ => fail 1 "loop"
  | |- mbind _ _ _ _ = _ => erewrite mbind_ret by op_solve
  end.

(* ------------------------------------------------------------------ heap bookkeeping *)

Lemma bump_n_add : forall a b s, bump_n a (bump_n b s) = bump_n (a + b) s.
Proof. induction a; simpl; intros; [reflexivity|now rewrite IHa]. Qed.

Lemma release_all_app : forall l1 l2 h, release_all l2 (release_all l1 h) = release_all (l1 ++ l2) h.
Proof.
  intros. unfold release_all. rewrite map_map. apply map_ext. intros [a b]. simpl.
  rewrite bump_n_add, count_occ_app, Nat.add_comm. reflexivity.
Qed.

Lemma gc_frees_app : forall a b, gc_frees (a ++ b) = gc_frees a ++ gc_frees b.
Proof. intros. unfold gc_frees. apply flat_map_app. Qed.

Lemma owned_PList : forall l, owned (PList l) = flat_map owned l.
Proof. induction l; simpl in *; [reflexivity|now rewrite IHl]. Qed.

(* ------------------------------------------------------------------ how a machine state evolves while holder h is filled *)

(* everything Ownership.v sees stays, except: the slots of dict h (its "**indices" slot becomes lv', its other
   slots as given by [others]) and the blocks released / free() calls made for the dropped entries dr *)
Record evolves (h : nat) (m m' : mstate) (lv' : pv) (dr : list hentry) : Prop := {
  ev_tensors : m_tensors m' = m_tensors m;
  ev_structs : m_structs m' = m_structs m;
  ev_wkd : m_wkd m' = m_wkd m;
  ev_next : m_next m' = m_next m;
  ev_other : forall h', h' <> h -> lookup h' (m_dicts m') = lookup h' (m_dicts m);
  ev_dict : exists dl dl', lookup h (m_dicts m) = Some dl /\ lookup h (m_dicts m') = Some dl' /\
            sdict_get "**indices" dl' = Some lv' /\
            forall k, k <> "**indices" -> sdict_get k dl' = sdict_get k dl;
  ev_heap : m_heap m' = release_all (map haddr dr) (m_heap m);
  ev_frees : m_frees m' = m_frees m ++ gc_frees dr
}.

Lemma evolves_refl : forall h m dl lv, lookup h (m_dicts m) = Some dl -> sdict_get "**indices" dl = Some lv ->
  evolves h m m lv [].
Proof.
  intros. constructor; auto.
  - exists dl, dl. auto.
  - simpl. now rewrite release_all_nil.
  - simpl. now rewrite app_nil_r.
Qed.

Lemma evolves_trans : forall h m1 m2 m3 lv2 lv3 d1 d2,
  evolves h m1 m2 lv2 d1 -> evolves h m2 m3 lv3 d2 -> evolves h m1 m3 lv3 (d1 ++ d2).
Proof.
  intros h m1 m2 m3 lv2 lv3 d1 d2 [] []. constructor; try congruence.
  - intros. rewrite ev_other1, ev_other0; auto.
  - destruct ev_dict0 as (a & b & Ha & Hb & Hc & Hd). destruct ev_dict1 as (a' & b' & Ha' & Hb' & Hc' & Hd').
    exists a, b'. repeat split; auto. intros. rewrite Hd', <- Hd; auto. congruence.
  - rewrite ev_heap1, ev_heap0, map_app. apply release_all_app.
  - rewrite ev_frees1, ev_frees0, gc_frees_app. now rewrite app_assoc.
Qed.

(* ------------------------------------------------------------------ level structure *)

(* modes, the levels of the C structure, the "**indices" slot of the holder: aligned *)
Inductive wf_levels : list Z -> list (ptr * list ptr) -> list pv -> Prop :=
| wf_nil : wf_levels [] [] []
| wf_dense : forall mr lr xr lp, wf_levels mr lr xr -> wf_levels (0%Z :: mr) ((lp, []) :: lr) (PList [] :: xr)
| wf_sparse : forall mr lr xr lp p0 p1 a b, wf_levels mr lr xr ->
    wf_levels (1%Z :: mr) ((lp, [p0; p1]) :: lr) (PList [a; b] :: xr).

(* the holder slot after take_ownership_of_arrays *)
Fixpoint own_from (modes : list Z) (levels : list (ptr * list ptr)) (lv : list pv) : list pv :=
  match modes, levels, lv with
  | z :: mr, (_, arrs) :: lr, x :: xr =>
      (if Z.eqb z 1 then PList [PGc (nth 0 arrs Null); PGc (nth 1 arrs Null)] else x) :: own_from mr lr xr
  | _, _, _ => lv
  end.

Lemma wf_lengths : forall ms ls xs, wf_levels ms ls xs -> List.length ls = List.length ms /\ List.length xs = List.length ms.
Proof. induction 1; simpl; lia. Qed.

Lemma arr_addrs_app : forall a b, arr_addrs (a ++ b) = arr_addrs a ++ arr_addrs b.
Proof. induction a as [|[] r IH]; simpl; intros; auto. now rewrite IH. Qed.

Definition hgc (p : ptr) : list hentry := match p with Arr a => [HGc a] | _ => [] end.

Lemma owned_PGc : forall p, owned (PGc p) = hgc p.
Proof. destruct p; reflexivity. Qed.

Lemma hgc_addrs : forall l, flat_map hgc l = map HGc (arr_addrs l).
Proof. induction l as [|[] r IH]; simpl; auto. now rewrite IH. Qed.

Lemma own_from_entries : forall ms ls xs, wf_levels ms ls xs ->
  flat_map owned (own_from ms ls xs) = map HGc (arr_addrs (flat_map snd ls)).
Proof.
  induction 1; [reflexivity|simpl; auto|].
  cbn [own_from flat_map Z.eqb Pos.eqb nth snd]. rewrite owned_PList. cbn [flat_map].
  rewrite IHwf_levels, !owned_PGc, arr_addrs_app, map_app, <- !hgc_addrs. simpl. now rewrite !app_nil_r.
Qed.

(* ------------------------------------------------------------------ take_ownership_of_arrays: the loop *)

(* the loop body may carry any accumulator (locals assigned in the body): its value is irrelevant *)
Definition arrays_body_ok {A} (s h : nat) (F : A -> pv -> M A) : Prop :=
  (forall i acc k m, exists acc', F acc (PList [PInt (Z.of_nat i); PInt 0]) k m = (m, Ret acc')) /\
  (forall i acc k m d dl lp p0 p1 lv a b,
     lookup s (m_structs m) = Some d -> nth_error (sd_levels d) i = Some (lp, [p0; p1]) ->
     lookup h (m_dicts m) = Some dl -> sdict_get "**indices" dl = Some (PList lv) ->
     nth_error lv i = Some (PList [a; b]) ->
     exists m' acc', F acc (PList [PInt (Z.of_nat i); PInt 1]) k m = (m', Ret acc') /\
                evolves h m m' (PList (replace_nth i (PList [PGc p0; PGc p1]) lv)) (owned a ++ owned b)).

Lemma replace_nth_app_len : forall A (pre : list A) x y r, replace_nth (List.length pre) y (pre ++ x :: r) = pre ++ y :: r.
Proof. induction pre; simpl; intros; [reflexivity|now rewrite IHpre]. Qed.

Lemma nth_error_app_len : forall A (pre : list A) x r, nth_error (pre ++ x :: r) (List.length pre) = Some x.
Proof. induction pre; simpl; auto. Qed.

Lemma arrays_loop : forall A s h (F : A -> pv -> M A), arrays_body_ok s h F ->
  forall ms lsuf suf, wf_levels ms lsuf suf ->
  forall k d lpre pre m dl acc,
    List.length lpre = List.length pre -> sd_levels d = lpre ++ lsuf ->
    lookup s (m_structs m) = Some d -> lookup h (m_dicts m) = Some dl ->
    sdict_get "**indices" dl = Some (PList (pre ++ suf)) ->
    exists m' acc', mfold F (enum_from (List.length pre) (map PInt ms)) acc k m = (m', Ret acc') /\
               evolves h m m' (PList (pre ++ own_from ms lsuf suf)) (flat_map owned suf).
Proof.
  intros A s h F [Hd Hs]. induction 1; intros k d lpre pre m dl acc Hlen Hlv Hst Hdi Hsl.
  - exists m, acc. split; [reflexivity|]. simpl. eapply evolves_refl; eauto.
  - cbn [map enum_from mfold]. destruct (Hd (List.length pre) acc k m) as (acc1 & Hr1). cbn [mbind]. rewrite Hr1.
    destruct (IHwf_levels k d (lpre ++ [(lp, [])]) (pre ++ [PList []]) m dl acc1) as (m' & acc' & Hr & He); auto.
    + rewrite !app_length. simpl. lia.
    + now rewrite <- app_assoc.
    + now rewrite <- app_assoc.
    + exists m', acc'. rewrite app_length in Hr. simpl in Hr. rewrite Nat.add_1_r in Hr. split; [exact Hr|].
      rewrite <- app_assoc in He. exact He.
  - cbn [map enum_from mfold].
    destruct (Hs (List.length pre) acc k m d dl lp p0 p1 (pre ++ PList [a; b] :: xr) a b) as (m1 & acc1 & Hr1 & He1); auto.
    { rewrite Hlv, <- Hlen. apply nth_error_app_len. }
    { apply nth_error_app_len. }
    cbn [mbind]. rewrite Hr1.
    rewrite replace_nth_app_len in He1.
    destruct (ev_dict _ _ _ _ _ He1) as (dl0 & dl1 & Hdl0 & Hdl1 & Hget & _).
    destruct (IHwf_levels k d (lpre ++ [(lp, [p0; p1])]) (pre ++ [PList [PGc p0; PGc p1]]) m1 dl1 acc1) as (m' & acc' & Hr & He); auto.
    + rewrite !app_length. simpl. lia.
    + now rewrite <- app_assoc.
    + now rewrite (ev_structs _ _ _ _ _ He1).
    + now rewrite <- app_assoc.
    + exists m', acc'. rewrite app_length in Hr. simpl in Hr. rewrite Nat.add_1_r in Hr. split; [exact Hr|].
      rewrite <- app_assoc in He. simpl in He. cbn [own_from Z.eqb Pos.eqb nth flat_map].
      rewrite owned_PList. cbn [flat_map]. rewrite ?app_nil_r. eapply evolves_trans; eauto.
Qed.

(* a dict store that succeeds *)
Lemma evolves_store : forall h m dl c c' old,
  lookup h (m_dicts m) = Some dl -> sdict_get "**indices" dl = Some c ->
  evolves h m (drop_value old (with_dicts m (update h (sdict_set "**indices" c' dl) (m_dicts m)))) c' (owned old).
Proof.
  intros. constructor; try reflexivity.
  - intros. simpl. now apply lookup_update_other.
  - exists dl, (sdict_set "**indices" c' dl). simpl. repeat split; auto.
    + eapply lookup_update_same; eauto.
    + apply sdict_get_set_same.
    + intros. now apply sdict_get_set_other.
Qed.

Lemma evolves_gc_log : forall h m m' g lv dr, evolves h (with_gc_log m g) m' lv dr -> evolves h m m' lv dr.
Proof. intros h m m' g lv dr []. constructor; auto. Qed.

(* the generated body satisfies the specification *)
Ltac arrays_body :=
  split;
  [ intros; repeat mstep; reflexivity
  | intros i k m d dl lp p0 p1 lv a b Hst Hlev Hdi Hsl Hlv;
    assert (Hlt : Nat.ltb i (List.length (sd_levels d)) = true)
      by (apply Nat.ltb_lt; apply nth_error_Some; congruence);
    repeat mstep ].

(* ------------------------------------------------------------------ take_ownership_of_arrays *)

Definition wkd_ok (m : mstate) : Prop :=
  NoDup (map fst (m_wkd m)) /\
  forall s1 s2 h, In (s1, h) (m_wkd m) -> In (s2, h) (m_wkd m) -> s1 = s2.

(* the structure and its holder are aligned (what allocate_taco_structure establishes and every ownership
   function preserves) *)
Definition wf_struct (d : sdesc) (dl : list (string * pv)) : Prop :=
  sd_order d = Z.of_nat (List.length (sd_modes d)) /\
  exists lv, sdict_get "**indices" dl = Some (PList lv) /\ wf_levels (sd_modes d) (sd_levels d) lv.

Definition vals_entries (dl : list (string * pv)) : list hentry :=
  match sdict_get "vals" dl with Some v => owned v | None => [] end.

Lemma firstn_map_all : forall A B (f : A -> B) l, firstn (List.length l) (map f l) = map f l.
Proof. intros. rewrite <- (map_length f l). apply firstn_all. Qed.

Lemma lookup_In_inv : forall A k (v : A) l, NoDup (map fst l) -> In (k, v) l -> lookup k l = Some v.
Proof. intros. now apply lookup_NoDup. Qed.

(* an accumulator (unit, or a tuple of carried locals) is split into its components *)
Ltac destruct_acc :=
  repeat match goal with
         | a : (_ * _)%type |- _ => destruct a
         | a : unit |- _ => destruct a
         end.

Ltac proj := cbn [m_tensors m_structs m_dicts m_wkd m_heap m_frees m_meta_frees m_gc_log m_next m_next_meta
  drop_value set_heap with_dicts with_gc_log with_next with_structs with_wkd with_tensors].

Lemma replace_nth_twice : forall A i (x y : A) l, replace_nth i x (replace_nth i y l) = replace_nth i x l.
Proof. induction i; destruct l; simpl; intros; auto. now rewrite IHi. Qed.

(* the final state of take_ownership_of_arrays *)
Record took (s h : nat) (d : sdesc) (dl : list (string * pv)) (m m' : mstate) : Prop := {
  tk_tensors : m_tensors m' = m_tensors m;
  tk_structs : m_structs m' = m_structs m;
  tk_wkd : m_wkd m' = m_wkd m;
  tk_next : m_next m' = m_next m;
  tk_other : forall h', h' <> h -> lookup h' (m_dicts m') = lookup h' (m_dicts m);
  tk_dict : exists dl', lookup h (m_dicts m') = Some dl' /\
            holder_entries dl' = map HGc (sd_fields d);
  tk_heap : m_heap m' = release_all (map haddr (holder_entries dl)) (m_heap m);
  tk_frees : m_frees m' = m_frees m ++ gc_frees (holder_entries dl)
}.

(* x runs without exception from m and its final state and result satisfy P *)
Definition runs_to {A} (x : M A) (k : kenv) (m : mstate) (P : mstate -> A -> Prop) : Prop :=
  exists m' a, x k m = (m', Ret a) /\ P m' a.

Lemma runs_bind : forall A B (x : M A) (f : A -> M B) k m m1 a P,
  x k m = (m1, Ret a) -> runs_to (f a) k m1 P -> runs_to (mbind x f) k m P.
Proof. intros A B x f k m m1 a P H (m' & b & Hr & HP). exists m', b. split; auto. simpl. rewrite H. exact Hr. Qed.

Lemma runs_assoc : forall A B C (x : M A) (g : A -> M B) (f : B -> M C) k m P,
  runs_to (mbind x (fun a => mbind (g a) f)) k m P -> runs_to (mbind (mbind x g) f) k m P.
Proof. intros A B C x g f k m P (m' & b & Hr & HP). exists m', b. split; auto. rewrite mbind_assoc. exact Hr. Qed.

Lemma runs_ret : forall A (a : A) k m (P : mstate -> A -> Prop), P m a -> runs_to (ret a) k m P.
Proof. intros. exists m, a. split; auto. Qed.

Ltac rstep :=
  cbv beta iota;
  match goal with
  | |- runs_to (mbind (mbind _ _) _) _ _ _ => eapply runs_assoc
  | |- runs_to (mbind (if _ then _ else _) _) _ _ _ => fail 1 "if"
  | |- runs_to (mbind (mfold _ _ _) _) _ _ _ => fail 1 "loop"
  | |- runs_to (mbind _ _) _ _ _ => eapply runs_bind; [solve [op_solve] | ]
  end.

Theorem gen_take_ownership_run : forall s h d dl k m,
  lookup s (m_wkd m) = Some h -> lookup s (m_structs m) = Some d -> lookup h (m_dicts m) = Some dl ->
  wf_struct d dl ->
  runs_to (take_ownership_of_arrays (PStruct s)) k m (fun m' r => r = PNone /\ took s h d dl m m').
Proof.
  intros s h d dl k m Hw Hs Hd [Hord (lv & Hlv & Wf)].
  unfold take_ownership_of_arrays.
  repeat rstep.
    rewrite firstn_all.
  match goal with |- runs_to (mbind (mfold ?F _ _) _) _ _ _ => assert (HF : arrays_body_ok s h F) end.
  { split.
    - intros i acc k0 m0. destruct_acc. eexists. repeat mstep. reflexivity.
    - intros i acc k0 m0 d0 dl0 lp p0 p1 lv0 a b Hst Hlev Hdi Hsl Hlv0. destruct_acc.
      assert (Hlt : Nat.ltb i (List.length (sd_levels d0)) = true)
        by (apply Nat.ltb_lt; apply nth_error_Some; congruence).
      eexists. eexists. split. { repeat mstep. reflexivity. }
      rewrite ?replace_nth_twice. constructor; proj; try reflexivity.
      all: first
        [ solve [intros; rewrite ?lookup_update_other by auto; reflexivity]
        | solve [exists dl0; eexists; split; [eassumption|]; split; [|split];
                 [ erewrite lookup_update_same by (repeat first [eassumption | eapply lookup_update_same]); reflexivity
                 | apply sdict_get_set_same
                 | intros; rewrite !sdict_get_set_other by auto; reflexivity ]]
        | solve [rewrite ?release_all_app, ?map_app; reflexivity]
        | solve [rewrite ?gc_frees_app, ?app_assoc; reflexivity] ]. }
  match goal with |- runs_to (mbind (mfold _ _ ?acc0) _) _ _ _ =>
    destruct (arrays_loop _ s h _ HF _ _ _ Wf k d [] [] m dl acc0 eq_refl eq_refl Hs Hd Hlv) as (m1 & acc1 & Hr & He) end.
  eapply runs_bind; [exact Hr|]. clear Hr HF. destruct_acc.
  destruct (ev_dict _ _ _ _ _ He) as (dl0 & dl1 & Hdl0 & Hdl1 & Hget1 & Hoth1).
  assert (dl0 = dl) by congruence. subst dl0.
  assert (Hs1 : lookup s (m_structs m1) = Some d) by (now rewrite (ev_structs _ _ _ _ _ He)).
  assert (Hv1 : sdict_get "vals" dl1 = sdict_get "vals" dl) by (apply Hoth1; discriminate).
  assert (Hnew : holder_entries (sdict_set "vals" (PGc (sd_vals d)) dl1) = map HGc (sd_fields d)).
  { unfold holder_entries. rewrite sdict_get_set_other by discriminate. rewrite Hget1, sdict_get_set_same.
    rewrite owned_PList, app_nil_l. rewrite (own_from_entries _ _ _ Wf), owned_PGc.
    unfold sd_fields. rewrite arr_addrs_app, map_app. f_equal. destruct (sd_vals d); reflexivity. }
  assert (Hold : holder_entries dl = flat_map owned lv ++ vals_entries dl).
  { unfold holder_entries, vals_entries. now rewrite Hlv, owned_PList. }
  unfold vals_entries in Hold.
  destruct (sdict_get "vals" dl) as [oldv|] eqn:Hv.
  - repeat rstep. apply runs_ret. split; [reflexivity|].
    constructor; proj; try (now destruct He).
    + intros. rewrite lookup_update_other by auto. now apply (ev_other _ _ _ _ _ He).
    + eexists. split; [erewrite lookup_update_same; [reflexivity|eassumption]|exact Hnew].
    + rewrite (ev_heap _ _ _ _ _ He), release_all_app, Hold, map_app. reflexivity.
    + rewrite (ev_frees _ _ _ _ _ He), Hold, gc_frees_app, app_assoc. reflexivity.
  - repeat rstep. apply runs_ret. split; [reflexivity|].
    constructor; proj; try (now destruct He).
    + intros. rewrite lookup_update_other by auto. now apply (ev_other _ _ _ _ _ He).
    + eexists. split; [erewrite lookup_update_same; [reflexivity|eassumption]|exact Hnew].
    + rewrite (ev_heap _ _ _ _ _ He), Hold, app_nil_r. reflexivity.
    + rewrite (ev_frees _ _ _ _ _ He), Hold, app_nil_r. reflexivity.
Qed.

Lemma lookup_map_snd : forall A B (g : A -> B) k l,
  lookup k (map (fun p => (fst p, g (snd p))) l) = option_map g (lookup k l).
Proof. induction l as [|[k' v] r IH]; simpl; [reflexivity|]. destruct (Nat.eqb k' k); auto. Qed.

Lemma state_eq : forall a b, names a = names b -> tensors a = tensors b -> structs a = structs b -> wkd a = wkd b ->
  heap a = heap b -> next a = next b -> a = b.
Proof. intros [] []; simpl; intros; subst; reflexivity. Qed.

(* KeyError: no holder is registered for the structure; nothing happens *)
Theorem gen_take_ownership_keyerror : forall s k m,
  lookup s (m_wkd m) = None -> take_ownership_of_arrays (PStruct s) k m = (m, Raise KeyError).
Proof. intros. unfold take_ownership_of_arrays. autounfold with ownapi. cbn. rewrite H. reflexivity. Qed.

(* take_ownership_of_arrays performs exactly Ownership.take_ownership *)
Theorem gen_take_ownership_equiv : forall nm s h d dl k m,
  wkd_ok m ->
  lookup s (m_wkd m) = Some h -> lookup s (m_structs m) = Some d -> lookup h (m_dicts m) = Some dl ->
  wf_struct d dl ->
  exists m', take_ownership_of_arrays (PStruct s) k m = (m', Ret PNone) /\
             take_ownership (abs nm m) s = Some (abs nm m', gc_frees (holder_of m h)) /\
             m_frees m' = m_frees m ++ gc_frees (holder_of m h) /\
             (exists dl', lookup h (m_dicts m') = Some dl' /\ holder_entries dl' = map HGc (sd_fields d)).
Proof.
  intros nm s h d dl k m [Hnd Hinj] Hw Hs Hd Hwf.
  destruct (gen_take_ownership_run s h d dl k m Hw Hs Hd Hwf) as (m' & r & Hr & -> & T).
  exists m'. split; [exact Hr|].
  assert (Hh : holder_of m h = holder_entries dl) by (unfold holder_of; now rewrite Hd).
  split; [|split; [rewrite Hh; apply T | apply T]].
  unfold take_ownership. cbn [abs wkd structs].
  rewrite (lookup_map_snd _ _ (holder_of m)), Hw. cbn [option_map].
  rewrite (lookup_map_snd _ _ sd_fields), Hs. cbn [option_map].
  f_equal. f_equal. apply state_eq; cbn [names tensors structs wkd heap next abs]; try reflexivity.
  - symmetry. apply T.
  - now rewrite (tk_structs _ _ _ _ _ _ T).
  - rewrite (tk_wkd _ _ _ _ _ _ T), map_map. apply map_ext_in. intros [s' h'] Hin. cbn [fst snd].
    destruct (Nat.eqb s' s) eqn:E.
    + apply Nat.eqb_eq in E. subst s'.
      assert (h' = h).
      { apply lookup_In in Hw. eapply NoDup_keys_unique in Hnd; [|exact Hin|exact Hw]. exact Hnd. }
      subst h'. destruct (tk_dict _ _ _ _ _ _ T) as (dl' & Hl & He). unfold holder_of. now rewrite Hl, He.
    + assert (h' <> h).
      { intro. subst h'. apply lookup_In in Hw. apply Nat.eqb_neq in E. apply E. eapply Hinj; eauto. }
      unfold holder_of. now rewrite (tk_other _ _ _ _ _ _ T) by auto.
  - rewrite (tk_heap _ _ _ _ _ _ T), Hh. reflexivity.
  - symmetry. apply T.
Qed.

(* ------------------------------------------------------------------ the kernel *)

Lemma kernel_levels_spec : forall e ms ls lv, wf_levels ms ls lv -> forall a,
  wf_levels ms (fst (kernel_levels e ms ls a)) lv /\
  arr_addrs (flat_map snd (fst (kernel_levels e ms ls a))) = seq a (snd (kernel_levels e ms ls a) - a) /\
  a <= snd (kernel_levels e ms ls a).
Proof.
  induction 1; intros a0.
  - simpl. rewrite Nat.sub_diag. repeat split; auto. constructor.
  - cbn [kernel_levels Z.eqb]. destruct (kernel_levels e mr lr a0) as [lr' a'] eqn:E.
    destruct (IHwf_levels a0) as (W & F & L). rewrite E in *. cbn [fst snd] in *.
    repeat split; auto. now constructor.
  - cbn [kernel_levels Z.eqb Pos.eqb].
    destruct e.
    + destruct (kernel_levels true mr lr (S a0)) as [lr' a'] eqn:E.
      destruct (IHwf_levels (S a0)) as (W & F & L). rewrite E in *. cbn [fst snd] in *.
      repeat split; [now constructor| |lia].
      cbn [flat_map snd app arr_addrs]. rewrite F.
      replace (a' - a0) with (S (a' - S a0)) by lia. reflexivity.
    + destruct (kernel_levels false mr lr (S (S a0))) as [lr' a'] eqn:E.
      destruct (IHwf_levels (S (S a0))) as (W & F & L). rewrite E in *. cbn [fst snd] in *.
      repeat split; [now constructor| |lia].
      cbn [flat_map snd app arr_addrs]. rewrite F.
      replace (a' - a0) with (S (S (a' - S (S a0)))) by lia. reflexivity.
Qed.

(* number of blocks the kernel allocates *)
Definition kernel_blocks (e : bool) (d : sdesc) (a : nat) : nat := snd (kernel_struct e d a) - a.

Lemma kernel_struct_spec : forall e d lv a, wf_levels (sd_modes d) (sd_levels d) lv ->
  let d' := fst (kernel_struct e d a) in
  wf_levels (sd_modes d') (sd_levels d') lv /\ sd_order d' = sd_order d /\ sd_modes d' = sd_modes d /\
  sd_fields d' = seq a (kernel_blocks e d a) /\ a < snd (kernel_struct e d a).
Proof.
  intros e d lv a W. unfold kernel_blocks, kernel_struct.
  destruct (kernel_levels_spec e _ _ _ W a) as (W' & F & L).
  destruct (kernel_levels e (sd_modes d) (sd_levels d) a) as [ls a'] eqn:E. cbn [fst snd] in *.
  repeat split; auto; [|lia].
  unfold sd_fields. cbn [sd_levels sd_vals]. rewrite arr_addrs_app, F. cbn [arr_addrs].
  replace (S a' - a) with ((a' - a) + 1) by lia. rewrite seq_app. simpl. f_equal. f_equal. lia.
Qed.

(* ------------------------------------------------------------------ TensorMethod.__call__ *)

(* what allocate_taco_structure leaves: a new structure s = next with NULL arrays, registered with a new holder
   that owns no array *)
Record allocated (modes : list Z) (m m' : mstate) : Prop := {
  al_next : m_next m' = S (m_next m);
  al_tensors : m_tensors m' = m_tensors m;
  al_heap : m_heap m' = m_heap m;
  al_frees : m_frees m' = m_frees m;
  al_rest : exists d h dl lv,
      m_structs m' = (m_next m, d) :: m_structs m /\ m_wkd m' = (m_next m, h) :: m_wkd m /\
      lookup h (m_dicts m') = Some dl /\
      (forall h', h' <> h -> lookup h' (m_dicts m') = lookup h' (m_dicts m)) /\
      (forall s', ~ In (s', h) (m_wkd m)) /\
      sd_modes d = modes /\ sd_order d = Z.of_nat (List.length modes) /\ sd_fields d = [] /\
      sdict_get "vals" dl = None /\ sdict_get "**indices" dl = Some (PList lv) /\ flat_map owned lv = [] /\
      wf_levels modes (sd_levels d) lv
}.

Definition ints (l : list Z) : pv := PList (map PInt l).

Definition alloc_valid (modes dims ordering : list Z) : Prop :=
  List.length dims = List.length modes /\ List.length ordering = List.length modes /\
  Forall (fun z => z = 0%Z \/ z = 1%Z) modes /\ Forall (fun z => (0 <= z)%Z) dims /\
  (let r := map Z.of_nat (seq 0 (List.length modes)) in zsubset ordering r && zsubset r ordering = true).

(* the specification of the regenerated allocate_taco_structure *)
Definition allocate_spec : Prop := forall modes dims ordering k m,
  alloc_valid modes dims ordering ->
  lookup (m_next m) (m_wkd m) = None -> (forall s', ~ In (s', m_next_meta m) (m_wkd m)) ->
  ~ In (m_next m) (map fst (m_structs m)) ->
  runs_to (allocate_taco_structure (ints modes) (ints dims) (ints ordering)) k m
          (fun m' r => r = PStruct (m_next m) /\ allocated modes m m').

(* {out: output, **bound} *)
Definition all_arguments (out : string) (v : pv) (bound : list (string * pv)) : list (string * pv) :=
  fold_left (fun acc p => sdict_set (fst p) (snd p) acc) bound [(out, v)].

Definition arg_of (tens : list (oid * oid)) (dict : list (string * pv)) (n : string) (a : nat) : Prop :=
  exists w, sdict_get n dict = Some (PTensor w) /\ lookup w tens = Some a.

Lemma mmap_cint : forall (G : pv -> M pv), (forall z k m, G (PMode z) k m = (m, Ret (PInt z))) ->
  forall l k m, mmap G (map PMode l) k m = (m, Ret (map PInt l)).
Proof. intros G HG. induction l; intros; simpl; [reflexivity|]. rewrite HG. rewrite IHl. reflexivity. Qed.

Lemma mmap_args : forall tens dict (G : pv -> M pv) k m,
  m_tensors m = tens ->
  (forall n a, arg_of tens dict n a -> G (PStr n) k m = (m, Ret (PStruct a))) ->
  forall names args, Forall2 (arg_of tens dict) names args ->
  mmap G (map PStr names) k m = (m, Ret (map PStruct args)).
Proof.
  intros tens dict G k m Ht HG. induction 1; simpl; [reflexivity|].
  rewrite (HG _ _ H). rewrite IHForall2. reflexivity.
Qed.

Lemma all_structs_map : forall l, all_structs (map PStruct l) = true.
Proof. induction l; simpl; auto. Qed.

Lemma update_fresh : forall A (s : nat) (x : A) l, ~ In s (map fst l) -> update s x l = l.
Proof. intros. unfold update. now apply map_update_fresh. Qed.

(* ------------------------------------------------------------------ allocate_taco_structure *)

Lemma mfold_id : forall (F : unit -> pv -> M unit) l,
  (forall x, In x l -> forall k m, F tt x k m = (m, Ret tt)) -> forall k m, mfold F l tt k m = (m, Ret tt).
Proof.
  induction l as [|x r IH]; intros H k m; simpl; [reflexivity|].
  rewrite (H x (or_introl eq_refl)). apply IH. intros. apply H. now right.
Qed.

Definition alloc_body_ok (F : pv * pv * pv * pv -> pv -> M (pv * pv * pv * pv)) : Prop :=
  forall z ca a1 a2 a3 k m, z = 0%Z \/ z = 1%Z ->
    F (ca, PList a1, PList a2, PList a3) (PInt z) k m =
    (with_next m (m_next m) (S (m_next_meta m)),
     Ret (PList (arrl z), PList (a1 ++ [PNewMeta (m_next_meta m) (arrl z)]), PList (a2 ++ [PList (arrl z)]),
          PList (a3 ++ [PNewMeta (m_next_meta m) (arrl z)]))).

Lemma alloc_loop : forall F, alloc_body_ok F ->
  forall modes, Forall (fun z => z = 0%Z \/ z = 1%Z) modes ->
  forall ca a1 a2 a3 k m, exists ca',
    mfold F (map PInt modes) (ca, PList a1, PList a2, PList a3) k m =
    (with_next m (m_next m) (List.length modes + m_next_meta m),
     Ret (ca', PList (a1 ++ metas (m_next_meta m) modes), PList (a2 ++ map (fun z => PList (arrl z)) modes),
          PList (a3 ++ metas (m_next_meta m) modes))).
Proof.
  intros F HF. induction 1 as [|z r Hz Hr IH]; intros ca a1 a2 a3 k m.
  - exists ca. cbn [map mfold List.length Nat.add]. unfold metas. rewrite !app_nil_r. destruct m; reflexivity.
  - cbn [map mfold]. cbn [mbind]. rewrite (HF z ca a1 a2 a3 k m Hz).
    destruct (IH (PList (arrl z)) (a1 ++ [PNewMeta (m_next_meta m) (arrl z)]) (a2 ++ [PList (arrl z)])
                 (a3 ++ [PNewMeta (m_next_meta m) (arrl z)]) k (with_next m (m_next m) (S (m_next_meta m)))) as (ca' & E).
    exists ca'. rewrite E. cbn [m_next m_next_meta with_next List.length].
    rewrite <- !app_assoc. cbn [app]. change (metas (m_next_meta m) (z :: r)) with (PNewMeta (m_next_meta m) (arrl z) :: metas (S (m_next_meta m)) r).
    f_equal. unfold with_next. cbn. f_equal. lia.
Qed.

Lemma lvls_fields : forall modes n, arr_addrs (flat_map snd (lvls n modes)) = [].
Proof. induction modes as [|z r IH]; intros; simpl; [reflexivity|]. rewrite arr_addrs_app, IH. unfold ptrl. destruct (Z.eqb z 0); reflexivity. Qed.

Lemma arrl_owned : forall modes, flat_map owned (map (fun z => PList (arrl z)) modes) = [].
Proof. induction modes as [|z r IH]; simpl; [reflexivity|]. rewrite IH. unfold arrl. destruct (Z.eqb z 0); reflexivity. Qed.

Lemma lvls_wf : forall modes, Forall (fun z => z = 0%Z \/ z = 1%Z) modes ->
  forall n, wf_levels modes (lvls n modes) (map (fun z => PList (arrl z)) modes).
Proof.
  induction 1 as [|z r Hz Hr IH]; intros n; simpl; [constructor|].
  destruct Hz; subst z; cbn; constructor; apply IH.
Qed.

Theorem gen_allocate_spec : allocate_spec.
Proof.
  intros modes dims ordering k m (Hl1 & Hl2 & Hmodes & Hdims & Hperm) Hfw Hdf Hfs.
  unfold allocate_taco_structure, ints.
  repeat rstep.
  rewrite ?map_length, Hl1, Hl2, ?Z.eqb_refl. cbn [negb andb].
  repeat rstep.
  eapply runs_bind.
  { apply mfold_id. intros x Hx k' m'. apply in_map_iff in Hx. destruct Hx as (z & <- & Hz).
    destruct (proj1 (Forall_forall _ _) Hmodes z Hz); subst z; repeat mstep; reflexivity. }
  repeat rstep.
  eapply runs_bind.
  { apply mfold_id. intros x Hx k' m'. apply in_map_iff in Hx. destruct Hx as (z & <- & Hz).
    assert (Hlt : Z.ltb z 0 = false) by (apply Z.ltb_ge; exact (proj1 (Forall_forall _ _) Hdims z Hz)).
    repeat mstep. rewrite Hlt. repeat mstep. reflexivity. }
  repeat rstep.
  eapply runs_bind.
  { unfold py_set_eq. rewrite ints_of_map, ints_of_map_nat. reflexivity. }
  rewrite Nat2Z.id, map_length, Hperm. cbn [negb].
  repeat rstep.
  (* name the state before the level loop: only these facts about it are used below (keeps the terms small) *)
  match goal with |- runs_to _ _ ?M _ => remember M as M1 eqn:HM1 end.
  assert (E_next : m_next M1 = S (m_next m)) by (subst M1; reflexivity).
  assert (E_meta : m_next_meta M1 = S (S (S (S (m_next_meta m))))) by (subst M1; reflexivity).
  assert (E_tensors : m_tensors M1 = m_tensors m) by (subst M1; reflexivity).
  assert (E_heap : m_heap M1 = m_heap m) by (subst M1; reflexivity).
  assert (E_frees : m_frees M1 = m_frees m) by (subst M1; reflexivity).
  assert (E_wkd : m_wkd M1 = m_wkd m) by (subst M1; reflexivity).
  assert (E_structs : exists d0, m_structs M1 = (m_next m, d0) :: m_structs m /\ sd_modes d0 = modes /\
                                 sd_order d0 = Z.of_nat (List.length modes)).
  { subst M1. proj. rewrite ?update_cons_same, ?(update_fresh _ _ _ _ Hfs). eexists. split; [reflexivity|].
    split; [reflexivity|]. cbn [sd_order]. now rewrite map_length. }
  assert (E_dicts : exists L0, lookup (m_next_meta m) (m_dicts M1) = Some L0 /\ sdict_get "vals" L0 = None /\
                               sdict_get "indices" L0 = None /\ sdict_get "*indices" L0 = None /\
                               sdict_get "**indices" L0 = None).
  { subst M1. proj. cbn [lookup fst]. rewrite Nat.eqb_refl. eexists. split; [reflexivity|]. repeat split. }
  assert (E_other : forall h', h' <> m_next_meta m -> lookup h' (m_dicts M1) = lookup h' (m_dicts m)).
  { subst M1. proj. intros h' Hh. cbn [lookup fst].
    destruct (Nat.eqb (m_next_meta m) h') eqn:E; [apply Nat.eqb_eq in E; congruence|].
    rewrite !lookup_update_other by auto. reflexivity. }
  clear HM1.
  destruct E_structs as (d0 & HS1 & Hd0m & Hd0o). destruct E_dicts as (L0 & HD1 & HL0v & HL0i & HL0s & HL0ss).
  assert (HS1' : lookup (m_next m) (m_structs M1) = Some d0) by (rewrite HS1; cbn [lookup fst]; now rewrite Nat.eqb_refl).
  assert (HW1 : lookup (m_next m) (m_wkd M1) = None) by (now rewrite E_wkd).
  match goal with |- runs_to (mbind (mfold ?F _ _) _) _ _ _ => assert (HF : alloc_body_ok F) end.
  { intros z ca a1 a2 a3 k' m' [Hz|Hz]; subst z; repeat mstep; reflexivity. }
  match goal with |- runs_to (mbind (mfold ?F _ ?acc) _) _ ?M _ =>
    destruct (alloc_loop F HF modes Hmodes PUnbound [] [] [] k M) as (ca' & Hloop) end.
  eapply runs_bind; [exact Hloop|]. clear Hloop HF.
  cbn [app].
  repeat rstep.
  apply runs_ret. split; [reflexivity|].
  constructor; proj; try assumption.
  eexists. exists (m_next_meta m). eexists. exists (map (fun z => PList (arrl z)) modes).
  rewrite HS1, E_wkd, ?update_cons_same, ?(update_fresh _ _ _ _ Hfs).
  split; [reflexivity|]. split; [reflexivity|].
  split; [erewrite lookup_update_same by (repeat first [eassumption | eapply lookup_update_same]); reflexivity|].
  split; [intros h' Hh; rewrite !lookup_update_other by auto; now apply E_other|].
  split; [exact Hdf|]. split; [exact Hd0m|]. split; [cbn [sd_order]; first [exact Hd0o | reflexivity]|].
  split; [unfold sd_fields; cbn [sd_levels sd_vals]; rewrite arr_addrs_app, lvls_fields; reflexivity|].
  split; [rewrite !sdict_get_set_other by discriminate; exact HL0v|].
  split; [apply sdict_get_set_same|].
  split; [apply arrl_owned|]. cbn [sd_levels]. apply lvls_wf. exact Hmodes.
Qed.

(* outcomes with exceptions: x ends in a state / result satisfying Q *)
Definition ends_in {A} (x : M A) (k : kenv) (m : mstate) (Q : mstate -> res A -> Prop) : Prop :=
  exists m' r, x k m = (m', r) /\ Q m' r.

Lemma ends_bind : forall A B (x : M A) (f : A -> M B) k m m1 a Q,
  x k m = (m1, Ret a) -> ends_in (f a) k m1 Q -> ends_in (mbind x f) k m Q.
Proof. intros A B x f k m m1 a Q H (m' & b & Hr & HQ). exists m', b. split; auto. simpl. rewrite H. exact Hr. Qed.

Lemma ends_assoc : forall A B C (x : M A) (g : A -> M B) (f : B -> M C) k m Q,
  ends_in (mbind x (fun a => mbind (g a) f)) k m Q -> ends_in (mbind (mbind x g) f) k m Q.
Proof. intros A B C x g f k m Q (m' & b & Hr & HQ). exists m', b. split; auto. rewrite mbind_assoc. exact Hr. Qed.

Lemma ends_ret : forall A (a : A) k m (Q : mstate -> res A -> Prop), Q m (Ret a) -> ends_in (ret a) k m Q.
Proof. intros. exists m, (Ret a). split; auto. Qed.

Lemma ends_raise_bind : forall A B e (f : A -> M B) k m (Q : mstate -> res B -> Prop),
  Q m (Raise e) -> ends_in (mbind (raise e) f) k m Q.
Proof. intros. exists m, (Raise e). split; auto. Qed.

Ltac estep :=
  cbv beta iota;
  match goal with
  | |- ends_in (mbind (mbind _ _) _) _ _ _ => eapply ends_assoc
  | |- ends_in (mbind (if _ then _ else _) _) _ _ _ => fail 1 "if"
  | |- ends_in (mbind (mfold _ _ _) _) _ _ _ => fail 1 "loop"
  | |- ends_in (mbind _ _) _ _ _ => eapply ends_bind; [solve [op_solve] | ]
  end.

(* the whole of TensorMethod.__call__ after the validation, whatever the kernel returns: the output is allocated,
   wrapped, the kernel runs, OWNERSHIP IS TAKEN, and only then the return value is tested *)
Lemma gen_call_core : allocate_spec ->
  forall nm modes dims ordering out formats bound args sh k m,
  alloc_valid modes dims ordering ->
  Inv (abs nm m) -> wkd_ok m -> (forall s', ~ In (s', m_next_meta m) (m_wkd m)) ->
  Forall2 (arg_of ((S (m_next m), m_next m) :: m_tensors m)
                  (all_arguments out (PTensor (S (m_next m))) bound)) (map fst formats) args ->
  nth_error args (k_out k) = Some (m_next m) ->
  (forall d, sd_modes d = modes -> kernel_blocks (k_empty k) d (S (S (m_next m))) = shape_blocks sh) ->
  exists m',
    TensorMethod_call_tail (PDictV bound) (ints dims) (PList (map PMode modes)) (ints ordering) (PStr out)
                           (PDictV formats) k m
      = (m', if Z.eqb (k_ret k) 0 then Ret (PTensor (S (m_next m))) else Raise RuntimeError) /\
    add_tensor (abs nm m) HGc Kernel (shape_blocks sh) = abs nm m' /\
    m_frees m' = m_frees m.
Proof.
  intros Halloc nm modes dims ordering out formats bound args sh k m Hval I Hwk Hdf Hargs Hout Hsh.
  cut (ends_in (TensorMethod_call_tail (PDictV bound) (ints dims) (PList (map PMode modes)) (ints ordering)
                  (PStr out) (PDictV formats)) k m
               (fun m' r => r = (if Z.eqb (k_ret k) 0 then Ret (PTensor (S (m_next m))) else Raise RuntimeError) /\
                            add_tensor (abs nm m) HGc Kernel (shape_blocks sh) = abs nm m' /\ m_frees m' = m_frees m)).
  { intros (m' & r & Hr & -> & He & Hf). exists m'. auto. }
  unfold TensorMethod_call_tail.
  repeat estep.
  match goal with |- ends_in (mbind (mmap ?G _) _) _ _ _ =>
    eapply ends_bind; [apply (mmap_cint G); intros; repeat mstep; reflexivity|] end.
  repeat estep.
  assert (Hfw : lookup (m_next m) (m_wkd m) = None).
  { pose proof (fresh_wkd _ I) as F. cbn [abs wkd next] in F. unfold keys in F. rewrite map_map in F.
    apply lookup_None. exact F. }
  assert (Hfst : ~ In (m_next m) (map fst (m_structs m))).
  { pose proof (fresh_struct _ I) as F. cbn [abs structs next] in F. unfold keys in F. rewrite map_map in F. exact F. }
  destruct (Halloc modes dims ordering k m Hval Hfw Hdf Hfst) as (m1 & r1 & Hr1 & -> & A).
  eapply ends_bind; [exact Hr1|]. clear Hr1.
  destruct (al_rest _ _ _ A) as (d & h & dl & lv & Hst & Hwkd & Hdl & Hoth & Hfresh & Hmodes & Hord & Hfields & Hvals & Hind & Hown & Wf).
  repeat estep.
  rewrite (al_next _ _ _ A), (al_tensors _ _ _ A).
  match goal with |- ends_in _ _ ?M _ => remember M as M2 eqn:HM2 end.
  assert (HT : m_tensors M2 = (S (m_next m), m_next m) :: m_tensors m) by (subst M2; reflexivity).
  replace (map (fun p : string * pv => PStr (fst p)) formats) with (map PStr (map fst formats)) by (now rewrite map_map).
  match goal with |- ends_in (mbind (mmap ?G _) _) _ _ _ =>
    eapply ends_bind; [eapply (mmap_args _ _ G k M2 HT); [|exact Hargs]|] end.
  { intros n a (w & Hd & Hl). unfold all_arguments in Hd. erewrite mbind_ret by op_solve.
    unfold tensor_cffi. cbn. rewrite HT, Hl. reflexivity. }
  repeat estep.
  assert (HS2 : m_structs M2 = (m_next m, d) :: m_structs m) by (subst M2; exact Hst).
  assert (HN2 : m_next M2 = S (S (m_next m))) by (subst M2; reflexivity).
  destruct (kernel_struct (k_empty k) d (S (S (m_next m)))) as [d' a'] eqn:EK.
  eapply ends_bind.
  { unfold call_kernel. rewrite all_structs_map. cbn. rewrite (map_nth_error PStruct _ _ Hout). cbn.
    rewrite HS2. cbn [lookup fst]. rewrite Nat.eqb_refl. cbn. rewrite HN2, EK. cbn. reflexivity. }
  cbv beta iota. estep.
  match goal with |- ends_in _ _ ?M _ => remember M as M3 eqn:HM3 end.
  destruct (kernel_struct_spec (k_empty k) d lv (S (S (m_next m)))) as (W' & Ho' & Hm' & Hf' & Hlt').
  { now rewrite Hmodes. }
  rewrite EK in *. cbn [fst snd] in *.
  assert (Hn : kernel_blocks (k_empty k) d (S (S (m_next m))) = shape_blocks sh) by (apply Hsh; exact Hmodes).
  assert (Ha' : a' = S (S (m_next m)) + shape_blocks sh).
  { unfold kernel_blocks in Hn. rewrite EK in Hn. cbn [snd] in Hn. lia. }
  assert (HW3 : m_wkd M3 = (m_next m, h) :: m_wkd m) by (subst M3 M2; exact Hwkd).
  assert (HS3 : m_structs M3 = (m_next m, d') :: m_structs m).
  { subst M3. cbn. rewrite HS2. unfold update. cbn [map fst]. rewrite Nat.eqb_refl. f_equal.
    apply map_update_fresh. pose proof (fresh_struct _ I) as F. cbn [abs structs next] in F.
    unfold keys in F. rewrite map_map in F. exact F. }
  assert (HD3 : m_dicts M3 = m_dicts m1) by (subst M3 M2; reflexivity).
  destruct (gen_take_ownership_run (m_next m) h d' dl k M3) as (m4 & r4 & Hr4 & -> & T).
  { rewrite HW3. cbn [lookup fst]. now rewrite Nat.eqb_refl. }
  { rewrite HS3. cbn [lookup fst]. now rewrite Nat.eqb_refl. }
  { now rewrite HD3. }
  { split; [rewrite Ho', Hm', Hmodes; exact Hord|]. exists lv. split; [exact Hind|]. exact W'. }
  eapply ends_bind; [exact Hr4|].
  assert (Hhe : holder_entries dl = []).
  { unfold holder_entries. now rewrite Hind, Hvals, owned_PList, Hown. }
  assert (HH3 : m_heap M3 = m_heap m ++ map (fun x => (x, {| b_kind := Kernel; b_status := Live |}))
                                            (seq (S (S (m_next m))) (shape_blocks sh))).
  { subst M3 M2. cbn. rewrite (al_heap _ _ _ A). do 3 f_equal. lia. }
  assert (HF3 : m_frees M3 = m_frees m) by (subst M3 M2; cbn; apply A).
  assert (HT3 : m_tensors M3 = (S (m_next m), m_next m) :: m_tensors m) by (subst M3; exact HT).
  assert (HX3 : m_next M3 = a') by (subst M3; reflexivity).
  assert (Hfinal : add_tensor (abs nm m) HGc Kernel (shape_blocks sh) = abs nm m4 /\ m_frees m4 = m_frees m).
  { split.
  - symmetry. apply state_eq; cbn [abs add_tensor names tensors structs wkd heap next]; try reflexivity.
    + now rewrite (tk_tensors _ _ _ _ _ _ T), HT3.
    + rewrite (tk_structs _ _ _ _ _ _ T), HS3. cbn [map fst snd]. now rewrite Hf', Hn.
    + rewrite (tk_wkd _ _ _ _ _ _ T), HW3. cbn [map fst snd].
      destruct (tk_dict _ _ _ _ _ _ T) as (dl' & Hl' & He').
      f_equal.
      * unfold holder_of. now rewrite Hl', He', Hf', Hn.
      * apply map_ext_in. intros [s' h'] Hin. cbn [fst snd].
        assert (h' <> h) by (intro; subst h'; exact (Hfresh _ Hin)).
        unfold holder_of. rewrite (tk_other _ _ _ _ _ _ T), HD3, Hoth by auto. reflexivity.
    + rewrite (tk_heap _ _ _ _ _ _ T), Hhe. cbn [map]. now rewrite release_all_nil, HH3.
    + rewrite (tk_next _ _ _ _ _ _ T), HX3. exact Ha'.
  - rewrite (tk_frees _ _ _ _ _ _ T), Hhe, HF3. cbn. now rewrite app_nil_r. }
  repeat estep.
  destruct (Z.eqb (k_ret k) 0); cbn [negb].
  - repeat estep. apply ends_ret. split; [reflexivity|exact Hfinal].
  - apply ends_raise_bind. split; [reflexivity|exact Hfinal].
Qed.


Theorem gen_call_equiv : allocate_spec ->
  forall nm modes dims ordering out formats bound args ins inf sh k m,
  alloc_valid modes dims ordering ->
  Inv (abs nm m) -> wkd_ok m -> (forall s', ~ In (s', m_next_meta m) (m_wkd m)) ->
  Forall2 (arg_of ((S (m_next m), m_next m) :: m_tensors m)
                  (all_arguments out (PTensor (S (m_next m))) bound)) (map fst formats) args ->
  nth_error args (k_out k) = Some (m_next m) ->
  k_ret k = 0%Z ->
  input_fields (abs nm m) ins = Some inf ->
  (forall d, sd_modes d = modes -> kernel_blocks (k_empty k) d (S (S (m_next m))) = shape_blocks sh) ->
  exists m',
    TensorMethod_call_tail (PDictV bound) (ints dims) (PList (map PMode modes)) (ints ordering) (PStr out)
                           (PDictV formats) k m = (m', Ret (PTensor (S (m_next m)))) /\
    eval_call (abs nm m) ins sh = (abs nm m', S (m_next m), [], Ok) /\
    m_frees m' = m_frees m.
Proof.
  intros Halloc nm modes dims ordering out formats bound args ins inf sh k m Hval I Hwk Hdf Hargs Hout Hret Hinf Hsh.
  destruct (gen_call_core Halloc nm modes dims ordering out formats bound args sh k m Hval I Hwk Hdf Hargs Hout Hsh)
    as (m' & Hr & He & Hf).
  exists m'. rewrite Hret in Hr. split; [exact Hr|]. split; [|exact Hf].
  rewrite (eval_call_ok _ _ _ _ I Hinf), He. reflexivity.
Qed.

(* the kernel returns non-zero: RuntimeError is raised AFTER take_ownership_of_arrays.  The machine state is the one
   of a successful call (what Ownership.v sees: eval_call's Ok state): the new structure's holder owns every block the
   kernel allocated; only no name is bound to the new Tensor, so the reference-counting cascade (Ownership.sweep)
   releases wrapper, structure, holder and calls free exactly once per block -- nothing leaks on this path. *)
Theorem gen_call_runtime_error : allocate_spec ->
  forall nm modes dims ordering out formats bound args ins inf sh k m,
  alloc_valid modes dims ordering ->
  Inv (abs nm m) -> wkd_ok m -> (forall s', ~ In (s', m_next_meta m) (m_wkd m)) ->
  Forall2 (arg_of ((S (m_next m), m_next m) :: m_tensors m)
                  (all_arguments out (PTensor (S (m_next m))) bound)) (map fst formats) args ->
  nth_error args (k_out k) = Some (m_next m) ->
  k_ret k <> 0%Z ->
  input_fields (abs nm m) ins = Some inf ->
  (forall d, sd_modes d = modes -> kernel_blocks (k_empty k) d (S (S (m_next m))) = shape_blocks sh) ->
  exists m',
    TensorMethod_call_tail (PDictV bound) (ints dims) (PList (map PMode modes)) (ints ordering) (PStr out)
                           (PDictV formats) k m = (m', Raise RuntimeError) /\
    eval_call (abs nm m) ins sh = (abs nm m', S (m_next m), [], Ok) /\
    m_frees m' = m_frees m.
Proof.
  intros Halloc nm modes dims ordering out formats bound args ins inf sh k m Hval I Hwk Hdf Hargs Hout Hret Hinf Hsh.
  destruct (gen_call_core Halloc nm modes dims ordering out formats bound args sh k m Hval I Hwk Hdf Hargs Hout Hsh)
    as (m' & Hr & He & Hf).
  exists m'. apply Z.eqb_neq in Hret. rewrite Hret in Hr. split; [exact Hr|]. split; [|exact Hf].
  rewrite (eval_call_ok _ _ _ _ I Hinf), He. reflexivity.
Qed.

(* C13_unique_owner, holder clause, on the regenerated take_ownership_of_arrays: afterwards the holder's entries own
   exactly the addresses in the structure's array fields, all through ffi.gc handles *)
Theorem gen_unique_owner_holder : forall s h d dl k m,
  lookup s (m_wkd m) = Some h -> lookup s (m_structs m) = Some d -> lookup h (m_dicts m) = Some dl ->
  wf_struct d dl ->
  exists m', take_ownership_of_arrays (PStruct s) k m = (m', Ret PNone) /\
             map haddr (holder_of m' h) = sd_fields d /\
             (forall e, In e (holder_of m' h) -> exists a, e = HGc a).
Proof.
  intros s h d dl k m Hw Hs Hd Hwf.
  destruct (gen_take_ownership_run s h d dl k m Hw Hs Hd Hwf) as (m' & r & Hr & -> & T).
  exists m'. split; [exact Hr|]. destruct (tk_dict _ _ _ _ _ _ T) as (dl' & Hl & He).
  unfold holder_of. rewrite Hl, He. split.
  - rewrite map_map. cbn [haddr]. apply map_id.
  - intros e Hin. apply in_map_iff in Hin. destruct Hin as (a & <- & _). now exists a.
Qed.

(* C13_eval_preserves_existing on the regenerated TensorMethod.__call__: in a machine state whose view is a
   reachable state of Ownership.v, the call frees nothing, keeps every existing block / structure / holder, and the
   holder it fills owns only blocks that did not exist before *)
Theorem gen_eval_preserves_existing : allocate_spec ->
  forall eager ops nm modes dims ordering out formats bound args ins inf sh k m,
  abs nm m = t_state (run eager ops) ->
  alloc_valid modes dims ordering ->
  wkd_ok m -> (forall s', ~ In (s', m_next_meta m) (m_wkd m)) ->
  Forall2 (arg_of ((S (m_next m), m_next m) :: m_tensors m)
                  (all_arguments out (PTensor (S (m_next m))) bound)) (map fst formats) args ->
  nth_error args (k_out k) = Some (m_next m) ->
  k_ret k = 0%Z ->
  input_fields (abs nm m) ins = Some inf ->
  (forall d, sd_modes d = modes -> kernel_blocks (k_empty k) d (S (S (m_next m))) = shape_blocks sh) ->
  exists m',
    TensorMethod_call_tail (PDictV bound) (ints dims) (PList (map PMode modes)) (ints ordering) (PStr out)
                           (PDictV formats) k m = (m', Ret (PTensor (S (m_next m)))) /\
    m_frees m' = m_frees m /\
    (forall a b, In (a, b) (heap (abs nm m)) -> In (a, b) (heap (abs nm m'))) /\
    (forall s f, In (s, f) (structs (abs nm m)) -> In (s, f) (structs (abs nm m'))) /\
    (forall s h, In (s, h) (wkd (abs nm m)) -> In (s, h) (wkd (abs nm m'))) /\
    (forall s h e, In (s, h) (wkd (abs nm m')) -> In e h ->
       In (s, h) (wkd (abs nm m)) \/ ~ In (haddr e) (map fst (heap (abs nm m)))).
Proof.
  intros Halloc eager ops nm modes dims ordering out formats bound args ins inf sh k m Habs Hval Hwk Hdf Hargs Hout Hret Hinf Hsh.
  assert (I : Inv (abs nm m)) by (rewrite Habs; apply (run_spec eager ops)).
  destruct (gen_call_equiv Halloc nm modes dims ordering out formats bound args ins inf sh k m Hval I Hwk Hdf Hargs Hout Hret Hinf Hsh)
    as (m' & Hr & He & Hf).
  exists m'. split; [exact Hr|]. split; [exact Hf|].
  pose proof (eval_preserves_existing eager ops ins sh) as P. cbv zeta in P.
  rewrite <- Habs, He in P. tauto.
Qed.

(* the same two theorems without hypothesis on allocate_taco_structure *)
Definition gen_call_equiv_full := gen_call_equiv gen_allocate_spec.
Definition gen_eval_preserves_existing_full := gen_eval_preserves_existing gen_allocate_spec.
Definition gen_call_runtime_error_full := gen_call_runtime_error gen_allocate_spec.

(* ------------------------------------------------------------------ taco_structure_to_cffi *)

Lemma update_update : forall A h (x y : A) l, update h x (update h y l) = update h x l.
Proof.
  intros. unfold update. rewrite map_map. apply map_ext. intros [k v]. simpl.
  destruct (Nat.eqb k h) eqn:E; simpl; now rewrite E.
Qed.

Definition new_blocks (a n : nat) : list (addr * block) :=
  map (fun x => (x, {| b_kind := CffiNew; b_status := Live |})) (seq a n).

Lemma new_blocks_app : forall a n1 n2, new_blocks a n1 ++ new_blocks (a + n1) n2 = new_blocks a (n1 + n2).
Proof. intros. unfold new_blocks. now rewrite seq_app, map_app. Qed.

Definition set_levels (d : sdesc) (ls : list (ptr * list ptr)) : sdesc :=
  {| sd_order := sd_order d; sd_dims_p := sd_dims_p d; sd_ordering_p := sd_ordering_p d; sd_types_p := sd_types_p d;
     sd_modes := sd_modes d; sd_indices_p := sd_indices_p d; sd_levels := ls; sd_vals := sd_vals d |}.

(* how the machine evolves while the arrays of structure s / holder h are created from Python data *)
Record filled (s h : nat) (m m' : mstate) (lv' : list pv) (ls' : list (ptr * list ptr)) (n : nat) : Prop := {
  fi_tensors : m_tensors m' = m_tensors m;
  fi_wkd : m_wkd m' = m_wkd m;
  fi_next : m_next m' = m_next m + n;
  fi_heap : m_heap m' = m_heap m ++ new_blocks (m_next m) n;
  fi_frees : m_frees m' = m_frees m;
  fi_other : forall h', h' <> h -> lookup h' (m_dicts m') = lookup h' (m_dicts m);
  fi_dict : exists dl dl', lookup h (m_dicts m) = Some dl /\ lookup h (m_dicts m') = Some dl' /\
            sdict_get "**indices" dl' = Some (PList lv') /\
            forall k, k <> "**indices" -> sdict_get k dl' = sdict_get k dl;
  fi_struct : exists d, lookup s (m_structs m) = Some d /\ m_structs m' = update s (set_levels d ls') (m_structs m)
}.

Lemma lookup_update_some : forall A h (x : A) l y, lookup h l = Some y -> lookup h (update h x l) = Some x.
Proof. intros. eapply lookup_update_same; eauto. Qed.

Lemma filled_trans : forall s h m1 m2 m3 lv2 lv3 ls2 ls3 n1 n2,
  filled s h m1 m2 lv2 ls2 n1 -> filled s h m2 m3 lv3 ls3 n2 -> filled s h m1 m3 lv3 ls3 (n1 + n2).
Proof.
  intros s h m1 m2 m3 lv2 lv3 ls2 ls3 n1 n2 [] []. constructor; try congruence.
  - rewrite fi_next1, fi_next0. lia.
  - rewrite fi_heap1, fi_heap0, fi_next0, <- app_assoc, new_blocks_app. reflexivity.
  - intros. rewrite fi_other1, fi_other0; auto.
  - destruct fi_dict0 as (a & b & Ha & Hb & Hc & Hd). destruct fi_dict1 as (a' & b' & Ha' & Hb' & Hc' & Hd').
    exists a, b'. repeat split; auto. intros. rewrite Hd', <- Hd; auto. congruence.
  - destruct fi_struct0 as (d & Hd & Hs). destruct fi_struct1 as (d' & Hd' & Hs').
    exists d. split; [exact Hd|]. rewrite Hs', Hs, update_update.
    rewrite Hs in Hd'. erewrite lookup_update_same in Hd' by eassumption. inversion Hd'. reflexivity.
Qed.

(* modes, levels of the structure, "**indices" slot, Python data per level: aligned; the slot owns nothing yet *)
Inductive fill_levels : list Z -> list (ptr * list ptr) -> list pv -> list pv -> Prop :=
| fl_nil : fill_levels [] [] [] []
| fl_dense : forall mr lr xr dr lp, fill_levels mr lr xr dr ->
    fill_levels (0%Z :: mr) ((lp, []) :: lr) (PList [] :: xr) (PList [] :: dr)
| fl_sparse : forall mr lr xr dr lp q0 q1 a b pos crd, fill_levels mr lr xr dr -> owned a = [] -> owned b = [] ->
    fill_levels (1%Z :: mr) ((lp, [q0; q1]) :: lr) (PList [a; b] :: xr) (PList [PList pos; PList crd] :: dr).

Fixpoint fill_lv (a : nat) (ms : list Z) (lv : list pv) : list pv :=
  match ms, lv with
  | z :: mr, x :: xr => if Z.eqb z 1 then PList [PNewArr a; PNewArr (S a)] :: fill_lv (S (S a)) mr xr
                        else x :: fill_lv a mr xr
  | _, _ => lv
  end.

Fixpoint fill_ls (a : nat) (ms : list Z) (ls : list (ptr * list ptr)) : list (ptr * list ptr) :=
  match ms, ls with
  | z :: mr, (lp, arrs) :: lr => if Z.eqb z 1 then (lp, [Arr a; Arr (S a)]) :: fill_ls (S (S a)) mr lr
                                 else (lp, arrs) :: fill_ls a mr lr
  | _, _ => ls
  end.

Fixpoint nsparse (ms : list Z) : nat :=
  match ms with [] => 0 | z :: r => (if Z.eqb z 1 then 2 else 0) + nsparse r end.

Fixpoint zipl (ms : list Z) (ds : list pv) : list pv :=
  match ms, ds with
  | z :: mr, d :: dr => PList [PInt z; d] :: zipl mr dr
  | _, _ => []
  end.

Lemma zip_strict_zipl : forall ms ds, List.length ds = List.length ms -> zip_strict (map PInt ms) ds = Some (zipl ms ds).
Proof.
  induction ms; destruct ds; simpl; intros; try discriminate; [reflexivity|].
  rewrite IHms by lia. reflexivity.
Qed.

Definition fill_body_ok (s h : nat) (F : pv -> pv -> M pv) : Prop :=
  (forall i acc k m, exists acc', F acc (PList [PInt (Z.of_nat i); PList [PInt 0; PList []]]) k m = (m, Ret acc')) /\
  (forall i acc k m d dl lp q0 q1 lv a b pos crd,
     lookup s (m_structs m) = Some d -> nth_error (sd_levels d) i = Some (lp, [q0; q1]) ->
     lookup h (m_dicts m) = Some dl -> sdict_get "**indices" dl = Some (PList lv) ->
     nth_error lv i = Some (PList [a; b]) -> owned a = [] -> owned b = [] ->
     exists m' acc', F acc (PList [PInt (Z.of_nat i); PList [PInt 1; PList [PList pos; PList crd]]]) k m = (m', Ret acc') /\
       filled s h m m' (replace_nth i (PList [PNewArr (m_next m); PNewArr (S (m_next m))]) lv)
              (replace_nth i (lp, [Arr (m_next m); Arr (S (m_next m))]) (sd_levels d)) 2).

Lemma filled_refl : forall s h m d dl lv, lookup s (m_structs m) = Some d -> lookup h (m_dicts m) = Some dl ->
  sdict_get "**indices" dl = Some (PList lv) -> NoDup (map fst (m_structs m)) ->
  filled s h m m lv (sd_levels d) 0.
Proof.
  intros. constructor; auto.
  - unfold new_blocks. simpl. now rewrite app_nil_r.
  - exists dl, dl. auto.
  - exists d. split; auto. symmetry.
    replace (set_levels d (sd_levels d)) with d by (destruct d; reflexivity).
    unfold update. rewrite <- (map_id (m_structs m)) at 2. apply map_ext_in. intros [k v] Hin. simpl.
    destruct (Nat.eqb k s) eqn:E; [|reflexivity]. apply Nat.eqb_eq in E. subst k.
    f_equal. apply lookup_In in H. eapply NoDup_keys_unique; eauto.
Qed.

Lemma keys_update : forall A h (x : A) l, map fst (update h x l) = map fst l.
Proof. intros. unfold update. rewrite map_map. apply map_ext. intros [k v]. simpl. destruct (Nat.eqb k h); reflexivity. Qed.

Lemma fill_loop : forall s h F, fill_body_ok s h F ->
  forall ms lsuf suf ds, fill_levels ms lsuf suf ds ->
  forall k d lpre pre m dl acc,
    NoDup (map fst (m_structs m)) ->
    List.length lpre = List.length pre -> sd_levels d = lpre ++ lsuf ->
    lookup s (m_structs m) = Some d -> lookup h (m_dicts m) = Some dl ->
    sdict_get "**indices" dl = Some (PList (pre ++ suf)) ->
    exists m' acc', mfold F (enum_from (List.length pre) (zipl ms ds)) acc k m = (m', Ret acc') /\
       filled s h m m' (pre ++ fill_lv (m_next m) ms suf) (lpre ++ fill_ls (m_next m) ms lsuf) (nsparse ms).
Proof.
  intros s h F [Hd Hs]. induction 1; intros k d lpre pre m dl acc Hnd Hlen Hlv Hst Hdi Hsl.
  - exists m, acc. split; [reflexivity|]. cbn [fill_lv fill_ls nsparse]. rewrite <- Hlv. eapply filled_refl; eauto.
  - cbn [zipl enum_from mfold]. destruct (Hd (List.length pre) acc k m) as (acc1 & Hr1). cbn [mbind]. rewrite Hr1.
    destruct (IHfill_levels k d (lpre ++ [(lp, [])]) (pre ++ [PList []]) m dl acc1) as (m' & acc' & Hr & He); auto.
    + rewrite !app_length. simpl. lia.
    + now rewrite <- app_assoc.
    + now rewrite <- app_assoc.
    + exists m', acc'. rewrite app_length in Hr. simpl in Hr. rewrite Nat.add_1_r in Hr. split; [exact Hr|].
      rewrite <- !app_assoc in He. exact He.
  - cbn [zipl enum_from mfold].
    destruct (Hs (List.length pre) acc k m d dl lp q0 q1 (pre ++ PList [a; b] :: xr) a b pos crd) as (m1 & acc1 & Hr1 & He1); auto.
    { rewrite Hlv, <- Hlen. apply nth_error_app_len. }
    { apply nth_error_app_len. }
    cbn [mbind]. rewrite Hr1.
    rewrite replace_nth_app_len in He1. rewrite Hlv, <- Hlen, replace_nth_app_len in He1.
    destruct (fi_dict _ _ _ _ _ _ _ He1) as (dl0 & dl1 & Hdl0 & Hdl1 & Hget & _).
    destruct (fi_struct _ _ _ _ _ _ _ He1) as (d0 & Hd0 & Hs1).
    assert (d0 = d) by congruence. subst d0.
    set (d1 := set_levels d (lpre ++ (lp, [Arr (m_next m); Arr (S (m_next m))]) :: lr)) in *.
    destruct (IHfill_levels k d1 (lpre ++ [(lp, [Arr (m_next m); Arr (S (m_next m))])])
                (pre ++ [PList [PNewArr (m_next m); PNewArr (S (m_next m))]]) m1 dl1 acc1) as (m' & acc' & Hr & He); auto.
    + now rewrite Hs1, keys_update.
    + rewrite !app_length. simpl. lia.
    + subst d1. cbn [sd_levels set_levels]. now rewrite <- app_assoc.
    + rewrite Hs1. eapply lookup_update_same; eauto.
    + now rewrite <- app_assoc.
    + exists m', acc'. rewrite app_length in Hr. simpl in Hr. rewrite Nat.add_1_r in Hr. split; [exact Hr|].
      rewrite <- !app_assoc in He. cbn [app] in He.
      rewrite (fi_next _ _ _ _ _ _ _ He1) in He. replace (m_next m + 2) with (S (S (m_next m))) in He by lia.
      cbn [fill_lv fill_ls nsparse Z.eqb Pos.eqb].
      eapply filled_trans; eauto.
Qed.

Lemma fill_ls_fields : forall ms ls lv ds, fill_levels ms ls lv ds -> forall a,
  arr_addrs (flat_map snd (fill_ls a ms ls)) = seq a (nsparse ms).
Proof.
  induction 1; intros a0; cbn [fill_ls nsparse Z.eqb Pos.eqb flat_map snd app arr_addrs]; auto.
  now rewrite IHfill_levels.
Qed.

Lemma fill_lv_owned : forall ms ls lv ds, fill_levels ms ls lv ds -> forall a,
  flat_map owned (fill_lv a ms lv) = map HNew (seq a (nsparse ms)).
Proof.
  induction 1; intros a0; cbn [fill_lv nsparse Z.eqb Pos.eqb flat_map]; auto.
  - rewrite IHfill_levels. reflexivity.
  - rewrite IHfill_levels. reflexivity.
Qed.

Definition data_shape (modes : list Z) (datas : list pv) : Prop :=
  Forall2 (fun z dt => (z = 0%Z /\ dt = PList []) \/ (z = 1%Z /\ exists pos crd, dt = PList [PList pos; PList crd]))
          modes datas.

Lemma mk_fill_levels : forall ms ls lv, wf_levels ms ls lv -> flat_map owned lv = [] ->
  forall ds, data_shape ms ds -> fill_levels ms ls lv ds.
Proof.
  induction 1; intros Ho ds Hs; inversion Hs as [|z dt mr' dr' Hhd Htl]; subst.
  - constructor.
  - destruct Hhd as [[_ ->]|[E _]]; [|discriminate]. constructor. apply IHwf_levels; auto.
  - destruct Hhd as [[E _]|[_ (pos & crd & ->)]]; [discriminate|].
    cbn [flat_map] in Ho. apply app_eq_nil in Ho. destruct Ho as [Ho1 Ho2].
    rewrite owned_PList in Ho1. cbn [flat_map] in Ho1. rewrite app_nil_r in Ho1.
    apply app_eq_nil in Ho1. destruct Ho1.
    constructor; auto.
Qed.

Lemma lookup_None_notin : forall A k (l : list (nat * A)), lookup k l = None -> ~ In k (map fst l).
Proof.
  induction l as [|[k' v] r IH]; simpl; intros H; [tauto|].
  destruct (Nat.eqb k' k) eqn:E; [discriminate|]. apply Nat.eqb_neq in E. intros [|]; [congruence|]. now apply IH.
Qed.

Lemma data_shape_length : forall ms ds, data_shape ms ds -> List.length ds = List.length ms.
Proof. induction 1; simpl; auto. Qed.

(* taco_structure_to_cffi (Tensor.from_*, __setstate__) performs Ownership.fill_from_python on the structure that its
   call of allocate_taco_structure has created *)
Theorem gen_fill_equiv : forall nm modes dims ordering datas vals k m,
  alloc_valid modes dims ordering -> data_shape modes datas ->
  lookup (m_next m) (m_wkd m) = None -> (forall s', ~ In (s', m_next_meta m) (m_wkd m)) ->
  NoDup (map fst (m_structs m)) -> ~ In (m_next m) (map fst (m_structs m)) ->
  exists m1 m',
    allocate_taco_structure (ints modes) (ints dims) (ints ordering) k m = (m1, Ret (PStruct (m_next m))) /\
    allocated modes m m1 /\
    taco_structure_to_cffi (PList datas) (PList vals) (ints modes) (ints dims) (ints ordering) None k m
      = (m', Ret (PStruct (m_next m))) /\
    abs nm m' = fill_from_python (abs nm m1) (m_next m) (nsparse modes + 1) /\
    m_frees m' = m_frees m.
Proof.
  intros nm modes dims ordering datas vals k m Hval Hshape Hfw Hdf Hnd Hfs.
  destruct (gen_allocate_spec modes dims ordering k m Hval Hfw Hdf Hfs) as (m1 & r1 & Hr1 & -> & A).
  exists m1.
  cut (runs_to (taco_structure_to_cffi (PList datas) (PList vals) (ints modes) (ints dims) (ints ordering) None) k m
         (fun m' r => r = PStruct (m_next m) /\ abs nm m' = fill_from_python (abs nm m1) (m_next m) (nsparse modes + 1) /\
                      m_frees m' = m_frees m)).
  { intros (m' & r & Hr & -> & He & Hf). exists m'. auto. }
  unfold taco_structure_to_cffi.
  eapply runs_bind; [exact Hr1|]. clear Hr1.
  destruct (al_rest _ _ _ A) as (d & h & dl & lv & Hst & Hwkd & Hdl & Hoth & Hfresh & Hmodes & Hord & Hfields & Hvals & Hind & Hown & Wf).
  assert (HW : lookup (m_next m) (m_wkd m1) = Some h) by (rewrite Hwkd; cbn [lookup fst]; now rewrite Nat.eqb_refl).
  assert (HS : lookup (m_next m) (m_structs m1) = Some d) by (rewrite Hst; cbn [lookup fst]; now rewrite Nat.eqb_refl).
  repeat rstep.
  eapply runs_bind.
  { unfold py_zip_strict, ints. cbn. rewrite (zip_strict_zipl _ _ (data_shape_length _ _ Hshape)). reflexivity. }
  repeat rstep.
  match goal with |- runs_to (mbind (mfold ?F _ _) _) _ _ _ => assert (HF : fill_body_ok (m_next m) h F) end.
  { split.
    - intros. eexists. repeat mstep. reflexivity.
    - intros i acc k0 m0 d0 dl0 lp q0 q1 lv0 a b pos crd Hst0 Hlev Hdi Hsl Hlv0 Hoa Hob.
      assert (Hlt : Nat.ltb i (List.length (sd_levels d0)) = true)
        by (apply Nat.ltb_lt; apply nth_error_Some; congruence).
      eexists. eexists. split. { repeat (repeat mstep; cbn [mfold]). reflexivity. }
      rewrite ?replace_nth_twice. constructor; proj; rewrite ?Hoa, ?Hob; cbn [map gc_frees flat_map];
        rewrite ?release_all_nil, ?app_nil_r; try reflexivity; try lia.
      all: first
        [ solve [unfold new_blocks; cbn [seq map]; now rewrite <- app_assoc]
        | solve [intros; rewrite ?lookup_update_other by auto; reflexivity]
        | solve [exists dl0; eexists; split; [eassumption|]; split; [|split];
                 [ erewrite lookup_update_same; [reflexivity|]; erewrite lookup_update_same; [reflexivity|eassumption]
                 | apply sdict_get_set_same
                 | intros; rewrite !sdict_get_set_other by auto; reflexivity ]]
        | solve [exists d0; split; [eassumption|]; rewrite update_update; f_equal;
                 unfold set_levels; cbn; rewrite ?replace_nth_twice; reflexivity] ]. }
  assert (FL : fill_levels modes (sd_levels d) lv datas) by (apply mk_fill_levels; auto).
  assert (Hnd1 : NoDup (map fst (m_structs m1))).
  { rewrite Hst. cbn [map fst]. constructor; auto. }
  destruct (fill_loop (m_next m) h _ HF _ _ _ _ FL k d [] [] m1 dl PUnbound Hnd1 eq_refl eq_refl HS Hdl Hind)
    as (m2 & acc2 & Hr2 & Fi).
  eapply runs_bind; [exact Hr2|]. clear Hr2 HF.
  cbn [app] in Fi.
  destruct (fi_dict _ _ _ _ _ _ _ Fi) as (dl0 & dl2 & Hdl0 & Hdl2 & Hget2 & Hoth2).
  assert (dl0 = dl) by congruence. subst dl0.
  destruct (fi_struct _ _ _ _ _ _ _ Fi) as (d0 & Hd0 & Hs2).
  assert (d0 = d) by congruence. subst d0.
  assert (HS2 : lookup (m_next m) (m_structs m2) = Some (set_levels d (fill_ls (m_next m1) modes (sd_levels d)))).
  { rewrite Hs2. eapply lookup_update_same; eauto. }
  assert (HW2 : lookup (m_next m) (m_wkd m2) = Some h) by (now rewrite (fi_wkd _ _ _ _ _ _ _ Fi)).
  assert (Hv2 : sdict_get "vals" dl2 = None) by (rewrite Hoth2 by discriminate; exact Hvals).
  repeat rstep.
  apply runs_ret. split; [reflexivity|].
  assert (Hn2 : m_next m2 = m_next m1 + nsparse modes) by apply Fi.
  assert (Hfw' : ~ In (m_next m) (map fst (m_wkd m))) by (now apply lookup_None_notin).
  split.
  - apply state_eq; unfold fill_from_python, fresh_addrs; cbn [abs names tensors structs wkd heap next]; proj.
    + reflexivity.
    + apply Fi.
    + rewrite Hs2, update_update, Hst, update_cons_same, (update_fresh _ _ _ _ Hfs).
      unfold set_fields. cbn [map fst snd]. rewrite Nat.eqb_refl.
      rewrite map_update_fresh by (unfold keys; rewrite map_map; exact Hfs).
      f_equal. f_equal. unfold sd_fields. cbn [sd_levels sd_vals].
      rewrite arr_addrs_app, (fill_ls_fields _ _ _ _ FL). cbn [arr_addrs]. rewrite Hn2, seq_app. reflexivity.
    + rewrite (fi_wkd _ _ _ _ _ _ _ Fi), Hwkd, update_cons_same, (update_fresh _ _ _ _ Hfw').
      cbn [map fst snd]. rewrite Nat.eqb_refl.
      rewrite map_update_fresh by (unfold keys; rewrite map_map; exact Hfw').
      f_equal.
      * f_equal. unfold holder_of. proj. erewrite lookup_update_same by eassumption.
        unfold holder_entries. rewrite sdict_get_set_other by discriminate. rewrite Hget2, sdict_get_set_same.
        rewrite owned_PList, (fill_lv_owned _ _ _ _ FL). cbn [owned]. rewrite Hn2, seq_app, map_app. reflexivity.
      * apply map_ext_in. intros [s' h'] Hin. cbn [fst snd].
        assert (h' <> h) by (intro; subst h'; exact (Hfresh _ Hin)).
        unfold holder_of. proj. rewrite lookup_update_other by auto. now rewrite (fi_other _ _ _ _ _ _ _ Fi) by auto.
    + rewrite (fi_heap _ _ _ _ _ _ _ Fi), <- app_assoc. f_equal. unfold new_blocks.
      rewrite Hn2, seq_app, map_app. reflexivity.
    + rewrite Hn2. lia.
  - proj. rewrite (fi_frees _ _ _ _ _ _ _ Fi). apply A.
Qed.

(* In Ownership.v the state left by a call that raises RuntimeError (= eval_call's Ok state, no name bound) is the state
   of the two-operation history  Eval n ins sh ; Del n  for a name n that is not in use (before any reference-counting
   cascade): every C13 theorem about histories (no leak, freed exactly once) therefore covers the RuntimeError path. *)
Lemma remove_key_fresh : forall A k (l : list (nat * A)), lookup k l = None -> remove_key k l = l.
Proof.
  induction l as [|[k' v] r IH]; simpl; intros H; [reflexivity|].
  destruct (Nat.eqb k' k) eqn:E; [discriminate|]. simpl. f_equal. now apply IH.
Qed.

Theorem runtime_error_state_is_eval_del : forall st n ins sh st' w fr,
  eval_call st ins sh = (st', w, fr, Ok) -> lookup n (names st') = None ->
  let '(st1, _, _) := apply_op st (Eval n ins sh) in
  fst (fst (apply_op st1 (Del n))) = st'.
Proof.
  intros st n ins sh st' w fr He Hn. cbn [apply_op]. rewrite He.
  cbn [apply_op set_names names]. unfold Ownership.bind. cbn [lookup fst]. rewrite Nat.eqb_refl.
  cbn [fst set_names names tensors structs wkd heap next remove_key filter fst negb]. rewrite Nat.eqb_refl. cbn [negb].
  fold (remove_key n (remove_key n (names st'))). rewrite !remove_key_fresh by (rewrite ?remove_key_fresh; auto).
  destruct st'; reflexivity.
Qed.

End Exec.
