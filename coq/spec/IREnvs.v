(** Small states for the C07 searcher: typed variables over boundary values, two kernel-owned
    arrays.  Executable helpers only. *)
From Coq Require Import ZArith Bool List String FMapPositive.
From Flocq Require Import Core BinarySingleNaN.
From TV Require Import spec.Num gen.IRAst spec.IRSem spec.IRRun spec.IRCompare.
Import ListNotations.
Open Scope Z_scope.

Definition int_block (l : list Z) : block :=
  mkBlock false (zlen l) (cells_from VInt l 0 (PM.empty _)) true false.
Definition float_block (l : list F) : block :=
  mkBlock true (zlen l) (cells_from (fun f => VFloat (fcanon f)) l 0 (PM.empty _)) true false.

Definition mk_env (xi yi : Z) (xf yf : F) (b : bool) : state :=
  mkState
    [("xi"%string, (TInteger, Some (VInt xi))); ("yi"%string, (TInteger, Some (VInt yi)));
     ("xf"%string, (TFloat, Some (VFloat (fcanon xf)))); ("yf"%string, (TFloat, Some (VFloat (fcanon yf))));
     ("b"%string, (TBoolean, Some (VBool b)));
     ("p"%string, (TPointer TInteger, Some (VPtr 1%positive 0)));
     ("q"%string, (TPointer TFloat, Some (VPtr 2%positive 0)))]
    (PM.add 2%positive (float_block [Fmake false 1 (-1); F0; Fmake false 1 1; Fmake true 1 0])
       (PM.add 1%positive (int_block [3; 0; -1; 7]) (PM.empty _)))
    3%positive (PM.empty _) 0.

Definition big : F := Fmake false 1 1023.

Definition envs : list state :=
  [ mk_env 1 2 (Fmake false 1 (-1)) F1 true;
    mk_env 0 (-1) F0 (Fmake true 5 (-1)) false;
    mk_env 1048576 1048576 F1 big true;
    mk_env (-2147483648) 2147483647 (Fmake true 0 0) (Fmake false 1 (-1)) false;
    mk_env 2147483647 1 big big true;
    mk_env 3 0 (Fmake false 3 0) F0 true;
    (* values on which inexact literal products / sums round differently when re-associated: 5, 7, 2.5, 10 *)
    mk_env 2 5 (Fmake false 5 0) (Fmake false 7 0) true;
    mk_env 7 3 (Fmake false 5 (-1)) (Fmake false 5 1) false ].

(** classify one (original, optimised) pair on one state *)
Definition run_pair (fuel : nat) (s s' : stmt) (st : state) : cmp_result :=
  compare_outcomes (exec fuel s' st) (exec fuel s st).

Definition code (c : cmp_result) : Z :=
  match c with CSame => 0 | COrigNotDone => 1 | COverflowEscape => 2 | CDiffer _ => 3 end.

(** per case: the list of codes over all environments *)
Definition run_all (fuel : nat) (cases : list (stmt * stmt)) : list (list Z) :=
  map (fun '(s, s') => map (fun st => code (run_pair fuel s s' st)) envs) cases.
