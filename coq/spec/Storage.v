(** Stored tensors (the taco structure), their well-formedness (property C02, verbatim) and their
    abstraction to coordinate/value entries.  Shared by C01, C02, C03, C09, C11.

    Conventions: [dims] is indexed by DIMENSION; [ordering] and [levels] are indexed by LEVEL;
    [nth l ordering] is the dimension stored at level [l] (tensora's [mode_ordering]). *)

From Coq Require Import ZArith List Bool Lia.
Import ListNotations.
Open Scope Z_scope.

Inductive level : Type :=
  | LDense
  | LCompressed (pos crd : list Z).

Record tensor (V : Type) : Type := mkTensor {
  dims : list Z;
  ordering : list nat;
  levels : list level;
  vals : list V
}.
Arguments mkTensor {V}.
Arguments dims {V}.
Arguments ordering {V}.
Arguments levels {V}.
Arguments vals {V}.

Definition zlen {A} (l : list A) : Z := Z.of_nat (length l).

(** [nthZ d l i]: element [i] of [l] ([d] if out of range or negative). *)
Definition nthZ {A} (d : A) (l : list A) (i : Z) : A :=
  if i <? 0 then d else nth (Z.to_nat i) l d.

(** [0; 1; ...; n-1] (empty when [n <= 0]). *)
Definition zrange (n : Z) : list Z := map Z.of_nat (seq 0 (Z.to_nat n)).

(** [lo; lo+1; ...; hi-1]. *)
Definition zrange2 (lo hi : Z) : list Z := map (fun i => lo + i) (zrange (hi - lo)).

(** Dimension size of each level. *)
Definition level_dims {V} (t : tensor V) : list Z :=
  map (fun d => nth d (dims t) 0) (ordering t).

(** * Well-formedness (C02) *)

Fixpoint weakly_increasing (l : list Z) : bool :=
  match l with
  | a :: ((b :: _) as r) => (a <=? b) && weakly_increasing r
  | _ => true
  end.

Fixpoint strictly_increasing (l : list Z) : bool :=
  match l with
  | a :: ((b :: _) as r) => (a <? b) && strictly_increasing r
  | _ => true
  end.

(** coordinates of segment [p]: crd[pos[p] .. pos[p+1]) *)
Definition segment (pos crd : list Z) (p : Z) : list Z :=
  map (fun q => nthZ (-1) crd q) (zrange2 (nthZ 0 pos p) (nthZ 0 pos (p + 1))).

(** One compressed level over [n] parent positions, dimension [d]. *)
Definition wf_compressedb (n d : Z) (pos crd : list Z) : bool :=
  (zlen pos =? n + 1)
  && (nthZ (-1) pos 0 =? 0)
  && weakly_increasing pos
  && (nthZ (-1) pos n =? zlen crd)
  && forallb (fun p => strictly_increasing (segment pos crd p)) (zrange n)
  && forallb (fun c => (0 <=? c) && (c <? d)) crd.

(** Walk the levels threading the number of positions; returns the number of leaf positions, or
    None when some level is ill-formed. *)
Fixpoint wf_levelsb (lv : list (level * Z)) (n : Z) : option Z :=
  match lv with
  | [] => Some n
  | (LDense, d) :: r => if 0 <=? d then wf_levelsb r (n * d) else None
  | (LCompressed pos crd, d) :: r =>
      if wf_compressedb n d pos crd then wf_levelsb r (zlen crd) else None
  end.

Fixpoint is_permb_aux (l : list nat) (n : nat) : bool :=
  match n with
  | O => true
  | S k => existsb (Nat.eqb k) l && is_permb_aux l k
  end.

(** [ordering] is a permutation of [0..n-1] *)
Definition is_permb (l : list nat) : bool :=
  is_permb_aux l (length l).

Definition wf_shapeb {V} (t : tensor V) : bool :=
  (length (dims t) =? length (ordering t))%nat
  && (length (levels t) =? length (ordering t))%nat
  && is_permb (ordering t)
  && forallb (fun d => 0 <=? d) (dims t).

(** [strict = true]: exactly as many values as leaf positions (user-built tensors);
    [strict = false]: at least as many (kernel outputs keep one scratch value). *)
Definition wf_tensorb {V} (strict : bool) (t : tensor V) : bool :=
  wf_shapeb t &&
  match wf_levelsb (combine (levels t) (level_dims t)) 1 with
  | Some n => if strict then zlen (vals t) =? n else n <=? zlen (vals t)
  | None => false
  end.

(** * Abstraction: the stored entries *)

(** All (level-order coordinate, leaf position) pairs in storage order. *)
Fixpoint walk (lv : list (level * Z)) (p : Z) (prefix : list Z) : list (list Z * Z) :=
  match lv with
  | [] => [(rev prefix, p)]
  | (LDense, d) :: r => flat_map (fun i => walk r (p * d + i) (i :: prefix)) (zrange d)
  | (LCompressed pos crd, _) :: r =>
      flat_map (fun q => walk r q (nthZ (-1) crd q :: prefix))
               (zrange2 (nthZ 0 pos p) (nthZ 0 pos (p + 1)))
  end.

(** Level-order coordinate -> dimension-order coordinate: dimension [ordering[l]] gets the
    coordinate of level [l].  [index_of d ordering] is the level storing dimension [d]. *)
Fixpoint index_of (d : nat) (l : list nat) : nat :=
  match l with
  | [] => O
  | x :: r => if Nat.eqb x d then O else S (index_of d r)
  end.

Definition to_dim_order (ordering : list nat) (lc : list Z) : list Z :=
  map (fun d => nth (index_of d ordering) lc (-1)) (seq 0 (length ordering)).

Definition entries {V} (dflt : V) (t : tensor V) : list (list Z * V) :=
  map (fun '(lc, p) => (to_dim_order (ordering t) lc, nthZ dflt (vals t) p))
      (walk (combine (levels t) (level_dims t)) 0 []).

(** Stored coordinate set projected on the first [k] levels (for C03: the coordinates a compressed
    level stores), in level order. *)
Definition stored_prefixes {V} (t : tensor V) (k : nat) : list (list Z) :=
  map fst (walk (firstn k (combine (levels t) (level_dims t))) 0 []).
