(** C12 -- the conventional ("textbook") precedence grammar of arithmetic expressions, as an
    inductive relation between token lists and syntax trees.  This is a SPECIFICATION: it is what
    "* binds tighter than + and -, operators of equal precedence associate to the left,
    parentheses override" means.

        E -> E + T | E - T | T
        T -> T * F | F
        F -> tensor | integer | float | ( E )
        A -> tensor = E

    A tree is attached to every derivation in the only sensible way: E + T is the sum of the
    tree of E and the tree of T, and so on; the left recursion of E and T *is* left
    associativity, the stratification E/T/F *is* precedence.

    No parser, no fuel, no executable content here. *)

From Coq Require Import String List NArith.
From TV Require Import model.Parser.
Import ListNotations.

Inductive DF : list token -> expr -> Prop :=
  | DF_int : forall n, DF [TInt n] (EInt n)
  | DF_float : forall f, DF [TFloat f] (EFloat f)
  | DF_tensor : forall x idx, DF (tensor_toks x idx) (ETensor x idx)
  | DF_paren : forall ts e, DE ts e -> DF (TLP :: ts ++ [TRP]) e
with DT : list token -> expr -> Prop :=
  | DT_factor : forall ts e, DF ts e -> DT ts e
  | DT_mul : forall ts1 ts2 t f, DT ts1 t -> DF ts2 f -> DT (ts1 ++ TStar :: ts2) (EMul t f)
with DE : list token -> expr -> Prop :=
  | DE_term : forall ts e, DT ts e -> DE ts e
  | DE_add : forall ts1 ts2 e t, DE ts1 e -> DT ts2 t -> DE (ts1 ++ TPlus :: ts2) (EAdd e t)
  | DE_sub : forall ts1 ts2 e t, DE ts1 e -> DT ts2 t -> DE (ts1 ++ TMinus :: ts2) (ESub e t).

Scheme DF_mind := Minimality for DF Sort Prop
  with DT_mind := Minimality for DT Sort Prop
  with DE_mind := Minimality for DE Sort Prop.
Combined Scheme D_mutind from DF_mind, DT_mind, DE_mind.

(** an assignment sentence: target tensor, "=", expression *)
Inductive DA : list token -> assignment -> Prop :=
  | DA_assign : forall x idx ts e,
      DE ts e -> DA (tensor_toks x idx ++ TEq :: ts) (Assign x idx e).

(** The meaning of a tree in any ring-like structure: used to say that the tree of a text
    computes what the text says.  [val] gives tensors and literals their values. *)
Section Meaning.
  Variable R : Type.
  Variables (radd rsub rmul : R -> R -> R).
  Variable val_int : N -> R.
  Variable val_float : dec -> R.
  Variable val_tensor : string -> list string -> R.

  Fixpoint eval (e : expr) : R :=
    match e with
    | EInt n => val_int n
    | EFloat f => val_float f
    | ETensor x idx => val_tensor x idx
    | EAdd l r => radd (eval l) (eval r)
    | ESub l r => rsub (eval l) (eval r)
    | EMul l r => rmul (eval l) (eval r)
    end.

  (** The same grammar as an attribute grammar computing VALUES directly from the text, without
      any tree: the number a reader who knows the precedence rules assigns to the sentence. *)
  Inductive VF : list token -> R -> Prop :=
    | VF_int : forall n, VF [TInt n] (val_int n)
    | VF_float : forall f, VF [TFloat f] (val_float f)
    | VF_tensor : forall x idx, VF (tensor_toks x idx) (val_tensor x idx)
    | VF_paren : forall ts v, VE ts v -> VF (TLP :: ts ++ [TRP]) v
  with VT : list token -> R -> Prop :=
    | VT_factor : forall ts v, VF ts v -> VT ts v
    | VT_mul : forall ts1 ts2 v1 v2, VT ts1 v1 -> VF ts2 v2 -> VT (ts1 ++ TStar :: ts2) (rmul v1 v2)
  with VE : list token -> R -> Prop :=
    | VE_term : forall ts v, VT ts v -> VE ts v
    | VE_add : forall ts1 ts2 v1 v2, VE ts1 v1 -> VT ts2 v2 -> VE (ts1 ++ TPlus :: ts2) (radd v1 v2)
    | VE_sub : forall ts1 ts2 v1 v2, VE ts1 v1 -> VT ts2 v2 -> VE (ts1 ++ TMinus :: ts2) (rsub v1 v2).

  Scheme VF_mind := Minimality for VF Sort Prop
    with VT_mind := Minimality for VT Sort Prop
    with VE_mind := Minimality for VE Sort Prop.
  Combined Scheme V_mutind from VF_mind, VT_mind, VE_mind.
End Meaning.
