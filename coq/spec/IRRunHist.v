(** Executed loop iterations of a HISTORY of kernels on one output (C16 for assemble / compute kernels).
    Executable helpers only. *)
From Coq Require Import ZArith Bool List String.
From TV Require Import spec.Num gen.IRAst spec.IRSem spec.IRRun.
Import ListNotations.
Open Scope Z_scope.

Definition run_iters_hist (fuel : Z) (steps : list function_definition) (ts : list tin) : option Z :=
  let '(st, args) := init_state ts in
  match run_steps fuel (map (fun f => (f, [])) steps) args st with
  | RDone st' => Some (iters st')
  | RBad _ => None
  end.

Definition same_iters_hist (fuel : Z) (steps : list function_definition) (ts1 ts2 : list tin) : verdict :=
  match run_iters_hist fuel steps ts1, run_iters_hist fuel steps ts2 with
  | Some a, Some b => if a =? b then VOk else VMismatch "iteration counts of the history differ"
  | _, _ => VMismatch "history run failed"
  end.
