(** Running kernels on the IR abstract machine: building the initial state from stored tensors,
    reading the output tensor back, comparing with expected arrays.  Used by the correspondence
    checks (C04, C05, C06, C07, C16); executable, no proofs here. *)

From Coq Require Import ZArith Bool List String FMapPositive.
From Coq Require Import SpecFloat.
From Flocq Require Import Core BinarySingleNaN.
From TV Require Import spec.Num gen.IRAst spec.IRSem.
Import ListNotations.
Open Scope Z_scope.

(** A tensor handed to a kernel: dims (by dimension), per level [None] (dense) or [Some (pos, crd)],
    values, and whether it is the output (fields NULL, writable). *)
Record tin : Type := mkTin {
  ti_dims : list Z;
  ti_levels : list (option (list Z * list Z));
  ti_vals : list F;
  ti_output : bool
}.

Fixpoint cells_from {A} (mk : A -> value) (l : list A) (off : Z) (acc : PM.t value) : PM.t value :=
  match l with
  | [] => acc
  | x :: r => cells_from mk r (off + 1) (PM.add (key off) (mk x) acc)
  end.

Definition zlen {A} (l : list A) : Z := Z.of_nat (List.length l).

Definition add_block (st : state) (fl : bool) (n : Z) (cells : PM.t value) (input : bool)
  : state * value :=
  let blk := next_blk st in
  (mkState (env st) (PM.add blk (mkBlock fl n cells true input) (heap st)) (Pos.succ blk)
           (tensors st) (iters st),
   VPtr blk 0).

Fixpoint add_levels (st : state) (lv : list (option (list Z * list Z)))
  : state * list (value * value) :=
  match lv with
  | [] => (st, [])
  | None :: r => let '(st', l) := add_levels st r in (st', (VNull, VNull) :: l)
  | Some (pos, crd) :: r =>
      let '(st1, p) := add_block st false (zlen pos) (cells_from VInt pos 0 (PM.empty _)) true in
      let '(st2, c) := add_block st1 false (zlen crd) (cells_from VInt crd 0 (PM.empty _)) true in
      let '(st3, l) := add_levels st2 r in
      (st3, (p, c) :: l)
  end.

Definition add_tensor (st : state) (id : positive) (t : tin) : state :=
  if ti_output t then
    with_tensors st (PM.add id
      (mkTensorS (ti_dims t) (map (fun _ => (VNull, VNull)) (ti_levels t)) VNull true) (tensors st))
  else
    let '(st1, idx) := add_levels st (ti_levels t) in
    let '(st2, v) := add_block st1 true (zlen (ti_vals t))
                       (cells_from (fun f => VFloat (fcanon f)) (ti_vals t) 0 (PM.empty _)) true in
    with_tensors st2 (PM.add id (mkTensorS (ti_dims t) idx v false) (tensors st2)).

Definition empty_state : state := mkState [] (PM.empty _) 1%positive (PM.empty _) 0.

Fixpoint init_tensors (st : state) (id : positive) (ts : list tin) : state * list value :=
  match ts with
  | [] => (st, [])
  | t :: r =>
      let st' := add_tensor st id t in
      let '(st'', args) := init_tensors st' (Pos.succ id) r in
      (st'', VTensor id :: args)
  end.

Definition init_state (ts : list tin) : state * list value := init_tensors empty_state 1%positive ts.

(** * Reading results *)

Definition read_cells (b : block) (n : Z) : list (option value) :=
  map (fun i => PM.find (key (Z.of_nat i)) (b_cells b)) (seq 0 (Z.to_nat n)).

(** (length, cells[0..min len want)) of the live block a pointer designates *)
Definition read_ptr (st : state) (v : value) (want : Z) : option (Z * list (option value)) :=
  match v with
  | VPtr blk 0 =>
      match PM.find blk (heap st) with
      | Some b => if b_live b then Some (b_len b, read_cells b (Z.min want (b_len b))) else None
      | None => None
      end
  | _ => None
  end.

Definition same_int (c : option value) (z : Z) : bool :=
  match c with Some (VInt x) => x =? z | _ => false end.

Definition same_float (c : option value) (f : F) : bool :=
  match c with
  | Some (VFloat x) =>
      match B2SF x, B2SF (fcanon f) with
      | S754_zero _, S754_zero _ => true
      | S754_finite s m e, S754_finite s' m' e' => Bool.eqb s s' && Pos.eqb m m' && Z.eqb e e'
      | _, _ => false
      end
  | _ => false
  end.

Fixpoint all2 {A B} (f : A -> B -> bool) (a : list A) (b : list B) : bool :=
  match a, b with
  | [], [] => true
  | x :: a', y :: b' => f x y && all2 f a' b'
  | _, _ => false
  end.

Inductive verdict : Type :=
  | VOk
  | VMismatch (what : string)
  | VFail (e : err)
  | VFuel
  | VNoReturn.

(** Expected output: per level [None] or [Some (pos, crd)], and values.  [exact_vals]: the value
    block must be exactly as long as [vals] (fully dense output) rather than at least. *)
Fixpoint check_levels (st : state) (idx : list (value * value))
         (exp : list (option (list Z * list Z))) : option string :=
  match idx, exp with
  | [], [] => None
  | (p, c) :: idx', None :: exp' =>
      match p, c with
      | VNull, VNull => check_levels st idx' exp'
      | _, _ => Some "dense level has index arrays"%string
      end
  | (p, c) :: idx', Some (pos, crd) :: exp' =>
      match read_ptr st p (zlen pos), read_ptr st c (zlen crd) with
      | Some (lp, cp), Some (lc, cc) =>
          if negb (lp =? zlen pos) then Some "pos block length"%string
          else if negb (lc =? zlen crd) then Some "crd block length"%string
          else if negb (all2 same_int cp pos) then Some "pos contents"%string
          else if negb (all2 same_int cc crd) then Some "crd contents"%string
          else check_levels st idx' exp'
      | _, _ => Some "pos/crd pointer not a live block"%string
      end
  | _, _ => Some "level count"%string
  end.

Definition check_output (st : state) (out : positive)
           (exp : list (option (list Z * list Z))) (vals : list F) (exact_vals : bool) : verdict :=
  match PM.find out (tensors st) with
  | None => VMismatch "no output tensor"
  | Some ts =>
      match check_levels st (t_idx ts) exp with
      | Some w => VMismatch w
      | None =>
          match read_ptr st (t_vals ts) (zlen vals) with
          | None => VMismatch "vals pointer not a live block"
          | Some (lv, cv) =>
              if (if exact_vals then negb (lv =? zlen vals) else lv <? zlen vals)
              then VMismatch "vals block length"
              else if negb (all2 same_float cv vals) then VMismatch "vals contents"
              else VOk
          end
      end
  end.

Definition fuel_of (n : Z) : nat := Z.to_nat n.

(** Run kernel [f] on [ts] (output tensor = first parameter, as tensora emits) and compare. *)
Definition run_check (fuel : Z) (f : function_definition) (ts : list tin)
           (exp : list (option (list Z * list Z))) (vals : list F) (exact_vals : bool) : verdict :=
  let '(st, args) := init_state ts in
  match call (fuel_of fuel) f args st with
  | Returned st' (VInt 0) _ => check_output st' 1%positive exp vals exact_vals
  | Returned _ _ _ => VMismatch "return value"
  | Normal _ _ => VNoReturn
  | Fail e => VFail e
  | OutOfFuel => VFuel
  end.

Fixpoint failing_from {A} (i : nat) (f : A -> verdict) (l : list A) : list (nat * verdict) :=
  match l with
  | [] => []
  | x :: r =>
      match f x with
      | VOk => failing_from (S i) f r
      | v => (i, v) :: failing_from (S i) f r
      end
  end.
