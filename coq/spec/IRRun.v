(** Running kernels on the IR abstract machine: building the initial state from stored tensors,
    reading the output tensor back, comparing with expected arrays.  Used by the correspondence
    checks (C04, C05, C06, C07, C16); executable, no proofs here. *)

From Coq Require Import ZArith Bool List String FMapPositive.
From Coq Require Import SpecFloat.
From Flocq Require Import Core BinarySingleNaN.
From TV Require Import spec.Num gen.IRAst spec.IRSem.
Import ListNotations.
Open Scope Z_scope.

(** A tensor handed to a kernel: dims (by dimension), per level [None] (dense) or [Some (pos, crd)],
    values, and whether it is the output (fields NULL, writable). *)
Record tin : Type := mkTin {
  ti_dims : list Z;
  ti_levels : list (option (list Z * list Z));
  ti_vals : list F;
  ti_output : bool
}.

Fixpoint cells_from {A} (mk : A -> value) (l : list A) (off : Z) (acc : PM.t value) : PM.t value :=
  match l with
  | [] => acc
  | x :: r => cells_from mk r (off + 1) (PM.add (key off) (mk x) acc)
  end.

Definition zlen {A} (l : list A) : Z := Z.of_nat (List.length l).

Definition add_block (st : state) (fl : bool) (n : Z) (cells : PM.t value) (input : bool)
  : state * value :=
  let blk := next_blk st in
  (mkState (env st) (PM.add blk (mkBlock fl n cells true input) (heap st)) (Pos.succ blk)
           (tensors st) (iters st),
   VPtr blk 0).

Fixpoint add_levels (st : state) (lv : list (option (list Z * list Z)))
  : state * list (value * value) :=
  match lv with
  | [] => (st, [])
  | None :: r => let '(st', l) := add_levels st r in (st', (VNull, VNull) :: l)
  | Some (pos, crd) :: r =>
      let '(st1, p) := add_block st false (zlen pos) (cells_from VInt pos 0 (PM.empty _)) true in
      let '(st2, c) := add_block st1 false (zlen crd) (cells_from VInt crd 0 (PM.empty _)) true in
      let '(st3, l) := add_levels st2 r in
      (st3, (p, c) :: l)
  end.

Definition add_tensor (st : state) (id : positive) (t : tin) : state :=
  if ti_output t then
    with_tensors st (PM.add id
      (mkTensorS (ti_dims t) (map (fun _ => (VNull, VNull)) (ti_levels t)) VNull true) (tensors st))
  else
    let '(st1, idx) := add_levels st (ti_levels t) in
    let '(st2, v) := add_block st1 true (zlen (ti_vals t))
                       (cells_from (fun f => VFloat (fcanon f)) (ti_vals t) 0 (PM.empty _)) true in
    with_tensors st2 (PM.add id (mkTensorS (ti_dims t) idx v false) (tensors st2)).

Definition empty_state : state := mkState [] (PM.empty _) 1%positive (PM.empty _) 0.

Fixpoint init_tensors (st : state) (id : positive) (ts : list tin) : state * list value :=
  match ts with
  | [] => (st, [])
  | t :: r =>
      let st' := add_tensor st id t in
      let '(st'', args) := init_tensors st' (Pos.succ id) r in
      (st'', VTensor id :: args)
  end.

Definition init_state (ts : list tin) : state * list value := init_tensors empty_state 1%positive ts.

(** * Reading results *)

Definition read_cells (b : block) (n : Z) : list (option value) :=
  map (fun i => PM.find (key (Z.of_nat i)) (b_cells b)) (seq 0 (Z.to_nat n)).

(** (length, cells[0..min len want)) of the live block a pointer designates *)
Definition read_ptr (st : state) (v : value) (want : Z) : option (Z * list (option value)) :=
  match v with
  | VPtr blk 0 =>
      match PM.find blk (heap st) with
      | Some b => if b_live b then Some (b_len b, read_cells b (Z.min want (b_len b))) else None
      | None => None
      end
  | _ => None
  end.

Definition same_int (c : option value) (z : Z) : bool :=
  match c with Some (VInt x) => x =? z | _ => false end.

Definition same_float (c : option value) (f : F) : bool :=
  match c with
  | Some (VFloat x) =>
      match B2SF x, B2SF (fcanon f) with
      | S754_zero _, S754_zero _ => true
      | S754_finite s m e, S754_finite s' m' e' => Bool.eqb s s' && Pos.eqb m m' && Z.eqb e e'
      | _, _ => false
      end
  | _ => false
  end.

Fixpoint all2 {A B} (f : A -> B -> bool) (a : list A) (b : list B) : bool :=
  match a, b with
  | [], [] => true
  | x :: a', y :: b' => f x y && all2 f a' b'
  | _, _ => false
  end.

Inductive verdict : Type :=
  | VOk
  | VMismatch (what : string)
  | VFail (e : err)
  | VFuel
  | VNoReturn.

(** Expected output: per level [None] or [Some (pos, crd)], and values.  [exact_vals]: the value
    block must be exactly as long as [vals] (fully dense output) rather than at least. *)
Fixpoint check_levels (st : state) (idx : list (value * value))
         (exp : list (option (list Z * list Z))) : option string :=
  match idx, exp with
  | [], [] => None
  | (p, c) :: idx', None :: exp' =>
      match p, c with
      | VNull, VNull => check_levels st idx' exp'
      | _, _ => Some "dense level has index arrays"%string
      end
  | (p, c) :: idx', Some (pos, crd) :: exp' =>
      match read_ptr st p (zlen pos), read_ptr st c (zlen crd) with
      | Some (lp, cp), Some (lc, cc) =>
          if negb (lp =? zlen pos) then Some "pos block length"%string
          else if negb (lc =? zlen crd) then Some "crd block length"%string
          else if negb (all2 same_int cp pos) then Some "pos contents"%string
          else if negb (all2 same_int cc crd) then Some "crd contents"%string
          else check_levels st idx' exp'
      | _, _ => Some "pos/crd pointer not a live block"%string
      end
  | _, _ => Some "level count"%string
  end.

Definition check_output (st : state) (out : positive)
           (exp : list (option (list Z * list Z))) (vals : list F) (exact_vals : bool) : verdict :=
  match PM.find out (tensors st) with
  | None => VMismatch "no output tensor"
  | Some ts =>
      match check_levels st (t_idx ts) exp with
      | Some w => VMismatch w
      | None =>
          match read_ptr st (t_vals ts) (zlen vals) with
          | None => VMismatch "vals pointer not a live block"
          | Some (lv, cv) =>
              if (if exact_vals then negb (lv =? zlen vals) else lv <? zlen vals)
              then VMismatch "vals block length"
              else if negb (all2 same_float cv vals) then VMismatch "vals contents"
              else VOk
          end
      end
  end.

Definition fuel_of (n : Z) : nat := Z.to_nat n.

(** Run kernel [f] on [ts] (output tensor = first parameter, as tensora emits) and compare. *)
Definition run_check (fuel : Z) (f : function_definition) (ts : list tin)
           (exp : list (option (list Z * list Z))) (vals : list F) (exact_vals : bool) : verdict :=
  let '(st, args) := init_state ts in
  match call (fuel_of fuel) f args st with
  | Returned st' (VInt 0) _ => check_output st' 1%positive exp vals exact_vals
  | Returned _ _ _ => VMismatch "return value"
  | Normal _ _ => VNoReturn
  | Fail e => VFail e
  | OutOfFuel => VFuel
  end.

Fixpoint failing_from {A} (i : nat) (f : A -> verdict) (l : list A) : list (nat * verdict) :=
  match l with
  | [] => []
  | x :: r =>
      match f x with
      | VOk => failing_from (S i) f r
      | v => (i, v) :: failing_from (S i) f r
      end
  end.

(** * Histories: several kernels on the same tensors (C04: assemble; compute^n), re-valued inputs *)

Definition set_input_vals (st : state) (id : positive) (vals : list F) : state :=
  match PM.find id (tensors st) with
  | Some ts =>
      match t_vals ts with
      | VPtr blk 0 =>
          match PM.find blk (heap st) with
          | Some b =>
              with_heap st (PM.add blk
                (mkBlock true (b_len b) (cells_from (fun f => VFloat (fcanon f)) vals 0 (PM.empty _))
                         true (b_input b)) (heap st))
          | None => st
          end
      | _ => st
      end
  | None => st
  end.

Inductive run_result : Type :=
  | RDone (st : state)
  | RBad (v : verdict).

Fixpoint run_steps (fuel : Z) (steps : list (function_definition * list (positive * list F)))
         (args : list value) (st : state) : run_result :=
  match steps with
  | [] => RDone st
  | (f, revals) :: r =>
      let st1 := fold_left (fun s '(id, vs) => set_input_vals s id vs) revals st in
      match call (fuel_of fuel) f args st1 with
      | Returned st' (VInt 0) _ => run_steps fuel r args st'
      | Returned _ _ _ => RBad (VMismatch "return value")
      | Normal _ _ => RBad VNoReturn
      | Fail e => RBad (VFail e)
      | OutOfFuel => RBad VFuel
      end
  end.

Definition run_history (fuel : Z) (steps : list (function_definition * list (positive * list F)))
           (ts : list tin) (exp : list (option (list Z * list Z))) (vals : list F) (exact_vals : bool)
  : verdict :=
  let '(st, args) := init_state ts in
  match run_steps fuel steps args st with
  | RDone st' => check_output st' 1%positive exp vals exact_vals
  | RBad v => v
  end.

(** The structure (pos/crd blocks: identity, length, contents) and vals block identity of the
    output, for "compute never changes or reallocates the structure it is given". *)
Definition structure_of (st : state) : option (list (value * value) * value * list (option block)) :=
  match PM.find 1%positive (tensors st) with
  | None => None
  | Some ts =>
      let blocks := flat_map (fun '(p, c) =>
                      [match p with VPtr b _ => PM.find b (heap st) | _ => None end;
                       match c with VPtr b _ => PM.find b (heap st) | _ => None end]) (t_idx ts) in
      Some (t_idx ts, t_vals ts, blocks)
  end.

Definition value_eqb (a b : value) : bool :=
  match a, b with
  | VInt x, VInt y => x =? y
  | VPtr b1 o1, VPtr b2 o2 => Pos.eqb b1 b2 && (o1 =? o2)
  | VNull, VNull => true
  | VBool x, VBool y => Bool.eqb x y
  | VFloat x, VFloat y => same_float (Some (VFloat x)) y
  | _, _ => false
  end.

Definition block_eqb (a b : option block) : bool :=
  match a, b with
  | None, None => true
  | Some x, Some y =>
      (b_len x =? b_len y) && Bool.eqb (b_live x) (b_live y)
      && all2 (fun c d => match c, d with
                          | None, None => true
                          | Some u, Some v => value_eqb u v
                          | _, _ => false end)
              (read_cells x (b_len x)) (read_cells y (b_len y))
  | _, _ => false
  end.

(** assemble, then compute: the structure after compute is the structure after assemble *)
Definition compute_preserves_structure (fuel : Z) (fa fc : function_definition) (ts : list tin) : verdict :=
  let '(st, args) := init_state ts in
  match run_steps fuel [(fa, [])] args st with
  | RBad v => v
  | RDone st1 =>
      match run_steps fuel [(fc, [])] args st1 with
      | RBad v => v
      | RDone st2 =>
          match structure_of st1, structure_of st2 with
          | Some (i1, v1, b1), Some (i2, v2, b2) =>
              if negb (all2 (fun '(p, c) '(p', c') => value_eqb p p' && value_eqb c c') i1 i2)
              then VMismatch "compute changed an indices field"
              else if negb (value_eqb v1 v2) then VMismatch "compute changed the vals field"
              else if negb (all2 block_eqb b1 b2) then VMismatch "compute changed a pos/crd block"
              else if negb (Pos.eqb (next_blk st1) (next_blk st2)) then VMismatch "compute allocated"
              else VOk
          | _, _ => VMismatch "no output tensor"
          end
      end
  end.

(** executed loop iterations of one run (C16) *)
Definition run_iters (fuel : Z) (f : function_definition) (ts : list tin) : option Z :=
  let '(st, args) := init_state ts in
  match call (fuel_of fuel) f args st with
  | Returned st' (VInt 0) _ => Some (iters st')
  | _ => None
  end.

Definition same_iters (fuel : Z) (f : function_definition) (ts1 ts2 : list tin) : verdict :=
  match run_iters fuel f ts1, run_iters fuel f ts2 with
  | Some a, Some b => if a =? b then VOk else VMismatch "iteration counts differ"
  | _, _ => VMismatch "run failed"
  end.

(** * Expression stream (C06): one function over scalars and four arrays *)

Definition expr_state (p : list Z) (q : list F) (n : Z) : state :=
  let mk fl len cells inp := mkBlock fl len cells true inp in
  mkState []
    (PM.add 4%positive (mk false n (cells_from VInt (repeat 0 (Z.to_nat n)) 0 (PM.empty _)) false)
    (PM.add 3%positive (mk true n (cells_from (fun f => VFloat (fcanon f)) (repeat F0 (Z.to_nat n)) 0 (PM.empty _)) false)
    (PM.add 2%positive (mk true (zlen q) (cells_from (fun f => VFloat (fcanon f)) q 0 (PM.empty _)) true)
    (PM.add 1%positive (mk false (zlen p) (cells_from VInt p 0 (PM.empty _)) true) (PM.empty _)))))
    5%positive (PM.empty _) 0.

(** parameters: xi yi : int32, xf yf : double, p : int32*, q : double*, out : double*, iout : int32* *)
Definition run_expr_check (fuel : Z) (f : function_definition) (xi yi : Z) (xf yf : F)
           (p : list Z) (q : list F) (exp_f : list F) (exp_i : list Z) : verdict :=
  let st := expr_state p q (zlen exp_f) in
  match call (fuel_of fuel) f
             [VInt xi; VInt yi; VFloat (fcanon xf); VFloat (fcanon yf);
              VPtr 1%positive 0; VPtr 2%positive 0; VPtr 3%positive 0; VPtr 4%positive 0] st with
  | Returned st' (VInt 0) _ =>
      match read_ptr st' (VPtr 3%positive 0) (zlen exp_f), read_ptr st' (VPtr 4%positive 0) (zlen exp_i) with
      | Some (_, cf), Some (_, ci) =>
          if negb (all2 same_float cf exp_f) then VMismatch "float results"
          else if negb (all2 same_int ci exp_i) then VMismatch "int results" else VOk
      | _, _ => VMismatch "result blocks"
      end
  | Returned _ _ _ => VMismatch "return value"
  | Normal _ _ => VNoReturn
  | Fail e => VFail e
  | OutOfFuel => VFuel
  end.
