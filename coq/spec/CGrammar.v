(** ISO C expression grammar (C99 6.5), restricted to the operators tensora's C printer emits, as a
    SPECIFICATION: tokens, abstract syntax trees, the derivation relation indexed by precedence
    level, an executable precedence-climbing parser, and the meaning of a C tree under C's usual
    arithmetic conversions (int32_t / double / _Bool, short-circuit && ||, the TACO_MIN / TACO_MAX
    macros of compile/_compile_cffi.py::taco_define_header expanded).

    Levels (a larger number binds tighter); every level includes the next tighter one, exactly as
    each C nonterminal has a pass-through production:

      0 logical-OR  (also assignment-expression / expression: no comma, ?: or = in the fragment)
      1 logical-AND     2 equality (== !=)     3 relational (< > <= >=)
      4 additive (+ -)  5 multiplicative ( * )  6 cast         7 unary (- sizeof)
      8 postfix ([] -> call)                   9 primary (identifier, constant, parenthesised)

    The levels between 1 and 2 (| ^ &) and between 3 and 4 (<< >>) of ISO C have no operator in the
    fragment and are elided.  Binary operators are left-associative:
      level-l-expr ::= level-(l+1)-expr | level-l-expr OP level-(l+1)-expr. *)

From Coq Require Import ZArith Bool List String.
From Flocq Require Import Core BinarySingleNaN.
From TV Require Import spec.Num gen.IRAst spec.IRSem.
Import ListNotations.
Local Open Scope nat_scope.
Local Open Scope list_scope.

(** * Tokens *)

Inductive ctoken : Type :=
  | TId (s : string)
  | TInt (z : Z)            (* a decimal constant: never negative *)
  | TFlt (f : F)            (* a floating constant: never negative *)
  | TTrue | TFalse          (* <stdbool.h> *)
  | TPlus | TMinus | TStar
  | TEqEq | TNe | TLt | TGt | TLe | TGe
  | TAndAnd | TOrOr
  | TLParen | TRParen | TLBrack | TRBrack | TArrow | TComma
  | TSizeof
  | TTypeName (s : string)  (* bool int32_t double taco_tensor_t taco_mode_t *)
  | TRestrict
  | TAssign | TPlusPlus | TMinusMinus | TPlusEq | TMinusEq | TStarEq
  | TSemi | TReturn.

(** bit-exact comparison of floating constants *)
Definition F_same (x y : F) : bool := Feqb x y && Bool.eqb (Bsign x) (Bsign y).

Definition ctoken_eqb (a b : ctoken) : bool :=
  match a, b with
  | TId x, TId y => String.eqb x y
  | TInt x, TInt y => Z.eqb x y
  | TFlt x, TFlt y => F_same x y
  | TTypeName x, TTypeName y => String.eqb x y
  | TTrue, TTrue | TFalse, TFalse | TPlus, TPlus | TMinus, TMinus | TStar, TStar
  | TEqEq, TEqEq | TNe, TNe | TLt, TLt | TGt, TGt | TLe, TLe | TGe, TGe
  | TAndAnd, TAndAnd | TOrOr, TOrOr | TLParen, TLParen | TRParen, TRParen
  | TLBrack, TLBrack | TRBrack, TRBrack | TArrow, TArrow | TComma, TComma
  | TSizeof, TSizeof | TRestrict, TRestrict | TAssign, TAssign | TPlusPlus, TPlusPlus
  | TMinusMinus, TMinusMinus | TPlusEq, TPlusEq | TMinusEq, TMinusEq | TStarEq, TStarEq
  | TSemi, TSemi | TReturn, TReturn => true
  | _, _ => false
  end.

(** [str(int)]: a negative number is the unary minus applied to a constant. *)
Definition int_tokens (z : Z) : list ctoken :=
  if (z <? 0)%Z then [TMinus; TInt (- z)%Z] else [TInt z].

Definition float_tokens (f : F) : list ctoken :=
  if Bsign f then [TMinus; TFlt (Babs f)] else [TFlt f].

(** codegen/_type_to_c.py::type_to_c, with the optional declared variable. *)
Fixpoint type_tokens (t : ty) (v : option string) : list ctoken :=
  let sv := match v with Some x => [TId x] | None => [] end in
  match t with
  | TBoolean => TTypeName "bool" :: sv
  | TInteger => TTypeName "int32_t" :: sv
  | TFloat => TTypeName "double" :: sv
  | TTensor => TTypeName "taco_tensor_t" :: sv
  | TMode => TTypeName "taco_mode_t" :: sv
  | TPointer tg => type_tokens tg None ++ [TStar; TRestrict] ++ sv
  | TArray el => type_tokens el v ++ [TLBrack; TRBrack]
  | TFixedArray el n => type_tokens el v ++ [TLBrack] ++ int_tokens n ++ [TRBrack]
  end.

(** a type-name as it appears in a cast or under sizeof *)
Definition type_name (t : ty) : list ctoken := type_tokens t None.

(** The grammar below knows the five typedef names as type-names (derived declarators -- pointers,
    arrays -- never occur in a cast or under sizeof in generated code: the IR machine and tensora
    allocate arrays of int32_t and double only). *)
Definition base_name (t : ty) : option string :=
  match t with
  | TBoolean => Some "bool"%string
  | TInteger => Some "int32_t"%string
  | TFloat => Some "double"%string
  | TTensor => Some "taco_tensor_t"%string
  | TMode => Some "taco_mode_t"%string
  | _ => None
  end.

Definition base_type (s : string) : option ty :=
  if String.eqb s "bool" then Some TBoolean
  else if String.eqb s "int32_t" then Some TInteger
  else if String.eqb s "double" then Some TFloat
  else if String.eqb s "taco_tensor_t" then Some TTensor
  else if String.eqb s "taco_mode_t" then Some TMode
  else None.

(** * Trees *)

Inductive binop : Type :=
  | OOr | OAnd | OEq | ONe | OLt | OGt | OLe | OGe | OAdd | OSub | OMul.

Definition op_level (o : binop) : nat :=
  match o with
  | OOr => 0 | OAnd => 1 | OEq | ONe => 2 | OLt | OGt | OLe | OGe => 3
  | OAdd | OSub => 4 | OMul => 5
  end.

Definition op_token (o : binop) : ctoken :=
  match o with
  | OOr => TOrOr | OAnd => TAndAnd | OEq => TEqEq | ONe => TNe
  | OLt => TLt | OGt => TGt | OLe => TLe | OGe => TGe
  | OAdd => TPlus | OSub => TMinus | OMul => TStar
  end.

Definition token_op (t : ctoken) : option binop :=
  match t with
  | TOrOr => Some OOr | TAndAnd => Some OAnd | TEqEq => Some OEq | TNe => Some ONe
  | TLt => Some OLt | TGt => Some OGt | TLe => Some OLe | TGe => Some OGe
  | TPlus => Some OAdd | TMinus => Some OSub | TStar => Some OMul
  | _ => None
  end.

Inductive cexpr : Type :=
  | CVar (x : string)
  | CInt (z : Z)
  | CFloat (f : F)
  | CBool (b : bool)
  | CNeg (a : cexpr)                         (* unary minus *)
  | CBin (o : binop) (a b : cexpr)
  | CCast (t : ty) (a : cexpr)
  | CSizeof (t : ty)
  | CIndex (a i : cexpr)
  | CArrow (a : cexpr) (field : string)
  | CCall1 (f a : cexpr)
  | CCall2 (f a b : cexpr).

Definition binop_tag (o : binop) : nat :=
  match o with
  | OOr => 0 | OAnd => 1 | OEq => 2 | ONe => 3 | OLt => 4 | OGt => 5 | OLe => 6 | OGe => 7
  | OAdd => 8 | OSub => 9 | OMul => 10
  end.

Definition binop_eqb (a b : binop) : bool := Nat.eqb (binop_tag a) (binop_tag b).

(** structural equality of trees (floating constants bit for bit) *)
Fixpoint cexpr_eqb (a b : cexpr) {struct a} : bool :=
  match a, b with
  | CVar x, CVar y => String.eqb x y
  | CInt x, CInt y => Z.eqb x y
  | CFloat x, CFloat y => F_same x y
  | CBool x, CBool y => Bool.eqb x y
  | CNeg x, CNeg y => cexpr_eqb x y
  | CBin o x1 x2, CBin p y1 y2 => binop_eqb o p && cexpr_eqb x1 y1 && cexpr_eqb x2 y2
  | CCast t x, CCast u y => ty_eqb t u && cexpr_eqb x y
  | CSizeof t, CSizeof u => ty_eqb t u
  | CIndex x1 x2, CIndex y1 y2 => cexpr_eqb x1 y1 && cexpr_eqb x2 y2
  | CArrow x f, CArrow y g => cexpr_eqb x y && String.eqb f g
  | CCall1 f x, CCall1 g y => cexpr_eqb f g && cexpr_eqb x y
  | CCall2 f x1 x2, CCall2 g y1 y2 => cexpr_eqb f g && cexpr_eqb x1 y1 && cexpr_eqb x2 y2
  | _, _ => false
  end.

Notation LOr := 0%nat (only parsing).
Notation LAnd := 1%nat (only parsing).
Notation LEq := 2%nat (only parsing).
Notation LRel := 3%nat (only parsing).
Notation LAdd := 4%nat (only parsing).
Notation LMul := 5%nat (only parsing).
Notation LCast := 6%nat (only parsing).
Notation LUnary := 7%nat (only parsing).
Notation LPostfix := 8%nat (only parsing).
Notation LPrimary := 9%nat (only parsing).

(** * Derivations.  [Derives l ts t]: the token list [ts] is a level-[l] expression whose abstract
      syntax tree is [t] (parentheses leave no node). *)

Inductive Derives : nat -> list ctoken -> cexpr -> Prop :=
  | D_sub l ts t : l < LPrimary -> Derives (S l) ts t -> Derives l ts t
  | D_bin o ts1 ts2 a b :
      Derives (op_level o) ts1 a -> Derives (S (op_level o)) ts2 b ->
      Derives (op_level o) (ts1 ++ op_token o :: ts2) (CBin o a b)
  | D_cast t s ts a :
      base_name t = Some s -> Derives LCast ts a ->
      Derives LCast (TLParen :: TTypeName s :: TRParen :: ts) (CCast t a)
  | D_neg ts a :
      Derives LCast ts a -> Derives LUnary (TMinus :: ts) (CNeg a)
  | D_sizeof t s :
      base_name t = Some s ->
      Derives LUnary [TSizeof; TLParen; TTypeName s; TRParen] (CSizeof t)
  | D_index ts1 ts2 a i :
      Derives LPostfix ts1 a -> Derives LOr ts2 i ->
      Derives LPostfix (ts1 ++ TLBrack :: ts2 ++ [TRBrack]) (CIndex a i)
  | D_arrow ts a f :
      Derives LPostfix ts a -> Derives LPostfix (ts ++ [TArrow; TId f]) (CArrow a f)
  | D_call1 ts ts1 f a :
      Derives LPostfix ts f -> Derives LOr ts1 a ->
      Derives LPostfix (ts ++ TLParen :: ts1 ++ [TRParen]) (CCall1 f a)
  | D_call2 ts ts1 ts2 f a b :
      Derives LPostfix ts f -> Derives LOr ts1 a -> Derives LOr ts2 b ->
      Derives LPostfix (ts ++ TLParen :: ts1 ++ TComma :: ts2 ++ [TRParen]) (CCall2 f a b)
  | D_paren ts a :
      Derives LOr ts a -> Derives LPrimary (TLParen :: ts ++ [TRParen]) a
  | D_id x : Derives LPrimary [TId x] (CVar x)
  | D_int z : Derives LPrimary [TInt z] (CInt z)
  | D_float f : Derives LPrimary [TFlt f] (CFloat f)
  | D_true : Derives LPrimary [TTrue] (CBool true)
  | D_false : Derives LPrimary [TFalse] (CBool false).

(** * Simple statements (C99 6.8.3 expression statements with an assignment-expression 6.5.16,
      6.8.6.4 return, 6.7 a declaration with an initializer).  Layout statements (blocks, if, while)
      are not modelled. *)

Inductive assign_op : Type := AEq | AAddEq | ASubEq | AMulEq.

Definition assign_token (o : assign_op) : ctoken :=
  match o with AEq => TAssign | AAddEq => TPlusEq | ASubEq => TMinusEq | AMulEq => TStarEq end.

Inductive cstmt : Type :=
  | CSAssign (o : assign_op) (lhs rhs : cexpr)
  | CSPostIncr (lhs : cexpr)
  | CSPostDecr (lhs : cexpr)
  | CSExpr (e : cexpr)
  | CSReturn (e : cexpr)
  | CSDecl (t : ty) (x : string)
  | CSDeclInit (t : ty) (x : string) (e : cexpr).

Inductive DerivesStmt : list ctoken -> cstmt -> Prop :=
  | DS_assign o ts1 ts2 l r :
      (* assignment-expression ::= unary-expression assignment-operator assignment-expression *)
      Derives LUnary ts1 l -> Derives LOr ts2 r ->
      DerivesStmt (ts1 ++ assign_token o :: ts2 ++ [TSemi]) (CSAssign o l r)
  | DS_incr ts l :
      Derives LPostfix ts l -> DerivesStmt (ts ++ [TPlusPlus; TSemi]) (CSPostIncr l)
  | DS_decr ts l :
      Derives LPostfix ts l -> DerivesStmt (ts ++ [TMinusMinus; TSemi]) (CSPostDecr l)
  | DS_expr ts e :
      Derives LOr ts e -> DerivesStmt (ts ++ [TSemi]) (CSExpr e)
  | DS_return ts e :
      Derives LOr ts e -> DerivesStmt (TReturn :: ts ++ [TSemi]) (CSReturn e)
  | DS_decl t x :
      DerivesStmt (type_tokens t (Some x) ++ [TSemi]) (CSDecl t x)
  | DS_decl_init t x ts e :
      Derives LOr ts e ->
      DerivesStmt (type_tokens t (Some x) ++ TAssign :: ts ++ [TSemi]) (CSDeclInit t x e).

(** ISO C 6.5.16.2: [E1 op= E2] differs from [E1 = E1 op (E2)] only in that the lvalue E1 is
    evaluated once; 6.5.2.4: [E++] adds the value 1 of the appropriate type (the value of the
    postfix expression itself is discarded in an expression statement).  The lvalues of the fragment
    (identifiers, [->], [[]]) have no side effects, so the expansion is the meaning. *)
Definition expand_cstmt (s : cstmt) : cstmt :=
  match s with
  | CSAssign AAddEq l r => CSAssign AEq l (CBin OAdd l r)
  | CSAssign ASubEq l r => CSAssign AEq l (CBin OSub l r)
  | CSAssign AMulEq l r => CSAssign AEq l (CBin OMul l r)
  | CSPostIncr l => CSAssign AEq l (CBin OAdd l (CInt 1))
  | CSPostDecr l => CSAssign AEq l (CBin OSub l (CInt 1))
  | s => s
  end.

(** * An executable parser (precedence climbing, explicit fuel).

    One function with a mode: parse an expression of a level; continue the loop of a left-associative
    binary level with an accumulated left operand; continue the postfix loop. *)

Inductive pmode : Type :=
  | MExpr (l : nat)
  | MBin (l : nat) (acc : cexpr)
  | MPost (acc : cexpr).

(** token-shape helpers (keep the pattern matching of the parser one level deep) *)
Definition cast_start (ts : list ctoken) : option (string * list ctoken) :=
  match ts with TLParen :: TTypeName s :: r => Some (s, r) | _ => None end.

Definition sizeof_arg (ts : list ctoken) : option (string * list ctoken) :=
  match ts with TLParen :: TTypeName s :: TRParen :: r => Some (s, r) | _ => None end.

Definition arrow_field (ts : list ctoken) : option (string * list ctoken) :=
  match ts with TId f :: r => Some (f, r) | _ => None end.

Definition expect_rparen (ts : list ctoken) : option (list ctoken) :=
  match ts with TRParen :: r => Some r | _ => None end.

Definition expect_rbrack (ts : list ctoken) : option (list ctoken) :=
  match ts with TRBrack :: r => Some r | _ => None end.

Definition expect_comma (ts : list ctoken) : option (list ctoken) :=
  match ts with TComma :: r => Some r | _ => None end.

(** one step of the parser, the recursive calls abstracted as [rec] *)
Definition cparse_step (rec : pmode -> list ctoken -> option (cexpr * list ctoken))
  (m : pmode) (ts : list ctoken) : option (cexpr * list ctoken) :=
    match m with
    | MExpr l =>
        if l <=? 5 then
          match rec (MExpr (S l)) ts with
          | Some (a, r) => rec (MBin l a) r
          | None => None
          end
        else if l =? 6 then
          match cast_start ts with
          | Some (s, r) =>
              match base_type s, expect_rparen r with
              | Some t, Some r1 =>
                  match rec (MExpr 6) r1 with
                  | Some (a, r2) => Some (CCast t a, r2)
                  | None => None
                  end
              | _, _ => None
              end
          | None => rec (MExpr 7) ts
          end
        else if l =? 7 then
          match ts with
          | TMinus :: r =>
              match rec (MExpr 6) r with
              | Some (a, r1) => Some (CNeg a, r1)
              | None => None
              end
          | TSizeof :: r =>
              match sizeof_arg r with
              | Some (s, r1) =>
                  match base_type s with
                  | Some t => Some (CSizeof t, r1)
                  | None => None
                  end
              | None => None
              end
          | _ => rec (MExpr 8) ts
          end
        else if l =? 8 then
          match rec (MExpr 9) ts with
          | Some (a, r) => rec (MPost a) r
          | None => None
          end
        else if l =? 9 then
          match ts with
          | TId x :: r => Some (CVar x, r)
          | TInt z :: r => Some (CInt z, r)
          | TFlt f :: r => Some (CFloat f, r)
          | TTrue :: r => Some (CBool true, r)
          | TFalse :: r => Some (CBool false, r)
          | TLParen :: r =>
              match rec (MExpr 0) r with
              | Some (a, r') =>
                  match expect_rparen r' with Some r1 => Some (a, r1) | None => None end
              | None => None
              end
          | _ => None
          end
        else None
    | MBin l acc =>
        match ts with
        | t :: r =>
            match token_op t with
            | Some o =>
                if op_level o =? l then
                  match rec (MExpr (S l)) r with
                  | Some (b, r1) => rec (MBin l (CBin o acc b)) r1
                  | None => None
                  end
                else Some (acc, ts)
            | None => Some (acc, ts)
            end
        | [] => Some (acc, ts)
        end
    | MPost acc =>
        match ts with
        | TLBrack :: r =>
            match rec (MExpr 0) r with
            | Some (i, r') =>
                match expect_rbrack r' with
                | Some r1 => rec (MPost (CIndex acc i)) r1
                | None => None
                end
            | None => None
            end
        | TArrow :: r =>
            match arrow_field r with
            | Some (f, r1) => rec (MPost (CArrow acc f)) r1
            | None => None
            end
        | TLParen :: r =>
            match rec (MExpr 0) r with
            | Some (a, r') =>
                match expect_rparen r' with
                | Some r1 => rec (MPost (CCall1 acc a)) r1
                | None =>
                    match expect_comma r' with
                    | Some r1 =>
                        match rec (MExpr 0) r1 with
                        | Some (b, r'') =>
                            match expect_rparen r'' with
                            | Some r2 => rec (MPost (CCall2 acc a b)) r2
                            | None => None
                            end
                        | None => None
                        end
                    | None => None
                    end
                end
            | None => None
            end
        | _ => Some (acc, ts)
        end
    end.

Fixpoint cparse_m (fuel : nat) (m : pmode) (ts : list ctoken) {struct fuel}
  : option (cexpr * list ctoken) :=
  match fuel with
  | O => None
  | S n => cparse_step (cparse_m n) m ts
  end.

Definition cparse_fuel (ts : list ctoken) : nat := 12 * List.length ts + 12.

(** the whole token list must be one expression *)
Definition cparse (ts : list ctoken) : option cexpr :=
  match cparse_m (cparse_fuel ts) (MExpr 0) ts with
  | Some (t, []) => Some t
  | _ => None
  end.

(** * Meaning of a C tree (pure fragment)

    Values and memory are those of the IR abstract machine (spec/IRSem.v): the two semantics share
    the memory model ([index_value], [attribute_value], the environment) and differ in how operators
    are typed.  C is more permissive than the IR machine: [_Bool] values are promoted to [int] in
    arithmetic, comparisons accept doubles, [&&] [||] accept any scalar.  Signed overflow and
    non-finite results are errors (undefined behaviour / excluded), as in the IR machine.
    [TACO_MIN(a,b)] is the macro [((a) < (b) ? (a) : (b))]: the selected argument is evaluated a
    second time (its reads appear twice in the trace).  [malloc]/[realloc] have no meaning as pure
    expressions (they are the right-hand side of an assignment statement). *)

Local Open Scope Z_scope.

(** integer promotions (6.3.1.1) *)
Definition promote (v : value) : value :=
  match v with VBool b => VInt (if b then 1 else 0) | _ => v end.

Definition to_double (v : value) : option F :=
  match v with
  | VInt z => Some (fcanon (Z2F z))
  | VFloat f => Some f
  | _ => None
  end.

(** usual arithmetic conversions (6.3.1.8) for + - *; pointer + integer (6.5.6) *)
Definition c_arith (iop : Z -> Z -> Z) (fop : F -> F -> res F) (ptr : bool) (a b : value) : res value :=
  match promote a, promote b with
  | VInt x, VInt y => do z <- chk32 (iop x y); Ok (VInt z)
  | VPtr blk o, VInt y => if ptr then Ok (VPtr blk (o + y)) else Err EIllTyped
  | a', b' =>
      match to_double a', to_double b' with
      | Some f, Some g => do r <- fop f g; Ok (VFloat r)
      | _, _ => Err EIllTyped
      end
  end.

(** relational and equality operators (6.5.8, 6.5.9) on arithmetic operands *)
Definition c_compare (zop : Z -> Z -> bool) (cop : option comparison -> bool) (a b : value) : res value :=
  match promote a, promote b with
  | VInt x, VInt y => Ok (VBool (zop x y))
  | a', b' =>
      match to_double a', to_double b' with
      | Some f, Some g => Ok (VBool (cop (Bcompare f g)))
      | _, _ => Err EIllTyped
      end
  end.

Definition cmp_ops (o : binop) : option ((Z -> Z -> bool) * (option comparison -> bool)) :=
  match o with
  | OEq => Some (Z.eqb, fun c => match c with Some Eq => true | _ => false end)
  | ONe => Some ((fun x y => negb (Z.eqb x y)), fun c => match c with Some Eq => false | _ => true end)
  | OLt => Some (Z.ltb, fun c => match c with Some Lt => true | _ => false end)
  | OGt => Some (Z.gtb, fun c => match c with Some Gt => true | _ => false end)
  | OLe => Some (Z.leb, fun c => match c with Some Lt | Some Eq => true | _ => false end)
  | OGe => Some (Z.geb, fun c => match c with Some Gt | Some Eq => true | _ => false end)
  | _ => None
  end.

(** a scalar compared against 0 (6.5.13, 6.5.14, 6.5.15) *)
Definition c_truth (v : value) : res bool :=
  match v with
  | VBool b => Ok b
  | VInt z => Ok (negb (z =? 0))
  | VFloat f => Ok (negb (Feqb f F0))
  | VPtr _ _ => Ok true
  | VNull => Ok false
  | _ => Err EIllTyped
  end.

Definition c_neg (v : value) : res value :=
  match promote v with
  | VInt x => do z <- chk32 (- x); Ok (VInt z)
  | VFloat f => do r <- chkfin (Bopp f); Ok (VFloat r)
  | _ => Err EIllTyped
  end.

Definition c_cast (t : ty) (v : value) : res value :=
  match t, promote v with
  | TInteger, VInt z => Ok (VInt z)
  | TFloat, VInt z => Ok (VFloat (fcanon (Z2F z)))
  | TFloat, VFloat f => Ok (VFloat f)
  | TBoolean, _ => do b <- c_truth v; Ok (VBool b)
  | _, _ => Err EIllTyped       (* double -> int32_t truncation: not needed by the fragment *)
  end.

(** a decimal constant has type int if it fits, else long (6.4.4.1): [-2147483648] is the negation of
    the long constant 2147483648.  Integer values are mathematical integers; every OPERATOR result
    must fit int32_t (generated code only has int32_t objects), a constant must fit long. *)
Definition chk_const (z : Z) : res Z :=
  if (0 <=? z) && (z <=? 9223372036854775807) then Ok z else Err EOverflow.

Definition c_sizeof (t : ty) : res value :=
  match t with
  | TInteger => Ok (VInt 4)
  | TFloat => Ok (VInt 8)
  | TBoolean => Ok (VInt 1)
  | _ => Err EIllTyped
  end.

Fixpoint cexpr_sem (st : state) (c : cexpr) {struct c} : res (value * list event) :=
  match c with
  | CVar x =>
      match lookup x (env st) with
      | Some (t, Some v) => if typed t v then Ok (v, []) else Err EIllTyped
      | _ => Err EUnbound
      end
  | CInt z => do z' <- chk_const z; Ok (VInt z', [])
  | CFloat f => do f' <- chkfin f; Ok (VFloat f', [])
  | CBool b => Ok (VBool b, [])
  | CNeg a =>
      do '(v, t1) <- cexpr_sem st a;
      do r <- c_neg v;
      Ok (r, t1)
  | CBin OAnd a b =>
      do '(va, t1) <- cexpr_sem st a;
      do x <- c_truth va;
      if x then
        do '(vb, t2) <- cexpr_sem st b;
        do y <- c_truth vb;
        Ok (VBool y, t1 ++ t2)
      else Ok (VBool false, t1)
  | CBin OOr a b =>
      do '(va, t1) <- cexpr_sem st a;
      do x <- c_truth va;
      if x then Ok (VBool true, t1)
      else
        do '(vb, t2) <- cexpr_sem st b;
        do y <- c_truth vb;
        Ok (VBool y, t1 ++ t2)
  | CBin o a b =>
      do '(va, t1) <- cexpr_sem st a;
      do '(vb, t2) <- cexpr_sem st b;
      do r <- match o with
              | OAdd => c_arith Z.add fadd true va vb
              | OSub => c_arith Z.sub fsub false va vb
              | OMul => c_arith Z.mul fmul false va vb
              | _ => match cmp_ops o with
                     | Some (zop, cop) => c_compare zop cop va vb
                     | None => Err EIllFormed
                     end
              end;
      Ok (r, t1 ++ t2)
  | CCast t a =>
      do '(v, t1) <- cexpr_sem st a;
      do r <- c_cast t v;
      Ok (r, t1)
  | CSizeof t => do r <- c_sizeof t; Ok (r, [])
  | CIndex a i =>
      do '(v, t1) <- cexpr_sem st a;
      do '(iv, t2) <- cexpr_sem st i;
      do '(r, t3) <- index_value st v (promote iv);
      Ok (r, t1 ++ t2 ++ t3)
  | CArrow a f =>
      do '(v, t1) <- cexpr_sem st a;
      do r <- attribute_value st v f;
      Ok (r, t1)
  | CCall2 (CVar m) a b =>
      (* the two macros of taco_define_header; anything else is not a pure expression *)
      let less := String.eqb m "TACO_MIN" in
      if less || String.eqb m "TACO_MAX" then
        do '(va, t1) <- cexpr_sem st a;
        do '(vb, t2) <- cexpr_sem st b;
        do c <- (if less then c_compare Z.ltb (fun c => match c with Some Lt => true | _ => false end) va vb
                 else c_compare Z.gtb (fun c => match c with Some Gt => true | _ => false end) va vb);
        do pick <- c_truth c;
        (* ?: converts its 2nd and 3rd operands to a common type (6.5.15) *)
        let both_int := match promote va, promote vb with VInt _, VInt _ => true | _, _ => false end in
        let conv (v : value) : res value :=
          if both_int then Ok (promote v)
          else match to_double (promote v) with Some f => Ok (VFloat f) | None => Err EIllTyped end in
        if pick then
          do '(va', t3) <- cexpr_sem st a;     (* the macro evaluates the chosen argument again *)
          do r <- conv va';
          Ok (r, t1 ++ t2 ++ t3)
        else
          do '(vb', t3) <- cexpr_sem st b;
          do r <- conv vb';
          Ok (r, t1 ++ t2 ++ t3)
      else Err EIllFormed
  | CCall2 _ _ _ => Err EIllFormed
  | CCall1 _ _ => Err EIllFormed
  end.
