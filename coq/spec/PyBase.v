(** Small helpers shared by the generated files: Python's == on lists / optionals. *)
From Coq Require Import List Bool.

Fixpoint list_eqb {A} (eqb : A -> A -> bool) (a b : list A) : bool :=
  match a, b with
  | nil, nil => true
  | x :: a', y :: b' => eqb x y && list_eqb eqb a' b'
  | _, _ => false
  end.

Definition option_eqb {A} (eqb : A -> A -> bool) (a b : option A) : bool :=
  match a, b with
  | None, None => true
  | Some x, Some y => eqb x y
  | _, _ => false
  end.
