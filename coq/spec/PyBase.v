(** Small helpers shared by the generated files: Python's == on lists / optionals. *)
From Coq Require Import List Bool.

Definition list_eqb {A} (eqb : A -> A -> bool) : list A -> list A -> bool :=
  fix go (a b : list A) : bool :=
    match a, b with
    | nil, nil => true
    | x :: a', y :: b' => eqb x y && go a' b'
    | _, _ => false
    end.

Definition option_eqb {A} (eqb : A -> A -> bool) (a b : option A) : bool :=
  match a, b with
  | None, None => true
  | Some x, Some y => eqb x y
  | _, _ => false
  end.
