(** Structural support (property C03): where can an assignment produce an output entry, reading
    every input tensor as the SET of coordinates it stores?

      tensor access     the coordinate is stored (a dense level of an input "stores" every in-range
                        coordinate under a stored parent; explicit stored zeros count)
      product           intersection
      sum / difference  union
      summation         projection: an index that is not a target index is existentially
                        quantified over its range -- per additive term (monomial), i.e. each term
                        is summed over ITS OWN non-target indexes (a term that does not mention k
                        is not multiplied by an empty k-range)
      literal           everywhere present

    Literal 0.  The property text says "literals as everywhere-present"; we follow it literally:
    [SLit 0] is present everywhere, like any other literal.  (The kernels agree: a terminal raises
    the written flags unless its expression EXHAUSTED to the literal 0 because a sparse operand was
    absent; a literal 0 written in the source multiplies like any number, so
    [a(i) = 0 * b(i)] stores b's pattern.)  Reading a literal 0 as "absent" would be a STRICTER
    property than the text states.  This choice only enlarges the support, i.e. makes "stored is
    contained in support" easier, never harder.

    The expression AST is a small sugar-level one (independent of coq/spec/Spec.v of C01):
    literals carry an integer value, used only by the local value semantics [value] to which the
    support is related in proofs/SupportProofs.v.

    Coordinates of input tensors and of the output are in DIMENSION order (the order of the
    subscripts); [level_support] / [no_phantomb] translate the output's level order. *)

From Coq Require Import ZArith List Bool String.
From TV Require Import spec.Storage.
Import ListNotations.
Open Scope Z_scope.

(** * Expressions *)

Inductive sexpr : Type :=
  | SLit (v : Z)
  | STensor (name : string) (idx : list string)
  | SAdd (a b : sexpr)
  | SSub (a b : sexpr)
  | SMul (a b : sexpr).

Record assignment : Type := mkAssignment {
  a_target : string;
  a_tidx : list string;      (* target subscripts, pairwise distinct *)
  a_rhs : sexpr
}.

(** Additive normal form: a sum of signed products of factors. *)
Inductive factor : Type :=
  | FLit (v : Z)
  | FTen (name : string) (idx : list string).

Definition mono : Type := (bool * list factor)%type.   (* (negated?, factors) *)

Definition mono_neg (m : mono) : mono := (negb (fst m), snd m).
Definition mono_mul (m1 m2 : mono) : mono := (xorb (fst m1) (fst m2), snd m1 ++ snd m2).

Fixpoint monomials (e : sexpr) : list mono :=
  match e with
  | SLit v => [(false, [FLit v])]
  | STensor n ix => [(false, [FTen n ix])]
  | SAdd a b => monomials a ++ monomials b
  | SSub a b => monomials a ++ map mono_neg (monomials b)
  | SMul a b => flat_map (fun m1 => map (mono_mul m1) (monomials b)) (monomials a)
  end.

(** * Environments *)

Definition env : Type := list (string * Z).

(** first binding wins; an unbound index reads as -1, which is never a stored coordinate and never
    a valid size *)
Fixpoint lookup (r : env) (k : string) : Z :=
  match r with
  | [] => -1
  | (k', v) :: r' => if String.eqb k' k then v else lookup r' k
  end.

Fixpoint mem_str (k : string) (l : list string) : bool :=
  match l with
  | [] => false
  | x :: r => String.eqb x k || mem_str k r
  end.

Fixpoint dedupe (l : list string) : list string :=
  match l with
  | [] => []
  | x :: r => if mem_str x r then dedupe r else x :: dedupe r
  end.

(** every assignment of the indexes [ks] within their ranges *)
Fixpoint assignments (ks : list string) (sizes : env) : list env :=
  match ks with
  | [] => [[]]
  | k :: r => flat_map (fun v => map (cons (k, v)) (assignments r sizes)) (zrange (lookup sizes k))
  end.

Definition factor_idx (f : factor) : list string :=
  match f with FLit _ => [] | FTen _ ix => ix end.

(** the non-target indexes of a monomial: what it is summed over *)
Definition contracted (tidx : list string) (m : mono) : list string :=
  filter (fun k => negb (mem_str k tidx)) (dedupe (flat_map factor_idx (snd m))).

(** * Support *)

Fixpoint zl_eqb (a b : list Z) : bool :=
  match a, b with
  | [], [] => true
  | x :: a', y :: b' => (x =? y) && zl_eqb a' b'
  | _, _ => false
  end.

Definition mem_coord (c : list Z) (s : list (list Z)) : bool := existsb (zl_eqb c) s.

(** [ins n]: the coordinates tensor [n] stores, in dimension order *)
Definition factor_suppb (ins : string -> list (list Z)) (r : env) (f : factor) : bool :=
  match f with
  | FLit _ => true
  | FTen n ix => mem_coord (map (lookup r) ix) (ins n)
  end.

Definition mono_supportb (ins : string -> list (list Z)) (sizes : env) (tidx : list string)
           (env0 : env) (m : mono) : bool :=
  existsb (fun r => forallb (factor_suppb ins (env0 ++ r)) (snd m))
          (assignments (contracted tidx m) sizes).

(** Is there structural support for output coordinate [c] (dimension order)? *)
Definition supportb (a : assignment) (ins : string -> list (list Z)) (sizes : env) (c : list Z) : bool :=
  existsb (mono_supportb ins sizes (a_tidx a) (combine (a_tidx a) c)) (monomials (a_rhs a)).

(** Projection on the first [k] levels of the output's level order: is there support under the
    level-order prefix [prefix] (length k), for SOME in-range values of the remaining levels? *)
Definition level_sizes (a : assignment) (sizes : env) (ordering : list nat) : list Z :=
  map (fun d => lookup sizes (nth d (a_tidx a) EmptyString)) ordering.

Fixpoint completions (ds : list Z) : list (list Z) :=
  match ds with
  | [] => [[]]
  | d :: r => flat_map (fun v => map (cons v) (completions r)) (zrange d)
  end.

Definition level_support (a : assignment) (ins : string -> list (list Z)) (sizes : env)
           (ordering : list nat) (k : nat) (prefix : list Z) : bool :=
  existsb (fun rest => supportb a ins sizes (to_dim_order ordering (prefix ++ rest)))
          (completions (skipn k (level_sizes a sizes ordering))).

(** * The checker: no compressed level of the output stores a coordinate without support *)

Definition is_compressed (l : level) : bool := match l with LCompressed _ _ => true | LDense => false end.

Definition compressed_levels {V} (out : tensor V) : list nat :=
  filter (fun l => is_compressed (nth l (levels out) LDense)) (seq 0 (List.length (levels out))).

Definition no_phantomb {V} (a : assignment) (ins : string -> list (list Z)) (sizes : env) (out : tensor V) : bool :=
  forallb (fun l => forallb (level_support a ins sizes (ordering out) (S l)) (stored_prefixes out (S l)))
          (compressed_levels out).

(** the phantoms, for the replay file: (level, level-order prefix) *)
Definition phantoms {V} (a : assignment) (ins : string -> list (list Z)) (sizes : env) (out : tensor V)
  : list (nat * list Z) :=
  flat_map (fun l => map (fun p => (l, p))
                         (filter (fun p => negb (level_support a ins sizes (ordering out) (S l) p))
                                 (stored_prefixes out (S l))))
           (compressed_levels out).

(** The stored coordinate set of a stored tensor (what the harness passes as [ins n]). *)
Definition stored_of {V} (dflt : V) (t : tensor V) : list (list Z) := map fst (entries dflt t).

Fixpoint ins_of (l : list (string * list (list Z))) (n : string) : list (list Z) :=
  match l with
  | [] => []
  | (n', s) :: r => if String.eqb n' n then s else ins_of r n
  end.

(** * A value semantics over Z, to relate the support to (C03_support_sound_for_values) *)

Fixpoint zsum (l : list Z) : Z := match l with [] => 0 | x :: r => x + zsum r end.
Fixpoint zprod (l : list Z) : Z := match l with [] => 1 | x :: r => x * zprod r end.

(** value of tensor [n] at [c]: sum of the values stored under that coordinate, 0 when absent *)
Definition tval (vins : string -> list (list Z * Z)) (n : string) (c : list Z) : Z :=
  zsum (map snd (filter (fun e => zl_eqb c (fst e)) (vins n))).

Definition factor_val (vins : string -> list (list Z * Z)) (r : env) (f : factor) : Z :=
  match f with
  | FLit v => v
  | FTen n ix => tval vins n (map (lookup r) ix)
  end.

Definition mono_val (vins : string -> list (list Z * Z)) (sizes : env) (tidx : list string)
           (env0 : env) (m : mono) : Z :=
  (if fst m then -1 else 1)
  * zsum (map (fun r => zprod (map (factor_val vins (env0 ++ r)) (snd m)))
              (assignments (contracted tidx m) sizes)).

Definition value (a : assignment) (vins : string -> list (list Z * Z)) (sizes : env) (c : list Z) : Z :=
  zsum (map (mono_val vins sizes (a_tidx a) (combine (a_tidx a) c)) (monomials (a_rhs a))).
