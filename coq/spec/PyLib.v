(** Python library functions used by the files that tools/py2coq/extra.py regenerates
    (gen/ExhaustAst.v, gen/Exhaust.v, gen/Names.v, gen/Deparse.v, gen/Desugar.v).

    Every function is total; a Python exception is the explicit result [None].
    Definitions only -- the lemmas are in proofs/PyLibFacts.v. *)

From Coq Require Import ZArith NArith List Bool String Ascii DecimalString Decimal.
Import ListNotations.
Open Scope string_scope.

(** ** [str(int)] : decimal, sign only when negative, no leading zeros *)
Definition show_N (n : N) : string := NilEmpty.string_of_uint (N.to_uint n).

Definition show_Z (z : Z) : string :=
  match z with
  | Zneg p => "-" ++ show_N (Npos p)
  | _ => show_N (Z.to_N z)
  end.

(** ** [sep.join(xs)] *)
Fixpoint py_join (sep : string) (xs : list string) : string :=
  match xs with
  | [] => ""
  | [x] => x
  | x :: r => x ++ sep ++ py_join sep r
  end.

(** ** [xs.index(x)] : position of the first occurrence; [None] = ValueError *)
Fixpoint py_index_from {A} (eqb : A -> A -> bool) (xs : list A) (x : A) (i : Z) : option Z :=
  match xs with
  | [] => None
  | y :: r => if eqb y x then Some i else py_index_from eqb r x (i + 1)%Z
  end.
Definition py_index {A} (eqb : A -> A -> bool) (xs : list A) (x : A) : option Z :=
  py_index_from eqb xs x 0%Z.

(** ** [xs[i]] with Python's negative indexes; [None] = IndexError *)
Definition py_getitem {A} (xs : list A) (i : Z) : option A :=
  if (0 <=? i)%Z then nth_error xs (Z.to_nat i)
  else if (- Z.of_nat (List.length xs) <=? i)%Z then nth_error xs (Z.to_nat (Z.of_nat (List.length xs) + i))
  else None.

(** ** [x in xs] *)
Definition py_in {A} (eqb : A -> A -> bool) (x : A) (xs : list A) : bool := existsb (eqb x) xs.

(** ** sets, represented by duplicate-free lists in an UNSPECIFIED order.  No generated function
    may depend on the order of such a list unless it goes through an explicit order oracle. *)
Definition pyset (A : Type) : Type := list A.

Definition set_union {A} (eqb : A -> A -> bool) (a b : list A) : list A :=
  a ++ filter (fun x => negb (py_in eqb x a)) b.

(** [set(l)]: the last occurrence of each element is kept (as [List.nodup]) *)
Fixpoint set_of_list {A} (eqb : A -> A -> bool) (l : list A) : list A :=
  match l with
  | [] => []
  | x :: r => if py_in eqb x r then set_of_list eqb r else x :: set_of_list eqb r
  end.

(** [a.intersection(b)], [a - b] *)
Definition set_inter {A} (eqb : A -> A -> bool) (a b : list A) : list A :=
  filter (fun x => py_in eqb x b) a.
Definition set_diff {A} (eqb : A -> A -> bool) (a b : list A) : list A :=
  filter (fun x => negb (py_in eqb x b)) a.

(** ** [functools.reduce(f, xs)] without initial value: TypeError on an empty list *)
Definition py_reduce {A} (f : A -> A -> A) (xs : list A) : option A :=
  match xs with
  | [] => None
  | x :: r => Some (fold_left f r x)
  end.

(** ** option monad of the partial (exception-raising) functions *)
Definition obind {A B} (o : option A) (f : A -> option B) : option B :=
  match o with None => None | Some a => f a end.

(** [[f(x) for x in xs]] when [f] may raise: left to right, first exception wins *)
Fixpoint omap {A B} (f : A -> option B) (xs : list A) : option (list B) :=
  match xs with
  | [] => Some []
  | x :: r => match f x with
              | None => None
              | Some y => match omap f r with None => None | Some ys => Some (y :: ys) end
              end
  end.

(** the same with a counter threaded through *)
Fixpoint omap_st {A B S} (f : A -> S -> option (B * S)) (xs : list A) (s : S) : option (list B * S) :=
  match xs with
  | [] => Some ([], s)
  | x :: r => match f x s with
              | None => None
              | Some (y, s1) => match omap_st f r s1 with None => None | Some (ys, s2) => Some (y :: ys, s2) end
              end
  end.

(** [for x in xs: <body that may raise>]: the variables the body assigns (and the counter) are the
    accumulator *)
Fixpoint ofold {A B} (f : B -> A -> option B) (xs : list A) (acc : B) : option B :=
  match xs with
  | [] => Some acc
  | x :: r => match f acc x with None => None | Some acc1 => ofold f r acc1 end
  end.

(** ** dicts with insertion order: association lists with unique keys *)
Definition pydict (K V : Type) : Type := list (K * V).

(** [d[k]]; None = KeyError *)
Fixpoint dict_get {K V} (eqb : K -> K -> bool) (k : K) (d : list (K * V)) : option V :=
  match d with
  | [] => None
  | (k', v) :: r => if eqb k k' then Some v else dict_get eqb k r
  end.

Definition dict_mem {K V} (eqb : K -> K -> bool) (k : K) (d : list (K * V)) : bool :=
  match dict_get eqb k d with Some _ => true | None => false end.

(** [d[k] = v]: in place when the key is present, else appended *)
Fixpoint dict_set {K V} (eqb : K -> K -> bool) (k : K) (v : V) (d : list (K * V)) : list (K * V) :=
  match d with
  | [] => [(k, v)]
  | (k', v') :: r => if eqb k k' then (k', v) :: r else (k', v') :: dict_set eqb k v r
  end.

(** [d.get(k, default)] *)
Definition dict_get_or {K V} (eqb : K -> K -> bool) (k : K) (d : list (K * V)) (default : V) : V :=
  match dict_get eqb k d with Some v => v | None => default end.

(** [enumerate(xs)] *)
Fixpoint py_enumerate_from {A} (i : Z) (xs : list A) : list (Z * A) :=
  match xs with
  | [] => []
  | x :: r => (i, x) :: py_enumerate_from (i + 1)%Z r
  end.
Definition py_enumerate {A} (xs : list A) : list (Z * A) := py_enumerate_from 0%Z xs.

(** [==] on pairs *)
Definition pair_eqb {A B} (ea : A -> A -> bool) (eb : B -> B -> bool) (x y : A * B) : bool :=
  ea (fst x) (fst y) && eb (snd x) (snd y).

(** a set display [{*a, *b, x}]: the first occurrence of each element is kept (another
    representation of the same set than [set_of_list]; both are duplicate-free lists) *)
Fixpoint set_display_acc {A} (eqb : A -> A -> bool) (seen l : list A) : list A :=
  match l with
  | [] => []
  | x :: t => if py_in eqb x seen then set_display_acc eqb seen t else x :: set_display_acc eqb (x :: seen) t
  end.
Definition set_display {A} (eqb : A -> A -> bool) (l : list A) : list A := set_display_acc eqb [] l.
