(** Python library functions used by the files that tools/py2coq/extra.py regenerates
    (gen/ExhaustAst.v, gen/Exhaust.v, gen/Names.v, gen/Deparse.v, gen/Desugar.v).

    Every function is total; a Python exception is the explicit result [None].
    Definitions only -- the lemmas are in proofs/PyLibFacts.v. *)

From Coq Require Import ZArith NArith List Bool String Ascii DecimalString Decimal.
Import ListNotations.
Open Scope string_scope.

(** ** [str(int)] : decimal, sign only when negative, no leading zeros *)
Definition show_N (n : N) : string := NilEmpty.string_of_uint (N.to_uint n).

Definition show_Z (z : Z) : string :=
  match z with
  | Zneg p => "-" ++ show_N (Npos p)
  | _ => show_N (Z.to_N z)
  end.

(** ** [sep.join(xs)] *)
Fixpoint py_join (sep : string) (xs : list string) : string :=
  match xs with
  | [] => ""
  | [x] => x
  | x :: r => x ++ sep ++ py_join sep r
  end.

(** ** [xs.index(x)] : position of the first occurrence; [None] = ValueError *)
Fixpoint py_index_from {A} (eqb : A -> A -> bool) (xs : list A) (x : A) (i : Z) : option Z :=
  match xs with
  | [] => None
  | y :: r => if eqb y x then Some i else py_index_from eqb r x (i + 1)%Z
  end.
Definition py_index {A} (eqb : A -> A -> bool) (xs : list A) (x : A) : option Z :=
  py_index_from eqb xs x 0%Z.

(** ** [xs[i]] with Python's negative indexes; [None] = IndexError *)
Definition py_getitem {A} (xs : list A) (i : Z) : option A :=
  if (0 <=? i)%Z then nth_error xs (Z.to_nat i)
  else if (- Z.of_nat (List.length xs) <=? i)%Z then nth_error xs (Z.to_nat (Z.of_nat (List.length xs) + i))
  else None.

(** ** [x in xs] *)
Definition py_in {A} (eqb : A -> A -> bool) (x : A) (xs : list A) : bool := existsb (eqb x) xs.

(** ** sets, represented by duplicate-free lists in an UNSPECIFIED order.  No generated function
    may depend on the order of such a list unless it goes through an explicit order oracle. *)
Definition set_union {A} (eqb : A -> A -> bool) (a b : list A) : list A :=
  a ++ filter (fun x => negb (py_in eqb x a)) b.

Fixpoint set_of_list {A} (eqb : A -> A -> bool) (l : list A) : list A :=
  match l with
  | [] => []
  | x :: r => let s := set_of_list eqb r in if py_in eqb x s then s else x :: s
  end.

(** ** option monad of the partial (exception-raising) functions *)
Definition obind {A B} (o : option A) (f : A -> option B) : option B :=
  match o with None => None | Some a => f a end.

(** [[f(x) for x in xs]] when [f] may raise: left to right, first exception wins *)
Fixpoint omap {A B} (f : A -> option B) (xs : list A) : option (list B) :=
  match xs with
  | [] => Some []
  | x :: r => match f x with
              | None => None
              | Some y => match omap f r with None => None | Some ys => Some (y :: ys) end
              end
  end.
