(** The IR abstract machine: a definitional interpreter for tensora's intermediate representation
    (the generated types [expr], [stmt] of gen/IRAst.v).  This is a SPECIFICATION written by hand:
    it says what an IR program means.  It mirrors the typing decisions of codegen/_ir_to_llvm.py
    (int (+) int -> checked int32; mixed -> sitofp then binary64; store of an int into a float slot
    converts) and checks every access: pointer live, offset in range, cell initialised, no store into
    an input.  Its agreement with gcc-compiled C and with the LLVM JIT is checked by the C06
    correspondence. *)

From Coq Require Import ZArith Bool List String FMapPositive.
From Flocq Require Import Core BinarySingleNaN.
From TV Require Import spec.Num gen.IRAst.
Import ListNotations.
Open Scope Z_scope.

Module PM := PositiveMap.

Inductive value : Type :=
  | VInt (z : Z)
  | VFloat (f : F)
  | VBool (b : bool)
  | VPtr (blk : positive) (off : Z)
  | VNull
  | VTensor (t : positive)        (* taco_tensor_t* *)
  | VDims (t : positive)          (* t->dimensions *)
  | VIndices (t : positive)       (* t->indices *)
  | VLevel (t : positive) (l : Z) (* t->indices[l] *).

(** Memory events, for "performs no access the original did not" (C07) and for the counters. *)
Inductive event : Type :=
  | ELoad (blk : positive) (off : Z)
  | EStore (blk : positive) (off : Z)
  | EAlloc (blk : positive) (n : Z)
  | ERealloc (old new : positive) (n : Z)
  | EField (t : positive).       (* store into an output tensor's indices / vals field *)

Record block : Type := mkBlock {
  b_float : bool;               (* element type: true = double, false = int32 *)
  b_len : Z;
  b_cells : PM.t value;         (* absent = uninitialised; key = offset + 1 *)
  b_live : bool;                (* false after it was passed to realloc *)
  b_input : bool                (* belongs to an input tensor: read-only *)
}.

Record tensor_s : Type := mkTensorS {
  t_dims : list Z;
  t_idx : list (value * value); (* per level: (pos, crd) pointers; VNull for dense levels *)
  t_vals : value;
  t_output : bool
}.

Record state : Type := mkState {
  env : list (string * (ty * option value));
  heap : PM.t block;
  next_blk : positive;
  tensors : PM.t tensor_s;
  iters : Z                     (* executed loop iterations (C16) *)
}.

Definition key (off : Z) : positive := Z.to_pos (off + 1).

(** * Environment *)

Fixpoint lookup (x : string) (e : list (string * (ty * option value))) : option (ty * option value) :=
  match e with
  | [] => None
  | (y, d) :: r => if String.eqb x y then Some d else lookup x r
  end.

(** replace in place, or append when absent *)
Fixpoint set_var (x : string) (d : ty * option value) (e : list (string * (ty * option value)))
  : list (string * (ty * option value)) :=
  match e with
  | [] => [(x, d)]
  | (y, d0) :: r => if String.eqb x y then (y, d) :: r else (y, d0) :: set_var x d r
  end.

Definition with_env (st : state) e := mkState e (heap st) (next_blk st) (tensors st) (iters st).
Definition with_heap (st : state) h := mkState (env st) h (next_blk st) (tensors st) (iters st).
Definition with_tensors (st : state) t := mkState (env st) (heap st) (next_blk st) t (iters st).
Definition tick (st : state) := mkState (env st) (heap st) (next_blk st) (tensors st) (iters st + 1).

(** * Values and types *)

(** A stored value of the right shape for a slot of type [t]: what [coerce] produces.  Reads check
    it dynamically, so the theorems about the machine need no invariant on the initial state. *)
Definition typed (t : ty) (v : value) : bool :=
  match t, v with
  | TFloat, VFloat f => is_canon f
  | TInteger, VInt z => in_int32 z
  | TBoolean, VBool _ => true
  | TPointer TTensor, VTensor _ => true
  | TPointer TInteger, VPtr _ _ => true
  | TPointer TFloat, VPtr _ _ => true
  | TPointer TInteger, VNull => true
  | TPointer TFloat, VNull => true
  | _, _ => false
  end.

Definition coerce (t : ty) (v : value) : res value :=
  match t, v with
  | TFloat, VInt z => Ok (VFloat (fcanon (Z2F z)))
  | TFloat, VFloat f => if is_canon f then Ok v else Err EIllTyped
  | TInteger, VInt z => if in_int32 z then Ok v else Err EIllTyped
  | TBoolean, VBool b => Ok v
  | TPointer TTensor, VTensor _ => Ok v
  | TPointer TInteger, VPtr _ _ => Ok v
  | TPointer TFloat, VPtr _ _ => Ok v
  | TPointer TInteger, VNull => Ok v
  | TPointer TFloat, VNull => Ok v
  | _, _ => Err EIllTyped
  end.

Definition arith (iop : Z -> Z -> Z) (fop : F -> F -> res F) (ptr : bool) (a b : value) : res value :=
  match a, b with
  | VInt x, VInt y => do z <- chk32 (iop x y); Ok (VInt z)
  | VInt x, VFloat g => do r <- fop (fcanon (Z2F x)) g; Ok (VFloat r)
  | VFloat f, VInt y => do r <- fop f (fcanon (Z2F y)); Ok (VFloat r)
  | VFloat f, VFloat g => do r <- fop f g; Ok (VFloat r)
  | VPtr blk o, VInt y => if ptr then Ok (VPtr blk (o + y)) else Err EIllTyped
  | _, _ => Err EIllTyped
  end.

Definition cmp (op : Z -> Z -> bool) (a b : value) : res value :=
  match a, b with
  | VInt x, VInt y => Ok (VBool (op x y))
  | _, _ => Err EIllTyped
  end.

Definition sel (op : Z -> Z -> bool) (a b : value) : res value :=
  match a, b with
  | VInt x, VInt y => Ok (VInt (if op x y then x else y))
  | _, _ => Err EIllTyped
  end.

(** * Memory *)

Definition load (st : state) (blk : positive) (off : Z) : res value :=
  match PM.find blk (heap st) with
  | None => Err EOutOfBounds
  | Some b =>
      if negb (b_live b) then Err EFreed
      else if (off <? 0) || (b_len b <=? off) then Err EOutOfBounds
      else match PM.find (key off) (b_cells b) with
           | Some v => if typed (if b_float b then TFloat else TInteger) v then Ok v
                       else Err EIllTyped
           | None => Err EUninitialised
           end
  end.

Definition store (st : state) (blk : positive) (off : Z) (v : value) : res state :=
  match PM.find blk (heap st) with
  | None => Err EOutOfBounds
  | Some b =>
      if negb (b_live b) then Err EFreed
      else if b_input b then Err EWriteInput
      else if (off <? 0) || (b_len b <=? off) then Err EOutOfBounds
      else
        do v' <- coerce (if b_float b then TFloat else TInteger) v;
        Ok (with_heap st (PM.add blk
              (mkBlock (b_float b) (b_len b) (PM.add (key off) v' (b_cells b)) true false)
              (heap st)))
  end.

Definition elt_is_float (t : ty) : res bool :=
  match t with
  | TFloat => Ok true
  | TInteger => Ok false
  | _ => Err EIllTyped
  end.

Definition alloc (st : state) (t : ty) (n : Z) : res (state * value * list event) :=
  do fl <- elt_is_float t;
  if n <? 0 then Err EBadAlloc else
  let blk := next_blk st in
  Ok (mkState (env st) (PM.add blk (mkBlock fl n (PM.empty value) true false) (heap st))
              (Pos.succ blk) (tensors st) (iters st),
      VPtr blk 0, [EAlloc blk n]).

(** cells with offset < n *)
Definition keep_prefix (n : Z) (cells : PM.t value) : PM.t value :=
  PM.fold (fun k v acc => if (Zpos k <=? n) then PM.add k v acc else acc) cells (PM.empty value).

Definition realloc (st : state) (old : value) (t : ty) (n : Z) : res (state * value * list event) :=
  do fl <- elt_is_float t;
  if n <? 0 then Err EBadAlloc else
  match old with
  | VPtr ob 0 =>
      match PM.find ob (heap st) with
      | None => Err EOutOfBounds
      | Some b =>
          if negb (b_live b) then Err EFreed
          else if b_input b then Err EWriteInput
          else if negb (Bool.eqb fl (b_float b)) then Err EIllTyped
          else
            let blk := next_blk st in
            let h1 := PM.add ob (mkBlock (b_float b) (b_len b) (b_cells b) false false) (heap st) in
            let h2 := PM.add blk (mkBlock fl n (keep_prefix n (b_cells b)) true false) h1 in
            Ok (mkState (env st) h2 (Pos.succ blk) (tensors st) (iters st),
                VPtr blk 0, [ERealloc ob blk n])
      end
  | VNull =>   (* realloc(NULL, n) = malloc(n) *)
      alloc st t n
  | _ => Err EIllTyped
  end.

(** * Expressions (pure: allocation forms are only meaningful as the right-hand side of an
      assignment, see [eval_rhs]) *)

Definition is_ptr (v : value) : bool :=
  match v with VPtr _ _ => true | VNull => true | _ => false end.

Definition tensor_of (st : state) (t : positive) : res tensor_s :=
  match PM.find t (tensors st) with Some x => Ok x | None => Err EIllFormed end.

Definition nthZ_opt {A} (l : list A) (i : Z) : option A :=
  if i <? 0 then None else nth_error l (Z.to_nat i).

Definition index_value (st : state) (v : value) (i : value) : res (value * list event) :=
  match v, i with
  | VPtr blk o, VInt n => do x <- load st blk (o + n); Ok (x, [ELoad blk (o + n)])
  | VDims t, VInt n =>
      do ts <- tensor_of st t;
      match nthZ_opt (t_dims ts) n with
      | Some d => do d' <- chk32 d; Ok (VInt d', [])
      | None => Err EOutOfBounds
      end
  | VIndices t, VInt n => Ok (VLevel t n, [])
  | VLevel t l, VInt j =>
      do ts <- tensor_of st t;
      match nthZ_opt (t_idx ts) l with
      | Some (p, c) =>
          if negb (is_ptr p && is_ptr c) then Err EIllTyped
          else if j =? 0 then Ok (p, []) else if j =? 1 then Ok (c, []) else Err EOutOfBounds
      | None => Err EOutOfBounds
      end
  | _, _ => Err EIllTyped
  end.

Definition attribute_value (st : state) (v : value) (a : string) : res value :=
  match v with
  | VTensor t =>
      if String.eqb a "dimensions" then Ok (VDims t)
      else if String.eqb a "indices" then Ok (VIndices t)
      else if String.eqb a "vals" then
        do ts <- tensor_of st t; if is_ptr (t_vals ts) then Ok (t_vals ts) else Err EIllTyped
      else Err EIllFormed
  | _ => Err EIllTyped
  end.

Definition as_bool (v : value) : res bool :=
  match v with VBool b => Ok b | _ => Err EIllTyped end.

Definition bin2 (op : value -> value -> res value) (ra rb : res (value * list event))
  : res (value * list event) :=
  do '(a, t1) <- ra;
  do '(b, t2) <- rb;
  do v <- op a b;
  Ok (v, t1 ++ t2).

Fixpoint eval (st : state) (e : expr) {struct e} : res (value * list event) :=
  match e with
  | Var x =>
      match lookup x (env st) with
      | Some (t, Some v) => if typed t v then Ok (v, []) else Err EIllTyped
      | _ => Err EUnbound
      end
  | AttributeAccess tgt a =>
      do '(v, t1) <- eval st tgt;
      do r <- attribute_value st v a;
      Ok (r, t1)
  | ArrayIndex tgt idx =>
      do '(v, t1) <- eval st tgt;
      do '(i, t2) <- eval st idx;
      do '(r, t3) <- index_value st v i;
      Ok (r, t1 ++ t2 ++ t3)
  | IntegerLiteral z => do z' <- chk32 z; Ok (VInt z', [])
  | FloatLiteral f => do f' <- chkfin f; Ok (VFloat f', [])
  | BooleanLiteral b => Ok (VBool b, [])
  | Add l r => bin2 (arith Z.add fadd true) (eval st l) (eval st r)
  | Subtract l r => bin2 (arith Z.sub fsub false) (eval st l) (eval st r)
  | Multiply l r => bin2 (arith Z.mul fmul false) (eval st l) (eval st r)
  | Equal l r => bin2 (cmp Z.eqb) (eval st l) (eval st r)
  | NotEqual l r => bin2 (cmp (fun x y => negb (Z.eqb x y))) (eval st l) (eval st r)
  | GreaterThan l r => bin2 (cmp Z.gtb) (eval st l) (eval st r)
  | LessThan l r => bin2 (cmp Z.ltb) (eval st l) (eval st r)
  | GreaterThanOrEqual l r => bin2 (cmp Z.geb) (eval st l) (eval st r)
  | LessThanOrEqual l r => bin2 (cmp Z.leb) (eval st l) (eval st r)
  | And l r =>
      do '(a, t1) <- eval st l;
      do x <- as_bool a;
      if x then
        do '(b, t2) <- eval st r;
        do y <- as_bool b;
        Ok (VBool y, t1 ++ t2)
      else Ok (VBool false, t1)
  | Or l r =>
      do '(a, t1) <- eval st l;
      do x <- as_bool a;
      if x then Ok (VBool true, t1)
      else
        do '(b, t2) <- eval st r;
        do y <- as_bool b;
        Ok (VBool y, t1 ++ t2)
  | Max l r => bin2 (sel Z.gtb) (eval st l) (eval st r)
  | Min l r => bin2 (sel Z.ltb) (eval st l) (eval st r)
  | BooleanToInteger x =>
      do '(a, t1) <- eval st x;
      do b <- as_bool a;
      Ok (VInt (if b then 1 else 0), t1)
  | ArrayAllocate _ _ => Err EIllFormed
  | ArrayReallocate _ _ _ => Err EIllFormed
  end.

(** * Locations and stores *)

Inductive loc : Type :=
  | LVar (x : string)
  | LCell (blk : positive) (off : Z)
  | LTVals (t : positive)
  | LTIdx (t : positive) (l : Z) (j : Z).

Definition eval_loc (st : state) (e : expr) : res (loc * list event) :=
  match e with
  | Var x => Ok (LVar x, [])
  | AttributeAccess tgt a =>
      do '(v, t1) <- eval st tgt;
      match v with
      | VTensor t => if String.eqb a "vals" then Ok (LTVals t, t1) else Err EIllFormed
      | _ => Err EIllTyped
      end
  | ArrayIndex tgt idx =>
      do '(v, t1) <- eval st tgt;
      do '(i, t2) <- eval st idx;
      match v, i with
      | VPtr blk o, VInt n => Ok (LCell blk (o + n), t1 ++ t2)
      | VLevel t l, VInt j => Ok (LTIdx t l j, t1 ++ t2)
      | _, _ => Err EIllTyped
      end
  | _ => Err EIllFormed
  end.

Fixpoint set_nth {A} (l : list A) (n : nat) (x : A) : option (list A) :=
  match l, n with
  | [], _ => None
  | _ :: r, O => Some (x :: r)
  | a :: r, S k => match set_nth r k x with Some r' => Some (a :: r') | None => None end
  end.

Definition assign (st : state) (l : loc) (v : value) : res (state * list event) :=
  match l with
  | LVar x =>
      match lookup x (env st) with
      | Some (t, _) => do v' <- coerce t v; Ok (with_env st (set_var x (t, Some v') (env st)), [])
      | None => Err EUnbound
      end
  | LCell blk off => do st' <- store st blk off v; Ok (st', [EStore blk off])
  | LTVals t =>
      do ts <- tensor_of st t;
      if negb (t_output ts) then Err EWriteInput
      else if negb (is_ptr v) then Err EIllTyped
      else Ok (with_tensors st (PM.add t (mkTensorS (t_dims ts) (t_idx ts) v true) (tensors st)),
               [EField t])
  | LTIdx t l j =>
      do ts <- tensor_of st t;
      if negb (t_output ts) then Err EWriteInput
      else if negb (is_ptr v) then Err EIllTyped
      else if l <? 0 then Err EOutOfBounds
      else match nth_error (t_idx ts) (Z.to_nat l) with
           | None => Err EOutOfBounds
           | Some (p, c) =>
               let pc := if j =? 0 then Some (v, c) else if j =? 1 then Some (p, v) else None in
               match pc with
               | None => Err EOutOfBounds
               | Some pc' =>
                   match set_nth (t_idx ts) (Z.to_nat l) pc' with
                   | None => Err EOutOfBounds
                   | Some idx' =>
                       Ok (with_tensors st
                             (PM.add t (mkTensorS (t_dims ts) idx' (t_vals ts) true) (tensors st)),
                           [EField t])
                   end
               end
           end
  end.

(** Right-hand sides: the two allocating forms change the heap. *)
Definition eval_rhs (st : state) (e : expr) : res (state * value * list event) :=
  match e with
  | ArrayAllocate t n =>
      do '(v, t1) <- eval st n;
      match v with
      | VInt z => do '(st', p, t2) <- alloc st t z; Ok (st', p, t1 ++ t2)
      | _ => Err EIllTyped
      end
  | ArrayReallocate old t n =>
      if negb (is_Assignable old) then Err EIllFormed else
      do '(o, t1) <- eval st old;
      do '(v, t2) <- eval st n;
      match v with
      | VInt z => do '(st', p, t3) <- realloc st o t z; Ok (st', p, t1 ++ t2 ++ t3)
      | _ => Err EIllTyped
      end
  | _ => do '(v, t1) <- eval st e; Ok (st, v, t1)
  end.

(** * Statements *)

Inductive outcome : Type :=
  | Normal (st : state) (tr : list event)
  | Returned (st : state) (v : value) (tr : list event)
  | Fail (e : err)
  | OutOfFuel.

Definition declare (st : state) (name : expr) (t : ty) (v : option value) : res state :=
  match name with
  | Var x => Ok (with_env st (set_var x (t, v) (env st)))
  | _ => Err EIllFormed
  end.

Fixpoint exec (fuel : nat) (s : stmt) (st : state) {struct fuel} : outcome :=
  match fuel with
  | O => OutOfFuel
  | S n =>
    match s with
    | SExpr e =>
        match eval st e with Ok (_, t) => Normal st t | Err x => Fail x end
    | Declaration name t =>
        match declare st name t None with Ok st' => Normal st' [] | Err x => Fail x end
    | Assignment tgt val =>
        match eval_rhs st val with
        | Err x => Fail x
        | Ok (st1, v, t1) =>
            match eval_loc st1 tgt with
            | Err x => Fail x
            | Ok (l, t2) =>
                match assign st1 l v with
                | Err x => Fail x
                | Ok (st2, t3) => Normal st2 (t1 ++ t2 ++ t3)
                end
            end
        end
    | DeclarationAssignment (Declaration name t) val =>
        match eval_rhs st val with
        | Err x => Fail x
        | Ok (st1, v, t1) =>
            match coerce t v with
            | Err x => Fail x
            | Ok v' =>
                match declare st1 name t (Some v') with
                | Ok st2 => Normal st2 t1
                | Err x => Fail x
                end
            end
        end
    | DeclarationAssignment _ _ => Fail EIllFormed
    | Block ss _ =>
        (fix go (l : list stmt) (st : state) (tr : list event) : outcome :=
           match l with
           | [] => Normal st tr
           | s1 :: r =>
               match exec n s1 st with
               | Normal st' t1 => go r st' (tr ++ t1)
               | Returned st' v t1 => Returned st' v (tr ++ t1)
               | Fail x => Fail x
               | OutOfFuel => OutOfFuel
               end
           end) ss st []
    | Branch c a b =>
        match eval st c with
        | Err x => Fail x
        | Ok (v, t1) =>
            match as_bool v with
            | Err x => Fail x
            | Ok true => match exec n a st with
                         | Normal st' t2 => Normal st' (t1 ++ t2)
                         | Returned st' r t2 => Returned st' r (t1 ++ t2)
                         | o => o end
            | Ok false => match exec n b st with
                          | Normal st' t2 => Normal st' (t1 ++ t2)
                          | Returned st' r t2 => Returned st' r (t1 ++ t2)
                          | o => o end
            end
        end
    | Loop c body =>
        match eval st c with
        | Err x => Fail x
        | Ok (v, t1) =>
            match as_bool v with
            | Err x => Fail x
            | Ok false => Normal st t1
            | Ok true =>
                match exec n body st with
                | Normal st' t2 =>
                    match exec n (Loop c body) (tick st') with
                    | Normal st'' t3 => Normal st'' (t1 ++ t2 ++ t3)
                    | Returned st'' r t3 => Returned st'' r (t1 ++ t2 ++ t3)
                    | o => o
                    end
                | Returned st' r t2 => Returned st' r (t1 ++ t2)
                | o => o
                end
            end
        end
    | Return e =>
        match eval st e with
        | Ok (v, t) => Returned st v t
        | Err x => Fail x
        end
    end
  end.

(** * Calling a kernel *)

Fixpoint bind_params (ps : list stmt) (args : list value) (e : list (string * (ty * option value)))
  : res (list (string * (ty * option value))) :=
  match ps, args with
  | [], [] => Ok e
  | Declaration (Var x) t :: ps', a :: args' =>
      do v <- coerce t a; bind_params ps' args' (set_var x (t, Some v) e)
  | _, _ => Err EIllFormed
  end.

Definition call (fuel : nat) (f : function_definition) (args : list value) (st : state) : outcome :=
  match f with
  | FunctionDefinition _ ps rt body =>
      match bind_params ps args [] with
      | Err x => Fail x
      | Ok e =>
          match exec fuel body (with_env st e) with
          | Returned st' v tr =>
              match coerce rt v with Ok v' => Returned st' v' tr | Err x => Fail x end
          | Normal _ _ => Fail EIllFormed   (* fell off the end of a non-void function *)
          | o => o
          end
      end
  end.
