(** Executable comparison of machine outcomes, for the correspondence / searcher side of C07
    (the Prop-level relation is [orel] in proofs/PeepholeStmt.v). *)

From Coq Require Import ZArith Bool List String FMapPositive SpecFloat.
From Flocq Require Import Core BinarySingleNaN.
From TV Require Import spec.Num spec.PyBase gen.IRAst spec.IRSem.
Import ListNotations.
Open Scope Z_scope.

Definition F_eqb (x y : F) : bool :=
  match B2SF x, B2SF y with
  | S754_zero a, S754_zero b => Bool.eqb a b
  | S754_infinity a, S754_infinity b => Bool.eqb a b
  | S754_nan, S754_nan => true
  | S754_finite s m e, S754_finite s' m' e' => Bool.eqb s s' && Pos.eqb m m' && Z.eqb e e'
  | _, _ => false
  end.

Definition val_eqb (a b : value) : bool :=
  match a, b with
  | VInt x, VInt y => x =? y
  | VFloat x, VFloat y => F_eqb x y
  | VBool x, VBool y => Bool.eqb x y
  | VPtr b1 o1, VPtr b2 o2 => Pos.eqb b1 b2 && (o1 =? o2)
  | VNull, VNull => true
  | VTensor x, VTensor y => Pos.eqb x y
  | VDims x, VDims y => Pos.eqb x y
  | VIndices x, VIndices y => Pos.eqb x y
  | VLevel x l, VLevel y m => Pos.eqb x y && (l =? m)
  | _, _ => false
  end.

Definition pair_eqb {A B} (f : A -> A -> bool) (g : B -> B -> bool) (x y : A * B) : bool :=
  f (fst x) (fst y) && g (snd x) (snd y).

Definition pm_eqb {A} (f : A -> A -> bool) (m1 m2 : PM.t A) : bool :=
  list_eqb (pair_eqb Pos.eqb f) (PM.elements m1) (PM.elements m2).

Definition block_eqb (a b : block) : bool :=
  Bool.eqb (b_float a) (b_float b) && (b_len a =? b_len b) && pm_eqb val_eqb (b_cells a) (b_cells b)
  && Bool.eqb (b_live a) (b_live b) && Bool.eqb (b_input a) (b_input b).

Definition tensor_eqb (a b : tensor_s) : bool :=
  list_eqb Z.eqb (t_dims a) (t_dims b) && list_eqb (pair_eqb val_eqb val_eqb) (t_idx a) (t_idx b)
  && val_eqb (t_vals a) (t_vals b) && Bool.eqb (t_output a) (t_output b).

Definition state_eqb (a b : state) : bool :=
  list_eqb (pair_eqb String.eqb (pair_eqb ty_eqb (option_eqb val_eqb))) (env a) (env b)
  && pm_eqb block_eqb (heap a) (heap b) && Pos.eqb (next_blk a) (next_blk b)
  && pm_eqb tensor_eqb (tensors a) (tensors b) && (iters a =? iters b).

Definition event_eqb (a b : event) : bool :=
  match a, b with
  | ELoad b1 o1, ELoad b2 o2 => Pos.eqb b1 b2 && (o1 =? o2)
  | EStore b1 o1, EStore b2 o2 => Pos.eqb b1 b2 && (o1 =? o2)
  | EAlloc b1 n1, EAlloc b2 n2 => Pos.eqb b1 b2 && (n1 =? n2)
  | ERealloc a1 b1 n1, ERealloc a2 b2 n2 => Pos.eqb a1 a2 && Pos.eqb b1 b2 && (n1 =? n2)
  | EField x, EField y => Pos.eqb x y
  | _, _ => false
  end.

Fixpoint subseqb (a b : list event) : bool :=
  match a, b with
  | [], _ => true
  | _ :: _, [] => false
  | x :: a', y :: b' => if event_eqb x y then subseqb a' b' else subseqb a b'
  end.

(** optimised value vs original value: equal, or the int32 whose conversion the original is *)
Definition vle_b (v' v : value) : bool :=
  val_eqb v' v ||
  match v', v with
  | VInt z, VFloat f => F_eqb f (fcanon (Z2F z)) && in_int32 z
  | _, _ => false
  end.

Inductive cmp_result : Type :=
  | CSame              (* same state / return value, trace a sub-sequence *)
  | COverflowEscape    (* optimised fails with int32 overflow where the original completes *)
  | CDiffer (why : string)
  | COrigNotDone.      (* the original did not run safely to completion: nothing to compare *)

Definition compare_outcomes (o' o : outcome) : cmp_result :=
  match o with
  | Normal st t =>
      match o' with
      | Normal st' t' =>
          if negb (state_eqb st' st) then CDiffer "state"
          else if negb (subseqb t' t) then CDiffer "extra memory access" else CSame
      | Fail EOverflow => COverflowEscape
      | Returned _ _ _ => CDiffer "returned instead of falling through"
      | Fail _ => CDiffer "optimised program fails"
      | OutOfFuel => CDiffer "optimised program does not terminate"
      end
  | Returned st v t =>
      match o' with
      | Returned st' v' t' =>
          if negb (state_eqb st' st) then CDiffer "state"
          else if negb (vle_b v' v) then CDiffer "return value"
          else if negb (subseqb t' t) then CDiffer "extra memory access" else CSame
      | Fail EOverflow => COverflowEscape
      | Normal _ _ => CDiffer "fell through instead of returning"
      | Fail _ => CDiffer "optimised program fails"
      | OutOfFuel => CDiffer "optimised program does not terminate"
      end
  | _ => COrigNotDone
  end.

Fixpoint stmt_eqb (a b : stmt) {struct a} : bool :=
  match a, b with
  | Declaration n1 t1, Declaration n2 t2 => expr_eqb n1 n2 && ty_eqb t1 t2
  | Assignment x1 v1, Assignment x2 v2 => expr_eqb x1 x2 && expr_eqb v1 v2
  | DeclarationAssignment d1 v1, DeclarationAssignment d2 v2 => stmt_eqb d1 d2 && expr_eqb v1 v2
  | Block s1 c1, Block s2 c2 =>
      (fix go (l1 l2 : list stmt) : bool :=
         match l1, l2 with
         | [], [] => true
         | x :: r1, y :: r2 => stmt_eqb x y && go r1 r2
         | _, _ => false
         end) s1 s2 && option_eqb String.eqb c1 c2
  | Branch c1 a1 b1, Branch c2 a2 b2 => expr_eqb c1 c2 && stmt_eqb a1 a2 && stmt_eqb b1 b2
  | Loop c1 b1, Loop c2 b2 => expr_eqb c1 c2 && stmt_eqb b1 b2
  | Return e1, Return e2 => expr_eqb e1 e2
  | SExpr e1, SExpr e2 => expr_eqb e1 e2
  | _, _ => false
  end.
