(** C01 -- the specification: what an assignment MEANS as ordinary tensor algebra.

    The right-hand side is read as a sum of products (distributing [*] over [+]/[-]); each additive
    term ("monomial") is summed over those of its own indexes that are absent from the target; a
    term that lacks a target index does not depend on it (broadcast).  Nothing here mentions
    formats, mode orderings, iteration graphs or loops.

    Values live in an arbitrary commutative ring given as a [ringops] record ([ZOps] is the
    instance the checks execute).  The syntax is parametrised by the type [R] of the payload of a
    float literal only; every syntactic function below is independent of any ring structure.

    Definitions only; the lemmas are in proofs/Spec*.v, the theorems in props/C01.v. *)

From Coq Require Import ZArith List Bool String Ring_theory.
From TV Require Import spec.Storage.
Import ListNotations.
Open Scope Z_scope.

(** * Carrier: a ring given by its operations *)

Record ringops : Type := mkRingOps {
  car :> Type;
  r0 : car;
  r1 : car;
  radd : car -> car -> car;
  rmul : car -> car -> car;
  rsub : car -> car -> car;
  ropp : car -> car
}.
Arguments r0 {r}.
Arguments r1 {r}.
Arguments radd {r}.
Arguments rmul {r}.
Arguments rsub {r}.
Arguments ropp {r}.

Definition ZOps : ringops := mkRingOps Z 0 1 Z.add Z.mul Z.sub Z.opp.

(** The operations form a commutative ring (for Leibniz equality). *)
Definition ring_ok (O : ringops) : Prop :=
  ring_theory (@r0 O) (@r1 O) (@radd O) (@rmul O) (@rsub O) (@ropp O) (@eq O).

(** * Syntax (the sugar-level AST of tensora/expression/ast.py) *)

Section Syntax.
Variable R : Type.

Inductive expr : Type :=
  | EInt (z : Z)
  | EFloat (r : R)
  | ETensor (name : string) (idx : list string)
  | EAdd (a b : expr)
  | ESub (a b : expr)
  | EMul (a b : expr).

Record assignment : Type := mkAssign {
  tgt_name : string;
  tgt_idx : list string;
  rhs : expr
}.

(** A factor of a monomial is a leaf of the expression. *)
Inductive factor : Type :=
  | FInt (z : Z)
  | FFloat (r : R)
  | FTensor (name : string) (idx : list string).

(** (negative?, factors) *)
Definition monomial : Type := (bool * list factor)%type.

Definition mneg (m : monomial) : monomial := (negb (fst m), snd m).
Definition mmul (ma mb : monomial) : monomial := (xorb (fst ma) (fst mb), snd ma ++ snd mb).
Definition mprod (la lb : list monomial) : list monomial :=
  flat_map (fun ma => map (mmul ma) lb) la.

(** Sum-of-products reading: distribute [*] over [+] and [-]. *)
Fixpoint monomials (e : expr) : list monomial :=
  match e with
  | EInt z => [(false, [FInt z])]
  | EFloat r => [(false, [FFloat r])]
  | ETensor n idx => [(false, [FTensor n idx])]
  | EAdd a b => monomials a ++ monomials b
  | ESub a b => monomials a ++ map mneg (monomials b)
  | EMul a b => mprod (monomials a) (monomials b)
  end.

Definition factor_idx (f : factor) : list string :=
  match f with
  | FTensor _ idx => idx
  | _ => []
  end.

(** All index occurrences of a monomial (with repetitions). *)
Definition midx (m : monomial) : list string := flat_map factor_idx (snd m).

Definition smem (k : string) (l : list string) : bool := existsb (String.eqb k) l.

(** The indexes a monomial is summed over: its own indexes that are absent from the target. *)
Definition contracted (tgt : list string) (m : monomial) : list string :=
  filter (fun k => negb (smem k tgt)) (nodup string_dec (midx m)).

(** All index occurrences of an expression. *)
Fixpoint expr_idx (e : expr) : list string :=
  match e with
  | EInt _ | EFloat _ => []
  | ETensor _ idx => idx
  | EAdd a b | ESub a b | EMul a b => expr_idx a ++ expr_idx b
  end.

(** ** Re-arrangements that ordinary arithmetic allows (statement of C01_spec_assoc_comm) *)

Inductive rearr : expr -> expr -> Prop :=
  | ra_refl : forall e, rearr e e
  | ra_sym : forall e e', rearr e e' -> rearr e' e
  | ra_trans : forall e e' e'', rearr e e' -> rearr e' e'' -> rearr e e''
  | ra_add : forall a a' b b', rearr a a' -> rearr b b' -> rearr (EAdd a b) (EAdd a' b')
  | ra_sub : forall a a' b b', rearr a a' -> rearr b b' -> rearr (ESub a b) (ESub a' b')
  | ra_mul : forall a a' b b', rearr a a' -> rearr b b' -> rearr (EMul a b) (EMul a' b')
  | ra_add_comm : forall a b, rearr (EAdd a b) (EAdd b a)
  | ra_add_assoc : forall a b c, rearr (EAdd (EAdd a b) c) (EAdd a (EAdd b c))
  | ra_mul_comm : forall a b, rearr (EMul a b) (EMul b a)
  | ra_mul_assoc : forall a b c, rearr (EMul (EMul a b) c) (EMul a (EMul b c))
  (* a - (b - c) = (a - b) + c *)
  | ra_sub_sub : forall a b c, rearr (ESub a (ESub b c)) (EAdd (ESub a b) c)
  (* a - (b + c) = (a - b) - c *)
  | ra_sub_add : forall a b c, rearr (ESub a (EAdd b c)) (ESub (ESub a b) c)
  (* a + (b - c) = (a + b) - c *)
  | ra_add_sub : forall a b c, rearr (EAdd a (ESub b c)) (ESub (EAdd a b) c)
  (* a - b = a + (-1) * b   (the rewriting desugar performs) *)
  | ra_sub_neg : forall a b, rearr (ESub a b) (EAdd a (EMul (EInt (-1)) b))
  (* the sum-of-products reading makes distribution an invariance too *)
  | ra_distr_l : forall a b c, rearr (EMul a (EAdd b c)) (EAdd (EMul a b) (EMul a c))
  | ra_distr_r : forall a b c, rearr (EMul (EAdd a b) c) (EAdd (EMul a c) (EMul b c)).

(** ** Renaming of tensors and indexes (statement of C01_spec_rename) *)

Fixpoint rename_expr (tn ti : string -> string) (e : expr) : expr :=
  match e with
  | EInt z => EInt z
  | EFloat r => EFloat r
  | ETensor n idx => ETensor (tn n) (map ti idx)
  | EAdd a b => EAdd (rename_expr tn ti a) (rename_expr tn ti b)
  | ESub a b => ESub (rename_expr tn ti a) (rename_expr tn ti b)
  | EMul a b => EMul (rename_expr tn ti a) (rename_expr tn ti b)
  end.

Definition rename_assignment (tn ti : string -> string) (a : assignment) : assignment :=
  mkAssign (tn (tgt_name a)) (map ti (tgt_idx a)) (rename_expr tn ti (rhs a)).

Definition rename_factor (tn ti : string -> string) (f : factor) : factor :=
  match f with
  | FTensor n idx => FTensor (tn n) (map ti idx)
  | _ => f
  end.

Definition rename_mono (tn ti : string -> string) (m : monomial) : monomial :=
  (fst m, map (rename_factor tn ti) (snd m)).

End Syntax.

Arguments EInt {R}.
Arguments EFloat {R}.
Arguments ETensor {R}.
Arguments EAdd {R}.
Arguments ESub {R}.
Arguments EMul {R}.
Arguments mkAssign {R}.
Arguments tgt_name {R}.
Arguments tgt_idx {R}.
Arguments rhs {R}.
Arguments FInt {R}.
Arguments FFloat {R}.
Arguments FTensor {R}.
Arguments mneg {R}.
Arguments mmul {R}.
Arguments mprod {R}.
Arguments monomials {R}.
Arguments factor_idx {R}.
Arguments midx {R}.
Arguments contracted {R}.
Arguments expr_idx {R}.
Arguments rearr {R}.
Arguments rename_expr {R}.
Arguments rename_assignment {R}.
Arguments rename_factor {R}.
Arguments rename_mono {R}.

(** * Valuations of index variables *)

Definition val : Type := string -> Z.

Definition upd (rho : val) (k : string) (v : Z) : val :=
  fun x => if String.eqb x k then v else rho x.

(** Target indexes bound to an output coordinate (first occurrence wins; 0 elsewhere). *)
Fixpoint bind (tgt : list string) (c : list Z) : val :=
  match tgt, c with
  | k :: t, v :: c' => upd (bind t c') k v
  | _, _ => fun _ => 0
  end.

(** Replace component [p] of a coordinate (no effect when out of range). *)
Fixpoint set_nth (p : nat) (v : Z) (c : list Z) : list Z :=
  match p, c with
  | O, _ :: r => v :: r
  | S p', x :: r => x :: set_nth p' v r
  | _, [] => []
  end.

(** * Meaning *)

Section Meaning.
Variable O : ringops.

(** Integer literal read in the ring. *)
Fixpoint of_pos (p : positive) : O :=
  match p with
  | xH => r1
  | xO q => let x := of_pos q in radd x x
  | xI q => let x := of_pos q in radd r1 (radd x x)
  end.

Definition of_Z (z : Z) : O :=
  match z with
  | Z0 => r0
  | Zpos p => of_pos p
  | Zneg p => ropp (of_pos p)
  end.

Definition rsum (l : list O) : O := fold_right radd r0 l.
Definition rprod (l : list O) : O := fold_right rmul r1 l.
Definition sgn (neg : bool) (x : O) : O := if neg then ropp x else x.

(** An environment gives every tensor name its value at every coordinate. *)
Definition env : Type := string -> list Z -> O.

Definition eval_factor (E : env) (rho : val) (f : factor O) : O :=
  match f with
  | FInt z => of_Z z
  | FFloat r => r
  | FTensor n idx => E n (map rho idx)
  end.

Definition mono_prod (E : env) (m : monomial O) (rho : val) : O :=
  rprod (map (eval_factor E rho) (snd m)).

(** [sum_over sizes ks f rho] = Sigma over all assignments of the indexes [ks] (index [k] ranging
    over [0 .. sizes k - 1]) of [f] at [rho] updated with that assignment. *)
Fixpoint sum_over (sizes : string -> Z) (ks : list string) (f : val -> O) (rho : val) : O :=
  match ks with
  | [] => f rho
  | k :: r => rsum (map (fun v => sum_over sizes r f (upd rho k v)) (zrange (sizes k)))
  end.

(** The value one additive term contributes at output coordinate [c]. *)
Definition term_value (tgt : list string) (E : env) (sizes : string -> Z) (m : monomial O)
    (c : list Z) : O :=
  sgn (fst m) (sum_over sizes (contracted tgt m) (mono_prod E m) (bind tgt c)).

(** THE SPECIFICATION of C01. *)
Definition spec (a : assignment O) (E : env) (sizes : string -> Z) (c : list Z) : O :=
  rsum (map (fun m => term_value (tgt_idx a) E sizes m c) (monomials (rhs a))).

(** Dimensions of the result: the sizes of the target indexes. *)
Definition spec_dims (a : assignment O) (sizes : string -> Z) : list Z :=
  map sizes (tgt_idx a).

(** ** Inputs given as stored tensors (read through [Storage.entries]) *)

Fixpoint coord_eqb (a b : list Z) : bool :=
  match a, b with
  | [], [] => true
  | x :: a', y :: b' => (x =? y) && coord_eqb a' b'
  | _, _ => false
  end.

(** Abstraction of a list of stored entries: the sum of the values stored at a coordinate
    (0 when none; duplicates add up, so they are visible). *)
Definition abs_entries (es : list (list Z * O)) (c : list Z) : O :=
  rsum (map snd (filter (fun e => coord_eqb (fst e) c) es)).

Definition abs_tensor (t : tensor O) : list Z -> O := abs_entries (entries r0 t).

Fixpoint lookup {A} (n : string) (l : list (string * A)) : option A :=
  match l with
  | [] => None
  | (m, x) :: r => if String.eqb n m then Some x else lookup n r
  end.

Definition env_of_entries (es : string -> list (list Z * O)) : env :=
  fun n c => abs_entries (es n) c.

Definition env_of_stored (ts : list (string * tensor O)) : env :=
  fun n c => match lookup n ts with
             | Some t => abs_tensor t c
             | None => r0
             end.

Definition sizes_of (l : list (string * Z)) : string -> Z :=
  fun k => match lookup k l with Some n => n | None => 0 end.

End Meaning.

Arguments of_Z {O}.
Arguments rsum {O}.
Arguments rprod {O}.
Arguments sgn {O}.
Arguments eval_factor {O}.
Arguments mono_prod {O}.
Arguments sum_over {O}.
Arguments term_value {O}.
Arguments spec {O}.
Arguments spec_dims {O}.
Arguments abs_entries {O}.
Arguments abs_tensor {O}.
Arguments env_of_entries {O}.
Arguments env_of_stored {O}.

(** * Executable helpers for the checks (ring [Z]) *)

(** All coordinates of a box, lexicographic, first dimension slowest. *)
Fixpoint all_coords (dims : list Z) : list (list Z) :=
  match dims with
  | [] => [[]]
  | d :: r => flat_map (fun i => map (cons i) (all_coords r)) (zrange d)
  end.

(** The table of spec values over the whole output box. *)
Definition spec_table (a : assignment ZOps) (ins : list (string * tensor Z))
    (sizes : list (string * Z)) : list Z :=
  map (spec (O := ZOps) a (env_of_stored (O := ZOps) ins) (sizes_of sizes))
      (all_coords (spec_dims (O := ZOps) a (sizes_of sizes))).

(** C01 on one concrete case: the output has the target dimensions and its abstraction equals the
    specification at every coordinate of the box (and stores nothing outside the box). *)
Definition c01_case_ok (a : assignment ZOps) (ins : list (string * tensor Z))
    (sizes : list (string * Z)) (out : tensor Z) : bool :=
  let dims := spec_dims (O := ZOps) a (sizes_of sizes) in
  coord_eqb (Storage.dims out) dims
  && forallb (fun c => abs_tensor (O := ZOps) out c =? spec (O := ZOps) a (env_of_stored (O := ZOps) ins) (sizes_of sizes) c)
             (all_coords dims)
  && forallb (fun e => existsb (coord_eqb (fst e)) (all_coords dims)) (entries 0 out).
