(** Numeric model of the IR: int32 with an explicit range check, IEEE binary64 through Flocq.

    Floats of the abstract machine live in the quotient of binary64 by the sign of zero
    ([fcanon]): the IR has no division, no float comparison and no float->int conversion, so the
    sign of a zero is unobservable and "numerical equality (the sign of zero may differ)" of the
    property statements is plain equality of canonical values.  [fcanon_congr_*] in
    proofs/NumLemmas.v show that +, -, * commute with the quotient. *)

From Coq Require Import ZArith Bool List String.
From Flocq Require Import Core BinarySingleNaN.

Global Instance Hprec53 : FLX.Prec_gt_0 53 := eq_refl.
Global Instance Hmax1024 : Prec_lt_emax 53 1024 := eq_refl.

Definition F : Type := binary_float 53 1024.

Definition F0 : F := B754_zero false.

(** [Fmake neg m e] = (-1)^neg * m * 2^e, rounded to nearest even (exact for every literal the
    dumper produces from [float.hex]). *)
Definition Fmake (neg : bool) (m : Z) (e : Z) : F :=
  binary_normalize 53 1024 Hprec53 Hmax1024 mode_NE (if neg then (- m)%Z else m) e false.

Definition F1 : F := Fmake false 1 0.

Definition Z2F (z : Z) : F := binary_normalize 53 1024 Hprec53 Hmax1024 mode_NE z 0 false.

(** Python's [==] on floats: numerical equality ([0.0 == -0.0], NaN unequal to everything). *)
Definition Feqb (x y : F) : bool := Beqb x y.

Definition fcanon (x : F) : F :=
  match x with
  | B754_zero _ => B754_zero false
  | _ => x
  end.

(** Canonical finite floats: the values of the machine. *)
Definition is_canon (f : F) : bool :=
  match f with
  | B754_zero s => negb s
  | B754_finite _ _ _ _ => true
  | _ => false
  end.

(** Errors of the abstract machine. *)
Inductive err : Type :=
  | EOverflow      (* signed 32-bit overflow, or an integer literal outside int32 *)
  | ENonFinite     (* a floating-point result is infinite or NaN *)
  | EIllTyped
  | EUnbound       (* read of an undeclared / unassigned variable *)
  | EOutOfBounds
  | EUninitialised
  | EFreed         (* use of a block released by realloc *)
  | EWriteInput    (* store into an input tensor or one of its arrays *)
  | EBadAlloc
  | EIllFormed.

Inductive res (A : Type) : Type :=
  | Ok (a : A)
  | Err (e : err).
Arguments Ok {A} a.
Arguments Err {A} e.

Definition bind {A B} (r : res A) (f : A -> res B) : res B :=
  match r with Ok a => f a | Err e => Err e end.

Notation "'do' x <- a ; b" := (bind a (fun x => b))
  (at level 200, x name, a at level 100, b at level 200, right associativity).
Notation "'do' ' p <- a ; b" := (bind a (fun x => let 'p := x in b))
  (at level 200, p pattern, a at level 100, b at level 200, right associativity).

Definition int32_min : Z := (-2147483648)%Z.
Definition int32_max : Z := 2147483647%Z.

Definition in_int32 (z : Z) : bool := (int32_min <=? z)%Z && (z <=? int32_max)%Z.

Definition chk32 (z : Z) : res Z := if in_int32 z then Ok z else Err EOverflow.

Definition chkfin (x : F) : res F :=
  if is_finite x then Ok (fcanon x) else Err ENonFinite.

Definition fadd (x y : F) : res F := chkfin (Bplus mode_NE x y).
Definition fsub (x y : F) : res F := chkfin (Bminus mode_NE x y).
Definition fmul (x y : F) : res F := chkfin (Bmult mode_NE x y).
