(** Property C16 -- work follows sparsity, not dimension size.

    PROVED (about the hand model model/Context.v of _extract_context.py and of the sparse/dense
    decision of _generate_ir.py, tied to the code by correspondence): under the property's
    condition -- every operand that has index k stores it in a compressed level, every additive
    term mentions k, the output layer of k is compressed or absent -- the iteration node of k is a
    SPARSE node, i.e. it is driven by stored coordinates (min over the sparse leaves' crd entries)
    and never counts to the dimension.  That the emitted loops of a sparse node execute a number of
    iterations independent of the dimension is observed on the IR abstract machine by scaling the
    dimension x10 .. x10^4 with the same stored entries (tools/props/C16.py; exploration). *)

From Coq Require Import Bool List String.
From TV Require Import model.Context proofs.ContextLemmas.
Import ListNotations.
Open Scope string_scope.

Theorem C16_condition_implies_sparse_node :
  forall e k out, c16_condition e k out = true -> node_is_sparse e k out = true.
Proof. exact c16_condition_sparse_node. Qed.
Print Assumptions C16_condition_implies_sparse_node.

Theorem C16_condition_implies_sparse_context :
  forall e k, only_compressed e k = true -> every_term_mentions e k = true -> is_sparse e k = true.
Proof. exact cond_implies_sparse. Qed.
Print Assumptions C16_condition_implies_sparse_context.

(** converse for the "every additive term" clause: a term lacking k forces a dense loop *)
Theorem C16_term_without_index_is_dense :
  forall e k, only_compressed e k = true -> every_term_mentions e k = false -> is_sparse e k = false.
Proof. exact term_without_k_dense. Qed.
Print Assumptions C16_term_without_index_is_dense.

Example C16_condition_satisfiable :
  c16_condition (IAdd (IMul (ITensor [("i", Dense); ("k", Compressed)]) (ITensor [("k", Compressed)]))
                      (ITensor [("k", Compressed)])) "k" None = true.
Proof. reflexivity. Qed.
