(** C10 -- inconsistent arguments are refused before any kernel runs.

    Model: model/ExprAst.v, model/Problem.v, model/Validate.v (hand models of
    compile/_tensor_method.py, compile/_porcelain.py, problem.py, expression/ast.py).
    [ord] / [ordp] are the iteration orders of Python's sets (any permutation, possibly a
    different one at every place).  Statements only; proofs are in proofs/Validate*.v and
    proofs/ProblemSpec.v. *)

From Coq Require Import String List ZArith Bool Permutation.
From TV Require Import model.ExprAst model.Problem model.Validate.
From TV Require Import proofs.ValidateCall proofs.ValidateMain proofs.ValidateWf proofs.ProblemSpec
  proofs.ValidateTheorems.
Import ListNotations.

(** An accepted call is consistent: the argument names are exactly the kernel's inputs, every
    argument has the format the kernel was generated for, there is one size per index variable
    that every occurrence T(i_1..i_n) of the right-hand side agrees with in every position, and
    the output is allocated with those sizes. *)
Theorem C10_validate_ok_implies_consistent :
  forall ord ordp,
    (forall pth l, Permutation (ord pth l) l) -> (forall k l, Permutation (ordp k l) l) ->
  forall p c dims,
    validate ord ordp p c = Ok dims ->
    (positional c = [] /\ NoDup (akeys (keywords c)) /\
     (forall n, In n (akeys (keywords c)) <-> In n (input_names p))) /\
    (forall n f, In (n, f) (input_formats p) ->
       exists a, aget n (keywords c) = Some a /\
         exists o m r d, a = ATensor o m r d /\ o = f_order f /\ m = f_modes f /\ r = f_ordering f) /\
    exists sz : string -> Z,
      (forall T idx, In (TRef T idx) (occurrences (a_expr (p_assignment p))) ->
         forall j i, nth_error idx j = Some i ->
         exists a, aget T (keywords c) = Some a /\ nth_error (arg_dims a) j = Some (sz i)) /\
      dims = map sz (t_indexes (a_target (p_assignment p))).
Proof. exact validate_ok_implies_consistent. Qed.
Print Assumptions C10_validate_ok_implies_consistent.

(** Conversely every consistent call is accepted (the checks refuse nothing else), for every
    problem that passed the broadcast check of TensorMethod.__init__. *)
Theorem C10_validate_complete :
  forall ord ordp,
    (forall pth l, Permutation (ord pth l) l) -> (forall k l, Permutation (ordp k l) l) ->
  forall p c dims,
    tm_init ord p = Ok tt ->
    (positional c = [] /\ NoDup (akeys (keywords c)) /\
     (forall n, In n (akeys (keywords c)) <-> In n (input_names p))) /\
    (forall n f, In (n, f) (input_formats p) ->
       exists a, aget n (keywords c) = Some a /\
         exists o m r d, a = ATensor o m r d /\ o = f_order f /\ m = f_modes f /\ r = f_ordering f) /\
    (exists sz : string -> Z,
      (forall T idx, In (TRef T idx) (occurrences (a_expr (p_assignment p))) ->
         forall j i, nth_error idx j = Some i ->
         exists a, aget T (keywords c) = Some a /\ nth_error (arg_dims a) j = Some (sz i)) /\
      dims = map sz (t_indexes (a_target (p_assignment p)))) ->
    validate ord ordp p c = Ok dims.
Proof. exact validate_complete. Qed.
Print Assumptions C10_validate_complete.

(** The kernel is entered exactly when validation accepted, with the validated dimensions;
    otherwise the call is refused with validation's error. *)
Theorem C10_kernel_entered_iff_ok :
  forall ord ordp p c,
    (forall d, call ord ordp p c = KernelEntered d <-> validate ord ordp p c = Ok d) /\
    (forall e, call ord ordp p c = Refused e <-> validate ord ordp p c = Error e).
Proof. exact kernel_entered_iff_ok. Qed.
Print Assumptions C10_kernel_entered_iff_ok.

(** A refusal of [__call__] is a TypeError or a ValueError (never a KeyError / IndexError from
    the validation code itself), for every problem a TensorMethod can exist for and real tensors. *)
Theorem C10_refusal_is_type_or_value_error :
  forall ord ordp,
    (forall pth l, Permutation (ord pth l) l) -> (forall k l, Permutation (ordp k l) l) ->
  forall p c e,
    assignment_check (p_assignment p) = Ok tt ->
    problem_post_init (p_assignment p) (p_formats p) = Ok tt ->
    tm_init ord p = Ok tt ->
    (forall n a, In (n, a) (keywords c) -> arg_wf a = true) ->
    call ord ordp p c = Refused e ->
    is_type_or_value_error e = true.
Proof. exact refusal_classes. Qed.
Print Assumptions C10_refusal_is_type_or_value_error.

(** Accept / refuse, the output dimensions and the class of the refusal do not depend on the
    order in which Python iterates the index set or the participant sets (hash seed). *)
Theorem C10_decision_independent_of_set_order :
  forall ord ord' ordp ordp',
    (forall pth l, Permutation (ord pth l) l) -> (forall pth l, Permutation (ord' pth l) l) ->
    (forall k l, Permutation (ordp k l) l) -> (forall k l, Permutation (ordp' k l) l) ->
  forall p c,
    assignment_check (p_assignment p) = Ok tt ->
    problem_post_init (p_assignment p) (p_formats p) = Ok tt ->
    (forall n a, In (n, a) (keywords c) -> arg_wf a = true) ->
    tm_init ord p = tm_init ord' p /\
    validate ord ordp p c = validate ord' ordp' p c /\
    call ord ordp p c = call ord' ordp' p c.
Proof. exact decision_independent. Qed.
Print Assumptions C10_decision_independent_of_set_order.

(** Problem(assignment, formats) exists iff every tensor of the assignment has a format of its
    order; otherwise UndefinedReferenceError / IncorrectDimensionsError name such a tensor. *)
Theorem C10_problem_ctor_checks :
  forall a fs,
    (forall p, problem_ctor a fs = Ok p <->
       p = Problem a fs /\
       forall n o, In (n, o) (variable_orders a) -> exists f, aget n fs = Some f /\ f_order f = o) /\
    (forall e, problem_ctor a fs = Error e ->
       (exists n o, e = EUndefinedReference n /\ In (n, o) (variable_orders a) /\ aget n fs = None) \/
       (exists n o f, e = EIncorrectDimensions n /\ In (n, o) (variable_orders a) /\
                      aget n fs = Some f /\ f_order f <> o)).
Proof. exact problem_ctor_spec. Qed.
Print Assumptions C10_problem_ctor_checks.

(** TensorMethod.__init__ refuses (BroadcastTargetIndexError) exactly the problems whose
    target has an index that no tensor of the right-hand side carries. *)
Theorem C10_tensor_method_init_checks :
  forall ord, (forall pth l, Permutation (ord pth l) l) ->
  forall p,
    problem_post_init (p_assignment p) (p_formats p) = Ok tt ->
    (tm_init ord p = Ok tt <->
       forall i, In i (t_indexes (a_target (p_assignment p))) ->
                 In i (flat_map t_indexes (occurrences (a_expr (p_assignment p))))) /\
    (forall e, tm_init ord p = Error e ->
       exists i, e = EBroadcastTargetIndex i /\ In i (t_indexes (a_target (p_assignment p))) /\
                 ~ In i (flat_map t_indexes (occurrences (a_expr (p_assignment p))))).
Proof. exact tm_init_spec. Qed.
Print Assumptions C10_tensor_method_init_checks.

(** The entry points: tensor_method(...)(...) and evaluate(...) enter a kernel only for a
    problem that make_problem accepted, that passed __init__, and on consistent arguments. *)
Theorem C10_tensor_method_entered_implies_consistent :
  forall ord ordp,
    (forall pth l, Permutation (ord pth l) l) -> (forall k l, Permutation (ordp k l) l) ->
  forall a fs c dims,
    tensor_method_call ord ordp a fs c = KernelEntered dims ->
    exists p, make_problem a fs = Ok p /\ tm_init ord p = Ok tt /\ consistent p c dims.
Proof. exact tensor_method_call_entered. Qed.
Print Assumptions C10_tensor_method_entered_implies_consistent.

Theorem C10_evaluate_entered_implies_consistent :
  forall ord ordp,
    (forall pth l, Permutation (ord pth l) l) -> (forall k l, Permutation (ordp k l) l) ->
  forall a outf inputs dims,
    evaluate ord ordp a outf inputs = KernelEntered dims ->
    exists fs p,
      formats_of_inputs inputs = Ok fs /\
      make_problem a (dict_union [(t_name (a_target a), outf)] fs) = Ok p /\
      tm_init ord p = Ok tt /\
      consistent p (CallArgs [] inputs) dims.
Proof. exact evaluate_entered. Qed.
Print Assumptions C10_evaluate_entered_implies_consistent.

(** Whatever tensor_method(...)(...) and evaluate(...) refuse, they refuse with TypeError,
    ValueError or one of the problem errors (Mutating / InconsistentDimensions / NameConflict /
    UndefinedReference / IncorrectDimensions / UnusedFormat / BroadcastTargetIndex) -- for real
    tensors, never with an error of the validation code itself. *)
Theorem C10_entry_points_refuse_with_documented_errors :
  forall ord ordp,
    (forall pth l, Permutation (ord pth l) l) -> (forall k l, Permutation (ordp k l) l) ->
  (forall a fs c e,
     (forall n x, In (n, x) (keywords c) -> arg_wf x = true) ->
     tensor_method_call ord ordp a fs c = Refused e -> is_documented_refusal e = true) /\
  (forall a outf inputs e,
     (forall n x, In (n, x) inputs -> arg_wf x = true) ->
     evaluate ord ordp a outf inputs = Refused e -> is_documented_refusal e = true).
Proof. exact entry_points_refusals. Qed.
Print Assumptions C10_entry_points_refuse_with_documented_errors.
