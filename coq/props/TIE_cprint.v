(** TIE, target "cprint" -- the C back end's printer regenerated from
    /repo/src/tensora/codegen/_ir_to_c.py and _type_to_c.py on every run (gen/IrToC.v: STRINGS) is
    tied to the hand model model/CPrint.v (TOKENS) by the C lexer [clex] of model/CLexer.v:

        clex (text printed by the source for e) = Some (cprint e).

    [fdec] / [str_float]: the decoder of C floating constants and Python's [str(float)] are oracles
    (as in the hand model, whose token [TFlt f] stands for "the spelling of f"); what is assumed of
    them is written out in every statement: a negative finite float is spelled "-" + the spelling of
    its absolute value; the spelling of a non-negative finite float is a pp-number that is not a
    string of digits ([float_shape]) and that [fdec] reads back.  [names_ok e]: the variable and
    attribute names of [e] are C identifiers other than the 10 words the lexer knows, and its float
    literals are finite ([str(inf)] = "inf" is an identifier for C: see design.d/TIE_cprint.md).
    Statements only; proofs in proofs/GenCPrint_equiv.v. *)

From Coq Require Import ZArith Bool List String.
From Flocq Require Import Core BinarySingleNaN.
From TV Require Import spec.Num gen.IRAst spec.CGrammar model.CPrint model.CLexer gen.IrToC
  proofs.GenCPrint_equiv proofs.GenCPrint_oracle.
Import ListNotations.
Local Open Scope nat_scope.

(** the assumptions about the oracles are satisfiable (a toy pair: "0." + the IEEE-754 bit pattern in
    decimal, decoded by Flocq's [Bits]); the theorems below are not vacuous *)
Theorem TIE_cprint_oracle_satisfiable :
  exists fdec str_float, float_oracle_ok fdec str_float.
Proof. exact float_oracle_satisfiable_ex. Qed.
Print Assumptions TIE_cprint_oracle_satisfiable.

(** every IR tree, every continuation: the text of [e] followed by anything that does not continue
    its last token lexes to [cprint e] followed by the tokens of the rest *)
Theorem TIE_cprint_lex :
  forall fdec str_float, float_oracle_ok fdec str_float ->
  forall e, names_ok e = true ->
  forall rest, bnd rest = true ->
    lex fdec None (ir_to_c_expression str_float e ++ rest)%string
    = prep (cprint e) (lex fdec None rest).
Proof. exact tie_cprint_lex. Qed.
Print Assumptions TIE_cprint_lex.

Theorem TIE_cprint_equiv :
  forall fdec str_float, float_oracle_ok fdec str_float ->
  forall e, names_ok e = true ->
    clex fdec (ir_to_c_expression str_float e) = Some (cprint e).
Proof. exact tie_cprint_equiv. Qed.
Print Assumptions TIE_cprint_equiv.

Example TIE_cprint_equiv_instance :
  names_ok (Subtract (Var "x") (Multiply (Add (Var "y_1") (IntegerLiteral (-12)))
              (ArrayIndex (AttributeAccess (Var "p") "vals") (Min (Var "i") (FloatLiteral F1))))) = true
  /\ ident_ok "bool" = false /\ ident_ok "1x" = false /\ ident_ok "a b" = false.
Proof. vm_compute. repeat split. Qed.

(** codegen/_type_to_c.py::type_to_c = spec/CGrammar.v::type_tokens, all eight types, with and
    without the declared variable *)
Theorem TIE_type_to_c_equiv :
  forall fdec t v, var_ok v = true -> clex fdec (type_to_c t v) = Some (type_tokens t v).
Proof. exact gen_type_equiv. Qed.
Print Assumptions TIE_type_to_c_equiv.

(** the one-line statements (Declaration, Assignment with the ++ -- += -= *= sugar,
    DeclarationAssignment, Return, expression statement): one line that lexes to the model's
    tokens; a Python exception exactly where the model answers [None] *)
Theorem TIE_cprint_stmt_equiv :
  forall fdec str_float, float_oracle_ok fdec str_float ->
  forall s, stmt_names_ok s = true -> is_layout s = false ->
    option_map (map (clex fdec)) (ir_to_c_statement str_float s)
    = option_map (fun ts => [Some ts]) (cprint_stmt s).
Proof. exact tie_cprint_stmt_equiv. Qed.
Print Assumptions TIE_cprint_stmt_equiv.

(** C06_cprint_derives_partial on the regenerated printer *)
Theorem TIE_cprint_derives_gen :
  forall fdec str_float, float_oracle_ok fdec str_float ->
  forall e, names_ok e = true -> wt_expr e = true -> alloc_ok e = true ->
  exists ts, clex fdec (ir_to_c_expression str_float e) = Some ts /\
             Derives (level_of e) ts (embed (rotate e)).
Proof. exact tie_cprint_derives. Qed.
Print Assumptions TIE_cprint_derives_gen.

(** C06_cprint_derives_prec_partial on the regenerated printer *)
Theorem TIE_cprint_derives_prec_gen :
  forall fdec str_float, float_oracle_ok fdec str_float ->
  forall e, names_ok e = true -> prec_ok e = true ->
  exists ts, clex fdec (ir_to_c_expression str_float e) = Some ts /\
             Derives (level_of e) ts (embed (rotate e)).
Proof. exact tie_cprint_derives_prec. Qed.
Print Assumptions TIE_cprint_derives_prec_gen.

(** C06_cprint_derives_exact on the regenerated printer *)
Theorem TIE_cprint_derives_exact_gen :
  forall fdec str_float, float_oracle_ok fdec str_float ->
  forall e, names_ok e = true -> wt_expr e = true -> alloc_ok e = true -> no_right_nested e = true ->
  exists ts, clex fdec (ir_to_c_expression str_float e) = Some ts /\
             Derives (level_of e) ts (embed e).
Proof. exact tie_cprint_derives_exact. Qed.
Print Assumptions TIE_cprint_derives_exact_gen.

(** ... and the verified parser, run on the lexed text, returns that tree (C06_cparse_complete) *)
Theorem TIE_cprint_parses_gen :
  forall fdec str_float, float_oracle_ok fdec str_float ->
  forall e, names_ok e = true -> prec_ok e = true ->
  exists ts n, clex fdec (ir_to_c_expression str_float e) = Some ts /\
    forall n', n <= n' -> cparse_m n' (MExpr 0) ts = Some (embed (rotate e), []).
Proof. exact tie_cprint_parses. Qed.
Print Assumptions TIE_cprint_parses_gen.

(** C06_stmt_derives_partial on the regenerated statement printer *)
Theorem TIE_cprint_stmt_derives_gen :
  forall fdec str_float, float_oracle_ok fdec str_float ->
  forall s, stmt_names_ok s = true -> stmt_ok s = true ->
  exists line ts cs,
    ir_to_c_statement str_float s = Some [line] /\ clex fdec line = Some ts /\
    cstmt_of s = Some cs /\ DerivesStmt ts cs.
Proof. exact tie_cprint_stmt_derives. Qed.
Print Assumptions TIE_cprint_stmt_derives_gen.

(* ------------------------------------------------------------------------------------------ *)
(** * Round 2: statement structure (blocks, if / else-if / else, while), function definitions, modules

    [sst] / [flats] / [sparse] / [skel] / [cprint_stmts] / [cprint_function] / [cprint_module]:
    model/CStruct.v; [slex]: the lexer for statement text (// comments, newlines and indentation are
    white space; braces and if / else / while are tokens).  Proofs: proofs/GenCStruct_equiv.v,
    proofs/GenCStruct_fun.v. *)

From TV Require Import spec.PyLib model.CStruct proofs.GenCStruct_equiv proofs.GenCStruct_fun.

(** the structure parser reads back exactly what a well-formed skeleton prints: no dangling else
    (every [if] body is braced), [else if] chains, [else { }], empty blocks, nested loops *)
Theorem TIE_cstruct_roundtrip :
  forall l, wfs l = true -> sparse (flats l) = Some l.
Proof. exact sparse_flats. Qed.
Print Assumptions TIE_cstruct_roundtrip.

(** the dangling-else shape: an [if] without else inside the then-branch of an [if] with else *)
Example TIE_cstruct_dangling_else :
  let x := Var "x" in let y := Var "y" in
  let s := Branch (LessThan x y)
             (Block [Branch (Equal x y) (Block [Assignment x y] None) (Block [] None)] None)
             (Block [Assignment y x] None) in
  match cprint_stmts s with
  | Some ts =>
      match sparse ts, skel s with
      | Some (SCons (SIfS _ (SCons (SIfS _ _ ENone) SNil) (EBlock (SCons (SSimple _) SNil))) SNil), Some l =>
          wfs l
      | _, _ => false
      end
  | None => false
  end = true.
Proof. vm_compute. reflexivity. Qed.

(** what the printer flattens: a Block inside a Block and comments leave no trace; an else that IS a
    Branch prints [else if], an else that is a Block holding a Branch prints [else { if .. }] *)
Example TIE_cstruct_flattening :
  let x := Var "x" in let a := Assignment x (IntegerLiteral 0) in
  let br := Branch (Equal x x) (Block [a] None) (Block [] None) in
  skel (Block [Block [a] (Some "c"); Block [Block [] None] None] None) = skel (Block [a] None) /\
  (exists c t e, skel (Branch (Equal x x) a br) = Some (SCons (SIfS c t (EIf e)) SNil)) /\
  (exists c t e, skel (Branch (Equal x x) a (Block [br] None)) = Some (SCons (SIfS c t (EBlock e)) SNil)).
Proof. vm_compute. repeat split; repeat eexists. Qed.

(** EVERY statement tree: the lines printed by the regenerated [ir_to_c_statement], joined by
    newlines, lex to the tokens of the skeleton [skel s], and the structure parser reads that
    skeleton back *)
Theorem TIE_cstruct_stmt_equiv :
  forall fdec str_float, float_oracle_ok fdec str_float ->
  forall s lines, deep_names_ok s = true -> ir_to_c_statement str_float s = Some lines ->
  exists l, skel s = Some l /\
            slex fdec (py_join (String nl "") lines) = Some (flats l) /\
            sparse (flats l) = Some l.
Proof. exact gen_struct_equiv. Qed.
Print Assumptions TIE_cstruct_stmt_equiv.

(** a Python exception exactly where the model has none *)
Theorem TIE_cstruct_stmt_none :
  forall fdec str_float, float_oracle_ok fdec str_float ->
  forall s, deep_names_ok s = true -> ir_to_c_statement str_float s = None -> skel s = None.
Proof. exact gen_struct_none. Qed.
Print Assumptions TIE_cstruct_stmt_none.

Theorem TIE_cstruct_parse_back :
  forall s ts, deep_names_ok s = true -> cprint_stmts s = Some ts -> sparse ts = skel s.
Proof. exact sparse_cprint_stmts. Qed.
Print Assumptions TIE_cstruct_parse_back.

(** function definitions: return type, name, parameter declarations through [type_to_c]
    (restrict pointers), body *)
Theorem TIE_cstruct_function_equiv :
  forall fdec str_float, float_oracle_ok fdec str_float ->
  forall f text, function_names_ok f = true ->
  ir_to_c_function_definition str_float f = Some text ->
  exists ts, cprint_function f = Some ts /\ slex fdec text = Some ts.
Proof. exact gen_function_equiv. Qed.
Print Assumptions TIE_cstruct_function_equiv.

Theorem TIE_cstruct_module_equiv :
  forall fdec str_float, float_oracle_ok fdec str_float ->
  forall m text, module_names_ok m = true ->
  ir_to_c str_float m = Some text ->
  exists ts, cprint_module m = Some ts /\ slex fdec text = Some ts.
Proof. exact gen_module_equiv. Qed.
Print Assumptions TIE_cstruct_module_equiv.

(* ------------------------------------------------------------------------------------------ *)
(** * What the skeleton forgets means nothing on the IR machine (spec/IRSem.v::exec), up to fuel:
      a Block's comment, a Block around one statement ([else { if .. }] vs [else if ..]), the nesting of
      Blocks (printed without braces).  [OutOfFuel] is the explicit out-of-fuel outcome. *)

From TV Require Import spec.IRSem proofs.GenCStruct_sem.

Theorem TIE_cstruct_sem_comment :
  forall n ss c st, exec n (Block ss c) st = exec n (Block ss None) st.
Proof. exact sem_block_comment. Qed.
Print Assumptions TIE_cstruct_sem_comment.

Theorem TIE_cstruct_sem_singleton :
  forall n s c st, exec (S n) (Block [s] c) st = exec n s st.
Proof. exact sem_block_singleton. Qed.
Print Assumptions TIE_cstruct_sem_singleton.

(** a nested Block spliced into the enclosing list, at any position: same outcome (state, returned
    value, trace, error) *)
Theorem TIE_cstruct_sem_splice :
  forall n pre a c1 r c c' st o,
    exec (S n) (Block (pre ++ a ++ r) c) st = o -> o <> OutOfFuel ->
    exec (S (S n)) (Block (pre ++ Block a c1 :: r) c') st = o.
Proof. exact sem_block_splice. Qed.
Print Assumptions TIE_cstruct_sem_splice.

Theorem TIE_cstruct_sem_else_block :
  forall n c a b cm st o,
    exec (S n) (Branch c a b) st = o -> o <> OutOfFuel ->
    exec (S (S n)) (Branch c a (Block [b] cm)) st = o.
Proof. exact sem_else_block. Qed.
Print Assumptions TIE_cstruct_sem_else_block.
