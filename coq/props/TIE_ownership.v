(* TIE "ownership": the storage-ownership functions of compile/_cffi_ownership.py (and their call sites),
   REGENERATED as effect programs (gen/OwnershipGen.v) and run in the machine of model/OwnershipApi.v, perform the
   transitions of the hand model model/Ownership.v (property C13).  Statements only; proofs in
   proofs/GenOwnership_equiv.v; documentation design.d/TIE_ownership.md. *)
From Coq Require Import ZArith List String.
From TV Require Import model.Ownership model.OwnershipApi gen.OwnershipGen proofs.OwnershipInv proofs.GenOwnership_equiv.
Import ListNotations.
Open Scope string_scope.
Open Scope list_scope.

(* For every order and every list of level modes (wf_struct: the structure's levels and the "**indices" slot of its
   holder are aligned with the mode list -- what allocate_taco_structure establishes), every state of the weak
   dictionary in which distinct structures have distinct holders: the regenerated take_ownership_of_arrays runs
   without exception, and what Ownership.v sees of the machine afterwards is EXACTLY Ownership.take_ownership:
   the holder of s owns one ffi.gc handle (HGc) per non-NULL address in indices[l][0], indices[l][1] (compressed
   levels only) and vals, in that order; the entries that were in those slots are dropped (blocks released, free()
   called for the ffi.gc ones, in order); nothing else changes. *)
Theorem TIE_take_ownership_equiv : forall nm s h d dl k m,
  wkd_ok m ->
  lookup s (m_wkd m) = Some h -> lookup s (m_structs m) = Some d -> lookup h (m_dicts m) = Some dl ->
  wf_struct d dl ->
  exists m', take_ownership_of_arrays (PStruct s) k m = (m', Ret PNone) /\
             take_ownership (abs nm m) s = Some (abs nm m', gc_frees (holder_of m h)) /\
             m_frees m' = m_frees m ++ gc_frees (holder_of m h) /\
             (exists dl', lookup h (m_dicts m') = Some dl' /\ holder_entries dl' = map HGc (sd_fields d)).
Proof. exact gen_take_ownership_equiv. Qed.
Print Assumptions TIE_take_ownership_equiv.

(* No holder registered for the structure (Ownership.take_ownership = None): KeyError, and nothing happens. *)
Theorem TIE_take_ownership_keyerror : forall s k m,
  lookup s (m_wkd m) = None -> take_ownership_of_arrays (PStruct s) k m = (m, Raise KeyError).
Proof. exact gen_take_ownership_keyerror. Qed.
Print Assumptions TIE_take_ownership_keyerror.

(* C13_unique_owner's holder clause on the regenerated function: after take_ownership_of_arrays the holder's entries
   own exactly the addresses in the structure's array fields (same order), every one through an ffi.gc handle. *)
Theorem TIE_unique_owner_holder : forall s h d dl k m,
  lookup s (m_wkd m) = Some h -> lookup s (m_structs m) = Some d -> lookup h (m_dicts m) = Some dl ->
  wf_struct d dl ->
  exists m', take_ownership_of_arrays (PStruct s) k m = (m', Ret PNone) /\
             map haddr (holder_of m' h) = sd_fields d /\
             (forall e, In e (holder_of m' h) -> exists a, e = HGc a).
Proof. exact gen_unique_owner_holder. Qed.
Print Assumptions TIE_unique_owner_holder.

(* allocate_taco_structure, for EVERY order / mode list / dimensions / mode ordering that its validation accepts
   ([alloc_valid]) and every machine state in which the identities it will use are fresh: it returns a new structure
   s = next whose array fields are all NULL (sd_fields = []), registered in the weak dictionary under s with a new
   holder whose "**indices" slot is aligned with the mode list and owns nothing, and has no "vals" slot; nothing else
   changes (heap, free trace, wrappers, other holders). *)
Theorem TIE_allocate_spec : forall modes dims ordering k m,
  alloc_valid modes dims ordering ->
  lookup (m_next m) (m_wkd m) = None -> (forall s', ~ In (s', m_next_meta m) (m_wkd m)) ->
  ~ In (m_next m) (map fst (m_structs m)) ->
  runs_to (allocate_taco_structure (ints modes) (ints dims) (ints ordering)) k m
          (fun m' r => r = PStruct (m_next m) /\ allocated modes m m').
Proof. exact gen_allocate_spec. Qed.
Print Assumptions TIE_allocate_spec.

(* The regenerated call sequence of TensorMethod.__call__ (allocate the output, wrap it in a Tensor, marshal the
   arguments, run the kernel, take_ownership_of_arrays, test the return value, return the Tensor) IS Ownership.eval_call:
   same final state as seen by Ownership.v, same new wrapper, no free() call.  For every output format accepted by
   allocate_taco_structure, every set of inputs that are Tensors of the machine, any position of the output among the
   kernel's parameters, a kernel that returns 0 and allocates what the shape says, in every machine state whose view
   satisfies C13's invariant (every reachable one). *)
Theorem TIE_call_equiv :
  forall nm modes dims ordering out formats bound args ins inf sh k m,
  alloc_valid modes dims ordering ->
  Inv (abs nm m) -> wkd_ok m -> (forall s', ~ In (s', m_next_meta m) (m_wkd m)) ->
  Forall2 (arg_of ((S (m_next m), m_next m) :: m_tensors m)
                  (all_arguments out (PTensor (S (m_next m))) bound)) (map fst formats) args ->
  nth_error args (k_out k) = Some (m_next m) ->
  k_ret k = 0%Z ->
  input_fields (abs nm m) ins = Some inf ->
  (forall d, sd_modes d = modes -> kernel_blocks (k_empty k) d (S (S (m_next m))) = shape_blocks sh) ->
  exists m',
    TensorMethod_call_tail (PDictV bound) (ints dims) (PList (map PMode modes)) (ints ordering) (PStr out)
                           (PDictV formats) k m = (m', Ret (PTensor (S (m_next m)))) /\
    eval_call (abs nm m) ins sh = (abs nm m', S (m_next m), [], Ok) /\
    m_frees m' = m_frees m.
Proof. exact gen_call_equiv_full. Qed.
Print Assumptions TIE_call_equiv.

(* The kernel returns non-zero: RuntimeError is raised AFTER take_ownership_of_arrays; the machine state is the one of a
   successful call (Ownership.v sees eval_call's Ok state), only no name gets bound: nothing leaks on this path (the
   cascade of Ownership.sweep then frees each block once; see TIE_runtime_error_state_is_eval_del). *)
Theorem TIE_call_runtime_error :
  forall nm modes dims ordering out formats bound args ins inf sh k m,
  alloc_valid modes dims ordering ->
  Inv (abs nm m) -> wkd_ok m -> (forall s', ~ In (s', m_next_meta m) (m_wkd m)) ->
  Forall2 (arg_of ((S (m_next m), m_next m) :: m_tensors m)
                  (all_arguments out (PTensor (S (m_next m))) bound)) (map fst formats) args ->
  nth_error args (k_out k) = Some (m_next m) ->
  k_ret k <> 0%Z ->
  input_fields (abs nm m) ins = Some inf ->
  (forall d, sd_modes d = modes -> kernel_blocks (k_empty k) d (S (S (m_next m))) = shape_blocks sh) ->
  exists m',
    TensorMethod_call_tail (PDictV bound) (ints dims) (PList (map PMode modes)) (ints ordering) (PStr out)
                           (PDictV formats) k m = (m', Raise RuntimeError) /\
    eval_call (abs nm m) ins sh = (abs nm m', S (m_next m), [], Ok) /\
    m_frees m' = m_frees m.
Proof. exact gen_call_runtime_error_full. Qed.
Print Assumptions TIE_call_runtime_error.

(* In Ownership.v that state is the state of the history  Eval n ins sh ; Del n  for an unused name n: the theorems of
   C13 about histories (freed exactly once, no leak after the cascade) cover the RuntimeError path. *)
Theorem TIE_runtime_error_state_is_eval_del : forall st n ins sh st' w fr,
  eval_call st ins sh = (st', w, fr, Ok) -> lookup n (names st') = None ->
  let '(st1, _, _) := apply_op st (Eval n ins sh) in
  fst (fst (apply_op st1 (Del n))) = st'.
Proof. exact runtime_error_state_is_eval_del. Qed.
Print Assumptions TIE_runtime_error_state_is_eval_del.

(* C13_eval_preserves_existing on the regenerated TensorMethod.__call__: in a machine state whose view is a reachable
   state of Ownership.v the call makes no free() call, keeps every existing block, structure and holder unchanged, and
   the holder it fills owns only blocks that did not exist before the call. *)
Theorem TIE_eval_preserves_existing :
  forall eager ops nm modes dims ordering out formats bound args ins inf sh k m,
  abs nm m = t_state (run eager ops) ->
  alloc_valid modes dims ordering ->
  wkd_ok m -> (forall s', ~ In (s', m_next_meta m) (m_wkd m)) ->
  Forall2 (arg_of ((S (m_next m), m_next m) :: m_tensors m)
                  (all_arguments out (PTensor (S (m_next m))) bound)) (map fst formats) args ->
  nth_error args (k_out k) = Some (m_next m) ->
  k_ret k = 0%Z ->
  input_fields (abs nm m) ins = Some inf ->
  (forall d, sd_modes d = modes -> kernel_blocks (k_empty k) d (S (S (m_next m))) = shape_blocks sh) ->
  exists m',
    TensorMethod_call_tail (PDictV bound) (ints dims) (PList (map PMode modes)) (ints ordering) (PStr out)
                           (PDictV formats) k m = (m', Ret (PTensor (S (m_next m)))) /\
    m_frees m' = m_frees m /\
    (forall a b, In (a, b) (heap (abs nm m)) -> In (a, b) (heap (abs nm m'))) /\
    (forall s f, In (s, f) (structs (abs nm m)) -> In (s, f) (structs (abs nm m'))) /\
    (forall s h, In (s, h) (wkd (abs nm m)) -> In (s, h) (wkd (abs nm m'))) /\
    (forall s h e, In (s, h) (wkd (abs nm m')) -> In e h ->
       In (s, h) (wkd (abs nm m)) \/ ~ In (haddr e) (map fst (heap (abs nm m)))).
Proof. exact gen_eval_preserves_existing_full. Qed.
Print Assumptions TIE_eval_preserves_existing.

(* taco_structure_to_cffi (Tensor.from_* through from_aos, __setstate__) performs Ownership.fill_from_python on the
   structure its own call of allocate_taco_structure creates: for every valid format and Python data of the matching
   shape (nothing for a dense level, a pos and a crd list for a compressed level; the value checks of the validation
   section are the parameter `validation`, here None = they pass), the holder gets one owning ffi.new entry (HNew) for
   exactly pos and crd of every compressed level and for vals, in that order, the C structure points to the same
   blocks, the blocks are new CffiNew blocks, nothing is freed and nothing else changes. *)
Theorem TIE_fill_equiv : forall nm modes dims ordering datas vals k m,
  alloc_valid modes dims ordering -> data_shape modes datas ->
  lookup (m_next m) (m_wkd m) = None -> (forall s', ~ In (s', m_next_meta m) (m_wkd m)) ->
  NoDup (map fst (m_structs m)) -> ~ In (m_next m) (map fst (m_structs m)) ->
  exists m1 m',
    allocate_taco_structure (ints modes) (ints dims) (ints ordering) k m = (m1, Ret (PStruct (m_next m))) /\
    allocated modes m m1 /\
    taco_structure_to_cffi (PList datas) (PList vals) (ints modes) (ints dims) (ints ordering) None k m
      = (m', Ret (PStruct (m_next m))) /\
    abs nm m' = fill_from_python (abs nm m1) (m_next m) (nsparse modes + 1) /\
    m_frees m' = m_frees m.
Proof. exact gen_fill_equiv. Qed.
Print Assumptions TIE_fill_equiv.
