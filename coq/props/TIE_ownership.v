(* TIE "ownership": the storage-ownership functions of compile/_cffi_ownership.py (and their call sites),
   REGENERATED as effect programs (gen/OwnershipGen.v) and run in the machine of model/OwnershipApi.v, perform the
   transitions of the hand model model/Ownership.v (property C13).  Statements only; proofs in
   proofs/GenOwnership_equiv.v; documentation design.d/TIE_ownership.md. *)
From Coq Require Import ZArith List String.
From TV Require Import model.Ownership model.OwnershipApi gen.OwnershipGen proofs.OwnershipInv proofs.GenOwnership_equiv.
Import ListNotations.
Open Scope string_scope.
Open Scope list_scope.

(* For every order and every list of level modes (wf_struct: the structure's levels and the "**indices" slot of its
   holder are aligned with the mode list -- what allocate_taco_structure establishes), every state of the weak
   dictionary in which distinct structures have distinct holders: the regenerated take_ownership_of_arrays runs
   without exception, and what Ownership.v sees of the machine afterwards is EXACTLY Ownership.take_ownership:
   the holder of s owns one ffi.gc handle (HGc) per non-NULL address in indices[l][0], indices[l][1] (compressed
   levels only) and vals, in that order; the entries that were in those slots are dropped (blocks released, free()
   called for the ffi.gc ones, in order); nothing else changes. *)
Theorem TIE_take_ownership_equiv : forall nm s h d dl k m,
  wkd_ok m ->
  lookup s (m_wkd m) = Some h -> lookup s (m_structs m) = Some d -> lookup h (m_dicts m) = Some dl ->
  wf_struct d dl ->
  exists m', take_ownership_of_arrays (PStruct s) k m = (m', Ret PNone) /\
             take_ownership (abs nm m) s = Some (abs nm m', gc_frees (holder_of m h)) /\
             m_frees m' = m_frees m ++ gc_frees (holder_of m h) /\
             (exists dl', lookup h (m_dicts m') = Some dl' /\ holder_entries dl' = map HGc (sd_fields d)).
Proof. exact gen_take_ownership_equiv. Qed.
Print Assumptions TIE_take_ownership_equiv.

(* No holder registered for the structure (Ownership.take_ownership = None): KeyError, and nothing happens. *)
Theorem TIE_take_ownership_keyerror : forall s k m,
  lookup s (m_wkd m) = None -> take_ownership_of_arrays (PStruct s) k m = (m, Raise KeyError).
Proof. exact gen_take_ownership_keyerror. Qed.
Print Assumptions TIE_take_ownership_keyerror.

(* C13_unique_owner's holder clause on the regenerated function: after take_ownership_of_arrays the holder's entries
   own exactly the addresses in the structure's array fields (same order), every one through an ffi.gc handle. *)
Theorem TIE_unique_owner_holder : forall s h d dl k m,
  lookup s (m_wkd m) = Some h -> lookup s (m_structs m) = Some d -> lookup h (m_dicts m) = Some dl ->
  wf_struct d dl ->
  exists m', take_ownership_of_arrays (PStruct s) k m = (m', Ret PNone) /\
             map haddr (holder_of m' h) = sd_fields d /\
             (forall e, In e (holder_of m' h) -> exists a, e = HGc a).
Proof. exact gen_unique_owner_holder. Qed.
Print Assumptions TIE_unique_owner_holder.

(* The regenerated call sequence of TensorMethod.__call__ (allocate the output, wrap it in a Tensor, marshal the
   arguments, run the kernel, take_ownership_of_arrays, test the return value, return the Tensor) IS Ownership.eval_call:
   same final state as seen by Ownership.v, same new wrapper, no free() call.  For every output format (modes, dims,
   ordering accepted by allocate_taco_structure), every set of inputs that are Tensors of the machine, any position of
   the output among the kernel's parameters, a kernel that returns 0 and allocates what the shape says.
   GIVEN [allocate_spec]: the specification of the regenerated allocate_taco_structure (a fresh structure with NULL
   arrays registered with a fresh holder that owns nothing, aligned with the mode list).  allocate_spec is NOT proved
   for all mode lists here (it is an instance-checked specification, [TIE_allocate_spec_instance], and the self-check
   compares the regenerated allocate_taco_structure with the real one at every run); everything after the allocation
   is proved. *)
Theorem TIE_call_equiv_given_allocate : allocate_spec ->
  forall nm modes dims ordering out formats bound args ins inf sh k m,
  alloc_valid modes dims ordering ->
  Inv (abs nm m) -> wkd_ok m -> (forall s', ~ In (s', m_next_meta m) (m_wkd m)) ->
  Forall2 (arg_of ((S (m_next m), m_next m) :: m_tensors m)
                  (all_arguments out (PTensor (S (m_next m))) bound)) (map fst formats) args ->
  nth_error args (k_out k) = Some (m_next m) ->
  k_ret k = 0%Z ->
  input_fields (abs nm m) ins = Some inf ->
  (forall d, sd_modes d = modes -> kernel_blocks (k_empty k) d (S (S (m_next m))) = shape_blocks sh) ->
  exists m',
    TensorMethod_call_tail (PDictV bound) (ints dims) (PList (map PMode modes)) (ints ordering) (PStr out)
                           (PDictV formats) k m = (m', Ret (PTensor (S (m_next m)))) /\
    eval_call (abs nm m) ins sh = (abs nm m', S (m_next m), [], Ok) /\
    m_frees m' = m_frees m.
Proof. exact gen_call_equiv. Qed.
Print Assumptions TIE_call_equiv_given_allocate.

Theorem TIE_allocate_spec_instance : forall k,
  runs_to (allocate_taco_structure (ints [0; 1]%Z) (ints [3; 4]%Z) (ints [1; 0]%Z)) k m_init
          (fun m' r => r = PStruct 0 /\ allocated [0; 1]%Z m_init m').
Proof. exact allocate_spec_instance. Qed.
Print Assumptions TIE_allocate_spec_instance.

(* C13_eval_preserves_existing on the regenerated TensorMethod.__call__ (given allocate_spec): in a machine state
   whose view is a reachable state of Ownership.v the call makes no free() call, keeps every existing block, structure
   and holder unchanged, and the holder it fills owns only blocks that did not exist before the call. *)
Theorem TIE_eval_preserves_existing_given_allocate : allocate_spec ->
  forall eager ops nm modes dims ordering out formats bound args ins inf sh k m,
  abs nm m = t_state (run eager ops) ->
  alloc_valid modes dims ordering ->
  wkd_ok m -> (forall s', ~ In (s', m_next_meta m) (m_wkd m)) ->
  Forall2 (arg_of ((S (m_next m), m_next m) :: m_tensors m)
                  (all_arguments out (PTensor (S (m_next m))) bound)) (map fst formats) args ->
  nth_error args (k_out k) = Some (m_next m) ->
  k_ret k = 0%Z ->
  input_fields (abs nm m) ins = Some inf ->
  (forall d, sd_modes d = modes -> kernel_blocks (k_empty k) d (S (S (m_next m))) = shape_blocks sh) ->
  exists m',
    TensorMethod_call_tail (PDictV bound) (ints dims) (PList (map PMode modes)) (ints ordering) (PStr out)
                           (PDictV formats) k m = (m', Ret (PTensor (S (m_next m)))) /\
    m_frees m' = m_frees m /\
    (forall a b, In (a, b) (heap (abs nm m)) -> In (a, b) (heap (abs nm m'))) /\
    (forall s f, In (s, f) (structs (abs nm m)) -> In (s, f) (structs (abs nm m'))) /\
    (forall s h, In (s, h) (wkd (abs nm m)) -> In (s, h) (wkd (abs nm m'))) /\
    (forall s h e, In (s, h) (wkd (abs nm m')) -> In e h ->
       In (s, h) (wkd (abs nm m)) \/ ~ In (haddr e) (map fst (heap (abs nm m)))).
Proof. exact gen_eval_preserves_existing. Qed.
Print Assumptions TIE_eval_preserves_existing_given_allocate.
