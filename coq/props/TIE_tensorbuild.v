(** TIE "tensorbuild" -- tensor construction regenerated from /repo/src/tensora/tensor.py
    (gen/TensorBuildGen.v, by tools/py2coq/extra_tensorbuild.py) against the hand model
    model/TensorBuild.v of property C09.  [G.f Z 0 Z.add Z.eqb] is the regenerated function [f] at the
    number type of the hand model; [Val] = normal completion, [Exc] = a Python exception.
    See design.d/TIE_tensorbuild.md. *)
From Coq Require Import ZArith List. Import ListNotations.
From TV Require Import spec.Storage spec.PyLib model.TensorBuild model.TensorBuildPy proofs.TensorBuildLemmas
  proofs.TensorBuildTop proofs.GenTensorBuild_tree proofs.GenTensorBuild_emit proofs.GenTensorBuild_equiv.
From TV Require gen.TensorBuildGen.
Module G := TensorBuildGen.
Open Scope Z_scope.

(** coordinates_to_tree (dict trie, duplicates summed left to right from 0.0) builds a
    representation ([rep]) of the implicit trie of the hand model: [None] for no entry. *)
Theorem TIE_tensorbuild_tree : forall n fuel (les : list entry),
  (n <= fuel)%nat -> Forall (fun e : entry => length (fst e) = n) les ->
  exists ot, G.coordinates_to_tree Z 0 Z.add Z.eqb fuel (map fst les) (map snd les) = Val ot
             /\ treeinv n ot les.
Proof. exact ctt_ok. Qed.
Print Assumptions TIE_tensorbuild_tree.

(** tree_to_indices_and_values (depth-first walk appending to the per-level pos / crd lists and to
    the values) returns exactly the arrays of the level-by-level [emit] of the hand model. *)
Theorem TIE_tensorbuild_arrays : forall ms ds les ot fuel,
  length ds = length ms -> (length ms <= fuel)%nat -> treeinv (length ms) ot les ->
  G.tree_to_indices_and_values Z 0 Z.add Z.eqb fuel ot (map gm ms) ds
  = Val (indices_of (fst (emit (combine ms ds) [les])), snd (emit (combine ms ds) [les])).
Proof. exact arrays_ok. Qed.
Print Assumptions TIE_tensorbuild_arrays.

(** Tensor.from_aos (explicit dimensions and Format) up to its call of taco_structure_to_cffi: the
    arguments of that call are the arrays of [raw_build]; an IndexError of the reordering is [Exc]. *)
Theorem TIE_tensorbuild_from_aos_raw : forall fmt dims (es : list entry) fuel,
  valid_formatb fmt = true -> (length (fmodes fmt) <= fuel)%nat ->
  G.from_aos Z 0 Z.add Z.eqb fuel (map fst es) (map snd es) dims (gfmt fmt)
  = match level_dims_of (fordering fmt) dims, map_opt (permute_entry (fordering fmt)) es with
    | Some ldims, Some les =>
        let t := raw_build fmt dims ldims les in
        G.taco_structure_to_cffi Z 0 Z.add Z.eqb (indices_of (levels t)) (vals t)
          (map G.Mode_c_int (map gm (fmodes fmt))) dims (map Z.of_nat (fordering fmt))
    | _, _ => Exc
    end.
Proof. exact gen_from_aos_raw. Qed.
Print Assumptions TIE_tensorbuild_from_aos_raw.

Theorem TIE_tensorbuild_from_aos_of_build : forall fmt dims (es : list entry) fuel t,
  (length (fmodes fmt) <= fuel)%nat -> build fmt dims es = Ok t ->
  G.from_aos Z 0 Z.add Z.eqb fuel (map fst es) (map snd es) dims (gfmt fmt)
  = G.taco_structure_to_cffi Z 0 Z.add Z.eqb (indices_of (levels t)) (vals t)
      (map G.Mode_c_int (map gm (fmodes fmt))) dims (map Z.of_nat (fordering fmt)).
Proof. exact gen_from_aos_of_build. Qed.
Print Assumptions TIE_tensorbuild_from_aos_of_build.

Theorem TIE_tensorbuild_index_error : forall fmt dims (es : list entry) fuel,
  (length (fmodes fmt) <= fuel)%nat -> build fmt dims es = Err EIndex ->
  G.from_aos Z 0 Z.add Z.eqb fuel (map fst es) (map snd es) dims (gfmt fmt) = Exc.
Proof. exact gen_from_aos_index_error. Qed.
Print Assumptions TIE_tensorbuild_index_error.

Theorem TIE_tensorbuild_from_dok : forall fuel (d : list entry) dims f,
  G.from_dok Z 0 Z.add Z.eqb fuel d dims f
  = G.from_aos Z 0 Z.add Z.eqb fuel (map fst d) (map snd d) dims f.
Proof. exact gen_from_dok_is_from_aos. Qed.
Print Assumptions TIE_tensorbuild_from_dok.

(** C09_roundtrip and C09_build_wf on the regenerated from_aos. *)
Theorem TIE_tensorbuild_roundtrip_gen : forall fmt dims es fuel,
  valid_formatb fmt = true -> dims_okb fmt dims = true -> all_in_rangeb dims es = true ->
  (length (fmodes fmt) <= fuel)%nat ->
  exists t,
    G.from_aos Z 0 Z.add Z.eqb fuel (map fst es) (map snd es) dims (gfmt fmt)
    = G.taco_structure_to_cffi Z 0 Z.add Z.eqb (indices_of (levels t)) (vals t)
        (map G.Mode_c_int (map gm (fmodes fmt))) dims (map Z.of_nat (fordering fmt))
    /\ build fmt dims es = Ok t
    /\ (forall c v, In (c, v) (to_dok_spec t) <-> v = sum_at c es /\ v <> 0)
    /\ NoDup (map fst (to_dok_spec t))
    /\ format_of t = fmt /\ Storage.dims t = dims
    /\ wf_tensorb true t = true /\ validate t = true.
Proof. exact gen_roundtrip. Qed.
Print Assumptions TIE_tensorbuild_roundtrip_gen.
