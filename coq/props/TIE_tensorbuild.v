(** TIE "tensorbuild" -- tensor construction regenerated from /repo/src/tensora/tensor.py
    (gen/TensorBuildGen.v, by tools/py2coq/extra_tensorbuild.py) against the hand model
    model/TensorBuild.v of property C09.  [G.f Z 0 Z.add Z.eqb] is the regenerated function [f] at the
    number type of the hand model; [Val] = normal completion, [Exc] = a Python exception.
    See design.d/TIE_tensorbuild.md. *)
From Coq Require Import ZArith List. Import ListNotations.
From TV Require Import spec.Storage spec.PyLib model.TensorBuild model.TensorBuildPy proofs.TensorBuildLemmas
  proofs.TensorBuildTop proofs.GenTensorBuild_tree proofs.GenTensorBuild_emit proofs.GenTensorBuild_build
  proofs.GenTensorBuild_items proofs.GenTensorBuild_validate proofs.GenTensorBuild_state proofs.GenTensorBuild_equiv.
From TV Require gen.TensorBuildGen.
Module G := TensorBuildGen.
Open Scope Z_scope.

(** coordinates_to_tree (dict trie, duplicates summed left to right from 0.0) builds a
    representation ([rep]) of the implicit trie of the hand model: [None] for no entry. *)
Theorem TIE_tensorbuild_tree : forall n fuel (les : list entry),
  (n <= fuel)%nat -> Forall (fun e : entry => length (fst e) = n) les ->
  exists ot, G.coordinates_to_tree Z 0 Z.add Z.eqb fuel (map fst les) (map snd les) = Val ot
             /\ treeinv n ot les.
Proof. exact ctt_ok. Qed.
Print Assumptions TIE_tensorbuild_tree.

(** tree_to_indices_and_values (depth-first walk appending to the per-level pos / crd lists and to
    the values) returns exactly the arrays of the level-by-level [emit] of the hand model. *)
Theorem TIE_tensorbuild_arrays : forall ms ds les ot fuel,
  length ds = length ms -> (length ms <= fuel)%nat -> treeinv (length ms) ot les ->
  G.tree_to_indices_and_values Z 0 Z.add Z.eqb fuel ot (map gm ms) ds
  = Val (indices_of (fst (emit (combine ms ds) [les])), snd (emit (combine ms ds) [les])).
Proof. exact arrays_ok. Qed.
Print Assumptions TIE_tensorbuild_arrays.

(** Tensor.from_aos (explicit dimensions and Format) up to its call of taco_structure_to_cffi: the
    arguments of that call are the arrays of [raw_build]; an IndexError of the reordering is [Exc]. *)
Theorem TIE_tensorbuild_from_aos_raw : forall fmt dims (es : list entry) fuel,
  valid_formatb fmt = true -> (length (fmodes fmt) <= fuel)%nat ->
  G.from_aos Z 0 Z.add Z.eqb fuel (map fst es) (map snd es) dims (gfmt fmt)
  = match level_dims_of (fordering fmt) dims, map_opt (permute_entry (fordering fmt)) es with
    | Some ldims, Some les =>
        let t := raw_build fmt dims ldims les in
        G.taco_structure_to_cffi Z 0 Z.add Z.eqb (indices_of (levels t)) (vals t)
          (map G.Mode_c_int (map gm (fmodes fmt))) dims (map Z.of_nat (fordering fmt))
    | _, _ => Exc
    end.
Proof. exact gen_from_aos_raw. Qed.
Print Assumptions TIE_tensorbuild_from_aos_raw.

Theorem TIE_tensorbuild_from_aos_of_build : forall fmt dims (es : list entry) fuel t,
  (length (fmodes fmt) <= fuel)%nat -> build fmt dims es = Ok t ->
  G.from_aos Z 0 Z.add Z.eqb fuel (map fst es) (map snd es) dims (gfmt fmt)
  = G.taco_structure_to_cffi Z 0 Z.add Z.eqb (indices_of (levels t)) (vals t)
      (map G.Mode_c_int (map gm (fmodes fmt))) dims (map Z.of_nat (fordering fmt)).
Proof. exact gen_from_aos_of_build. Qed.
Print Assumptions TIE_tensorbuild_from_aos_of_build.

Theorem TIE_tensorbuild_index_error : forall fmt dims (es : list entry) fuel,
  (length (fmodes fmt) <= fuel)%nat -> build fmt dims es = Err EIndex ->
  G.from_aos Z 0 Z.add Z.eqb fuel (map fst es) (map snd es) dims (gfmt fmt) = Exc.
Proof. exact gen_from_aos_index_error. Qed.
Print Assumptions TIE_tensorbuild_index_error.

Theorem TIE_tensorbuild_from_dok : forall fuel (d : list entry) dims f,
  G.from_dok Z 0 Z.add Z.eqb fuel d dims f
  = G.from_aos Z 0 Z.add Z.eqb fuel (map fst d) (map snd d) dims f.
Proof. exact gen_from_dok_is_from_aos. Qed.
Print Assumptions TIE_tensorbuild_from_dok.

(** C09_roundtrip and C09_build_wf on the regenerated from_aos. *)
Theorem TIE_tensorbuild_roundtrip_gen : forall fmt dims es fuel,
  valid_formatb fmt = true -> dims_okb fmt dims = true -> all_in_rangeb dims es = true ->
  (length (fmodes fmt) <= fuel)%nat ->
  exists t,
    G.from_aos Z 0 Z.add Z.eqb fuel (map fst es) (map snd es) dims (gfmt fmt)
    = G.taco_structure_to_cffi Z 0 Z.add Z.eqb (indices_of (levels t)) (vals t)
        (map G.Mode_c_int (map gm (fmodes fmt))) dims (map Z.of_nat (fordering fmt))
    /\ build fmt dims es = Ok t
    /\ (forall c v, In (c, v) (to_dok_spec t) <-> v = sum_at c es /\ v <> 0)
    /\ NoDup (map fst (to_dok_spec t))
    /\ format_of t = fmt /\ Storage.dims t = dims
    /\ wf_tensorb true t = true /\ validate t = true.
Proof. exact gen_roundtrip. Qed.
Print Assumptions TIE_tensorbuild_roundtrip_gen.

(** The validation of allocate_taco_structure / taco_structure_to_cffi (compile/_cffi_ownership.py)
    accepts exactly what [validate] accepts, for every stored tensor; on success it hands the five lists
    ([stored t]) to cffi. *)
Theorem TIE_tensorbuild_validate : forall t : tensor Z,
  G.taco_structure_to_cffi Z 0 Z.add Z.eqb (indices_of (levels t)) (vals t) (map cint (levels t)) (Storage.dims t)
    (map Z.of_nat (ordering t))
  = if validate t then Val (stored t) else Exc.
Proof. exact gen_validate_equiv. Qed.
Print Assumptions TIE_tensorbuild_validate.

(** Tensor.from_aos = [build]: for every valid format, ALL dimensions and entries -- the stored lists on
    success, an exception exactly when the model reports an error (EIndex, EValue). *)
Theorem TIE_tensorbuild_from_aos_equiv : forall fmt dims (es : list entry) fuel,
  valid_formatb fmt = true -> (length (fmodes fmt) <= fuel)%nat ->
  G.from_aos Z 0 Z.add Z.eqb fuel (map fst es) (map snd es) dims (gfmt fmt)
  = match build fmt dims es with Ok t => Val (stored t) | Err _ => Exc end.
Proof. exact gen_from_aos_equiv. Qed.
Print Assumptions TIE_tensorbuild_from_aos_equiv.

Theorem TIE_tensorbuild_from_dok_equiv : forall fmt dims (d : list entry) fuel,
  valid_formatb fmt = true -> (length (fmodes fmt) <= fuel)%nat ->
  G.from_dok Z 0 Z.add Z.eqb fuel d dims (gfmt fmt)
  = match from_dok fmt dims d with Ok t => Val (stored t) | Err _ => Exc end.
Proof. exact gen_from_dok_equiv. Qed.
Print Assumptions TIE_tensorbuild_from_dok_equiv.

(** The decoder: Tensor.items (with coordinate[i] = prefix[mode_ordering.index(i)]) on any well-formed
    stored tensor (strict or with a scratch value) yields exactly Storage.entries, in storage order. *)
Theorem TIE_tensorbuild_items : forall strict (t : tensor Z) fuel,
  wf_tensorb strict t = true -> (length (levels t) < fuel)%nat ->
  G.items Z 0 Z.add Z.eqb fuel (Z.of_nat (length (ordering t))) (map gmode (levels t)) (Storage.dims t)
    (map Z.of_nat (ordering t)) (indices_of (levels t)) (vals t)
  = Val (entries 0 t).
Proof. exact gen_items_equiv. Qed.
Print Assumptions TIE_tensorbuild_items.

Theorem TIE_tensorbuild_to_dok : forall (its : list entry) ez,
  G.to_dok Z 0 Z.add Z.eqb its ez = Val (to_dok ez its).
Proof. exact gen_to_dok_equiv. Qed.
Print Assumptions TIE_tensorbuild_to_dok.

(** C09_roundtrip end to end on regenerated functions only: regenerated from_aos, then regenerated
    items and to_dok on what it stored. *)
Theorem TIE_tensorbuild_roundtrip_full : forall fmt dims es fuel,
  valid_formatb fmt = true -> dims_okb fmt dims = true -> all_in_rangeb dims es = true ->
  (length (fmodes fmt) < fuel)%nat ->
  exists t,
    G.from_aos Z 0 Z.add Z.eqb fuel (map fst es) (map snd es) dims (gfmt fmt) = Val (stored t)
    /\ G.items Z 0 Z.add Z.eqb fuel (Z.of_nat (length (ordering t))) (map gmode (levels t)) (Storage.dims t)
         (map Z.of_nat (ordering t)) (indices_of (levels t)) (vals t) = Val (items_spec t)
    /\ G.to_dok Z 0 Z.add Z.eqb (items_spec t) false = Val (to_dok_spec t)
    /\ (forall c v, In (c, v) (to_dok_spec t) <-> v = sum_at c es /\ v <> 0)
    /\ NoDup (map fst (to_dok_spec t))
    /\ format_of t = fmt /\ Storage.dims t = dims /\ wf_tensorb true t = true.
Proof. exact gen_roundtrip_full. Qed.
Print Assumptions TIE_tensorbuild_roundtrip_full.

(** from_aos on arbitrary coordinate / value lists (zip strict: a length mismatch is an exception),
    from_soa (zip of the columns, strict) and from_lol (lol_to_coordinates_and_values) against the
    model's entry points; every error of the model (EIndex, ELength, EValue) is an exception. *)
Theorem TIE_tensorbuild_from_aos_general : forall fmt dims cs vs fuel,
  valid_formatb fmt = true -> (length (fmodes fmt) <= fuel)%nat ->
  G.from_aos Z 0 Z.add Z.eqb fuel cs vs dims (gfmt fmt)
  = match from_aos fmt dims cs vs with Ok t => Val (stored t) | Err _ => Exc end.
Proof. exact gen_from_aos_general. Qed.
Print Assumptions TIE_tensorbuild_from_aos_general.

Theorem TIE_tensorbuild_from_soa : forall fmt dims cols vs fuel,
  valid_formatb fmt = true -> (length (fmodes fmt) <= fuel)%nat ->
  G.from_soa Z 0 Z.add Z.eqb fuel cols vs dims (gfmt fmt)
  = match from_soa fmt dims cols vs with Ok t => Val (stored t) | Err _ => Exc end.
Proof. exact gen_from_soa_equiv. Qed.
Print Assumptions TIE_tensorbuild_from_soa.

Theorem TIE_tensorbuild_from_lol : forall fmt dims x fuel,
  valid_formatb fmt = true -> (length (fmodes fmt) <= fuel)%nat -> (lol_depth x < fuel)%nat ->
  G.from_lol Z 0 Z.add Z.eqb fuel (glol x) dims (gfmt fmt)
  = match from_lol fmt dims x with Ok t => Val (stored t) | Err _ => Exc end.
Proof. exact gen_from_lol_equiv. Qed.
Print Assumptions TIE_tensorbuild_from_lol.

(** The read-side accessors on the stored lists of a well-formed tensor [t] (C arrays read as list
    slices that must stay inside the array): Tensor.taco_indices re-reads exactly the levels of [t]
    (threading nnz: [nnz *= dimension] under a dense level, [len(crd)] under a compressed one) and
    Tensor.taco_vals exactly the values. *)
Theorem TIE_tensorbuild_taco_indices : forall strict (t : tensor Z), wf_tensorb strict t = true ->
  G.taco_indices Z 0 Z.add Z.eqb (Z.of_nat (length (ordering t))) (Storage.dims t) (map gmode (levels t))
    (map Z.of_nat (ordering t)) (indices_of (levels t))
  = Val (indices_of (levels t)).
Proof. exact gen_taco_indices_equiv. Qed.
Print Assumptions TIE_tensorbuild_taco_indices.

Theorem TIE_tensorbuild_taco_vals : forall t : tensor Z, wf_tensorb true t = true ->
  G.taco_vals Z 0 Z.add Z.eqb (Z.of_nat (length (ordering t))) (Storage.dims t) (map gmode (levels t))
    (map Z.of_nat (ordering t)) (indices_of (levels t)) (vals t)
  = Val (vals t).
Proof. exact gen_taco_vals_equiv. Qed.
Print Assumptions TIE_tensorbuild_taco_vals.

(** Pickling.  [state_of t] = the dict of __getstate__ (dimensions, mode_types, mode_ordering, indices,
    vals, in this order); __setstate__ is taco_structure_to_cffi on it.  C09_pickle_preserves restated on
    the regenerated functions: the round trip re-creates exactly the stored lists. *)
Theorem TIE_tensorbuild_getstate : forall t : tensor Z, wf_tensorb true t = true ->
  G.__getstate__ Z 0 Z.add Z.eqb (Z.of_nat (length (ordering t))) (map gmode (levels t)) (Storage.dims t)
    (map Z.of_nat (ordering t)) (indices_of (levels t)) (vals t)
  = Val (state_of t).
Proof. exact gen_getstate_equiv. Qed.
Print Assumptions TIE_tensorbuild_getstate.

Theorem TIE_tensorbuild_setstate : forall t : tensor Z,
  G.__setstate__ Z 0 Z.add Z.eqb (state_of t) = if validate t then Val (stored t) else Exc.
Proof. exact gen_setstate_equiv. Qed.
Print Assumptions TIE_tensorbuild_setstate.

Theorem TIE_tensorbuild_pickle_roundtrip : forall t : tensor Z, wf_tensorb true t = true ->
  rbind (G.__getstate__ Z 0 Z.add Z.eqb (Z.of_nat (length (ordering t))) (map gmode (levels t)) (Storage.dims t)
           (map Z.of_nat (ordering t)) (indices_of (levels t)) (vals t))
        (G.__setstate__ Z 0 Z.add Z.eqb)
  = Val (stored t).
Proof. exact gen_pickle_roundtrip_equiv. Qed.
Print Assumptions TIE_tensorbuild_pickle_roundtrip.

(** to_format = from_dok(self.to_dok(), dimensions=self.dimensions, format): the model's to_format_spec
    on every well-formed tensor, and C09_to_format_preserves_any_wf on the regenerated function. *)
Theorem TIE_tensorbuild_to_format : forall strict (t : tensor Z) fmt' fuel,
  wf_tensorb strict t = true -> valid_formatb fmt' = true ->
  (length (levels t) < fuel)%nat -> (length (fmodes fmt') <= fuel)%nat ->
  G.to_format Z 0 Z.add Z.eqb fuel (Z.of_nat (length (ordering t))) (map gmode (levels t)) (Storage.dims t)
    (map Z.of_nat (ordering t)) (indices_of (levels t)) (vals t) (gfmt fmt')
  = match to_format_spec fmt' t with Ok t' => Val (stored t') | Err _ => Exc end.
Proof. exact gen_to_format_equiv. Qed.
Print Assumptions TIE_tensorbuild_to_format.

Theorem TIE_tensorbuild_to_format_preserves : forall strict (t : tensor Z) fmt' fuel,
  wf_tensorb strict t = true -> valid_formatb fmt' = true ->
  length (fordering fmt') = length (Storage.dims t) ->
  (length (levels t) < fuel)%nat -> (length (fmodes fmt') <= fuel)%nat ->
  exists t',
    G.to_format Z 0 Z.add Z.eqb fuel (Z.of_nat (length (ordering t))) (map gmode (levels t)) (Storage.dims t)
      (map Z.of_nat (ordering t)) (indices_of (levels t)) (vals t) (gfmt fmt') = Val (stored t')
    /\ (forall c v, In (c, v) (to_dok_spec t') <-> In (c, v) (to_dok_spec t))
    /\ NoDup (map fst (to_dok_spec t'))
    /\ format_of t' = fmt' /\ Storage.dims t' = Storage.dims t /\ wf_tensorb true t' = true.
Proof. exact gen_to_format_preserves. Qed.
Print Assumptions TIE_tensorbuild_to_format_preserves.
