(** C15 -- generated code is a pure function of the request; caching is invisible.

    Models: model/Desugar.v (desugar_assignment, index_dimensions), model/Problem.v (Problem
    equality / hash, make_problem, the lru cache of cachable_tensor_method), model/ExprAst.v.
    Inside Coq every model function is a function; what the theorems add is (1) independence
    from the one source of run-to-run variation the code has -- the iteration order of Python
    sets, modelled as arbitrary permutations [ord], [ordi] that may differ at every place --,
    (2) that the cache key identifies the problem exactly, and (3) that the cache protocol hands
    out, for every history, a method built for exactly the requested problem.
    Byte-identity of the generated text across processes / hash seeds / request orders / CLI is
    carried by the correspondence in tools/props/C15.py.  Statements only. *)

From Coq Require Import String List ZArith Bool Permutation.
From TV Require Import model.ExprAst model.Problem model.Desugar.
From TV Require Import proofs.DesugarOrder proofs.ProblemSpec.
Import ListNotations.

(** For any two iteration orders of every set involved, desugar_assignment gives the same
    target and right-hand sides that are equal up to [cequiv]: the least congruence exchanging
    two directly nested Contract nodes (same tensors, same ids, same operators, same sets of
    contracted indexes at the same places). *)
Theorem C15_desugar_order_independent :
  forall ord ord' ordi ordi',
    (forall pth l, Permutation (ord pth l) l) -> (forall pth l, Permutation (ord' pth l) l) ->
    (forall s pth l, Permutation (ordi s pth l) l) -> (forall s pth l, Permutation (ordi' s pth l) l) ->
  forall a,
    d_target (desugar_assignment ord ordi a) = d_target (desugar_assignment ord' ordi' a) /\
    cequiv (d_expr (desugar_assignment ord ordi a)) (d_expr (desugar_assignment ord' ordi' a)).
Proof. exact desugar_order_independent. Qed.
Print Assumptions C15_desugar_order_independent.

(** The sum-of-products expansion used when a product is distributed is never empty, so the
    model's value for an empty sum (Python's [None]) is unreachable. *)
Theorem C15_expansion_nonempty : forall e, additive_terms e <> [].
Proof. exact additive_terms_nonempty. Qed.
Print Assumptions C15_expansion_nonempty.

(** index_dimensions (which tensor dimension a kernel reads each index size from) looks
    through Contract nodes: it cannot see their nesting order. *)
Theorem C15_index_dimensions_ignores_contract_order :
  forall a b,
    d_target a = d_target b /\ cequiv (d_expr a) (d_expr b) ->
    index_dimensions a = index_dimensions b.
Proof. exact index_dimensions_ignores_contract_order. Qed.
Print Assumptions C15_index_dimensions_ignores_contract_order.

(** the executable comparison used to tie Python's desugared trees to the model is sound *)
Theorem C15_tree_comparison_sound :
  forall a b, dassignment_equivb a b = true ->
    cequiv (d_target a) (d_target b) /\ cequiv (d_expr a) (d_expr b).
Proof. exact dassignment_equivb_sound. Qed.
Print Assumptions C15_tree_comparison_sound.

(** Problem.__eq__ (assignment equality and equality of the ORDERED format item lists) holds
    exactly for identical problems. *)
Theorem C15_problem_eqb_spec : forall p q, problem_eqb p q = true <-> p = q.
Proof. exact problem_eqb_spec. Qed.
Print Assumptions C15_problem_eqb_spec.

(** Problem.__hash__ hashes a tuple that equal problems share, and that determines the problem. *)
Theorem C15_hash_compatible :
  (forall p q, problem_eqb p q = true -> hash_key p = hash_key q) /\
  (forall p q, hash_key p = hash_key q -> p = q).
Proof. exact (conj hash_compatible hash_key_injective). Qed.
Print Assumptions C15_hash_compatible.

(** make_problem: formats reordered to output-then-first-appearance, missing ones all-dense of
    the tensor's order, given ones kept, an unused name refused (the first in the order given),
    nothing else refused when the given orders are right. *)
Theorem C15_make_problem_spec :
  forall a fs,
  (forall p, make_problem a fs = Ok p ->
     p_assignment p = a /\
     akeys (p_formats p) = t_name (a_target a) :: sdedup (map t_name (occurrences (a_expr a))) /\
     (forall n f, In (n, f) (p_formats p) ->
        aget n fs = Some f \/
        (aget n fs = None /\ exists o, In (n, o) (variable_orders a) /\ f = dense_format o)) /\
     incl (akeys fs) (akeys (variable_orders a)) /\
     problem_post_init a (p_formats p) = Ok tt) /\
  (forall n, make_problem a fs = Error (EUnusedFormat n) <->
     first_unused (akeys fs) (variable_orders a) = Some n) /\
  ((exists n, In n (akeys fs) /\ ~ In n (akeys (variable_orders a))) ->
     exists n, make_problem a fs = Error (EUnusedFormat n) /\
               In n (akeys fs) /\ ~ In n (akeys (variable_orders a))) /\
  (NoDup (akeys (variable_orders a)) ->
   incl (akeys fs) (akeys (variable_orders a)) ->
   (forall n f o, aget n fs = Some f -> In (n, o) (variable_orders a) -> f_order f = o) ->
   exists p, make_problem a fs = Ok p).
Proof. exact make_problem_spec. Qed.
Print Assumptions C15_make_problem_spec.

(** The kernel cache, for every history of requests and cache_clear() calls, any cache size and
    any compile function: the method handed out for a request holds exactly the kernel a fresh
    compilation of that request gives, and two requests are handed the same method object only
    if they are the same problem and backend. *)
Theorem C15_cache_transparent :
  forall (compiled : Type) (compile : problem -> backend -> compiled) maxsize ops,
    let out := run compiled compile maxsize ops (empty_state compiled) in
    (forall k m, In (k, m) out -> tm_kernel compiled m = compile (fst k) (snd k)) /\
    (forall k1 m1 k2 m2, In (k1, m1) out -> In (k2, m2) out ->
       tm_serial compiled m1 = tm_serial compiled m2 -> k1 = k2).
Proof. exact cache_transparent. Qed.
Print Assumptions C15_cache_transparent.
