(** TIE (validate) -- the argument validation of kernel calls, regenerated on every run from
    src/tensora/compile/_tensor_method.py (gen/TensorMethod.v: TensorMethod_init, TensorMethod_call),
    is the hand model model/Validate.v of property C10.  Statements only; proofs in
    proofs/GenValidate_equiv.v; notes in design.d/TIE_validate.md.

    [ord_set] / [ord_part]: the iteration orders of Python's sets (of index names / of participants),
    any permutations.  [lift_*]: a value of the model written as a value of the generated types
    (nat -> Z).  [conv_res]: [Ret a] is [Ok a], [Raise (PyExc class site values)] is the model's error of
    that class and raise site with the argument name taken from the rendered message values.
    [canon]: the model's internal errors (KeyError / IndexError no real call reaches) are one kind. *)

From Coq Require Import ZArith List Bool String Permutation.
From TV Require Import spec.Num spec.PyLib.
From TV Require gen.Deparse gen.TensorMethod model.ExprAst model.Problem model.Validate proofs.ValidateMain.
From TV Require Import proofs.GenValidate_equiv.
Import ListNotations.

(** The regenerated decision of [__call__] (everything between [signature.bind] and the allocation of
    the output) is [check_arguments; check_indexes; output_dimensions] of the model: same accept /
    refuse, same output dimensions, same first error -- for every expression, target, formats,
    bound-arguments dict (also ones [bind] never returns) and every object whose stored problem and
    input formats are those of the problem. *)
Theorem TIE_validate_call_equiv :
  forall (ord_set : list string -> list string) (ord_part : list (string * Z) -> list (string * Z)),
    (forall l, Permutation (ord_set l) l) -> (forall l, Permutation (ord_part l) l) ->
  forall (fid : F -> Z) tn tidx (e : GD.ex_expr) (fs : list (string * MP.format))
         (self : GT.TensorMethod) (bound : list (string * MV.argument)),
    GT.TensorMethod__problem self = gproblem tn tidx e fs ->
    GT.TensorMethod__input_formats self = lift_formats (MV.input_formats (mproblem fid tn tidx e fs)) ->
    conv_res (GT.TensorMethod_call ord_set ord_part self (lift_bound bound))
    = canon (decide ord_set ord_part (mproblem fid tn tidx e fs) bound).
Proof. exact gen_call_equiv. Qed.
Print Assumptions TIE_validate_call_equiv.

(** The regenerated [__init__] (before code generation) is [tm_init]: it refuses with
    BroadcastTargetIndexError of the same index, or (never for a Problem that exists) with the KeyError
    of the missing output format; otherwise the object it makes holds the problem, the output name, the
    input formats in the order of [problem.formats], and a keyword-only signature of the input names. *)
Theorem TIE_validate_init_equiv :
  forall (ord_set : list string -> list string) (fid : F -> Z) tn tidx (e : GD.ex_expr)
         (fs : list (string * MP.format)),
    match GT.TensorMethod_init ord_set (gproblem tn tidx e fs) with
    | GT.Ret self =>
        MV.tm_init (m_ord ord_set) (mproblem fid tn tidx e fs) = EA.Ok tt /\
        exists f, EA.aget tn fs = Some f /\ self = self_of fid tn tidx e fs f
    | GT.Raise ex =>
        exists err, MV.tm_init (m_ord ord_set) (mproblem fid tn tidx e fs) = EA.Error err /\
                    canon_err err = conv_exc_init ex
    end.
Proof. exact gen_init_equiv. Qed.
Print Assumptions TIE_validate_init_equiv.

(** [bind] on the regenerated signature followed by the regenerated decision is [Validate.validate]. *)
Theorem TIE_validate_equiv :
  forall (ord_set : list string -> list string) (ord_part : list (string * Z) -> list (string * Z)),
    (forall l, Permutation (ord_set l) l) -> (forall l, Permutation (ord_part l) l) ->
  forall (fid : F -> Z) tn tidx (e : GD.ex_expr) (fs : list (string * MP.format))
         (self : GT.TensorMethod) (c : MV.call_args),
    GT.TensorMethod_init ord_set (gproblem tn tidx e fs) = GT.Ret self ->
    gen_validate ord_set ord_part self c
    = canon (MV.validate (m_ord ord_set) (m_ordp ord_part) (mproblem fid tn tidx e fs) c).
Proof. exact gen_validate_equiv. Qed.
Print Assumptions TIE_validate_equiv.

(** C10_validate_ok_implies_consistent on the regenerated functions: what the source accepts is a
    consistent call (exact keyword names, formats as generated for, one size per index variable in
    every occurrence, output dimensions from those sizes). *)
Theorem TIE_validate_ok_implies_consistent_gen :
  forall (ord_set : list string -> list string) (ord_part : list (string * Z) -> list (string * Z)),
    (forall l, Permutation (ord_set l) l) -> (forall l, Permutation (ord_part l) l) ->
  forall (fid : F -> Z) tn tidx (e : GD.ex_expr) (fs : list (string * MP.format))
         (self : GT.TensorMethod) (c : MV.call_args) (dims : list Z),
    GT.TensorMethod_init ord_set (gproblem tn tidx e fs) = GT.Ret self ->
    gen_validate ord_set ord_part self c = EA.Ok dims ->
    VM.consistent (mproblem fid tn tidx e fs) c dims.
Proof. exact gen_validate_ok_implies_consistent. Qed.
Print Assumptions TIE_validate_ok_implies_consistent_gen.

(** C10_validate_complete on the regenerated functions: every consistent call is accepted. *)
Theorem TIE_validate_complete_gen :
  forall (ord_set : list string -> list string) (ord_part : list (string * Z) -> list (string * Z)),
    (forall l, Permutation (ord_set l) l) -> (forall l, Permutation (ord_part l) l) ->
  forall (fid : F -> Z) tn tidx (e : GD.ex_expr) (fs : list (string * MP.format))
         (self : GT.TensorMethod) (c : MV.call_args) (dims : list Z),
    GT.TensorMethod_init ord_set (gproblem tn tidx e fs) = GT.Ret self ->
    VM.consistent (mproblem fid tn tidx e fs) c dims ->
    gen_validate ord_set ord_part self c = EA.Ok dims.
Proof. exact gen_validate_complete. Qed.
Print Assumptions TIE_validate_complete_gen.

(** Every refusal of the regenerated [__call__] is the model's refusal of the same kind. *)
Theorem TIE_validate_refusal_gen :
  forall (ord_set : list string -> list string) (ord_part : list (string * Z) -> list (string * Z)),
    (forall l, Permutation (ord_set l) l) -> (forall l, Permutation (ord_part l) l) ->
  forall (fid : F -> Z) tn tidx (e : GD.ex_expr) (fs : list (string * MP.format))
         (self : GT.TensorMethod) (c : MV.call_args) (err : EA.error),
    GT.TensorMethod_init ord_set (gproblem tn tidx e fs) = GT.Ret self ->
    gen_validate ord_set ord_part self c = EA.Error err ->
    exists err', MV.validate (m_ord ord_set) (m_ordp ord_part) (mproblem fid tn tidx e fs) c = EA.Error err' /\
                 err = canon_err err'.
Proof. exact gen_validate_refusal. Qed.
Print Assumptions TIE_validate_refusal_gen.
