(** C08 - kernel generation is total: code, or one of the documented refusals.
    Statements only; proofs are in proofs/{Graphs*,OutputOrder*,Names*}.v, models in
    model/{Graphs,OutputOrder,Names}.v.

    "never hangs" for the enumeration is the fact that model/Graphs.v is accepted by Coq:
    structural recursion on the pair of graphs (merge_add / merge_multiply / merge_assignment),
    on the length of a group (permutations), and fuel [S height] for simplify_add, which
    [C08_simplify_add_fuel_sufficient] shows is never exhausted. *)
From Coq Require Import List String Bool Arith Permutation.
From TV Require Import model.Graphs model.OutputOrder model.Names.
From TV Require Import proofs.GraphsOrders proofs.GraphsSimplify proofs.OutputOrderFacts
  proofs.OutputOrderWalk proofs.NamesInj.
Import ListNotations.
Open Scope string_scope.

(** *** 1. outcomes of generate_code / generate_module_tensora

    FULL statement (what the property asks).  It is refuted on today's tree
    (findings/K_C08_1.v: C08_generate_total_refuted). *)
Definition C08_generate_outcomes_typed_full : Prop :=
  forall a fs ks, wf_problem a fs = true ->
    generate a fs ks = Code \/ generate a fs ks = Diagonal \/ generate a fs ks = NoKernel.

(** Proved: the only internal error that can escape is the NotImplementedError of
    AppendOutput.next_output.  In particular the RuntimeError of AppendOutput.write_assignment
    ([InternalWriteAssignment]) and every failing lookup ([IllFormed]) are unreachable.
    Gap to the full statement: the disjunct [InternalAppendNextOutput]; it is characterised exactly
    by theorem 2 and removed by the repair of theorem 3. *)
Theorem C08_generate_outcomes_typed_partial : forall a fs ks,
  wf_problem a fs = true ->
  generate a fs ks = Code \/ generate a fs ks = Diagonal \/ generate a fs ks = NoKernel
  \/ generate a fs ks = InternalAppendNextOutput.
Proof. exact generate_outcomes_typed_partial. Qed.
Print Assumptions C08_generate_outcomes_typed_partial.

(** non-trivial instances of the hypothesis, one per outcome class *)
Definition ex_matvec := mkDA (mkDT 0 "a" ["i"]) (DContract "j" (DMultiply (DTensor (mkDT 1 "B" ["i"; "j"])) (DTensor (mkDT 2 "c" ["j"])))).
Definition ex_matvec_fs := [("a", mkFormat [Compressed] [0]); ("B", mkFormat [Dense; Compressed] [0; 1]); ("c", mkFormat [Dense] [0])].
Example C08_ex_wf_code : wf_problem ex_matvec ex_matvec_fs = true /\ generate ex_matvec ex_matvec_fs [Assemble; Compute; Evaluate] = Code.
Proof. vm_compute. split; reflexivity. Qed.
Definition ex_csc_fs := [("a", mkFormat [Compressed] [0]); ("B", mkFormat [Dense; Compressed] [1; 0]); ("c", mkFormat [Dense] [0])].
Example C08_ex_wf_nokernel : wf_problem ex_matvec ex_csc_fs = true /\ generate ex_matvec ex_csc_fs [Evaluate] = NoKernel.
Proof. vm_compute. split; reflexivity. Qed.
Definition ex_diag := mkDA (mkDT 0 "a" ["i"]) (DTensor (mkDT 1 "B" ["i"; "i"])).
Definition ex_diag_fs := [("a", mkFormat [Dense] [0]); ("B", mkFormat [Dense; Compressed] [0; 1])].
Example C08_ex_wf_diagonal : wf_problem ex_diag ex_diag_fs = true /\ generate ex_diag ex_diag_fs [Compute] = Diagonal.
Proof. vm_compute. split; reflexivity. Qed.

(** *** 2. exactly when the internal error occurs: the first yielded graph visits, while all output
    layers so far were visited in storage order, a node that is not the next output layer (a
    contraction node, a later output layer, or a SumNode) although a compressed output layer is
    still to come ([bad_from] in model/OutputOrder.v), and at least one kernel type is requested. *)
Theorem C08_internal_iff_first_graph_bad : forall a fs ks,
  generate a fs ks = InternalAppendNextOutput <-> first_graph_bad a fs ks = true.
Proof. exact internal_iff_first_graph_bad. Qed.
Print Assumptions C08_internal_iff_first_graph_bad.

(** *** 3. the candidate repair (use the first graph that is not bad) makes generation total *)
Theorem C08_generate_filtered_total : forall a fs ks,
  wf_problem a fs = true ->
  generate_filtered a fs ks = Code \/ generate_filtered a fs ks = Diagonal
  \/ generate_filtered a fs ks = NoKernel.
Proof. exact generate_filtered_total. Qed.
Print Assumptions C08_generate_filtered_total.

(** the purely structural repair (skip iteration orders of the target that the output builder cannot
    append; it ignores that a node whose body is never entered cannot raise) is total as well *)
Theorem C08_generate_filtered_struct_total : forall a fs ks,
  wf_problem a fs = true ->
  generate_filtered_struct a fs ks = Code \/ generate_filtered_struct a fs ks = Diagonal
  \/ generate_filtered_struct a fs ks = NoKernel.
Proof. exact generate_filtered_struct_total. Qed.
Print Assumptions C08_generate_filtered_struct_total.

(** *** 4. RuntimeError of write_assignment: unreachable for every graph of the enumeration *)
Theorem C08_write_assignment_unreachable : forall a fs gs modes g ks,
  to_iteration_graphs a fs = ROk gs -> output_modes a fs = Some modes -> In g gs ->
  generate_all modes g ks <> WFail FWriteAssignment.
Proof. exact write_assignment_unreachable. Qed.
Print Assumptions C08_write_assignment_unreachable.

(** *** 5. callable kernels: the same, or the documented broadcast refusal *)
Definition C08_tensor_method_outcomes_typed_full : Prop :=
  forall a fs, wf_problem a fs = true ->
    tensor_method a fs = Code \/ tensor_method a fs = Diagonal \/ tensor_method a fs = NoKernel
    \/ tensor_method a fs = BroadcastTarget.

Theorem C08_tensor_method_outcomes_typed_partial : forall a fs,
  wf_problem a fs = true ->
  (tensor_method a fs = Code \/ tensor_method a fs = Diagonal \/ tensor_method a fs = NoKernel
   \/ tensor_method a fs = InternalAppendNextOutput)
  \/ tensor_method a fs = BroadcastTarget.
Proof. exact tensor_method_outcomes_typed_partial. Qed.
Print Assumptions C08_tensor_method_outcomes_typed_partial.

Definition ex_bcast := mkDA (mkDT 0 "A" ["i"; "j"]) (DTensor (mkDT 1 "b" ["i"])).
Definition ex_bcast_fs := [("A", mkFormat [Dense; Compressed] [0; 1]); ("b", mkFormat [Compressed] [0])].
Example C08_ex_wf_broadcast : wf_problem ex_bcast ex_bcast_fs = true
  /\ tensor_method ex_bcast ex_bcast_fs = BroadcastTarget /\ generate ex_bcast ex_bcast_fs [Evaluate] = Code.
Proof. vm_compute. repeat split; reflexivity. Qed.

(** *** 6. termination of the enumeration *)
Theorem C08_simplify_add_fuel_sufficient : forall name ts, simplify_add_opt name ts <> None.
Proof. exact simplify_add_opt_total. Qed.
Print Assumptions C08_simplify_add_fuel_sufficient.

Theorem C08_legal_iteration_orders_are_permutations : forall f o,
  In o (legal_iteration_orders f) -> Permutation (seq 0 (List.length (f_modes f))) o.
Proof. exact legal_orders_perm. Qed.
Print Assumptions C08_legal_iteration_orders_are_permutations.

(** *** 7. generated variable names (iteration_graph/_names.py): for identifiers matching
    [A-Za-z][A-Za-z0-9]* the eleven name functions are jointly injective, and no generated name
    is itself a legal identifier (each contains '_'), so it differs from every tensor / index name.
    The two names of outputs/_bucket.py are NOT covered: with them injectivity fails
    (findings/K_C08_3.v). *)
Theorem C08_names_injective : forall g1 g2,
  identb (gname_ident g1) = true -> identb (gname_ident g2) = true ->
  render g1 = render g2 -> g1 = g2.
Proof. exact names_injective. Qed.
Print Assumptions C08_names_injective.

Example C08_ex_names : identb "B" = true /\ identb "pos" = true /\ identb "x0Y" = true
  /\ identb "a_b" = false /\ identb "0a" = false /\ identb "" = false
  /\ render (NPos "B" 10) = "B_10_pos" /\ render (NSparseEnd 3 "B" 1) = "p_3_B_1_end".
Proof. vm_compute. repeat split; reflexivity. Qed.

Theorem C08_names_not_identifiers : forall g x, identb x = true -> render g <> x.
Proof. exact names_not_identifiers. Qed.
Print Assumptions C08_names_not_identifiers.

(** *** 8. the functions evaluated by the correspondence harness are the model's *)
Theorem C08_harness_entry_points_are_the_model : forall a fs ks,
  generate_r a fs (to_iteration_graphs a fs) ks = generate a fs ks
  /\ tensor_method_r a fs (to_iteration_graphs a fs) = tensor_method a fs
  /\ generate_r a fs (filter_good_r a fs (to_iteration_graphs a fs)) ks = generate_filtered a fs ks.
Proof.
  exact (fun a fs ks => conj (generate_r_spec a fs ks)
                             (conj (tensor_method_r_spec a fs) (generate_filtered_r_spec a fs ks))).
Qed.
Print Assumptions C08_harness_entry_points_are_the_model.
