From Coq Require Import List String Bool Arith.
From TV Require Import model.Graphs model.OutputOrder proofs.OutputOrderFacts.
Import ListNotations.
Theorem C08_harness_entry_points_are_the_model : forall a fs ks,
  generate_r a fs (to_iteration_graphs a fs) ks = generate a fs ks
  /\ tensor_method_r a fs (to_iteration_graphs a fs) = tensor_method a fs.
Proof. exact (fun a fs ks => conj (generate_r_spec a fs ks) (tensor_method_r_spec a fs)). Qed.
Print Assumptions C08_harness_entry_points_are_the_model.
