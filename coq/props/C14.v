(* C14 — concurrent evaluations behave like sequential ones.
   Statements about the protocol model model/Concurrency.v: for EVERY schedule (list of "thread i makes
   its next atomic step" / "the LRU cache evicts key k"), every number of threads, every programme of calls
   per thread (same or different requests, cached or never seen, llvm or cffi back end) and every meaning
   [denote] of compiled kernels.
   PARTIAL with respect to the running system: the atomicity of the modelled steps (the GIL, the C
   implementation of lru_cache, WeakKeyDictionary, llvmlite's own lock, MCJIT, dlopen) is an assumption of
   the model; the stress run of tools/props/C14.py is evidence for it, not proof. *)
From Coq Require Import List Arith PeanoNat.
From TV Require Import model.Concurrency proofs.ConcurrencyThm.
Import ListNotations.

(* Once every thread has returned from all its calls, each thread has obtained exactly the results the
   same calls return when that thread runs alone from an empty cache. *)
Theorem C14_interleaving_equals_sequential :
  forall (denote : key -> nat -> nat) (progs : list (list call)) (sched : list action),
  complete (run denote progs sched) = true ->
  forall i, i < length progs ->
  results (run denote progs sched) i = sequential_result denote progs i.
Proof. exact interleaving_equals_sequential. Qed.
Print Assumptions C14_interleaving_equals_sequential.

(* What "alone" means: the sequential result of thread i is the list of its own requests' kernels applied
   to its own inputs. *)
Theorem C14_sequential_result_spec :
  forall (denote : key -> nat -> nat) (progs : list (list call)) i, i < length progs ->
  sequential_result denote progs i = map (fun c => denote (c_key c) (c_input c)) (nth i progs []).
Proof. exact sequential_result_spec. Qed.
Print Assumptions C14_sequential_result_spec.

(* At every moment of every schedule no thread has raised, and what it has returned so far is a prefix of
   its sequential result (no result is ever corrupted or swapped, also in incomplete runs). *)
Theorem C14_no_error_and_prefix :
  forall (denote : key -> nat -> nat) (progs : list (list call)) (sched : list action) i, i < length progs ->
  let t := threads (run denote progs sched) i in
  (t_calls t <> [] -> t_pc t <> PError) /\
  exists rest, sequential_result denote progs i = t_results t ++ rest.
Proof. exact no_error_and_prefix. Qed.
Print Assumptions C14_no_error_and_prefix.

(* cache_sound: whichever of several racing misses inserted it, the entry for key k computes k's kernel. *)
Theorem C14_cache_sound :
  forall (denote : key -> nat -> nat) (progs : list (list call)) (sched : list action) k m,
  In (k, m) (cache (run denote progs sched)) -> forall x, exec denote m x = denote k x.
Proof. exact cache_sound. Qed.
Print Assumptions C14_cache_sound.

(* The kernel a thread calls is the kernel of its own request (kernels are never mixed up). *)
Theorem C14_method_matches_request :
  forall (denote : key -> nat -> nat) (progs : list (list call)) (sched : list action) i c rest m,
  i < length progs ->
  let t := threads (run denote progs sched) i in
  t_calls t = c :: rest -> t_method t = Some m ->
  (t_pc t = PAlloc \/ t_pc t = PRun \/ t_pc t = POwn \/ t_pc t = PReturn) ->
  forall x, exec denote m x = denote (c_key c) x.
Proof. exact method_matches_request. Qed.
Print Assumptions C14_method_matches_request.

(* At most one thread is inside FFI.compile (between acquiring and releasing the module lock). *)
Theorem C14_lock_mutual_exclusion :
  forall (denote : key -> nat -> nat) (progs : list (list call)) (sched : list action) i j,
  i < length progs -> j < length progs ->
  in_critical_section (threads (run denote progs sched) i) = true ->
  in_critical_section (threads (run denote progs sched) j) = true ->
  i = j.
Proof. exact lock_mutual_exclusion. Qed.
Print Assumptions C14_lock_mutual_exclusion.

(* Threads touch disjoint keys of the shared ownership table: the output structure a call is working on is
   registered under that call's thread, and no other thread is working on it. *)
Theorem C14_table_disjoint :
  forall (denote : key -> nat -> nat) (progs : list (list call)) (sched : list action) i j s,
  i < length progs -> j < length progs ->
  active_sid (threads (run denote progs sched) i) = Some s ->
  active_sid (threads (run denote progs sched) j) = Some s ->
  i = j /\ lookup s (table (run denote progs sched)) = Some i.
Proof. exact table_disjoint. Qed.
Print Assumptions C14_table_disjoint.

(* The lock never deadlocks: while some thread has calls left, some thread can make a step that is not a
   wait (so every fair schedule completes). *)
Theorem C14_no_deadlock :
  forall (denote : key -> nat -> nat) (progs : list (list call)) (sched : list action),
  complete (run denote progs sched) = false ->
  exists i, i < length progs /\ enabled (run denote progs sched) i = true.
Proof. exact no_deadlock. Qed.
Print Assumptions C14_no_deadlock.
