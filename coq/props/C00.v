From TV Require Import spec.Storage.
From Coq Require Import ZArith List. Import ListNotations.
Theorem C00_demo : forall n : nat, (n + 0 = n)%nat.
Proof. intros; apply Nat.add_0_r. Qed.
Print Assumptions C00_demo.
