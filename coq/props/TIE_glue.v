(** TIE (glue) -- the small functions between the desugared assignment and the kernel generator, regenerated on every
    run from src/tensora/desugar/_to_identifiable.py, _index_dimensions.py, _best_algorithm.py, kernel_type.py,
    iteration_graph/_definition.py, generate/_tensora.py, generate/_base.py and cli.py (gen/GlueGen.v), are the
    specifications of model/Glue.v and the hand models model/Graphs.v ([identify], [best_of]) and model/OutputOrder.v
    ([is_assemble], [is_compute]).  Statements only; proofs in proofs/GenGlue_equiv.v; notes in design.d/TIE_glue.md.

    [up_dexpr fval] / [up_assign fval] / [up_formats] / [up_tref] / [up_graph fval] (proofs/GenGraphs_base.v): a value of
    model/Graphs.v written in the regenerated types (ids as "n_name", nat -> Z, float literals through an arbitrary
    [fval]).  [pres]: [POk x] = returned, [PRaise cls] = an exception of class [cls] escaped.  A [Result] is a sum:
    [inl] = Success, [inr cls] = Failure of an exception of class [cls]. *)

From Coq Require Import ZArith List Bool String.
From TV Require Import spec.Num spec.PyLib model.GraphsIter.
From TV Require Import gen.ExhaustAst gen.Deparse gen.Desugar gen.IterGraphs gen.IRAst gen.Peephole gen.GlueGen.
From TV Require model.Graphs model.OutputOrder model.Glue gen.AppendGen.
From TV Require Import proofs.GenGraphs_base proofs.GenGraphs_equiv proofs.GenGlue_equiv.
Import ListNotations.

(** (a) [to_identifiable] is [M.identify] (C08's enumeration uses it), with the class of each refusal. *)
Theorem TIE_glue_to_identifiable_equiv : forall (fval : string -> F) t fs,
  to_identifiable (up_dexpr fval (M.DTensor t)) (up_formats fs) =
  match M.lookup (M.d_name t) fs with
  | None => PRaise "KeyError"
  | Some f =>
      match M.permute_indexes (M.d_indexes t) (M.f_ordering f) with
      | None => PRaise "IndexError"
      | Some ivs => POk (up_tref (M.mkT (M.d_id t) (M.d_name t) ivs (M.f_modes f)))
      end
  end.
Proof. exact gen_to_identifiable_equiv. Qed.
Print Assumptions TIE_glue_to_identifiable_equiv.

Theorem TIE_glue_to_identifiable_identify : forall (fval : string -> F) t fs,
  match M.identify t fs with
  | Some tr => to_identifiable (up_dexpr fval (M.DTensor t)) (up_formats fs) = POk (up_tref tr)
  | None => exists e, to_identifiable (up_dexpr fval (M.DTensor t)) (up_formats fs) = PRaise e
  end.
Proof. exact gen_to_identifiable_identify. Qed.
Print Assumptions TIE_glue_to_identifiable_identify.

(** What the abstract kernel model G (model/Kernel.v [kcfg]: k_oidx / k_omodes / k_oord, built by
    tools/props/_c01_kernel.py from this function's result) is told: one index per output LEVEL, level [l] gets
    [indexes[ordering[l]]] ([level_index]; not the inverse permutation), i.e.
    [ivs = map (fun d => nth d indexes "") ordering] -- the hypothesis of proofs/KernelBucket.v's theorems. *)
Theorem TIE_glue_to_identifiable_levels : forall (fval : string -> F) t fs id name ivs modes,
  to_identifiable (up_dexpr fval (M.DTensor t)) (up_formats fs) = POk (IdTensor id name ivs modes) ->
  exists f, M.lookup (M.d_name t) fs = Some f
    /\ id = (show_Z (Z.of_nat (M.d_id t)) ++ "_" ++ M.d_name t)%string /\ name = M.d_name t
    /\ modes = map up_mode (M.f_modes f)
    /\ List.length ivs = List.length (M.f_ordering f)
    /\ (forall l, (l < List.length (M.f_ordering f))%nat ->
          nth_error ivs l = G.level_index (M.d_indexes t) (M.f_ordering f) l)
    /\ ivs = map (fun d => nth d (M.d_indexes t) EmptyString) (M.f_ordering f)
    /\ G.output_description_of t fs = Some (G.mkOD ivs (M.f_modes f) (M.f_ordering f)).
Proof. exact gen_to_identifiable_levels. Qed.
Print Assumptions TIE_glue_to_identifiable_levels.

(** (b) [index_dimensions]: for every index the FIRST occurrence decides -- the target's occurrences first, then
    the tensor leaves of the right-hand side from left to right; same entries in the same order as the
    specification [G.index_dims]. *)
Theorem TIE_glue_index_dimensions_equiv : forall (fval : string -> F) a,
  index_dimensions (up_assign fval a) = map up_td (G.index_dims a).
Proof. exact gen_index_dimensions_equiv. Qed.
Print Assumptions TIE_glue_index_dimensions_equiv.

Theorem TIE_glue_index_dimensions_first : forall (fval : string -> F) a i,
  dict_get String.eqb i (index_dimensions (up_assign fval a))
  = option_map td_of (dict_get String.eqb i (G.assign_occs a)).
Proof. exact gen_index_dimensions_first. Qed.
Print Assumptions TIE_glue_index_dimensions_first.

(** the target decides: an index of the target is sized by a dimension OF THE TARGET *)
Theorem TIE_glue_index_dimensions_target_index : forall (fval : string -> F) a i,
  In i (M.d_indexes (M.a_target a)) ->
  exists p, nth_error (M.d_indexes (M.a_target a)) p = Some i
    /\ dict_get String.eqb i (index_dimensions (up_assign fval a))
       = Some (MkTensorDimension (M.d_name (M.a_target a)) (Z.of_nat p)).
Proof. exact gen_index_dimensions_target_index. Qed.
Print Assumptions TIE_glue_index_dimensions_target_index.

(** index sizes (spec/Spec.v [sizes], C10's validation): when all occurrences of every index agree on its size
    ([G.consistent]: what TensorMethod.__call__ checks for the inputs -- "the first participant is the reference,
    the others must equal it" -- and how it allocates the output), the dimension the kernel reads for index [i]
    has size [sizes i], whichever occurrence decides. *)
Theorem TIE_glue_index_dimensions_sizes : forall (fval : string -> F) a dims sizes,
  G.consistent dims sizes (G.assign_occs a) ->
  forall i name k,
    dict_get String.eqb i (index_dimensions (up_assign fval a)) = Some (MkTensorDimension name k) ->
    exists p, k = Z.of_nat p /\ nth_error (dims name) p = Some (sizes i).
Proof. exact gen_index_dimensions_sizes. Qed.
Print Assumptions TIE_glue_index_dimensions_sizes.

(** [best_algorithm]: the first graph of the enumeration, NoKernelFoundError when there is none,
    DiagonalAccessError caught into a Failure, every other exception escapes; against model/Graphs.v [best_of]
    over today's enumeration ([to_iteration_graphs_src], TIE graphs). *)
Theorem TIE_glue_best_algorithm_first : forall a fs,
  best_algorithm a fs = first_or_refusal (to_iteration_graphs a fs).
Proof. exact gen_best_algorithm_first. Qed.
Print Assumptions TIE_glue_best_algorithm_first.

Theorem TIE_glue_best_algorithm_equiv : forall fval a fs,
  target_fmt_ok a fs = true ->
  match M.best_of (to_iteration_graphs_src a fs) with
  | M.BGraph g => best_algorithm (up_assign fval a) (up_formats fs) = POk (inl (up_graph fval g))
  | M.BNoKernel => best_algorithm (up_assign fval a) (up_formats fs) = POk (inr "NoKernelFoundError"%string)
  | M.BDiagonal => best_algorithm (up_assign fval a) (up_formats fs) = POk (inr "DiagonalAccessError"%string)
  | M.BIllFormed => exists e, best_algorithm (up_assign fval a) (up_formats fs) = PRaise e
  end.
Proof. exact gen_best_algorithm_equiv. Qed.
Print Assumptions TIE_glue_best_algorithm_equiv.

(** (d) KernelType: the truth table, and agreement with model/OutputOrder.v's [kind] and with the copy of the
    class regenerated for the output builders (gen/AppendGen.v). *)
Theorem TIE_glue_kernel_type_truth_table :
  map (fun k => (KernelType_value k, KernelType_is_assemble k, KernelType_is_compute k)) KernelType_all
  = [("assemble", true, false); ("compute", false, true); ("evaluate", true, true)]%string.
Proof. exact gen_kernel_type_truth_table. Qed.
Print Assumptions TIE_glue_kernel_type_truth_table.

Theorem TIE_glue_kernel_type_equiv : forall k,
  KernelType_is_assemble k = O.is_assemble (kind_of k) /\ KernelType_is_compute k = O.is_compute (kind_of k)
  /\ KernelType_is_assemble k = AG.KernelType_is_assemble (append_kind_of k)
  /\ KernelType_is_compute k = AG.KernelType_is_compute (append_kind_of k).
Proof. exact gen_kernel_type_equiv. Qed.
Print Assumptions TIE_glue_kernel_type_equiv.

(** (c) [generate_module_tensora]: ONE plan (definition, graph) is computed from the problem alone
    ([module_plan]: desugar, to_identifiable, index_dimensions, best_algorithm -- no kernel kind in sight), then
    [generate_ir definition graph] is MAPPED over the requested kinds in the order given, then peephole; a Failure
    is passed through.  For every IR generator, oracle and fuel. *)
Theorem TIE_glue_module_one_plan : forall ord fuel generate_ir p ks,
  generate_module_tensora ord fuel generate_ir p ks =
  r_bind (module_plan ord fuel p) (fun pl =>
    match pl with
    | inr e => POk (inr e)
    | inl (definition, graph) =>
        r_bind (r_map (generate_ir definition graph) ks) (fun fs => POk (inl (peephole (IRModule fs))))
    end).
Proof. exact gen_module_one_plan. Qed.
Print Assumptions TIE_glue_module_one_plan.

(** C04's anchor: every function of the module comes from the SAME definition and graph, one function per
    requested kind, in the order requested (nothing sorted, nothing de-duplicated). *)
Theorem TIE_glue_module_same_graph_for_all_kinds : forall ord fuel generate_ir p ks m,
  generate_module_tensora ord fuel generate_ir p ks = POk (inl m) ->
  exists definition graph fs,
    module_plan ord fuel p = POk (inl (definition, graph))
    /\ Forall2 (fun k f => generate_ir definition graph k = POk f) ks fs
    /\ m = IRModule (map peephole_function_definition fs).
Proof. exact gen_module_same_graph_for_all_kinds. Qed.
Print Assumptions TIE_glue_module_same_graph_for_all_kinds.

(** the premise of props/CERT_kinds.v: evaluate / assemble / compute of one request are
    [generate_ir definition graph] at the three kinds for one definition and one graph *)
Theorem TIE_glue_module_three_kinds : forall ord fuel generate_ir p fe fa fc,
  generate_module_tensora ord fuel generate_ir p [KernelType_evaluate; KernelType_assemble; KernelType_compute]
  = POk (inl (IRModule [fe; fa; fc])) ->
  exists definition graph fe' fa' fc',
    module_plan ord fuel p = POk (inl (definition, graph))
    /\ generate_ir definition graph KernelType_evaluate = POk fe' /\ fe = peephole_function_definition fe'
    /\ generate_ir definition graph KernelType_assemble = POk fa' /\ fa = peephole_function_definition fa'
    /\ generate_ir definition graph KernelType_compute = POk fc' /\ fc = peephole_function_definition fc'.
Proof. exact gen_module_three_kinds. Qed.
Print Assumptions TIE_glue_module_three_kinds.

Theorem TIE_glue_module_map : forall ord fuel (gir : IgDefinition -> ig_graph -> KernelType -> function_definition) p ks d g,
  module_plan ord fuel p = POk (inl (d, g)) ->
  generate_module_tensora ord fuel (fun d g k => POk (gir d g k)) p ks
  = POk (inl (IRModule (map (fun k => peephole_function_definition (gir d g k)) ks))).
Proof. exact gen_module_map. Qed.
Print Assumptions TIE_glue_module_map.

(** refusals do not depend on the kinds requested and can only come from the plan *)
Theorem TIE_glue_module_failure_independent_of_kinds : forall ord fuel generate_ir p ks e,
  module_plan ord fuel p = POk (inr e) -> generate_module_tensora ord fuel generate_ir p ks = POk (inr e).
Proof. exact gen_module_failure_independent_of_kinds. Qed.
Print Assumptions TIE_glue_module_failure_independent_of_kinds.

Theorem TIE_glue_module_failure_only_from_plan : forall ord fuel generate_ir p ks e,
  generate_module_tensora ord fuel generate_ir p ks = POk (inr e) -> module_plan ord fuel p = POk (inr e).
Proof. exact gen_module_failure_only_from_plan. Qed.
Print Assumptions TIE_glue_module_failure_only_from_plan.

(** C15 for this layer: besides (problem, kinds) and the IR generator, the module depends only on what the
    desugarer returned (its set-iteration oracle and fuel) *)
Theorem TIE_glue_module_depends_only_on_request : forall ord fuel ord' fuel' gir p ks,
  desugar_assignment ord fuel (Problem_assignment p) = desugar_assignment ord' fuel' (Problem_assignment p) ->
  generate_module_tensora ord fuel gir p ks = generate_module_tensora ord' fuel' gir p ks.
Proof. exact gen_module_depends_only_on_request. Qed.
Print Assumptions TIE_glue_module_depends_only_on_request.

(** [generate_code]: the language only selects the printer applied to the ONE module; a Failure is passed through *)
Theorem TIE_glue_generate_code_spec : forall gm c l p ks lang,
  generate_code gm c l p ks lang =
  r_bind (gm p ks) (fun r =>
    match r with
    | inr e => POk (inr e)
    | inl md => r_bind (match lang with Language_c => c md | Language_llvm => l md end) (fun s => POk (inl s))
    end).
Proof. exact gen_generate_code_spec. Qed.
Print Assumptions TIE_glue_generate_code_spec.

(** cli.py: the request that reaches [generate_code] -- formats in the order mentioned (a repeated tensor or an
    unparsable option ends the run), kinds EXACTLY as given (order and repetitions), language as given; everything
    else is [make_problem]'s (TIE problem: unmentioned tensors dense). *)
Theorem TIE_glue_cli_request : forall parse_assignment parse_named_format make_problem generate_code a pa strs tfs ks lang,
  parse_assignment a = inl pa ->
  map parse_named_format strs = map inl tfs -> NoDup (map fst tfs) ->
  cli_tensora parse_assignment parse_named_format make_problem generate_code a strs ks lang =
  r_bind (make_problem pa tfs) (fun mp =>
    match mp with
    | inr _ => PRaise "Exit(1)"
    | inl problem =>
        r_bind (generate_code problem ks lang) (fun c =>
        match c with inl code => POk code | inr _ => PRaise "Exit(1)" end)
    end).
Proof. exact gen_cli_request. Qed.
Print Assumptions TIE_glue_cli_request.

Theorem TIE_glue_cli_defaults :
  cli_default_kernel_types = [KernelType_compute] /\ cli_default_language = Language_c
  /\ cli_default_format_strings = []
  /\ cli_flags_kernel_types = ["--type"; "-t"]%string /\ cli_flags_language = ["--language"; "-l"]%string
  /\ cli_flags_target_format_strings = ["--format"; "-f"]%string.
Proof. exact gen_cli_defaults. Qed.
Print Assumptions TIE_glue_cli_defaults.
