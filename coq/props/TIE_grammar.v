(** TIE "grammar" -- the two parsita grammars of tensora, regenerated on every run as terms of the
    combinator embedding model/Parsita.v (gen/GrammarGen.v), interpreted by [Parsita.run], compute
    exactly what the hand models model/Parser.v and model/FormatParser.v (C12) compute, on EVERY
    input string.  Statements only; proofs in proofs/GenGrammar{Format,Expr}_equiv.v,
    proofs/GenGrammarRegex.v, proofs/ParsitaFacts.v; notes in design.d/TIE_grammar.md.

    [fl : dec -> F] is Python's float() on a float spelling (a function of the exact decimal value of
    the spelling); [post] is Assignment.__post_init__ (not translated: None = returns, Some cls =
    raises cls), required to be the model's [validate]. *)

From Coq Require Import ZArith NArith List Bool String Ascii.
From TV Require Import spec.Num model.Parser model.FormatParser model.Parsita spec.Grammar.
From TV Require gen.GrammarGen gen.Deparse.
From TV Require Import proofs.GenGrammarRegex proofs.GenGrammarFormat_equiv proofs.GenGrammarExpr_equiv
  proofs.GenGrammarRoundtrip.
Import ListNotations.

Module GG := TV.gen.GrammarGen.
Module GD := TV.gen.Deparse.

(* ------------------------------------------------------------------------------------------ *)
(** * format/_parser.py  =  model/FormatParser.v *)

Theorem TIE_grammar_format_equiv : forall s : string,
  GG.parse_format s = back_fres (FormatParser.parse_format s).
Proof. exact gen_parse_format_equiv. Qed.
Print Assumptions TIE_grammar_format_equiv.

Theorem TIE_grammar_named_format_equiv : forall s : string,
  GG.parse_named_format s = back_named (FormatParser.parse_named_format s).
Proof. exact gen_parse_named_format_equiv. Qed.
Print Assumptions TIE_grammar_named_format_equiv.

(** C12_format_roundtrip on the regenerated parser *)
Theorem TIE_grammar_format_roundtrip_gen : forall f : format, wf_format f = true ->
  exists s, deparse_format f = Some s
            /\ GG.parse_format (string_of_list_ascii s) = GG.PSuccess (VU (GG.UFormat (back_format f))).
Proof. exact gen_format_roundtrip. Qed.
Print Assumptions TIE_grammar_format_roundtrip_gen.

Theorem TIE_grammar_named_format_roundtrip_gen : forall (nm : list ascii) (f : format),
  (match nm with c :: _ => is_var_start c = true | [] => False end) ->
  forallb is_var_char nm = true -> wf_format f = true ->
  exists s, deparse_format f = Some s
            /\ GG.parse_named_format (string_of_list_ascii (nm ++ ":"%char :: s))
               = GG.PSuccess (VList [VStr (string_of_list_ascii nm); VU (GG.UFormat (back_format f))]).
Proof. exact gen_named_format_roundtrip. Qed.
Print Assumptions TIE_grammar_named_format_roundtrip_gen.

Theorem TIE_grammar_format_total : forall s : string,
  match GG.parse_format s with GG.PSuccess _ | GG.PFailure _ => True | _ => False end.
Proof. exact gen_parse_format_total. Qed.
Print Assumptions TIE_grammar_format_total.

(* ------------------------------------------------------------------------------------------ *)
(** * The float regular expression: Python's greedy backtracking match = the lexer's float token *)

Theorem TIE_grammar_float_regex :
  forall c r, is_digit c = true ->
    match lex_number (c :: r) with
    | (TFloat d, r') => re_match FR (c :: r) = Some r' /\ GG.spell_dec (consumed (c :: r) r') = Some d
    | (_, _) => re_match FR (c :: r) = None
    end.
Proof. exact float_regex_ok. Qed.
Print Assumptions TIE_grammar_float_regex.

(* ------------------------------------------------------------------------------------------ *)
(** * expression/_parser.py  =  model/Parser.v *)

(** On every string: the scannerless run of the regenerated grammar is the hand model's
    lex-then-parse, with the model's lexer refined by the finiteness test of the source
    ([lexF]: a float spelling that float() does not make finite is read as its integer part). *)
Theorem TIE_grammar_assignment_equiv :
  forall (fl : dec -> F) (post : GD.ex_expr -> GD.ex_expr -> option string),
    (forall x idx e, post (GD.ExTensor x idx) (back fl e) = vexn (validate (Assign x idx e))) ->
    forall s : string,
      GG.parse_assignment fl post s = back_pres fl (parse_assignment_f fl s).
Proof. exact gen_parse_assignment_equiv. Qed.
Print Assumptions TIE_grammar_assignment_equiv.

(** ... and it is model/Parser.v's own [parse_assignment] whenever the float literals of the text
    are finite *)
Theorem TIE_grammar_assignment_equiv_model :
  forall (fl : dec -> F) (post : GD.ex_expr -> GD.ex_expr -> option string),
    (forall x idx e, post (GD.ExTensor x idx) (back fl e) = vexn (validate (Assign x idx e))) ->
    forall (s : string) ts, lex s = Some ts -> floats_finite fl ts = true ->
      GG.parse_assignment fl post s = back_pres fl (Parser.parse_assignment s).
Proof. exact gen_parse_assignment_equiv_model. Qed.
Print Assumptions TIE_grammar_assignment_equiv_model.

(** with every float finite the refined lexer is the model's lexer *)
Theorem TIE_grammar_lexF_all_finite :
  forall (fl : dec -> F), (forall d, fin fl d = true) -> forall n s, lexF fl n s = lex_fuel n s.
Proof. exact lexF_all_finite. Qed.
Print Assumptions TIE_grammar_lexF_all_finite.

(** C12_parse_sound_complete on the regenerated grammar *)
Theorem TIE_grammar_parse_sound_complete_gen :
  forall (fl : dec -> F) (post : GD.ex_expr -> GD.ex_expr -> option string),
    (forall x idx e, post (GD.ExTensor x idx) (back fl e) = vexn (validate (Assign x idx e))) ->
    forall (s : string) v,
      GG.parse_assignment fl post s = GG.PSuccess v <->
      exists ts a, lexF fl (List.length (list_ascii_of_string s)) (list_ascii_of_string s) = Some ts
                   /\ DA ts a /\ validate a = VOk /\ v = back_asg fl a.
Proof. exact gen_parse_sound_complete. Qed.
Print Assumptions TIE_grammar_parse_sound_complete_gen.

(** C12_parse_deparse on the regenerated grammar *)
Theorem TIE_grammar_parse_deparse_gen :
  forall (fl : dec -> F) (post : GD.ex_expr -> GD.ex_expr -> option string),
    (forall x idx e, post (GD.ExTensor x idx) (back fl e) = vexn (validate (Assign x idx e))) ->
    forall (s : string) a,
      lexF fl (List.length (list_ascii_of_string s)) (list_ascii_of_string s) = Some (deparse a) ->
      validate a = VOk ->
      GG.parse_assignment fl post s = GG.PSuccess (back_asg fl a).
Proof. exact gen_parse_deparse. Qed.
Print Assumptions TIE_grammar_parse_deparse_gen.

(** the regenerated parse_assignment returns Success or a typed Failure on every string: no
    exception escapes its except clauses, no action is ill-typed, the interpreter's fuel suffices *)
Theorem TIE_grammar_assignment_total :
  forall (fl : dec -> F) (post : GD.ex_expr -> GD.ex_expr -> option string),
    (forall x idx e, post (GD.ExTensor x idx) (back fl e) = vexn (validate (Assign x idx e))) ->
    forall s : string,
      match GG.parse_assignment fl post s with
      | GG.PSuccess _ | GG.PFailure _ => True
      | _ => False
      end.
Proof. exact gen_parse_assignment_total. Qed.
Print Assumptions TIE_grammar_assignment_total.

(** C12_text_roundtrip_int on regenerated functions only: the text printed by the regenerated
    [Assignment.deparse] (gen/Deparse.v, with any rendering [str_float] of floats) for a parsed float-free
    assignment is parsed back to the same tree by the regenerated grammar *)
Theorem TIE_grammar_deparse_roundtrip_int_gen :
  forall (fl : dec -> F) (post : GD.ex_expr -> GD.ex_expr -> option string) (str_float : F -> string),
    (forall x idx e, post (GD.ExTensor x idx) (back fl e) = vexn (validate (Assign x idx e))) ->
    forall (s : string) a,
      Parser.parse_assignment s = POk a -> float_free (rhs a) = true ->
      GG.parse_assignment fl post
        (GD.ex_assignment_deparse str_float
           (GD.ExAssignment (GD.ExTensor (tname a) (tindexes a)) (back fl (rhs a))))
      = GG.PSuccess (back_asg fl a).
Proof. exact gen_grammar_deparse_roundtrip_int. Qed.
Print Assumptions TIE_grammar_deparse_roundtrip_int_gen.
