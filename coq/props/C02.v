(** C02 -- every returned tensor is a canonical, self-consistent stored tensor.

    What is PROVED here (unbounded, closed under the global context):
      (a) the checker [Storage.wf_tensorb] decides exactly the property's statement [wf_tensor]
          (proofs/StorageWf.v), so running it (by vm_compute, tools/props/C02.py) on a real kernel
          output establishes the statement for that output by a theorem;
      (b) "hence any result can be used as an input ...": a well-formed tensor passes the library's
          structure validation [validate] (transcription of taco_structure_to_cffi), every array
          read of a traversal stays in bounds, no coordinate is stored twice, storage order is the
          lexicographic order of level coordinates, every coordinate is within its dimension;
      (c) the output-assembly protocol (model/Append.v, transcription of write_declarations /
          write_crd_assembly / write_pos_allocation / write_pos_assembly / write_cleanup) never
          stores outside the current allocation for any initial capacity >= 1 and produces a
          well-formed compressed level, with final array sizes covering what [wf_tensor] needs.
    What is NOT proved: that the loops emitted by _generate_ir.py drive the protocol with sorted
    segments (that is the sweep of tools/props/C02.py: testing, with (a) as its oracle). *)
From Coq Require Import ZArith List Bool Sorted. Import ListNotations.
From TV Require Import spec.Storage proofs.StorageLemmas proofs.StorageWf model.StructureValidate
  model.Append proofs.AppendProofs proofs.AppendMerge.
Open Scope Z_scope.

(** The boolean checker run on every swept output decides the C02 statement. *)
Theorem C02_wf_tensorb_spec : forall (V : Type) (strict : bool) (t : tensor V),
  wf_tensorb strict t = true <-> wf_tensor strict t.
Proof. exact @wf_tensorb_spec. Qed.
Print Assumptions C02_wf_tensorb_spec.

(** ... and [wf_tensor] unfolds to the text of the property (checked by conversion). *)
Theorem C02_wf_tensor_statement : forall (V : Type) (strict : bool) (t : tensor V),
  wf_tensor strict t <->
  ((length (dims t) = length (ordering t)
    /\ length (levels t) = length (ordering t)
    /\ Permutation.Permutation (seq 0 (length (ordering t))) (ordering t)
    /\ Forall (fun d => 0 <= d) (dims t))
   /\ exists leaf, wf_levels (combine (levels t) (level_dims t)) 1 leaf
                   /\ (if strict then zlen (vals t) = leaf else leaf <= zlen (vals t)))
  /\ (forall n d pos crd, wf_compressed n d pos crd <->
        zlen pos = n + 1
        /\ nthZ (-1) pos 0 = 0
        /\ (forall i, 0 <= i < n -> nthZ 0 pos i <= nthZ 0 pos (i + 1))
        /\ nthZ (-1) pos n = zlen crd
        /\ (forall p q, 0 <= p < n -> nthZ 0 pos p <= q -> q + 1 < nthZ 0 pos (p + 1) ->
              nthZ (-1) crd q < nthZ (-1) crd (q + 1))
        /\ (forall c, In c crd -> 0 <= c < d)).
Proof. exact @wf_tensor_statement. Qed.
Print Assumptions C02_wf_tensor_statement.

(** "can be pickled / re-used": taco_structure_to_cffi's checks accept every well-formed tensor. *)
Theorem C02_wf_implies_validate : forall (V : Type) (t : tensor V),
  wf_tensorb true t = true -> validate (to_raw t) = VOk.
Proof. exact @wf_implies_validate. Qed.
Print Assumptions C02_wf_implies_validate.

(** Reading a well-formed tensor never leaves pos / crd / vals: the traversal with every array read
    checked succeeds and yields exactly the entries. *)
Theorem C02_wf_walk_in_bounds : forall (V : Type) (strict : bool) (t : tensor V) (dflt : V),
  wf_tensorb strict t = true ->
  walk_chk (combine (levels t) (level_dims t)) 0 [] = Some (walk (combine (levels t) (level_dims t)) 0 [])
  /\ entries_chk t = Some (entries dflt t).
Proof. exact @wf_walk_in_bounds. Qed.
Print Assumptions C02_wf_walk_in_bounds.

(** No coordinate is stored twice. *)
Theorem C02_wf_entries_nodup : forall (V : Type) (strict : bool) (t : tensor V) (dflt : V),
  wf_tensorb strict t = true -> NoDup (map fst (entries dflt t)).
Proof. exact @wf_entries_nodup. Qed.
Print Assumptions C02_wf_entries_nodup.

(** Storage order is lexicographic in level order. *)
Theorem C02_wf_entries_sorted : forall (V : Type) (strict : bool) (t : tensor V) (dflt : V),
  wf_tensorb strict t = true ->
  StronglySorted lex_lt (map (fun e => to_level_order (ordering t) (fst e)) (entries dflt t)).
Proof. exact @wf_entries_sorted. Qed.
Print Assumptions C02_wf_entries_sorted.

(** Every stored coordinate is within the dimension of its level. *)
Theorem C02_wf_coords_in_range : forall (V : Type) (strict : bool) (t : tensor V),
  wf_tensorb strict t = true ->
  forall c q, In (c, q) (walk (combine (levels t) (level_dims t)) 0 []) ->
    Forall2 (fun x d => 0 <= x < d) c (level_dims t).
Proof. exact @wf_coords_in_range. Qed.
Print Assumptions C02_wf_coords_in_range.

(** The append protocol: for every initial capacity >= 1 and every trace of strictly increasing
    in-range segments (any mix of kept / discarded parent coordinates, any dense size in between,
    zero included) the machine never stores outside the current allocation ([run_level] is [Some]),
    returns only initialised cells, and the returned (pos, crd) is a well-formed compressed level
    over the final number of parent positions holding exactly the appended coordinates. *)
Theorem C02_append_protocol_wf : forall k c0 d vs,
  1 <= c0 -> trace_okb k d vs = true ->
  exists pos crd,
    run_level k c0 vs = Some (pos, crd)
    /\ wf_compressedb (parents_of k vs) d pos crd = true
    /\ crd = concat (stored_segs k vs)
    /\ pos = pos_of_segs (stored_segs k vs).
Proof. exact append_protocol_wf. Qed.
Print Assumptions C02_append_protocol_wf.

(** The sizes to which write_cleanup reallocates (pos: parents + 1, crd: cursor, vals: (cursor + 1)
    * trailing dense size) are at least what [wf_levels] needs for the level and its dense tail, and
    the value array is never overrun on the way. *)
Theorem C02_realloc_sizes_cover : forall k kv c0 d ds vs advs,
  1 <= c0 -> trace_okb k d vs = true -> Forall (fun x => 0 <= x) ds ->
  kv = (match ds with [] => PDouble | _ => PMax (fold_right Z.mul 1 ds) end) ->
  count_true advs = zlen (concat (stored_segs k vs)) ->
  exists pos crd nvals,
    run_level k c0 vs = Some (pos, crd) /\ run_vals_level kv c0 advs = Some nvals
    /\ zlen pos = parents_of k vs + 1
    /\ exists leaf, wf_levels ((LCompressed pos crd, d) :: map (fun x => (LDense, x)) ds) (parents_of k vs) leaf
                    /\ leaf <= nvals.
Proof. exact realloc_sizes_cover. Qed.
Print Assumptions C02_realloc_sizes_cover.

(** Why real segments are sorted: a model of the sparse co-iteration loop (i = min of the heads of
    the non-exhausted leaves; every leaf whose head is i advances) visits, for any number of
    iterations, a strictly increasing in-range sequence when every leaf is a strictly increasing
    in-range coordinate list -- i.e. what it hands to the append protocol satisfies [seg_okb].
    (Model-level; the sortedness of the real segments is checked per run by [trace_okb].) *)
Theorem C02_coiteration_sorted : forall fuel d ls,
  (forall l, In l ls -> strictly_increasing l = true /\ forall x, In x l -> 0 <= x < d) ->
  strictly_increasing (visit fuel ls) = true
  /\ (forall x, In x (visit fuel ls) -> 0 <= x < d).
Proof. exact visit_strictly_increasing. Qed.
Print Assumptions C02_coiteration_sorted.

(** Capacity 0 is excluded for a reason: 0 * 2 = 0, the first append overflows. *)
Theorem C02_capacity_zero_overflows :
  run_level PDouble 0 [mkVisit [[0]] true] = None /\ run_level PFixed 0 [mkVisit [[0]] true] = None.
Proof. exact capacity_zero_overflows. Qed.
Print Assumptions C02_capacity_zero_overflows.
