(** TIE (problem) -- construction and identity of problems, regenerated on every run from
    src/tensora/problem.py, expression/ast.py (Assignment.__post_init__), format/_format.py
    (Format.__post_init__), tensor.py (Tensor.format) and compile/_porcelain.py (gen/ProblemGen.v), is the
    hand model model/Problem.v + model/ExprAst.v (assignment_check, variable_orders) + model/Validate.v
    (formats_of_inputs, dict_union) of properties C10 and C15.  Statements only; proofs in
    proofs/GenProblem_equiv.v; notes in design.d/TIE_problem.md.

    [gassign tn tidx e] / [massign fid tn tidx e]: [Assignment(Tensor(tn, tidx), e)] in the generated / the
    model's types ([e] an arbitrary regenerated expression tree).  [lift_*]: a model value written as a value
    of the generated types (nat -> Z).  [cres]: [Ret a] is [Ok a]; [Raise (PyExc class site values)] is the
    model's error of that class AND raise site ([kind]), the name taken from the first rendered constructor
    argument.  [canon_err]: the model's internal errors are one kind. *)

From Coq Require Import ZArith List Bool String.
From TV Require Import spec.Num spec.PyLib.
From TV Require gen.Deparse gen.TensorMethod gen.ProblemGen model.ExprAst model.Problem model.Validate.
From TV Require Import proofs.GenProblem_equiv.
Import ListNotations.

(** [Expression.variables()] never raises and is the model's dict of [Tensor] objects. *)
Theorem TIE_problem_variables_lift : forall (fid : F -> Z) (e : GD.ex_expr),
  GD.Expression_variables e = Some (lift_vars (EA.variables (GV.convA fid e))).
Proof. exact gen_variables_lift. Qed.
Print Assumptions TIE_problem_variables_lift.

(** [Assignment.__post_init__]: the object exists iff [assignment_check] passes; the dict it stores in
    [_variable_orders] (what [variable_orders()] returns) is the model's [variable_orders]; otherwise the
    same exception (Mutating / InconsistentDimensions / NameConflict, by class and raise site). *)
Theorem TIE_problem_assignment_post_init_equiv : forall (fid : F -> Z) tn tidx (e : GD.ex_expr),
  cres (GP.Assignment_post_init (gassign tn tidx e)) =
  match EA.assignment_check (massign fid tn tidx e) with
  | EA.Ok _ => EA.Ok (lift_orders (EA.variable_orders (massign fid tn tidx e)))
  | EA.Error err => EA.Error (GVal.canon_err err)
  end.
Proof. exact gen_assignment_post_init_equiv. Qed.
Print Assumptions TIE_problem_assignment_post_init_equiv.

(** C10_problem_ctor_checks on the regenerated constructor [Problem(assignment, formats)] (dataclass
    __init__ + __post_init__), for an Assignment object that exists. *)
Theorem TIE_problem_ctor_checks_gen : forall (fid : F -> Z) tn tidx (e : GD.ex_expr) (fs : list (string * MP.format)),
  EA.assignment_check (massign fid tn tidx e) = EA.Ok tt ->
  (forall p, GP.Problem_new (gassign tn tidx e) (GVal.lift_formats fs) = GT.Ret p <->
     p = GT.MkProblem (gassign tn tidx e) (GVal.lift_formats fs) /\
     forall n o, In (n, o) (EA.variable_orders (massign fid tn tidx e)) ->
                 exists f, EA.aget n fs = Some f /\ MP.f_order f = o) /\
  (forall x, GP.Problem_new (gassign tn tidx e) (GVal.lift_formats fs) = GT.Raise x ->
     (exists n o, kind x = EA.EUndefinedReference n /\ In (n, o) (EA.variable_orders (massign fid tn tidx e)) /\
                  EA.aget n fs = None) \/
     (exists n o f, kind x = EA.EIncorrectDimensions n /\ In (n, o) (EA.variable_orders (massign fid tn tidx e)) /\
                    EA.aget n fs = Some f /\ MP.f_order f <> o)).
Proof. exact gen_problem_ctor_checks. Qed.
Print Assumptions TIE_problem_ctor_checks_gen.

(** The regenerated [make_problem] is the model's, on every assignment and every dict of formats: the same
    Problem (same assignment, the same formats in the same order) returned as Success, or the same error
    through the same channel -- returned as Failure (UnusedFormat of the first unused name; IncorrectDimensions
    / UndefinedReference of the constructor), or raised (only the exceptions of [Assignment.__post_init__], for
    a pair that is no Assignment object).  In particular no KeyError, and the dense default is a valid Format. *)
Theorem TIE_problem_make_problem_equiv : forall (fid : F -> Z) tn tidx (e : GD.ex_expr) (fs : list (string * MP.format)),
  out_gen (GP.make_problem (gassign tn tidx e) (GVal.lift_formats fs)) =
  out_model (gassign tn tidx e) (EA.assignment_check (massign fid tn tidx e))
            (MP.make_problem (massign fid tn tidx e) fs).
Proof. exact gen_make_problem_equiv. Qed.
Print Assumptions TIE_problem_make_problem_equiv.

(** C15_make_problem_spec (the effective formats) on the regenerated [make_problem]: output first, then the
    tensors by first appearance; each format the given one, or all-dense of the tensor's order. *)
Theorem TIE_problem_effective_formats_gen : forall (fid : F -> Z) tn tidx (e : GD.ex_expr) (fs : list (string * MP.format)) p,
  GP.make_problem (gassign tn tidx e) (GVal.lift_formats fs) = GT.Ret (inl p) ->
  EA.assignment_check (massign fid tn tidx e) = EA.Ok tt /\
  exists fs',
    p = GT.MkProblem (gassign tn tidx e) (GVal.lift_formats fs') /\
    EA.akeys fs' = tn :: EA.sdedup (map EA.t_name (EA.occurrences (GV.convA fid e))) /\
    (forall n f, In (n, f) fs' ->
       EA.aget n fs = Some f \/
       (EA.aget n fs = None /\ exists o, In (n, o) (EA.variable_orders (massign fid tn tidx e)) /\ f = MP.dense_format o)) /\
    incl (EA.akeys fs) (EA.akeys (EA.variable_orders (massign fid tn tidx e))) /\
    MP.problem_post_init (massign fid tn tidx e) fs' = EA.Ok tt.
Proof. exact gen_make_problem_effective_formats. Qed.
Print Assumptions TIE_problem_effective_formats_gen.

Theorem TIE_problem_failure_gen : forall (fid : F -> Z) tn tidx (e : GD.ex_expr) (fs : list (string * MP.format)) x,
  GP.make_problem (gassign tn tidx e) (GVal.lift_formats fs) = GT.Ret (inr x) ->
  MP.make_problem (massign fid tn tidx e) fs = EA.Error (kind x).
Proof. exact gen_make_problem_failure. Qed.
Print Assumptions TIE_problem_failure_gen.

(** [Problem.__eq__] (with the dataclass == of Assignment, the expression classes and Format) is the
    model's [problem_eqb], whenever [fid] identifies exactly the float literals that compare equal. *)
Theorem TIE_problem_eq_equiv : forall (fid : F -> Z) tn tidx e fs tn' tidx' e' fs',
  fid_ok fid e e' ->
  GP.Problem_eq (GVal.gproblem tn tidx e fs) (GVal.gproblem tn' tidx' e' fs')
  = MP.problem_eqb (GVal.mproblem fid tn tidx e fs) (GVal.mproblem fid tn' tidx' e' fs').
Proof. exact gen_problem_eq_equiv. Qed.
Print Assumptions TIE_problem_eq_equiv.

(** C15_problem_eqb_spec on the regenerated [__eq__]. *)
Theorem TIE_problem_eq_spec_gen : forall (fid : F -> Z) tn tidx e fs tn' tidx' e' fs',
  fid_ok fid e e' ->
  (GP.Problem_eq (GVal.gproblem tn tidx e fs) (GVal.gproblem tn' tidx' e' fs') = true <->
   GVal.mproblem fid tn tidx e fs = GVal.mproblem fid tn' tidx' e' fs').
Proof. exact gen_problem_eq_spec. Qed.
Print Assumptions TIE_problem_eq_spec_gen.

(** [__hash__] hashes a tuple whose == is [__eq__] (C15_hash_compatible on the regenerated methods). *)
Theorem TIE_problem_hash_compatible_gen : forall p q,
  GP.Problem_hash_key_eqb (GP.Problem_hash_key p) (GP.Problem_hash_key q) = GP.Problem_eq p q.
Proof. exact gen_problem_hash_compatible. Qed.
Print Assumptions TIE_problem_hash_compatible_gen.

(** [tensor_method]: the problem handed to the cache is make_problem's; a Failure is raised. *)
Theorem TIE_problem_tensor_method_equiv : forall (fid : F -> Z) tn tidx (e : GD.ex_expr) (fs : list (string * MP.format)),
  cres (GP.tensor_method_problem (gassign tn tidx e) (GVal.lift_formats fs)) =
  match EA.assignment_check (massign fid tn tidx e) with
  | EA.Error err => EA.Error (GVal.canon_err err)
  | EA.Ok _ => problem_result (gassign tn tidx e) (MP.make_problem (massign fid tn tidx e) fs)
  end.
Proof. exact gen_tensor_method_problem_equiv. Qed.
Print Assumptions TIE_problem_tensor_method_equiv.

(** [evaluate] / [evaluate_tensora] / [evaluate_cffi] between the parsers and the cache, for an existing
    Assignment, keyword arguments and tensors whose (modes, mode_ordering) are Formats: TypeError of the first
    non-Tensor, else make_problem on [{target: output format} | {name: tensor.format}] (model:
    [formats_of_inputs], [dict_union]). *)
Theorem TIE_problem_evaluate_equiv : forall (fid : F -> Z) tn tidx (e : GD.ex_expr) (outf : MP.format)
    (inputs : list (string * MV.argument)),
  EA.assignment_check (massign fid tn tidx e) = EA.Ok tt ->
  NoDup (map fst inputs) ->
  inputs_valid inputs = true ->
  cres (GP.evaluate_problem (gassign tn tidx e) (GT.Ret (GVal.lift_format outf)) (GVal.lift_bound inputs))
    = evaluate_spec fid tn tidx e outf inputs /\
  cres (GP.evaluate_cffi_problem (gassign tn tidx e) (GT.Ret (GVal.lift_format outf)) (GVal.lift_bound inputs))
    = evaluate_spec fid tn tidx e outf inputs.
Proof. exact gen_evaluate_problem_equiv. Qed.
Print Assumptions TIE_problem_evaluate_equiv.

(** a non-trivial instance of the hypotheses of the last theorem and of [fid_ok] *)
Theorem TIE_problem_hypotheses_instance :
  EA.assignment_check (massign (fun _ => 0%Z) "T" ["i"] (GD.ExMultiply (GD.ExTensor "A" ["i"; "j"]) (GD.ExTensor "b" ["j"]))) = EA.Ok tt /\
  inputs_valid [("A", MV.ATensor 2 [MP.Dense; MP.Compressed] [1; 0]%nat [3; 4]%Z); ("b", MV.ANotTensor)] = true /\
  fid_ok (fun _ => 0%Z) (GD.ExTensor "A" ["i"]) (GD.ExInteger 2).
Proof. exact hypotheses_instance. Qed.
Print Assumptions TIE_problem_hypotheses_instance.
