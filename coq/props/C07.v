(** Property C07 -- peephole optimisation never changes what a kernel computes.

    [peephole_*] are the definitions REGENERATED from /repo/src/tensora/ir/_peephole.py (gen/Peephole.v);
    [exec]/[call] is the IR abstract machine (spec/IRSem.v).  This file contains statements only. *)

From Coq Require Import ZArith List String.
From TV Require Import spec.Num gen.IRAst gen.Peephole spec.IRSem
  proofs.PeepholeExpr proofs.PeepholeStmt.
Import ListNotations.

(** FULL STATEMENT (kept for reference; refuted today, see findings/K_C07_1.v): on every state on
    which the original function runs safely to completion, the optimised function returns the same
    value in the same final state (every array, every tensor field, the loop-iteration counter) and
    its memory accesses are a sub-sequence of the original's. *)
Definition C07_peephole_sound_full : Prop :=
  forall fuel f args st st' v tr,
    call fuel f args st = Returned st' v tr ->
    exists tr', call fuel (peephole_function_definition f) args st = Returned st' v tr' /\ sub tr' tr.

(** PROVED: the full statement with one escape -- the optimised function may instead stop with a
    signed 32-bit overflow.  That escape is real (known finding K-C07-1: the untyped identities
    [x * 1.0 -> x], [x + 0.0 -> x], [x * 0 -> 0] demote a binary64 operation to int32). Nothing else
    can differ: no other error, no different value, no extra access, no extra fuel. *)
Theorem C07_peephole_sound_partial :
  forall fuel f args st st' v tr,
    call fuel f args st = Returned st' v tr ->
    (exists tr', call fuel (peephole_function_definition f) args st = Returned st' v tr' /\ sub tr' tr)
    \/ call fuel (peephole_function_definition f) args st = Fail EOverflow.
Proof. exact peephole_function_sound. Qed.
Print Assumptions C07_peephole_sound_partial.

(** Statements: any statement, any state, any fuel. *)
Theorem C07_peephole_statement_sound :
  forall n s st, orel (exec n (peephole_statement s) st) (exec n s st).
Proof. exact peephole_statement_sound. Qed.
Print Assumptions C07_peephole_statement_sound.

(** Expressions: the optimised expression evaluates to the original value (or to the int32 whose
    conversion to binary64 the original value is), reading a sub-sequence of the original's cells;
    if the original value is not a float there is no escape at all. *)
Theorem C07_peephole_expression_sound :
  forall e st, erel (eval st (peephole_expression e)) (eval st e).
Proof. exact peephole_expression_sound. Qed.
Print Assumptions C07_peephole_expression_sound.

(** The optimised function executes exactly as many loop iterations as the original. *)
Theorem C07_peephole_preserves_iterations :
  forall fuel f args st st' v tr st'' v' tr',
    call fuel f args st = Returned st' v tr ->
    call fuel (peephole_function_definition f) args st = Returned st'' v' tr' ->
    iters st'' = iters st' /\ st'' = st' /\ v' = v.
Proof. exact peephole_preserves_iterations. Qed.
Print Assumptions C07_peephole_preserves_iterations.

(** Non-vacuity: a concrete function that runs to completion on the machine, before and after. *)
Definition returns_zero (o : outcome) : bool :=
  match o with Returned _ (VInt 0) _ => true | _ => false end.

Definition C07_example_f : function_definition :=
  FunctionDefinition (Var "k") [] TInteger
    (Block [DeclarationAssignment (Declaration (Var "x") TFloat)
              (Add (Multiply (FloatLiteral F1) (IntegerLiteral 3)) (IntegerLiteral 0));
            Branch (BooleanLiteral true) (Block [] None) (Block [] None);
            Return (IntegerLiteral 0)] None).
Definition C07_example_st : state := mkState [] (PM.empty _) 1%positive (PM.empty _) 0%Z.

Example C07_hypothesis_satisfiable :
  returns_zero (call 10 C07_example_f [] C07_example_st) = true.
Proof. vm_compute. reflexivity. Qed.

Example C07_hypothesis_satisfiable_optimised :
  returns_zero (call 10 (peephole_function_definition C07_example_f) [] C07_example_st) = true.
Proof. vm_compute. reflexivity. Qed.
