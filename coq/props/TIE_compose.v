(** TIE "compose" -- the TIE layers composed across their borders: end-to-end statements on REGENERATED
    functions only.  Statements only; proofs in proofs/Compose_post.v, Compose_operators.v, Compose_cli.v; notes
    in design.d/TIE_compose.md.

    Modules: GG = gen/GrammarGen.v (the parsita grammars, run by model/Parsita.v), GP = gen/ProblemGen.v,
    GD = gen/Deparse.v, GT = gen/TensorMethod.v, GO = gen/TensorOps.v, GL = gen/GlueGen.v, IG = gen/IterGraphs.v;
    P = model/Parser.v, EA = model/ExprAst.v, MO = model/Operators.v, MP = model/Problem.v;
    GE / GPE / GOE = the equivalence proofs of TIE grammar / problem / operators.

    [gen_post t e]: the regenerated [Assignment.__post_init__] (GP.Assignment_post_init) run on
    [Assignment(t, e)], as the hook of the regenerated grammar: [None] = returns, [Some cls] = raises cls. *)

From Coq Require Import ZArith NArith List Bool String Ascii.
From TV Require Import spec.Num spec.PyBase spec.PyLib model.GraphsIter.
From TV Require model.Parser model.Parsita spec.Grammar.
From TV Require Import proofs.Compose_all.
Import ListNotations.
Open Scope string_scope.

(* ------------------------------------------------------------------------------------------ *)
(** * (1) grammar + problem: the hook is the regenerated __post_init__ *)

(** the two hand models of [Assignment.__post_init__] (model/Parser.v [validate], C12; model/ExprAst.v
    [assignment_check], C10/C15) agree through the conversion of the trees *)
Theorem TIE_compose_validate_check :
  forall (fl : P.dec -> F) (fid : F -> Z) x idx e,
    EA.assignment_check (EA.Assignment (EA.TRef x idx) (toA fl fid e)) = chk_of (P.validate (P.Assign x idx e)).
Proof. exact validate_check. Qed.
Print Assumptions TIE_compose_validate_check.

(** the hypothesis [post = validate] of every TIE grammar theorem holds for the regenerated method *)
Theorem TIE_compose_gen_post_is_validate :
  forall (fl : P.dec -> F) x idx e,
    gen_post (GD.ExTensor x idx) (GE.back fl e) = GE.vexn (P.validate (P.Assign x idx e)).
Proof. exact gen_post_is_validate. Qed.
Print Assumptions TIE_compose_gen_post_is_validate.

(** TIE_grammar_assignment_equiv without the hook hypothesis *)
Theorem TIE_compose_assignment_equiv :
  forall (fl : P.dec -> F) (s : string),
    GG.parse_assignment fl gen_post s = GE.back_pres fl (GE.parse_assignment_f fl s).
Proof. exact compose_assignment_equiv. Qed.
Print Assumptions TIE_compose_assignment_equiv.

Theorem TIE_compose_assignment_equiv_model :
  forall (fl : P.dec -> F) (s : string) ts,
    P.lex s = Some ts -> GE.floats_finite fl ts = true ->
    GG.parse_assignment fl gen_post s = GE.back_pres fl (P.parse_assignment s).
Proof. exact compose_assignment_equiv_model. Qed.
Print Assumptions TIE_compose_assignment_equiv_model.

(** C12_parse_sound_complete on the fully regenerated parser *)
Theorem TIE_compose_parse_sound_complete :
  forall (fl : P.dec -> F) (s : string) v,
    GG.parse_assignment fl gen_post s = GG.PSuccess v <->
    exists ts a, GE.lexF fl (List.length (list_ascii_of_string s)) (list_ascii_of_string s) = Some ts
                 /\ TV.spec.Grammar.DA ts a /\ P.validate a = P.VOk /\ v = GE.back_asg fl a.
Proof. exact compose_parse_sound_complete. Qed.
Print Assumptions TIE_compose_parse_sound_complete.

(** C12_parse_deparse on the fully regenerated parser *)
Theorem TIE_compose_parse_deparse :
  forall (fl : P.dec -> F) (s : string) a,
    GE.lexF fl (List.length (list_ascii_of_string s)) (list_ascii_of_string s) = Some (P.deparse a) ->
    P.validate a = P.VOk ->
    GG.parse_assignment fl gen_post s = GG.PSuccess (GE.back_asg fl a).
Proof. exact compose_parse_deparse. Qed.
Print Assumptions TIE_compose_parse_deparse.

Theorem TIE_compose_assignment_total :
  forall (fl : P.dec -> F) (s : string),
    match GG.parse_assignment fl gen_post s with
    | GG.PSuccess _ | GG.PFailure _ => True
    | _ => False
    end.
Proof. exact compose_assignment_total. Qed.
Print Assumptions TIE_compose_assignment_total.

(** C12_text_roundtrip_int: regenerated printer, regenerated grammar, regenerated __post_init__ *)
Theorem TIE_compose_deparse_roundtrip_int :
  forall (fl : P.dec -> F) (str_float : F -> string) (s : string) a,
    P.parse_assignment s = P.POk a -> P.float_free (P.rhs a) = true ->
    GG.parse_assignment fl gen_post
      (GD.ex_assignment_deparse str_float
         (GD.ExAssignment (GD.ExTensor (P.tname a) (P.tindexes a)) (GE.back fl (P.rhs a))))
    = GG.PSuccess (GE.back_asg fl a).
Proof. exact compose_deparse_roundtrip_int. Qed.
Print Assumptions TIE_compose_deparse_roundtrip_int.

(** every Success of the regenerated parser is an Assignment OBJECT: the hypothesis "the Assignment exists"
    of the TIE problem theorems holds for parsed text, and [variable_orders()] of the object is the model's *)
Theorem TIE_compose_parsed_is_object :
  forall (fl : P.dec -> F) (s : string) v,
    GG.parse_assignment fl gen_post s = GG.PSuccess v ->
    exists x idx e,
      v = Parsita.VU (GG.UAsg (GPE.gassign x idx e)) /\
      forall fid : F -> Z,
        EA.assignment_check (GPE.massign fid x idx e) = EA.Ok tt /\
        GP.Assignment_variable_orders (GPE.gassign x idx e)
        = GT.Ret (GPE.lift_orders (EA.variable_orders (GPE.massign fid x idx e))).
Proof. exact compose_parsed_is_object. Qed.
Print Assumptions TIE_compose_parsed_is_object.

(* ------------------------------------------------------------------------------------------ *)
(** * (2) operators + deparse + grammar: the emitted assignment string parses back to the request tree *)

(** GENERAL: for every literal-free assignment of model/Operators.v's AST with lexable names that passes
    validation, the model's text is read back by the fully regenerated parser as exactly that tree *)
Theorem TIE_compose_text_parses :
  forall (fl : P.dec -> F) (a : MO.assignment),
    lit_free (MO.a_rhs a) = true ->
    PL.valid_name (MO.a_target_name a) = true ->
    forallb PL.valid_name (MO.a_target_indexes a) = true ->
    PL.names_ok (toP (MO.a_rhs a)) = true ->
    P.validate (toPa a) = P.VOk ->
    GG.parse_assignment fl gen_post (MO.deparse_assignment a) = GG.PSuccess (Parsita.VU (GG.UAsg (toGa a))).
Proof. exact text_parses. Qed.
Print Assumptions TIE_compose_text_parses.

(** the model's printer is the regenerated printer (gen/Deparse.v) on literal-free trees *)
Theorem TIE_compose_deparse_assignment_gen :
  forall (sf : F -> string) (a : MO.assignment), lit_free (MO.a_rhs a) = true ->
    MO.deparse_assignment a = GD.ex_assignment_deparse sf (toGa a).
Proof. exact deparse_assignment_gen. Qed.
Print Assumptions TIE_compose_deparse_assignment_gen.

(** [evaluate_binary_operator]: the string handed to evaluate_tensora, parsed by the regenerated grammar,
    IS the tree of the model's request -- the tree whose tensor-algebra meaning under the bindings
    actually passed is the element-wise operation (C11_request_denotes_pointwise); and it is what the
    regenerated printer prints for that tree.  No invariant on the operands. *)
Theorem TIE_compose_binary_operator_text :
  forall (fl : P.dec -> F) (sf : F -> string) (l r : MO.operand) (o : MO.op) (s f : string)
         (kw : list (string * GO.argval)),
    GO.evaluate_binary_operator (GOE.emb l) (GOE.emb r) (MO.op_char o) = GO.Val (GO.Evaluate s f kw) ->
    exists q : MO.request,
      MO.binary_operator_request l r o = MO.Ok q /\
      GG.parse_assignment fl gen_post s = GG.PSuccess (Parsita.VU (GG.UAsg (toGa (MO.rq_assignment q)))) /\
      GD.ex_assignment_deparse sf (toGa (MO.rq_assignment q)) = s /\
      kw = map (fun nb => (fst nb, GOE.conv_binding l r (snd nb))) (MO.rq_bindings q) /\
      forall (lv rv : MO.opvalue) (c : MO.coord),
        List.length c = List.length (MO.pointwise_dims l r) ->
        MO.denote_request q l r lv rv c = MO.apply_op o (MO.broadcast l lv c) (MO.broadcast r rv c).
Proof. exact compose_binary_operator_text. Qed.
Print Assumptions TIE_compose_binary_operator_text.

(** [evaluate_matrix_multiplication_operator] (C11_matmul_request_denotes) *)
Theorem TIE_compose_matmul_operator_text :
  forall (fl : P.dec -> F) (sf : F -> string) (l r : MO.operand) (s f : string) (kw : list (string * GO.argval)),
    GO.evaluate_matrix_multiplication_operator (GOE.emb l) (GOE.emb r) = GO.Val (GO.Evaluate s f kw) ->
    exists q : MO.request,
      MO.matmul_request l r = MO.Ok q /\
      GG.parse_assignment fl gen_post s = GG.PSuccess (Parsita.VU (GG.UAsg (toGa (MO.rq_assignment q)))) /\
      GD.ex_assignment_deparse sf (toGa (MO.rq_assignment q)) = s /\
      kw = map (fun nb => (fst nb, GOE.conv_binding l r (snd nb))) (MO.rq_bindings q) /\
      forall (lv rv : MO.opvalue) (c : MO.coord),
        List.length c = List.length (MO.matmul_dims l r) ->
        MO.denote_request q l r lv rv c = MO.matmul_spec l r lv rv c.
Proof. exact compose_matmul_operator_text. Qed.
Print Assumptions TIE_compose_matmul_operator_text.

(** the eight methods [Tensor.__add__ ... __rmatmul__] *)
Theorem TIE_compose_method_text :
  forall (fl : P.dec -> F) (sf : F -> string) (m : MO.method) d mm r (other : MO.operand) (s f : string)
         (kw : list (string * GO.argval)),
    GOE.gen_method m (GOE.emb_view d mm r) (GOE.emb other) = GO.Val (GO.Evaluate s f kw) ->
    exists q : MO.request,
      MO.method_request m (MO.OTensor d mm r) other = MO.Ok q /\
      GG.parse_assignment fl gen_post s = GG.PSuccess (Parsita.VU (GG.UAsg (toGa (MO.rq_assignment q)))) /\
      GD.ex_assignment_deparse sf (toGa (MO.rq_assignment q)) = s.
Proof. exact compose_method_text. Qed.
Print Assumptions TIE_compose_method_text.

(** the output FORMAT string: [Format.deparse] of model/Operators.v is read back by the regenerated format
    grammar as that format ([mo2fp]: the format in model/FormatParser.v's type, [back_format]: in GrammarGen's) *)
Theorem TIE_compose_format_text_parses :
  forall f : MO.format,
    List.length (MO.f_modes f) = List.length (MO.f_ordering f) -> MO.valid_format f = true ->
    GG.parse_format (MO.format_deparse f)
    = GG.PSuccess (Parsita.VU (GG.UFormat (GFE.back_format (mo2fp f)))).
Proof. exact format_text_parses. Qed.
Print Assumptions TIE_compose_format_text_parses.

(** ... for the format string the regenerated operator functions hand to evaluate_tensora (the binary
    operators may pass the operand's own format: Tensor invariant assumed there) *)
Theorem TIE_compose_binary_operator_format :
  forall (l r : MO.operand) (o : MO.op) (s f : string) (kw : list (string * GO.argval)),
    MO.wf_operand l = true -> MO.wf_operand r = true ->
    GO.evaluate_binary_operator (GOE.emb l) (GOE.emb r) (MO.op_char o) = GO.Val (GO.Evaluate s f kw) ->
    exists q : MO.request,
      MO.binary_operator_request l r o = MO.Ok q /\
      GG.parse_format f = GG.PSuccess (Parsita.VU (GG.UFormat (GFE.back_format (mo2fp (MO.rq_format q))))).
Proof. exact compose_binary_operator_format. Qed.
Print Assumptions TIE_compose_binary_operator_format.

Theorem TIE_compose_matmul_operator_format :
  forall (l r : MO.operand) (s f : string) (kw : list (string * GO.argval)),
    GO.evaluate_matrix_multiplication_operator (GOE.emb l) (GOE.emb r) = GO.Val (GO.Evaluate s f kw) ->
    exists q : MO.request,
      MO.matmul_request l r = MO.Ok q /\
      GG.parse_format f = GG.PSuccess (Parsita.VU (GG.UFormat (GFE.back_format (mo2fp (MO.rq_format q))))).
Proof. exact compose_matmul_operator_format. Qed.
Print Assumptions TIE_compose_matmul_operator_format.

(** an instance of the hypothesis: [v + 2.5] for a compressed vector of 3 entries *)
Theorem TIE_compose_operator_instance :
  exists kw,
    GO.evaluate_binary_operator (GOE.emb (MO.OTensor [3%Z] [MO.MCompressed] [0%nat])) (GOE.emb MO.OScalar) "+"
    = GO.Val (GO.Evaluate "output(i0) = left(i0) + right()" "d" kw).
Proof. exact compose_operator_instance. Qed.
Print Assumptions TIE_compose_operator_instance.

(* ------------------------------------------------------------------------------------------ *)
(** * (3) glue + problem + grammar: the CLI body over regenerated library functions *)

(** the copies of the Python classes Mode / Format / Problem are related by bijections *)
Theorem TIE_compose_cli_conversions :
  (forall f, fmt_t2i (fmt_i2t f) = f) /\ (forall f, fmt_i2t (fmt_t2i f) = f) /\
  (forall f, fmt_i2g (fmt_g2i f) = f) /\ (forall f, fmt_g2i (fmt_i2g f) = f) /\
  (forall p, problem_l2t (problem_t2l p) = p) /\ (forall p, problem_t2l (problem_l2t p) = p).
Proof. exact compose_cli_conversions. Qed.
Print Assumptions TIE_compose_cli_conversions.

(** ... and commute with == of formats and with make_problem's dense default *)
Theorem TIE_compose_cli_commutes :
  (forall a b : IG.Format, GP.Format_eqb (fmt_i2t a) (fmt_i2t b) = true <-> a = b) /\
  (forall o : nat, fmt_t2i (GVal.lift_format (MP.dense_format o))
                   = IG.MkFormat (repeat EX.Mode_dense o) (map Z.of_nat (seq 0 o))).
Proof. exact (conj fmt_eqb_commutes dense_default_commutes). Qed.
Print Assumptions TIE_compose_cli_commutes.

(** the parsers at the CLI's argument types never take their "unreachable" arm *)
Theorem TIE_compose_cli_parsers_total :
  (forall fl s,
     (exists a, GG.parse_assignment fl gen_post s = GG.PSuccess (Parsita.VU (GG.UAsg a))
                /\ parse_assignment_cli fl s = inl a)
     \/ (exists cls, GG.parse_assignment fl gen_post s = GG.PFailure cls /\ parse_assignment_cli fl s = inr cls))
  /\
  (forall s,
     (exists n f, GG.parse_named_format s
                  = GG.PSuccess (Parsita.VList [Parsita.VStr n; Parsita.VU (GG.UFormat f)])
                  /\ parse_named_format_cli s = inl (n, fmt_g2i f))
     \/ (exists cls, GG.parse_named_format s = GG.PFailure cls /\ parse_named_format_cli s = inr cls)).
Proof. exact compose_cli_parsers_total. Qed.
Print Assumptions TIE_compose_cli_parsers_total.

(** CLI REQUEST = LIBRARY REQUEST: [cli_tensora] over the regenerated parsers and the regenerated make_problem
    hands [generate_code] exactly the Problem that [tensor_method(assignment, formats)] hands to the kernel
    cache (GP.tensor_method_problem), kinds and language as given; where the library raises, exit status 1 *)
Theorem TIE_compose_cli_request :
  forall (fl : P.dec -> F)
         (generate_code : GL.Problem -> list GL.KernelType -> GL.Language -> pres (string + string))
         (a : string) pa (strs : list string) (tfs : list (string * IG.Format)) ks lang,
    GG.parse_assignment fl gen_post a = GG.PSuccess (Parsita.VU (GG.UAsg pa)) ->
    map parse_named_format_cli strs = map inl tfs -> NoDup (map fst tfs) ->
    GL.cli_tensora (parse_assignment_cli fl) parse_named_format_cli make_problem_cli generate_code a strs ks lang =
    match GP.tensor_method_problem pa (on_snd fmt_i2t tfs) with
    | GT.Ret p => emit generate_code (problem_t2l p) ks lang
    | GT.Raise _ => PRaise "Exit(1)"
    end.
Proof. exact compose_cli_request. Qed.
Print Assumptions TIE_compose_cli_request.

(** ... UNMENTIONED TENSORS DENSE (C15_make_problem_spec on the whole regenerated path) *)
Theorem TIE_compose_cli_effective_formats :
  forall (fl : P.dec -> F)
         (generate_code : GL.Problem -> list GL.KernelType -> GL.Language -> pres (string + string))
         (a : string) x idx e (strs : list string) (mfs : list (string * MP.format)) ks lang (fid : F -> Z),
    GG.parse_assignment fl gen_post a = GG.PSuccess (Parsita.VU (GG.UAsg (GPE.gassign x idx e))) ->
    map parse_named_format_cli strs = map inl (on_snd lift_i mfs) -> NoDup (map fst mfs) ->
    (exists fs' : list (string * MP.format),
       GL.cli_tensora (parse_assignment_cli fl) parse_named_format_cli make_problem_cli generate_code a strs ks lang
       = emit generate_code (GL.MkProblem (GPE.gassign x idx e) (on_snd lift_i fs')) ks lang /\
       EA.akeys fs' = x :: EA.sdedup (map EA.t_name (EA.occurrences (GV.convA fid e))) /\
       (forall n f, In (n, f) fs' ->
          EA.aget n mfs = Some f \/
          (EA.aget n mfs = None /\
           exists o, In (n, o) (EA.variable_orders (GPE.massign fid x idx e)) /\ f = MP.dense_format o)) /\
       incl (EA.akeys mfs) (EA.akeys (EA.variable_orders (GPE.massign fid x idx e))))
    \/ (GL.cli_tensora (parse_assignment_cli fl) parse_named_format_cli make_problem_cli generate_code a strs ks lang
        = PRaise "Exit(1)" /\
        exists err, MP.make_problem (GPE.massign fid x idx e) mfs = EA.Error err).
Proof. exact compose_cli_effective_formats. Qed.
Print Assumptions TIE_compose_cli_effective_formats.

(** no [--format] option: every tensor all-dense, output first, then by first appearance; never Exit(1) *)
Theorem TIE_compose_cli_no_options_all_dense :
  forall (fl : P.dec -> F)
         (generate_code : GL.Problem -> list GL.KernelType -> GL.Language -> pres (string + string))
         (a : string) x idx e ks lang (fid : F -> Z),
    GG.parse_assignment fl gen_post a = GG.PSuccess (Parsita.VU (GG.UAsg (GPE.gassign x idx e))) ->
    exists fs' : list (string * MP.format),
      GL.cli_tensora (parse_assignment_cli fl) parse_named_format_cli make_problem_cli generate_code
        a GL.cli_default_format_strings ks lang
      = emit generate_code (GL.MkProblem (GPE.gassign x idx e) (on_snd lift_i fs')) ks lang /\
      EA.akeys fs' = x :: EA.sdedup (map EA.t_name (EA.occurrences (GV.convA fid e))) /\
      forall n f, In (n, f) fs' ->
        exists o, In (n, o) (EA.variable_orders (GPE.massign fid x idx e)) /\ f = MP.dense_format o.
Proof. exact compose_cli_no_options_all_dense. Qed.
Print Assumptions TIE_compose_cli_no_options_all_dense.

(** every parsed [--format] option is the image of a format of model/Problem.v (so the hypothesis
    [... = map inl (on_snd lift_i mfs)] above only names the parsed formats) *)
Theorem TIE_compose_cli_parsed_formats_are_lifts :
  forall strs (tfs : list (string * IG.Format)),
    map parse_named_format_cli strs = map inl tfs ->
    exists mfs : list (string * MP.format), tfs = on_snd lift_i mfs.
Proof. exact parsed_formats_are_lifts. Qed.
Print Assumptions TIE_compose_cli_parsed_formats_are_lifts.

(** a non-trivial instance of the hypotheses, computed with the regenerated functions *)
Theorem TIE_compose_cli_hypotheses_instance :
  GG.parse_assignment (fun _ => F0) gen_post "y(i) = A(i,j) * x(j)"
  = GG.PSuccess (Parsita.VU (GG.UAsg (GPE.gassign "y" ["i"]
      (GD.ExMultiply (GD.ExTensor "A" ["i"; "j"]) (GD.ExTensor "x" ["j"])))))
  /\ map parse_named_format_cli ["A:d1s0"; "x:s"]
     = map inl (on_snd lift_i [("A", MP.Format [MP.Dense; MP.Compressed] [1; 0]%nat);
                               ("x", MP.Format [MP.Compressed] [0]%nat)])
  /\ GG.parse_assignment (fun _ => F0) gen_post "a(i) = a(i) + b(i)" = GG.PFailure "MutatingAssignmentError"
  /\ parse_named_format_cli "A:d0d0" = inr "InvalidModeOrderingError".
Proof. exact cli_hypotheses_instance. Qed.
Print Assumptions TIE_compose_cli_hypotheses_instance.
