(* TIE "concurrency": the call path of evaluate_* / tensor_method(...)(...) REGENERATED from compile/_porcelain.py,
   _tensor_method.py, _compile_cffi.py, _compile_llvm.py (gen/ConcurrencyGen.v: Python syntax, statement for
   statement) and interpreted by model/ConcurrencyApi.v performs, in program order, exactly the atomic steps of the
   hand model model/Concurrency.v (property C14).  `path t tr l`: tr is the sequence of effects along one path
   through the programme (any outcome of any test, any number of iterations of any loop, any library call
   returning or raising), l how it ends.  Statements only; proofs in proofs/GenConcurrency_equiv.v;
   documentation design.d/TIE_concurrency.md. *)
From Coq Require Import List String.
From TV Require Import model.Concurrency model.ConcurrencyApi gen.ConcurrencyGen proofs.GenConcurrency_equiv.
Import ListNotations.
Open Scope string_scope.
Open Scope list_scope.

(* (1) For every entry point (evaluate_cffi, evaluate_tensora, evaluate, tensor_method(.., cffi)(..),
   tensor_method(.., llvm)(..)), every successful path and either cache outcome: the operations on shared state
   are PLookup [PAcquire PCompileCffi PRelease | PCompileLlvm] [PInsert] PAlloc PRun POwn PReturn in this order
   (lock held exactly around FFI.compile, insert after the release), and every other effect is silent. *)
Theorem TIE_concurrency_call_steps : forall b t, In (b, t) entry_trees ->
  forall hit tr v h, path t tr (LVal v h) -> lookups_are hit tr ->
  steps tr = model_steps b hit /\ Forall (fun e => offending e = false) tr.
Proof. exact gen_call_steps. Qed.
Print Assumptions TIE_concurrency_call_steps.

(* model_steps is what model/Concurrency.v's thread_step does from PLookup when the thread runs alone *)
Theorem TIE_concurrency_model_steps : forall denote c hit,
  let b := k_backend (c_key c) in
  let n := List.length (model_steps b hit) in
  alone_pcs denote c hit n = model_steps b hit /\
  results (run_from denote (alone_state c hit) (repeat (AThread 0) n)) 0 = [denote (c_key c) (c_input c)] /\
  t_calls (threads (run_from denote (alone_state c hit) (repeat (AThread 0) n)) 0) = [].
Proof. exact model_steps_is_model. Qed.
Print Assumptions TIE_concurrency_model_steps.

(* on every path, exceptions included: nothing touches shared state except the model's steps *)
Theorem TIE_concurrency_no_offending_effect : forall b t, In (b, t) entry_trees ->
  forall tr l, path t tr l -> Forall (fun e => offending e = false) tr.
Proof. exact gen_no_offending_effect. Qed.
Print Assumptions TIE_concurrency_no_offending_effect.

(* on every path the interpreter understood every construct (nothing was skipped) *)
Theorem TIE_concurrency_no_stuck : forall b t, In (b, t) entry_trees -> forall tr l s, path t tr l -> l <> LStuck s.
Proof. exact gen_no_stuck. Qed.
Print Assumptions TIE_concurrency_no_stuck.

(* on every path, exceptions included: the lock is taken only when free, released only when held, free at the end;
   FFI.compile only while it is held; every other step of the protocol only while it is not *)
Theorem TIE_concurrency_lock_discipline : forall b t, In (b, t) entry_trees ->
  forall tr l, path t tr l -> lock_run false tr = Some false.
Proof. exact gen_lock_discipline. Qed.
Print Assumptions TIE_concurrency_lock_discipline.

(* (2) STATIC: TensorMethod.__call__ on a published method object, on every path: only reads of the object and of
   tensor_cdefs / target, the allocation of its own structure, the kernel, take_ownership_of_arrays on its own
   structure.  No store to an attribute of self, no mutation of anything reached from self, no write to a
   module global, no mutation of an argument. *)
Theorem TIE_concurrency_call_no_shared_write : forall b tr l, path (method_call prog b) tr l ->
  Forall (fun e => call_effect_ok e = true) tr /\ forall s, l <> LStuck s.
Proof. exact gen_call_no_shared_write. Qed.
Print Assumptions TIE_concurrency_call_no_shared_write.

Theorem TIE_concurrency_call_writes_nothing_shared : forall b tr l, path (method_call prog b) tr l ->
  forall e, In e tr ->
  (forall p, e <> ESharedWrite p) /\ (forall g, e <> EGlobalWrite g) /\ e <> EArgWrite /\ e <> EOwnOther /\
  (forall a, e <> ENewWrite a) /\ (forall s, e <> EUnknown s).
Proof. exact gen_call_writes_nothing_shared. Qed.
Print Assumptions TIE_concurrency_call_writes_nothing_shared.

(* (3) the cache is functools.lru_cache around `return TensorMethod(problem, backend=backend)`, key = (problem, backend);
   the lock is a module-level threading.Lock() *)
Theorem TIE_concurrency_cache_is_lru_cache :
  find_fun prog "_porcelain" "cachable_tensor_method" =
    Some {| f_decorators := [EName "lru_cache"];
            f_params := [("problem", None); ("backend", None)];
            f_vararg := ""; f_kwarg := "";
            f_body := [SReturn (ECall (EName "TensorMethod") [("", EName "problem"); ("=backend", EName "backend")])] |} /\
  resolve prog 8 "_porcelain" "lru_cache" = mono (PExt "functools.lru_cache") /\
  resolve prog 8 "_porcelain" "TensorMethod" = mono (PClassV "_tensor_method" "TensorMethod") /\
  resolve prog 8 "_compile_cffi" "lock" = mono (PLock "_compile_cffi" "lock").
Proof. exact gen_cache_is_lru_cache. Qed.
Print Assumptions TIE_concurrency_cache_is_lru_cache.

(* the module-level objects (not functions, classes, imports, literals) of the six modules *)
Theorem TIE_concurrency_module_objects :
  map (fun m => (m_name m, module_objects m)) prog =
  [ ("_porcelain", []); ("_tensor_method", []); ("_compile_cffi", ["lock"]); ("_compile_llvm", []);
    ("_cffi_ownership", ["global_weakkeydict"; "tensor_cdefs"]); ("_initialize_llvm", ["target"]) ].
Proof. exact gen_module_objects. Qed.
Print Assumptions TIE_concurrency_module_objects.

(* (4) C14_interleaving_equals_sequential together with what it assumes of the code, on the regenerated programme *)
Theorem TIE_concurrency_interleaving_equals_sequential :
  (forall b t, In (b, t) entry_trees ->
     forall denote c hit tr v h, k_backend (c_key c) = b -> path t tr (LVal v h) -> lookups_are hit tr ->
       steps tr = alone_pcs denote c hit (List.length (steps tr)) /\
       Forall (fun e => offending e = false) tr /\
       lock_run false tr = Some false) /\
  (forall b tr l, path (method_call prog b) tr l -> Forall (fun e => call_effect_ok e = true) tr) /\
  (forall (denote : key -> nat -> nat) (progs : list (list call)) (sched : list action),
     complete (run denote progs sched) = true ->
     forall i, i < List.length progs ->
     results (run denote progs sched) i = map (fun c => denote (c_key c) (c_input c)) (nth i progs [])).
Proof. exact gen_interleaving_equals_sequential. Qed.
Print Assumptions TIE_concurrency_interleaving_equals_sequential.

(* not vacuous: every entry point has a successful path for either cache outcome, and on it every write to the
   method object precedes the insertion into the cache *)
Theorem TIE_concurrency_entry_points_run : forall b t, In (b, t) entry_trees -> forall hit,
  exists tr v h, path t tr (LVal v h) /\ lookups_are hit tr /\ writes_before_insert false tr = true.
Proof. exact gen_entry_points_run. Qed.
Print Assumptions TIE_concurrency_entry_points_run.
