From TV Require Import spec.Storage model.TensorBuild.
From Coq Require Import ZArith List. Import ListNotations.
Theorem C09_placeholder : True.
Proof. exact I. Qed.
Print Assumptions C09_placeholder.
