(** C09 -- tensor construction and read-back are lossless for every format.
    Model: model/TensorBuild.v (hand model of tensor.py / _cffi_ownership.py, values in Z, tied to
    /repo by the correspondence of tools/props/C09.py).  [to_dok_spec] reads with the inverse of the
    mode ordering (Storage.entries); [to_dok_impl] is Tensor.items as written in /repo before the
    repair of finding K-C09-1.  [build] is from_aos without a range check (the code today);
    [build_checked] adds the range check that finding K-C09-2 asks for.
    [sum_at c es] = sum of the values supplied at coordinate [c] (proofs/TensorBuildLemmas.v). *)
From Coq Require Import ZArith List. Import ListNotations.
From TV Require Import spec.Storage model.TensorBuild proofs.StorageLemmas proofs.TensorBuildLemmas
  proofs.TensorBuildTop proofs.TensorBuildMore proofs.TensorBuildMain proofs.TensorBuildLol.
Open Scope Z_scope.

(** Every valid format (any order, any mode mix, any permutation), any dimensions (zero included),
    any list of in-range entries (any order, duplicates, explicit zeros): construction succeeds and
    the read-back dictionary holds exactly the pairs (c, sum of the values supplied at c) with a
    non-zero sum, each once; format and dimensions are the given ones. *)
Theorem C09_roundtrip : forall fmt dims es,
  valid_formatb fmt = true -> dims_okb fmt dims = true -> all_in_rangeb dims es = true ->
  exists t, build fmt dims es = Ok t
    /\ (forall c v, In (c, v) (to_dok_spec t) <-> v = sum_at c es /\ v <> 0)
    /\ NoDup (map fst (to_dok_spec t))
    /\ format_of t = fmt /\ Storage.dims t = dims.
Proof. exact main_roundtrip. Qed.
Print Assumptions C09_roundtrip.

(** from_dok / from_aos / from_soa / from_lol all are [build] on the entry list they denote. *)
Theorem C09_entry_points : forall fmt dims,
  (forall d, from_dok fmt dims d = build fmt dims d)
  /\ (forall cs vs, length cs = length vs -> from_aos fmt dims cs vs = build fmt dims (combine cs vs))
  /\ (forall n rows vs, (0 < n)%nat -> Forall (fun r => length r = n) rows -> length rows = length vs ->
        from_soa fmt dims (columns n rows) vs = build fmt dims (combine rows vs))
  /\ (forall x, from_lol fmt dims x = build fmt dims (lol_entries x [])).
Proof. exact main_entry_points. Qed.
Print Assumptions C09_entry_points.

(** from_lol on a dense nested list of the given shape ([lol_shapeb]; zeros are skipped, cells are
    enumerated in row-major order): the read-back dictionary is exactly the non-zero cells
    ([lol_get c x] = x[c]). *)
Theorem C09_from_lol_roundtrip : forall fmt dims x,
  valid_formatb fmt = true -> dims_okb fmt dims = true -> lol_shapeb dims x = true ->
  exists t, from_lol fmt dims x = Ok t
    /\ (forall c v, In (c, v) (to_dok_spec t) <-> lol_get c x = Some v /\ v <> 0)
    /\ NoDup (map fst (to_dok_spec t))
    /\ format_of t = fmt /\ Storage.dims t = dims.
Proof. exact main_from_lol. Qed.
Print Assumptions C09_from_lol_roundtrip.

(** The stored structure is canonical: Storage.wf_tensorb (pos starts at 0, weakly increasing, one
    segment per parent position; crd strictly increasing inside every segment -- sorted and
    duplicate-free -- and within the dimension; exactly one value per leaf position). *)
Theorem C09_build_wf : forall fmt dims es,
  valid_formatb fmt = true -> dims_okb fmt dims = true -> all_in_rangeb dims es = true ->
  exists t, build fmt dims es = Ok t /\ wf_tensorb true t = true /\ validate t = true.
Proof. exact main_build_wf. Qed.
Print Assumptions C09_build_wf.

(** taco_structure_to_cffi's validation accepts every well-formed stored tensor. *)
Theorem C09_validate_accepts_build : forall t : tensor Z, wf_tensorb true t = true -> validate t = true.
Proof. exact wf_validate. Qed.
Print Assumptions C09_validate_accepts_build.

(** to_format to any other valid format of the same order keeps dimensions and content. *)
Theorem C09_to_format_preserves : forall fmt fmt' dims es t,
  valid_formatb fmt = true -> valid_formatb fmt' = true ->
  dims_okb fmt dims = true -> dims_okb fmt' dims = true -> all_in_rangeb dims es = true ->
  build fmt dims es = Ok t ->
  exists t', to_format_spec fmt' t = Ok t'
    /\ (forall c v, In (c, v) (to_dok_spec t') <-> In (c, v) (to_dok_spec t))
    /\ NoDup (map fst (to_dok_spec t'))
    /\ format_of t' = fmt' /\ Storage.dims t' = dims /\ wf_tensorb true t' = true.
Proof. exact main_to_format. Qed.
Print Assumptions C09_to_format_preserves.

(** ... and so does to_format of ANY well-formed stored tensor (e.g. a kernel output, which may carry
    one scratch value: [strict] arbitrary), not only of a constructed one. *)
Theorem C09_to_format_preserves_any_wf : forall strict (t : tensor Z) fmt',
  wf_tensorb strict t = true -> valid_formatb fmt' = true ->
  length (fordering fmt') = length (Storage.dims t) ->
  exists t', to_format_spec fmt' t = Ok t'
    /\ (forall c v, In (c, v) (to_dok_spec t') <-> In (c, v) (to_dok_spec t))
    /\ NoDup (map fst (to_dok_spec t'))
    /\ format_of t' = fmt' /\ Storage.dims t' = Storage.dims t /\ wf_tensorb true t' = true.
Proof. exact main_to_format_general. Qed.
Print Assumptions C09_to_format_preserves_any_wf.

(** __getstate__ / __setstate__ give back the identical stored tensor (for every well-formed
    tensor, in particular every constructed one). *)
Theorem C09_pickle_preserves : forall t : tensor Z, wf_tensorb true t = true -> pickle_roundtrip t = Ok t.
Proof. exact pickle_identity. Qed.
Print Assumptions C09_pickle_preserves.

(** A coordinate outside the dimensions is rejected -- with the range check of [build_checked]. *)
Theorem C09_out_of_range_rejected : forall fmt dims es,
  all_in_rangeb dims es = false -> exists err, build_checked fmt dims es = Err err.
Proof. exact build_checked_rejects. Qed.
Print Assumptions C09_out_of_range_rejected.

(** ... and the check changes nothing for in-range input (so every theorem above holds for it). *)
Theorem C09_range_check_conservative : forall fmt dims es,
  all_in_rangeb dims es = true -> build_checked fmt dims es = build fmt dims es.
Proof. exact build_checked_in_range. Qed.
Print Assumptions C09_range_check_conservative.

(** Without the range check (the code today) the full statement is false (findings/K_C09_2.v):
    [C09_out_of_range_rejected_full].  What is exactly true: the input is rejected as soon as for one
    entry the first level, in storage order, at which its coordinate is out of range is a COMPRESSED
    level.  (When for every offending entry that level is dense, the entries are silently dropped:
    known finding K-C09-2.) *)
Definition C09_out_of_range_rejected_full : Prop := forall fmt dims es,
  valid_formatb fmt = true -> dims_okb fmt dims = true ->
  all_in_rangeb dims es = false -> exists err, build fmt dims es = Err err.

Theorem C09_out_of_range_rejected_partial : forall fmt dims es,
  valid_formatb fmt = true ->
  (exists e, In e es /\
     first_bad_compressed (combine (fmodes fmt) (level_dims_list (fordering fmt) dims))
                          (to_level_order (fordering fmt) (fst e)) = true) ->
  exists err, build fmt dims es = Err err.
Proof. exact out_of_range_compressed_rejected. Qed.
Print Assumptions C09_out_of_range_rejected_partial.

Example C09_out_of_range_rejected_partial_instance :
  let fmt := mkFormat [MDense; MCompressed] [1; 0]%nat in
  let e : entry := ([3; 1], 5) in
  valid_formatb fmt = true /\ In e [([0; 0], 1); e] /\ all_in_rangeb [2; 3] [([0; 0], 1); e] = false /\
  first_bad_compressed (combine (fmodes fmt) (level_dims_list (fordering fmt) [2; 3]))
                       (to_level_order (fordering fmt) (fst e)) = true.
Proof. cbv zeta. repeat split; try reflexivity. right. left. reflexivity. Qed.

(** Tensor.items as written before the repair of K-C09-1 reads back correctly exactly for orderings
    that are their own inverse; the full statement [C09_roundtrip_impl_full] is refuted in
    findings/K_C09_1.v. *)
Definition C09_roundtrip_impl_full : Prop := forall fmt dims es,
  valid_formatb fmt = true -> dims_okb fmt dims = true -> all_in_rangeb dims es = true ->
  exists t, build fmt dims es = Ok t
    /\ (forall c v, In (c, v) (to_dok_impl t) <-> v = sum_at c es /\ v <> 0).

Theorem C09_roundtrip_impl_partial : forall fmt dims es,
  valid_formatb fmt = true -> dims_okb fmt dims = true -> all_in_rangeb dims es = true ->
  involutiveb (fordering fmt) = true ->
  exists t, build fmt dims es = Ok t
    /\ (forall c v, In (c, v) (to_dok_impl t) <-> v = sum_at c es /\ v <> 0)
    /\ NoDup (map fst (to_dok_impl t))
    /\ format_of t = fmt /\ Storage.dims t = dims.
Proof. exact main_roundtrip_impl. Qed.
Print Assumptions C09_roundtrip_impl_partial.

Example C09_roundtrip_impl_partial_instance :
  let fmt := mkFormat [MCompressed; MDense; MCompressed] [2; 1; 0]%nat in
  valid_formatb fmt = true /\ dims_okb fmt [2; 3; 4] = true
  /\ all_in_rangeb [2; 3; 4] [([1; 2; 3], 5); ([0; 0; 0], 0); ([1; 2; 3], -5)] = true
  /\ involutiveb (fordering fmt) = true
  /\ involutiveb [2; 0; 1]%nat = false.
Proof. cbv zeta. repeat split; reflexivity. Qed.

(** Instances of the hypotheses of the unconditional theorems (non-trivial: permuted ordering, mixed
    modes, duplicates, an explicit zero, a zero dimension). *)
Example C09_from_lol_roundtrip_instance :
  let x := LList [LList [LNum 0; LNum 2; LNum 0]; LList [LNum (-1); LNum 0; LNum 4]] in
  lol_shapeb [2; 3] x = true /\ lol_get [1; 2] x = Some 4 /\ lol_get [1; 3] x = None
  /\ lol_entries x [] = [([0; 1], 2); ([1; 0], -1); ([1; 2], 4)].
Proof. cbv zeta. repeat split; reflexivity. Qed.

Example C09_roundtrip_instance :
  let fmt := mkFormat [MDense; MCompressed; MCompressed] [2; 0; 1]%nat in
  let es : list entry := [([1; 2; 3], 5); ([0; 0; 0], 0); ([1; 2; 3], -2); ([1; 0; 3], 4)] in
  valid_formatb fmt = true /\ dims_okb fmt [2; 3; 4] = true /\ all_in_rangeb [2; 3; 4] es = true
  /\ (exists t, build fmt [2; 3; 4] es = Ok t /\ to_dok_spec t = [([1; 0; 3], 4); ([1; 2; 3], 3)])
  /\ dims_okb fmt [2; 0; 4] = true /\ all_in_rangeb [2; 0; 4] [] = true.
Proof. cbv zeta. repeat split; try reflexivity. eexists. split; vm_compute; reflexivity. Qed.
