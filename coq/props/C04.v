(** Property C04 -- assemble followed by compute is equivalent to evaluate.

    PROVED: the compute-kernel certificate.  If an IR function contains no allocation form and
    every store targets a variable or a cell of an array variable, then on EVERY input it never
    allocates, frees or resizes a block and never re-points a tensor field (indices[l][j], vals).
    The certificate [compute_cert] is evaluated by vm_compute on the real IR of every swept compute
    kernel (tools/props/C04.py).  The equality "assemble; compute^n == evaluate" itself is observed
    by running the three real kernels on the machine (exploration). *)

From Coq Require Import ZArith List String.
From TV Require Import spec.Num gen.IRAst spec.IRSem proofs.Certs.

Theorem C04_compute_cert_sound :
  forall fuel f args st st' v tr,
    compute_cert f = true -> call fuel f args st = Returned st' v tr ->
    same_shape st st' /\ tensors st' = tensors st.
Proof. exact compute_cert_sound. Qed.
Print Assumptions C04_compute_cert_sound.

Theorem C04_no_alloc_sound :
  forall n s st, no_alloc s = true -> pres same_shape st (exec n s st).
Proof. exact no_alloc_sound. Qed.
Print Assumptions C04_no_alloc_sound.

Theorem C04_no_field_store_sound :
  forall n s st, no_field_store s = true -> pres same_tensors st (exec n s st).
Proof. exact no_field_store_sound. Qed.
Print Assumptions C04_no_field_store_sound.
