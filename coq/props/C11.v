(** C11 -- Tensor operators agree with element-wise and matrix arithmetic.

    The theorems below are about the hand model [model/Operators.v] of the operator layer of
    [/repo/src/tensora/tensor.py] (request synthesis: assignment, output format, keyword bindings)
    and of the checks that stand between a request and the kernel.  They say: the request that
    [a + b], [a - b], [a * b], [a @ b] hand to [evaluate_tensora]
      - MEANS element-wise arithmetic / scalar broadcasting / the matrix product, read as ordinary
        tensor algebra ([denote_request]: sum of products, each additive term summed over its own
        indexes absent from the target), with the Python left operand as the left arithmetic
        operand also for the reflected methods ([__rsub__]);
      - passes every validation ([Assignment.__post_init__], [make_problem], the broadcast check,
        [Signature.bind], argument formats, index sizes) and gets the operands' dimensions, so the
        only refusals left are the documented shape error and the kernel generator's refusals;
      - asks for the documented output format when the operands are stored in natural order
        (for [@]: in any order);
      - is replaced by the shape error exactly when the dimensions disagree.

    DEPENDENCY (stated explicitly): "never a wrong value" is these theorems PLUS property C01
    ([evaluate] computes the tensor-algebra meaning of the assignment it is given, in every
    format) applied to the synthesised assignment.  C11 inherits C01's level for that step; the
    C11 check additionally tests the composed statement on the implementation (oracle sweep).
    The model is tied to the code by correspondence on every run (tools/props/C11.py). *)

From Coq Require Import ZArith String List Bool.
From TV Require Import spec.Storage model.Operators
  proofs.OperatorsDenote proofs.OperatorsChecks proofs.OperatorsRules.
Import ListNotations.
Open Scope Z_scope.

(** [l + r], [l - r], [l times r] with a tensor or a number on either side: the synthesised assignment denotes
    the element-wise operation at every coordinate of the result's order (in range or not). *)
Theorem C11_request_denotes_pointwise :
  forall (l r : operand) (o : op) (q : request) (lv rv : opvalue) (c : coord),
    binary_operator_request l r o = Ok q ->
    length c = length (pointwise_dims l r) ->
    denote_request q l r lv rv c = apply_op o (broadcast l lv c) (broadcast r rv c).
Proof. exact request_denotes_pointwise. Qed.
Print Assumptions C11_request_denotes_pointwise.

(** vector.vector, matrix.vector, vector.matrix, matrix.matrix are the sum over the shared index *)
Theorem C11_matmul_request_denotes :
  forall (l r : operand) (q : request) (lv rv : opvalue) (c : coord),
    matmul_request l r = Ok q ->
    length c = length (matmul_dims l r) ->
    denote_request q l r lv rv c = matmul_spec l r lv rv c.
Proof. exact matmul_request_denotes. Qed.
Print Assumptions C11_matmul_request_denotes.

(** the same at the level of Python's [a <op> b] (forward method, or the reflected method when
    only [b] is a Tensor): [a] is the left arithmetic operand -- [2 - t] is [2 - t], not [t - 2] *)
Theorem C11_python_operator_denotes :
  forall (p : pyop) (o : op) (a b : operand) (q : request) (av bv : opvalue) (c : coord),
    pyop_op p = Some o ->
    python_operator p a b = Ok q ->
    length c = length (pointwise_dims a b) ->
    denote_request q a b av bv c = apply_op o (broadcast a av c) (broadcast b bv c).
Proof. exact python_operator_denotes. Qed.
Print Assumptions C11_python_operator_denotes.

Theorem C11_python_matmul_denotes :
  forall (a b : operand) (q : request) (av bv : opvalue) (c : coord),
    python_operator PyMatmul a b = Ok q ->
    length c = length (matmul_dims a b) ->
    denote_request q a b av bv c = matmul_spec a b av bv c.
Proof. exact python_matmul_denotes. Qed.
Print Assumptions C11_python_matmul_denotes.

(** the request passes all checks and the output gets the tensor operand's dimensions *)
Theorem C11_request_wf :
  forall (l r : operand) (o : op) (q : request),
    wf_operand l = true -> wf_operand r = true ->
    binary_operator_request l r o = Ok q ->
    request_checks q l r = Pass (pointwise_dims l r).
Proof. exact request_wf. Qed.
Print Assumptions C11_request_wf.

Theorem C11_matmul_request_wf :
  forall (l r : operand) (q : request),
    wf_operand l = true -> wf_operand r = true ->
    matmul_request l r = Ok q ->
    request_checks q l r = Pass (matmul_dims l r).
Proof. exact matmul_request_wf. Qed.
Print Assumptions C11_matmul_request_wf.

(** natural mode order: the output is in natural order and each dimension is dense iff either
    operand is dense there (+ -), iff both are (star); a Python number is dense everywhere *)
Theorem C11_operator_format_rule :
  forall (l r : operand) (o : op) (q : request),
    wf_operand l = true -> wf_operand r = true ->
    natural_operand l = true -> natural_operand r = true ->
    binary_operator_request l r o = Ok q ->
    f_ordering (rq_format q) = natural (length (pointwise_dims l r)) /\
    length (f_modes (rq_format q)) = length (pointwise_dims l r) /\
    forall d : nat, (d < length (pointwise_dims l r))%nat ->
      format_mode_of_dim (rq_format q) d = rule_mode o (mode_of_dim l d) (mode_of_dim r d).
Proof. exact operator_format_rule. Qed.
Print Assumptions C11_operator_format_rule.

(** [@]: natural order, the modes of the operands' outer dimensions -- for every stored ordering *)
Theorem C11_matmul_format_rule :
  forall (l r : operand) (q : request),
    wf_operand l = true -> wf_operand r = true ->
    matmul_request l r = Ok q ->
    rq_format q = natural_format (matmul_outer_modes l r).
Proof. exact matmul_format_rule. Qed.
Print Assumptions C11_matmul_format_rule.

(** the shape error is raised iff both operands are tensors whose dimensions differ *)
Theorem C11_shape_error_iff :
  forall (l r : operand) (o : op),
    binary_operator_request l r o = Err EShape <->
    (is_tensor l = true /\ is_tensor r = true /\ operand_dims l <> operand_dims r).
Proof. exact shape_error_iff. Qed.
Print Assumptions C11_shape_error_iff.

(** ... for [@]: iff the orders are 1 or 2 and the contracted dimensions differ *)
Theorem C11_matmul_shape_error_iff :
  forall (l r : operand),
    matmul_request l r = Err EShape <->
    (is_tensor l = true /\ is_tensor r = true /\ matmul_orders_ok l r = true
     /\ inner_left l <> inner_right r).
Proof. exact matmul_shape_error_iff. Qed.
Print Assumptions C11_matmul_shape_error_iff.

(** every outcome is accounted for *)
Theorem C11_binary_outcomes_classified :
  forall (l r : operand) (o : op),
    match binary_operator_request l r o with
    | Ok _ => supported_pair l r = true
              /\ (is_tensor l = true -> is_tensor r = true -> operand_dims l = operand_dims r)
    | Err EShape => is_tensor l = true /\ is_tensor r = true /\ operand_dims l <> operand_dims r
    | Err ENotImplemented => supported_pair l r = false
    | Err _ => False
    end.
Proof. exact binary_request_classification. Qed.
Print Assumptions C11_binary_outcomes_classified.

Theorem C11_matmul_outcomes_classified :
  forall (l r : operand),
    match matmul_request l r with
    | Ok _ => is_tensor l = true /\ is_tensor r = true /\ matmul_orders_ok l r = true
              /\ inner_left l = inner_right r
    | Err EShape => is_tensor l = true /\ is_tensor r = true /\ matmul_orders_ok l r = true
                    /\ inner_left l <> inner_right r
    | Err EMatmulOrder => is_tensor l = true /\ is_tensor r = true /\ matmul_orders_ok l r = false
    | Err ENotImplemented => is_tensor l && is_tensor r = false
    | Err EIllFormed => wf_operand l && wf_operand r = false
    end.
Proof. exact matmul_request_classification. Qed.
Print Assumptions C11_matmul_outcomes_classified.

(** Python level, all four operators: a request that passes every check with the right output
    dimensions, or one of the documented errors; the internal IndexError is unreachable *)
Theorem C11_python_operator_total :
  forall (p : pyop) (a b : operand),
    wf_operand a = true -> wf_operand b = true ->
    match python_operator p a b with
    | Ok q => request_checks q a b =
              Pass (match pyop_op p with Some _ => pointwise_dims a b | None => matmul_dims a b end)
    | Err EIllFormed => False
    | Err _ => True
    end.
Proof. exact python_operator_total. Qed.
Print Assumptions C11_python_operator_total.
