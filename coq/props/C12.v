(** C12 -- Assignment and format text round-trips and means what arithmetic says.
    Statements only; proofs are in coq/proofs/Parser*.v, models in coq/model/Parser.v and
    coq/model/FormatParser.v, the textbook grammar in coq/spec/Grammar.v. *)
From Coq Require Import String Ascii List NArith ZArith Bool Permutation.
From TV Require Import model.Parser model.FormatParser spec.Grammar.
From TV Require proofs.ParserFuel proofs.ParserGrammar proofs.ParserMeaning proofs.ParserValidate
  proofs.ParserFormat.
Import ListNotations.

(** Parsing is total: the model parser always answers with a tree or a typed failure (the
    out-of-fuel answer is impossible with the fuel [parse_tokens] uses). *)
Theorem C12_parse_total : forall ts : list token, parse_tokens ts <> PFuel.
Proof. exact ParserFuel.parse_tokens_fuel_sufficient. Qed.
Print Assumptions C12_parse_total.

(** Printing a tree and parsing the tokens again yields the same tree -- every assignment of any
    depth that passes validation (which every parsed assignment does, next theorem). *)
Theorem C12_parse_deparse : forall a : assignment, validate a = VOk -> parse_tokens (deparse a) = POk a.
Proof. exact ParserGrammar.parse_deparse. Qed.
Print Assumptions C12_parse_deparse.

Theorem C12_parse_deparse_of_parsed :
  forall ts a, parse_tokens ts = POk a -> parse_tokens (deparse a) = POk a.
Proof. exact ParserGrammar.parse_deparse_parse. Qed.
Print Assumptions C12_parse_deparse_of_parsed.

(** The parser accepts exactly the assignment sentences of the textbook precedence grammar
    (E -> E+T | E-T | T ; T -> T*F | F ; F -> tensor | number | (E)) whose tree passes validation,
    and returns exactly the tree of the derivation: soundness and completeness. *)
Theorem C12_parse_sound_complete :
  forall ts a, parse_tokens ts = POk a <-> (DA ts a /\ validate a = VOk).
Proof. exact ParserGrammar.parse_tokens_iff_derives. Qed.
Print Assumptions C12_parse_sound_complete.

(** ... and that grammar gives a sentence only one tree. *)
Theorem C12_grammar_unambiguous : forall ts e1 e2, DE ts e1 -> DE ts e2 -> e1 = e2.
Proof. exact ParserGrammar.DE_unambiguous. Qed.
Print Assumptions C12_grammar_unambiguous.

(** The printer's output is a sentence of the textbook grammar deriving the printed tree
    ("parentheses exactly where the left fold would regroup"). *)
Theorem C12_deparse_derives : forall a, DA (deparse a) a.
Proof. exact ParserGrammar.deparse_derives. Qed.
Print Assumptions C12_deparse_derives.

(** Conventional meaning: for every interpretation of + - * , literals and tensors, the value of
    the parsed tree is the one and only value the conventional (attribute) grammar assigns to the
    right-hand-side text. *)
Theorem C12_parse_meaning :
  forall (R : Type) (radd rsub rmul : R -> R -> R) (val_int : N -> R) (val_float : dec -> R)
         (val_tensor : string -> list string -> R) ts a,
    parse_tokens ts = POk a ->
    exists body, ts = tensor_toks (tname a) (tindexes a) ++ TEq :: body /\
      VE R radd rsub rmul val_int val_float val_tensor body
         (eval R radd rsub rmul val_int val_float val_tensor (rhs a)) /\
      (forall v, VE R radd rsub rmul val_int val_float val_tensor body v ->
                 v = eval R radd rsub rmul val_int val_float val_tensor (rhs a)).
Proof. exact ParserMeaning.parse_meaning. Qed.
Print Assumptions C12_parse_meaning.

(** Validation accepts exactly: target not on the right, one order per tensor, no name both
    tensor and index. *)
Theorem C12_validate_spec :
  forall a, validate a = VOk <->
    (ParserValidate.target_not_on_rhs a /\ ParserValidate.one_order_per_tensor a /\
     ParserValidate.no_tensor_index_clash a).
Proof. exact ParserValidate.validate_spec. Qed.
Print Assumptions C12_validate_spec.

Theorem C12_validate_mutating :
  forall a, validate a = VMutating -> ~ ParserValidate.target_not_on_rhs a.
Proof. exact ParserValidate.validate_mutating. Qed.
Print Assumptions C12_validate_mutating.

Theorem C12_validate_inconsistent :
  forall a, validate a = VInconsistent -> ~ ParserValidate.one_order_per_tensor a.
Proof. exact ParserValidate.validate_inconsistent. Qed.
Print Assumptions C12_validate_inconsistent.

Theorem C12_validate_conflict :
  forall a, validate a = VNameConflict <->
    (ParserValidate.target_not_on_rhs a /\ ParserValidate.one_order_per_tensor a /\
     ~ ParserValidate.no_tensor_index_clash a).
Proof. exact ParserValidate.validate_conflict_iff. Qed.
Print Assumptions C12_validate_conflict.

(** Formats (character level, integers spelled in decimal by [show_N]). *)
Theorem C12_int_codec : forall n : N, digits_val (show_N n) = n.
Proof. exact ParserFormat.digits_val_show_N. Qed.
Print Assumptions C12_int_codec.

Theorem C12_format_roundtrip :
  forall f : format, wf_format f = true ->
    exists s, deparse_format f = Some s /\ parse_format_chars s = FOk f.
Proof. exact ParserFormat.format_roundtrip. Qed.
Print Assumptions C12_format_roundtrip.

Theorem C12_format_parsed_is_wf : forall s f, parse_format_chars s = FOk f -> wf_format f = true.
Proof. exact ParserFormat.parse_format_wf. Qed.
Print Assumptions C12_format_parsed_is_wf.

Theorem C12_format_parse_total : forall s, parse_format_chars s <> FFuel.
Proof. exact ParserFormat.parse_format_fuel_sufficient. Qed.
Print Assumptions C12_format_parse_total.

Theorem C12_format_parse_sound :
  forall s f, parse_format_chars s = FOk f ->
    (s = map mode_char (modes f) /\ ordering f = range (length (modes f)))
    \/ (exists dss : list (list ascii), length dss = length (modes f) /\
          Forall (fun ds => ds <> [] /\ forallb is_digit ds = true) dss /\
          ordering f = map digits_val dss /\
          s = flat_map (fun p => mode_char (fst p) :: snd p) (combine (modes f) dss)).
Proof. exact ParserFormat.parse_format_sound. Qed.
Print Assumptions C12_format_parse_sound.

Theorem C12_named_format_roundtrip :
  forall (nm : list ascii) (f : format),
    (match nm with c :: _ => is_var_start c = true | [] => False end) ->
    forallb is_var_char nm = true ->
    wf_format f = true ->
    exists s, deparse_format f = Some s /\
              parse_named_format_chars (nm ++ ":"%char :: s) = FOk (string_of_list_ascii nm, f).
Proof. exact ParserFormat.named_format_roundtrip. Qed.
Print Assumptions C12_named_format_roundtrip.

(** Format.__post_init__'s set comparison is "ordering is a permutation of 0..n-1" when the two
    tuples have the same length (which the parser guarantees). *)
Theorem C12_ordering_check_iff_permutation :
  forall (n : nat) (ord : list N), length ord = n ->
    (check_ordering n ord = true <-> Permutation ord (range n)).
Proof. exact ParserFormat.ordering_check_iff_permutation. Qed.
Print Assumptions C12_ordering_check_iff_permutation.
